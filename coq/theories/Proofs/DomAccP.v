(* The theorems about simple_fast and the Dominators accessors in the form C16 states them. *)
From PG Require Import Lib.Io Model.View Model.Traversal Model.MatchM Model.CutM
                       Spec.Reach Spec.DomSpec Proofs.TravBase
                       Proofs.DomSpecP Proofs.DpoTreeP Proofs.DomAlgP Proofs.DomP.

Section Acc.
Variable v : view.
Variable root : nat.
Hypothesis Hv : VOk v.
Hypothesis Hc : in_cap v root.

(* what simple_fast_char says about a returned map *)
Definition DomMap (m : list (nat * nat)) : Prop :=
  PO v root (map fst m) /\
  forall i x d, nth_error m i = Some (x, d) ->
    (x = root /\ d = root) \/
    (x <> root /\ idom v root d x /\ exists j, i < j /\ nth_error (map fst m) j = Some d).

Lemma ok_dommap debug m : simple_fast v root debug = Ok m -> DomMap m.
Proof.
  intros E. destruct (simple_fast_char v root Hv Hc debug) as [m' [po [E' [P [Em H]]]]].
  rewrite E in E'. injection E' as <-. subst po. split; assumption.
Qed.

Theorem simple_fast_no_panic debug : simple_fast v root debug <> Panic.
Proof.
  destruct (simple_fast_char v root Hv Hc debug) as [m' [po [E' _]]]. congruence.
Qed.

Theorem simple_fast_no_fuel debug : simple_fast v root debug <> OutOfFuel.
Proof.
  destruct (simple_fast_char v root Hv Hc debug) as [m' [po [E' _]]]. congruence.
Qed.

Section WithMap.
Variable m : list (nat * nat).
Hypothesis D : DomMap m.
Notation po := (map fst m).

Let P : PO v root po := proj1 D.

Lemma entry_at i x : nth_error po i = Some x ->
  exists d, nth_error m i = Some (x, d) /\ assoc_nat m x = Some d.
Proof.
  intros H. rewrite nth_error_map in H. destruct (nth_error m i) as [[x' d]|] eqn:E; [|discriminate].
  cbn [option_map fst] in H. injection H as ->. exists d. split; [reflexivity|].
  apply assoc_nat_nodup; [apply (po_nd v root po P) | eapply nth_error_In; exact E].
Qed.

Lemma assoc_at x d : assoc_nat m x = Some d -> exists i, nth_error m i = Some (x, d).
Proof. intros H. apply assoc_nat_In in H. apply In_nth_error in H. exact H. Qed.

Lemma keys_reach x : In x po <-> reachable v root x.
Proof. apply (po_reach v root po P). Qed.

Lemma entry_root : assoc_nat m root = Some root.
Proof.
  assert (Hin : In root po) by (apply keys_reach, reach_refl).
  apply In_nth_error in Hin. destruct Hin as [i Hi].
  destruct (entry_at i root Hi) as [d [H1 H2]]. rewrite H2.
  destruct (proj2 D i root d H1) as [[_ ->]|[Hne _]]; [reflexivity | congruence].
Qed.

Lemma entry_idom x d : assoc_nat m x = Some d -> x <> root -> idom v root d x.
Proof.
  intros H Hne. destruct (assoc_at x d H) as [i Hi].
  destruct (proj2 D i x d Hi) as [[Hx _]|[_ [Hid _]]]; [congruence | exact Hid].
Qed.

Lemma entry_some x : reachable v root x -> exists d, assoc_nat m x = Some d.
Proof.
  intros Hr. apply keys_reach in Hr. apply In_nth_error in Hr. destruct Hr as [i Hi].
  destruct (entry_at i x Hi) as [d [_ H]]. exists d; exact H.
Qed.

Lemma entry_none x : ~ reachable v root x -> assoc_nat m x = None.
Proof. intros Hn. apply assoc_nat_None. intros H. apply Hn, keys_reach, H. Qed.

(* ---- immediate_dominator ---- *)
Theorem immediate_dominator_iff x d : immediate_dominator root m x = Some d <-> idom v root d x.
Proof.
  unfold immediate_dominator. split.
  - destruct (Nat.eqb_spec x root) as [->|Hne]; [discriminate|]. intros H. apply entry_idom; assumption.
  - intros Hid. destruct (Nat.eqb_spec x root) as [->|Hne]; [exfalso; exact (idom_root_none v root d Hid)|].
    destruct (entry_some x (proj1 (proj1 (proj1 Hid)))) as [d' Hd']. rewrite Hd'. f_equal.
    apply (idom_unique v root d' d x); [apply entry_idom; assumption | exact Hid].
Qed.

Theorem immediate_dominator_root : immediate_dominator root m root = None.
Proof. unfold immediate_dominator. rewrite Nat.eqb_refl. reflexivity. Qed.

(* ---- chains ---- *)
Lemma dom_chain_None k : dom_chain k root m None = [].
Proof. destruct k; reflexivity. Qed.

Definition chain_ok (x : nat) (l : list nat) : Prop :=
  (forall a, In a l <-> dominates v root a x) /\
  (exists l', l = x :: l') /\
  last l root = root /\
  (forall l1 u w l2, l = l1 ++ u :: w :: l2 -> idom v root w u).

Lemma chain_spec : forall k i x, nth_error po i = Some x -> length po - i <= k ->
  chain_ok x (dom_chain k root m (Some x)).
Proof.
  induction k as [|k IH]; intros i x Hi Hk.
  - assert (i < length po) by (apply nth_error_Some; congruence). lia.
  - assert (Hrx : reachable v root x) by (apply keys_reach; eapply nth_error_In; exact Hi).
    cbn [dom_chain]. unfold immediate_dominator. destruct (Nat.eqb_spec x root) as [->|Hne].
    + rewrite dom_chain_None. split; [|split; [|split]].
      * intros a. cbn [In]. split.
        -- intros [<-|[]]. apply dominates_refl; exact Hrx.
        -- intros [_ H]. specialize (H [] eq_refl). destruct H as [H|[]]. left; exact H.
      * exists []; reflexivity.
      * reflexivity.
      * intros l1 u w l2 E. apply (f_equal (@length nat)) in E. rewrite app_length in E.
        cbn [length] in E. lia.
    + destruct (entry_at i x Hi) as [d [H1 H2]]. rewrite H2.
      destruct (proj2 D i x d H1) as [[Hx _]|[_ [Hid [j [Hij Hj]]]]]; [congruence|].
      assert (Hjl : j < length po) by (apply nth_error_Some; congruence).
      destruct (IH j d Hj ltac:(lia)) as [C1 [[l' C2] [C3 C4]]].
      remember (dom_chain k root m (Some d)) as ld eqn:Eld.
      split; [|split; [|split]].
      * intros a. cbn [In]. rewrite C1. split.
        -- intros [<-|H]; [apply dominates_refl; exact Hrx|].
           apply (dominates_trans v root a d x H). apply Hid.
        -- intros H. destruct (Nat.eq_dec x a) as [E|Hna]; [left; exact E | right].
           apply (proj2 Hid). split; [exact H | congruence].
      * exists ld; reflexivity.
      * rewrite C2 in *. exact C3.
      * intros l1 u w l2 E. destruct l1 as [|y l1]; cbn [app] in E.
        -- injection E as <- E. rewrite C2 in E. injection E as <- _. exact Hid.
        -- injection E as _ E. apply (C4 l1 u w l2 E).
Qed.

Lemma chain_fuel_indep : forall k1 k2 i x, nth_error po i = Some x ->
  length po - i <= k1 -> length po - i <= k2 ->
  dom_chain k1 root m (Some x) = dom_chain k2 root m (Some x).
Proof.
  induction k1 as [|k1 IH]; intros k2 i x Hi H1 H2.
  - assert (i < length po) by (apply nth_error_Some; congruence). lia.
  - destruct k2 as [|k2]; [assert (i < length po) by (apply nth_error_Some; congruence); lia|].
    cbn [dom_chain]. f_equal. unfold immediate_dominator. destruct (Nat.eqb_spec x root) as [->|Hne].
    + rewrite !dom_chain_None. reflexivity.
    + destruct (entry_at i x Hi) as [d [E1 E2]]. rewrite E2.
      destruct (proj2 D i x d E1) as [[Hx _]|[_ [_ [j [Hij Hj]]]]]; [congruence|].
      apply (IH k2 j d Hj); lia.
Qed.

Lemma chain_fuel i x : nth_error po i = Some x -> length po - i <= S (length m).
Proof. intros _. rewrite map_length. lia. Qed.

(* ---- dominators_of ---- *)
Theorem dominators_of_spec x l : dominators_of root m x = Some l -> chain_ok x l.
Proof.
  unfold dominators_of. destruct (assoc_nat m x) as [d|] eqn:E; [|discriminate].
  intros H. injection H as <-. destruct (assoc_at x d E) as [i Hi].
  assert (Hpi : nth_error po i = Some x) by (rewrite nth_error_map, Hi; reflexivity).
  apply (chain_spec (S (length m)) i x Hpi (chain_fuel i x Hpi)).
Qed.

Theorem dominators_of_some x : reachable v root x -> exists l, dominators_of root m x = Some l.
Proof.
  intros Hr. destruct (entry_some x Hr) as [d Hd]. unfold dominators_of. rewrite Hd. eexists; reflexivity.
Qed.

(* ---- strict_dominators_of ---- *)
Lemma strict_eq x d : assoc_nat m x = Some d ->
  strict_dominators_of root m x = Some (dom_chain (S (length m)) root m (immediate_dominator root m x)).
Proof. intros E. unfold strict_dominators_of. rewrite E. reflexivity. Qed.

Lemma domof_eq x d : assoc_nat m x = Some d ->
  dominators_of root m x = Some (x :: dom_chain (length m) root m (immediate_dominator root m x)).
Proof. intros E. unfold dominators_of. rewrite E. reflexivity. Qed.

Theorem strict_dominators_of_spec x l : strict_dominators_of root m x = Some l ->
  (forall a, In a l <-> sdom v root a x) /\
  (forall l0, dominators_of root m x = Some l0 -> l0 = x :: l).
Proof.
  destruct (assoc_nat m x) as [d|] eqn:E; [|unfold strict_dominators_of; rewrite E; discriminate].
  rewrite (strict_eq x d E), (domof_eq x d E).
  intros H. injection H as <-. split.
  2:{ intros l0 H0. injection H0 as <-. f_equal.
      destruct (Nat.eq_dec x root) as [->|Hne].
      - rewrite immediate_dominator_root, !dom_chain_None. reflexivity.
      - assert (Him : immediate_dominator root m x = Some d).
        { unfold immediate_dominator. destruct (Nat.eqb_spec x root); [congruence | exact E]. }
        rewrite Him. destruct (assoc_at x d E) as [i Hi].
        destruct (proj2 D i x d Hi) as [[Hx _]|[_ [_ [j [Hij Hj]]]]]; [congruence|].
        assert (Hjl : j < length po) by (apply nth_error_Some; congruence).
        apply (chain_fuel_indep (length m) (S (length m)) j d Hj); rewrite map_length; lia. }
  destruct (Nat.eq_dec x root) as [->|Hne].
  - rewrite immediate_dominator_root. intros a. cbn [In]. split; [tauto|]. intros H. exact (sdom_root_none v root a H).
  - assert (Him : immediate_dominator root m x = Some d).
    { unfold immediate_dominator. destruct (Nat.eqb_spec x root); [congruence | exact E]. }
    rewrite Him. destruct (assoc_at x d E) as [i Hi].
    destruct (proj2 D i x d Hi) as [[Hx _]|[_ [Hid [j [Hij Hj]]]]]; [congruence|].
    assert (Hjl : j < length po) by (apply nth_error_Some; congruence).
    destruct (chain_spec (S (length m)) j d Hj (chain_fuel j d Hj)) as [C1 _].
    intros a. split.
    + intros H. apply (proj1 (C1 a)) in H. split; [apply (dominates_trans v root a d x H); apply Hid|].
      intros ->. apply (proj2 (proj1 Hid)). apply (dominates_antisym v root d x); [apply Hid | exact H].
    + intros H. apply (proj2 (C1 a)). apply (proj2 Hid). exact H.
Qed.

(* ---- immediately_dominated_by ---- *)
Theorem immediately_dominated_by_iff x y : In y (immediately_dominated_by m x) <-> idom v root x y.
Proof.
  unfold immediately_dominated_by. rewrite in_map_iff. split.
  - intros [[k d] [Hk Hin]]. cbn [fst] in Hk. subst k. apply filter_In in Hin. destruct Hin as [Hin Hb].
    apply andb_true_iff in Hb. destruct Hb as [H1 H2]. apply Nat.eqb_eq in H1. subst d.
    apply negb_true_iff, Nat.eqb_neq in H2.
    apply In_nth_error in Hin. destruct Hin as [i Hi].
    destruct (proj2 D i y x Hi) as [[-> ->]|[_ [Hid _]]]; [congruence | exact Hid].
  - intros Hid. assert (Hne : y <> root) by (intros ->; exact (idom_root_none v root x Hid)).
    destruct (entry_some y (proj1 (proj1 (proj1 Hid)))) as [d Hd].
    assert (d = x) by (apply (idom_unique v root d x y); [apply entry_idom; assumption | exact Hid]).
    subst d. exists (y, x). split; [reflexivity|]. apply filter_In. split; [apply assoc_nat_In; exact Hd|].
    apply andb_true_iff. split; [apply Nat.eqb_refl|]. apply negb_true_iff, Nat.eqb_neq.
    apply (proj2 (proj1 Hid)).
Qed.

(* ---- nodes unreachable from the root ---- *)
Theorem unreachable_none x : ~ reachable v root x ->
  immediate_dominator root m x = None /\ dominators_of root m x = None /\
  strict_dominators_of root m x = None /\ immediately_dominated_by m x = [].
Proof.
  intros Hn. pose proof (entry_none x Hn) as E.
  unfold immediate_dominator, dominators_of, strict_dominators_of. rewrite E.
  split; [destruct (Nat.eqb x root); reflexivity|]. split; [reflexivity|]. split; [reflexivity|].
  destruct (immediately_dominated_by m x) as [|y t] eqn:El; [reflexivity | exfalso].
  assert (Hy : In y (immediately_dominated_by m x)) by (rewrite El; left; reflexivity).
  apply immediately_dominated_by_iff in Hy. apply Hn.
  apply (dominates_reach_l v root x y). apply Hy.
Qed.
End WithMap.

(* ---- D2 / D3 ---- *)
Theorem simple_fast_entries debug m : simple_fast v root debug = Ok m ->
  NoDup (map fst m) /\ (forall x, In x (map fst m) <-> reachable v root x) /\
  assoc_nat m root = Some root.
Proof.
  intros E. pose proof (ok_dommap debug m E) as D. split; [apply (po_nd v root _ (proj1 D))|].
  split; [apply (keys_reach m D) | apply (entry_root m D)].
Qed.

Theorem simple_fast_total debug :
  exists m, simple_fast v root debug = Ok m /\ NoDup (map fst m) /\
    (forall x, In x (map fst m) <-> reachable v root x) /\ assoc_nat m root = Some root.
Proof.
  destruct (simple_fast v root debug) as [m| |] eqn:E.
  - exists m. split; [reflexivity|]. apply (simple_fast_entries debug m E).
  - exfalso. exact (simple_fast_no_panic debug E).
  - exfalso. exact (simple_fast_no_fuel debug E).
Qed.

Theorem simple_fast_idom debug m : simple_fast v root debug = Ok m ->
  forall x d, x <> root -> assoc_nat m x = Some d -> idom v root d x.
Proof. intros E x d Hne H. apply (entry_idom m (ok_dommap debug m E) x d H Hne). Qed.
End Acc.
