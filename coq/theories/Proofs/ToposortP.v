(* toposort (algo/mod.rs).  Pass 1 is the post-order loop of ForestP with a self-loop test;
   pass 2 walks the reversed finish order and asks a Dfs on the reversed graph, restricted
   to the nodes not yet placed, to find nothing but the node itself. *)
From PG Require Import Lib.Io Model.View Model.Traversal Model.AlgoBasic Spec.Reach
                       Proofs.TravBase Proofs.TraversalP Proofs.TraversalAll Proofs.DpoP Proofs.DfsForestP.
Set Implicit Arguments.

(* ------------------------------------------------------------------ *)
(* Small facts                                                         *)

Lemma reachable_dec v a b : VOk v -> in_cap v a -> reachable v a b \/ ~ reachable v a b.
Proof.
  intros Hv Ha.
  destruct (dfs_reachable_vok v a (trav_fuel v) Hv Ha (le_n _)) as [l [d [_ [_ Hr]]]].
  destruct (in_dec Nat.eq_dec b l) as [Hin|Hout]; [left; apply Hr; exact Hin|].
  right. intros R. apply Hout, Hr, R.
Qed.

Lemma nodup_app_disj (l1 l2 : list nat) x : NoDup (l1 ++ l2) -> In x l1 -> In x l2 -> False.
Proof.
  induction l1 as [|a t IH]; intros Hn H1 H2; [destruct H1|].
  cbn [app] in Hn. inversion Hn as [|a' t' Ha Ht]; subst.
  destruct H1 as [->|H1]; [apply Ha, in_or_app; right; exact H2 | exact (IH Ht H1 H2)].
Qed.

Lemma filter_nil_all {A} (f : A -> bool) l : filter f l = [] -> forall x, In x l -> f x = false.
Proof.
  intros E x Hx. destruct (f x) eqn:Ef; [|reflexivity].
  assert (H : In x (filter f l)) by (apply filter_In; split; assumption).
  rewrite E in H. destruct H.
Qed.

Lemma trav_fuel_S v : exists k, trav_fuel v = S (S k).
Proof. unfold trav_fuel. eexists; reflexivity. Qed.

(* in an order where every edge points forward, nothing reaches back *)
Lemma forward_reach v l :
  (forall l1 u l2 w, l = l1 ++ u :: l2 -> step v u w -> In w l2) ->
  forall l1 u l2 x, l = l1 ++ u :: l2 -> reachable v u x -> x = u \/ In x l2.
Proof.
  intros Hf l1 u l2 x El R. induction R as [|x y Rx IH Hxy]; [left; reflexivity|]. right.
  destruct IH as [->|Hin]; [apply (Hf l1 u l2 y El Hxy)|].
  destruct (in_split x l2 Hin) as [a [b Eb]].
  assert (E2 : l = (l1 ++ u :: a) ++ x :: b) by (rewrite El, Eb, <- app_assoc; reflexivity).
  rewrite Eb. apply in_or_app; right; right. apply (Hf _ x b y E2 Hxy).
Qed.

Lemma forward_acyclic v l : NoDup l -> (forall x, In x (vnodes v) -> In x l) -> nodes_ok v ->
  (forall l1 u l2 w, l = l1 ++ u :: l2 -> step v u w -> In w l2) -> acyclic v.
Proof.
  intros Hnd Hall Hno Hf c [c' [Hs R]].
  assert (Hc : In c l) by (apply Hall; apply (Hno c c' Hs)).
  destruct (in_split c l Hc) as [l1 [l2 El]].
  pose proof (Hf l1 c l2 c' El Hs) as Hc'.
  destruct (in_split c' l2 Hc') as [a [b Eb]].
  assert (E2 : l = (l1 ++ c :: a) ++ c' :: b) by (rewrite El, Eb, <- app_assoc; reflexivity).
  rewrite E2 in Hnd.
  destruct (forward_reach Hf _ _ E2 R) as [->|Hin].
  - apply (@nodup_app_disj (l1 ++ c' :: a) (c' :: b) c' Hnd); [apply in_or_app; right|]; left; reflexivity.
  - apply (@nodup_app_disj (l1 ++ c :: a) (c' :: b) c Hnd); [apply in_or_app; right; left; reflexivity|].
    right; exact Hin.
Qed.

(* ------------------------------------------------------------------ *)
(* Pass 1                                                              *)

Lemma push_succs_none nx disc : forall succs stack, ~ In nx succs ->
  push_succs nx succs disc stack =
  (None, rev (filter (fun s => negb (is_visited disc s)) succs) ++ stack).
Proof.
  induction succs as [|s rest IH]; intros stack Hn; cbn [push_succs filter rev app]; [reflexivity|].
  destruct (Nat.eqb_spec s nx) as [->|Hne]; [exfalso; apply Hn; left; reflexivity|].
  rewrite IH by (intros H; apply Hn; right; exact H).
  destruct (is_visited disc s); cbn [negb rev]; [reflexivity|]. rewrite <- app_assoc. reflexivity.
Qed.

Lemma push_succs_some nx disc : forall succs stack, In nx succs ->
  exists st', push_succs nx succs disc stack = (Some nx, st').
Proof.
  induction succs as [|s rest IH]; intros stack Hin; [destruct Hin|]. cbn [push_succs].
  destruct (Nat.eqb_spec s nx) as [->|Hne]; [eexists; reflexivity|].
  destruct Hin as [->|Hin]; [contradiction|]. apply IH; exact Hin.
Qed.

Definition noloop (v : view) (l : list nat) : Prop := forall x, In x l -> ~ step v x x.

Section Pass1.
Variable v : view.
Hypothesis Hv : VOk v.

Let Hcap : forall a b, In a (vnodes v) -> step v a b -> in_cap v b.
Proof. intros a b _ H. destruct Hv as [[Hc _] _]. apply (Hc a b H). Qed.

Let Hnodes : forall a b, In a (vnodes v) -> step v a b -> In b (vnodes v).
Proof. intros a b _ H. destruct Hv as [_ [Hn _]]. apply (Hn a b H). Qed.

(* the inner loop: either a self-loop is met at a node, or the stack is exhausted *)
Lemma topo_inner_ok : forall fuel d finish,
  FInv v d -> pfin d = rev finish -> noloop v (pdisc d) -> pmeas v d < fuel ->
  exists c st' disc' fin' fs,
    topo_pass1_inner fuel v (pstack d) (pdisc d) (pfin d) finish = Ok (c, (st', disc', fin', fs)) /\
    match c with
    | Some n => In n (vnodes v) /\ step v n n
    | None => st' = [] /\ FInv v (mkDpo [] disc' fin') /\ fin' = rev fs /\ noloop v disc' /\
              (forall x, In x (pstack d) \/ In x (pdisc d) -> In x disc')
    end.
Proof.
  induction fuel as [|f IH]; intros d finish I Ef Hnl Hf; [lia|].
  destruct d as [st disc fin]. cbn [pstack pdisc pfin] in *. cbn [topo_pass1_inner].
  destruct st as [|nx rest].
  - exists None, [], disc, fin, finish. split; [reflexivity|]. split; [reflexivity|].
    split; [exact I|]. split; [exact Ef|]. split; [exact Hnl|]. intros x [[]|Hx]; exact Hx.
  - assert (Hc : in_cap v nx) by (apply (f_cap I); left; reflexivity).
    assert (Nnx : In nx (vnodes v)) by (apply (f_nodes I); left; left; reflexivity).
    rewrite (visit_ok v disc nx Hc). cbn [rbind].
    destruct (mem nx disc) eqn:Em; cbn [negb].
    + apply mem_In in Em. rewrite (visit_ok v fin nx Hc). cbn [rbind].
      destruct (mem nx fin) eqn:Efn; cbn [negb].
      * apply mem_In in Efn.
        pose proof (pmeas_pop v nx rest disc fin fin) as Hm.
        destruct (IH (mkDpo rest disc fin) finish (finv_skip I Em Efn) Ef Hnl) as [c [st' [disc' [fin' [fs [E Hres]]]]]]; [lia|].
        cbn [pstack pdisc pfin] in E, Hres.
        exists c, st', disc', fin', fs. split; [exact E|]. destruct c as [n|]; [exact Hres|].
        destruct Hres as [H1 [H2 [H3 [H4 H5]]]]. split; [exact H1|]. split; [exact H2|]. split; [exact H3|]. split; [exact H4|].
        intros x [[<-|Hx]|Hx]; apply H5; [right; exact Em | left; exact Hx | right; exact Hx].
      * apply mem_false in Efn.
        pose proof (pmeas_pop v nx rest disc fin (nx :: fin)) as Hm.
        destruct (IH (mkDpo rest disc (nx :: fin)) (finish ++ [nx]) (finv_finish I Em Efn)) as [c [st' [disc' [fin' [fs [E Hres]]]]]].
        { cbn [pfin]. rewrite rev_app_distr. cbn [rev app]. rewrite Ef. reflexivity. }
        { exact Hnl. }
        { lia. }
        cbn [pstack pdisc pfin] in E, Hres.
        exists c, st', disc', fin', fs. split; [exact E|]. destruct c as [n|]; [exact Hres|].
        destruct Hres as [H1 [H2 [H3 [H4 H5]]]]. split; [exact H1|]. split; [exact H2|]. split; [exact H3|]. split; [exact H4|].
        intros x [[<-|Hx]|Hx]; apply H5; [right; exact Em | left; exact Hx | right; exact Hx].
    + apply mem_false in Em.
      destruct (in_dec Nat.eq_dec nx (neighbors v nx)) as [Hloop|Hnoloop].
      * destruct (@push_succs_some nx (nx :: disc) (neighbors v nx) (nx :: rest) Hloop) as [st' E].
        rewrite E. exists (Some nx), st', (nx :: disc), fin, finish. split; [reflexivity|].
        split; [exact Nnx | exact Hloop].
      * rewrite (@push_succs_none nx (nx :: disc) (neighbors v nx) (nx :: rest) Hnoloop).
        fold (ppushes v disc nx).
        pose proof (@fmeas_discover v nx rest disc fin Nnx Em) as Hm.
        destruct (IH _ finish (finv_discover Hcap Hnodes I Em) Ef) as [c [st' [disc' [fin' [fs [E Hres]]]]]].
        { cbn [pdisc]. intros x [<-|Hx]; [exact Hnoloop | apply Hnl; exact Hx]. }
        { lia. }
        cbn [pstack pdisc pfin] in E, Hres.
        exists c, st', disc', fin', fs. split; [exact E|]. destruct c as [n|]; [exact Hres|].
        destruct Hres as [H1 [H2 [H3 [H4 H5]]]]. split; [exact H1|]. split; [exact H2|]. split; [exact H3|]. split; [exact H4|].
        intros x [Hx|Hx]; apply H5; [left; apply in_or_app; right; exact Hx | right; right; exact Hx].
Qed.

Lemma topo_pass1_ok : forall ids disc fin finish,
  FInv v (mkDpo [] disc fin) -> fin = rev finish -> noloop v disc ->
  (forall i, In i ids -> In i (vnodes v)) ->
  exists c fs, topo_pass1 v ids [] disc fin finish = Ok (c, fs) /\
    match c with
    | Some n => In n (vnodes v) /\ step v n n
    | None => exists disc', FInv v (mkDpo [] disc' (rev fs)) /\ noloop v disc' /\
                            (forall x, In x ids \/ In x disc -> In x disc')
    end.
Proof.
  induction ids as [|i rest IH]; intros disc fin finish I Ef Hnl Hids; cbn [topo_pass1].
  - exists None, finish. split; [reflexivity|]. exists disc. rewrite <- Ef.
    split; [exact I|]. split; [exact Hnl|]. intros x [[]|Hx]; exact Hx.
  - assert (Hrest : forall j, In j rest -> In j (vnodes v)) by (intros j Hj; apply Hids; right; exact Hj).
    unfold is_visited. destruct (mem i disc) eqn:Em.
    + apply mem_In in Em. destruct (IH disc fin finish I Ef Hnl Hrest) as [c [fs [E Hres]]].
      exists c, fs. split; [exact E|]. destruct c as [n|]; [exact Hres|].
      destruct Hres as [disc' [H1 [H2 H3]]]. exists disc'. split; [exact H1|]. split; [exact H2|].
      intros x [[<-|Hx]|Hx]; apply H3; [right; exact Em | left; exact Hx | right; exact Hx].
    + assert (Ni : In i (vnodes v)) by (apply Hids; left; reflexivity).
      assert (Ci : in_cap v i) by (destruct Hv as [[_ Hc] _]; apply Hc; exact Ni).
      pose proof (finv_restart i I Ni Ci) as I1.
      pose proof (fmeas_restart v disc fin i) as Hm.
      destruct (@topo_inner_ok (4 * trav_fuel v) (mkDpo [i] disc fin) finish I1 Ef Hnl) as [c [st' [disc' [fin' [fs [E Hres]]]]]]; [lia|].
      cbn [pstack pdisc pfin] in E, Hres. rewrite E. cbn [rbind].
      destruct c as [n|].
      * exists (Some n), fs. split; [reflexivity | exact Hres].
      * destruct Hres as [-> [I2 [Ef2 [Hnl2 Hmono]]]].
        destruct (IH disc' fin' fs I2 Ef2 Hnl2 Hrest) as [c [fs2 [E2 Hres2]]].
        exists c, fs2. split; [exact E2|]. destruct c as [n|]; [exact Hres2|].
        destruct Hres2 as [disc2 [H1 [H2 H3]]]. exists disc2. split; [exact H1|]. split; [exact H2|].
        intros x [[<-|Hx]|Hx]; apply H3.
        -- right. apply Hmono. left; left; reflexivity.
        -- left; exact Hx.
        -- right. apply Hmono. right; exact Hx.
Qed.

End Pass1.

(* ------------------------------------------------------------------ *)
(* Pass 2                                                              *)

Lemma dfs_next_fresh w f x rest disc : in_cap w x -> ~ In x disc ->
  dfs_next (S f) w (mkDfs (x :: rest) disc) =
  Ok (Some x, mkDfs (rev (filter (fun s => negb (is_visited (x :: disc) s)) (neighbors w x)) ++ rest) (x :: disc)).
Proof.
  intros Hc Hn. cbn [dfs_next dstack ddisc]. rewrite (visit_ok w disc x Hc). cbn [rbind].
  apply mem_false in Hn. rewrite Hn. reflexivity.
Qed.

Lemma dfs_next_nil w f disc : dfs_next (S f) w (mkDfs [] disc) = Ok (None, mkDfs [] disc).
Proof. reflexivity. Qed.

Lemma neighbors_reversed v a : neighbors (vreversed v) a = neighbors_in v a.
Proof. reflexivity. Qed.

Section Pass2.
Variable v : view.
Hypothesis Hv : VOk v.

Lemma pred_facts i p : In i (vnodes v) -> In p (neighbors_in v i) ->
  step v p i /\ In p (vnodes v) /\ in_cap v p.
Proof.
  intros Hi Hp. destruct Hv as [[_ Hc] [Hn Hio]].
  assert (Hs : step v p i) by (apply (Hio p i Hi); exact Hp).
  split; [exact Hs|]. destruct (Hn p i Hs) as [Np _]. split; [exact Np | apply Hc; exact Np].
Qed.

Lemma topo_pass2_ok : forall order d,
  NoDup order -> (forall x, In x order -> ~ In x (ddisc d)) ->
  (forall x, In x order -> In x (vnodes v)) ->
  exists o, topo_pass2 v order d = Ok o /\
    match o with
    | None => forall l1 i l2 p, order = l1 ++ i :: l2 -> In p (neighbors_in v i) ->
                In p (ddisc d) \/ In p l1 \/ p = i
    | Some j => exists l1 i l2, order = l1 ++ i :: l2 /\ In j (neighbors_in v i) /\
                  ~ In j (ddisc d) /\ ~ In j l1 /\ j <> i
    end.
Proof.
  induction order as [|i rest IH]; intros d Hnd Hfresh Hnodes.
  - exists None. split; [reflexivity|]. intros l1 i l2 p E. destruct l1; discriminate E.
  - cbn [topo_pass2]. destruct (trav_fuel_S v) as [k Ek]. rewrite Ek.
    assert (Ni : In i (vnodes v)) by (apply Hnodes; left; reflexivity).
    assert (Ci : in_cap (vreversed v) i) by (destruct Hv as [[_ Hc] _]; apply (Hc i Ni)).
    assert (Fi : ~ In i (ddisc d)) by (apply Hfresh; left; reflexivity).
    unfold dfs_move_to. rewrite (@dfs_next_fresh (vreversed v) (S k) i [] (ddisc d) Ci Fi). cbn [rbind].
    rewrite neighbors_reversed, app_nil_r.
    inversion Hnd as [|i' rest' Hir Hndr]; subst.
    set (pushes := filter (fun s => negb (is_visited (i :: ddisc d) s)) (neighbors_in v i)).
    assert (Hpush : forall p, In p pushes <-> In p (neighbors_in v i) /\ ~ In p (i :: ddisc d)).
    { intros p. unfold pushes, is_visited. rewrite filter_In, negb_true_iff, mem_false. reflexivity. }
    destruct (rev pushes) as [|j st] eqn:Erev.
    + rewrite dfs_next_nil. cbn [rbind].
      destruct (IH (mkDfs [] (i :: ddisc d)) Hndr) as [o [E Hres]].
      { cbn [ddisc]. intros x Hx [<-|Hd]; [exact (Hir Hx) | apply (Hfresh x (or_intror Hx) Hd)]. }
      { intros x Hx. apply Hnodes; right; exact Hx. }
      exists o. split; [exact E|]. cbn [ddisc] in Hres. destruct o as [j|].
      * destruct Hres as [l1 [i0 [l2 [Eo [Hj [Hjd [Hjl Hji]]]]]]].
        exists (i :: l1), i0, l2. split; [rewrite Eo; reflexivity|]. split; [exact Hj|].
        split; [intros Hd; apply Hjd; right; exact Hd|]. split; [|exact Hji].
        intros [<-|Hin]; [apply Hjd; left; reflexivity | exact (Hjl Hin)].
      * intros l1 i0 l2 p Eo Hp. destruct l1 as [|a l1]; cbn [app] in Eo.
        -- injection Eo as <- _.
           assert (Hempty : pushes = []).
           { rewrite <- (rev_involutive pushes), Erev. reflexivity. }
           destruct (in_dec Nat.eq_dec p (i :: ddisc d)) as [[<-|Hd]|Hout].
           ++ right; right; reflexivity.
           ++ left; exact Hd.
           ++ exfalso. assert (Hin : In p pushes) by (apply Hpush; split; assumption).
              rewrite Hempty in Hin. destruct Hin.
        -- injection Eo as <- Eo. destruct (Hres l1 i0 l2 p Eo Hp) as [[<-|Hd]|[Hl|He]].
           ++ right; left; left; reflexivity.
           ++ left; exact Hd.
           ++ right; left; right; exact Hl.
           ++ right; right; exact He.
    + assert (Hj : In j pushes) by (rewrite in_rev, Erev; left; reflexivity).
      apply Hpush in Hj. destruct Hj as [Hjn Hjd].
      destruct (pred_facts i j Ni Hjn) as [_ [_ Cj]].
      rewrite (@dfs_next_fresh (vreversed v) (S k) j st (i :: ddisc d) Cj Hjd). cbn [rbind].
      exists (Some j). split; [reflexivity|]. exists [], i, rest. split; [reflexivity|].
      split; [exact Hjn|]. split; [intros Hd; apply Hjd; right; exact Hd|].
      split; [intros []|]. intros ->. apply Hjd; left; reflexivity.
Qed.

End Pass2.

(* ------------------------------------------------------------------ *)
(* toposort                                                            *)

Theorem toposort_spec v : VOk v ->
  exists r, toposort v = Ok r /\
    match r with
    | inl n => In n (vnodes v) /\ on_cycle v n
    | inr l => NoDup l /\ (forall x, In x l <-> In x (vnodes v)) /\
               (forall l1 u l2 w, l = l1 ++ u :: l2 -> step v u w -> In w l2)
    end.
Proof.
  intros Hv. unfold toposort.
  destruct (@topo_pass1_ok v Hv (vnodes v) [] [] [] (finv_empty v) eq_refl) as [c [fs [E Hres]]].
  { intros x []. }
  { intros i Hi; exact Hi. }
  rewrite E. cbn [rbind]. destruct c as [n|].
  - exists (inl n). split; [reflexivity|]. destruct Hres as [Nn Hs]. split; [exact Nn|].
    exists n. split; [exact Hs | apply reach_refl].
  - destruct Hres as [disc [I [Hnl Hall]]].
    set (l := rev fs) in *.
    assert (Hdl : forall x, In x disc <-> In x l) by (intros x; apply (finv_done_disc_fin x I)).
    assert (Hnd : NoDup l) by (apply (f_nodup I)).
    assert (Hln : forall x, In x l <-> In x (vnodes v)).
    { intros x; split.
      - intros Hx. apply (f_nodes I). right. apply Hdl; exact Hx.
      - intros Hx. apply Hdl, Hall. left; exact Hx. }
    destruct (@topo_pass2_ok v Hv l dfs_empty Hnd) as [o [E2 Hres2]].
    { intros x _ []. }
    { intros x Hx; apply Hln; exact Hx. }
    rewrite E2. cbn [rmap]. cbn [dfs_empty ddisc] in Hres2. destruct o as [j|].
    + exists (inl j). split; [reflexivity|].
      destruct Hres2 as [l1 [i [l2 [El [Hj [_ [Hjl Hji]]]]]]].
      assert (Ni : In i (vnodes v)) by (apply Hln; rewrite El; apply in_or_app; right; left; reflexivity).
      destruct (pred_facts Hv i j Ni Hj) as [Hs [Nj Cj]]. split; [exact Nj|].
      exists i. split; [exact Hs|].
      assert (Ci : in_cap v i) by (destruct Hv as [[_ Hc] _]; apply Hc; exact Ni).
      destruct (@reachable_dec v i j Hv Ci) as [R|NR]; [exact R|]. exfalso.
      assert (Hj2 : In j l2).
      { apply Hln in Nj. rewrite El in Nj. apply in_app_or in Nj.
        destruct Nj as [H|[H|H]]; [contradiction | exfalso; apply Hji; symmetry; exact H | exact H]. }
      destruct (in_split j l2 Hj2) as [a [b Eb]].
      assert (E3 : l = (l1 ++ i :: a) ++ j :: b) by (rewrite El, Eb, <- app_assoc; reflexivity).
      pose proof (@f_order v _ I (l1 ++ i :: a) j b E3 i Hs NR) as Hib. cbn [pfin] in *.
      rewrite E3 in Hnd.
      apply (@nodup_app_disj (l1 ++ i :: a) (j :: b) i Hnd); [apply in_or_app; right; left; reflexivity|].
      right; exact Hib.
    + exists (inr l). split; [reflexivity|]. split; [exact Hnd|]. split; [exact Hln|].
      intros l1 u l2 w El Hs.
      destruct Hv as [Hc [Hn Hio]]. destruct (Hn u w Hs) as [Nu Nw].
      assert (Hw : In w l) by (apply Hln; exact Nw).
      assert (Hp : In u (neighbors_in v w)) by (apply (Hio u w Nw); exact Hs).
      rewrite El in Hw. apply in_app_or in Hw. destruct Hw as [Hw|[Hw|Hw]]; [| |exact Hw]; exfalso.
      * destruct (in_split w l1 Hw) as [a [b Eb]].
        assert (E3 : l = a ++ w :: (b ++ u :: l2)) by (rewrite El, Eb, <- app_assoc; reflexivity).
        destruct (Hres2 a w (b ++ u :: l2) u E3 Hp) as [[]|[Ha|He]].
        -- rewrite E3 in Hnd.
           apply (@nodup_app_disj a (w :: b ++ u :: l2) u Hnd Ha).
           right. apply in_or_app; right; left; reflexivity.
        -- subst w. apply (Hnl u); [apply Hdl, Hln; exact Nu | exact Hs].
      * subst w. apply (Hnl u); [apply Hdl, Hln; exact Nu | exact Hs].
Qed.

(* Ok with an order exactly on acyclic views, Cycle exactly on cyclic ones *)
Theorem toposort_complete v : VOk v -> acyclic v -> exists l, toposort v = Ok (inr l).
Proof.
  intros Hv Ha. destruct (toposort_spec Hv) as [r [E Hr]]. destruct r as [n|l].
  - exfalso. apply (Ha n). apply Hr.
  - exists l; exact E.
Qed.

Theorem toposort_ok_acyclic v l : VOk v -> toposort v = Ok (inr l) -> acyclic v.
Proof.
  intros Hv E. destruct (toposort_spec Hv) as [r [E' Hr]]. rewrite E in E'. injection E' as <-.
  destruct Hr as [Hnd [Hln Hf]]. destruct Hv as [_ [Hn _]].
  apply (@forward_acyclic v l Hnd); [intros x Hx; apply Hln; exact Hx | exact Hn | exact Hf].
Qed.
