(* C06b: the view of a Csr (Model/FullViewOf2.v, fview_of_csr) is total and consistent whenever the
   Csr satisfies the C05 invariant and represents an abstract graph that stores each pair once.
   The iterator facts come from the C05 lemmas (Proofs/CsrP.v, CsrR.v, CsrH.v). *)
From Coq Require Import Permutation Sorted FinFun.
From PG Require Import Lib.ListExtra Lib.Io Model.FullView Spec.ViewSpec Proofs.FullViewP
  Proofs.AdaptorP.
From PG Require Proofs.FullViewOfP.
From PG Require Import Model.FullViewOf Model.FullViewOf2.
From PG Require Import Model.CsrM Spec.CsrSpec Proofs.CsrP Proofs.CsrR Proofs.CsrH Props.C05.

(* ================= the abstract graph stores each pair once ================= *)

(* the key of a stored edge: the ordered pair when directed, the unordered pair (min, max) when not *)
Definition ekey (d : bool) (e : nat * nat * nat) : nat * nat :=
  let '(x, y, _) := e in if d then (x, y) else (Nat.min x y, Nat.max x y).

Definition spec_simple (d : bool) (s : spec) : Prop := NoDup (map (ekey d) (sedges s)).

Lemma same_pair_iff d a b x y w :
  same_pair d a b (x, y, w) = true <-> (x = a /\ y = b) \/ (d = false /\ x = b /\ y = a).
Proof.
  unfold same_pair.
  rewrite orb_true_iff, !andb_true_iff, negb_true_iff, !Nat.eqb_eq. tauto.
Qed.

Lemma ekey_same_pair d a b w' x y w :
  ekey d (x, y, w) = ekey d (a, b, w') <-> same_pair d a b (x, y, w) = true.
Proof.
  rewrite same_pair_iff. unfold ekey. destruct d.
  - split.
    + intro E. injection E as -> ->. left. split; reflexivity.
    + intros [[-> ->] | [Hd _]]; [reflexivity | discriminate].
  - split.
    + intro E. injection E as E1 E2. lia.
    + intros [[-> ->] | (_ & -> & ->)]; [reflexivity|]. f_equal; lia.
Qed.

Lemma contains_iff d s a b :
  spec_contains d s a b = true <-> exists e, In e (sedges s) /\ same_pair d a b e = true.
Proof.
  unfold spec_contains, spec_weight.
  destruct (find (same_pair d a b) (sedges s)) as [e|] eqn:E; cbn [option_map].
  - split; [intros _ | reflexivity]. apply find_some in E. exists e. exact E.
  - split; [discriminate|]. intros (e & He & Hp).
    rewrite (find_none _ _ E e He) in Hp. discriminate.
Qed.

Lemma NoDup_app_intro {A} (l1 l2 : list A) :
  NoDup l1 -> NoDup l2 -> (forall x, In x l1 -> ~ In x l2) -> NoDup (l1 ++ l2).
Proof.
  intros H1 H2 Hd. induction H1 as [|h t Hn Ht IH]; cbn [app]; [exact H2|].
  constructor.
  - rewrite in_app_iff. intros [Hi | Hi]; [exact (Hn Hi)|].
    exact (Hd h (or_introl eq_refl) Hi).
  - apply IH. intros x Hx. apply Hd. right. exact Hx.
Qed.

Lemma spec_simple_init d n : spec_simple d (spec_with_nodes n).
Proof. unfold spec_simple, spec_with_nodes. cbn [sedges map]. constructor. Qed.

Lemma spec_simple_try_add d s a b w :
  spec_simple d s -> spec_simple d (snd (spec_try_add_edge d s a b w)).
Proof.
  intro H. unfold spec_try_add_edge.
  destruct (negb (Nat.ltb a (spec_node_count s) && Nat.ltb b (spec_node_count s)));
    cbn [snd]; [exact H|].
  destruct (spec_contains d s a b) eqn:C; cbn [snd]; [exact H|].
  unfold spec_simple in *. cbn [sedges]. rewrite map_app. cbn [map].
  apply NoDup_app_intro; [exact H | constructor; [intros [] | constructor] |].
  intros k Hk [E | []]. subst k.
  apply in_map_iff in Hk. destruct Hk as ([[x y] w0] & Ek & He).
  apply ekey_same_pair in Ek.
  assert (Hc : spec_contains d s a b = true).
  { apply contains_iff. exists (x, y, w0). split; [exact He | exact Ek]. }
  rewrite C in Hc. discriminate.
Qed.

Lemma spec_simple_step d s o : spec_simple d s -> spec_simple d (spec_step d s o).
Proof.
  intro H. destruct o as [code a]. unfold spec_step.
  destruct code as [|[|[|[|c]]]].
  - exact H.
  - apply spec_simple_try_add. exact H.
  - apply spec_simple_try_add. exact H.
  - unfold spec_simple, spec_clear_edges. cbn [sedges map]. constructor.
  - exact H.
Qed.

Lemma spec_simple_final_gen d ops : forall s, spec_simple d s -> spec_simple d (spec_final d s ops).
Proof.
  unfold spec_final. induction ops as [|o rest IH]; intros s H; cbn [fold_left]; [exact H|].
  apply IH. apply spec_simple_step. exact H.
Qed.

(* every state reached by a history stores each pair once (no side condition on the history) *)
Theorem spec_simple_final d n0 ops : spec_simple d (spec_final d (spec_with_nodes n0) ops).
Proof. apply spec_simple_final_gen. apply spec_simple_init. Qed.

(* ================= the reported edges, explicitly ================= *)

Definition wt (d : bool) (s : spec) (a b : nat) : nat :=
  match spec_weight d s a b with Some w => w | None => 0 end.

Lemma spec_weights_wt d s a : spec_weights d s a = map (wt d s a) (spec_neighbors d s a).
Proof. reflexivity. Qed.

(* the quads of one row: ids i, i+1, ...; with [skip], only the targets >= a are reported *)
Fixpoint rowq (skip : bool) (i a : nat) (f : nat -> nat) (ts : list nat) : list quad :=
  match ts with
  | [] => []
  | t :: ts' =>
      (if andb skip (Nat.ltb t a) then [] else [(i, a, t, zn (f t))]) ++ rowq skip (S i) a f ts'
  end.

Lemma nz_zn x : nz (zn x) = x.
Proof. unfold nz, zn. apply Nat2Z.id. Qed.

Lemma quads_zip3_app skip i a ts ws tl :
  quads_of (zip3 skip i a ts ws ++ tl) = quads_of (zip3 skip i a ts ws) ++ quads_of tl.
Proof.
  revert i ws. induction ts as [|t ts IH]; intros i [|w ws]; cbn [zip3 app quads_of];
    try reflexivity.
  destruct (andb skip (Nat.ltb t a)); cbn [app quads_of].
  - apply IH.
  - rewrite IH. reflexivity.
Qed.

Lemma quads_zip3 skip i a f ts :
  quads_of (zip3 skip i a ts (map f ts)) = rowq skip i a f ts.
Proof.
  revert i. induction ts as [|t ts IH]; intro i; cbn [map zip3 rowq quads_of]; [reflexivity|].
  destruct (andb skip (Nat.ltb t a)); cbn [app quads_of]; [apply IH|].
  rewrite IH, !nz_zn. reflexivity.
Qed.

(* edge_references: the rows one after the other, ids running *)
Fixpoint erq (d : bool) (s : spec) (nodes : list nat) (idx : nat) : list quad :=
  match nodes with
  | [] => []
  | a :: rest =>
      rowq (negb d) idx a (wt d s a) (spec_neighbors d s a) ++
      erq d s rest (idx + length (spec_neighbors d s a))
  end.

Lemma quads_spec_erefs d s nodes idx : quads_of (spec_erefs d s nodes idx) = erq d s nodes idx.
Proof.
  revert idx. induction nodes as [|a rest IH]; intro idx; cbn [spec_erefs erq quads_of];
    [reflexivity|].
  rewrite quads_zip3_app, spec_weights_wt, quads_zip3, IH. reflexivity.
Qed.

(* ---- one row ---- *)

Lemma rowq_proj skip i a f ts :
  map (qproj false) (rowq skip i a f ts) =
  map (fun t => (0, a, t, zn (f t))) (filter (fun t => negb (andb skip (Nat.ltb t a))) ts).
Proof.
  revert i. induction ts as [|t ts IH]; intro i; cbn [rowq map filter]; [reflexivity|].
  rewrite map_app, IH. destruct (andb skip (Nat.ltb t a)); cbn [negb map app]; reflexivity.
Qed.

Lemma rowq_ids i a f ts : map q_id (rowq false i a f ts) = seq i (length ts).
Proof.
  revert i. induction ts as [|t ts IH]; intro i; cbn [rowq map length seq andb app]; [reflexivity|].
  rewrite IH. reflexivity.
Qed.

Lemma rowq_tgts i a f ts : map q_tgt (rowq false i a f ts) = ts.
Proof.
  revert i. induction ts as [|t ts IH]; intro i; cbn [rowq map andb app]; [reflexivity|].
  rewrite IH. reflexivity.
Qed.

Lemma rowq_filter_src skip i a' f ts a :
  filter (fun q => q_src q =? a) (rowq skip i a' f ts) =
  if a' =? a then rowq skip i a' f ts else [].
Proof.
  revert i. induction ts as [|t ts IH]; intro i; cbn [rowq filter].
  - destruct (a' =? a); reflexivity.
  - rewrite filter_app, IH.
    destruct (andb skip (Nat.ltb t a')); cbn [filter q_src app].
    + reflexivity.
    + destruct (a' =? a); reflexivity.
Qed.

(* ---- all rows: (source, target) pairs and the projection without ids ---- *)

Definition st (q : quad) : nat * nat := (q_src q, q_tgt q).
Definition swap (p : nat * nat) : nat * nat := (snd p, fst p).
Definition hq (d : bool) (s : spec) (p : nat * nat) : quad :=
  (0, fst p, snd p, zn (wt d s (fst p) (snd p))).

Definition PP (d : bool) (s : spec) (nodes : list nat) : list (nat * nat) :=
  flat_map (fun a => map (pair a) (filter (fun t => orb d (Nat.leb a t)) (spec_neighbors d s a)))
           nodes.

Lemma erq_proj d s nodes idx :
  map (qproj false) (erq d s nodes idx) = map (hq d s) (PP d s nodes).
Proof.
  revert idx. induction nodes as [|a rest IH]; intro idx; cbn [erq PP flat_map map];
    [reflexivity|].
  fold (PP d s rest). rewrite !map_app, rowq_proj, IH, map_map. f_equal.
  rewrite (filter_ext (fun t => negb (negb d && (t <? a))) (fun t => d || (a <=? t))).
  - reflexivity.
  - intro t. rewrite Nat.ltb_antisym. destruct d, (a <=? t); reflexivity.
Qed.

Lemma st_qproj q : st (qproj false q) = st q.
Proof. destruct q as [[[e x] y] w]. reflexivity. Qed.

Lemma st_hq d s p : st (hq d s p) = p.
Proof. destruct p. reflexivity. Qed.

Lemma erq_st d s nodes idx : map st (erq d s nodes idx) = PP d s nodes.
Proof.
  rewrite <- (map_ext _ _ st_qproj), <- map_map, erq_proj, map_map.
  rewrite (map_ext _ _ (st_hq d s)). apply map_id.
Qed.

Lemma N_In d s a b :
  In b (spec_neighbors d s a) <-> b < spec_node_count s /\ spec_contains d s a b = true.
Proof. unfold spec_neighbors. rewrite filter_In, in_seq. intuition lia. Qed.

Lemma N_NoDup d s a : NoDup (spec_neighbors d s a).
Proof. unfold spec_neighbors. apply NoDup_filter. apply seq_NoDup. Qed.

Lemma PP_In d s nodes x y :
  In (x, y) (PP d s nodes) <->
  In x nodes /\ In y (spec_neighbors d s x) /\ (d = true \/ x <= y).
Proof.
  unfold PP. rewrite in_flat_map. split.
  - intros (a & Ha & H). apply in_map_iff in H. destruct H as (t & E & Ht).
    injection E as -> ->. apply filter_In in Ht. destruct Ht as [Ht Hc].
    rewrite orb_true_iff, Nat.leb_le in Hc. tauto.
  - intros (Hx & Hy & Hc). exists x. split; [exact Hx|]. apply in_map. apply filter_In.
    split; [exact Hy|]. rewrite orb_true_iff, Nat.leb_le. exact Hc.
Qed.

Lemma pair_inj (a : nat) : Injective (pair a : nat -> nat * nat).
Proof. intros x y E. injection E as ->. reflexivity. Qed.

Lemma swap_inj : Injective swap.
Proof. intros [x y] [x' y'] E. unfold swap in E. cbn [fst snd] in E. injection E as -> ->. reflexivity. Qed.

Lemma PP_NoDup d s nodes : NoDup nodes -> NoDup (PP d s nodes).
Proof.
  intro H. induction H as [|a rest Hn Hr IH]; cbn [PP flat_map]; [constructor|].
  fold (PP d s rest). apply NoDup_app_intro.
  - apply Injective_map_NoDup; [apply pair_inj|]. apply NoDup_filter. apply N_NoDup.
  - exact IH.
  - intros [x y] H1 H2. apply in_map_iff in H1. destruct H1 as (t & E & _).
    injection E as <- _. apply PP_In in H2. apply Hn. apply H2.
Qed.

Lemma between_st d erefs a b :
  edge_between d erefs a b <->
  In (a, b) (map st erefs) \/ (d = false /\ In (b, a) (map st erefs)).
Proof.
  unfold edge_between. split.
  - intros (q & Hq & [H | [Hd H]]).
    + left. rewrite <- H. apply (in_map st). exact Hq.
    + right. split; [exact Hd|]. rewrite <- H. apply (in_map st). exact Hq.
  - intros [H | [Hd H]]; apply in_map_iff in H; destruct H as (q & E & Hq); exists q;
      (split; [exact Hq|]); [left | right; split; [exact Hd|]]; exact E.
Qed.

(* ---- undirected: the number of references is the number of stored pairs ---- *)

Lemma pp_count s :
  spec_wf s -> spec_simple false s ->
  length (PP false s (seq 0 (spec_node_count s))) = length (sedges s).
Proof.
  intros Hwf Hs. rewrite <- (map_length (ekey false) (sedges s)). apply Permutation_length.
  apply NoDup_Permutation; [apply PP_NoDup; apply seq_NoDup | exact Hs |].
  intros [x y]. rewrite PP_In, N_In, in_seq, contains_iff, in_map_iff. split.
  - intros (Hx & (Hy & ([[x0 y0] w] & He & Hp)) & [Hd | Hxy]); [discriminate|].
    exists (x0, y0, w). split; [|exact He].
    apply same_pair_iff in Hp. unfold ekey.
    destruct Hp as [[-> ->] | (_ & -> & ->)]; f_equal; lia.
  - intros ([[x0 y0] w] & Ek & He). destruct (Hwf _ _ _ He) as [H0 H1].
    unfold ekey in Ek. injection Ek as <- <-.
    split; [lia|]. split; [|right; lia]. split; [lia|].
    exists (x0, y0, w). split; [exact He|]. apply same_pair_iff. lia.
Qed.

(* ---- undirected: edges(a), as pairs, against the references ---- *)

Lemma pairs_perm s a : a < spec_node_count s ->
  Permutation
    (map (pair a) (spec_neighbors false s a))
    (filter (fun p => fst p =? a) (PP false s (seq 0 (spec_node_count s))) ++
     map swap (filter (fun p => andb (snd p =? a) (negb (fst p =? a)))
                      (PP false s (seq 0 (spec_node_count s))))).
Proof.
  intro Ha. set (PPl := PP false s (seq 0 (spec_node_count s))).
  assert (Hnd : NoDup PPl) by (apply PP_NoDup; apply seq_NoDup).
  apply NoDup_Permutation.
  - apply Injective_map_NoDup; [apply pair_inj | apply N_NoDup].
  - apply NoDup_app_intro.
    + apply NoDup_filter. exact Hnd.
    + apply Injective_map_NoDup; [apply swap_inj|]. apply NoDup_filter. exact Hnd.
    + intros [x y] H1 H2. apply filter_In in H1. destruct H1 as [H1 E1].
      cbn [fst] in E1. apply Nat.eqb_eq in E1. subst x.
      apply in_map_iff in H2. destruct H2 as ([u v] & E & H2). unfold swap in E.
      cbn [fst snd] in E. injection E as -> ->.
      apply filter_In in H2. destruct H2 as [H2 E2]. cbn [fst snd] in E2.
      rewrite andb_true_iff, negb_true_iff, Nat.eqb_neq in E2.
      unfold PPl in H1, H2. apply PP_In in H1. apply PP_In in H2.
      destruct H1 as (_ & _ & [H1 | H1]); [discriminate|].
      destruct H2 as (_ & _ & [H2 | H2]); [discriminate|]. lia.
  - intros [x y]. rewrite in_map_iff, in_app_iff, filter_In, in_map_iff. split.
    + intros (t & E & Ht). injection E as <- <-.
      pose proof (proj1 (N_In _ _ _ _) Ht) as [Htn Hc].
      destruct (le_lt_dec a t) as [L | L].
      * left. split; [|cbn [fst]; apply Nat.eqb_refl].
        unfold PPl. apply PP_In. rewrite in_seq. split; [lia|]. split; [exact Ht | right; exact L].
      * right. exists (t, a). split; [reflexivity|]. apply filter_In. split.
        -- unfold PPl. apply PP_In. rewrite in_seq, N_In. split; [lia|]. split; [|right; lia].
           split; [exact Ha|]. rewrite spec_contains_sym. exact Hc.
        -- cbn [fst snd]. rewrite Nat.eqb_refl. cbn [andb]. apply negb_true_iff.
           apply Nat.eqb_neq. lia.
    + intros [[H E] | ([u v] & E & H)].
      * cbn [fst] in E. apply Nat.eqb_eq in E. subst x. unfold PPl in H. apply PP_In in H.
        exists y. split; [reflexivity | apply H].
      * unfold swap in E. cbn [fst snd] in E. injection E as <- <-.
        apply filter_In in H. destruct H as [H E]. cbn [fst snd] in E.
        rewrite andb_true_iff, Nat.eqb_eq in E. destruct E as [-> _].
        unfold PPl in H. apply PP_In in H. destruct H as (Hu & Hv & _).
        apply in_seq in Hu. apply N_In in Hv. destruct Hv as [_ Hv].
        exists u. split; [reflexivity|]. apply N_In. split; [lia|].
        rewrite spec_contains_sym. exact Hv.
Qed.

Lemma wt_sym s a b : wt false s a b = wt false s b a.
Proof. unfold wt. rewrite spec_weight_sym. reflexivity. Qed.

Lemma hq_flip s p : q_flip (hq false s p) = hq false s (swap p).
Proof. destruct p as [x y]. unfold hq, swap. cbn [fst snd q_flip]. rewrite wt_sym. reflexivity. Qed.

Lemma rowq_proj_all i a f ts :
  map (qproj false) (rowq false i a f ts) = map (fun t => (0, a, t, zn (f t))) ts.
Proof.
  revert i. induction ts as [|t ts IH]; intro i; cbn [rowq map andb app]; [reflexivity|].
  rewrite IH. reflexivity.
Qed.

Lemma proj_filter (P : quad -> bool) l :
  (forall q, P (qproj false q) = P q) ->
  map (qproj false) (filter P l) = filter P (map (qproj false) l).
Proof. intro H. symmetry. apply map_filter_comm. exact H. Qed.

Lemma out_perm_undirected s a i erefs : a < spec_node_count s ->
  map (qproj false) erefs = map (hq false s) (PP false s (seq 0 (spec_node_count s))) ->
  same_edges false (rowq false i a (wt false s a) (spec_neighbors false s a))
                   (ViewSpec.spec_out false erefs a).
Proof.
  intros Ha E. unfold same_edges, ViewSpec.spec_out.
  set (PPl := PP false s (seq 0 (spec_node_count s))) in *.
  assert (E1 : map (qproj false) (filter (fun q => q_src q =? a) erefs) =
               map (hq false s) (filter (fun p => fst p =? a) PPl)).
  { rewrite proj_filter by (intro q; rewrite qproj_src; reflexivity).
    rewrite E. apply map_filter_comm. intros [x y]. reflexivity. }
  assert (E2 : map (qproj false)
                 (map q_flip (filter (fun q => andb (q_tgt q =? a) (negb (q_src q =? a))) erefs)) =
               map (hq false s)
                 (map swap (filter (fun p => andb (snd p =? a) (negb (fst p =? a))) PPl))).
  { rewrite map_map.
    rewrite (map_ext (fun x => qproj false (q_flip x)) (fun x => q_flip (qproj false x)))
      by (intro q; apply qproj_flip).
    rewrite <- (map_map (qproj false) q_flip).
    rewrite proj_filter by (intro q; rewrite qproj_src, qproj_tgt; reflexivity).
    rewrite E.
    rewrite (map_filter_comm (hq false s) (fun q => andb (q_tgt q =? a) (negb (q_src q =? a)))
               (fun p => andb (snd p =? a) (negb (fst p =? a)))) by (intros [x y]; reflexivity).
    rewrite !map_map. apply map_ext. intro p. apply hq_flip. }
  rewrite rowq_proj_all, map_app, E1, E2, <- map_app.
  replace (map (fun t => (0, a, t, zn (wt false s a t))) (spec_neighbors false s a))
    with (map (hq false s) (map (pair a) (spec_neighbors false s a)))
    by (rewrite map_map; reflexivity).
  apply Permutation_map. apply pairs_perm. exact Ha.
Qed.

(* ---- directed: running ids ---- *)

(* the id of the first edge of row a *)
Fixpoint off (d : bool) (s : spec) (a : nat) : nat :=
  match a with 0 => 0 | S a' => off d s a' + length (spec_neighbors d s a') end.

Definition tot (d : bool) (s : spec) (nodes : list nat) : nat :=
  list_sum (map (fun a => length (spec_neighbors d s a)) nodes).

Lemma tot_off d s m : forall k, tot d s (seq k m) + off d s k = off d s (k + m).
Proof.
  induction m as [|m IH]; intro k.
  - rewrite Nat.add_0_r. reflexivity.
  - replace (k + S m) with (S k + m) by lia. rewrite <- IH.
    unfold tot, list_sum. cbn [seq map fold_right off]. lia.
Qed.

Lemma erq_ids s nodes : forall idx, map q_id (erq true s nodes idx) = seq idx (tot true s nodes).
Proof.
  induction nodes as [|a rest IH]; intro idx; cbn [erq map]; [reflexivity|].
  rewrite map_app, IH. cbn [negb]. rewrite rowq_ids.
  unfold tot, list_sum. cbn [map fold_right]. rewrite seq_app. reflexivity.
Qed.

Lemma erq_filter_src d s a m : forall k,
  filter (fun q => q_src q =? a) (erq d s (seq k m) (off d s k)) =
  if andb (k <=? a) (a <? k + m)
  then rowq (negb d) (off d s a) a (wt d s a) (spec_neighbors d s a) else [].
Proof.
  induction m as [|m IH]; intro k; cbn [seq erq filter].
  - destruct (Nat.leb_spec k a), (Nat.ltb_spec a (k + 0)); cbn [andb]; try reflexivity. lia.
  - rewrite filter_app, rowq_filter_src.
    change (off d s k + length (spec_neighbors d s k)) with (off d s (S k)). rewrite IH.
    destruct (Nat.eqb_spec k a) as [->|Hne].
    + destruct (Nat.leb_spec (S a) a); [lia|].
      destruct (Nat.leb_spec a a); [|lia]. destruct (Nat.ltb_spec a (a + S m)); [|lia].
      cbn [andb]. apply app_nil_r.
    + cbn [app].
      destruct (Nat.leb_spec (S k) a), (Nat.leb_spec k a), (Nat.ltb_spec a (S k + m)),
        (Nat.ltb_spec a (k + S m)); cbn [andb]; try reflexivity; lia.
Qed.

(* ================= the view of a Csr that represents s ================= *)

Lemma rfilter_ok {A} (f : A -> res bool) (F : A -> bool) l :
  (forall x, In x l -> f x = Ok (F x)) -> rfilter f l = Ok (filter F l).
Proof.
  intro H. induction l as [|h t IH]; cbn [rfilter filter]; [reflexivity|].
  rewrite (H h (or_introl eq_refl)). cbn [rbind].
  rewrite IH by (intros x Hx; apply H; right; exact Hx). cbn [rmap].
  destruct (F h); reflexivity.
Qed.

Lemma map_fst_combine {A B} (l1 : list A) (l2 : list B) :
  length l1 = length l2 -> map fst (combine l1 l2) = l1.
Proof.
  revert l2. induction l1 as [|h t IH]; intros [|h2 t2] E; cbn [length] in E; try discriminate;
    cbn [combine map fst]; [reflexivity|]. rewrite IH by lia. reflexivity.
Qed.

Lemma bool_cases (b : bool) : b = true \/ b = false.
Proof. destruct b; [left | right]; reflexivity. Qed.

Section Of.
  Variable d : bool.
  Variable g : csr.
  Variable s : spec.
  Hypothesis I : CInv g.
  Hypothesis R : Rep d g s.

  Notation n := (node_count g).
  Notation N := (spec_neighbors d s).

  Lemma rep_count : n = spec_node_count s.
  Proof. destruct R as (_ & H & _). exact H. Qed.

  Lemma row_off a : a <= n -> nth_error (row g) a = Some (off d s a).
  Proof.
    induction a as [|a IH]; intro Ha; [exact (ci_row0 I)|].
    assert (Ha' : a < n) by lia.
    destruct (row_view I Ha') as (s0 & e0 & Hs0 & He0 & Hse & Hel & _ & Hns & _).
    destruct (rep_queries I R Ha') as (N' & _).
    rewrite IH in Hs0 by lia. injection Hs0 as <-.
    rewrite Hns in N'. injection N' as N'.
    rewrite He0. cbn [off]. rewrite <- N', seg_length by assumption. f_equal. lia.
  Qed.

  Definition OUTC (a : nat) : list quad := rowq false (off d s a) a (wt d s a) (N a).

  Lemma csr_edges_eq a : a < n -> csr_edges g a = Ok (OUTC a).
  Proof.
    intro Ha.
    destruct (row_view I Ha) as (s0 & e0 & Hs0 & _ & _ & _ & Hno & Hns & _).
    destruct (rep_queries I R Ha) as (N' & W' & _).
    rewrite row_off in Hs0 by lia. injection Hs0 as <-.
    rewrite Hns in N'. injection N' as N'.
    unfold csr_edges. rewrite Hno. cbn [rbind]. rewrite W'. cbn [rmap].
    rewrite N', spec_weights_wt, quads_zip3. reflexivity.
  Qed.

  Definition EREFS : list quad := erq d s (seq 0 n) 0.

  Lemma erefs_eq : erefs_loop d g (row g) 0 0 = Ok (spec_erefs d s (seq 0 n) 0).
  Proof. exact (@erefs_loop_rep d g s I R n 0 0 eq_refl). Qed.

  (* the view, explicitly *)
  Definition CF0 : fview :=
    mkFv d n (Some n) (Some (edge_count d g)) None (Some n) true d false true
         (seq 0 n) (combine (seq 0 n) (map zn (nweights g)))
         (map (fun a => (a, OUTC a)) (seq 0 n)) []
         (map (fun a => (a, N a)) (seq 0 n)) []
         EREFS
         (map (fun a => (a, filter (spec_contains d s a) (seq 0 n))) (seq 0 n)).

  Lemma fview_of_csr_eq : fview_of_csr d g = Ok CF0.
  Proof.
    unfold fview_of_csr. cbv zeta.
    rewrite (FullViewOfP.rmapM_ok _ (fun a => (a, OUTC a))).
    2:{ intros a Ha. apply in_seq in Ha. rewrite csr_edges_eq by lia. reflexivity. }
    cbn [rbind].
    rewrite (FullViewOfP.rmapM_ok _ (fun a => (a, N a))).
    2:{ intros a Ha. apply in_seq in Ha.
        destruct (@rep_queries d g s a I R) as (N' & _); [lia|]. rewrite N'. reflexivity. }
    cbn [rbind]. rewrite erefs_eq. cbn [rbind].
    rewrite (FullViewOfP.rmapM_ok _ (fun a => (a, filter (spec_contains d s a) (seq 0 n)))).
    2:{ intros a Ha. apply in_seq in Ha.
        destruct (@rep_queries d g s a I R) as (_ & _ & _ & C'); [lia|].
        rewrite (rfilter_ok _ (spec_contains d s a)) by (intros b _; apply C'). reflexivity. }
    cbn [rbind]. rewrite quads_spec_erefs. reflexivity.
  Qed.

  Lemma adj_row_N a : filter (spec_contains d s a) (seq 0 n) = N a.
  Proof. rewrite rep_count. reflexivity. Qed.

  Lemma erefs_st : map st EREFS = PP d s (seq 0 n).
  Proof. apply erq_st. Qed.

  Lemma erefs_length_directed : d = true -> length EREFS = length (column g).
  Proof.
    intro Hd. unfold EREFS.
    pose proof (row_off n (le_n n)) as Hr. rewrite (node_count_inv I) in Hr at 1.
    rewrite (ci_last I) in Hr. injection Hr as Hr.
    pose proof (tot_off d s n 0) as E. cbn [off Nat.add] in E. rewrite Nat.add_0_r in E.
    rewrite Hr, <- E, Hd, <- (map_length q_id), erq_ids, seq_length. reflexivity.
  Qed.

  Lemma erefs_length_undirected :
    d = false -> spec_simple false s -> length EREFS = length (sedges s).
  Proof.
    intros Hd Hs. destruct R as (Hwf & _).
    rewrite <- (map_length st), erefs_st, rep_count, Hd.
    apply pp_count; [exact Hwf | exact Hs].
  Qed.

  Theorem CF0_consistent : spec_simple d s -> FConsistent CF0.
  Proof.
    intro Hs. constructor.
    - constructor; unfold CF0; fvs.
      + apply seq_NoDup.
      + intros a Ha. apply in_seq in Ha. lia.
      + intros c Hc a Ha. injection Hc as <-. apply in_seq in Ha. lia.
      + intros c Hc. injection Hc as <-. rewrite seq_length. reflexivity.
      + intros _ i. rewrite in_seq. lia.
    - unfold NrefsOK, CF0. fvs. apply map_fst_combine.
      rewrite seq_length, map_length. apply (node_count_inv I).
    - constructor; unfold CF0; fvs.
      + intros q Hq. apply (in_map st) in Hq. rewrite erefs_st in Hq. unfold st in Hq.
        apply PP_In in Hq. destruct Hq as (Hx & Hy & _). split; [exact Hx|].
        apply N_In in Hy. rewrite in_seq, rep_count. lia.
      + intros c Hc. injection Hc as <-. unfold edge_count.
        destruct (bool_cases d) as [Hd | Hd].
        * rewrite Hd. symmetry. apply erefs_length_directed. exact Hd.
        * pose proof R as (_ & _ & _ & _ & Hec). unfold edge_count, spec_edge_count in Hec.
          rewrite Hd in Hec, Hs. rewrite Hd, Hec. symmetry.
          apply erefs_length_undirected; [exact Hd | exact Hs].
      + intro Hd. unfold EREFS. rewrite Hd, erq_ids. apply seq_NoDup.
      + intros _ c Hc. discriminate.
    - constructor; unfold CF0; fvs; intros; try discriminate; apply map_fst_tab.
    - constructor; unfold CF0; fvs; intros a Ha.
      + rewrite (assocl_tab (fun a => OUTC a)) by exact Ha.
        apply in_seq in Ha. destruct (bool_cases d) as [Hd | Hd].
        * apply same_edges_perm. rewrite Hd. unfold ViewSpec.spec_out. rewrite app_nil_r.
          unfold EREFS. pose proof (erq_filter_src d s a n 0) as E. cbn [off] in E.
          rewrite E. destruct (Nat.leb_spec 0 a), (Nat.ltb_spec a (0 + n)); try lia.
          cbn [andb]. unfold OUTC. rewrite Hd. cbn [negb]. apply Permutation_refl.
        * unfold OUTC. rewrite Hd. apply out_perm_undirected; [rewrite <- rep_count; lia|].
          unfold EREFS. rewrite erq_proj, Hd, rep_count. reflexivity.
      + rewrite (assocl_tab (fun a => OUTC a)) by exact Ha.
        rewrite (assocl_tab (fun a => N a)) by exact Ha.
        unfold OUTC. rewrite rowq_tgts. reflexivity.
    - constructor; unfold CF0; fvs; intro H; discriminate.
    - intros _ a b Ha Hb. unfold CF0 in *. fvs.
      rewrite (assocl_tab (fun a => filter (spec_contains d s a) (seq 0 n))) by exact Ha.
      rewrite adj_row_N, between_st, erefs_st, !PP_In.
      apply in_seq in Ha. apply in_seq in Hb. rewrite !in_seq, !N_In, <- rep_count.
      destruct (bool_cases d) as [Hd | Hd]; rewrite Hd.
      * intuition (try discriminate; try lia).
      * rewrite (spec_contains_sym s b a). destruct (le_lt_dec a b); intuition (try lia).
  Qed.

  Lemma CF0_keyed : AdjKeyed CF0.
  Proof. intros _. unfold CF0. fvs. rewrite map_fst_tab. apply incl_refl. Qed.
End Of.

(* ================= the theorems ================= *)

Theorem fview_of_csr_consistent d g s :
  CInv g -> Rep d g s -> spec_simple d s ->
  exists f, fview_of_csr d g = Ok f /\ FConsistent f /\ AdjKeyed f /\
            f_directed f = d /\ f_nodes f = seq 0 (node_count g) /\ f_bound f = node_count g /\
            (f_compact f = true /\ f_ids_ok f = d /\ f_has_in f = false /\ f_has_adj f = true).
Proof.
  intros I R Hs. exists (CF0 d g s).
  split; [apply fview_of_csr_eq; assumption|].
  split; [apply CF0_consistent; assumption|].
  split; [apply CF0_keyed|].
  repeat split.
Qed.

(* what the view lists, in terms of the abstract graph alone: edges(a) are the neighbours of a
   ascending, with ids counted from the total degree of the nodes before a; edge_references are
   the rows one after the other (undirected: only the targets >= the source, ids still counting
   every stored entry); the adjacency row of a is its neighbour list *)
Theorem fview_of_csr_lists d g s f :
  CInv g -> Rep d g s -> fview_of_csr d g = Ok f ->
  f_erefs f = erq d s (seq 0 (node_count g)) 0 /\
  f_ecount f = Some (edge_count d g) /\
  forall a, a < node_count g ->
    assocl (f_out f) a = rowq false (off d s a) a (wt d s a) (spec_neighbors d s a) /\
    assocl (f_nb f) a = spec_neighbors d s a /\
    assocl (f_adj f) a = spec_neighbors d s a.
Proof.
  intros I R E. rewrite (fview_of_csr_eq d g s I R) in E. injection E as <-.
  unfold CF0. fvs. split; [reflexivity|]. split; [reflexivity|].
  intros a Ha. assert (Hin : In a (seq 0 (node_count g))) by (apply in_seq; lia).
  rewrite (assocl_tab (fun a => OUTC d s a)) by exact Hin.
  rewrite (assocl_tab (fun a => spec_neighbors d s a)) by exact Hin.
  rewrite (assocl_tab (fun a => filter (spec_contains d s a) (seq 0 (node_count g)))) by exact Hin.
  rewrite (adj_row_N d g s R). repeat split.
Qed.

Theorem csr_adaptors d g s f k1 p1 q1 k2 p2 q2 f1 f2 :
  CInv g -> Rep d g s -> spec_simple d s -> fview_of_csr d g = Ok f ->
  In k1 [1; 3; 4; 5] -> In k2 [1; 3; 4; 5] ->
  apply_adaptor k1 p1 q1 f = Some f1 -> apply_adaptor k2 p2 q2 f1 = Some f2 -> FConsistent f2.
Proof.
  intros I R Hs E H1 H2 E1 E2.
  destruct (fview_of_csr_consistent d g s I R Hs) as (f' & E' & Hc & Hk & _).
  rewrite E in E'. injection E' as <-.
  exact (adaptor_depth2 _ _ _ _ _ _ _ _ _ H1 H2 Hc (keyed_rows _ Hk) E1 E2).
Qed.

(* every state reached by a history of add_node / add_edge / clear_edges / queries *)
Theorem csr_history_view d n0 ops :
  incremental ops ->
  exists f, fview_of_csr d (final d (with_nodes n0) ops) = Ok f /\ FConsistent f /\ AdjKeyed f.
Proof.
  intro H. destruct (C05_csr_history_refines d n0 ops H) as (I & R & _).
  destruct (fview_of_csr_consistent d _ _ I R (spec_simple_final d n0 ops))
    as (f & E & Hc & Hk & _).
  exists f. split; [exact E|]. split; [exact Hc | exact Hk].
Qed.

Theorem csr_history_adaptors d n0 ops f k1 p1 q1 k2 p2 q2 f1 f2 :
  incremental ops -> fview_of_csr d (final d (with_nodes n0) ops) = Ok f ->
  In k1 [1; 3; 4; 5] -> In k2 [1; 3; 4; 5] ->
  apply_adaptor k1 p1 q1 f = Some f1 -> apply_adaptor k2 p2 q2 f1 = Some f2 -> FConsistent f2.
Proof.
  intros H E. destruct (C05_csr_history_refines d n0 ops H) as (I & R & _).
  exact (csr_adaptors d _ _ f k1 p1 q1 k2 p2 q2 f1 f2 I R (spec_simple_final d n0 ops) E).
Qed.

(* ================= examples ================= *)

(* an undirected state with a self-loop at 2, a node added in between, a rejected duplicate (1,0) *)
Definition ex_csr_ops : list line :=
  [(1, [0; 1; 10]%Z); (1, [2; 2; 12]%Z); (1, [3; 1; 13]%Z); (1, [2; 0; 14]%Z); (0, [55]%Z);
   (1, [4; 2; 15]%Z); (1, [1; 0; 99]%Z)].

Example ex_csr_state :
  final false (with_nodes 4) ex_csr_ops =
  mkCsr [1; 2; 0; 3; 0; 2; 4; 1; 2] [10; 14; 10; 13; 14; 12; 15; 13; 15] [0; 2; 4; 7; 8; 9]
        [0; 0; 0; 0; 55] 5.
Proof. vm_compute. reflexivity. Qed.

Example ex_csr_check_undirected :
  rmap fv_check (fview_of_csr false (final false (with_nodes 4) ex_csr_ops)) = Ok 0.
Proof. vm_compute. reflexivity. Qed.

Example ex_csr_check_directed :
  rmap fv_check (fview_of_csr true (final true (with_nodes 4) ex_csr_ops)) = Ok 0.
Proof. vm_compute. reflexivity. Qed.

(* each undirected edge once, from its smaller endpoint; the ids are positions in the column vector *)
Example ex_csr_erefs :
  rmap f_erefs (fview_of_csr false (final false (with_nodes 4) ex_csr_ops)) =
  Ok [(0, 0, 1, 10%Z); (1, 0, 2, 14%Z); (3, 1, 3, 13%Z); (5, 2, 2, 12%Z); (6, 2, 4, 15%Z)].
Proof. vm_compute. reflexivity. Qed.

(* edges(2): the edge {0,2} has id 4 here and id 1 in edge_references (f_ids_ok = false);
   the self-loop is listed once *)
Example ex_csr_out2 :
  rmap (fun f => assocl (f_out f) 2) (fview_of_csr false (final false (with_nodes 4) ex_csr_ops)) =
  Ok [(4, 2, 0, 14%Z); (5, 2, 2, 12%Z); (6, 2, 4, 15%Z)].
Proof. vm_compute. reflexivity. Qed.

(* [spec_simple] is needed when undirected: this Csr satisfies the invariant and represents the
   abstract graph with the pair {0,1} stored twice (edge_count 2, by Rep), but edge_references
   yields one edge, so clause 3 (ErefsOK, er_count) fails. *)
Definition ex_csr_dup : csr := mkCsr [1; 0] [5; 5] [0; 1; 2] [0; 0] 2.
Definition ex_spec_dup : spec := mkSpec [0; 0] [(0, 1, 5); (0, 1, 6)].

Example ex_csr_dup_check : rmap fv_check (fview_of_csr false ex_csr_dup) = Ok 3.
Proof. vm_compute. reflexivity. Qed.

Example ex_csr_dup_not_simple : ~ spec_simple false ex_spec_dup.
Proof.
  unfold spec_simple, ex_spec_dup. cbn [sedges map ekey Nat.min Nat.max]. intro H.
  inversion H as [|x l Hn _]. apply Hn. left. reflexivity.
Qed.

Example ex_csr_dup_rep : CInv ex_csr_dup /\ Rep false ex_csr_dup ex_spec_dup.
Proof.
  split.
  - constructor; unfold ex_csr_dup; cbn [row nweights column cedges length].
    + reflexivity.
    + reflexivity.
    + intros [|[|[|i]]] x y Hx Hy; cbn in Hx, Hy; try discriminate;
        injection Hx as <-; injection Hy as <-; lia.
    + reflexivity.
    + reflexivity.
    + repeat constructor.
    + intros [|[|[|a]]] s0 e0 Hs He; cbn in Hs, He; try discriminate;
        injection Hs as <-; injection He as <-; cbn; repeat constructor.
  - split; [|split; [reflexivity | split; [reflexivity | split; [|reflexivity]]]].
    + intros a b w [E | [E | []]]; injection E as <- <- _; vm_compute; lia.
    + intros [|[|a]] Ha; [| |vm_compute in Ha; lia].
      * exists [1], [5]. split; [reflexivity|]. split; [reflexivity|].
        split; [repeat constructor|]. split; [|reflexivity].
        intros [|[|b]]; vm_compute; split; intro H; try discriminate; intuition lia.
      * exists [0], [5]. split; [reflexivity|]. split; [reflexivity|].
        split; [repeat constructor|]. split; [|reflexivity].
        intros [|b]; vm_compute; split; intro H; try discriminate; intuition lia.
Qed.

Example ex_csr_dup_inconsistent f : fview_of_csr false ex_csr_dup = Ok f -> ~ FConsistent f.
Proof.
  intros E H. apply fv_check_zero in H. pose proof ex_csr_dup_check as C.
  rewrite E in C. cbn [rmap] in C. injection C as C. rewrite H in C. discriminate.
Qed.

Print Assumptions fview_of_csr_consistent.
Print Assumptions csr_adaptors.
Print Assumptions csr_history_view.
Print Assumptions csr_history_adaptors.
Print Assumptions spec_simple_final.
