(* C14, towards T2: depth_first_search (dfs_visitor) driven by a visitor that only reacts to
   tree edges -- Continue / Prune / Break decided by the target w alone, [cw w] -- and started
   on visit maps that may already contain nodes (D0 discovered, F0 finished).
   On the trace machine of Spec/DfsEvents.v:
     - every node discovered by the run is reachable from the root through nodes outside D0
       that the visitor let through;
     - without a break, exactly those nodes are discovered;
     - the visitor breaks only on an edge leaving such a node.
   Then the same for the model function, with the fuel of causal_cones. *)
From PG Require Import Lib.Io Model.View Model.Traversal Spec.Reach Spec.DfsEvents
                       Proofs.TravBase Proofs.DfsEventsP Proofs.DfsVisitP.

Definition tree_ctl (cw : nat -> control) (e : dfs_event) : control :=
  match e with EvTree _ w => cw w | _ => CContinue end.

Section TreeCtl.
Variable v : view.
Variable cw : nat -> control.
Variable u : nat.            (* the root *)
Variable D0 F0 : list nat.   (* discovered / finished before the call *)

Notation ctl := (tree_ctl cw).
Definition tc_starts : list nat := u :: D0.
Notation starts := tc_starts.
Notation estep := (ev_step v ctl starts).
Notation erun := (ev_run v ctl starts).
Notation TI := (Tinv v starts).

Hypothesis Hu : ~ In u D0.

(* the nodes the walk may enter *)
Definition tc_ok (y : nat) : Prop := ~ In y D0 /\ (y = u \/ cw y = CContinue).
Definition Good (x : nat) : Prop := reach_in tc_ok v u x.

Lemma good_root : Good u.
Proof. apply ri_refl. split; [exact Hu | left; reflexivity]. Qed.

(* ------------------------------------------------------------------ *)
(* soundness                                                           *)

Record SI (st : tst) : Prop := {
  si_d0 : forall x, In x D0 -> In x (tdisc st);
  si_disc : forall x, In x (tdisc st) -> In x D0 \/ Good x;
  si_open : forall x, In x (map fst (topen st)) -> Good x;
  si_pend : forall w, tpend st = Some w -> Good w
}.

Lemma si_step st e st' : TI st -> SI st -> estep st e st' -> SI st'.
Proof.
  intros I [Hd0 Hdi Hop Hpe] H.
  inversion H as [u' o dc fn t p Hu' Hp | x w ws o dc fn t Hw | x w ws o dc fn t Hw Hf
                 | x w ws o dc fn t Hw | x o dc fn t]; subst;
    cbn [topen tdisc tfin tpend map fst] in *.
  - assert (G : Good u').
    { destruct Hp as [->|[-> [-> Hs]]]; [apply Hpe; reflexivity|].
      destruct Hs as [<-|Hs]; [apply good_root | exfalso; apply Hu', Hd0, Hs]. }
    constructor; cbn [topen tdisc tfin tpend map fst].
    + intros y Hy. right. apply Hd0, Hy.
    + intros y [<-|Hy]; [right; exact G | apply Hdi, Hy].
    + intros y [<-|Hy]; [exact G | apply Hop, Hy].
    + intros w E; discriminate E.
  - constructor; cbn [topen tdisc tfin tpend map fst]; [exact Hd0 | exact Hdi | exact Hop|].
    intros w0 E. cbn [tree_ctl] in E. destruct (cw w) eqn:Ec; cbn [is_continue] in E; try discriminate E.
    injection E as <-.
    eapply ri_step.
    + apply Hop. left; reflexivity.
    + apply (ti_frames _ _ _ I x (w :: ws)); left; reflexivity.
    + split; [intros Hin; apply Hw, Hd0, Hin | right; exact Ec].
  - constructor; cbn [topen tdisc tfin tpend map fst]; [exact Hd0 | exact Hdi | exact Hop | intros w0 E; discriminate E].
  - constructor; cbn [topen tdisc tfin tpend map fst]; [exact Hd0 | exact Hdi | exact Hop | intros w0 E; discriminate E].
  - constructor; cbn [topen tdisc tfin tpend map fst]; [exact Hd0 | exact Hdi | | intros w0 E; discriminate E].
    intros y Hy. apply Hop. right; exact Hy.
Qed.

Lemma si_run st evs st' : TI st -> SI st -> erun st evs st' -> SI st'.
Proof.
  intros I S R. induction R as [st | st e st1 evs st2 Hs Hr IH]; [exact S|].
  apply IH; [eapply ev_step_inv; eauto | eapply si_step; eauto].
Qed.

(* ------------------------------------------------------------------ *)
(* completeness (runs in which the visitor never breaks)               *)

Record CI (st : tst) : Prop := {
  ci_fin : forall x w, In x (tfin st) -> ~ In x F0 -> step v x w -> In w (tdisc st) \/ cw w = CPrune;
  ci_open : forall x ws, In (x, ws) (topen st) -> forall w, step v x w ->
              In w (tdisc st) \/ In w ws \/ tpend st = Some w \/ cw w = CPrune
}.

Lemma ci_step st e st' : TI st -> CI st -> estep st e st' -> ctl e <> CBreak -> CI st'.
Proof.
  intros I [Cf Co] H Hq.
  inversion H as [u' o dc fn t p Hu' Hp | x w ws o dc fn t Hw | x w ws o dc fn t Hw Hf
                 | x w ws o dc fn t Hw | x o dc fn t]; subst;
    cbn [topen tdisc tfin tpend] in *.
  - constructor; cbn [topen tdisc tfin tpend].
    + intros x w Hx Hx0 Hs. destruct (Cf x w Hx Hx0 Hs) as [Hd|Hc]; [left; right; exact Hd | right; exact Hc].
    + intros x ws [E|Hin] w Hs.
      * injection E as <- <-. cbn [tree_ctl is_prune]. right; left; exact Hs.
      * destruct (Co x ws Hin w Hs) as [Hd|[Hws|[Hpe|Hc]]].
        -- left; right; exact Hd.
        -- right; left; exact Hws.
        -- left; left. destruct Hp as [->|[-> _]]; [injection Hpe as ->; reflexivity | discriminate Hpe].
        -- right; right; right; exact Hc.
  - cbn [tree_ctl] in Hq. constructor; cbn [topen tdisc tfin tpend]; [exact Cf|].
    intros x0 ws0 [E|Hin] w0 Hs.
    + injection E as <- <-.
      destruct (Co x (w :: ws) (or_introl eq_refl) w0 Hs) as [Hd|[[<-|Hws]|[Hpe|Hc]]].
      * left; exact Hd.
      * cbn [tree_ctl]. destruct (cw w) eqn:Ec; cbn [is_continue].
        -- right; right; left; reflexivity.
        -- right; right; right; reflexivity.
        -- contradiction Hq; reflexivity.
      * right; left; exact Hws.
      * discriminate Hpe.
      * right; right; right; exact Hc.
    + destruct (Co x0 ws0 (or_intror Hin) w0 Hs) as [Hd|[Hws|[Hpe|Hc]]];
        [left; exact Hd | right; left; exact Hws | discriminate Hpe | right; right; right; exact Hc].
  - constructor; cbn [topen tdisc tfin tpend]; [exact Cf|].
    intros x0 ws0 [E|Hin] w0 Hs.
    + injection E as <- <-.
      destruct (Co x (w :: ws) (or_introl eq_refl) w0 Hs) as [Hd|[[<-|Hws]|[Hpe|Hc]]];
        [left; exact Hd | left; exact Hw | right; left; exact Hws | discriminate Hpe | right; right; right; exact Hc].
    + destruct (Co x0 ws0 (or_intror Hin) w0 Hs) as [Hd|[Hws|[Hpe|Hc]]];
        [left; exact Hd | right; left; exact Hws | discriminate Hpe | right; right; right; exact Hc].
  - assert (Hwd : In w dc) by (apply (ti_fin_disc _ _ _ I); exact Hw).
    constructor; cbn [topen tdisc tfin tpend]; [exact Cf|].
    intros x0 ws0 [E|Hin] w0 Hs.
    + injection E as <- <-.
      destruct (Co x (w :: ws) (or_introl eq_refl) w0 Hs) as [Hd|[[<-|Hws]|[Hpe|Hc]]];
        [left; exact Hd | left; exact Hwd | right; left; exact Hws | discriminate Hpe | right; right; right; exact Hc].
    + destruct (Co x0 ws0 (or_intror Hin) w0 Hs) as [Hd|[Hws|[Hpe|Hc]]];
        [left; exact Hd | right; left; exact Hws | discriminate Hpe | right; right; right; exact Hc].
  - constructor; cbn [topen tdisc tfin tpend].
    + intros x0 w0 [<-|Hx0] Hn Hs; [|apply (Cf x0 w0 Hx0 Hn Hs)].
      destruct (Co x [] (or_introl eq_refl) w0 Hs) as [Hd|[[]|[Hpe|Hc]]];
        [left; exact Hd | discriminate Hpe | right; exact Hc].
    + intros x0 ws0 Hin w0 Hs. apply (Co x0 ws0 (or_intror Hin) w0 Hs).
Qed.

Lemma ci_run st evs st' : TI st -> CI st -> erun st evs st' -> quiet ctl evs -> CI st'.
Proof.
  intros I C R Q. induction R as [st | st e st1 evs st2 Hs Hr IH]; [exact C|].
  inversion Q as [|e' evs' Qe Qr]; subst.
  apply IH; [eapply ev_step_inv; eauto | eapply ci_step; eauto | exact Qr].
Qed.

(* ------------------------------------------------------------------ *)
(* a run from the call state                                           *)

Variable t0 : nat.
Definition tc_init : tst := mkT [] D0 F0 t0 None.
Hypothesis I0 : TI tc_init.

Lemma si_init : SI tc_init.
Proof.
  constructor; cbn [tc_init topen tdisc tfin tpend map].
  - intros x Hx; exact Hx.
  - intros x Hx; left; exact Hx.
  - intros x [].
  - intros w E; discriminate E.
Qed.

Lemma ci_init : CI tc_init.
Proof.
  constructor; cbn [tc_init topen tdisc tfin tpend].
  - intros x w Hx Hn _. contradiction.
  - intros x ws [].
Qed.

(* every tree edge reported leaves a node of the walk and leads outside D0 *)
Lemma tree_events evs st : erun tc_init evs st ->
  forall pre x w post, evs = pre ++ EvTree x w :: post -> Good x /\ step v x w /\ ~ In w D0.
Proof.
  intros R pre x w post E. subst evs. apply ev_run_split in R.
  destruct R as [st1 [st2 [R1 [Hs _]]]].
  pose proof (ev_run_inv _ _ _ _ _ _ I0 R1) as I1.
  pose proof (si_run _ _ _ I0 si_init R1) as S1.
  destruct (ev_step_edge _ _ _ _ _ _ I1 Hs x w (or_introl eq_refl)) as [Hst [ws [o Eo]]].
  split; [|split; [exact Hst|]].
  - apply (si_open _ S1). rewrite Eo. left; reflexivity.
  - inversion Hs as [| x' w' ws' o' dc fn t Hw | | |]; subst.
    intros Hin. apply Hw. apply (si_d0 _ S1) in Hin. exact Hin.
Qed.

(* a break happens on an edge leaving a node of the walk *)
Lemma break_edge evs st : erun tc_init evs st -> brk_ok ctl true evs ->
  exists x w, Good x /\ step v x w /\ cw w = CBreak.
Proof.
  intros R [pre [e [E [_ Hc]]]].
  destruct e as [a b|x w|a b|a b|a b]; cbn [tree_ctl] in Hc; try discriminate Hc.
  destruct (tree_events evs st R pre x w [] E) as [G [Hs _]].
  exists x, w. split; [exact G|]. split; [exact Hs | exact Hc].
Qed.

(* without a break, when the call returns (nothing open, root discovered): *)
Section Done.
Variable evs : list dfs_event.
Variable st : tst.
Hypothesis R : erun tc_init evs st.
Hypothesis Q : quiet ctl evs.
Hypothesis Ho : topen st = [].
Hypothesis Hr : In u (tdisc st).

Lemma done_new_closed x w : In x (tdisc st) -> ~ In x D0 -> step v x w -> In w (tdisc st) \/ cw w = CPrune.
Proof.
  intros Hx Hn Hs.
  pose proof (ev_run_inv _ _ _ _ _ _ I0 R) as I1.
  pose proof (ci_run _ _ _ I0 ci_init R Q) as C1.
  apply (ci_fin _ C1 x w); [| |exact Hs].
  - destruct (ti_cover _ _ _ I1 x Hx) as [H|H]; [exact H | rewrite Ho in H; destruct H].
  - intros Hf. apply Hn. apply (ti_fin_disc _ _ _ I0 x Hf).
Qed.

Lemma done_good_disc x : Good x -> In x (tdisc st) /\ ~ In x D0.
Proof.
  intros G. induction G as [Hs | x y Gx IH Hxy Hy].
  - split; [exact Hr | exact Hu].
  - destruct IH as [Hx Hxn]. destruct Hy as [Hyn Hyc]. split; [|exact Hyn].
    destruct (done_new_closed x y Hx Hxn Hxy) as [Hd|Hc]; [exact Hd|].
    destruct Hyc as [->|Hyc]; [exact Hr | congruence].
Qed.

(* exactly the nodes of the walk are new *)
Theorem done_disc_iff x : In x (tdisc st) <-> In x D0 \/ Good x.
Proof.
  pose proof (si_run _ _ _ I0 si_init R) as S1. split.
  - apply (si_disc _ S1).
  - intros [Hx|G]; [apply (si_d0 _ S1), Hx | apply (done_good_disc x G)].
Qed.

(* every edge leaving the walk leads to a discovered node or was pruned *)
Theorem done_edges x w : Good x -> step v x w -> In w (tdisc st) \/ cw w = CPrune.
Proof. intros G Hs. destruct (done_good_disc x G) as [Hx Hn]. apply (done_new_closed x w Hx Hn Hs). Qed.

Lemma nodup_app_disjoint {A} (l1 l2 : list A) x : NoDup (l1 ++ l2) -> In x l1 -> In x l2 -> False.
Proof.
  induction l1 as [|a t IH]; cbn [app]; intros Hnd H1 H2; [destruct H1|].
  inversion Hnd as [|a' t' Ha Ht]; subst. destruct H1 as [->|H1].
  - apply Ha. apply in_or_app; right; exact H2.
  - apply IH; assumption.
Qed.

(* the Discover events of the call are those of the nodes of the walk *)
Theorem done_new_iff x : In x (disc_nodes evs) <-> Good x.
Proof.
  pose proof (ev_run_disc _ _ _ _ _ _ R) as Hd. cbn [tc_init tdisc] in Hd.
  pose proof (ev_run_inv _ _ _ _ _ _ I0 R) as I1.
  pose proof (ti_nd_disc _ _ _ I1) as Hnd. rewrite Hd in Hnd. split.
  - intros Hx. assert (Hx' : In x (rev (disc_nodes evs))) by (apply in_rev in Hx; exact Hx).
    assert (Hxd : In x (tdisc st)) by (rewrite Hd; apply in_or_app; left; exact Hx').
    destruct (proj1 (done_disc_iff x) Hxd) as [H0|G]; [|exact G].
    exfalso. exact (nodup_app_disjoint _ _ x Hnd Hx' H0).
  - intros G. destruct (done_good_disc x G) as [Hx Hn]. rewrite Hd in Hx. apply in_app_or in Hx.
    destruct Hx as [Hx|Hx]; [apply in_rev; exact Hx | contradiction].
Qed.

End Done.
End TreeCtl.

(* ------------------------------------------------------------------ *)
(* The model function                                                  *)

Section Model.
Variable v : view.
Variable cw : nat -> control.
Variable debug : bool.
Hypothesis Hcap : forall a b, step v a b -> in_cap v b.
Hypothesis Hnodes : nodes_ok v.

Notation ctl := (tree_ctl cw).

Lemma tree_ctl_fin : forall a t, ctl (EvFinish a t) <> CPrune.
Proof. intros a t. cbn [tree_ctl]. discriminate. Qed.

Lemma psi_le_nil m : psi v m <= length (all_out v) + 2 * vnode_count v.
Proof.
  rewrite <- psi_nil. unfold psi. apply usum_nil_le.
Qed.

(* the call dfs_visitor fuel v ctl debug u (mkDv D0 F0 t0 E0) with enough fuel *)
Theorem tree_ctl_visit fuel u D0 F0 t0 E0 :
  ~ In u D0 -> in_cap v u ->
  Tinv v (tc_starts u D0) (tc_init D0 F0 t0) ->
  length (all_out v) + 2 * vnode_count v + 3 <= fuel ->
  exists brk s' new,
    dfs_visitor fuel v ctl debug u (mkDv D0 F0 t0 E0) = Ok (brk, s') /\
    vevs s' = rev new ++ E0 /\
    (forall pre x w post, new = pre ++ EvTree x w :: post ->
       Good v cw u D0 x /\ step v x w /\ ~ In w D0) /\
    (brk = true -> exists x w, Good v cw u D0 x /\ step v x w /\ cw w = CBreak) /\
    (brk = false ->
       vdisc s' = rev (disc_nodes new) ++ D0 /\
       (forall x, In x (vdisc s') <-> In x D0 \/ Good v cw u D0 x) /\
       (forall x w, Good v cw u D0 x -> step v x w -> In w (vdisc s') \/ cw w = CPrune) /\
       (forall x, In x (disc_nodes new) <-> Good v cw u D0 x) /\
       (forall v' starts' t', (forall x, In x (vdisc s') -> exists r, In r starts' /\ reachable v' r x) ->
          Tinv v' starts' (tc_init (vdisc s') (vfin s') t'))).
Proof.
  intros Hu Hc I0 Hf.
  set (s := mkDv D0 F0 t0 E0).
  pose proof (proj1 (specs v ctl debug (tc_starts u D0) Hcap Hnodes tree_ctl_fin fuel)) as VS.
  pose proof (psi_le_nil D0) as Hpsi.
  destruct (VS u s [] None) as [brk [s' [new [Er [Ev [Hb Hr]]]]]].
  - exact I0.
  - exact Hc.
  - exact Hu.
  - right. split; [reflexivity|]. split; [reflexivity | left; reflexivity].
  - cbn [s vdisc]. lia.
  - right. cbn [s vdisc]. lia.
  - exists brk, s', new. split; [exact Er|]. split; [exact Ev|].
    change (St s [] None) with (tc_init D0 F0 t0) in Hr.
    split.
    { destruct brk.
      - destruct Hr as [st' Hr]. exact (tree_events v cw u D0 F0 Hu t0 I0 new st' Hr).
      - destruct Hr as [Hr _]. exact (tree_events v cw u D0 F0 Hu t0 I0 new _ Hr). }
    split.
    { intros ->. destruct Hr as [st' Hr]. exact (break_edge v cw u D0 F0 Hu t0 I0 new st' Hr Hb). }
    intros ->. destruct Hr as [Hr Hpost]. cbn [brk_ok] in Hb.
    split; [|split; [|split; [|split]]].
    + apply ev_run_disc in Hr. exact Hr.
    + intros x. exact (done_disc_iff v cw u D0 F0 Hu t0 I0 new _ Hr Hb eq_refl Hpost x).
    + intros x w. exact (done_edges v cw u D0 F0 Hu t0 I0 new _ Hr Hb eq_refl Hpost x w).
    + intros x. exact (done_new_iff v cw u D0 F0 Hu t0 I0 new _ Hr Hb eq_refl Hpost x).
    + intros v' starts' t' Hroots.
      pose proof (ev_run_inv _ _ _ _ _ _ I0 Hr) as I1.
      destruct I1 as [Hfd Hod Hof Hon Hcv Hnd Hnf Hfr Hpe Hro].
      cbn [St topen tdisc tfin tpend map] in *.
      constructor; cbn [tc_init topen tdisc tfin tpend map]; auto.
      * intros uu ws [].
      * intros w E; discriminate E.
Qed.

End Model.
