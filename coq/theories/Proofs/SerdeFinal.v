(* C17: the theorems in the form quoted by Props/C17.v. *)
From Coq Require Import Permutation Sorted.
From PG Require Import Lib.ListArr Lib.ListExtra Lib.Walk Model.GraphM Model.StableM Model.StableIO
  Model.SerdeM Spec.SerdeSpec Proofs.GraphP Proofs.GraphQ Proofs.GraphRE Proofs.GraphRN Proofs.StableP
  Proofs.StableE Proofs.StableT Proofs.SerdeGP Proofs.SerdeIL Proofs.SerdeSP Proofs.SerdeSQ Proofs.SerdeRT.

Section SerdeFinal.
  Variable cap : nat.
  Variable capcheck : bool.

  Notation GInv := (@GInv nat nat cap).
  Notation adj := (@adj (option nat) (option nat) cap).
  Notation adjf := (@adjf nat nat cap).

  (* ---------------- meanings of the acceptance predicates ---------------- *)

  Theorem F_graph_wire_ok_meaning directed (w : wire) :
    graph_wire_ok cap capcheck directed w <->
    w_holes w = [] /\
    (forall e, In e (w_edges w) -> e <> None) /\
    w_directed w = directed /\
    (capcheck = true -> length (w_nodes w) < cap) /\
    (capcheck = true -> length (w_edges w) < cap) /\
    (forall s t x, In (Some (s, t, x)) (w_edges w) -> s < length (w_nodes w) /\ t < length (w_nodes w)).
  Proof. reflexivity. Qed.

  Theorem F_stable_wire_ok_meaning directed (w : wire) slots :
    stable_wire_ok cap capcheck directed w slots <->
    w_directed w = directed /\
    (capcheck = true -> length (w_edges w) < cap) /\
    (StronglySorted lt (w_holes w) /\
     Forall (fun h => h < length (w_nodes w) + length (w_holes w)) (w_holes w)) /\
    (length slots = length (w_nodes w) + length (w_holes w) /\
     (forall i, nth_error slots i = Some None <-> In i (w_holes w)) /\
     somes slots = w_nodes w) /\
    (capcheck = true -> length slots < cap) /\
    (forall s t x, In (Some (s, t, x)) (w_edges w) ->
       (exists v, nth_error slots s = Some (Some v)) /\ (exists v, nth_error slots t = Some (Some v))).
  Proof. reflexivity. Qed.

  (* ---------------- T1 ---------------- *)

  Theorem F_graph_deser directed (w : wire) :
    (capcheck = false -> length (w_nodes w) <= cap /\ length (w_edges w) <= cap) ->
    (deser_graph cap capcheck directed w = None /\ ~ graph_wire_ok cap capcheck directed w) \/
    (exists g, deser_graph cap capcheck directed w = Some g /\
       graph_wire_ok cap capcheck directed w /\ GInv g /\
       map (@nwt _) (gnodes g) = w_nodes w /\
       map (fun e => Some (fst (enode e), snd (enode e), ewt e)) (gedges g) = w_edges w).
  Proof. apply deser_graph_total. Qed.

  Theorem F_graph_deser_sound directed (w : wire) :
    (forall g, deser_graph cap capcheck directed w = Some g -> graph_wire_ok cap capcheck directed w) /\
    (~ graph_wire_ok cap capcheck directed w -> deser_graph cap capcheck directed w = None).
  Proof.
    split; [intros g; apply deser_graph_some_inv|apply deser_graph_rejects].
  Qed.

  (* ---------------- T2 ---------------- *)

  Theorem F_graph_roundtrip d (g : graph nat nat) :
    GInv g ->
    (capcheck = true -> length (gnodes g) < cap /\ length (gedges g) < cap) ->
    exists g', deser_graph cap capcheck d (ser_graph d g) = Some g' /\ GInv g' /\
      map (@nwt _) (gnodes g') = map (@nwt _) (gnodes g) /\
      etrip g' = etrip g /\
      graph_obs_eq g g' /\
      (forall k i, i < length (gnodes g) ->
         NoDup (adjf g' k i) /\ NoDup (adjf g k i) /\
         (forall x, In x (adjf g' k i) <-> In x (adjf g k i)) /\
         Permutation (adjf g' k i) (adjf g k i)).
  Proof. apply graph_roundtrip. Qed.

  Theorem F_full_graph_not_reloadable d (g : graph nat nat) :
    capcheck = true ->
    length (gnodes g) = cap \/ length (gedges g) = cap ->
    deser_graph cap capcheck d (ser_graph d g) = None.
  Proof. apply full_graph_not_reloadable. Qed.

  (* ---------------- T3 ---------------- *)

  Theorem F_interleave holes compact :
    (forall slots,
       interleave holes compact 0 (length compact + length holes) [] = Some slots <->
       holes_ok (length compact + length holes) holes /\ slots_spec holes compact slots) /\
    (interleave holes compact 0 (length compact + length holes) [] = None <->
     ~ holes_ok (length compact + length holes) holes).
  Proof. split; [intros slots; apply interleave_spec|apply interleave_none]. Qed.

  Definition stable_loaded (w : wire) (slots : list (option nat)) (s : sgraph) : Prop :=
    SInv cap s /\
    map (@nwt _) (gnodes (sg s)) = slots /\
    length (gedges (sg s)) = length (w_edges w) /\
    (forall i, s_node s i = match nth_error slots i with Some o => o | None => None end) /\
    (forall x, s_edge s x = match nth_error (w_edges w) x with Some o => o | None => None end).

  Lemma loaded_stable_loaded (w : wire) slots s : loaded cap slots (w_edges w) s -> stable_loaded w slots s.
  Proof.
    intros Hl. pose proof Hl as [I [Hn _]]. destruct (loaded_lengths Hl) as [_ Hle].
    split; auto. split; auto. split; auto. split.
    - apply (loaded_s_node Hl).
    - apply (loaded_s_edge Hl).
  Qed.

  Theorem F_stable_deser directed (w : wire) :
    (capcheck = false -> length (w_nodes w) + length (w_holes w) <= cap /\ length (w_edges w) <= cap) ->
    (deser_stable cap capcheck directed w = Ok None /\
       forall slots, ~ stable_wire_ok cap capcheck directed w slots) \/
    (exists s slots, deser_stable cap capcheck directed w = Ok (Some s) /\
       stable_wire_ok cap capcheck directed w slots /\
       SInv cap s /\
       map (@nwt _) (gnodes (sg s)) = slots /\
       length (gedges (sg s)) = length (w_edges w) /\
       (forall i, s_node s i = match nth_error slots i with Some o => o | None => None end) /\
       (forall x, s_edge s x = match nth_error (w_edges w) x with Some o => o | None => None end)).
  Proof.
    intros Hcap. destruct (deser_stable_total directed w Hcap) as [H|[s [slots [Hr [Hok Hl]]]]]; [left; auto|].
    right. exists s, slots. split; auto. split; auto. apply loaded_stable_loaded. auto.
  Qed.

  Theorem F_stable_deser_never_panics directed (w : wire) :
    (capcheck = false -> length (w_nodes w) + length (w_holes w) <= cap /\ length (w_edges w) <= cap) ->
    exists r, deser_stable cap capcheck directed w = Ok r /\
      match r with Some s => SInv cap s | None => True end.
  Proof.
    intros Hcap. destruct (deser_stable_total directed w Hcap) as [[H _]|[s [slots [Hr [_ [I _]]]]]].
    - exists None. auto.
    - exists (Some s). auto.
  Qed.

  Theorem F_stable_deser_accepts_iff directed (w : wire) :
    (capcheck = false -> length (w_nodes w) + length (w_holes w) <= cap /\ length (w_edges w) <= cap) ->
    ((exists s, deser_stable cap capcheck directed w = Ok (Some s)) <->
     w_directed w = directed /\
     fits cap capcheck (length (w_edges w)) /\
     holes_ok (length (w_nodes w) + length (w_holes w)) (w_holes w) /\
     fits cap capcheck (length (w_nodes w) + length (w_holes w)) /\
     (forall slots, slots_spec (w_holes w) (w_nodes w) slots ->
        forall a b x, In (Some (a, b, x)) (w_edges w) -> occupied slots a /\ occupied slots b)).
  Proof.
    intros Hcap. rewrite <- stable_wire_ok_iff. split.
    - intros [s Hr]. destruct (deser_stable_some_inv _ _ Hcap Hr) as [slots [Hok _]]. eauto.
    - intros [slots Hok]. destruct (deser_stable_accepts Hcap Hok) as [s [Hr _]]. eauto.
  Qed.

  (* ---------------- T4 ---------------- *)

  Theorem F_stable_roundtrip d s :
    SInv cap s ->
    (capcheck = true -> node_bound s < cap /\ edge_bound s < cap) ->
    exists s', deser_stable cap capcheck d (ser_stable d s) = Ok (Some s') /\ SInv cap s' /\
      stable_obs_eq s s' /\
      length (gnodes (sg s')) = node_bound s /\
      length (gedges (sg s')) = edge_bound s /\
      (forall k i, s_node s i <> None ->
         exists l l', adj (sg s) k i l /\ adj (sg s') k i l' /\ NoDup l /\ NoDup l' /\
           (forall x, In x l <-> In x l') /\ Permutation l l').
  Proof. apply stable_roundtrip. Qed.

  Theorem F_full_stable_not_reloadable d s :
    capcheck = true ->
    node_bound s = cap \/ edge_bound s = cap ->
    deser_stable cap capcheck d (ser_stable d s) = Ok None.
  Proof.
    intros Hc Hfull. rewrite deser_stable_unfold, ser_stable_eq.
    cbn [w_directed w_edges w_nodes w_holes]. rewrite Bool.eqb_reflx. cbn [negb].
    rewrite map_length, ser_edges_length.
    destruct (too_long cap capcheck (edge_bound s)) eqn:Ee; [reflexivity|].
    rewrite interleave_ser. rewrite map_length, ser_nodes_length.
    destruct Hfull as [E|E].
    - unfold too_long. rewrite Hc, E, Nat.leb_refl. reflexivity.
    - exfalso. unfold too_long in Ee. rewrite Hc, E, Nat.leb_refl in Ee. discriminate.
  Qed.

  (* ---------------- T5 ---------------- *)

  Theorem F_graph_loads_as_stable d (g : graph nat nat) :
    GInv g ->
    (capcheck = true -> length (gnodes g) < cap /\ length (gedges g) < cap) ->
    exists s', deser_stable cap capcheck d (ser_graph d g) = Ok (Some s') /\ SInv cap s' /\
      cross_obs_eq g s' /\
      length (gnodes (sg s')) = length (gnodes g) /\
      length (gedges (sg s')) = length (gedges g) /\
      (forall i, i < length (gnodes g) -> s_node s' i <> None) /\
      (forall x, x < length (gedges g) -> s_edge s' x <> None).
  Proof. apply graph_loads_as_stable. Qed.

  Theorem F_stable_loads_as_graph d s :
    SInv cap s ->
    ((exists g', deser_graph cap capcheck d (ser_stable d s) = Some g') <->
     (forall i, i < node_bound s -> s_node s i <> None) /\
     (forall x, x < edge_bound s -> s_edge s x <> None) /\
     fits cap capcheck (node_bound s) /\ fits cap capcheck (edge_bound s)) /\
    (forall g', deser_graph cap capcheck d (ser_stable d s) = Some g' ->
       GInv g' /\ cross_obs_eq g' s /\
       length (gnodes g') = node_bound s /\ length (gedges g') = edge_bound s).
  Proof.
    intros I. split.
    - rewrite (stable_loads_as_graph_iff capcheck d I). unfold no_vacancy. tauto.
    - intros g'. apply stable_loads_as_graph. auto.
  Qed.
End SerdeFinal.
