(* Proofs for C12: the Kruskal iterator of min_spanning_tree never panics on a
   well-formed view, and the edges it emits form a minimum-weight spanning forest. *)
From Coq Require Import Lia ZArith Permutation Sorted.
From PG Require Import Lib.Io Model.View Model.UnionFindM Model.MstM
  Spec.Partition Spec.Forest Proofs.UnionFindP Proofs.UnionFindH Proofs.ForestP.

(* ------------------------------------------------------------------ *)
(* heap entries                                                        *)

Definition hw (e : Z * nat * (nat * nat)) : Z := fst (fst e).
Definition hseq (e : Z * nat * (nat * nat)) : nat := snd (fst e).
Definition hedge (e : Z * nat * (nat * nat)) : nat * nat * Z := (fst (snd e), snd (snd e), fst (fst e)).

Lemma mle_true x y : mle x y = true -> (hw x <= hw y)%Z.
Proof.
  destruct x as [[kx sx] px], y as [[ky sy] py]. unfold mle, hw; simpl.
  destruct (Z.ltb_spec kx ky); destruct (Z.eqb_spec kx ky); simpl; intros E; try lia; discriminate.
Qed.

Lemma mle_false x y : mle x y = false -> (hw y <= hw x)%Z.
Proof.
  destruct x as [[kx sx] px], y as [[ky sy] py]. unfold mle, hw; simpl.
  destruct (Z.ltb_spec kx ky); destruct (Z.eqb_spec kx ky); simpl; intros E; try lia; discriminate.
Qed.

Lemma mmin_spec : forall l best,
  In (mmin best l) (best :: l) /\ (hw (mmin best l) <= hw best)%Z /\
  forall y, In y l -> (hw (mmin best l) <= hw y)%Z.
Proof.
  induction l as [|x t IH]; intros best; simpl.
  - split; [auto|]. split; [lia|]. intros y [].
  - destruct (IH (if mle best x then best else x)) as [I1 [I2 I3]].
    destruct (mle best x) eqn:E.
    + apply mle_true in E. split; [|split].
      * destruct I1 as [I1|I1]; auto.
      * exact I2.
      * intros y [Hy|Hy]; [subst y; lia | auto].
    + apply mle_false in E. split; [|split].
      * destruct I1 as [I1|I1]; auto.
      * lia.
      * intros y [Hy|Hy]; [subst y; lia | auto].
Qed.

Lemma mremove_split : forall l m, NoDup (map hseq l) -> In m l ->
  exists l1 l2, l = l1 ++ m :: l2 /\ mremove (hseq m) l = l1 ++ l2.
Proof.
  induction l as [|y t IH]; intros m ND Hi; [destruct Hi|].
  destruct y as [[k s'] p]. simpl in ND. inversion ND as [|s0 l0 Hnin ND']; subst.
  simpl. destruct (Nat.eqb_spec (hseq m) s') as [E|E].
  - destruct Hi as [Hi|Hi].
    + subst m. exists [], t. split; reflexivity.
    + exfalso. apply Hnin.
      assert (Hs : hseq (k, s', p) = hseq m) by (rewrite E; reflexivity).
      rewrite Hs. apply in_map; auto.
  - destruct Hi as [Hi|Hi].
    + subst m. exfalso. apply E. reflexivity.
    + destruct (IH m ND' Hi) as [l1 [l2 [E1 E2]]].
      exists ((k, s', p) :: l1), l2. split.
      * rewrite E1 at 1. reflexivity.
      * rewrite E2. reflexivity.
Qed.

Lemma mpop_none h : mpop h = None -> h = [].
Proof. destruct h; simpl; [auto | discriminate]. Qed.

Lemma mpop_spec h m h' : NoDup (map hseq h) -> mpop h = Some (m, h') ->
  (exists l1 l2, h = l1 ++ m :: l2 /\ h' = l1 ++ l2) /\
  forall y, In y h -> (hw m <= hw y)%Z.
Proof.
  intros ND E. destruct h as [|x t]; [discriminate|].
  unfold mpop in E. cbv zeta in E. inversion E as [[Em Eh]]. clear E.
  destruct (mmin_spec t x) as [I1 [I2 I3]]. split.
  - change (snd (fst (mmin x t))) with (hseq (mmin x t)).
    destruct (mremove_split (x :: t) (mmin x t) ND I1) as [l1 [l2 [E1 E2]]].
    exists l1, l2. split; auto.
  - intros y [Hy|Hy]; [subst y; exact I2 | auto].
Qed.

Lemma pop_perm (h : mheap) m l1 l2 : h = l1 ++ m :: l2 -> Permutation h (m :: l1 ++ l2).
Proof. intros ->. apply Permutation_sym, Permutation_middle. Qed.

Lemma pop_nodup (h : mheap) m l1 l2 : h = l1 ++ m :: l2 -> NoDup (map hseq h) -> NoDup (map hseq (l1 ++ l2)).
Proof.
  intros -> ND. rewrite map_app in *. simpl in ND. apply NoDup_remove_1 in ND. exact ND.
Qed.

(* ------------------------------------------------------------------ *)
(* the initial heap                                                    *)

Lemma heap_of_erefs_gen : forall (es : list (nat * nat * nat * Z)) k,
  let H := map (fun '(i, (_, s, t, w)) => (w, i, (s, t))) (combine (seq k (length es)) es) in
  map hseq H = seq k (length es) /\
  map hedge H = map (fun '(_, a, b, w) => (a, b, w)) es.
Proof.
  induction es as [|[[[i a] b] w] t IH]; intros k; simpl.
  - split; reflexivity.
  - destruct (IH (S k)) as [E1 E2]. simpl in E1, E2. split.
    + unfold hseq at 1. simpl. f_equal. exact E1.
    + unfold hedge at 1. simpl. f_equal. exact E2.
Qed.

Lemma heap_seqs v : map hseq (heap_of_erefs (verefs v)) = seq 0 (length (verefs v)).
Proof. apply (heap_of_erefs_gen (verefs v) 0). Qed.

Lemma heap_edges v : map hedge (heap_of_erefs (verefs v)) = gedges v.
Proof. apply (heap_of_erefs_gen (verefs v) 0). Qed.

Lemma heap_length v : length (heap_of_erefs (verefs v)) = length (verefs v).
Proof. rewrite <- (map_length hseq), heap_seqs, seq_length. reflexivity. Qed.

(* ------------------------------------------------------------------ *)
(* node_map                                                            *)

Lemma index_in_spec : forall l x i, In x l ->
  exists j, index_in x l i = Some (i + j) /\ nth_error l j = Some x.
Proof.
  induction l as [|y t IH]; intros x i Hi; [destruct Hi|].
  simpl. destruct (Nat.eqb_spec y x) as [E|E].
  - exists 0. subst y. split; [f_equal; lia | reflexivity].
  - destruct Hi as [Hi|Hi]; [congruence|].
    destruct (IH x (S i) Hi) as [j [E1 E2]].
    exists (S j). split; [rewrite E1; f_equal; lia | exact E2].
Qed.

Lemma index_in_0 l x : In x l -> exists j, index_in x l 0 = Some j /\ nth_error l j = Some x.
Proof. intros Hi. destruct (index_in_spec l x 0 Hi) as [j [E1 E2]]. exists j; auto. Qed.

(* ------------------------------------------------------------------ *)
(* one union                                                           *)

Lemma abs_selfloop u n prs a : a < n -> Abs u (n, prs) -> Abs u (n, (a, a) :: prs).
Proof.
  intros Ha [I [L [Rg Eq]]]. simpl in *.
  split; [exact I|]. split; [exact L|]. split.
  - simpl. intros x y [Hi|Hi]; [inversion Hi; subst; auto | apply Rg; auto].
  - simpl. intros x y Hx Hy. rewrite (Eq x y Hx Hy).
    symmetry. apply conn_cons_connected. apply c_refl.
Qed.

Lemma union_step u n prs a b : Abs u (n, prs) -> a < n -> b < n ->
  exists r u', union u a b = (Ok r, u') /\ Abs u' (n, (a, b) :: prs) /\
               (if r then ~ conn prs a b else conn prs a b).
Proof.
  intros A Ha Hb. pose proof A as [I [L [Rg Eq]]]. simpl in L, Rg, Eq.
  destruct (try_union_spec a b I) as [r [u' [E P]]].
  pose proof (abs_union A P) as A'.
  unfold union. rewrite E.
  assert (S1 : a <> b -> spec_step (n, prs) (OTryUnion a b) = (n, (a, b) :: prs)).
  { intros Hne. unfold spec_step.
    destruct (Nat.ltb_spec a n); try lia. destruct (Nat.ltb_spec b n); try lia.
    destruct (Nat.eqb_spec a b); try congruence. reflexivity. }
  destruct P as [u' Hxy Hu|u' Hxy Hx Hu|u' Hxy Hx Hy I' L' RP|u' Hxy Hx Hy S I' L' RP
                |u' rx ry Hxy Hx Hy Hrx Hry Hne I' L' K].
  - exists false, u'. subst b u'. split; [reflexivity|]. split.
    + apply abs_selfloop; auto.
    + apply c_refl.
  - exfalso. lia.
  - exfalso. lia.
  - exists false, u'. split; [reflexivity|]. split.
    + rewrite <- (S1 Hxy). exact A'.
    + apply Eq; auto.
  - exists true, u'. split; [reflexivity|]. split.
    + rewrite <- (S1 Hxy). exact A'.
    + intros C. apply Eq in C; auto. destruct C as [r0 [P Q]].
      apply Hne. rewrite (rootof_det Hrx P), (rootof_det Hry Q). reflexivity.
Qed.

(* ------------------------------------------------------------------ *)
(* small facts on decode / ends / filter                                *)

Lemma decode_app v l1 l2 : decode v (l1 ++ l2) = decode v l1 ++ decode v l2.
Proof. apply map_app. Qed.

Lemma decode_weights v l : map snd (decode v l) = map snd l.
Proof.
  unfold decode. rewrite map_map. apply map_ext. intros [[ao bo] w]. reflexivity.
Qed.

Lemma decode_length v l : length (decode v l) = length l.
Proof. apply map_length. Qed.

Lemma ends_app l1 l2 : ends (l1 ++ l2) = ends l1 ++ ends l2.
Proof. apply map_app. Qed.

Lemma in_ends x y l : In (x, y) (ends l) <-> exists w, In (x, y, w) l.
Proof.
  unfold ends. rewrite in_map_iff. split.
  - intros [[[a b] w] [E Hi]]. simpl in E. inversion E; subst. exists w; auto.
  - intros [w Hi]. exists (x, y, w). split; auto.
Qed.

Lemma conn_perm A B : Permutation A B -> forall x y, conn (ends A) x y <-> conn (ends B) x y.
Proof.
  intros P x y. split; apply conn_incl; intros p Hp.
  - eapply Permutation_in; [apply Permutation_map, P | exact Hp].
  - eapply Permutation_in; [apply Permutation_map, Permutation_sym, P | exact Hp].
Qed.

Lemma conn_snoc A a b x y : conn (A ++ [(a, b)]) x y <-> conn ((a, b) :: A) x y.
Proof.
  split; apply conn_incl; intros p Hp.
  - apply in_app_iff in Hp. simpl in *. tauto.
  - apply in_app_iff. simpl in *. tauto.
Qed.

Lemma conn_cons_iff A B a b : (forall x y, conn A x y <-> conn B x y) ->
  forall x y, conn ((a, b) :: A) x y <-> conn ((a, b) :: B) x y.
Proof. intros H x y. rewrite !conn_cons, !H. reflexivity. Qed.

Lemma ends_filter_incl (f g : nat * nat * Z -> bool) X Y :
  incl X Y -> (forall e, f e = true -> g e = true) ->
  incl (ends (filter f X)) (ends (filter g Y)).
Proof.
  intros Hi Hfg [x y] Hp. apply in_ends in Hp. destruct Hp as [w Hp].
  apply filter_In in Hp. destruct Hp as [Hp Hf].
  apply in_ends. exists w. apply filter_In. split; auto.
Qed.

Lemma StronglySorted_snoc (l : list Z) x :
  StronglySorted Z.le l -> Forall (fun z => (z <= x)%Z) l -> StronglySorted Z.le (l ++ [x]).
Proof.
  induction 1 as [|a l Hs IH Hf]; intros F; simpl.
  - constructor; constructor.
  - inversion F as [|a0 l0 Ha Fl]; subst. constructor; auto.
    apply Forall_app. split; auto.
Qed.

(* ------------------------------------------------------------------ *)
(* the loop invariant                                                  *)

(* P: the entries popped so far; acc: the stream so far *)
Record KInv (v : view) (u : uf) (h P : mheap) (acc : list (nat * nat * Z)) : Prop := {
  ki_perm : Permutation (heap_of_erefs (verefs v)) (P ++ h);
  ki_nodup : NoDup (map hseq h);
  ki_abs : Abs u (vbound v, ends (map hedge P));
  ki_pos : forall ao bo w, In (ao, bo, w) acc ->
             ao < length (vnodes v) /\ bo < length (vnodes v);
  ki_sub : exists rest, Permutation (map hedge P) (decode v acc ++ rest);
  ki_span : forall x y, conn (ends (decode v acc)) x y <-> conn (ends (map hedge P)) x y;
  ki_acyc : acyclic_edges (ends (decode v acc));
  ki_le : forall p y, In p P -> In y h -> (hw p <= hw y)%Z;
  ki_sorted : StronglySorted Z.le (map snd acc);
  ki_thr : forall p, In p P ->
             conn (ends (filter (fun e => Z.leb (snd e) (hw p)) (decode v acc)))
                  (fst (fst (hedge p))) (snd (fst (hedge p)))
}.

Arguments ki_perm {v u h P acc} _.
Arguments ki_nodup {v u h P acc} _.
Arguments ki_abs {v u h P acc} _.
Arguments ki_pos {v u h P acc} _ ao bo w _.
Arguments ki_sub {v u h P acc} _.
Arguments ki_span {v u h P acc} _ x y.
Arguments ki_acyc {v u h P acc} _.
Arguments ki_le {v u h P acc} _ p y _ _.
Arguments ki_sorted {v u h P acc} _.
Arguments ki_thr {v u h P acc} _ p _.

Lemma kinv_init v : KInv v (uf_new (vbound v)) (heap_of_erefs (verefs v)) [] [].
Proof.
  constructor; simpl.
  - apply Permutation_refl.
  - rewrite heap_seqs. apply seq_NoDup.
  - apply abs_new.
  - intros ao bo w [].
  - exists []. constructor.
  - intros x y. reflexivity.
  - exact I.
  - intros p y [].
  - constructor.
  - intros p [].
Qed.

(* the emitted weights are below everything still in the heap *)
Lemma kinv_weights v u h P acc : KInv v u h P acc ->
  forall e y, In e (decode v acc) -> In y h -> (snd e <= hw y)%Z.
Proof.
  intros K e y He Hy. destruct (ki_sub K) as [rest PR].
  assert (Hi : In e (map hedge P)).
  { eapply Permutation_in; [apply Permutation_sym, PR|]. apply in_app_iff; auto. }
  apply in_map_iff in Hi. destruct Hi as [p [Ep Hp]]. subst e.
  exact (ki_le K p y Hp Hy).
Qed.

Lemma perm_pop (X P h : mheap) m l1 l2 :
  Permutation X (P ++ h) -> h = l1 ++ m :: l2 -> Permutation X ((m :: P) ++ l1 ++ l2).
Proof.
  intros PX Eh. eapply perm_trans; [exact PX|].
  eapply perm_trans; [apply Permutation_app_head, (pop_perm h m l1 l2 Eh)|].
  simpl. apply Permutation_sym, Permutation_middle.
Qed.

Section Step.
  Variables (v : view) (u u' : uf) (h P : mheap) (acc : list (nat * nat * Z)).
  Variables (w : Z) (s a b : nat) (l1 l2 : mheap).
  Hypothesis K : KInv v u h P acc.
  Hypothesis Eh : h = l1 ++ (w, s, (a, b)) :: l2.
  Hypothesis Hmin : forall y, In y h -> (w <= hw y)%Z.
  Hypothesis A' : Abs u' (vbound v, (a, b) :: ends (map hedge P)).

  Let m : Z * nat * (nat * nat) := (w, s, (a, b)).

  Lemma step_in_h : forall y, In y (l1 ++ l2) -> In y h.
  Proof.
    intros y Hy. rewrite Eh. apply in_app_iff in Hy. apply in_app_iff. simpl. tauto.
  Qed.

  Lemma step_le : forall p y, In p (m :: P) -> In y (l1 ++ l2) -> (hw p <= hw y)%Z.
  Proof.
    intros p y [Hp|Hp] Hy.
    - subst p. apply (Hmin y). apply step_in_h; auto.
    - apply (ki_le K p y Hp). apply step_in_h; auto.
  Qed.

  Lemma step_acc_le : forall e, In e (decode v acc) -> (snd e <= w)%Z.
  Proof.
    intros e He. apply (kinv_weights v u h P acc K e m He). rewrite Eh. apply in_app_iff. simpl. auto.
  Qed.

  (* the popped edge closes a cycle: nothing is emitted *)
  Lemma kinv_skip : conn (ends (map hedge P)) a b -> KInv v u' (l1 ++ l2) (m :: P) acc.
  Proof.
    intros C. constructor.
    - apply perm_pop with (h := h); [exact (ki_perm K) | exact Eh].
    - apply (pop_nodup h m l1 l2 Eh (ki_nodup K)).
    - exact A'.
    - exact (ki_pos K).
    - destruct (ki_sub K) as [rest PR]. exists (hedge m :: rest). simpl map.
      eapply perm_trans; [apply perm_skip, PR|]. apply Permutation_middle.
    - intros x y. rewrite (ki_span K x y). symmetry.
      apply (conn_cons_connected _ _ _ C).
    - exact (ki_acyc K).
    - exact step_le.
    - exact (ki_sorted K).
    - intros p [Hp|Hp].
      + subst p. simpl.
        apply conn_incl with (A := ends (decode v acc)).
        * intros [x y] Hxy. apply in_ends in Hxy. destruct Hxy as [w0 Hxy].
          apply in_ends. exists w0. apply filter_In. split; auto.
          apply Z.leb_le. apply (step_acc_le (x, y, w0) Hxy).
        * apply (ki_span K). exact C.
      + exact (ki_thr K p Hp).
  Qed.

  (* the popped edge joins two trees: it is emitted *)
  Lemma kinv_take ao bo :
    ~ conn (ends (map hedge P)) a b ->
    nth_error (vnodes v) ao = Some a -> nth_error (vnodes v) bo = Some b ->
    KInv v u' (l1 ++ l2) (m :: P) (acc ++ [(ao, bo, w)]).
  Proof.
    intros NC Hao Hbo.
    assert (Ed : decode v (acc ++ [(ao, bo, w)]) = decode v acc ++ [(a, b, w)]).
    { rewrite decode_app. simpl. unfold node_at.
      rewrite (nth_error_nth (vnodes v) ao 0 Hao), (nth_error_nth (vnodes v) bo 0 Hbo). reflexivity. }
    constructor.
    - apply perm_pop with (h := h); [exact (ki_perm K) | exact Eh].
    - apply (pop_nodup h m l1 l2 Eh (ki_nodup K)).
    - exact A'.
    - intros ao' bo' w' Hi. apply in_app_iff in Hi. destruct Hi as [Hi|[Hi|[]]].
      + exact (ki_pos K ao' bo' w' Hi).
      + inversion Hi; subst. split; eapply nth_error_Some_lt; eauto.
    - destruct (ki_sub K) as [rest PR]. exists rest. rewrite Ed, <- app_assoc. simpl.
      eapply perm_trans; [apply perm_skip, PR|]. apply Permutation_middle.
    - intros x y. rewrite Ed, ends_app. simpl. rewrite conn_snoc.
      apply conn_cons_iff. exact (ki_span K).
    - rewrite Ed, ends_app. simpl. apply acyclic_from_snoc; [exact (ki_acyc K)|].
      rewrite app_nil_r. intros C. apply NC. apply (ki_span K). exact C.
    - exact step_le.
    - rewrite map_app. simpl. apply StronglySorted_snoc; [exact (ki_sorted K)|].
      rewrite <- (decode_weights v acc). apply Forall_forall. intros z Hz.
      apply in_map_iff in Hz. destruct Hz as [e [Ez He]]. subst z. apply step_acc_le; auto.
    - intros p [Hp|Hp].
      + subst p. simpl. apply c_base. apply in_ends. exists w.
        apply filter_In. split.
        * rewrite Ed. apply in_app_iff. simpl. auto.
        * apply Z.leb_le. unfold m, hw. simpl. lia.
      + eapply conn_incl; [|exact (ki_thr K p Hp)].
        apply ends_filter_incl; auto.
        rewrite Ed. intros e He. apply in_app_iff; auto.
  Qed.
End Step.

(* ------------------------------------------------------------------ *)
(* the loop                                                            *)

Lemma in_heap_nodes v h P m : MOk v ->
  Permutation (heap_of_erefs (verefs v)) (P ++ h) -> In m h ->
  In (fst (snd m)) (vnodes v) /\ In (snd (snd m)) (vnodes v).
Proof.
  intros [_ [_ Hends]] PR Hm.
  assert (Hi : In (hedge m) (gedges v)).
  { rewrite <- heap_edges. apply in_map.
    eapply Permutation_in; [apply Permutation_sym, PR|]. apply in_app_iff; auto. }
  unfold gedges in Hi. apply in_map_iff in Hi.
  destruct Hi as [[[[i a] b] w] [E Hi]]. unfold hedge in E. inversion E; subst.
  apply (Hends i _ _ _ Hi).
Qed.

Lemma kruskal_loop_ok v : MOk v -> forall fuel u h P acc,
  KInv v u h P acc -> length h < fuel ->
  exists l u' P', kruskal_loop fuel v u h acc = Ok l /\ KInv v u' [] P' l.
Proof.
  intros Hok. induction fuel as [|f IH]; intros u h P acc K Hf; [lia|].
  simpl. destruct (mpop h) as [[m h']|] eqn:Em.
  - destruct (mpop_spec h m h' (ki_nodup K) Em) as [[l1 [l2 [Eh Eh']]] Hmin].
    assert (Hm : In m h) by (rewrite Eh; apply in_app_iff; simpl; auto).
    destruct (in_heap_nodes v h P m Hok (ki_perm K) Hm) as [Ha Hb].
    destruct m as [[w s] [a b]]. simpl in Ha, Hb.
    pose proof Hok as [_ [Hbound _]].
    destruct (union_step u _ _ a b (ki_abs K) (Hbound a Ha) (Hbound b Hb)) as [r [u' [Eu [A' Hr]]]].
    rewrite Eu.
    assert (Hlen : length h' < f).
    { subst h'. rewrite Eh in Hf. rewrite app_length in *. simpl in Hf. lia. }
    subst h'. destruct r.
    + destruct (index_in_0 (vnodes v) a Ha) as [ao [Ea Hao]].
      destruct (index_in_0 (vnodes v) b Hb) as [bo [Eb Hbo]].
      rewrite Ea, Eb.
      apply (IH u' (l1 ++ l2) ((w, s, (a, b)) :: P)); auto.
      eapply kinv_take; [exact K | exact Eh | exact Hmin | exact A' | exact Hr | exact Hao | exact Hbo].
    + apply (IH u' (l1 ++ l2) ((w, s, (a, b)) :: P)); auto.
      eapply kinv_skip; [exact K | exact Eh | exact Hmin | exact A' | exact Hr].
  - apply mpop_none in Em. subst h. exists acc, u, P. split; auto.
Qed.

Lemma kruskal_final v : MOk v ->
  exists l u P, kruskal v = Ok l /\ KInv v u [] P l.
Proof.
  intros Hok. unfold kruskal.
  apply (kruskal_loop_ok v Hok (S (length (verefs v))) _ _ _ _ (kinv_init v)).
  rewrite heap_length. lia.
Qed.

Lemma kruskal_inv v l : MOk v -> kruskal v = Ok l -> exists u P, KInv v u [] P l.
Proof.
  intros Hok E. destruct (kruskal_final v Hok) as [l0 [u [P [E0 K]]]].
  rewrite E in E0. inversion E0; subst. exists u, P. exact K.
Qed.

(* the popped entries of a finished run are all the edges *)
Lemma final_edges v u P l : KInv v u [] P l -> Permutation (gedges v) (map hedge P).
Proof.
  intros K. pose proof (ki_perm K) as PR. rewrite app_nil_r in PR.
  rewrite <- heap_edges. apply Permutation_map. exact PR.
Qed.

(* ------------------------------------------------------------------ *)
(* T1 .. T5                                                            *)

Theorem kruskal_total v : MOk v -> exists l, kruskal v = Ok l.
Proof.
  intros Hok. destruct (kruskal_final v Hok) as [l [u [P [E _]]]]. exists l; exact E.
Qed.

Theorem kruskal_submultiset v l : MOk v -> kruskal v = Ok l ->
  exists rest, Permutation (gedges v) (decode v l ++ rest).
Proof.
  intros Hok E. destruct (kruskal_inv v l Hok E) as [u [P K]].
  destruct (ki_sub K) as [rest PR]. exists rest.
  eapply perm_trans; [apply (final_edges v u P l K) | exact PR].
Qed.

Theorem kruskal_edges_of_graph v l : MOk v -> kruskal v = Ok l ->
  forall ao bo w, In (ao, bo, w) l ->
    exists i a b, In (i, a, b, w) (verefs v) /\
      nth_error (vnodes v) ao = Some a /\ nth_error (vnodes v) bo = Some b.
Proof.
  intros Hok E ao bo w Hi.
  destruct (kruskal_submultiset v l Hok E) as [rest PR].
  destruct (kruskal_inv v l Hok E) as [u [P K]].
  destruct (ki_pos K ao bo w Hi) as [Hao Hbo].
  assert (Hd : In (node_at v ao, node_at v bo, w) (gedges v)).
  { eapply Permutation_in; [apply Permutation_sym, PR|]. apply in_app_iff. left.
    unfold decode. apply in_map_iff. exists (ao, bo, w). split; auto. }
  unfold gedges in Hd. apply in_map_iff in Hd.
  destruct Hd as [[[[i a] b] w'] [Ed Hd]]. inversion Ed; subst.
  exists i, (node_at v ao), (node_at v bo). split; [exact Hd|].
  unfold node_at. split; apply nth_error_nth'; auto.
Qed.

Lemma gedges_ends_in v : MOk v -> ends_in (vnodes v) (ends (gedges v)).
Proof.
  intros [_ [_ Hends]] a b Hi. apply in_ends in Hi. destruct Hi as [w Hi].
  unfold gedges in Hi. apply in_map_iff in Hi.
  destruct Hi as [[[[i a'] b'] w'] [E Hi]]. inversion E; subst.
  apply (Hends i _ _ _ Hi).
Qed.

Theorem kruskal_acyclic v l : MOk v -> kruskal v = Ok l -> acyclic_edges (ends (decode v l)).
Proof.
  intros Hok E. destruct (kruskal_inv v l Hok E) as [u [P K]]. exact (ki_acyc K).
Qed.

Theorem kruskal_spanning v l : MOk v -> kruskal v = Ok l ->
  spanning (ends (decode v l)) (ends (gedges v)).
Proof.
  intros Hok E. destruct (kruskal_inv v l Hok E) as [u [P K]].
  intros x y. unfold uconn. rewrite (ki_span K x y).
  symmetry. apply conn_perm. apply (final_edges v u P l K).
Qed.

Theorem kruskal_spanning_forest v l : MOk v -> kruskal v = Ok l ->
  spanning_forest v (decode v l).
Proof.
  intros Hok E. split; [|split].
  - destruct (kruskal_submultiset v l Hok E) as [rest PR]. intros e He.
    eapply Permutation_in; [apply Permutation_sym, PR|]. apply in_app_iff; auto.
  - apply kruskal_acyclic; auto.
  - apply kruskal_spanning; auto.
Qed.

(* every spanning forest has |V| - c edges *)
Theorem spanning_forest_count v F reps : MOk v -> spanning_forest v F ->
  transversal (vnodes v) (ends (gedges v)) reps ->
  length F + length reps = length (vnodes v).
Proof.
  intros Hok [Hin [Hac Hsp]] Ht. pose proof Hok as [ND _].
  assert (HV : ends_in (vnodes v) (ends F)).
  { intros a b Hi. apply (gedges_ends_in v Hok). apply in_ends in Hi. destruct Hi as [w Hi].
    apply in_ends. exists w. apply Hin; auto. }
  pose proof (forest_count (vnodes v) (ends F) ND HV Hac) as Ec.
  rewrite (ncl_equiv (vnodes v) (ends F) (ends (gedges v)) Hsp) in Ec.
  rewrite <- (transversal_length _ _ _ Ht) in Ec.
  unfold ends in Ec. rewrite map_length in Ec. lia.
Qed.

Theorem components_exist v : MOk v -> exists reps, transversal (vnodes v) (ends (gedges v)) reps.
Proof.
  intros Hok. eexists. apply transversal_exists. apply gedges_ends_in; auto.
Qed.

Theorem kruskal_count v l reps : MOk v -> kruskal v = Ok l ->
  transversal (vnodes v) (ends (gedges v)) reps ->
  length l + length reps = length (vnodes v).
Proof.
  intros Hok E Ht. rewrite <- (decode_length v l).
  apply spanning_forest_count; auto. apply kruskal_spanning_forest; auto.
Qed.

Theorem kruskal_sorted v l : MOk v -> kruskal v = Ok l -> StronglySorted Z.le (map snd l).
Proof.
  intros Hok E. destruct (kruskal_inv v l Hok E) as [u [P K]]. exact (ki_sorted K).
Qed.

Lemma weight_decode v l : weight (decode v l) = weight l.
Proof. unfold weight. rewrite decode_weights. reflexivity. Qed.

Theorem kruskal_minimal v l F : MOk v -> kruskal v = Ok l -> spanning_forest v F ->
  (weight l <= weight F)%Z.
Proof.
  intros Hok E [Hin [HacF HspF]].
  destruct (kruskal_inv v l Hok E) as [u [P K]].
  pose proof (kruskal_acyclic v l Hok E) as HacK.
  pose proof (kruskal_spanning v l Hok E) as HspK.
  set (Kd := decode v l) in *.
  (* same number of edges *)
  assert (Len : length Kd = length F).
  { apply Nat.le_antisymm.
    - rewrite <- (map_length fst Kd), <- (map_length fst F).
      apply (forest_rank _ _ HacK HacF). intros x y C. apply HspF, HspK. exact C.
    - rewrite <- (map_length fst Kd), <- (map_length fst F).
      apply (forest_rank _ _ HacF HacK). intros x y C. apply HspK, HspF. exact C. }
  (* below every threshold, no more edges in F than in the stream *)
  assert (Thr : forall t, cntle t (map snd F) <= cntle t (map snd Kd)).
  { intros t. rewrite !cntle_filter.
    set (f := fun e : nat * nat * Z => Z.leb (snd e) t).
    rewrite <- (map_length fst (filter f F)), <- (map_length fst (filter f Kd)).
    apply forest_rank.
    - apply (acyclic_filter f F [] [] (incl_refl _) HacF).
    - apply (acyclic_filter f Kd [] [] (incl_refl _) HacK).
    - apply conn_sub. intros x y Hxy.
      apply in_ends in Hxy. destruct Hxy as [w Hxy].
      apply filter_In in Hxy. destruct Hxy as [HF Hw]. unfold f in Hw. simpl in Hw.
      apply Z.leb_le in Hw.
      assert (Hp : In (x, y, w) (map hedge P)).
      { eapply Permutation_in; [apply (final_edges v u P l K)|]. apply Hin; auto. }
      apply in_map_iff in Hp. destruct Hp as [p [Ep Hp]].
      pose proof (ki_thr K p Hp) as C. rewrite Ep in C. simpl in C.
      eapply conn_incl; [|exact C].
      apply ends_filter_incl; [apply incl_refl|].
      intros e He. unfold f. apply Z.leb_le. apply Z.leb_le in He.
      assert (hw p = w) by (unfold hedge in Ep; inversion Ep; reflexivity). lia. }
  pose proof (majorize (length Kd) (map snd Kd) (map snd F)) as M.
  rewrite !map_length in M. specialize (M eq_refl (eq_sym Len) Thr).
  rewrite <- (weight_decode v l). exact M.
Qed.

(* ------------------------------------------------------------------ *)
(* a checker for MOk (used for the concrete example)                    *)

Fixpoint nodupb (l : list nat) : bool :=
  match l with [] => true | x :: t => andb (negb (mem x t)) (nodupb t) end.

Definition mok_b (v : view) : bool :=
  andb (nodupb (vnodes v))
    (andb (forallb (fun a => Nat.ltb a (vbound v)) (vnodes v))
          (forallb (fun e => andb (mem (snd (fst (fst e))) (vnodes v)) (mem (snd (fst e)) (vnodes v)))
                   (verefs v))).

Lemma mem_In x l : mem x l = true <-> In x l.
Proof.
  induction l as [|y t IH]; simpl.
  - split; [discriminate | tauto].
  - rewrite orb_true_iff, IH, Nat.eqb_eq. reflexivity.
Qed.

Lemma nodupb_NoDup l : nodupb l = true -> NoDup l.
Proof.
  induction l as [|x t IH]; simpl; intros H; constructor.
  - apply andb_true_iff in H. destruct H as [H _]. intros Hi. apply mem_In in Hi.
    rewrite Hi in H. discriminate.
  - apply IH. apply andb_true_iff in H. tauto.
Qed.

Lemma mok_b_sound v : mok_b v = true -> MOk v.
Proof.
  unfold mok_b. intros H. apply andb_true_iff in H. destruct H as [H1 H].
  apply andb_true_iff in H. destruct H as [H2 H3].
  split; [apply nodupb_NoDup; auto|]. split.
  - intros a Ha. rewrite forallb_forall in H2. apply Nat.ltb_lt. apply H2; auto.
  - intros i a b w Hi. rewrite forallb_forall in H3. specialize (H3 _ Hi). simpl in H3.
    apply andb_true_iff in H3. destruct H3 as [Ma Mb]. split; apply mem_In; auto.
Qed.
