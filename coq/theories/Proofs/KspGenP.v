(* k_shortest_path for every k, no goal: the value reported for a node is the k-th smallest
   cost (with multiplicity, walks = sequences of out-entries) of a walk from the start node;
   nodes with fewer than k walks get no value.  Non-negative costs; zero-cost cycles allowed. *)
From Coq Require Import Lia ZArith List Permutation.
From PG Require Import Lib.Io Model.View Model.Traversal Model.ShortestM Spec.Paths Proofs.DijkstraP Proofs.KspP.
Set Implicit Arguments.
Unset Strict Implicit.
Open Scope Z_scope.

(* ------------------------------------------------------------------ the specification *)
(* there are k pairwise different walks s -> x whose costs satisfy P *)
Definition at_least_walks (v : view) (s x : nat) (k : nat) (P : Z -> Prop) : Prop :=
  exists l : list (list eref), NoDup l /\ length l = k /\
    forall p, In p l -> walk v s p x /\ P (walk_cost p).

(* d is the k-th smallest element (k >= 1, with multiplicity) of the costs of the walks s -> x:
   at least k walks cost at most d, and fewer than k walks cost less than d *)
Definition kth_walk_cost (v : view) (s x k : nat) (d : Z) : Prop :=
  at_least_walks v s x k (fun c => c <= d) /\ ~ at_least_walks v s x k (fun c => c < d).

Lemma kth_walk_cost_unique v s x k d1 d2 :
  kth_walk_cost v s x k d1 -> kth_walk_cost v s x k d2 -> d1 = d2.
Proof.
  intros [[l1 [N1 [L1 A1]]] B1] [[l2 [N2 [L2 A2]]] B2].
  destruct (Z.lt_trichotomy d1 d2) as [Hlt|[Heq|Hgt]]; auto.
  - exfalso; apply B2. exists l1. split; [exact N1|]. split; [exact L1|].
    intros p Hp. destruct (A1 _ Hp) as [W Hc]. cbn beta in Hc. split; [exact W|lia].
  - exfalso; apply B1. exists l2. split; [exact N2|]. split; [exact L2|].
    intros p Hp. destruct (A2 _ Hp) as [W Hc]. cbn beta in Hc. split; [exact W|lia].
Qed.

Lemma all_or_ex (l : list (list eref)) d : (forall p, In p l -> walk_cost p <= d) ->
  (exists p, In p l /\ walk_cost p = d) \/ (forall p, In p l -> walk_cost p < d).
Proof.
  induction l as [|a t IH]; intros H.
  - right; intros p [].
  - assert (Ht : forall p, In p t -> walk_cost p <= d) by (intros p Hp; apply H; right; auto).
    destruct (IH Ht) as [[p [Hp Hc]]|Hall].
    + left; exists p; split; auto; right; auto.
    + destruct (Z.eq_dec (walk_cost a) d) as [Heq|Hne].
      * left; exists a; split; auto; left; auto.
      * right. intros p [<-|Hp]; auto. pose proof (H a (or_introl eq_refl)). lia.
Qed.

(* the k-th smallest cost is the cost of some walk *)
Lemma kth_walk_cost_attained v s x k d : kth_walk_cost v s x k d ->
  exists p, walk v s p x /\ walk_cost p = d.
Proof.
  intros [[l [N [L A]]] B].
  assert (Hle : forall p, In p l -> walk_cost p <= d) by (intros p Hp; apply (A _ Hp)).
  destruct (all_or_ex Hle) as [[p [Hp Hc]]|Hall].
  - exists p; split; auto. apply (A _ Hp).
  - exfalso; apply B. exists l. split; [exact N|]. split; [exact L|].
    intros p Hp. split; [apply (A _ Hp)|apply (Hall _ Hp)].
Qed.

Lemma kth_walk_cost_zero v s x d : ~ kth_walk_cost v s x 0 d.
Proof.
  intros [_ B]. apply B. exists []. split; [constructor|]. split; [reflexivity|]. intros p [].
Qed.

Lemma nodup_single {A} (a : A) : NoDup [a].
Proof. constructor; [intros []|constructor]. Qed.

(* k = 1 is the distance *)
Lemma kth_walk_cost_one v s x d : kth_walk_cost v s x 1 d <-> is_dist v s x d.
Proof.
  split.
  - intros H. split; [apply (kth_walk_cost_attained H)|].
    intros p W. destruct H as [_ B].
    destruct (Z.le_gt_cases d (walk_cost p)) as [Hle|Hgt]; auto.
    exfalso; apply B. exists [p]. split; [apply nodup_single|]. split; [reflexivity|].
    intros p' [<-|[]]. split; [exact W|lia].
  - intros [[p [W C]] L]. split.
    + exists [p]. split; [apply nodup_single|]. split; [reflexivity|].
      intros p' [<-|[]]. split; [exact W|lia].
    + intros [l [N [Len A]]]. destruct l as [|q t]; [discriminate|].
      destruct (A q (or_introl eq_refl)) as [Wq Hq]. cbn beta in Hq. pose proof (L _ Wq). lia.
Qed.

(* ------------------------------------------------------------------ walks: end point, costs *)
Lemma walk_end_unique v a p x y : walk v a p x -> walk v a p y -> x = y.
Proof.
  intros H; revert y; induction H as [a | a e p b He Hp IH]; intros y Hy.
  - inversion Hy; auto.
  - inversion Hy; subst. apply IH; auto.
Qed.

Lemma walk_nil_inv v a x : walk v a [] x -> x = a.
Proof. intros H; inversion H; auto. Qed.

(* ------------------------------------------------------------------ pushes, by position *)
Lemma pushes_nth es c : forall seq i e, nth_error es i = Some e ->
  In (c + ewgt e, tgt e, (seq + i)%nat) (pushes es c seq).
Proof.
  induction es as [|e0 r IH]; intros seq i e H; [destruct i; discriminate|].
  destruct i as [|i]; cbn [nth_error] in H; cbn [pushes].
  - injection H as ->. left. rewrite Nat.add_0_r. reflexivity.
  - right. replace (seq + S i)%nat with (S seq + i)%nat by lia. apply IH; auto.
Qed.

Lemma pushes_inv_nth es c : forall seq ent, In ent (pushes es c seq) ->
  exists i e, nth_error es i = Some e /\ ent = (c + ewgt e, tgt e, (seq + i)%nat).
Proof.
  induction es as [|e0 r IH]; intros seq ent; cbn [pushes]; intros [].
  - exists 0%nat, e0. split; auto. rewrite Nat.add_0_r. auto.
  - destruct (IH _ _ H) as [i [e [Hi He]]]. exists (S i), e. split; auto.
    rewrite He. f_equal. lia.
Qed.

(* the walk attached to an insertion number, after the out-entries es of the end of pi were pushed *)
Definition wk_ext (wk : nat -> list eref) (pi : list eref) (es : list eref) (seq : nat) (q : nat) : list eref :=
  if Nat.leb seq q then match nth_error es (q - seq) with Some e => pi ++ [e] | None => wk q end else wk q.

Lemma wk_ext_old wk pi es seq q : (q < seq)%nat -> wk_ext wk pi es seq q = wk q.
Proof. intros H. unfold wk_ext. destruct (Nat.leb_spec seq q); auto; lia. Qed.

Lemma wk_ext_new wk pi es seq i e : nth_error es i = Some e -> wk_ext wk pi es seq (seq + i) = pi ++ [e].
Proof.
  intros H. unfold wk_ext. destruct (Nat.leb_spec seq (seq + i)); [|lia].
  replace (seq + i - seq)%nat with i by lia. rewrite H. reflexivity.
Qed.

Definition ex_add (Ex : nat -> list (list eref)) (x : nat) (pi : list eref) : nat -> list (list eref) :=
  fun y => if Nat.eqb y x then pi :: Ex y else Ex y.

Lemma ex_add_mono Ex x pi y sg : In sg (Ex y) -> In sg (ex_add Ex x pi y).
Proof. unfold ex_add. destruct (Nat.eqb y x); auto. intros; right; auto. Qed.

Lemma ex_add_inv Ex x pi y sg : In sg (ex_add Ex x pi y) -> In sg (Ex y) \/ (y = x /\ sg = pi).
Proof.
  unfold ex_add. destruct (Nat.eqb_spec y x) as [->|Hne]; auto.
  intros [<-|H]; auto.
Qed.

Definition cget (cnt : list nat) (a : nat) : nat :=
  match nth_error cnt a with Some c => c | None => 0%nat end.

Section KspGen.
  Variable v : view.
  Variable s : nat.
  Variable k : nat.
  Hypothesis HV : VOk v.
  Hypothesis HN : nonneg v.
  Hypothesis HT : forall a e, In e (out_edges v a) -> (tgt e < vbound v)%nat.
  Hypothesis Hs : (s < vbound v)%nat.
  Hypothesis HD : forall a, NoDup (out_edges v a).

  (* ghost state: wk q = the walk of the heap entry numbered q; Ex y = the walks to y popped and
     expanded so far; Dd = the walks popped after their end point had been popped k times *)
  Record GInv (wk : nat -> list eref) (Ex : nat -> list (list eref)) (Dd : list eref -> Prop)
         (cnt : list nat) (sc : smap) (h : heap) (seq : nat) : Prop := {
    gL : length cnt = vbound v;
    gC : forall x c, nth_error cnt x = Some c -> length (Ex x) = Nat.min c k;
    gLe : forall x, (length (Ex x) <= k)%nat;
    gB : forall c x q, In (c, x, q) h -> (x < vbound v)%nat;
    gW : forall c x q, In (c, x, q) h -> walk v s (wk q) x /\ walk_cost (wk q) = c;
    gQ : forall c x q, In (c, x, q) h -> (q < seq)%nat;
    gN : NoDup (map hseq h);
    gInj : forall c x q c' x' q', In (c, x, q) h -> In (c', x', q') h -> wk q = wk q' -> q = q';
    gFresh : forall c x q, In (c, x, q) h -> ~ In (wk q) (Ex x);
    gExW : forall y sg, In sg (Ex y) -> walk v s sg y;
    gExN : forall y, NoDup (Ex y);
    gMono : forall y sg c x q, In sg (Ex y) -> In (c, x, q) h -> walk_cost sg <= c;
    gDead : forall p, Dd p -> exists y, walk v s p y /\ length (Ex y) = k /\
                                        forall sg, In sg (Ex y) -> walk_cost sg <= walk_cost p;
    gCov0 : In [] (Ex s) \/ Dd [] \/ exists q, In (0, s, q) h /\ wk q = [];
    gCov : forall y sg e, In sg (Ex y) -> In e (out_edges v y) ->
             In (sg ++ [e]) (Ex (tgt e)) \/ Dd (sg ++ [e]) \/
             exists q, In (walk_cost sg + ewgt e, tgt e, q) h /\ wk q = sg ++ [e];
    gPreE : forall y sg e, In (sg ++ [e]) (Ex y) -> exists z, In sg (Ex z);
    gPreH : forall c x q sg e, In (c, x, q) h -> wk q = sg ++ [e] -> exists z, In sg (Ex z);
    gS1 : forall x d, sget sc x = Some d -> kth_walk_cost v s x k d;
    gS2 : forall x, (1 <= k)%nat -> length (Ex x) = k -> exists d, sget sc x = Some d;
    gD : NoDup (map fst sc)
  }.

  Section Facts.
    Variables (wk : nat -> list eref) (Ex : nat -> list (list eref)) (Dd : list eref -> Prop)
              (cnt : list nat) (sc : smap) (h : heap) (seq : nat).
    Hypothesis I : GInv wk Ex Dd cnt sc h seq.

    Definition in_heap (p : list eref) : Prop := exists c z q, In (c, z, q) h /\ wk q = p.

    Lemma cover_ext : forall rho sg y x, In sg (Ex y) -> walk v y rho x ->
      In (sg ++ rho) (Ex x) \/
      exists r1 r2, rho = r1 ++ r2 /\ r1 <> [] /\ (Dd (sg ++ r1) \/ in_heap (sg ++ r1)).
    Proof.
      induction rho as [|e rho IH]; intros sg y x Hsg W.
      - apply walk_nil_inv in W. subst x. rewrite app_nil_r. left; auto.
      - inversion W as [|a e' p' b' He Hp]; subst.
        destruct (gCov I Hsg He) as [HE|[HDd|[q [Hq Hwq]]]].
        + destruct (IH _ _ _ HE Hp) as [Hin|[r1 [r2 [-> [Hne Hc]]]]].
          * left. rewrite <- app_assoc in Hin. exact Hin.
          * right. exists (e :: r1), r2. split; [reflexivity|]. split; [discriminate|].
            rewrite <- app_assoc in Hc. exact Hc.
        + right. exists [e], rho. split; [reflexivity|]. split; [discriminate|]. left; auto.
        + right. exists [e], rho. split; [reflexivity|]. split; [discriminate|]. right.
          exists (walk_cost sg + ewgt e), (tgt e), q. split; auto.
    Qed.

    Lemma cover_all p x : walk v s p x ->
      In p (Ex x) \/ exists p1 p2, p = p1 ++ p2 /\ (Dd p1 \/ in_heap p1).
    Proof.
      intros W. destruct (gCov0 I) as [HE|[HDd|[q [Hq Hwq]]]].
      - destruct (cover_ext HE W) as [Hin|[r1 [r2 [-> [_ Hc]]]]].
        + left; exact Hin.
        + right. exists r1, r2. split; auto.
      - right. exists [], p. split; auto.
      - right. exists [], p. split; auto. right. exists 0, s, q. split; auto.
    Qed.

    Variable c0 : Z.
    Hypothesis Hmin : forall c z q, In (c, z, q) h -> c0 <= c.

    Lemma key_dead x : (length (Ex x) < k)%nat ->
      forall n rho p1 y, (length rho <= n)%nat -> Dd p1 -> walk v s p1 y -> walk v y rho x ->
                         walk_cost (p1 ++ rho) < c0 -> False.
    Proof.
      intros Hx. induction n as [|n IHn]; intros rho p1 y Hlen Hd W1 W2 Hc.
      - destruct rho; [|cbn [length] in Hlen; lia].
        apply walk_nil_inv in W2. subst x.
        destruct (gDead I Hd) as [y' [Wy [Hk _]]].
        rewrite (walk_end_unique W1 Wy) in Hx. lia.
      - destruct (gDead I Hd) as [y' [Wy [Hk Hcost]]].
        pose proof (walk_end_unique Wy W1) as ->.
        destruct rho as [|e rho'].
        { apply walk_nil_inv in W2. subst x. lia. }
        rewrite walk_cost_app in Hc.
        assert (Hall : forall sg, In sg (Ex y) -> In (sg ++ e :: rho') (Ex x)).
        { intros sg Hsg. destruct (cover_ext Hsg W2) as [Hin|[r1 [r2 [Er [Hne Hcase]]]]]; auto.
          exfalso. rewrite Er in W2, Hc, Hlen.
          destruct (walk_app_inv _ _ W2) as [b [Wr1 Wr2]].
          pose proof (walk_cost_nonneg HN Wr2) as Hr2.
          pose proof (Hcost _ Hsg) as Hsgc.
          rewrite walk_cost_app in Hc. rewrite app_length in Hlen.
          destruct Hcase as [Hdd|[c [z [q [Hq Hwq]]]]].
          - apply (IHn r2 (sg ++ r1) b); auto.
            + destruct r1; [congruence|]. cbn [length] in Hlen. lia.
            + apply (walk_app (gExW I Hsg) Wr1).
            + rewrite !walk_cost_app. lia.
          - destruct (gW I Hq) as [_ Hcq]. rewrite Hwq, walk_cost_app in Hcq.
            pose proof (Hmin Hq). lia. }
        assert (Hincl : incl (map (fun sg => sg ++ e :: rho') (Ex y)) (Ex x)).
        { intros p Hp. apply in_map_iff in Hp. destruct Hp as [sg [<- Hsg]]. auto. }
        assert (Hnd : NoDup (map (fun sg => sg ++ e :: rho') (Ex y))).
        { apply FinFun.Injective_map_NoDup; [|apply (gExN I)].
          intros a b Hab. apply app_inv_tail in Hab. auto. }
        pose proof (NoDup_incl_length Hnd Hincl) as Hle. rewrite map_length in Hle. lia.
    Qed.

    (* a node popped fewer than k times: every walk to it cheaper than the heap minimum was expanded *)
    Lemma key x p : (length (Ex x) < k)%nat -> walk v s p x -> walk_cost p < c0 -> In p (Ex x).
    Proof.
      intros Hx W Hc. destruct (cover_all W) as [Hin|[p1 [p2 [-> Hcase]]]]; auto.
      exfalso. destruct (walk_app_inv _ _ W) as [b [W1 W2]].
      destruct Hcase as [Hdd|[c [z [q [Hq Hwq]]]]].
      - apply (@key_dead x Hx (length p2) p2 p1 b); auto.
      - destruct (gW I Hq) as [_ Hcq]. rewrite Hwq in Hcq.
        rewrite walk_cost_app in Hc. pose proof (walk_cost_nonneg HN W2). pose proof (Hmin Hq). lia.
    Qed.
  End Facts.

  (* ---------------------------------------------------------------- fuel *)
  Definition PhiK (cnt : list nat) : nat :=
    list_sum (map (fun a => ((k - cget cnt a) * length (out_edges v a))%nat) (vnodes v)).

  Lemma cget_upd cnt x c a : (x < length cnt)%nat ->
    cget (upd cnt x c) a = if Nat.eqb x a then c else cget cnt a.
  Proof.
    intros Hx. unfold cget. rewrite nth_error_upd.
    destruct (Nat.eqb_spec x a) as [->|Hne]; auto.
    destruct (Nat.ltb_spec a (length cnt)); auto; lia.
  Qed.

  Lemma PhiK_aux cnt x c l : (x < length cnt)%nat -> cget cnt x = c ->
    (list_sum (map (fun a => ((k - cget (upd cnt x (S c)) a) * length (out_edges v a))%nat) l)
     <= list_sum (map (fun a => ((k - cget cnt a) * length (out_edges v a))%nat) l))%nat /\
    (In x l -> (c < k)%nat ->
     (list_sum (map (fun a => ((k - cget (upd cnt x (S c)) a) * length (out_edges v a))%nat) l)
      + length (out_edges v x)
      <= list_sum (map (fun a => ((k - cget cnt a) * length (out_edges v a))%nat) l))%nat).
  Proof.
    intros Hx Hc. induction l as [|a t [IH1 IH2]]; cbn [map].
    - split; [cbn; lia|intros []].
    - rewrite !list_sum_cons, cget_upd by auto.
      destruct (Nat.eqb_spec x a) as [<-|Hne].
      + rewrite Hc. split; [nia|]. intros _ Hck.
        assert (((k - S c) * length (out_edges v x) + length (out_edges v x)
                 = (k - c) * length (out_edges v x))%nat) by nia.
        lia.
      + split; [lia|]. intros [Heq|Hin] Hck; [congruence|]. specialize (IH2 Hin Hck). lia.
  Qed.

  Lemma PhiK_step cnt x c : nth_error cnt x = Some c -> (c < k)%nat ->
    (PhiK (upd cnt x (S c)) + length (out_edges v x) <= PhiK cnt)%nat.
  Proof.
    intros Hc Hck. unfold PhiK.
    assert (Hx : (x < length cnt)%nat) by (apply nth_error_Some; congruence).
    assert (Hg : cget cnt x = c) by (unfold cget; rewrite Hc; auto).
    destruct (@PhiK_aux cnt x c (vnodes v) Hx Hg) as [H1 H2].
    assert (Hcase : out_edges v x = [] \/ out_edges v x <> []).
    { destruct (out_edges v x); [left; auto|right; discriminate]. }
    destruct Hcase as [E|E].
    - rewrite E. cbn [length]. lia.
    - apply H2; auto. apply (vok_nodes HV _ E).
  Qed.

  Lemma PhiK_skip cnt x c : nth_error cnt x = Some c -> (PhiK (upd cnt x (S c)) <= PhiK cnt)%nat.
  Proof.
    intros Hc. unfold PhiK.
    assert (Hx : (x < length cnt)%nat) by (apply nth_error_Some; congruence).
    assert (Hg : cget cnt x = c) by (unfold cget; rewrite Hc; auto).
    apply (@PhiK_aux cnt x c (vnodes v) Hx Hg).
  Qed.

  Lemma PhiK_init : PhiK (repeat 0%nat (vbound v)) = (k * length (all_out v))%nat.
  Proof.
    unfold PhiK, all_out.
    assert (Hz : forall a, cget (repeat 0%nat (vbound v)) a = 0%nat).
    { intros a. unfold cget. destruct (nth_error (repeat 0%nat (vbound v)) a) as [c|] eqn:E; auto.
      apply nth_error_In in E. apply repeat_spec in E. auto. }
    induction (vnodes v) as [|a t IH]; cbn [map flat_map]; [cbn; lia|].
    rewrite list_sum_cons, app_length, map_length, IH, Hz. nia.
  Qed.

  (* ---------------------------------------------------------------- a pop after the k-th one *)
  Lemma perm_sub (h h' : heap) e : Permutation h (e :: h') -> forall e', In e' h' -> In e' h.
  Proof. intros HP e' H. eapply Permutation_in; [apply Permutation_sym; apply HP|right; auto]. Qed.

  Lemma perm_head (h h' : heap) e : Permutation h (e :: h') -> In e h.
  Proof. intros HP. eapply Permutation_in; [apply Permutation_sym; apply HP|left; auto]. Qed.

  Lemma perm_keep (h h' : heap) e : Permutation h (e :: h') -> NoDup (map hseq h) ->
    forall e', In e' h -> hseq e' <> hseq e -> In e' h'.
  Proof.
    intros HP Hnd e' H Hne. pose proof (Permutation_in _ HP H) as [Heq|H']; auto. congruence.
  Qed.

  Lemma perm_nodup (h h' : heap) e : Permutation h (e :: h') -> NoDup (map hseq h) ->
    NoDup (map hseq h') /\ forall e', In e' h' -> hseq e' <> hseq e.
  Proof.
    intros HP Hnd. pose proof (Permutation_NoDup (Permutation_map hseq HP) Hnd) as Hnd'.
    cbn [map] in Hnd'. inversion Hnd' as [|a l Hnin Hnd'']; subst. split; auto.
    intros e' He' Heq. apply Hnin. rewrite <- Heq. apply in_map; auto.
  Qed.

  Lemma GInv_dead wk Ex Dd cnt sc h seq c0 x q0 h' c :
    GInv wk Ex Dd cnt sc h seq -> Permutation h ((c0, x, q0) :: h') ->
    nth_error cnt x = Some c -> (k <= c)%nat ->
    GInv wk Ex (fun p => Dd p \/ p = wk q0) (upd cnt x (S c)) sc h' seq.
  Proof.
    intros I HP Hc Hkc.
    pose proof (perm_sub HP) as Hsub. pose proof (perm_head HP) as Hin.
    destruct (perm_nodup HP (gN I)) as [Hnd' Hq0].
    assert (Hkeep : forall c1 x1 q1, In (c1, x1, q1) h -> q1 <> q0 -> In (c1, x1, q1) h').
    { intros c1 x1 q1 H Hne. apply (perm_keep HP (gN I) H). unfold hseq; cbn [snd]. auto. }
    constructor.
    - rewrite upd_length. apply (gL I).
    - intros y c'. rewrite nth_error_upd. destruct (Nat.eqb_spec x y) as [<-|Hne]; [|apply (gC I)].
      destruct (Nat.ltb_spec x (length cnt)); [|discriminate]. intros [= <-].
      rewrite (gC I Hc). lia.
    - apply (gLe I).
    - intros c1 x1 q1 H. apply (gB I (Hsub _ H)).
    - intros c1 x1 q1 H. apply (gW I (Hsub _ H)).
    - intros c1 x1 q1 H. apply (gQ I (Hsub _ H)).
    - exact Hnd'.
    - intros c1 x1 q1 c2 x2 q2 H1 H2. apply (gInj I (Hsub _ H1) (Hsub _ H2)).
    - intros c1 x1 q1 H. apply (gFresh I (Hsub _ H)).
    - apply (gExW I).
    - apply (gExN I).
    - intros y sg c1 x1 q1 Hsg H. apply (gMono I Hsg (Hsub _ H)).
    - intros p [Hp| ->]; [apply (gDead I Hp)|].
      exists x. destruct (gW I Hin) as [W C]. split; auto. split.
      + rewrite (gC I Hc). lia.
      + intros sg Hsg. rewrite C. apply (gMono I Hsg Hin).
    - destruct (gCov0 I) as [H|[H|[q [Hq Hwq]]]]; auto.
      destruct (Nat.eq_dec q q0) as [->|Hne].
      + right; left; right; auto.
      + right; right. exists q. split; auto.
    - intros y sg e Hsg He. destruct (gCov I Hsg He) as [H|[H|[q [Hq Hwq]]]]; auto.
      destruct (Nat.eq_dec q q0) as [->|Hne].
      + right; left; right; auto.
      + right; right. exists q. split; auto.
    - apply (gPreE I).
    - intros c1 x1 q1 sg e H. apply (gPreH I (Hsub _ H)).
    - apply (gS1 I).
    - apply (gS2 I).
    - apply (gD I).
  Qed.

  (* ---------------------------------------------------------------- one of the first k pops of a node *)
  Lemma GInv_expand wk Ex Dd cnt sc h seq c0 x q0 h' c :
    GInv wk Ex Dd cnt sc h seq -> Permutation h ((c0, x, q0) :: h') ->
    (forall c1 z q, In (c1, z, q) h -> c0 <= c1) ->
    nth_error cnt x = Some c -> (c < k)%nat ->
    GInv (wk_ext wk (wk q0) (out_edges v x) seq) (ex_add Ex x (wk q0)) Dd (upd cnt x (S c))
         (if Nat.eqb (S c) k then sset sc x c0 else sc)
         (h' ++ pushes (out_edges v x) c0 seq) (seq + length (out_edges v x)).
  Proof.
    intros I HP Hmin Hc Hck.
    set (pi := wk q0). set (es := out_edges v x).
    pose proof (perm_sub HP) as Hsub. pose proof (perm_head HP) as Hin.
    destruct (perm_nodup HP (gN I)) as [Hnd' Hq0].
    assert (Hkeep : forall c1 x1 q1, In (c1, x1, q1) h -> q1 <> q0 -> In (c1, x1, q1) h').
    { intros c1 x1 q1 H Hne. apply (perm_keep HP (gN I) H). unfold hseq; cbn [snd]. auto. }
    destruct (gW I Hin) as [Wpi Cpi]. fold pi in Wpi, Cpi.
    pose proof (gFresh I Hin) as Fpi. fold pi in Fpi.
    assert (Hlenx : length (Ex x) = c) by (rewrite (gC I Hc); lia).
    (* entries of the new heap *)
    assert (Hnew : forall ent, In ent (h' ++ pushes es c0 seq) ->
              (In ent h' /\ wk_ext wk pi es seq (hseq ent) = wk (hseq ent)) \/
              (exists i e, nth_error es i = Some e /\ ent = (c0 + ewgt e, tgt e, (seq + i)%nat) /\
                           wk_ext wk pi es seq (seq + i) = pi ++ [e])).
    { intros ent H. apply in_app_or in H. destruct H as [H|H].
      - left. split; auto. destruct ent as [[c1 x1] q1]. apply wk_ext_old.
        unfold hseq; cbn [snd]. apply (gQ I (Hsub _ H)).
      - right. destruct (pushes_inv_nth H) as [i [e [Hi He]]]. exists i, e. repeat split; auto.
        apply wk_ext_new; auto. }
    assert (HesIn : forall i e, nth_error es i = Some e -> In e (out_edges v x)).
    { intros i e Hi. apply (nth_error_In _ _ Hi). }
    (* no old walk extends pi *)
    assert (HnoE : forall y e, ~ In (pi ++ [e]) (Ex y)).
    { intros y e H. destruct (gPreE I H) as [z Hz].
      pose proof (walk_end_unique (gExW I Hz) Wpi) as ->. auto. }
    assert (HnoH : forall c1 x1 q1 e, In (c1, x1, q1) h -> wk q1 <> pi ++ [e]).
    { intros c1 x1 q1 e H Hw. destruct (gPreH I H Hw) as [z Hz].
      pose proof (walk_end_unique (gExW I Hz) Wpi) as ->. auto. }
    constructor.
    - rewrite upd_length. apply (gL I).
    - intros y c'. rewrite nth_error_upd. unfold ex_add. destruct (Nat.eqb_spec x y) as [<-|Hne].
      + destruct (Nat.ltb_spec x (length cnt)); [|discriminate]. intros [= <-].
        rewrite Nat.eqb_refl. cbn [length]. rewrite Hlenx. lia.
      + destruct (Nat.eqb_spec y x); [congruence|]. apply (gC I).
    - intros y. unfold ex_add. destruct (Nat.eqb_spec y x) as [->|Hne]; [|apply (gLe I)].
      cbn [length]. lia.
    - intros c1 x1 q1 H. destruct (Hnew _ H) as [[H' _]|[i [e [Hi [He _]]]]].
      + apply (gB I (Hsub _ H')).
      + injection He as _ -> _. apply (HT (HesIn _ _ Hi)).
    - intros c1 x1 q1 H. destruct (Hnew _ H) as [[H' Hw]|[i [e [Hi [He Hw]]]]].
      + unfold hseq in Hw; cbn [snd] in Hw. rewrite Hw. apply (gW I (Hsub _ H')).
      + injection He as -> -> ->. rewrite Hw. split.
        * apply (walk_snoc e Wpi (HesIn _ _ Hi)).
        * rewrite walk_cost_snoc. lia.
    - intros c1 x1 q1 H. apply in_app_or in H. destruct H as [H|H].
      + pose proof (gQ I (Hsub _ H)). lia.
      + apply (in_map hseq) in H. rewrite pushes_seqs in H. apply in_seq in H.
        unfold hseq in H; cbn [snd] in H. fold es. lia.
    - rewrite map_app. apply NoDup_app_disj; auto.
      + rewrite pushes_seqs. apply seq_NoDup.
      + intros q1 H1 H2. rewrite pushes_seqs in H2. apply in_seq in H2.
        apply in_map_iff in H1. destruct H1 as [[[c1 y1] q1'] [Hq1 Hin1]].
        unfold hseq in Hq1; cbn [snd] in Hq1; subst q1'.
        pose proof (gQ I (Hsub _ Hin1)). lia.
    - intros c1 x1 q1 c2 x2 q2 H1 H2.
      destruct (Hnew _ H1) as [[H1' Hw1]|[i1 [e1 [Hi1 [He1 Hw1]]]]];
      destruct (Hnew _ H2) as [[H2' Hw2]|[i2 [e2 [Hi2 [He2 Hw2]]]]].
      + unfold hseq in Hw1, Hw2; cbn [snd] in Hw1, Hw2. rewrite Hw1, Hw2.
        apply (gInj I (Hsub _ H1') (Hsub _ H2')).
      + unfold hseq in Hw1; cbn [snd] in Hw1. injection He2 as -> -> ->. rewrite Hw1, Hw2.
        intros Hw. exfalso. apply (HnoH _ _ _ e2 (Hsub _ H1') Hw).
      + unfold hseq in Hw2; cbn [snd] in Hw2. injection He1 as -> -> ->. rewrite Hw1, Hw2.
        intros Hw. exfalso. apply (HnoH _ _ _ e1 (Hsub _ H2') (eq_sym Hw)).
      + injection He1 as -> -> ->. injection He2 as -> -> ->. rewrite Hw1, Hw2.
        intros Hw. apply app_inv_head in Hw. injection Hw as ->.
        assert (i1 = i2); [|lia].
        apply (proj1 (NoDup_nth_error es) (HD x)); [apply nth_error_Some; congruence|congruence].
    - intros c1 x1 q1 H Hex. destruct (Hnew _ H) as [[H' Hw]|[i [e [Hi [He Hw]]]]].
      + unfold hseq in Hw; cbn [snd] in Hw. rewrite Hw in Hex.
        destruct (ex_add_inv Hex) as [Hold|[-> Heq]].
        * apply (gFresh I (Hsub _ H') Hold).
        * assert (q1 = q0) by (apply (gInj I (Hsub _ H') Hin Heq)). subst q1.
          apply (Hq0 _ H'). reflexivity.
      + injection He as -> -> ->. rewrite Hw in Hex.
        destruct (ex_add_inv Hex) as [Hold|[_ Heq]].
        * apply (HnoE _ _ Hold).
        * apply (f_equal (@length _)) in Heq. rewrite app_length in Heq. cbn [length] in Heq. lia.
    - intros y sg Hsg. destruct (ex_add_inv Hsg) as [Hold|[-> ->]]; [apply (gExW I Hold)|exact Wpi].
    - intros y. unfold ex_add. destruct (Nat.eqb_spec y x) as [->|Hne]; [|apply (gExN I)].
      constructor; auto. apply (gExN I).
    - intros y sg c1 x1 q1 Hsg H.
      assert (Hsgc : walk_cost sg <= c0).
      { destruct (ex_add_inv Hsg) as [Hold|[-> ->]]; [apply (gMono I Hold Hin)|lia]. }
      destruct (Hnew _ H) as [[H' _]|[i [e [Hi [He _]]]]].
      + pose proof (Hmin _ _ _ (Hsub _ H')). lia.
      + injection He as -> _ _. pose proof (HN (HesIn _ _ Hi)). lia.
    - intros p Hp. destruct (gDead I Hp) as [y [Wy [Hk Hcost]]].
      exists y. split; auto. unfold ex_add. destruct (Nat.eqb_spec y x) as [->|Hne]; [lia|]. split; auto.
    - destruct (gCov0 I) as [H|[H|[q [Hq Hwq]]]].
      + left. apply ex_add_mono; auto.
      + right; left; auto.
      + destruct (Nat.eq_dec q q0) as [->|Hne].
        * left. fold pi in Hwq. rewrite Hwq in Wpi. apply walk_nil_inv in Wpi. subst x.
          unfold ex_add. rewrite Nat.eqb_refl. left; auto.
        * right; right. exists q. split; [apply in_or_app; left; auto|].
          rewrite wk_ext_old; auto. apply (gQ I Hq).
    - intros y sg e Hsg He. destruct (ex_add_inv Hsg) as [Hold|[-> ->]].
      + destruct (gCov I Hold He) as [H|[H|[q [Hq Hwq]]]].
        * left. apply ex_add_mono; auto.
        * right; left; auto.
        * destruct (Nat.eq_dec q q0) as [->|Hne].
          -- left. fold pi in Hwq. rewrite <- Hwq.
             assert (Heq : (walk_cost sg + ewgt e, tgt e, q0) = (c0, x, q0)).
             { pose proof (gN I) as Hndh.
               assert (Hgen : forall (l : heap) a b, NoDup (map hseq l) -> In a l -> In b l -> hseq a = hseq b -> a = b).
               { induction l as [|y0 t IHl]; intros a b Hn Ha Hb Hab; [destruct Ha|].
                 cbn [map] in Hn. inversion Hn as [|? ? Hnin Hn']; subst.
                 destruct Ha as [<-|Ha]; destruct Hb as [<-|Hb]; auto.
                 - exfalso; apply Hnin. rewrite Hab. apply in_map; auto.
                 - exfalso; apply Hnin. rewrite <- Hab. apply in_map; auto. }
               apply (Hgen h _ _ Hndh Hq Hin). reflexivity. }
             injection Heq as _ ->. unfold ex_add. rewrite Nat.eqb_refl. left; auto.
          -- right; right. exists q. split; [apply in_or_app; left; auto|].
             rewrite wk_ext_old; auto. apply (gQ I Hq).
      + right; right. destruct (In_nth_error _ _ He) as [i Hi].
        exists (seq + i)%nat. split.
        * apply in_or_app; right. rewrite Cpi. apply pushes_nth; auto.
        * apply wk_ext_new; auto.
    - intros y sg e Hsg. destruct (ex_add_inv Hsg) as [Hold|[-> Heq]].
      + destruct (gPreE I Hold) as [z Hz]. exists z. apply ex_add_mono; auto.
      + symmetry in Heq. fold pi in Heq. destruct (gPreH I Hin Heq) as [z Hz].
        exists z. apply ex_add_mono; auto.
    - intros c1 x1 q1 sg e H Hw'. destruct (Hnew _ H) as [[H' Hw]|[i [e' [Hi [He Hw]]]]].
      + unfold hseq in Hw; cbn [snd] in Hw. rewrite Hw in Hw'.
        destruct (gPreH I (Hsub _ H') Hw') as [z Hz]. exists z. apply ex_add_mono; auto.
      + injection He as -> -> ->. rewrite Hw in Hw'. apply app_inj_tail in Hw'. destruct Hw' as [<- _].
        exists x. unfold ex_add. rewrite Nat.eqb_refl. left; auto.
    - intros y d. destruct (Nat.eqb_spec (S c) k) as [Hk|Hk]; [|apply (gS1 I)].
      rewrite sget_sset. destruct (Nat.eqb_spec x y) as [<-|Hne]; [|apply (gS1 I)].
      intros [= <-]. split.
      + exists (pi :: Ex x). split; [constructor; auto; apply (gExN I)|]. split; [cbn [length]; lia|].
        intros p [<-|Hp]; [split; auto; lia|]. split; [apply (gExW I Hp)|apply (gMono I Hp Hin)].
      + intros [l [Nl [Ll Al]]].
        assert (Hincl : incl l (Ex x)).
        { intros p Hp. destruct (Al _ Hp) as [Wp Cp]. cbn beta in Cp.
          apply (key I Hmin); auto. lia. }
        pose proof (NoDup_incl_length Nl Hincl). lia.
    - intros y Hk1 Hlen. unfold ex_add in Hlen. destruct (Nat.eqb_spec y x) as [->|Hne].
      + cbn [length] in Hlen. rewrite Hlenx in Hlen. rewrite Hlen, Nat.eqb_refl.
        exists c0. rewrite sget_sset, Nat.eqb_refl. reflexivity.
      + destruct (gS2 I Hk1 Hlen) as [d Hd]. exists d.
        destruct (Nat.eqb (S c) k); auto. rewrite sget_sset.
        destruct (Nat.eqb_spec x y); [congruence|auto].
    - destruct (Nat.eqb (S c) k); [apply sset_nodup|]; apply (gD I).
  Qed.

  (* ---------------------------------------------------------------- the loop *)
  Lemma gfinal wk Ex Dd cnt sc seq : GInv wk Ex Dd cnt sc [] seq ->
    forall x d, sget sc x = Some d <-> kth_walk_cost v s x k d.
  Proof.
    intros I x d. split; [apply (gS1 I)|].
    intros Hk. destruct (Nat.eq_dec k 0) as [->|Hk0]; [destruct (kth_walk_cost_zero Hk)|].
    assert (Hlen : length (Ex x) = k).
    { destruct (Nat.lt_ge_cases (length (Ex x)) k) as [Hlt|Hge].
      - exfalso. destruct Hk as [[l [Nl [Ll Al]]] _].
        assert (Hincl : incl l (Ex x)).
        { intros p Hp. destruct (Al _ Hp) as [Wp _].
          apply (@key _ _ _ _ _ _ _ I (walk_cost p + 1)); auto; try lia. intros c z q []. }
        pose proof (NoDup_incl_length Nl Hincl). lia.
      - pose proof (gLe I x). lia. }
    destruct (gS2 I) with (x := x) as [d' Hd']; auto; try lia.
    rewrite Hd'. f_equal. apply (kth_walk_cost_unique (gS1 I Hd') Hk).
  Qed.

  Lemma gloop : forall fuel wk Ex Dd cnt sc h seq,
    GInv wk Ex Dd cnt sc h seq -> (length h + PhiK cnt < fuel)%nat ->
    exists m, ksp_loop fuel v None k cnt sc h seq = Ok m /\ NoDup (map fst m) /\
              forall x d, sget m x = Some d <-> kth_walk_cost v s x k d.
  Proof.
    induction fuel as [|f IH]; intros wk Ex Dd cnt sc h seq I Hf; [lia|].
    cbn [ksp_loop]. pose proof (hpop_spec (gN I)) as Hpop.
    destruct (hpop h) as [[[[c0 x] q0] h']|].
    - destruct Hpop as [HP Hmin].
      pose proof (perm_head HP) as Hin.
      assert (Hlen : length h = S (length h')) by (rewrite (Permutation_length HP); reflexivity).
      assert (Hmin' : forall c1 z q, In (c1, z, q) h -> c0 <= c1).
      { intros c1 z q H. apply (Hmin _ H). }
      pose proof (gB I Hin) as Hxb.
      destruct (@nth_error_lt_Some _ cnt x) as [c Hc]; [rewrite (gL I); auto|].
      rewrite Hc. destruct (Nat.ltb_spec k (S c)) as [Hkc|Hkc].
      + assert (Hkc' : (k <= c)%nat) by lia.
        apply (IH _ _ _ _ _ _ _ (GInv_dead I HP Hc Hkc')).
        pose proof (PhiK_skip Hc). lia.
      + assert (Hkc' : (c < k)%nat) by lia.
        cbn [andb]. rewrite ksp_push_eq.
        apply (IH _ _ _ _ _ _ _ (GInv_expand I HP Hmin' Hc Hkc')).
        rewrite app_length, pushes_length. pose proof (PhiK_step Hc Hkc'). unfold heap, hent in *. lia.
    - subst h. exists sc. split; auto. split; [apply (gD I)|]. apply (gfinal I).
  Qed.

  Lemma GInv_init : GInv (fun _ => []) (fun _ => []) (fun _ => False)
                         (repeat 0%nat (vbound v)) [] [(0, s, 0%nat)] 1.
  Proof.
    constructor.
    - apply repeat_length.
    - intros x c Hc. apply nth_error_In in Hc. apply repeat_spec in Hc. subst c. reflexivity.
    - intros x. cbn [length]. lia.
    - intros c x q [[= <- <- <-]|[]]. auto.
    - intros c x q [[= <- <- <-]|[]]. split; [constructor|reflexivity].
    - intros c x q [[= <- <- <-]|[]]. lia.
    - cbn [map]. constructor; [intros []|constructor].
    - intros c x q c' x' q' [[= <- <- <-]|[]] [[= <- <- <-]|[]]. auto.
    - intros c x q _ [].
    - intros y sg [].
    - intros y. constructor.
    - intros y sg c x q [].
    - intros p [].
    - right; right. exists 0%nat. split; [left|]; auto.
    - intros y sg e [].
    - intros y sg e [].
    - intros c x q sg e _ H. destruct sg; discriminate.
    - intros x d H; discriminate.
    - intros x Hk H. cbn [length] in H. lia.
    - constructor.
  Qed.

  Theorem ksp_gen_exact :
    exists m, k_shortest_path v (vbound v) s None k = Ok m /\ NoDup (map fst m) /\
              forall x d, sget m x = Some d <-> kth_walk_cost v s x k d.
  Proof.
    unfold k_shortest_path. apply (gloop GInv_init).
    rewrite PhiK_init. cbn [length]. unfold trav_fuel. nia.
  Qed.
End KspGen.

(* ------------------------------------------------------------------ checkers for concrete views *)
Definition out_nodup_b (v : view) : bool :=
  forallb (fun al : nat * list eref => nodupb (map eid (snd al))) (vout v).
Definition tgt_bound_b (v : view) : bool :=
  forallb (fun al : nat * list eref => forallb (fun e => Nat.ltb (tgt e) (vbound v)) (snd al)) (vout v).

Lemma out_nodup_b_ok v : out_nodup_b v = true -> forall a, NoDup (out_edges v a).
Proof.
  unfold out_nodup_b. intros H a. rewrite forallb_forall in H. unfold out_edges.
  destruct (assoc_nat (vout v) a) as [l|] eqn:E; [|constructor].
  apply assoc_nat_In in E. pose proof (H _ E) as Hl. cbn [snd] in Hl.
  apply nodupb_NoDup in Hl. apply (NoDup_map_inv _ _ Hl).
Qed.

Lemma tgt_bound_b_ok v : tgt_bound_b v = true ->
  forall a e, In e (out_edges v a) -> (tgt e < vbound v)%nat.
Proof.
  unfold tgt_bound_b. intros H a e He. rewrite forallb_forall in H.
  destruct (out_edges_In _ _ _ He) as [l [Hl Hel]].
  pose proof (H _ Hl) as Hal. cbn [snd] in Hal. rewrite forallb_forall in Hal.
  apply Nat.ltb_lt. auto.
Qed.
