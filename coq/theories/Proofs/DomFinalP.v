(* The accessor theorems of DomAccP restated for a map returned by simple_fast. *)
From PG Require Import Lib.Io Model.View Model.Traversal Model.MatchM Model.CutM
                       Spec.Reach Spec.DomSpec Proofs.DomSpecP Proofs.DomAccP.

Section Final.
Variable v : view.
Variables (root : nat) (debug : bool) (m : list (nat * nat)).
Hypothesis Hv : VOk v.
Hypothesis Hc : in_cap v root.
Hypothesis Hm : simple_fast v root debug = Ok m.

Let D := ok_dommap v root Hv Hc debug m Hm.

Lemma sf_immediate_dominator x d : immediate_dominator root m x = Some d <-> idom v root d x.
Proof. apply (immediate_dominator_iff v root m D). Qed.

Lemma sf_dominators_of x l : dominators_of root m x = Some l ->
  (forall a, In a l <-> dominates v root a x) /\
  (exists l', l = x :: l') /\
  last l root = root /\
  (forall l1 u w l2, l = l1 ++ u :: w :: l2 -> idom v root w u).
Proof. apply (dominators_of_spec v root m D). Qed.

Lemma sf_dominators_of_some x : reachable v root x -> exists l, dominators_of root m x = Some l.
Proof. apply (dominators_of_some v root m D). Qed.

Lemma sf_strict_dominators_of x l : strict_dominators_of root m x = Some l ->
  (forall a, In a l <-> sdom v root a x) /\
  (forall l0, dominators_of root m x = Some l0 -> l0 = x :: l).
Proof. apply (strict_dominators_of_spec v root m D). Qed.

Lemma sf_immediately_dominated_by x y : In y (immediately_dominated_by m x) <-> idom v root x y.
Proof. apply (immediately_dominated_by_iff v root m D). Qed.

Lemma sf_unreachable x : ~ reachable v root x ->
  immediate_dominator root m x = None /\ dominators_of root m x = None /\
  strict_dominators_of root m x = None /\ immediately_dominated_by m x = [].
Proof. apply (unreachable_none v root m D). Qed.
End Final.
