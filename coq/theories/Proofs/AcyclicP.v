(* C14, T6 / T7: the Acyclic<G> wrapper over a DiGraph or a StableDiGraph keeps its invariant
   through every operation, hence along every history. *)
From Coq Require Import Sorted Permutation.
From PG Require Import Lib.Io Lib.Walk Model.GraphM Model.StableM Proofs.GraphP Proofs.StableP.
From PG Require Import Model.View Model.Traversal Model.AlgoBasic Model.AcyclicM Model.AcyclicIO
                       Spec.Reach Spec.AcyclicSpec
                       Proofs.OrderMapP Proofs.ConesP Proofs.ReorderP Proofs.AcyclicViewP
                       Proofs.AcyclicInnerG Proofs.AcyclicInnerS.
From PG Require Proofs.StableH.

Section A.
Variable cap : nat.
Variable capcheck debug : bool.

(* ------------------------------------------------------------------ *)
(* the wrapped graph, whichever kind                                   *)

Definition InnerInv (i : inner) : Prop :=
  match i with InG g => @GInv nat nat cap g | InS s => SInv cap s end.
Definition iedge (i : inner) (a b : nat) : Prop :=
  match i with InG g => gedge g a b | InS s => sedge s a b end.
Definition ilive (i : inner) (n : nat) : Prop := icontains i n = true.
Definition inlen (i : inner) : nat :=
  match i with InG g => length (gnodes g) | InS s => length (gnodes (sg s)) end.
Definition ielen (i : inner) : nat :=
  match i with InG g => length (gedges g) | InS s => length (gedges (sg s)) end.
Definition same_kind (i i' : inner) : Prop :=
  match i, i' with InG _, InG _ => True | InS _, InS _ => True | _, _ => False end.

(* k more slots fit below the index limit (always so when the index type is checked) *)
Definition Room (i : inner) (k : nat) : Prop :=
  capcheck = false -> inlen i + k <= cap /\ ielen i + k <= cap.
Definition grows (i i' : inner) : Prop :=
  same_kind i i' /\ inlen i' <= S (inlen i) /\ ielen i' <= S (ielen i).

Lemma Room_grows i i' k : Room i (S k) -> grows i i' -> Room i' k.
Proof. intros H [_ [H1 H2]] Hc. destruct (H Hc). lia. Qed.

Lemma grows_refl i : grows i i.
Proof. split; [destruct i; exact Logic.I | lia]. Qed.

Lemma Room_le i k k' : k' <= k -> Room i k -> Room i k'.
Proof. intros Hk H Hc. destruct (H Hc). lia. Qed.

Lemma ilive_G g n : ilive (InG g) n <-> n < node_count g.
Proof. unfold ilive; cbn [icontains]. apply Nat.ltb_lt. Qed.

Lemma ilive_S s n : ilive (InS s) n <-> slive s n.
Proof. unfold ilive; cbn [icontains]. apply contains_node_iff. Qed.

Lemma iedge_live i a b : InnerInv i -> iedge i a b -> ilive i a /\ ilive i b.
Proof.
  destruct i as [g|s]; cbn [InnerInv iedge]; intros I H.
  - destruct (gedge_live cap g a b I H). split; apply ilive_G; assumption.
  - destruct (sedge_live cap s a b I H). split; apply ilive_S; assumption.
Qed.

Lemma ilive_bound i n : InnerInv i -> ilive i n -> n < ibound i.
Proof.
  destruct i as [g|s]; cbn [InnerInv ibound]; intros I H.
  - apply ilive_G, H.
  - apply ilive_S in H. apply (slive_bound cap debug s n I H).
Qed.

Theorem view_of_inner i : InnerInv i ->
  exists v, view_of cap i = Ok v /\ VWf v /\ (forall n, In n (vnodes v) <-> ilive i n) /\
    vbound v = ibound i /\ (forall a b, Reach.step v a b <-> iedge i a b).
Proof.
  destruct i as [g|s]; cbn [InnerInv]; intros I.
  - destruct (view_of_G cap g I) as [v [E [W [Hn [Hb Hs]]]]]. exists v. split; [exact E|]. split; [exact W|].
    split; [|split; [exact Hb | exact Hs]].
    intros n. rewrite Hn, ilive_G, in_seq. lia.
  - destruct (view_of_S cap debug s I) as [v [E [W [Hn [Hb Hs]]]]]. exists v. split; [exact E|]. split; [exact W|].
    split; [|split; [exact Hb | exact Hs]].
    intros n. rewrite Hn, ilive_S. apply slive_in.
Qed.

(* ------------------------------------------------------------------ *)
(* the invariant of the wrapper                                        *)

Definition AInv (s : acyc) : Prop :=
  InnerInv (ag s) /\ OInv (ilive (ag s)) (aom s) /\
  exists v, view_of cap (ag s) = Ok v /\ Topo v (aom s).

Lemma AInv_intro i om bl : InnerInv i -> OInv (ilive i) om ->
  (forall a b, iedge i a b -> pos_or0 om a < pos_or0 om b) -> AInv (mkAc i om bl).
Proof.
  intros I O T. split; [exact I|]. split; [exact O|]. cbn [ag aom].
  destruct (view_of_inner i I) as [v [E [_ [_ [_ Hs]]]]]. exists v. split; [exact E|].
  intros a b H. apply T, Hs, H.
Qed.

Lemma AInv_edges s : AInv s -> forall a b, iedge (ag s) a b -> pos_or0 (aom s) a < pos_or0 (aom s) b.
Proof.
  intros [I [_ [v [E T]]]] a b H. destruct (view_of_inner (ag s) I) as [v' [E' [_ [_ [_ Hs]]]]].
  rewrite E in E'. injection E' as <-. apply T, Hs, H.
Qed.

Lemma AInv_ablen s bl : AInv s -> AInv (mkAc (ag s) (aom s) bl).
Proof. intros [I [O T]]. split; [exact I|]. split; [exact O | exact T]. Qed.

(* what a view of a state satisfying the invariant looks like *)
Lemma AInv_view s : AInv s ->
  exists v, view_of cap (ag s) = Ok v /\ VWf v /\ OInv (fun n => In n (vnodes v)) (aom s) /\ Topo v (aom s) /\
    (forall n, In n (vnodes v) <-> ilive (ag s) n) /\ (forall a b, Reach.step v a b <-> iedge (ag s) a b).
Proof.
  intros [I [O [v [E T]]]]. destruct (view_of_inner (ag s) I) as [v' [E' [W [Hn [_ Hs]]]]].
  rewrite E in E'. injection E' as <-. exists v. split; [exact E|]. split; [exact W|]. split.
  { eapply OInv_ext; [|exact O]. intros n. symmetry. apply Hn. }
  split; [exact T|]. split; [exact Hn | exact Hs].
Qed.

(* T5 at this level: the wrapped graph is acyclic *)
Theorem AInv_acyclic s : AInv s -> exists v, view_of cap (ag s) = Ok v /\ acyclic v /\ no_cycle v.
Proof.
  intros [_ [_ [v [E T]]]]. exists v. split; [exact E|].
  split; [apply (topo_acyclic v _ T) | apply (topo_no_cycle v _ T)].
Qed.

Theorem AInv_order s : AInv s ->
  NoDup (map snd (p2n (aom s))) /\ (forall n, In n (map snd (p2n (aom s))) <-> ilive (ag s) n) /\
  psorted (p2n (aom s)).
Proof.
  intros [_ [O _]]. split; [apply (OInv_nodup _ _ O)|]. split; [intros n; apply (OInv_live_iff _ _ n O)|].
  apply (oi_sorted _ _ O).
Qed.

(* ------------------------------------------------------------------ *)
(* the empty states                                                    *)

Theorem AInv_empty_g : AInv empty_g.
Proof.
  destruct (g_empty_inv cap) as [I [Hn He]]. apply AInv_intro.
  - exact I.
  - eapply OInv_ext; [|apply OInv_empty]. intros n. rewrite ilive_G, Hn. split; [intros [] | lia].
  - intros a b H. exfalso. exact (He a b H).
Qed.

Theorem AInv_empty_s : AInv (empty_s cap).
Proof.
  destruct (sg_empty_inv cap capcheck debug) as [I [Hn He]]. apply AInv_intro.
  - exact I.
  - eapply OInv_ext; [|apply OInv_empty]. intros n. rewrite ilive_S. split; [intros [] | apply Hn].
  - intros a b H. exfalso. exact (He a b H).
Qed.

(* ------------------------------------------------------------------ *)
(* the mutations of the wrapped graph, uniformly                       *)

Lemma roomN_G g : Room (InG g) 1 -> roomN cap capcheck g.
Proof.
  intros H. unfold roomN. assert (Hc : capcheck = true \/ capcheck = false) by (destruct capcheck; auto).
  destruct Hc as [Hc|Hc]; [left; exact Hc | right]. destruct (H Hc). cbn [inlen] in *. lia.
Qed.

Lemma roomE_G g : Room (InG g) 1 -> roomE cap capcheck g.
Proof.
  intros H. unfold roomE. assert (Hc : capcheck = true \/ capcheck = false) by (destruct capcheck; auto).
  destruct Hc as [Hc|Hc]; [left; exact Hc | right]. destruct (H Hc). cbn [ielen] in *. lia.
Qed.

Lemma inner_add_node_ok i w n i' : InnerInv i -> Room i 1 ->
  inner_add_node cap capcheck debug i w = Ok (n, i') ->
  InnerInv i' /\ ~ ilive i n /\ (forall j, ilive i' j <-> j = n \/ ilive i j) /\
  (forall a b, iedge i' a b -> iedge i a b) /\ grows i i'.
Proof.
  destruct i as [g|s]; cbn [InnerInv inner_add_node]; intros I Hr E.
  - destruct (lift_idx (try_add_node cap capcheck g w)) as [[n0 g0]| |] eqn:El; cbn [rmap] in E; try discriminate E.
    injection E as <- <-.
    destruct (G_add_node cap capcheck g w n0 g0 I (roomN_G g Hr) El) as [I' [En [Hc [Hl He]]]].
    split; [exact I'|]. split; [rewrite ilive_G; lia|]. split.
    { intros j. rewrite !ilive_G, Hc. lia. }
    split; [intros a b H; apply He, H|].
    split; [exact Logic.I|]. cbn [inlen ielen]. unfold node_count in Hc. lia.
  - destruct (s_try_add_node cap capcheck debug s w) as [r| |] eqn:Er; cbn [rbind] in E; try discriminate E.
    destruct (lift_idx r) as [[n0 s0]| |] eqn:El; cbn [rmap] in E; try discriminate E.
    injection E as <- <-.
    destruct (S_add_node cap capcheck debug s w r n0 s0 I Hr Er El) as [I' [Hn [Hl [He [H1 H2]]]]].
    split; [exact I'|]. split; [rewrite ilive_S; exact Hn|]. split.
    { intros j. rewrite !ilive_S. apply Hl. }
    split; [exact He|]. split; [exact Logic.I|]. cbn [inlen ielen]. lia.
Qed.

Lemma inner_add_edge_ok i a b w e i' : InnerInv i -> Room i 1 ->
  inner_add_edge cap capcheck debug i a b w = Ok (e, i') ->
  InnerInv i' /\ ilive i a /\ ilive i b /\ (forall j, ilive i' j <-> ilive i j) /\
  (forall x y, iedge i' x y -> iedge i x y \/ (x = a /\ y = b)) /\ grows i i'.
Proof.
  destruct i as [g|s]; cbn [InnerInv inner_add_edge]; intros I Hr E.
  - destruct (lift_idx (try_add_edge cap capcheck g a b w)) as [[e0 g0]| |] eqn:El; cbn [rmap] in E; try discriminate E.
    injection E as <- <-.
    destruct (G_add_edge cap capcheck g a b w e0 g0 I (roomE_G g Hr) El) as [I' [Hc [Ha [Hb [Hl He]]]]].
    split; [exact I'|]. split; [apply ilive_G, Ha|]. split; [apply ilive_G, Hb|]. split.
    { intros j. rewrite !ilive_G, Hc. reflexivity. }
    split; [intros x y H; apply He, H|].
    split; [exact Logic.I|]. cbn [inlen ielen]. unfold node_count in Hc. lia.
  - destruct (s_try_add_edge cap capcheck debug s a b w) as [r| |] eqn:Er; cbn [rbind] in E; try discriminate E.
    destruct (lift_idx r) as [[e0 s0]| |] eqn:El; cbn [rmap] in E; try discriminate E.
    injection E as <- <-.
    destruct (S_add_edge cap capcheck debug s a b w r e0 s0 I Hr Er El) as [I' [Ha [Hb [Hl [He [H1 H2]]]]]].
    split; [exact I'|]. split; [apply ilive_S, Ha|]. split; [apply ilive_S, Hb|]. split.
    { intros j. rewrite !ilive_S. apply Hl. }
    split; [exact He|]. split; [exact Logic.I|]. cbn [inlen ielen]. lia.
Qed.

Lemma inner_update_edge_ok i a b w e i' : InnerInv i -> Room i 1 ->
  inner_update_edge cap capcheck debug i a b w = Ok (e, i') ->
  InnerInv i' /\ ilive i a /\ ilive i b /\ (forall j, ilive i' j <-> ilive i j) /\
  (forall x y, iedge i' x y -> iedge i x y \/ (x = a /\ y = b)) /\ grows i i'.
Proof.
  destruct i as [g|s]; cbn [InnerInv inner_update_edge]; intros I Hr E.
  - destruct (try_update_edge cap capcheck true g a b w) as [r| |] eqn:Er; cbn [rbind] in E; try discriminate E.
    destruct (lift_idx r) as [[e0 g0]| |] eqn:El; cbn [rmap] in E; try discriminate E.
    injection E as <- <-.
    destruct (G_update_edge cap capcheck g a b w r e0 g0 I (roomE_G g Hr) Er El) as [I' [Hc [Ha [Hb [Hl He]]]]].
    split; [exact I'|]. split; [apply ilive_G, Ha|]. split; [apply ilive_G, Hb|]. split.
    { intros j. rewrite !ilive_G, Hc. reflexivity. }
    split; [intros x y H; apply He, H|].
    split; [exact Logic.I|]. cbn [inlen ielen]. unfold node_count in Hc. lia.
  - destruct (s_try_update_edge cap capcheck debug true s a b w) as [r| |] eqn:Er; cbn [rbind] in E; try discriminate E.
    destruct (lift_idx r) as [[e0 s0]| |] eqn:El; cbn [rmap] in E; try discriminate E.
    injection E as <- <-.
    destruct (S_update_edge cap capcheck debug s a b w r e0 s0 I Hr Er El) as [I' [Ha [Hb [Hl [He [H1 H2]]]]]].
    split; [exact I'|]. split; [apply ilive_S, Ha|]. split; [apply ilive_S, Hb|]. split.
    { intros j. rewrite !ilive_S. apply Hl. }
    split; [exact He|]. split; [exact Logic.I|]. cbn [inlen ielen]. lia.
Qed.

Lemma inner_remove_edge_ok i e r i' : InnerInv i ->
  inner_remove_edge cap debug i e = Ok (r, i') ->
  InnerInv i' /\ (forall j, ilive i' j <-> ilive i j) /\ (forall x y, iedge i' x y -> iedge i x y) /\ grows i i'.
Proof.
  destruct i as [g|s]; cbn [InnerInv inner_remove_edge]; intros I E.
  - destruct (remove_edge debug g e) as [[r0 g0]| |] eqn:Er; cbn [rmap] in E; try discriminate E.
    injection E as <- <-.
    destruct (G_remove_edge cap debug g e r0 g0 I Er) as [I' [Hc [Hl He]]].
    split; [exact I'|]. split; [intros j; rewrite !ilive_G, Hc; reflexivity|]. split; [exact He|].
    split; [exact Logic.I|]. cbn [inlen ielen]. unfold node_count in Hc. lia.
  - destruct (s_remove_edge cap debug s e) as [[r0 s0]| |] eqn:Er; cbn [rmap] in E; try discriminate E.
    injection E as <- <-.
    destruct (S_remove_edge cap debug s e r0 s0 I Er) as [I' [Hl [He [H1 H2]]]].
    split; [exact I'|]. split; [intros j; rewrite !ilive_S; apply Hl|]. split; [exact He|].
    split; [exact Logic.I|]. cbn [inlen ielen]. lia.
Qed.

(* ------------------------------------------------------------------ *)
(* add_node                                                            *)

Theorem ac_add_node_ok s w n s' : AInv s -> Room (ag s) 1 -> ac_add_node cap capcheck debug s w = Ok (n, s') ->
  AInv s' /\ grows (ag s) (ag s') /\ ~ ilive (ag s) n /\
  (forall j, ilive (ag s') j <-> j = n \/ ilive (ag s) j) /\
  (forall x, ilive (ag s) x -> pos_or0 (aom s') x = pos_or0 (aom s) x /\ pos_or0 (aom s) x < pos_or0 (aom s') n) /\
  p2n (aom s') = p2n (aom s) ++ [(pos_or0 (aom s') n, n)] /\ ablen s' = ablen s.
Proof.
  intros A Hr E. pose proof A as [I [O _]]. unfold ac_add_node in E.
  destruct (inner_add_node cap capcheck debug (ag s) w) as [[n0 i0]| |] eqn:Ei; cbn [rbind] in E; try discriminate E.
  destruct (inner_add_node_ok (ag s) w n0 i0 I Hr Ei) as [I' [Hn [Hl [He Hg]]]].
  assert (Hb : n0 < ibound i0) by (apply (ilive_bound i0 n0 I'), Hl; left; reflexivity).
  destruct (om_add_node_ok (ilive (ag s)) (aom s) n0 (ibound i0) O Hn Hb)
    as [np [om' [Eo [O' [Habove [Hp [Hpn [Hoth _]]]]]]]].
  rewrite Eo in E. cbn [rmap] in E. injection E as <- <-. cbn [ag aom ablen].
  split.
  { apply AInv_intro; [exact I' | eapply OInv_ext; [|exact O']; intros j; symmetry; apply Hl|].
    intros a b H. apply He in H. destruct (iedge_live (ag s) a b I H) as [Ha Hb'].
    rewrite (Hoth a), (Hoth b); [apply (AInv_edges s A a b H) | |]; intros ->; contradiction. }
  split; [exact Hg|]. split; [exact Hn|]. split; [exact Hl|]. split.
  { intros x Hx. assert (Hne : x <> n0) by (intros ->; contradiction). split; [apply Hoth, Hne|].
    rewrite Hpn. apply (Habove _ x). apply (OInv_listed _ _ _ O Hx). }
  split; [rewrite Hpn; exact Hp | reflexivity].
Qed.

(* ------------------------------------------------------------------ *)
(* try_add_edge / try_update_edge                                      *)

Definition inner_edge_op (upd : bool) (i : inner) (a b w : nat) : res (nat * inner) :=
  if upd then inner_update_edge cap capcheck debug i a b w else inner_add_edge cap capcheck debug i a b w.

Lemma inner_edge_op_ok upd i a b w e i' : InnerInv i -> Room i 1 ->
  inner_edge_op upd i a b w = Ok (e, i') ->
  InnerInv i' /\ ilive i a /\ ilive i b /\ (forall j, ilive i' j <-> ilive i j) /\
  (forall x y, iedge i' x y -> iedge i x y \/ (x = a /\ y = b)) /\ grows i i'.
Proof. destruct upd; [apply inner_update_edge_ok | apply inner_add_edge_ok]. Qed.

(* every outcome keeps the invariant; a rejected insertion changes nothing but the length of
   the scratch bit sets *)
Theorem ac_try_edge_inv upd s a b w r s' : AInv s -> Room (ag s) 1 ->
  ac_try_edge cap capcheck debug upd s a b w = Ok (r, s') ->
  AInv s' /\ grows (ag s) (ag s') /\
  match r with
  | inl _ => ag s' = ag s /\ aom s' = aom s
  | inr _ => ilive (ag s) a /\ ilive (ag s) b /\ a <> b /\
             (forall j, ilive (ag s') j <-> ilive (ag s) j) /\
             pos_or0 (aom s') a < pos_or0 (aom s') b /\
             map fst (p2n (aom s')) = map fst (p2n (aom s))
  end.
Proof.
  intros A Hr E. unfold ac_try_edge in E.
  destruct (Nat.eqb_spec a b) as [Hab|Hab].
  { injection E as <- <-. split; [exact A|]. split; [apply grows_refl | split; reflexivity]. }
  destruct (AInv_view s A) as [v [Ev [W [O [T [Hn Hs]]]]]]. pose proof A as [I _].
  rewrite Ev in E. cbn [rbind] in E.
  destruct (update_ordering debug v (ablen s) (aom s) a b) as [[r0 bl]| |] eqn:Eu; cbn [rbind] in E; try discriminate E.
  destruct r0 as [c|om'].
  { injection E as <- <-. split; [apply AInv_ablen, A|]. split; [apply grows_refl | split; reflexivity]. }
  fold (inner_edge_op upd (ag s) a b w) in E.
  destruct (inner_edge_op upd (ag s) a b w) as [[e0 i0]| |] eqn:Ei; cbn [rmap] in E; try discriminate E.
  injection E as <- <-. cbn [ag aom].
  destruct (inner_edge_op_ok upd (ag s) a b w e0 i0 I Hr Ei) as [I' [Ha [Hb [Hl [He Hg]]]]].
  destruct (update_ordering_ok debug v (ablen s) (aom s) a b W O T (proj2 (Hn a) Ha) (proj2 (Hn b) Hb) Hab)
    as [r1 [bl1 [Eu1 [_ Hr1]]]].
  rewrite Eu in Eu1. injection Eu1 as <- <-.
  destruct Hr1 as [_ [O' [T' [Hpab [Hk _]]]]].
  split.
  { apply AInv_intro; [exact I'| |].
    - eapply OInv_ext; [|exact O']. intros j. rewrite Hn. symmetry. apply Hl.
    - intros x y H. apply He in H. destruct H as [H|[-> ->]]; [apply T', Hs, H | exact Hpab]. }
  split; [exact Hg|]. split; [exact Ha|]. split; [exact Hb|]. split; [exact Hab|]. split; [exact Hl|].
  split; [exact Hpab | exact Hk].
Qed.

(* which outcome: for live endpoints, an insertion is rejected exactly when it is a self-loop
   or when the target already reaches the source *)
Theorem ac_try_edge_outcome upd s a b w : AInv s -> ilive (ag s) a -> ilive (ag s) b ->
  exists v, view_of cap (ag s) = Ok v /\
    ((a = b /\ ac_try_edge cap capcheck debug upd s a b w = Ok (inl ESelfLoop, s)) \/
     (a <> b /\ reachable v b a /\
        exists bl, ac_try_edge cap capcheck debug upd s a b w = Ok (inl (ECycle b), mkAc (ag s) (aom s) bl)) \/
     (a <> b /\ ~ reachable v b a /\
        exists om' bl,
          OInv (ilive (ag s)) om' /\ Topo v om' /\ pos_or0 om' a < pos_or0 om' b /\
          map fst (p2n om') = map fst (p2n (aom s)) /\
          (forall x, ~ (reachable v b x /\ pos_or0 (aom s) x < pos_or0 (aom s) a) ->
                     ~ (reachable v x a /\ pos_or0 (aom s) b < pos_or0 (aom s) x) ->
                     pos_or0 om' x = pos_or0 (aom s) x) /\
          ac_try_edge cap capcheck debug upd s a b w =
            rmap (fun '(e, i') => (inr e, mkAc i' om' bl)) (inner_edge_op upd (ag s) a b w))).
Proof.
  intros A Ha Hb. destruct (AInv_view s A) as [v [Ev [W [O [T [Hn Hs]]]]]]. exists v. split; [exact Ev|].
  unfold ac_try_edge. destruct (Nat.eqb_spec a b) as [Hab|Hab]; [left; split; [exact Hab | reflexivity]|].
  right. rewrite Ev. cbn [rbind].
  destruct (update_ordering_ok debug v (ablen s) (aom s) a b W O T (proj2 (Hn a) Ha) (proj2 (Hn b) Hb) Hab)
    as [r1 [bl1 [Eu1 [_ Hr1]]]].
  rewrite Eu1. cbn [rbind]. destruct r1 as [c|om'].
  - destruct Hr1 as [-> R]. left. split; [exact Hab|]. split; [exact R|]. exists bl1. reflexivity.
  - destruct Hr1 as [Hnr [O' [T' [Hpab [Hk [_ [Hsame _]]]]]]]. right. split; [exact Hab|]. split; [exact Hnr|].
    exists om', bl1. split; [eapply OInv_ext; [|exact O']; exact Hn|]. split; [exact T'|].
    split; [exact Hpab|]. split; [exact Hk|]. split; [exact Hsame|]. reflexivity.
Qed.

(* ------------------------------------------------------------------ *)
(* is_valid_edge                                                       *)

Theorem ac_is_valid_edge_ok s a b : AInv s -> ilive (ag s) a -> ilive (ag s) b ->
  exists v x bl, view_of cap (ag s) = Ok v /\
    ac_is_valid_edge cap debug s a b = Ok (x, mkAc (ag s) (aom s) bl) /\
    (x = true <-> a <> b /\ ~ reachable v b a).
Proof.
  intros A Ha Hb. destruct (AInv_view s A) as [v [Ev [W [O [T [Hn Hs]]]]]].
  destruct (is_valid_edge_ok debug v (ablen s) (aom s) a b W O T (proj2 (Hn a) Ha) (proj2 (Hn b) Hb))
    as [x [bl [E [_ Hx]]]].
  exists v, x, bl. split; [exact Ev|]. split; [|exact Hx].
  unfold ac_is_valid_edge. rewrite Ev. cbn [rbind]. rewrite E. reflexivity.
Qed.

Theorem ac_is_valid_edge_inv s a b x s' : AInv s -> ac_is_valid_edge cap debug s a b = Ok (x, s') ->
  AInv s' /\ ag s' = ag s /\ aom s' = aom s.
Proof.
  intros A E. unfold ac_is_valid_edge in E.
  destruct (view_of cap (ag s)) as [v| |]; cbn [rbind] in E; try discriminate E.
  destruct (is_valid_edge debug v (ablen s) (aom s) a b) as [[x0 bl]| |]; cbn [rmap] in E; try discriminate E.
  injection E as <- <-. split; [apply AInv_ablen, A | split; reflexivity].
Qed.

(* ------------------------------------------------------------------ *)
(* remove_edge                                                         *)

Theorem ac_remove_edge_ok s e r s' : AInv s -> ac_remove_edge cap debug s e = Ok (r, s') ->
  AInv s' /\ grows (ag s) (ag s') /\ aom s' = aom s /\ ablen s' = ablen s /\
  (forall j, ilive (ag s') j <-> ilive (ag s) j).
Proof.
  intros A E. pose proof A as [I [O _]]. unfold ac_remove_edge in E.
  destruct (inner_remove_edge cap debug (ag s) e) as [[r0 i0]| |] eqn:Ei; cbn [rmap] in E; try discriminate E.
  injection E as <- <-. cbn [ag aom ablen].
  destruct (inner_remove_edge_ok (ag s) e r0 i0 I Ei) as [I' [Hl [He Hg]]].
  split.
  { apply AInv_intro; [exact I' | eapply OInv_ext; [|exact O]; intros j; symmetry; apply Hl|].
    intros a b H. apply (AInv_edges s A a b), He, H. }
  split; [exact Hg|]. split; [reflexivity|]. split; [reflexivity | exact Hl].
Qed.

(* ------------------------------------------------------------------ *)
(* remove_node                                                         *)

(* an absent node: nothing happens *)
Theorem ac_remove_node_absent s a : ~ ilive (ag s) a -> ac_remove_node cap debug s a = Ok (None, s).
Proof.
  intros H. unfold ac_remove_node. unfold ilive in H. destruct (icontains (ag s) a); [contradiction H; reflexivity|].
  reflexivity.
Qed.

(* [nren i a x]: the index under which the node x of i is known after node a was removed
   (Graph moves its last node into the vacated index; StableGraph keeps all indices) *)
Definition nren (i : inner) (a x : nat) : nat :=
  match i with InG g => ren (node_count g - 1) a x | InS _ => x end.

Theorem ac_remove_node_ok s a r s' : AInv s -> ac_remove_node cap debug s a = Ok (r, s') ->
  AInv s' /\ grows (ag s) (ag s') /\ ablen s' = ablen s /\
  (ilive (ag s) a ->
     (forall x, ilive (ag s) x -> x <> a ->
        ilive (ag s') (nren (ag s) a x) /\ pos_or0 (aom s') (nren (ag s) a x) = pos_or0 (aom s) x) /\
     (forall y, ilive (ag s') y -> exists x, ilive (ag s) x /\ x <> a /\ y = nren (ag s) a x) /\
     map fst (p2n (aom s')) = map fst (p2n_remove (p2n (aom s)) (pos_or0 (aom s) a))).
Proof.
  intros A E. pose proof A as [I [O _]]. unfold ac_remove_node in E.
  destruct (icontains (ag s) a) eqn:Ec; cbn [negb] in E.
  2:{ injection E as <- <-. split; [exact A|]. split; [apply grows_refl|]. split; [reflexivity|].
      intros H. unfold ilive in H. congruence. }
  assert (Ha : ilive (ag s) a) by exact Ec.
  destruct (om_remove_node_ok (ilive (ag s)) (aom s) a O Ha) as [om1 [Eo [O1 [Hp1 [Hin1 [Hpos1 Hlen1]]]]]].
  rewrite Eo in E. cbn [rbind] in E.
  destruct (ag s) as [g|st] eqn:Eag.
  - (* DiGraph: the last node takes the index a *)
    cbn [inner_remove_node ibound] in E. cbn [InnerInv] in I.
    destruct (remove_node cap debug g a) as [[r0 g0]| |] eqn:Er; cbn [rmap rbind] in E; try discriminate E.
    assert (HaN : a < node_count g) by (apply ilive_G, Ha).
    destruct (G_remove_node cap debug g a r0 g0 I HaN Er) as [I' [Hc [Hl He]]].
    assert (Hgrow : grows (InG g) (InG g0)).
    { split; [exact Logic.I|]. cbn [inlen ielen]. unfold node_count in Hc. lia. }
    set (last := node_count g - 1) in *.
    cbn [icontains] in E.
    destruct (Nat.eqb_spec a last) as [Hal|Hal]; cbn [negb andb] in E.
    + (* the removed node was the last one *)
      injection E as <- <-. cbn [ag aom ablen nren].
      assert (Hlive' : forall j, ilive (InG g0) j <-> ilive (InG g) j /\ j <> a).
      { intros j. rewrite !ilive_G, Hc. fold last. lia. }
      split.
      { apply AInv_intro; [exact I' | eapply OInv_ext; [|exact O1]; intros j; symmetry; apply Hlive'|].
        intros x y H. apply He in H. destruct H as [x0 [y0 [H0 [Hx0 [Hy0 [-> ->]]]]]].
        fold last. rewrite <- Hal, !ren_same.
        rewrite (Hpos1 x0 Hx0), (Hpos1 y0 Hy0). apply (AInv_edges s A). rewrite Eag. exact H0. }
      split; [exact Hgrow|]. split; [reflexivity|]. intros _. fold last. rewrite <- Hal. split; [|split].
      * intros x Hx Hne. rewrite ren_same. split; [apply Hlive'; split; assumption | apply Hpos1, Hne].
      * intros y Hy. apply Hlive' in Hy. exists y. rewrite ren_same. split; [apply Hy | split; [apply Hy | reflexivity]].
      * rewrite Hp1. reflexivity.
    + (* the last node is renamed to a *)
      destruct (Nat.ltb_spec a (node_count g0)) as [Halt|Hage]; [|rewrite Hc in Hage; fold last in Hage; lia].
      assert (HlastL : ilive (InG g) last /\ last <> a) by (split; [apply ilive_G; lia | intros H; apply Hal; symmetry; exact H]).
      destruct (om_rename_ok (fun n => ilive (InG g) n /\ n <> a) om1 last a O1 HlastL)
        as [om2 [Er2 [O2 [Hpa [Hpo [Hk2 Hin2]]]]]].
      { intros [_ H]. apply H; reflexivity. }
      { rewrite Hlen1. apply (oi_len _ _ O a Ha). }
      rewrite Er2 in E. cbn [rmap] in E. injection E as <- <-. cbn [ag aom ablen nren].
      assert (Hlive' : forall j, ilive (InG g0) j <-> j = a \/ ((ilive (InG g) j /\ j <> a) /\ j <> last)).
      { intros j. rewrite !ilive_G, Hc. fold last. lia. }
      assert (Hpos2 : forall x, ilive (InG g) x -> x <> a -> pos_or0 om2 (ren last a x) = pos_or0 (aom s) x).
      { intros x Hx Hne. unfold ren. destruct (Nat.eqb_spec x last) as [->|Hnl].
        - rewrite Hpa. apply Hpos1, Hne.
        - rewrite (Hpo x Hnl Hne). apply Hpos1, Hne. }
      split.
      { apply AInv_intro; [exact I' | eapply OInv_ext; [|exact O2]; intros j; symmetry; apply Hlive'|].
        intros x y H. apply He in H. destruct H as [x0 [y0 [H0 [Hx0 [Hy0 [-> ->]]]]]]. fold last.
        destruct (gedge_live cap g x0 y0 I H0) as [L1 L2].
        rewrite (Hpos2 x0 (proj2 (ilive_G g x0) L1) Hx0), (Hpos2 y0 (proj2 (ilive_G g y0) L2) Hy0).
        apply (AInv_edges s A). rewrite Eag. exact H0. }
      split; [exact Hgrow|]. split; [reflexivity|]. intros _. fold last. split; [|split].
      * intros x Hx Hne. split; [|apply Hpos2; assumption]. apply Hlive'. unfold ren.
        destruct (Nat.eqb_spec x last) as [->|Hnl]; [left; reflexivity | right; repeat split; assumption].
      * intros y Hy. apply Hlive' in Hy. destruct Hy as [->|[[Hy1 Hy2] Hy3]].
        -- exists last. split; [apply HlastL | split; [apply HlastL|]]. unfold ren. rewrite Nat.eqb_refl. reflexivity.
        -- exists y. split; [exact Hy1 | split; [exact Hy2|]]. unfold ren.
           destruct (Nat.eqb_spec y last); [contradiction | reflexivity].
      * rewrite Hk2, Hp1. reflexivity.
  - (* StableDiGraph: indices are stable *)
    cbn [inner_remove_node ibound] in E. cbn [InnerInv] in I.
    destruct (s_remove_node cap debug st a) as [[r0 s0]| |] eqn:Er; cbn [rmap rbind] in E; try discriminate E.
    destruct (S_remove_node cap debug st a r0 s0 I (proj1 (ilive_S st a) Ha) Er) as [I' [Hl [He [H1 H2]]]].
    assert (Hlive' : forall j, ilive (InS s0) j <-> ilive (InS st) j /\ j <> a).
    { intros j. rewrite !ilive_S. apply Hl. }
    assert (Hca : icontains (InS s0) a = false).
    { destruct (icontains (InS s0) a) eqn:Eca; [|reflexivity]. apply Hlive' in Eca. destruct Eca as [_ H]. contradiction H; reflexivity. }
    rewrite Hca, andb_false_r in E. injection E as <- <-. cbn [ag aom ablen nren].
    split.
    { apply AInv_intro; [exact I' | eapply OInv_ext; [|exact O1]; intros j; symmetry; apply Hlive'|].
      intros x y H. pose proof (iedge_live (InS s0) x y I' H) as [L1 L2]. apply Hlive' in L1. apply Hlive' in L2.
      rewrite (Hpos1 x (proj2 L1)), (Hpos1 y (proj2 L2)). apply (AInv_edges s A). rewrite Eag. apply He, H. }
    split; [split; [exact Logic.I | cbn [inlen ielen]; lia]|]. split; [reflexivity|]. intros _. split; [|split].
    + intros x Hx Hne. split; [apply Hlive'; split; assumption | apply Hpos1, Hne].
    + intros y Hy. apply Hlive' in Hy. exists y. split; [apply Hy | split; [apply Hy | reflexivity]].
    + rewrite Hp1. reflexivity.
Qed.

(* ------------------------------------------------------------------ *)
(* the definitions, spelled out, and a few packagings                  *)

Lemma AInv_meaning s :
  AInv s <->
  match ag s with InG g => @GInv nat nat cap g | InS st => SInv cap st end /\
  OInv (fun n : nat => icontains (ag s) n = true) (aom s) /\
  (exists v : view, view_of cap (ag s) = Ok v /\ Topo v (aom s)).
Proof. unfold AInv, InnerInv, ilive. destruct (ag s); reflexivity. Qed.

Lemma iedge_meaning i a b :
  iedge i a b <->
  match i with
  | InG g => exists e : nat, e < length (gedges g) /\ GraphQ.src g e = a /\ GraphQ.tgt g e = b
  | InS s => exists e : nat, ewo (sg s) e <> None /\
               epo (gedges (sg s)) 0 e = Some a /\ epo (gedges (sg s)) 1 e = Some b
  end.
Proof. destruct i; reflexivity. Qed.

Lemma nren_meaning i a x :
  nren i a x = match i with
               | InG g => if Nat.eqb x (node_count g - 1) then a else x
               | InS _ => x
               end.
Proof. destruct i; reflexivity. Qed.

Lemma view_of_inner_contains i : InnerInv i ->
  exists v, view_of cap i = Ok v /\ VWf v /\ (forall n, In n (vnodes v) <-> icontains i n = true) /\
    vbound v = ibound i /\ (forall a b, Reach.step v a b <-> iedge i a b).
Proof. exact (view_of_inner i). Qed.

Lemma AInv_empty_both : AInv empty_g /\ AInv (empty_s cap).
Proof. split; [apply AInv_empty_g | apply AInv_empty_s]. Qed.

Lemma ac_is_valid_edge_both s a b : AInv s ->
  (ilive (ag s) a -> ilive (ag s) b ->
   exists v x bl, view_of cap (ag s) = Ok v /\
     ac_is_valid_edge cap debug s a b = Ok (x, mkAc (ag s) (aom s) bl) /\
     (x = true <-> a <> b /\ ~ reachable v b a)) /\
  (forall x s', ac_is_valid_edge cap debug s a b = Ok (x, s') -> AInv s' /\ ag s' = ag s /\ aom s' = aom s).
Proof.
  intros A. split; [apply (ac_is_valid_edge_ok s a b A) | intros x s'; apply (ac_is_valid_edge_inv s a b x s' A)].
Qed.

(* ------------------------------------------------------------------ *)
(* T7: histories                                                       *)

(* the state after a list of operations of the harness grammar (AcyclicIO.step); [run] prints
   the observations along the same states *)
Definition next_state (s : acyc) (o : line) : acyc := fst (AcyclicIO.step cap capcheck debug s o).
Definition final (s : acyc) (ops : list line) : acyc := fold_left next_state ops s.

Lemma run_cons s o rest :
  AcyclicIO.run cap capcheck debug s (o :: rest) =
  snd (AcyclicIO.step cap capcheck debug s o) :: AcyclicIO.run cap capcheck debug (next_state s o) rest.
Proof.
  cbn [AcyclicIO.run]. unfold next_state. destruct (AcyclicIO.step cap capcheck debug s o) as [s1 ls]. reflexivity.
Qed.

Lemma run_app s ops1 ops2 :
  AcyclicIO.run cap capcheck debug s (ops1 ++ ops2) =
  AcyclicIO.run cap capcheck debug s ops1 ++ AcyclicIO.run cap capcheck debug (final s ops1) ops2.
Proof.
  revert s; induction ops1 as [|o rest IH]; intros s; [reflexivity|].
  cbn [app]. rewrite !run_cons, IH. reflexivity.
Qed.

Definition Keeps (s s' : acyc) : Prop := AInv s' /\ grows (ag s) (ag s').

Lemma keeps_refl s : AInv s -> Keeps s s.
Proof. intros A. split; [exact A | apply grows_refl]. Qed.

Lemma rstep_keeps {A} s (r : res (A * acyc)) (f : A -> line) : AInv s ->
  (forall x s', r = Ok (x, s') -> Keeps s s') -> Keeps s (fst (rstep cap s r f)).
Proof.
  intros A0 H. unfold rstep. destruct r as [[x s']| |]; cbn [fst]; [apply (H x s' eq_refl) | |]; apply keeps_refl, A0.
Qed.

Lemma try_edge_keeps upd s a b w r s' : AInv s -> Room (ag s) 1 ->
  ac_try_edge cap capcheck debug upd s a b w = Ok (r, s') -> Keeps s s'.
Proof.
  intros A0 Hr E. destruct (ac_try_edge_inv upd s a b w r s' A0 Hr E) as [A1 [Hg _]]. split; assumption.
Qed.

Theorem step_keeps s o : AInv s -> Room (ag s) 1 -> fst o <> 8 -> Keeps s (next_state s o).
Proof.
  intros A0 Hr Hne. unfold next_state. destruct o as [code a]. cbn [fst] in Hne. cbn [AcyclicIO.step].
  destruct code as [|[|[|[|[|[|[|[|[|[|code]]]]]]]]]].
  - apply rstep_keeps; [exact A0|]. intros x s' E.
    destruct (ac_add_node_ok s _ x s' A0 Hr E) as [A1 [Hg _]]. split; assumption.
  - apply rstep_keeps; [exact A0|]. intros x s' E. apply (try_edge_keeps _ _ _ _ _ _ _ A0 Hr E).
  - apply rstep_keeps; [exact A0|]. intros x s' E. apply (try_edge_keeps _ _ _ _ _ _ _ A0 Hr E).
  - apply rstep_keeps; [exact A0|]. intros x s' E. apply (try_edge_keeps _ _ _ _ _ _ _ A0 Hr E).
  - apply rstep_keeps; [exact A0|]. intros x s' E.
    destruct (ac_try_edge cap capcheck debug true s (arg a 0) (arg a 1) (arg a 2)) as [[r1 s1]| |] eqn:E1;
      cbn [rbind] in E; try discriminate E.
    destruct r1 as [er|e1]; [discriminate E|]. injection E as <- <-.
    apply (try_edge_keeps _ _ _ _ _ _ _ A0 Hr E1).
  - apply rstep_keeps; [exact A0|]. intros x s' E.
    destruct (ac_remove_edge_ok s _ x s' A0 E) as [A1 [Hg _]]. split; assumption.
  - apply rstep_keeps; [exact A0|]. intros x s' E.
    destruct (ac_remove_node_ok s _ x s' A0 E) as [A1 [Hg _]]. split; assumption.
  - destruct (ac_is_valid_edge cap debug s (arg a 0) (arg a 1)) as [[b s']| |] eqn:E; cbn [fst];
      [|apply keeps_refl, A0|apply keeps_refl, A0].
    destruct (ac_is_valid_edge_inv s _ _ b s' A0 E) as [A1 [Eg _]]. split; [exact A1|]. rewrite Eg. apply grows_refl.
  - contradiction Hne; reflexivity.
  - cbn [fst]. apply keeps_refl, A0.
  - cbn [fst]. apply keeps_refl, A0.
Qed.

Theorem history_keeps ops : forall s, AInv s -> Room (ag s) (length ops) ->
  (forall o, In o ops -> fst o <> 8) -> AInv (final s ops).
Proof.
  induction ops as [|o rest IH]; intros s A0 Hr Hops; [exact A0|].
  unfold final. cbn [fold_left]. fold (final (next_state s o) rest).
  destruct (step_keeps s o A0) as [A1 Hg].
  - eapply Room_le; [|exact Hr]. cbn [length]. lia.
  - apply Hops. left; reflexivity.
  - apply IH; [exact A1 | |intros o' Ho'; apply Hops; right; exact Ho'].
    apply (Room_grows (ag s)); [exact Hr | exact Hg].
Qed.

Definition empty_of (stable : bool) : acyc := if stable then empty_s cap else empty_g.

Theorem history_from_empty stable ops :
  (capcheck = false -> length ops <= cap) -> (forall o, In o ops -> fst o <> 8) ->
  let s := final (empty_of stable) ops in
  AInv s /\
  (exists v, view_of cap (ag s) = Ok v /\ acyclic v /\ no_cycle v) /\
  NoDup (map snd (p2n (aom s))) /\ (forall n, In n (map snd (p2n (aom s))) <-> ilive (ag s) n).
Proof.
  intros Hcap Hops s.
  assert (A : AInv s).
  { apply history_keeps; [destruct stable; [apply AInv_empty_s | apply AInv_empty_g] | | exact Hops].
    intros Hc. specialize (Hcap Hc). destruct stable; cbn [empty_of empty_s empty_g ag inlen ielen sg_empty sg g_empty gnodes gedges length]; lia. }
  split; [exact A|]. split; [apply AInv_acyclic, A|].
  destruct (AInv_order s A) as [H1 [H2 _]]. split; assumption.
Qed.

End A.
