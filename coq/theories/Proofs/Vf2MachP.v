(* C13b: the frame-stack machine of Model/Vf2M.v ([isomorphisms] called by the GraphMatcher
   iterator until it answers None) computes a recursive depth-first enumeration [outs]. *)
From PG Require Import Lib.Io Lib.ListExtra Model.IsoM Model.Vf2M Spec.IsoSpec Proofs.IsoRefP
                       Proofs.Vf2BaseP Proofs.Vf2StateP.

(* ------------------------------------------------------------------ *)
(* the candidate lists, with absolute indices                           *)

Definition in_open (g : sgraph6) (st : vf2_state) (ol : open_list) (i : nat) : bool :=
  match ol with
  | OlOut => andb (Nat.ltb 0 (nth i (vs_out st) 0)) (unmapped st i)
  | OlIn => andb (s_dir g) (andb (Nat.ltb 0 (nth i (vs_ins st) 0)) (unmapped st i))
  | OlOther => unmapped st i
  end.

Definition raw_next (g : sgraph6) (st : vf2_state) (ol : open_list) (from : nat) : option nat :=
  match ol with
  | OlOut => next_out_index st from
  | OlIn => next_in_index g st from
  | OlOther => next_rest_index st from
  end.
Definition next_idx (g : sgraph6) (st : vf2_state) (ol : open_list) (from : nat) : option nat :=
  match raw_next g st ol from with Some c => Some (c + from) | None => None end.

Lemma nth_skipn {A} (l : list A) k i d : nth i (skipn k l) d = nth (k + i) l d.
Proof.
  revert l; induction k as [|k IH]; intros [|h t]; cbn [skipn Nat.add nth]; auto.
  destruct i; reflexivity.
Qed.

Lemma unmapped_iff st i : unmapped st i = true <-> nth i (vs_mapping st) None = None.
Proof. unfold unmapped. destruct (nth i (vs_mapping st) None); split; congruence. Qed.

Lemma raw_next_Some g st ol from c : svalid g st -> raw_next g st ol from = Some c ->
  from + c < s_n g /\ in_open g st ol (from + c) = true /\
  (forall j, from <= j < from + c -> in_open g st ol j = false).
Proof.
  intros Hv H. destruct Hv. destruct ol; cbn [raw_next in_open] in *.
  - unfold next_out_index in H. apply (find_index_Some _ 0) in H. destruct H as (H1 & H2 & H3).
    rewrite skipn_length in H1. rewrite Nat.sub_0_r, nth_skipn in H2.
    split; [lia|]. split; [exact H2|]. intros j Hj.
    specialize (H3 (j - from) ltac:(lia)). rewrite Nat.sub_0_r, nth_skipn in H3.
    replace (from + (j - from)) with j in H3 by lia. exact H3.
  - unfold next_in_index in H. destruct (s_dir g) eqn:Hd; cbn [negb] in H; [|discriminate].
    apply (find_index_Some _ 0) in H. destruct H as (H1 & H2 & H3).
    rewrite skipn_length in H1. rewrite Nat.sub_0_r, nth_skipn in H2.
    split; [lia|]. cbn [andb]. split; [exact H2|]. intros j Hj.
    specialize (H3 (j - from) ltac:(lia)). rewrite Nat.sub_0_r, nth_skipn in H3.
    replace (from + (j - from)) with j in H3 by lia. exact H3.
  - unfold next_rest_index in H. apply (find_index_Some _ None) in H. destruct H as (H1 & H2 & H3).
    rewrite skipn_length in H1. rewrite Nat.sub_0_r, nth_skipn in H2.
    split; [lia|]. split; [exact H2|]. intros j Hj.
    specialize (H3 (j - from) ltac:(lia)). rewrite Nat.sub_0_r, nth_skipn in H3.
    replace (from + (j - from)) with j in H3 by lia. exact H3.
Qed.

Lemma raw_next_None g st ol from : svalid g st -> raw_next g st ol from = None ->
  forall j, from <= j < s_n g -> in_open g st ol j = false.
Proof.
  intros Hv H j Hj. destruct Hv. destruct ol; cbn [raw_next in_open] in *.
  - unfold next_out_index in H.
    pose proof (find_index_None _ 0 _ _ H (j - from)) as H1.
    rewrite skipn_length, nth_skipn in H1. specialize (H1 ltac:(lia)). cbn [Nat.add] in H1.
    replace (from + (j - from)) with j in H1 by lia. exact H1.
  - unfold next_in_index in H. destruct (s_dir g) eqn:Hd; cbn [negb] in H; [|reflexivity].
    pose proof (find_index_None _ 0 _ _ H (j - from)) as H1.
    rewrite skipn_length, nth_skipn in H1. specialize (H1 ltac:(lia)). cbn [Nat.add] in H1.
    replace (from + (j - from)) with j in H1 by lia. cbn [andb]. exact H1.
  - unfold next_rest_index in H.
    pose proof (find_index_None _ None _ _ H (j - from)) as H1.
    rewrite skipn_length, nth_skipn in H1. specialize (H1 ltac:(lia)). cbn [Nat.add] in H1.
    replace (from + (j - from)) with j in H1 by lia. exact H1.
Qed.

Lemma in_open_unmapped g st ol i : in_open g st ol i = true -> nth i (vs_mapping st) None = None.
Proof.
  intros H. apply unmapped_iff. destruct ol; cbn [in_open] in H.
  - apply andb_true_iff in H. tauto.
  - apply andb_true_iff in H. destruct H as [_ H]. apply andb_true_iff in H. tauto.
  - exact H.
Qed.

Lemma next_idx_Some g st ol from i : svalid g st -> next_idx g st ol from = Some i ->
  from <= i < s_n g /\ in_open g st ol i = true /\
  (forall j, from <= j < i -> in_open g st ol j = false).
Proof.
  intros Hv H. unfold next_idx in H. destruct (raw_next g st ol from) as [c|] eqn:E; [|discriminate].
  inversion H; subst i. apply raw_next_Some in E; auto. destruct E as (E1 & E2 & E3).
  rewrite (Nat.add_comm c from). split; [lia|]. split; auto.
Qed.

Lemma next_idx_None g st ol from : svalid g st -> next_idx g st ol from = None ->
  forall j, from <= j < s_n g -> in_open g st ol j = false.
Proof.
  intros Hv H. unfold next_idx in H. destruct (raw_next g st ol from) as [c|] eqn:E; [discriminate|].
  eapply raw_next_None; eauto.
Qed.

Lemma next_from_ix_idx g1 st nx ol : next_from_ix g1 st nx ol = next_idx g1 (snd st) ol (nx + 1).
Proof. unfold next_from_ix, next_idx, raw_next. destruct ol; reflexivity. Qed.

(* next_candidate: both indices come from the same list *)
Lemma next_candidate_Some g0 g1 st n m ol :
  next_candidate g0 g1 st = Some (n, m, ol) ->
  raw_next g0 (fst st) ol 0 = Some n /\ raw_next g1 (snd st) ol 0 = Some m.
Proof.
  unfold next_candidate, raw_next.
  destruct (next_out_index (snd st) 0) as [a1|]; destruct (next_out_index (fst st) 0) as [a0|];
  destruct (next_in_index g1 (snd st) 0) as [b1|]; destruct (next_in_index g0 (fst st) 0) as [b0|];
  destruct (next_rest_index (snd st) 0) as [c1|]; destruct (next_rest_index (fst st) 0) as [c0|];
  cbn [is_some is_none orb]; intros H; inversion H; subst; auto.
Qed.

Lemma next_candidate_spec g0 g1 st n0 n1 ol : pvalid g0 g1 st ->
  next_candidate g0 g1 st = Some (n0, n1, ol) ->
  n0 < s_n g0 /\ nth n0 (vs_mapping (fst st)) None = None /\
  n1 < s_n g1 /\ nth n1 (vs_mapping (snd st)) None = None.
Proof.
  intros Hv H. apply next_candidate_Some in H. destruct H as [H0 H1]. destruct Hv.
  apply raw_next_Some in H0; auto. apply raw_next_Some in H1; auto.
  destruct H0 as (A1 & A2 & _). destruct H1 as (B1 & B2 & _). cbn [Nat.add] in *.
  apply in_open_unmapped in A2, B2. auto.
Qed.

(* a complete state has no candidate *)
Lemma complete_no_candidate g0 g1 st : pvalid g0 g1 st -> is_complete (fst st) = true ->
  next_candidate g0 g1 st = None.
Proof.
  intros Hv Hc. destruct (next_candidate g0 g1 st) as [[[n0 n1] ol]|] eqn:E; auto.
  apply next_candidate_spec in E; auto. destruct E as (E1 & E2 & _).
  elim (complete_all_mapped g0 (fst st) (pv_0 _ _ _ Hv) Hc n0 E1 E2).
Qed.

Lemma not_complete g st i : svalid g st -> i < s_n g -> nth i (vs_mapping st) None = None ->
  is_complete st = false.
Proof.
  intros Hv Hi Hn. unfold is_complete. apply Nat.eqb_neq.
  pose proof (incomplete_gen_lt g st i Hv Hi Hn). rewrite (sv_map_len _ _ Hv). lia.
Qed.

(* ------------------------------------------------------------------ *)
(* the recursive enumeration                                            *)

Definition opt_list {A} (o : option A) : list A := match o with Some x => [x] | None => [] end.

Section Mach.
Variables (sem subgraph : bool) (nm em : Z) (g0 g1 : sgraph6).
Hypothesis He0 : erange g0.
Hypothesis He1 : erange g1.

(* the nodes of the second graph tried for n0, starting from n1 *)
Fixpoint cand_iter (w : nat) (st1 : vf2_state) (ol : open_list) (n1 : nat) : list nat :=
  match w with
  | 0 => []
  | S w' => n1 :: match next_idx g1 st1 ol (n1 + 1) with
                  | None => []
                  | Some nx => cand_iter w' st1 ol nx
                  end
  end.

(* what the pair (n0, n1) contributes *)
Definition branch (rec : st2 -> list (list nat)) (st : st2) (n0 n1 : nat) : list (list nat) :=
  if is_feasible sem nm em g0 g1 st n0 n1 then
    let st' := push_state g0 g1 st n0 n1 in
    (if is_complete (fst st') then [mapping_out (fst st')] else []) ++
    (if card_ok subgraph st' then rec st' else [])
  else [].

Fixpoint outs (d : nat) (st : st2) : list (list nat) :=
  match d with
  | 0 => []
  | S d' =>
      match next_candidate g0 g1 st with
      | None => []
      | Some (n0, n1, ol) => flat_map (branch (outs d') st n0) (cand_iter (s_n g1) (snd st) ol n1)
      end
  end.

(* ------------------------------------------------------------------ *)
(* the runs of the loop, cut at the returns of [isomorphisms]            *)

Notation lstep := (loop_step sem subgraph nm em g0 g1).

(* s runs to s' in n passes through the loop while the calls of [isomorphisms] return the
   mappings l; after a return the next call resumes from the state and stack left, with no
   pending result *)
Inductive steps : nat -> loop_state -> list (list nat) -> loop_state -> Prop :=
| steps_refl s : steps 0 s [] s
| steps_inl n s s' l s'' : lstep s = inl s' -> steps n s' l s'' -> steps (S n) s l s''
| steps_yield n s m (st' : st2) stack' l s'' :
    lstep s = inr (Some m, st', stack') -> is_complete (fst st') = false ->
    steps n (st', stack', None) l s'' -> steps (S n) s (m :: l) s''.

Lemma steps_trans n1 s1 l1 s2 n2 l2 s3 :
  steps n1 s1 l1 s2 -> steps n2 s2 l2 s3 -> steps (n1 + n2) s1 (l1 ++ l2) s3.
Proof.
  intros H1 H2. induction H1; cbn [app Nat.add]; auto.
  - eapply steps_inl; eauto.
  - eapply steps_yield; eauto.
Qed.

Lemma steps_length n s l s' : steps n s l s' -> length l <= n.
Proof. induction 1; cbn [length]; lia. Qed.

(* the loop body ends at the bottom of the loop with an Inner frame pushed: the pending result, if
   any, is returned, and the next call resumes at that frame *)
Lemma steps_bottom (st : st2) fr rest result (st' : st2) stack' p :
  loop_body sem subgraph nm em g0 g1 st fr rest result = ((st', stack', p), false) ->
  is_complete (fst st') = false ->
  steps 1 (st, fr :: rest, result) (opt_list p) (st', stack', None).
Proof.
  intros E Hc. destruct p as [m|]; cbn [opt_list].
  - eapply steps_yield; [|exact Hc|apply steps_refl].
    unfold loop_step. rewrite E. reflexivity.
  - eapply steps_inl; [|apply steps_refl]. unfold loop_step. rewrite E. reflexivity.
Qed.

Lemma steps_continue (st : st2) fr rest result (st' : st2) stack' p :
  loop_body sem subgraph nm em g0 g1 st fr rest result = ((st', stack', p), true) ->
  steps 1 (st, fr :: rest, result) [] (st', stack', p).
Proof.
  intros E. eapply steps_inl; [|apply steps_refl]. unfold loop_step. rewrite E. reflexivity.
Qed.

(* ------------------------------------------------------------------ *)
(* the machine follows the enumeration                                  *)

(* a bound on the passes through the loop below a state with at most d unmapped nodes *)
Fixpoint bnd (d : nat) : nat :=
  match d with
  | 0 => 1
  | S d' => 1 + s_n g1 * (2 + bnd d')
  end.

Lemma bnd_pos d : 1 <= bnd d.
Proof. destruct d; cbn [bnd]; lia. Qed.

Definition outer_ok (d : nat) : Prop :=
  forall st U, pvalid g0 g1 st -> s_n g0 - vs_gen (fst st) <= d ->
    is_complete (fst st) = false ->
    exists n l p, steps n (st, Outer :: U, None) l (st, U, p) /\ n <= bnd d /\
                  l ++ opt_list p = outs d st.

Definition tail_cands (rec : st2 -> list (list nat)) (w : nat) (st : st2) (n0 n1 : nat)
                      (ol : open_list) : list (list nat) :=
  match next_idx g1 (snd st) ol (n1 + 1) with
  | None => []
  | Some nx => flat_map (branch rec st n0) (cand_iter w (snd st) ol nx)
  end.

Lemma tail_cands_eq rec w st n0 n1 ol :
  flat_map (branch rec st n0)
    (match next_idx g1 (snd st) ol (n1 + 1) with
     | None => []
     | Some nx => cand_iter w (snd st) ol nx
     end) = tail_cands rec w st n0 n1 ol.
Proof. unfold tail_cands. destruct (next_idx g1 (snd st) ol (n1 + 1)); reflexivity. Qed.

Definition inner_ok (d w : nat) : Prop :=
  forall st n0 n1 ol U, pvalid g0 g1 st ->
    n0 < s_n g0 -> nth n0 (vs_mapping (fst st)) None = None ->
    n1 < s_n g1 -> nth n1 (vs_mapping (snd st)) None = None ->
    s_n g1 - n1 <= w -> s_n g0 - vs_gen (fst st) <= S d ->
    exists n l p, steps n (st, Inner n0 n1 ol :: U, None) l (st, U, p) /\
                  n <= (s_n g1 - n1) * (2 + bnd d) /\
                  l ++ opt_list p = flat_map (branch (outs d) st n0) (cand_iter w (snd st) ol n1).

(* the shared tail of the Inner and Unwind arms *)
Lemma tail_inner d w stP fr rest resP st n0 n1 ol U p1 :
  inner_ok d w ->
  loop_body sem subgraph nm em g0 g1 stP fr rest resP = next_inner g1 st n0 n1 ol U p1 ->
  pvalid g0 g1 st ->
  n0 < s_n g0 -> nth n0 (vs_mapping (fst st)) None = None ->
  n1 < s_n g1 -> s_n g1 - n1 <= S w -> s_n g0 - vs_gen (fst st) <= S d ->
  exists n l p, steps n (stP, fr :: rest, resP) l (st, U, p) /\
                n <= 1 + (s_n g1 - n1 - 1) * (2 + bnd d) /\
                l ++ opt_list p = opt_list p1 ++ tail_cands (outs d) w st n0 n1 ol.
Proof.
  intros IHw E Hv Hn0 Hu0 Hn1 Hw Hd. unfold next_inner in E. unfold tail_cands.
  rewrite next_from_ix_idx in E.
  destruct (next_idx g1 (snd st) ol (n1 + 1)) as [nx|] eqn:En.
  - apply next_idx_Some in En; [|apply Hv]. destruct En as (En1 & En2 & _).
    apply in_open_unmapped in En2.
    pose proof (steps_bottom _ _ _ _ _ _ _ E
                  (not_complete g0 (fst st) n0 (pv_0 _ _ _ Hv) Hn0 Hu0)) as L1.
    destruct (IHw st n0 nx ol U Hv Hn0 Hu0 ltac:(lia) En2 ltac:(lia) Hd)
      as (n2 & l2 & p2 & L2 & B2 & E2).
    exists (1 + n2), (opt_list p1 ++ l2), p2. split; [|split].
    + eapply steps_trans; eauto.
    + assert (Hm : (s_n g1 - nx) * (2 + bnd d) <= (s_n g1 - n1 - 1) * (2 + bnd d))
        by (apply Nat.mul_le_mono_r; lia). lia.
    + rewrite <- app_assoc, E2. reflexivity.
  - exists 1, [], p1. split; [|split].
    + eapply steps_continue. exact E.
    + apply Nat.le_add_r.
    + cbn [app]. rewrite app_nil_r. reflexivity.
Qed.

Lemma outs_complete_nil d st : pvalid g0 g1 st -> is_complete (fst st) = true -> outs d st = [].
Proof.
  intros Hv Hc. destruct d; cbn [outs]; auto. rewrite complete_no_candidate; auto.
Qed.

Lemma inner_step d : outer_ok d -> forall w, inner_ok d w.
Proof.
  intros IHd. induction w as [|w IHw];
    intros st n0 n1 ol U Hv Hn0 Hu0 Hn1 Hu1 Hw Hd; [lia|].
  cbn [cand_iter flat_map]. rewrite tail_cands_eq.
  assert (Hmul : (s_n g1 - n1) * (2 + bnd d) =
                 (2 + bnd d) + (s_n g1 - n1 - 1) * (2 + bnd d)).
  { replace (s_n g1 - n1) with (S (s_n g1 - n1 - 1)) at 1 by lia.
    rewrite Nat.mul_succ_l. apply Nat.add_comm. }
  unfold branch at 1.
  destruct (is_feasible sem nm em g0 g1 st n0 n1) eqn:Ef.
  - (* feasible: push *)
    set (st' := push_state g0 g1 st n0 n1).
    assert (Hv' : pvalid g0 g1 st') by (apply pvalid_push; auto).
    assert (Hpop : pop_state g0 g1 st' n0 n1 = st) by (apply pop_push_state; auto).
    assert (Hg' : vs_gen (fst st') = S (vs_gen (fst st))) by reflexivity.
    cbv zeta.
    set (res' := if is_complete (fst st') then Some (mapping_out (fst st')) else None).
    destruct (card_ok subgraph st') eqn:Ec.
    + (* the subtree below st', then the Unwind frame *)
      assert (L1 : steps 1 (st, Inner n0 n1 ol :: U, None) []
                         (st', Outer :: Unwind n0 n1 ol :: U, res')).
      { apply steps_continue. cbn [loop_body]. rewrite Ef. fold st'. rewrite Ec. reflexivity. }
      assert (Hsub : exists n1' l1 p1,
                 steps n1' (st', Outer :: Unwind n0 n1 ol :: U, res') l1
                       (st', Unwind n0 n1 ol :: U, p1) /\ n1' <= bnd d /\
                 l1 ++ opt_list p1 =
                 (if is_complete (fst st') then [mapping_out (fst st')] else []) ++ outs d st').
      { unfold res'. destruct (is_complete (fst st')) eqn:Ecomp.
        - exists 1, [], (Some (mapping_out (fst st'))). split; [|split].
          + apply steps_continue. cbn [loop_body]. rewrite complete_no_candidate; auto.
          + apply bnd_pos.
          + rewrite outs_complete_nil; auto.
        - destruct (IHd st' (Unwind n0 n1 ol :: U) Hv' ltac:(lia) Ecomp)
            as (n1' & l1 & p1 & L & B & E).
          exists n1', l1, p1. split; auto. }
      destruct Hsub as (n1' & l1 & p1 & L2 & B2 & E2).
      destruct (tail_inner d w st' (Unwind n0 n1 ol) U p1 st n0 n1 ol U p1 IHw)
        as (n3 & l3 & p3 & L3 & B3 & E3); auto; try lia.
      { cbn [loop_body]. rewrite Hpop. reflexivity. }
      exists (1 + (n1' + n3)), (l1 ++ l3), p3. split; [|split].
      * change (l1 ++ l3) with ([] ++ (l1 ++ l3)).
        eapply steps_trans; [exact L1|]. eapply steps_trans; eauto.
      * lia.
      * rewrite <- app_assoc, E3, app_assoc, E2. reflexivity.
    + (* cardinalities differ: pop at once *)
      destruct (tail_inner d w st (Inner n0 n1 ol) U None st n0 n1 ol U res' IHw)
        as (n3 & l3 & p3 & L3 & B3 & E3); auto; try lia.
      { cbn [loop_body]. rewrite Ef. fold st'. rewrite Ec, Hpop. reflexivity. }
      exists n3, l3, p3. split; [|split]; auto; [lia|]. rewrite E3, app_nil_r. unfold res'.
      destruct (is_complete (fst st')); reflexivity.
  - (* not feasible *)
    destruct (tail_inner d w st (Inner n0 n1 ol) U None st n0 n1 ol U None IHw)
      as (n3 & l3 & p3 & L3 & B3 & E3); auto; try lia.
    { cbn [loop_body]. rewrite Ef. reflexivity. }
    exists n3, l3, p3. split; [|split]; auto. lia.
Qed.

Lemma outer_all d : outer_ok d.
Proof.
  induction d as [|d IHd]; intros st U Hv Hd Hc.
  - exfalso. unfold is_complete in Hc. apply Nat.eqb_neq in Hc.
    destruct (pv_0 _ _ _ Hv). pose proof (count_some_le (vs_mapping (fst st))). lia.
  - cbn [outs]. destruct (next_candidate g0 g1 st) as [[[n0 n1] ol]|] eqn:En.
    + pose proof (next_candidate_spec _ _ _ _ _ _ Hv En) as (A1 & A2 & A3 & A4).
      destruct (inner_step d IHd (s_n g1) st n0 n1 ol U Hv A1 A2 A3 A4 ltac:(lia) Hd)
        as (n & l & p & L & B & E).
      exists (1 + n), l, p. split; [|split]; auto.
      * change l with (opt_list (@None (list nat)) ++ l).
        eapply steps_trans; [|exact L].
        apply steps_bottom.
        -- cbn [loop_body]. rewrite En. reflexivity.
        -- exact Hc.
      * cbn [bnd].
        assert (Hm : (s_n g1 - n1) * (2 + bnd d) <= s_n g1 * (2 + bnd d))
          by (apply Nat.mul_le_mono_r; lia). lia.
    + exists 1, [], None. split; [|split]; [|cbn [bnd]; lia|reflexivity]. apply steps_continue.
      cbn [loop_body]. rewrite En. reflexivity.
Qed.

(* ------------------------------------------------------------------ *)
(* adequacy: the iterator, and the first call alone                     *)

Variable F : positive.

Notation mstep := (matcher_step sem subgraph nm em g0 g1 F).

Definition coll (calls : nat) (s : matcher_state) : res (list (list nat)) :=
  match niter mstep calls s with inr r => r | inl _ => OutOfFuel end.

(* the rest of a run, from the middle of a call of [isomorphisms] *)
Definition mid (calls k : nat) (s : loop_state) (acc : list (list nat)) : res (list (list nat)) :=
  match @niter loop_state call_result lstep k s with
  | inl _ => OutOfFuel
  | inr (Some m, st', stack') => coll calls (st', stack', m :: acc)
  | inr (None, _, _) => Ok (rev acc)
  end.

Lemma mid_S calls k s acc :
  mid calls (S k) s acc =
  match lstep s with
  | inl s' => mid calls k s' acc
  | inr (Some m, st', stack') => coll calls (st', stack', m :: acc)
  | inr (None, _, _) => Ok (rev acc)
  end.
Proof. unfold mid. cbn [niter]. destruct (lstep s) as [s'|[[[m|] st'] stack']]; reflexivity. Qed.

Lemma coll_S c (st : st2) stack acc : is_complete (fst st) = false ->
  coll (S c) (st, stack, acc) = mid c (Pos.to_nat F) (st, stack, None) acc.
Proof.
  intros Hc. unfold coll, mid. cbn [niter]. unfold matcher_step at 1, isomorphisms.
  rewrite Hc, piter_niter.
  destruct (niter lstep (Pos.to_nat F) (st, stack, None)) as [s'|[[[m|] st'] stack']]; reflexivity.
Qed.

(* every terminating run from s passes s' *)
Lemma steps_mid n s l s' : steps n s l s' ->
  forall calls k acc r, mid calls k s acc = Ok r ->
  exists calls' k', mid calls' k' s' (rev l ++ acc) = Ok r.
Proof.
  induction 1 as [s|n s s1 l s2 E _ IH|n s m st' stack' l s2 E Hc _ IH]; intros calls k acc r H.
  - eauto.
  - destruct k as [|k]; [discriminate|]. rewrite mid_S, E in H. eauto.
  - destruct k as [|k]; [discriminate|]. rewrite mid_S, E in H.
    destruct calls as [|c]; [discriminate|]. rewrite coll_S in H by auto.
    apply IH in H. cbn [rev]. rewrite <- app_assoc. exact H.
Qed.

(* with enough fuel the run from s ends as the run from s' does *)
Lemma steps_mid_fwd n s l s' : steps n s l s' ->
  forall acc r K C,
  (forall calls k, C <= calls -> K <= k -> mid calls k s' (rev l ++ acc) = Ok r) ->
  K + n <= Pos.to_nat F ->
  forall calls k, C + length l <= calls -> K + n <= k -> mid calls k s acc = Ok r.
Proof.
  induction 1 as [s|n s s1 l s2 E _ IH|n s m st' stack' l s2 E Hc _ IH];
    intros acc r K C Hend HF calls k Hcalls Hk.
  - apply Hend; cbn [length] in *; lia.
  - destruct k as [|k]; [lia|]. rewrite mid_S, E. apply (IH acc r K C); auto; lia.
  - destruct k as [|k]; [lia|]. rewrite mid_S, E. cbn [length] in Hcalls.
    destruct calls as [|c]; [lia|]. rewrite coll_S by auto.
    apply (IH (m :: acc) r K C); try lia.
    intros calls' k' H1 H2. cbn [rev] in Hend. rewrite <- app_assoc in Hend. apply Hend; auto.
Qed.

Lemma steps_first n s l s' : steps n s l s' ->
  forall k (r : call_result), niter lstep k s = inr r ->
  match l with
  | m :: _ => fst (fst r) = Some m
  | [] => exists k', niter lstep k' s' = inr r
  end.
Proof.
  induction 1 as [s|n s s1 l s2 E _ IH|n s m st' stack' l s2 E Hc _ IH]; intros k r H.
  - eauto.
  - destruct k as [|k]; [discriminate|]. cbn [niter] in H. rewrite E in H. exact (IH k r H).
  - destruct k as [|k]; [discriminate|]. cbn [niter] in H. rewrite E in H.
    inversion H. reflexivity.
Qed.

Lemma steps_first_fwd n s l s' : steps n s l s' ->
  forall K, (forall k, K <= k -> exists r : call_result, niter lstep k s' = inr r) ->
  forall k, K + n <= k -> exists r : call_result, niter lstep k s = inr r.
Proof.
  induction 1 as [s|n s s1 l s2 E _ IH|n s m st' stack' l s2 E Hc _ IH]; intros K Hend k Hk.
  - apply Hend. lia.
  - destruct k as [|k]; [lia|]. cbn [niter]. rewrite E. apply (IH K); auto. lia.
  - destruct k as [|k]; [lia|]. cbn [niter]. rewrite E. eauto.
Qed.

End Mach.

(* ------------------------------------------------------------------ *)
(* the iterator, collected                                              *)

Definition vf2_spec (sem subgraph : bool) (nm em : Z) (g0 g1 : sgraph6) : list (list nat) :=
  if Nat.eqb (s_n g0) 0 then [[]]
  else outs sem subgraph nm em g0 g1 (s_n g0) (vs_new g0, vs_new g1).

Theorem matcher_collect_spec sem subgraph nm em g0 g1 F l : erange g0 -> erange g1 ->
  matcher_collect sem subgraph nm em g0 g1 F = Ok l ->
  l = vf2_spec sem subgraph nm em g0 g1.
Proof.
  intros He0 He1 H. unfold matcher_collect in H. rewrite piter_niter in H.
  change (coll sem subgraph nm em g0 g1 F (Pos.to_nat F) (vs_new g0, vs_new g1, [Outer], []) = Ok l) in H.
  unfold vf2_spec.
  pose proof (pvalid_new g0 g1) as Hv.
  destruct (Nat.eqb_spec (s_n g0) 0) as [E0|E0].
  - (* the empty first graph *)
    assert (Hc : is_complete (vs_new g0) = true).
    { unfold is_complete, vs_new. cbn [vs_gen vs_mapping]. rewrite repeat_length, E0. reflexivity. }
    unfold coll in H. destruct (Pos.to_nat F) as [|[|c]]; try discriminate.
    + cbn [niter] in H. unfold matcher_step, isomorphisms in H. cbn [fst] in H. rewrite Hc in H.
      discriminate.
    + cbn [niter] in H. unfold matcher_step at 1, isomorphisms in H. cbn [fst] in H.
      rewrite Hc in H. unfold matcher_step at 1, isomorphisms in H. cbn [fst] in H. rewrite Hc in H.
      unfold mapping_out, vs_new in H. cbn [vs_mapping] in H. rewrite E0 in H. cbn in H.
      inversion H. reflexivity.
  - assert (Hc : is_complete (fst (vs_new g0, vs_new g1)) = false).
    { unfold is_complete, vs_new. cbn [fst vs_gen vs_mapping]. rewrite repeat_length.
      apply Nat.eqb_neq. lia. }
    destruct (Pos2Nat.is_succ F) as [c Hcall]. rewrite Hcall in H.
    rewrite coll_S in H by auto.
    destruct (outer_all sem subgraph nm em g0 g1 He0 He1 (s_n g0) (vs_new g0, vs_new g1) []
                Hv ltac:(lia) Hc) as (n1 & l1 & p1 & L & _ & E).
    apply (steps_mid sem subgraph nm em g0 g1 F _ _ _ _ L) in H. destruct H as (c' & k' & H).
    rewrite <- E. rewrite app_nil_r in H.
    destruct k' as [|k']; [discriminate|]. rewrite mid_S in H. cbn [loop_step] in H.
    destruct p1 as [m|]; cbn [opt_list].
    + destruct c' as [|c']; [discriminate|]. rewrite coll_S in H by auto.
      destruct (Pos.to_nat F) as [|k'']; [discriminate|]. rewrite mid_S in H. cbn [loop_step] in H.
      inversion H. cbn [rev]. rewrite rev_involutive. reflexivity.
    + inversion H. rewrite rev_involutive, app_nil_r. reflexivity.
Qed.

(* the first call alone (try_match): its answer is the first mapping of the enumeration *)
Theorem isomorphisms_first sem subgraph nm em g0 g1 F r : erange g0 -> erange g1 ->
  isomorphisms sem subgraph nm em g0 g1 F (vs_new g0, vs_new g1) [Outer] = Ok r ->
  fst (fst r) = hd_error (vf2_spec sem subgraph nm em g0 g1).
Proof.
  intros He0 He1 H. unfold vf2_spec. pose proof (pvalid_new g0 g1) as Hv.
  unfold isomorphisms in H. cbn [fst] in H.
  destruct (Nat.eqb_spec (s_n g0) 0) as [E0|E0].
  - assert (Hc : is_complete (vs_new g0) = true).
    { unfold is_complete, vs_new. cbn [vs_gen vs_mapping]. rewrite repeat_length, E0. reflexivity. }
    rewrite Hc in H. inversion H. cbn [fst hd_error].
    unfold mapping_out, vs_new. cbn [vs_mapping]. rewrite E0. reflexivity.
  - assert (Hc : is_complete (fst (vs_new g0, vs_new g1)) = false).
    { unfold is_complete, vs_new. cbn [fst vs_gen vs_mapping]. rewrite repeat_length.
      apply Nat.eqb_neq. lia. }
    cbn [fst] in Hc. rewrite Hc, piter_niter in H.
    destruct (niter _ (Pos.to_nat F) _) as [s'|r'] eqn:En; [discriminate|]. inversion H; subst r'.
    destruct (outer_all sem subgraph nm em g0 g1 He0 He1 (s_n g0) (vs_new g0, vs_new g1) []
                Hv ltac:(lia) Hc) as (n1 & l1 & p1 & L & _ & E).
    pose proof (steps_first sem subgraph nm em g0 g1 _ _ _ _ L _ _ En) as H1.
    rewrite <- E. destruct l1 as [|m l1]; cbn [app hd_error].
    + destruct H1 as [k' H1]. destruct k' as [|k']; [discriminate|]. cbn [niter loop_step] in H1.
      inversion H1. cbn [fst]. destruct p1; reflexivity.
    + exact H1.
Qed.
