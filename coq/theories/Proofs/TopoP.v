(* Topo (traversal.rs): emits a node after all its predecessors, each once; the emitted
   nodes are exactly the view nodes that are neither on nor downstream of a cycle. *)
From Coq Require Import Permutation.
From PG Require Import Lib.Io Model.View Model.Traversal Spec.Reach Proofs.TravBase.
Set Implicit Arguments.

(* ------------------------------------------------------------------ *)
(* The invariant: tord = emitted nodes, most recent first              *)

Record TInv (v : view) (t : topo) : Prop := {
  t_nodup : NoDup (tord t);
  t_stack : forall x, In x (tvisit t) ->
              in_cap v x /\ In x (vnodes v) /\ forall p, In p (neighbors_in v x) -> In p (tord t);
  t_nodes : forall x, In x (tord t) -> In x (vnodes v);
  t_preds : forall l1 u l2, tord t = l1 ++ u :: l2 ->
              forall p, In p (neighbors_in v u) -> In p l2;
  t_ready : inout_ok v -> forall x, In x (vnodes v) ->
              (forall p, In p (neighbors_in v x) -> In p (tord t)) -> In x (tord t) \/ In x (tvisit t)
}.

Definition tmeas (v : view) (t : topo) : nat :=
  length (tvisit t) + usum (outdeg v) (tord t) (vnodes v).

Definition tpushes (v : view) (ord : list nat) (nix : nat) : list nat :=
  filter (fun neigh => forallb (fun b => is_visited ord b) (neighbors_in v neigh)) (neighbors v nix).

Lemma tpushes_In v ord nix x :
  In x (tpushes v ord nix) <-> step v nix x /\ forall p, In p (neighbors_in v x) -> In p ord.
Proof.
  unfold tpushes, is_visited. rewrite filter_In, forallb_forall. split; intros [H1 H2]; split; auto.
  - intros p Hp. apply mem_In, H2, Hp.
  - intros p Hp. apply mem_In, H2, Hp.
Qed.

Lemma not_all_ex (L M : list nat) :
  ~ (forall p, In p L -> In p M) -> exists p, In p L /\ ~ In p M.
Proof.
  induction L as [|a t IH]; intros H.
  - exfalso; apply H; intros p [].
  - destruct (in_dec Nat.eq_dec a M) as [Ha|Ha].
    + destruct IH as [p [Hp Hn]].
      * intros Hall. apply H. intros p [<-|Hp]; [exact Ha | apply Hall; exact Hp].
      * exists p. split; [right; exact Hp | exact Hn].
    + exists a. split; [left; reflexivity | exact Ha].
Qed.

Lemma all_dec (L M : list nat) :
  {forall p, In p L -> In p M} + {~ forall p, In p L -> In p M}.
Proof.
  induction L as [|a t IH].
  - left; intros p [].
  - destruct (in_dec Nat.eq_dec a M) as [Ha|Ha].
    + destruct IH as [Hall|Hn].
      * left. intros p [<-|Hp]; [exact Ha | apply Hall; exact Hp].
      * right. intros Hall. apply Hn. intros p Hp; apply Hall; right; exact Hp.
    + right. intros Hall. apply Ha, Hall. left; reflexivity.
Qed.

Section TopoInv.
Variable v : view.
Hypothesis Hcap : forall a, In a (vnodes v) -> in_cap v a.
Hypothesis Hnodes : nodes_ok v.

Lemma tinv_skip nix rest ord :
  TInv v (mkTopo (nix :: rest) ord) -> In nix ord -> TInv v (mkTopo rest ord).
Proof.
  intros I Hin. destruct I as [Hnd Hst Hno Hpr Hrd]. cbn [tvisit tord] in *.
  constructor; cbn [tvisit tord]; auto.
  - intros x Hx. apply Hst; right; exact Hx.
  - intros Hio x Hx Hall. destruct (Hrd Hio x Hx Hall) as [H|[<-|H]];
      [left; exact H | left; exact Hin | right; exact H].
Qed.

Lemma tinv_emit nix rest ord :
  TInv v (mkTopo (nix :: rest) ord) -> ~ In nix ord ->
  TInv v (mkTopo (rev (tpushes v (nix :: ord) nix) ++ rest) (nix :: ord)).
Proof.
  intros I Hn. destruct I as [Hnd Hst Hno Hpr Hrd]. cbn [tvisit tord] in *.
  destruct (Hst nix (or_introl eq_refl)) as [Hc [Hv Hp]].
  constructor; cbn [tvisit tord].
  - constructor; assumption.
  - intros x Hx. apply in_app_or in Hx. destruct Hx as [Hx|Hx].
    + rewrite <- in_rev in Hx. apply tpushes_In in Hx. destruct Hx as [Hs Hall].
      assert (Hxv : In x (vnodes v)) by apply (Hnodes nix x Hs).
      split; [apply Hcap; exact Hxv|]. split; [exact Hxv | exact Hall].
    + destruct (Hst x (or_intror Hx)) as [H1 [H2 H3]]. split; [exact H1|]. split; [exact H2|].
      intros p Hpp. right. apply H3; exact Hpp.
  - intros x [<-|Hx]; [exact Hv | apply Hno; exact Hx].
  - intros l1 u l2 E p Hpp. destruct l1 as [|y l1]; cbn [app] in E.
    + injection E as -> ->. apply Hp; exact Hpp.
    + injection E as -> E. apply (Hpr l1 u l2 E p Hpp).
  - intros Hio x Hx Hall.
    destruct (all_dec (neighbors_in v x) ord) as [Hold|Hnew].
    + destruct (Hrd Hio x Hx Hold) as [H|[<-|H]].
      * left; right; exact H.
      * left; left; reflexivity.
      * right. apply in_or_app; right; exact H.
    + apply not_all_ex in Hnew. destruct Hnew as [p [Hpx Hpo]].
      destruct (Hall p Hpx) as [<-|Hpo']; [|contradiction].
      right. apply in_or_app; left. rewrite <- in_rev. apply tpushes_In. split; [|exact Hall].
      apply (Hio nix x Hx). exact Hpx.
Qed.

Lemma tmeas_emit nix rest ord :
  ~ In nix ord ->
  tmeas v (mkTopo (rev (tpushes v (nix :: ord) nix) ++ rest) (nix :: ord))
  < tmeas v (mkTopo (nix :: rest) ord).
Proof.
  intros Hn. unfold tmeas. cbn [tvisit tord length]. rewrite app_length, rev_length.
  pose proof (filter_length_le (fun neigh => forallb (fun b => is_visited (nix :: ord) b) (neighbors_in v neigh))
                               (neighbors v nix)) as H1.
  fold (tpushes v (nix :: ord) nix) in H1. apply mem_false in Hn.
  assert (Hn1 : forall a b, step v a b -> In a (vnodes v)) by (intros a b H; apply (Hnodes a b H)).
  pose proof (usum_outdeg_mark v ord nix Hn1 Hn) as H2. unfold outdeg in H2 at 2. lia.
Qed.

Lemma topo_next_ok : forall fuel t, TInv v t -> tmeas v t < fuel ->
  exists o t', topo_next fuel v t = Ok (o, t') /\ TInv v t' /\ tmeas v t' <= tmeas v t /\
    match o with
    | None => tvisit t' = [] /\ tord t' = tord t
    | Some n => tord t' = n :: tord t /\ tmeas v t' < tmeas v t
    end.
Proof.
  induction fuel as [|f IH]; intros t I Hf; [lia|].
  cbn [topo_next]. destruct t as [st ord]. cbn [tvisit tord].
  destruct st as [|nix rest].
  - exists None, (mkTopo [] ord). split; [reflexivity|]. split; [exact I|]. split; [lia|].
    split; reflexivity.
  - unfold is_visited at 1. destruct (mem nix ord) eqn:Em.
    + apply mem_In in Em.
      assert (Hm : tmeas v (mkTopo rest ord) < tmeas v (mkTopo (nix :: rest) ord))
        by (unfold tmeas; cbn [tvisit tord length]; lia).
      destruct (IH _ (tinv_skip I Em)) as [o [t' [E [I' [Hle Ho]]]]]; [lia|].
      exists o, t'. split; [exact E|]. split; [exact I'|]. split; [lia|].
      destruct o as [n|]; cbn [tord] in *; [split; [apply Ho | lia] | exact Ho].
    + assert (Hc : in_cap v nix) by (apply (t_stack I); left; reflexivity).
      rewrite (visit_ok v ord nix Hc), Em. cbn [rbind]. apply mem_false in Em.
      fold (tpushes v (nix :: ord) nix).
      exists (Some nix), (mkTopo (rev (tpushes v (nix :: ord) nix) ++ rest) (nix :: ord)).
      pose proof (@tmeas_emit nix rest ord Em) as Hm.
      split; [reflexivity|]. split; [exact (tinv_emit I Em)|]. split; [lia|].
      split; [reflexivity | exact Hm].
Qed.

Lemma topo_drain_ok : forall fuel t, TInv v t -> tmeas v t < fuel -> tmeas v t < trav_fuel v ->
  exists l t', topo_drain fuel v t = Ok l /\ TInv v t' /\ tvisit t' = [] /\ tord t' = rev l ++ tord t.
Proof.
  induction fuel as [|f IH]; intros t I Hf Ht; [lia|].
  cbn [topo_drain].
  destruct (topo_next_ok I Ht) as [o [t1 [E [I1 [Hle Ho]]]]]. rewrite E. cbn [rbind].
  destruct o as [n|].
  - destruct Ho as [Eo Hlt]. destruct (IH t1 I1) as [l [t2 [E2 [I2 [S2 O2]]]]]; [lia|lia|].
    rewrite E2. cbn [rmap]. exists (n :: l), t2. split; [reflexivity|]. split; [exact I2|].
    split; [exact S2|]. rewrite O2, Eo. cbn [rev]. rewrite <- app_assoc. reflexivity.
  - destruct Ho as [S1 O1]. exists [], t1. split; [reflexivity|]. split; [exact I1|].
    split; [exact S1 | exact O1].
Qed.

Lemma tinv_new : TInv v (topo_new v).
Proof.
  unfold topo_new, topo_initials. constructor; cbn [tvisit tord].
  - constructor.
  - intros x Hx. rewrite <- in_rev in Hx. apply filter_In in Hx. destruct Hx as [Hx Hf].
    split; [apply Hcap; exact Hx|]. split; [exact Hx|].
    intros p Hp. destruct (neighbors_in v x); [destruct Hp | discriminate].
  - intros x [].
  - intros l1 u l2 E. destruct l1; discriminate E.
  - intros _ x Hx Hall. right. rewrite <- in_rev. apply filter_In. split; [exact Hx|].
    destruct (neighbors_in v x) as [|p t]; [reflexivity|]. destruct (Hall p (or_introl eq_refl)).
Qed.

Lemma tmeas_new : tmeas v (topo_new v) < trav_fuel v.
Proof.
  unfold tmeas, topo_new, topo_initials. cbn [tvisit tord]. rewrite rev_length, usum_outdeg_all.
  pose proof (filter_length_le (fun a => match neighbors_in v a with [] => true | _ => false end) (vnodes v)).
  unfold trav_fuel, vnode_count. lia.
Qed.

End TopoInv.

(* ------------------------------------------------------------------ *)
(* Cycles: a backward-closed set of nodes inside a finite list         *)

Lemma downstream_pred v x : downstream v x -> exists p, step v p x /\ downstream v p.
Proof.
  intros [c [[c' [Hcc' Rc'c]] Rcx]].
  assert (Hc : on_cycle v c) by (exists c'; split; assumption).
  inversion Rcx as [|y x' Rcy Hyx]; subst.
  - inversion Rc'c as [|y x' Rc'y Hyc]; subst.
    + exists x. split; [exact Hcc'|]. exists x. split; [exact Hc | apply reach_refl].
    + exists y. split; [exact Hyc|]. exists x. split; [exact Hc|].
      eapply reachable_left; [exact Hcc' | exact Rc'y].
  - exists y. split; [exact Hyx|]. exists c. split; [exact Hc | exact Rcy].
Qed.

Lemma back_closed_downstream v (N : list nat) (B : nat -> Prop) :
  (forall x, B x -> In x N) -> (forall x, B x -> exists p, step v p x /\ B p) ->
  forall x, B x -> downstream v x.
Proof.
  intros HBN Hback x Bx.
  assert (G : forall n, downstream v x \/
            exists c h, length c = S n /\ NoDup c /\ (forall y, In y c -> B y) /\ In h c /\
                        (forall y, In y c -> reachable v h y) /\ reachable v h x).
  { induction n as [|n IH].
    - right. exists [x], x. split; [reflexivity|]. split; [repeat constructor; intros []|].
      split; [intros y [<-|[]]; exact Bx|]. split; [left; reflexivity|].
      split; [intros y [<-|[]]; apply reach_refl | apply reach_refl].
    - destruct IH as [D|[c [h [Hl [Hnd [HB [Hh [Hr Hx]]]]]]]]; [left; exact D|].
      destruct (Hback h (HB h Hh)) as [p [Hph Bp]].
      destruct (in_dec Nat.eq_dec p c) as [Hpc|Hpc].
      + left. exists p. split.
        * exists h. split; [exact Hph | apply Hr; exact Hpc].
        * eapply reachable_left; [exact Hph | exact Hx].
      + right. exists (p :: c), p. split; [cbn [length]; rewrite Hl; reflexivity|].
        split; [constructor; assumption|].
        split; [intros y [<-|Hy]; [exact Bp | apply HB; exact Hy]|].
        split; [left; reflexivity|]. split.
        * intros y [<-|Hy]; [apply reach_refl|]. eapply reachable_left; [exact Hph | apply Hr; exact Hy].
        * eapply reachable_left; [exact Hph | exact Hx]. }
  destruct (G (length N)) as [D|[c [h [Hl [Hnd [HB _]]]]]]; [exact D|]. exfalso.
  assert (Hinc : incl c N) by (intros y Hy; apply HBN, HB, Hy).
  pose proof (NoDup_incl_length Hnd Hinc). lia.
Qed.

(* ------------------------------------------------------------------ *)
(* Results                                                             *)

Theorem topo_spec v fuel :
  cap_ok v -> nodes_ok v -> trav_fuel v <= fuel ->
  exists l, topo_drain fuel v (topo_new v) = Ok l /\ NoDup l /\
    (forall x, In x l -> In x (vnodes v)) /\
    (forall l1 u l2 p, l = l1 ++ u :: l2 -> In p (neighbors_in v u) -> In p l1) /\
    (inout_ok v -> forall x, In x l <-> In x (vnodes v) /\ ~ downstream v x).
Proof.
  intros [_ Hcap] Hnodes Hfuel.
  destruct (@topo_drain_ok v Hcap Hnodes fuel (topo_new v) (@tinv_new v Hcap)) as [l [t' [E [I [S O]]]]].
  { pose proof (tmeas_new v). lia. }
  { apply tmeas_new. }
  cbn [topo_new tord] in O. rewrite app_nil_r in O.
  destruct I as [Hnd Hst Hno Hpr Hrd].
  assert (Hpreds : forall l1 u l2 p, l = l1 ++ u :: l2 -> In p (neighbors_in v u) -> In p l1).
  { intros l1 u l2 p El Hp. rewrite in_rev. apply (Hpr (rev l2) u (rev l1)); [|exact Hp].
    rewrite O, El, rev_app_distr. cbn [rev]. rewrite <- app_assoc. reflexivity. }
  assert (Hln : forall x, In x l -> In x (vnodes v)).
  { intros x Hx. apply Hno. rewrite O, <- in_rev. exact Hx. }
  exists l. split; [exact E|]. split; [|split; [exact Hln | split; [exact Hpreds|]]].
  - rewrite <- (rev_involutive l), <- O. apply NoDup_rev; exact Hnd.
  - intros Hio x. split.
    + intros Hx. split; [apply Hln; exact Hx|].
      assert (G : forall l1 l2, l = l1 ++ l2 -> forall y, In y l1 -> ~ downstream v y).
      { induction l1 as [|u l1 IH] using rev_ind; intros l2 El y Hy; [destruct Hy|].
        rewrite <- app_assoc in El. cbn [app] in El.
        apply in_app_or in Hy. destruct Hy as [Hy|[<-|[]]]; [apply (IH _ El y Hy)|].
        intros D. apply downstream_pred in D. destruct D as [p [Hpu Dp]].
        assert (Hul : In u (vnodes v)).
        { apply Hln. rewrite El. apply in_or_app; right; left; reflexivity. }
        apply (Hio p u Hul) in Hpu. apply (IH _ El p); [|exact Dp].
        eapply Hpreds; [exact El | exact Hpu]. }
      apply (G l [] (eq_sym (app_nil_r l)) x Hx).
    + intros [Hx Hnd']. destruct (in_dec Nat.eq_dec x l) as [Hin|Hout]; [exact Hin|]. exfalso.
      apply Hnd'.
      apply (@back_closed_downstream v (vnodes v) (fun y => In y (vnodes v) /\ ~ In y l)).
      * intros y [Hy _]; exact Hy.
      * intros y [Hy Hyl].
        destruct (all_dec (neighbors_in v y) (tord t')) as [Hall|Hnall].
        -- exfalso. destruct (Hrd Hio y Hy Hall) as [H|H]; [|rewrite S in H; destruct H].
           apply Hyl. rewrite in_rev, <- O. exact H.
        -- apply not_all_ex in Hnall. destruct Hnall as [p [Hpy Hpo]].
           apply (Hio p y Hy) in Hpy. exists p. split; [exact Hpy|].
           split; [apply (Hnodes p y Hpy)|]. intros Hpl. apply Hpo. rewrite O, <- in_rev. exact Hpl.
      * split; assumption.
Qed.

(* every node is emitted exactly when the view is acyclic *)
Corollary topo_all_iff_acyclic v l :
  nodes_ok v -> (forall x, In x l <-> In x (vnodes v) /\ ~ downstream v x) ->
  ((forall x, In x (vnodes v) -> In x l) <-> acyclic v).
Proof.
  intros Hnodes Hl. split.
  - intros Hall c Hc. pose proof Hc as [c' [Hcc' _]].
    assert (Hcv : In c (vnodes v)) by apply (Hnodes c c' Hcc').
    apply Hall, Hl in Hcv. apply (proj2 Hcv). exists c. split; [exact Hc | apply reach_refl].
  - intros Hac x Hx. apply Hl. split; [exact Hx|]. intros [c [Hc _]]. exact (Hac c Hc).
Qed.
