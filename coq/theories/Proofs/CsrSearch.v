(* find_edge_pos: the linear scan and core's size-halving binary search compute
   the same position on every strictly ascending row, whatever its length. *)
From PG Require Import Lib.ListExtra Lib.Io Model.CsrM.

(* What a search result means for a row l and a target b. *)
Definition pos_ok (l : list nat) (b : nat) (p : pos) : Prop :=
  match p with
  | Found i => nth_error l i = Some b
  | Insert i =>
      i <= length l /\
      (forall j x, j < i -> nth_error l j = Some x -> x < b) /\
      (forall j x, i <= j -> nth_error l j = Some x -> b < x)
  end.

Lemma pos_ok_unique l b p q : ascending l -> pos_ok l b p -> pos_ok l b q -> p = q.
Proof.
  intros Ha Hp Hq. pose proof (proj1 (ascending_nth l) Ha) as Hn.
  destruct p as [i|i]; destruct q as [k|k]; simpl in *.
  - f_equal. eapply ascending_inj; eauto.
  - exfalso. destruct Hq as [Hk [Hlo Hhi]].
    destruct (Nat.lt_ge_cases i k) as [L|L].
    + specialize (Hlo _ _ L Hp). lia.
    + specialize (Hhi _ _ L Hp). lia.
  - exfalso. destruct Hp as [Hk [Hlo Hhi]].
    destruct (Nat.lt_ge_cases k i) as [L|L].
    + specialize (Hlo _ _ L Hq). lia.
    + specialize (Hhi _ _ L Hq). lia.
  - f_equal. destruct Hp as [Hi [Plo Phi]]. destruct Hq as [Hk [Qlo Qhi]].
    destruct (Nat.lt_trichotomy i k) as [L|[E|L]]; auto; exfalso.
    + destruct (@nth_error_lt_Some _ l i) as [x Hx]; try lia.
      specialize (Phi _ _ (le_n i) Hx). specialize (Qlo _ _ L Hx). lia.
    + destruct (@nth_error_lt_Some _ l k) as [x Hx]; try lia.
      specialize (Qhi _ _ (le_n k) Hx). specialize (Plo _ _ L Hx). lia.
Qed.

(* ------------------------------------------------------------------ *)
(* linear scan                                                         *)

Lemma lin_search_shift l b k : lin_search l b k = shift_pos k (lin_search l b 0).
Proof.
  revert k; induction l as [|e t IH]; intros k; cbn [lin_search].
  - reflexivity.
  - destruct (Nat.compare e b); try reflexivity.
    rewrite (IH (S k)), (IH 1).
    destruct (lin_search t b 0) as [i|i]; cbn [shift_pos]; f_equal; lia.
Qed.

Lemma lin_search_ok l b : ascending l -> pos_ok l b (lin_search l b 0).
Proof.
  induction 1 as [|e t Hs IH Hf]; cbn [lin_search].
  - simpl. repeat split; auto; intros [|j] x; discriminate.
  - rewrite Forall_forall in Hf.
    destruct (Nat.compare_spec e b) as [E|L|G].
    + subst; reflexivity.
    + rewrite lin_search_shift.
      destruct (lin_search t b 0) as [i|i]; cbn [shift_pos pos_ok] in *.
      * rewrite Nat.add_1_r. exact IH.
      * destruct IH as [Hi [Hlo Hhi]]. rewrite Nat.add_1_r. simpl. repeat split; try lia.
        -- intros [|j] x Hj Hx; simpl in Hx.
           ++ inversion Hx; subst; auto.
           ++ eapply Hlo; [|eauto]. lia.
        -- intros [|j] x Hj Hx; simpl in Hx; try lia.
           eapply Hhi; [|eauto]. lia.
    + simpl. repeat split; try lia.
      intros [|j] x _ Hx; simpl in Hx.
      * inversion Hx; subst; auto.
      * apply nth_error_In in Hx. specialize (Hf _ Hx). lia.
Qed.

(* ------------------------------------------------------------------ *)
(* binary search                                                       *)

Lemma bs_loop_ok l b : ascending l -> forall fuel base size,
  size < fuel -> 1 <= size -> base + size <= length l ->
  (base = 0 \/ exists x, nth_error l base = Some x /\ x <= b) ->
  (forall j x, base + size <= j -> nth_error l j = Some x -> b < x) ->
  exists base', bs_loop fuel l b base size = Ok base' /\ base' < length l /\
    (base' = 0 \/ exists x, nth_error l base' = Some x /\ x <= b) /\
    (forall j x, S base' <= j -> nth_error l j = Some x -> b < x).
Proof.
  intros Ha. pose proof (proj1 (ascending_nth l) Ha) as Hn.
  induction fuel as [|f IH]; intros base size Hfuel Hsz Hlen Hbase Hup; try lia.
  cbn [bs_loop]. destruct (Nat.leb_spec size 1) as [H1|H1].
  - assert (size = 1) by lia; subst size.
    exists base; repeat split; auto; try lia.
    intros j x Hj; apply Hup; lia.
  - pose proof (div2_bounds size) as [Hd1 Hd2].
    set (half := Nat.div2 size) in *.
    destruct (@nth_error_lt_Some _ l (base + half)) as [e He]; try lia.
    rewrite He.
    destruct (Nat.compare_spec e b) as [E|L|G].
    + apply IH; try lia.
      * right; exists e; split; auto; lia.
      * intros j x Hj; apply Hup; lia.
    + apply IH; try lia.
      * right; exists e; split; auto; lia.
      * intros j x Hj; apply Hup; lia.
    + apply IH; try lia; auto.
      intros j x Hj Hx.
      destruct (Nat.eq_dec j (base + half)) as [->|Hne].
      * congruence.
      * assert (Hlt : base + half < j) by lia.
        specialize (Hn _ _ _ _ Hlt He Hx). lia.
Qed.

Lemma binary_search_ok l b : ascending l ->
  exists p, binary_search l b = Ok p /\ pos_ok l b p.
Proof.
  intros Ha. pose proof (proj1 (ascending_nth l) Ha) as Hn.
  destruct l as [|h t].
  - exists (Insert 0); split; auto. simpl. repeat split; auto; intros [|j] x; discriminate.
  - unfold binary_search.
    destruct (@bs_loop_ok (h :: t) b Ha (S (length (h :: t))) 0 (length (h :: t)))
      as [base [E [Hlt [Hbase Hup]]]]; auto; try (simpl; lia).
    { intros j x Hj Hx. apply nth_error_Some_lt in Hx. simpl in *; lia. }
    rewrite E. cbn [rbind].
    destruct (@nth_error_lt_Some _ _ _ Hlt) as [e He]. rewrite He.
    destruct (Nat.compare_spec e b) as [E'|L|G].
    + subst e. exists (Found base); split; auto.
    + exists (Insert (S base)); split; auto. cbn [pos_ok]. repeat split; auto.
      intros j x Hj Hx.
      destruct (Nat.eq_dec j base) as [->|Hne]; [congruence|].
      assert (Hjb : j < base) by lia.
      specialize (Hn _ _ _ _ Hjb Hx He). lia.
    + assert (base = 0) as -> by (destruct Hbase as [|[x [Hx Hle]]]; auto; rewrite He in Hx; inversion Hx; lia).
      exists (Insert 0); split; auto. cbn [pos_ok]. repeat split; try lia.
      intros [|j] x _ Hx.
      * congruence.
      * eapply Hup; [|eauto]. lia.
Qed.

(* The cutoff is unobservable: both branches of find_edge_pos agree. *)
Theorem binary_search_lin_search l b : ascending l ->
  binary_search l b = Ok (lin_search l b 0).
Proof.
  intros Ha. destruct (binary_search_ok l b Ha) as [p [E Hp]].
  rewrite E. f_equal. eapply pos_ok_unique; eauto. apply lin_search_ok; auto.
Qed.

Theorem lin_search_found l b i : ascending l ->
  lin_search l b 0 = Found i -> nth_error l i = Some b.
Proof. intros Ha E. pose proof (lin_search_ok l b Ha) as H. rewrite E in H. exact H. Qed.

Theorem lin_search_insert l b i : ascending l ->
  lin_search l b 0 = Insert i ->
  i <= length l /\ ~ In b l /\
  (forall j x, j < i -> nth_error l j = Some x -> x < b) /\
  (forall j x, i <= j -> nth_error l j = Some x -> b < x).
Proof.
  intros Ha E. pose proof (lin_search_ok l b Ha) as H. rewrite E in H.
  destruct H as [Hi [Hlo Hhi]]. repeat split; auto.
  intros Hin. apply nth_error_In' in Hin. destruct Hin as [j Hj].
  destruct (Nat.lt_ge_cases j i) as [L|L].
  - specialize (Hlo _ _ L Hj). lia.
  - specialize (Hhi _ _ L Hj). lia.
Qed.

Lemma lin_search_found_iff l b : ascending l ->
  (In b l <-> exists i, lin_search l b 0 = Found i).
Proof.
  intros Ha. split.
  - intros Hin. destruct (lin_search l b 0) as [i|i] eqn:E; eauto.
    apply lin_search_insert in E; auto. tauto.
  - intros [i E]. apply lin_search_found in E; auto. eapply nth_error_In; eauto.
Qed.
