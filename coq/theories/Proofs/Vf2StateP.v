(* C13b, V1: the invariant of one Vf2State, push_mapping / pop_mapping are inverse, the generation
   stamps mark the frontier, the two mappings are mutually inverse partial injections. *)
From PG Require Import Lib.Io Lib.ListExtra Model.IsoM Model.Vf2M Spec.IsoSpec Proofs.IsoRefP
                       Proofs.Vf2BaseP.

(* ------------------------------------------------------------------ *)
(* counting                                                             *)

Definition nonz (x : nat) : bool := negb (Nat.eqb x 0).
Definition count_nz (l : list nat) : nat := length (filter nonz l).
Definition count_some (l : list (option nat)) : nat := length (filter (@is_some nat) l).

Lemma filter_length_le {A} (f : A -> bool) (l : list A) : length (filter f l) <= length l.
Proof. induction l as [|h t IH]; simpl; auto. destruct (f h); simpl; lia. Qed.

Lemma count_nz_upd arr ix v : ix < length arr ->
  count_nz (upd arr ix v) + (if nonz (nth ix arr 0) then 1 else 0) =
  count_nz arr + (if nonz v then 1 else 0).
Proof.
  unfold count_nz. revert ix; induction arr as [|h t IH]; intros [|ix] H; cbn [length] in H; try lia.
  - cbn [upd filter nth]. destruct (nonz v), (nonz h); cbn [length]; lia.
  - cbn [upd filter nth]. specialize (IH ix ltac:(lia)).
    destruct (nonz h); cbn [length]; lia.
Qed.

Lemma count_some_upd (m : list (option nat)) ix v : ix < length m ->
  count_some (upd m ix v) + (if is_some (nth ix m None) then 1 else 0) =
  count_some m + (if is_some v then 1 else 0).
Proof.
  unfold count_some. revert ix; induction m as [|h t IH]; intros [|ix] H; cbn [length] in H; try lia.
  - cbn [upd filter nth]. destruct (is_some v), (is_some h); cbn [length]; lia.
  - cbn [upd filter nth]. specialize (IH ix ltac:(lia)).
    destruct (is_some h); cbn [length]; lia.
Qed.

Lemma count_some_le (m : list (option nat)) : count_some m <= length m.
Proof. unfold count_some. apply filter_length_le. Qed.

Lemma count_some_full (m : list (option nat)) :
  count_some m = length m -> forall i, i < length m -> nth i m None <> None.
Proof.
  unfold count_some. induction m as [|h t IH]; intros H i Hi; cbn [length] in *; [lia|].
  cbn [filter] in H. destruct h as [x|].
  - cbn [is_some length] in H. destruct i; cbn [nth]; [discriminate|]. apply IH; lia.
  - cbn [is_some] in H. pose proof (filter_length_le (@is_some nat) t). lia.
Qed.

Lemma count_some_lt (m : list (option nat)) i :
  i < length m -> nth i m None = None -> count_some m < length m.
Proof.
  intros Hi Hn. pose proof (count_some_le m).
  destruct (Nat.eq_dec (count_some m) (length m)) as [E|E]; [|lia].
  elim (count_some_full m E i Hi Hn).
Qed.

(* ------------------------------------------------------------------ *)
(* the marking loops                                                    *)

Definition memb (i : nat) (l : list nat) : bool := existsb (Nat.eqb i) l.

Lemma memb_In i l : memb i l = true <-> In i l.
Proof.
  unfold memb. rewrite existsb_exists. split.
  - intros [x [H1 H2]]. apply Nat.eqb_eq in H2. subst; auto.
  - intros H. exists i. split; auto. apply Nat.eqb_refl.
Qed.

Lemma mark_fold_length gen l acc :
  length (fst (fold_left (mark gen) l acc)) = length (fst acc).
Proof.
  revert acc; induction l as [|x t IH]; intros acc; cbn [fold_left]; auto.
  rewrite IH. unfold mark. destruct (Nat.eqb _ _); cbn [fst]; auto. apply upd_length.
Qed.

Lemma unmark_fold_length gen l acc :
  length (fst (fold_left (unmark gen) l acc)) = length (fst acc).
Proof.
  revert acc; induction l as [|x t IH]; intros acc; cbn [fold_left]; auto.
  rewrite IH. unfold unmark. destruct (Nat.eqb _ _); cbn [fst]; auto. apply upd_length.
Qed.

Ltac bdestr :=
  repeat match goal with
  | |- context [Nat.eqb ?a ?b] => destruct (Nat.eqb_spec a b)
  | |- context [Nat.ltb ?a ?b] => destruct (Nat.ltb_spec a b)
  end.

Lemma mark_nth gen acc x i :
  nth i (fst (mark gen acc x)) 0 =
  if andb (Nat.eqb (nth x (fst acc) 0) 0) (andb (Nat.eqb x i) (Nat.ltb x (length (fst acc))))
  then gen else nth i (fst acc) 0.
Proof.
  unfold mark. destruct (Nat.eqb (nth x (fst acc) 0) 0); cbn [fst andb]; auto.
  rewrite nth_upd. reflexivity.
Qed.
Lemma mark_length gen acc x : length (fst (mark gen acc x)) = length (fst acc).
Proof. unfold mark. destruct (Nat.eqb _ _); cbn [fst]; auto. apply upd_length. Qed.
Lemma unmark_nth gen acc x i :
  nth i (fst (unmark gen acc x)) 0 =
  if andb (Nat.eqb (nth x (fst acc) 0) gen) (andb (Nat.eqb x i) (Nat.ltb x (length (fst acc))))
  then 0 else nth i (fst acc) 0.
Proof.
  unfold unmark. destruct (Nat.eqb (nth x (fst acc) 0) gen); cbn [fst andb]; auto.
  rewrite nth_upd. reflexivity.
Qed.
Lemma unmark_length gen acc x : length (fst (unmark gen acc x)) = length (fst acc).
Proof. unfold unmark. destruct (Nat.eqb _ _); cbn [fst]; auto. apply upd_length. Qed.

Lemma mark_fold_nth gen l acc i : gen <> 0 ->
  nth i (fst (fold_left (mark gen) l acc)) 0 =
  if andb (Nat.eqb (nth i (fst acc) 0) 0) (andb (memb i l) (Nat.ltb i (length (fst acc))))
  then gen else nth i (fst acc) 0.
Proof.
  intros Hg. revert acc; induction l as [|x t IH]; intros acc; cbn [fold_left].
  - cbn [memb existsb]. rewrite andb_false_l, andb_false_r. reflexivity.
  - rewrite IH, mark_nth, mark_length. cbn [memb existsb]. fold (memb i t).
    destruct (Nat.eq_dec x i) as [->|Hn].
    + rewrite Nat.eqb_refl. cbn [orb andb].
      destruct (memb i t); destruct (Nat.eqb_spec (nth i (fst acc) 0) 0);
        destruct (Nat.ltb_spec i (length (fst acc))); cbn [andb]; bdestr; cbn [andb]; try lia; auto.
    + destruct (Nat.eqb_spec x i); [lia|]. cbn [andb orb].
      destruct (Nat.eqb_spec i x); [lia|]. cbn [orb].
      destruct (Nat.eqb (nth x (fst acc) 0) 0); cbn [andb]; auto.
Qed.

Lemma unmark_fold_nth gen l acc i : gen <> 0 ->
  nth i (fst (fold_left (unmark gen) l acc)) 0 =
  if andb (Nat.eqb (nth i (fst acc) 0) gen) (andb (memb i l) (Nat.ltb i (length (fst acc))))
  then 0 else nth i (fst acc) 0.
Proof.
  intros Hg. revert acc; induction l as [|x t IH]; intros acc; cbn [fold_left].
  - cbn [memb existsb]. rewrite andb_false_l, andb_false_r. reflexivity.
  - rewrite IH, unmark_nth, unmark_length. cbn [memb existsb]. fold (memb i t).
    destruct (Nat.eq_dec x i) as [->|Hn].
    + rewrite Nat.eqb_refl. cbn [orb andb].
      destruct (memb i t); destruct (Nat.eqb_spec (nth i (fst acc) 0) gen);
        destruct (Nat.ltb_spec i (length (fst acc))); cbn [andb]; bdestr; cbn [andb]; try lia; auto;
        try (rewrite nth_overflow in * by lia; lia).
    + destruct (Nat.eqb_spec x i); [lia|]. cbn [andb orb].
      destruct (Nat.eqb_spec i x); [lia|]. cbn [orb].
      destruct (Nat.eqb (nth x (fst acc) 0) gen); cbn [andb]; auto.
Qed.

Lemma mark_fold_size gen l acc : gen <> 0 ->
  (forall x, In x l -> x < length (fst acc)) ->
  snd acc = count_nz (fst acc) ->
  snd (fold_left (mark gen) l acc) = count_nz (fst (fold_left (mark gen) l acc)).
Proof.
  intros Hg. revert acc; induction l as [|x t IH]; intros acc Hr Hs; cbn [fold_left]; auto.
  apply IH.
  - intros y Hy. unfold mark. destruct (Nat.eqb _ _); cbn [fst]; [rewrite upd_length|];
      apply Hr; right; auto.
  - unfold mark. destruct (Nat.eqb_spec (nth x (fst acc) 0) 0) as [E|E]; cbn [fst snd]; auto.
    pose proof (count_nz_upd (fst acc) x gen (Hr x (or_introl eq_refl))) as H.
    rewrite E in H. unfold nonz in H at 1 2. cbn [Nat.eqb negb] in H.
    destruct (Nat.eqb_spec gen 0); [lia|]. cbn [negb] in H. lia.
Qed.

Lemma unmark_fold_size gen l acc : gen <> 0 ->
  (forall x, In x l -> x < length (fst acc)) ->
  snd acc = count_nz (fst acc) ->
  snd (fold_left (unmark gen) l acc) = count_nz (fst (fold_left (unmark gen) l acc)).
Proof.
  intros Hg. revert acc; induction l as [|x t IH]; intros acc Hr Hs; cbn [fold_left]; auto.
  apply IH.
  - intros y Hy. unfold unmark. destruct (Nat.eqb _ _); cbn [fst]; [rewrite upd_length|];
      apply Hr; right; auto.
  - unfold unmark. destruct (Nat.eqb_spec (nth x (fst acc) 0) gen) as [E|E]; cbn [fst snd]; auto.
    pose proof (count_nz_upd (fst acc) x 0 (Hr x (or_introl eq_refl))) as H.
    rewrite E in H. unfold nonz in H at 1 2. cbn [Nat.eqb negb] in H.
    destruct (Nat.eqb_spec gen 0); [lia|]. cbn [negb] in H. lia.
Qed.

(* unmarking undoes marking with a fresh stamp *)
Lemma unmark_mark gen l arr sz : gen <> 0 ->
  (forall x, In x l -> x < length arr) ->
  (forall i, nth i arr 0 < gen) ->
  sz = count_nz arr ->
  fold_left (unmark gen) l (fold_left (mark gen) l (arr, sz)) = (arr, sz).
Proof.
  intros Hg Hr Hlt Hs.
  set (a1 := fold_left (mark gen) l (arr, sz)).
  assert (Hl1 : length (fst a1) = length arr) by (unfold a1; rewrite mark_fold_length; auto).
  assert (Hs1 : snd a1 = count_nz (fst a1)) by (unfold a1; apply mark_fold_size; auto).
  set (a2 := fold_left (unmark gen) l a1).
  assert (Hs2 : snd a2 = count_nz (fst a2)).
  { unfold a2. apply unmark_fold_size; auto. intros x Hx. rewrite Hl1. auto. }
  assert (Hf : fst a2 = arr).
  { apply (nth_ext_eq 0).
    - unfold a2. rewrite unmark_fold_length. exact Hl1.
    - intros i _. unfold a2. rewrite unmark_fold_nth by auto. unfold a1.
      rewrite mark_fold_nth by auto. rewrite mark_fold_length. cbn [fst].
      specialize (Hlt i).
      destruct (Nat.eqb_spec (nth i arr 0) 0) as [E|E]; cbn [andb].
      + destruct (andb (memb i l) (Nat.ltb i (length arr))) eqn:E2.
        * rewrite Nat.eqb_refl. cbn [andb]. lia.
        * rewrite andb_false_r. reflexivity.
      + destruct (Nat.eqb_spec (nth i arr 0) gen); [lia|]. reflexivity. }
  destruct a2 as [f2 s2]. cbn [fst snd] in *. subst. reflexivity.
Qed.

(* ------------------------------------------------------------------ *)
(* the invariant of one state                                           *)

Definition mapped (st : vf2_state) (a : nat) : Prop := nth a (vs_mapping st) None <> None.

Record svalid (g : sgraph6) (st : vf2_state) : Prop := mkSvalid {
  sv_map_len : length (vs_mapping st) = s_n g;
  sv_out_len : length (vs_out st) = s_n g;
  sv_ins_len : length (vs_ins st) = if s_dir g then s_n g else 0;
  sv_out_le : forall i, nth i (vs_out st) 0 <= vs_gen st;
  sv_ins_le : forall i, nth i (vs_ins st) 0 <= vs_gen st;
  sv_out_size : vs_out_size st = count_nz (vs_out st);
  sv_ins_size : vs_ins_size st = count_nz (vs_ins st);
  sv_gen : vs_gen st = count_some (vs_mapping st);
  sv_adj : vs_adj st = adjacency_matrix g;
  (* the stamps mark the frontier: the successors (predecessors) of the mapped nodes *)
  sv_out_front : forall i, nth i (vs_out st) 0 <> 0 <-> exists a, mapped st a /\ adjb g a i = true;
  sv_ins_front : s_dir g = true ->
                 forall i, nth i (vs_ins st) 0 <> 0 <-> exists a, mapped st a /\ adjb g i a = true
}.

Lemma nth_repeat {A} (x d : A) k i : i < k -> nth i (repeat x k) d = x.
Proof. revert i; induction k as [|k IH]; intros [|i] H; simpl; auto; try lia. apply IH; lia. Qed.

Lemma nth_repeat_d {A} (x : A) k i : nth i (repeat x k) x = x.
Proof. revert i; induction k as [|k IH]; intros [|i]; simpl; auto. Qed.

Lemma count_nz_repeat0 k : count_nz (repeat 0 k) = 0.
Proof. induction k; simpl; auto. Qed.

Lemma count_some_repeatN k : count_some (repeat None k) = 0.
Proof. induction k; simpl; auto. Qed.

Lemma svalid_new g : svalid g (vs_new g).
Proof.
  unfold vs_new. constructor; cbn [vs_mapping vs_out vs_ins vs_out_size vs_ins_size vs_gen vs_adj].
  - apply repeat_length.
  - apply repeat_length.
  - rewrite repeat_length. destruct (s_dir g); lia.
  - intros i. rewrite nth_repeat_d. lia.
  - intros i. rewrite nth_repeat_d. lia.
  - rewrite count_nz_repeat0; auto.
  - rewrite count_nz_repeat0; auto.
  - rewrite count_some_repeatN; auto.
  - reflexivity.
  - intros i. rewrite nth_repeat_d. split; [congruence|].
    intros [a [H _]]. unfold mapped in H. cbn [vs_mapping] in H. rewrite nth_repeat_d in H. congruence.
  - intros _ i. rewrite nth_repeat_d. split; [congruence|].
    intros [a [H _]]. unfold mapped in H. cbn [vs_mapping] in H. rewrite nth_repeat_d in H. congruence.
Qed.

(* ------------------------------------------------------------------ *)
(* push_mapping keeps the invariant                                     *)

Lemma mapped_push g st from to a : from < length (vs_mapping st) ->
  (mapped (push_mapping g st from to) a <-> a = from \/ mapped st a).
Proof.
  intros Hf. unfold mapped, push_mapping. cbn [vs_mapping]. rewrite nth_upd.
  destruct (Nat.eqb_spec from a) as [->|Hn]; cbn [andb].
  - destruct (Nat.ltb_spec a (length (vs_mapping st))); [|lia]. split; [auto|congruence].
  - split; [auto|]. intros [H|H]; [congruence|auto].
Qed.

Lemma push_mapping_nth g st from to a : from < length (vs_mapping st) ->
  nth a (vs_mapping (push_mapping g st from to)) None =
  if Nat.eqb from a then Some to else nth a (vs_mapping st) None.
Proof.
  intros Hf. unfold push_mapping. cbn [vs_mapping]. rewrite nth_upd.
  destruct (Nat.eqb_spec from a) as [->|Hn]; cbn [andb]; auto.
  destruct (Nat.ltb_spec a (length (vs_mapping st))); [auto|lia].
Qed.

Lemma push_gen g st from to : vs_gen (push_mapping g st from to) = S (vs_gen st).
Proof. reflexivity. Qed.

Lemma push_out g st from to :
  vs_out (push_mapping g st from to) =
  fst (fold_left (mark (S (vs_gen st))) (neighbors_directed g from true) (vs_out st, vs_out_size st)).
Proof. reflexivity. Qed.
Lemma push_ins g st from to :
  vs_ins (push_mapping g st from to) =
  fst (if s_dir g
       then fold_left (mark (S (vs_gen st))) (neighbors_directed g from false) (vs_ins st, vs_ins_size st)
       else (vs_ins st, vs_ins_size st)).
Proof. reflexivity. Qed.

Lemma svalid_push g st from to : erange g -> svalid g st ->
  from < s_n g -> nth from (vs_mapping st) None = None ->
  svalid g (push_mapping g st from to).
Proof.
  intros He Hv Hf Hu. destruct Hv.
  assert (Hro : forall x, In x (neighbors_directed g from true) -> x < length (vs_out st)).
  { intros x Hx. rewrite sv_out_len0. eapply neighbors_range; eauto. }
  assert (Hri : s_dir g = true ->
                forall x, In x (neighbors_directed g from false) -> x < length (vs_ins st)).
  { intros Hd x Hx. rewrite sv_ins_len0, Hd. eapply neighbors_range; eauto. }
  assert (Hm : forall a, mapped (push_mapping g st from to) a <-> a = from \/ mapped st a).
  { intros a. apply mapped_push. lia. }
  constructor.
  - unfold push_mapping; cbn [vs_mapping]. rewrite upd_length; auto.
  - rewrite push_out, mark_fold_length; auto.
  - rewrite push_ins. destruct (s_dir g); [rewrite mark_fold_length|]; auto.
  - intros i. rewrite push_out, push_gen, mark_fold_nth by lia. cbn [fst]. specialize (sv_out_le0 i).
    destruct (andb _ _); lia.
  - intros i. rewrite push_ins, push_gen. destruct (s_dir g); cbn [fst].
    + rewrite mark_fold_nth by lia. cbn [fst]. specialize (sv_ins_le0 i). destruct (andb _ _); lia.
    + specialize (sv_ins_le0 i). lia.
  - rewrite push_out. unfold push_mapping; cbn [vs_out_size]. apply mark_fold_size; auto.
  - rewrite push_ins. unfold push_mapping; cbn [vs_ins_size].
    destruct (s_dir g) eqn:Hd; cbn [fst snd]; auto. apply mark_fold_size; auto.
  - unfold push_mapping; cbn [vs_gen vs_mapping].
    pose proof (count_some_upd (vs_mapping st) from (Some to)) as H.
    rewrite Hu in H. cbn [is_some] in H. specialize (H ltac:(lia)). lia.
  - auto.
  - intros i. rewrite push_out, mark_fold_nth by lia. cbn [fst].
    split.
    + intros H.
      destruct (Nat.eqb_spec (nth i (vs_out st) 0) 0) as [E|E]; cbn [andb] in H.
      * destruct (memb i (neighbors_directed g from true)) eqn:Em; cbn [andb] in H; [|lia].
        exists from. split; [apply Hm; auto|].
        apply neighbors_out_In. apply memb_In. exact Em.
      * apply sv_out_front0 in E. destruct E as [a [Ha1 Ha2]]. exists a. split; auto.
        apply Hm; auto.
    + intros [a [Ha1 Ha2]]. apply Hm in Ha1.
      destruct (Nat.eqb_spec (nth i (vs_out st) 0) 0) as [E|E]; cbn [andb]; [|auto].
      destruct Ha1 as [->|Ha1].
      * apply neighbors_out_In in Ha2. pose proof (Hro i Ha2) as Hlt.
        apply memb_In in Ha2. rewrite Ha2. cbn [andb].
        destruct (Nat.ltb_spec i (length (vs_out st))); [lia|lia].
      * exfalso. assert (nth i (vs_out st) 0 <> 0); [|lia]. apply sv_out_front0. eauto.
  - intros Hd i. rewrite push_ins, Hd. rewrite mark_fold_nth by lia. cbn [fst].
    specialize (sv_ins_front0 Hd).
    split.
    + intros H.
      destruct (Nat.eqb_spec (nth i (vs_ins st) 0) 0) as [E|E]; cbn [andb] in H.
      * destruct (memb i (neighbors_directed g from false)) eqn:Em; cbn [andb] in H; [|lia].
        exists from. split; [apply Hm; auto|].
        apply neighbors_in_In; auto. apply memb_In. exact Em.
      * apply sv_ins_front0 in E. destruct E as [a [Ha1 Ha2]]. exists a. split; auto.
        apply Hm; auto.
    + intros [a [Ha1 Ha2]]. apply Hm in Ha1.
      destruct (Nat.eqb_spec (nth i (vs_ins st) 0) 0) as [E|E]; cbn [andb]; [|auto].
      destruct Ha1 as [->|Ha1].
      * apply neighbors_in_In in Ha2; auto. pose proof (Hri Hd i Ha2) as Hlt.
        apply memb_In in Ha2. rewrite Ha2. cbn [andb].
        destruct (Nat.ltb_spec i (length (vs_ins st))); [lia|lia].
      * exfalso. assert (nth i (vs_ins st) 0 <> 0); [|lia]. apply sv_ins_front0. eauto.
Qed.

(* ------------------------------------------------------------------ *)
(* pop_mapping undoes push_mapping                                      *)

Lemma upd_upd {A} (l : list A) i v w : upd (upd l i v) i w = upd l i w.
Proof. revert i; induction l as [|h t IH]; intros [|i]; simpl; auto. f_equal; auto. Qed.

Lemma upd_nth_same {A} (l : list A) i d : upd l i (nth i l d) = l.
Proof.
  revert i; induction l as [|h t IH]; intros [|i]; simpl; auto. f_equal; auto.
Qed.

Theorem pop_push_mapping g st from to : erange g -> svalid g st ->
  from < s_n g -> nth from (vs_mapping st) None = None ->
  pop_mapping g (push_mapping g st from to) from = st.
Proof.
  intros He Hv Hf Hu. destruct Hv. destruct st as [m o i os is adj gen].
  cbn [vs_mapping vs_out vs_ins vs_out_size vs_ins_size vs_gen vs_adj] in *.
  unfold pop_mapping, push_mapping.
  cbn [vs_mapping vs_out vs_ins vs_out_size vs_ins_size vs_gen vs_adj].
  rewrite upd_upd. rewrite <- Hu at 1. rewrite upd_nth_same.
  rewrite <- surjective_pairing.
  rewrite unmark_mark;
    [| lia
     | intros x Hx; rewrite sv_out_len0; eapply neighbors_range; eauto
     | intros k; specialize (sv_out_le0 k); lia
     | auto].
  cbn [fst snd].
  destruct (s_dir g) eqn:Hd.
  - rewrite <- surjective_pairing.
    rewrite unmark_mark;
    [| lia
     | intros x Hx; rewrite sv_ins_len0; eapply neighbors_range; eauto
     | intros k; specialize (sv_ins_le0 k); lia
     | auto].
    reflexivity.
  - reflexivity.
Qed.

(* ------------------------------------------------------------------ *)
(* the pair of states                                                   *)

Record pvalid (g0 g1 : sgraph6) (st : st2) : Prop := mkPvalid {
  pv_0 : svalid g0 (fst st);
  pv_1 : svalid g1 (snd st);
  (* the two mappings are mutually inverse (hence injective) partial maps *)
  pv_inv : forall a b, a < s_n g0 -> b < s_n g1 ->
           (nth a (vs_mapping (fst st)) None = Some b <-> nth b (vs_mapping (snd st)) None = Some a);
  pv_rng0 : forall a b, nth a (vs_mapping (fst st)) None = Some b -> b < s_n g1;
  pv_rng1 : forall a b, nth b (vs_mapping (snd st)) None = Some a -> a < s_n g0;
  pv_gen : vs_gen (fst st) = vs_gen (snd st)
}.

Lemma nth_Some_lt {A} (l : list (option A)) i x : nth i l None = Some x -> i < length l.
Proof.
  intros H. destruct (Nat.ltb_spec i (length l)); auto. rewrite nth_overflow in H by lia. discriminate.
Qed.

Lemma pvalid_new g0 g1 : pvalid g0 g1 (vs_new g0, vs_new g1).
Proof.
  constructor; cbn [fst snd]; try apply svalid_new; try reflexivity.
  - intros a b _ _. unfold vs_new. cbn [vs_mapping]. rewrite !nth_repeat_d. split; discriminate.
  - intros a b. unfold vs_new. cbn [vs_mapping]. rewrite nth_repeat_d. discriminate.
  - intros a b. unfold vs_new. cbn [vs_mapping]. rewrite nth_repeat_d. discriminate.
Qed.

Lemma pvalid_push g0 g1 st n0 n1 : erange g0 -> erange g1 -> pvalid g0 g1 st ->
  n0 < s_n g0 -> n1 < s_n g1 ->
  nth n0 (vs_mapping (fst st)) None = None -> nth n1 (vs_mapping (snd st)) None = None ->
  pvalid g0 g1 (push_state g0 g1 st n0 n1).
Proof.
  intros He0 He1 Hv H0 H1 Hu0 Hu1. destruct Hv.
  pose proof (sv_map_len _ _ pv_2) as Hl0. pose proof (sv_map_len _ _ pv_3) as Hl1.
  constructor; unfold push_state; cbn [fst snd].
  - apply svalid_push; auto.
  - apply svalid_push; auto.
  - intros a b Ha Hb. rewrite !push_mapping_nth by lia.
    destruct (Nat.eqb_spec n0 a) as [->|Hn0]; destruct (Nat.eqb_spec n1 b) as [->|Hn1].
    + split; auto.
    + split; intros H.
      * congruence.
      * apply pv_inv0 in H; auto. congruence.
    + split; intros H.
      * apply pv_inv0 in H; auto. congruence.
      * congruence.
    + apply pv_inv0; auto.
  - intros a b. rewrite push_mapping_nth by lia.
    destruct (Nat.eqb_spec n0 a); [intros H; inversion H; subst; auto|apply pv_rng2].
  - intros a b. rewrite push_mapping_nth by lia.
    destruct (Nat.eqb_spec n1 b); [intros H; inversion H; subst; auto|apply pv_rng3].
  - rewrite !push_gen. f_equal. auto.
Qed.

Theorem pop_push_state g0 g1 st n0 n1 : erange g0 -> erange g1 -> pvalid g0 g1 st ->
  n0 < s_n g0 -> n1 < s_n g1 ->
  nth n0 (vs_mapping (fst st)) None = None -> nth n1 (vs_mapping (snd st)) None = None ->
  pop_state g0 g1 (push_state g0 g1 st n0 n1) n0 n1 = st.
Proof.
  intros He0 He1 Hv H0 H1 Hu0 Hu1. destruct Hv. unfold pop_state, push_state. cbn [fst snd].
  rewrite !pop_push_mapping; auto. destruct st; reflexivity.
Qed.

(* a complete state has no unmapped node of the first graph *)
Lemma complete_all_mapped g st : svalid g st -> is_complete st = true ->
  forall i, i < s_n g -> nth i (vs_mapping st) None <> None.
Proof.
  intros Hv Hc i Hi. unfold is_complete in Hc. apply Nat.eqb_eq in Hc.
  destruct Hv. apply count_some_full; [congruence|lia].
Qed.

Lemma incomplete_gen_lt g st i : svalid g st -> i < s_n g -> nth i (vs_mapping st) None = None ->
  vs_gen st < s_n g.
Proof.
  intros Hv Hi Hn. destruct Hv. rewrite sv_gen0, <- sv_map_len0.
  apply (count_some_lt _ i); auto. lia.
Qed.
