(* C07b, first part: representation independence of the algorithms whose exactness was proved
   after C07 — dominators (simple_fast), articulation_points, tarjan_scc (exact), astar,
   spfa, find_negative_cycle, Prim.  Each result is the algorithm's exactness theorem applied
   to both views, joined by a correspondence lemma for the specification it is stated in. *)
From Coq Require Import Permutation Lia ZArith NArith List.
From PG Require Import Lib.Io Model.View Model.Traversal Model.AlgoBasic Model.ShortestM Model.MstM
                       Model.CutM Model.MatchM
                       Spec.Reach Spec.Paths Spec.AlgoSpec Spec.Partition Spec.Forest Spec.ViewIso
                       Spec.DomSpec Spec.CutSpec
                       Proofs.AlgoUfP Proofs.AlgoAll Proofs.DijkstraP Proofs.KspP Proofs.BellmanFordP Proofs.MstP
                       Proofs.IsoP Proofs.InvarianceP
                       Proofs.DomSpecP Proofs.DomAccP Proofs.DomFinalP Proofs.ArtGraphP Proofs.ArtP
                       Proofs.TarjanExactP Proofs.AstarP Proofs.SpfaP Proofs.FncP
                       Proofs.ForestP Proofs.PrimP Proofs.PrimMinP Props.C11b.
Set Implicit Arguments.
Unset Strict Implicit.
Local Open Scope nat_scope.   (* Spec.Paths opens Z_scope *)

(* ------------------------------------------------------------------ *)
(* Small facts                                                         *)

Lemma assoc_nat_some_key {A} (m : list (nat * A)) x d : assoc_nat m x = Some d -> In x (map fst m).
Proof.
  induction m as [|[k a] t IH]; cbn [assoc_nat map fst]; [discriminate|].
  destruct (Nat.eqb_spec k x) as [->|Hn]; intros E; [left; reflexivity|right; apply IH; exact E].
Qed.

Lemma assoc_nat_key_some {A} (m : list (nat * A)) x : In x (map fst m) -> exists d, assoc_nat m x = Some d.
Proof.
  induction m as [|[k a] t IH]; cbn [assoc_nat map fst]; [intros []|].
  destruct (Nat.eqb_spec k x) as [->|Hn]; intros Hin; [exists a; reflexivity|].
  destruct Hin as [E|Hin]; [contradiction|apply IH; exact Hin].
Qed.

Lemma assoc_nat_none_key {A} (m : list (nat * A)) x : assoc_nat m x = None <-> ~ In x (map fst m).
Proof.
  split.
  - intros E Hin. destruct (assoc_nat_key_some Hin) as [d Hd]. congruence.
  - intros Hn. destruct (assoc_nat m x) as [d|] eqn:E; [|reflexivity].
    exfalso. apply Hn. apply (assoc_nat_some_key E).
Qed.

(* the inverse correspondence sends an image back *)
Lemma iso_sym_back p v1 v2 a : view_iso p v1 v2 -> In a (vnodes v1) ->
  inv_on p (vnodes v1) (p a) = a.
Proof. intros H Ha. apply (iso_inv_left H Ha). Qed.

(* ------------------------------------------------------------------ *)
(* J7a: walks along out-edges through a list of nodes, dominance        *)

Lemma dpath_iso_fwd p v1 v2 l : forall a b, view_iso p v1 v2 ->
  dpath v1 a l b -> dpath v2 (p a) (map p l) (p b).
Proof.
  unfold dpath. induction l as [|x t IH]; intros a b H W; cbn [gwalk map] in *.
  - f_equal. exact W.
  - destruct W as [S W]. split; [apply (step_iso_fwd H S)|apply IH; assumption].
Qed.

Lemma dpath_nodes v l : forall a b, closed_view v -> dpath v a l b ->
  forall x, In x l -> In x (vnodes v).
Proof.
  unfold dpath. induction l as [|y t IH]; intros a b C W x Hx; [destruct Hx|].
  cbn [gwalk] in W. destruct W as [S W]. destruct Hx as [<-|Hx].
  - apply (closed_step C S).
  - apply (IH y b C W x Hx).
Qed.

Lemma dpath_iso_bwd p v1 v2 l' : forall a y, view_iso p v1 v2 -> In a (vnodes v1) ->
  dpath v2 (p a) l' y ->
  exists l b, l' = map p l /\ y = p b /\ In b (vnodes v1) /\ dpath v1 a l b /\
              (forall x, In x l -> In x (vnodes v1)).
Proof.
  unfold dpath. induction l' as [|x t IH]; intros a y H Ha W; cbn [gwalk] in W.
  - exists [], a. subst y. repeat split; [exact Ha|intros x []].
  - destruct W as [S W].
    pose proof (proj2 (closed_step (iso_closed2 H) S)) as Hx.
    apply (iso_nodes H) in Hx. destruct Hx as [k [Hk ->]].
    destruct (IH k y H Hk W) as [l [b [E1 [E2 [Hb [Wl Hl]]]]]].
    exists (k :: l), b. split; [cbn [map]; rewrite E1; reflexivity|]. split; [exact E2|].
    split; [exact Hb|]. split.
    + cbn [gwalk]. split; [apply (step_iso_bwd H Ha Hk S)|exact Wl].
    + intros z [<-|Hz]; [exact Hk|apply Hl; exact Hz].
Qed.

(* whatever dominates a node lies on a walk from the root: it is a node *)
Lemma dominates_node v r a b : closed_view v -> In r (vnodes v) -> dominates v r a b -> In a (vnodes v).
Proof.
  intros C Hr [R D]. apply reachable_greach in R. destruct R as [l W].
  destruct (D l W) as [<-|Hin]; [exact Hr|]. apply (dpath_nodes C W Hin).
Qed.

Lemma dominates_iso_fwd p v1 v2 r a b : view_iso p v1 v2 -> In r (vnodes v1) -> In b (vnodes v1) ->
  dominates v1 r a b -> dominates v2 (p r) (p a) (p b).
Proof.
  intros H Hr Hb [R D]. split; [apply (reachable_iso_fwd H R)|].
  intros l' W. destruct (dpath_iso_bwd H Hr W) as [l [b0 [-> [E [Hb0 [Wl _]]]]]].
  apply (iso_inj H) in E; [|exact Hb|exact Hb0]. subst b0.
  change (p r :: map p l) with (map p (r :: l)). apply in_map. apply D; exact Wl.
Qed.

Lemma dominates_iso p v1 v2 r a b : view_iso p v1 v2 ->
  In r (vnodes v1) -> In a (vnodes v1) -> In b (vnodes v1) ->
  (dominates v1 r a b <-> dominates v2 (p r) (p a) (p b)).
Proof.
  intros H Hr Ha Hb. split; [apply (dominates_iso_fwd H Hr Hb)|].
  intros D. pose proof (dominates_iso_fwd (view_iso_sym H) (iso_img H Hr) (iso_img H Hb) D) as D'.
  rewrite !(iso_sym_back H) in D' by assumption. exact D'.
Qed.

Lemma idom_iso_fwd p v1 v2 r a b : view_iso p v1 v2 -> In r (vnodes v1) -> In b (vnodes v1) ->
  idom v1 r a b -> idom v2 (p r) (p a) (p b).
Proof.
  intros H Hr Hb [[D Hne] Hc].
  pose proof (dominates_node (iso_closed1 H) Hr D) as Ha.
  split; [split|].
  - apply (dominates_iso_fwd H Hr Hb D).
  - intros E. apply Hne. apply (iso_inj H); assumption.
  - intros c' [Dc Hcn].
    pose proof (dominates_node (iso_closed2 H) (iso_img H Hr) Dc) as Hc'.
    apply (iso_nodes H) in Hc'. destruct Hc' as [c [Hcn1 ->]].
    apply (dominates_iso_fwd H Hr Ha). apply Hc. split.
    + apply (dominates_iso H Hr Hcn1 Hb). exact Dc.
    + intros ->. apply Hcn; reflexivity.
Qed.

Theorem idom_iso p v1 v2 r a b : view_iso p v1 v2 ->
  In r (vnodes v1) -> In a (vnodes v1) -> In b (vnodes v1) ->
  (idom v1 r a b <-> idom v2 (p r) (p a) (p b)).
Proof.
  intros H Hr Ha Hb. split; [apply (idom_iso_fwd H Hr Hb)|].
  intros D. pose proof (idom_iso_fwd (view_iso_sym H) (iso_img H Hr) (iso_img H Hb) D) as D'.
  rewrite !(iso_sym_back H) in D' by assumption. exact D'.
Qed.

(* an entry of the map simple_fast returns, characterised *)
Lemma sf_assoc_char v root debug m : Reach.VOk v -> Reach.in_cap v root ->
  simple_fast v root debug = Ok m ->
  forall x d, assoc_nat m x = Some d <-> ((x = root /\ d = root) \/ (x <> root /\ idom v root d x)).
Proof.
  intros Hv Hc E x d.
  destruct (simple_fast_entries v root Hv Hc debug m E) as [_ [K R]].
  split.
  - intros A. destruct (Nat.eq_dec x root) as [->|Hn].
    + left. split; [reflexivity|]. congruence.
    + right. split; [exact Hn|]. apply (simple_fast_idom v root Hv Hc debug m E x d Hn A).
  - intros [[-> ->]|[Hn I]]; [exact R|].
    assert (Hr : Reach.reachable v root x) by apply I.
    apply K in Hr. destruct (assoc_nat_key_some Hr) as [d' A].
    pose proof (simple_fast_idom v root Hv Hc debug m E x d' Hn A) as I'.
    rewrite (idom_unique v root d d' x I I'). exact A.
Qed.

Theorem simple_fast_iso p v1 v2 root dbg1 dbg2 : view_iso p v1 v2 -> Reach.VOk v1 -> Reach.VOk v2 ->
  In root (vnodes v1) ->
  exists m1 m2, simple_fast v1 root dbg1 = Ok m1 /\ simple_fast v2 (p root) dbg2 = Ok m2 /\
    (forall x d, In x (vnodes v1) -> In d (vnodes v1) ->
       (assoc_nat m1 x = Some d <-> assoc_nat m2 (p x) = Some (p d))) /\
    (forall x, In x (vnodes v1) -> (assoc_nat m1 x = None <-> assoc_nat m2 (p x) = None)) /\
    (forall x d, assoc_nat m1 x = Some d -> In x (vnodes v1) /\ In d (vnodes v1)) /\
    (forall y d', assoc_nat m2 y = Some d' ->
       exists x d, In x (vnodes v1) /\ In d (vnodes v1) /\ y = p x /\ d' = p d) /\
    length m1 = length m2.
Proof.
  intros H V1 V2 Hr.
  pose proof (VOk_in_cap V1 Hr) as C1. pose proof (VOk_in_cap V2 (iso_img H Hr)) as C2.
  destruct (simple_fast_total v1 root V1 C1 dbg1) as [m1 [E1 [N1 [K1 R1]]]].
  destruct (simple_fast_total v2 (p root) V2 C2 dbg2) as [m2 [E2 [N2 [K2 R2]]]].
  pose proof (sf_assoc_char V1 C1 E1) as X1. pose proof (sf_assoc_char V2 C2 E2) as X2.
  assert (Ent1 : forall x d, assoc_nat m1 x = Some d -> In x (vnodes v1) /\ In d (vnodes v1)).
  { intros x d A. split.
    - apply (closed_reachable (iso_closed1 H) Hr). apply K1. apply (assoc_nat_some_key A).
    - apply X1 in A. destruct A as [[_ ->]|[_ [[D _] _]]]; [exact Hr|].
      apply (dominates_node (iso_closed1 H) Hr D). }
  assert (Ent2 : forall y d', assoc_nat m2 y = Some d' -> In y (vnodes v2) /\ In d' (vnodes v2)).
  { intros x d A. split.
    - apply (closed_reachable (iso_closed2 H) (iso_img H Hr)). apply K2. apply (assoc_nat_some_key A).
    - apply X2 in A. destruct A as [[_ ->]|[_ [[D _] _]]]; [exact (iso_img H Hr)|].
      apply (dominates_node (iso_closed2 H) (iso_img H Hr) D). }
  exists m1, m2. split; [exact E1|]. split; [exact E2|].
  split; [|split; [|split; [exact Ent1|split]]].
  - intros x d Hx Hd. rewrite X1, X2. split.
    + intros [[-> ->]|[Hn I]]; [left; split; reflexivity|right]. split.
      * intros E. apply Hn. apply (iso_inj H); assumption.
      * apply (idom_iso H Hr Hd Hx). exact I.
    + intros [[Ex Ed]|[Hn I]].
      * left. split; apply (iso_inj H); assumption.
      * right. split; [intros ->; apply Hn; reflexivity|]. apply (idom_iso H Hr Hd Hx). exact I.
  - intros x Hx. rewrite !assoc_nat_none_key, K1, K2.
    pose proof (reachable_iso H Hr Hx) as RI. tauto.
  - intros y d' A. destruct (Ent2 y d' A) as [Hy Hd'].
    apply (iso_nodes H) in Hy. apply (iso_nodes H) in Hd'.
    destruct Hy as [x [Hx ->]]. destruct Hd' as [d [Hd ->]].
    exists x, d. repeat split; assumption.
  - rewrite <- (map_length fst m1), <- (map_length fst m2).
    apply (@same_image_length p (map fst m1) (map fst m2) (vnodes v1) (iso_inj H)); try assumption.
    + intros x Hx. apply (closed_reachable (iso_closed1 H) Hr). apply K1. exact Hx.
    + intros y. rewrite K2, in_map_iff. split.
      * intros Ry. pose proof (closed_reachable (iso_closed2 H) (iso_img H Hr) Ry) as Hy.
        apply (iso_nodes H) in Hy. destruct Hy as [x [Hx ->]].
        exists x. split; [reflexivity|]. apply K1. apply (reachable_iso H Hr Hx). exact Ry.
      * intros [x [<- Hx]]. apply K1 in Hx. apply (reachable_iso_fwd H Hx).
Qed.

(* the accessor immediate_dominator *)
Theorem immediate_dominator_iso p v1 v2 root dbg1 dbg2 m1 m2 : view_iso p v1 v2 ->
  Reach.VOk v1 -> Reach.VOk v2 -> In root (vnodes v1) ->
  simple_fast v1 root dbg1 = Ok m1 -> simple_fast v2 (p root) dbg2 = Ok m2 ->
  forall x d, In x (vnodes v1) -> In d (vnodes v1) ->
    (immediate_dominator root m1 x = Some d <-> immediate_dominator (p root) m2 (p x) = Some (p d)).
Proof.
  intros H V1 V2 Hr E1 E2 x d Hx Hd.
  rewrite (sf_immediate_dominator v1 root dbg1 m1 V1 (VOk_in_cap V1 Hr) E1).
  rewrite (sf_immediate_dominator v2 (p root) dbg2 m2 V2 (VOk_in_cap V2 (iso_img H Hr)) E2).
  apply (idom_iso H Hr Hd Hx).
Qed.

(* ------------------------------------------------------------------ *)
(* J7b: cut nodes, articulation_points                                  *)

Lemma reach_in_iso_fwd (P1 P2 : nat -> Prop) p v1 v2 a b : view_iso p v1 v2 -> In a (vnodes v1) ->
  (forall x, In x (vnodes v1) -> P1 x -> P2 (p x)) ->
  reach_in P1 v1 a b -> reach_in P2 v2 (p a) (p b).
Proof.
  intros H Ha HP R. induction R as [Pa|x y Rx IH S Py].
  - apply ri_refl. apply HP; assumption.
  - eapply ri_step; [exact IH|apply (step_iso_fwd H S)|].
    apply HP; [|exact Py]. apply (closed_step (iso_closed1 H) S).
Qed.

Lemma reachable_from_nonnode v a b : closed_view v -> ~ In a (vnodes v) -> Reach.reachable v a b -> b = a.
Proof.
  intros C Hout R. induction R as [|x y Rx IH S]; [reflexivity|].
  subst x. exfalso. apply Hout. apply (closed_step C S).
Qed.

Lemma cut_node_iso_fwd p v1 v2 c : view_iso p v1 v2 -> cut_node v1 c -> cut_node v2 (p c).
Proof.
  intros H [Hc [a [b [Hac [Hbc [R NW]]]]]].
  assert (Ha : In a (vnodes v1)).
  { destruct (in_dec Nat.eq_dec a (vnodes v1)) as [Hin|Hout]; [exact Hin|]. exfalso.
    apply NW. rewrite (reachable_from_nonnode (iso_closed1 H) Hout R).
    apply ri_refl. exact Hac. }
  pose proof (closed_reachable (iso_closed1 H) Ha R) as Hb.
  split; [apply (iso_img H Hc)|]. exists (p a), (p b).
  split; [intros E; apply Hac; apply (iso_inj H); assumption|].
  split; [intros E; apply Hbc; apply (iso_inj H); assumption|].
  split; [apply (reachable_iso_fwd H R)|].
  intros W. apply NW. unfold connected_without in *.
  pose proof (@reach_in_iso_fwd (fun y => y <> p c) (fun y => y <> c) _ _ _ (p a) (p b)
                (view_iso_sym H) (iso_img H Ha)) as T.
  rewrite !(iso_sym_back H) in T by assumption. apply T; [|exact W].
  intros y Hy Hne E. apply Hne. rewrite <- E. symmetry. apply (iso_inv_right H Hy).
Qed.

Theorem cut_node_iso p v1 v2 c : view_iso p v1 v2 -> In c (vnodes v1) ->
  (cut_node v1 c <-> cut_node v2 (p c)).
Proof.
  intros H Hc. split; [apply (cut_node_iso_fwd H)|].
  intros K. pose proof (cut_node_iso_fwd (view_iso_sym H) K) as K'.
  rewrite (iso_sym_back H Hc) in K'. exact K'.
Qed.

Theorem articulation_points_iso p v1 v2 : view_iso p v1 v2 -> Reach.VOk v1 -> Reach.VOk v2 ->
  CutSpec.symmetric v1 -> CutSpec.symmetric v2 ->
  (forall n, In n (vnodes v1) -> n < vbound v1) -> (forall n, In n (vnodes v2) -> n < vbound v2) ->
  exists l1 l2, articulation_points v1 = Ok l1 /\ articulation_points v2 = Ok l2 /\
    NoDup l1 /\ NoDup l2 /\
    (forall c, In c (vnodes v1) -> (In c l1 <-> In (p c) l2)) /\
    (forall c, In c l1 -> In c (vnodes v1)) /\
    (forall y, In y l2 <-> In y (map p l1)) /\
    length l1 = length l2.
Proof.
  intros H V1 V2 S1 S2 B1 B2.
  destruct (articulation_points_ok v1 V1 S1 B1) as [l1 [E1 [N1 X1]]].
  destruct (articulation_points_ok v2 V2 S2 B2) as [l2 [E2 [N2 X2]]].
  exists l1, l2. split; [exact E1|]. split; [exact E2|]. split; [exact N1|]. split; [exact N2|].
  assert (A : forall c, In c (vnodes v1) -> (In c l1 <-> In (p c) l2)).
  { intros c Hc. rewrite X1, X2. apply (cut_node_iso H Hc). }
  assert (I1 : forall c, In c l1 -> In c (vnodes v1)) by (intros c Hc; apply X1 in Hc; apply Hc).
  assert (Hset : forall y, In y l2 <-> In y (map p l1)).
  { intros y. rewrite in_map_iff. split.
    - intros Hy. pose proof Hy as Hy'. apply X2 in Hy'. destruct Hy' as [Hn _].
      apply (iso_nodes H) in Hn. destruct Hn as [c [Hc ->]].
      exists c. split; [reflexivity|]. apply (A c Hc). exact Hy.
    - intros [c [<- Hc]]. apply (A c (I1 c Hc)). exact Hc. }
  split; [exact A|]. split; [exact I1|]. split; [exact Hset|].
  apply (@same_image_length p l1 l2 (vnodes v1) (iso_inj H)); assumption.
Qed.

(* ------------------------------------------------------------------ *)
(* J1: tarjan_scc is exact, so its components correspond                *)


Theorem tarjan_exact_iso p v1 v2 dbg1 dbg2 : view_iso p v1 v2 -> Reach.VOk v1 -> Reach.VOk v2 ->
  (forall n, In n (vnodes v1) -> n < vbound v1) -> (forall n, In n (vnodes v2) -> n < vbound v2) ->
  (N.of_nat (length (vnodes v1)) < USIZE_MAX)%N -> (N.of_nat (length (vnodes v2)) < USIZE_MAX)%N ->
  exists ls1 ls2, tarjan_scc v1 dbg1 = Ok ls1 /\ tarjan_scc v2 dbg2 = Ok ls2 /\
    classes_correspond p ls1 ls2 /\
    Forall (scc_class v1) ls1 /\ Forall (scc_class v2) ls2 /\
    no_later_reach v1 ls1 /\ no_later_reach v2 ls2.
Proof.
  intros H V1 V2 B1 B2 U1 U2.
  destruct (tarjan_all v1 dbg1 V1 B1 U1) as [ls1 [E1 [N1 [S1 [_ [_ [K1 O1]]]]]]].
  destruct (tarjan_all v2 dbg2 V2 B2 U2) as [ls2 [E2 [N2 [S2 [_ [_ [K2 O2]]]]]]].
  exists ls1, ls2. split; [exact E1|]. split; [exact E2|].
  split; [apply (scc_lists_correspond H N1 S1 K1 N2 S2 K2)|].
  repeat split; assumption.
Qed.

(* tarjan_scc and kosaraju_scc of two corresponding views, crosswise *)
Theorem tarjan_kosaraju_iso p v1 v2 dbg1 : view_iso p v1 v2 -> Reach.VOk v1 -> Reach.VOk v2 ->
  (forall n, In n (vnodes v1) -> n < vbound v1) ->
  (N.of_nat (length (vnodes v1)) < USIZE_MAX)%N ->
  exists ls1 ls2, tarjan_scc v1 dbg1 = Ok ls1 /\ kosaraju_scc v2 = Ok ls2 /\
    classes_correspond p ls1 ls2.
Proof.
  intros H V1 V2 B1 U1.
  destruct (tarjan_all v1 dbg1 V1 B1 U1) as [ls1 [E1 [N1 [S1 [_ [_ [K1 _]]]]]]].
  destruct (kosaraju_all v2 V2) as [ls2 [E2 [N2 [S2 [_ [K2 _]]]]]].
  exists ls1, ls2. split; [exact E1|]. split; [exact E2|].
  apply (scc_lists_correspond H N1 S1 K1 N2 S2 K2).
Qed.

Lemma nodup_concat_same_index (l : list (list nat)) : NoDup (concat l) ->
  forall i j c c' z, nth_error l i = Some c -> nth_error l j = Some c' -> In z c -> In z c' -> i = j.
Proof.
  induction l as [|h t IH]; intros Hnd i j c c' z Ei Ej Hz Hz'; [destruct i; discriminate Ei|].
  cbn [concat] in Hnd.
  destruct i as [|i], j as [|j]; cbn [nth_error] in Ei, Ej.
  - reflexivity.
  - injection Ei as <-. exfalso. apply (InvarianceP.NoDup_app_disj Hnd Hz).
    apply in_concat. exists c'. split; [apply (nth_error_In _ _ Ej)|exact Hz'].
  - injection Ej as <-. exfalso. apply (InvarianceP.NoDup_app_disj Hnd Hz').
    apply in_concat. exists c. split; [apply (nth_error_In _ _ Ei)|exact Hz].
  - f_equal. apply (IH (InvarianceP.NoDup_app_tail Hnd) i j c c' z); assumption.
Qed.

(* after a run, two nodes have the same component index exactly when they are mutually reachable *)
Lemma tarjan_index_mutual v debug t out : Reach.VOk v ->
  (forall n, In n (vnodes v) -> n < vbound v) -> (N.of_nat (length (vnodes v)) < USIZE_MAX)%N ->
  tarjan_run v debug = Ok (t, out) ->
  forall x y, In x (vnodes v) -> In y (vnodes v) ->
    (node_component_index t debug x = node_component_index t debug y <-> mutual v x y).
Proof.
  intros Hv Hb Hs E x y Hx Hy.
  destruct (tarjan_exact v debug Hv Hb Hs) as [t' [out' [E' [Hnd [Hin [_ [Hcl [_ Hidx]]]]]]]].
  rewrite E in E'. injection E' as <- <-.
  assert (Loc : forall z, In z (vnodes v) -> exists i c, nth_error out i = Some c /\ In z c).
  { intros z Hz. apply Hin in Hz. apply in_concat in Hz. destruct Hz as [c [Hc Hz]].
    destruct (In_nth_error _ _ Hc) as [i Ei]. exists i, c. split; assumption. }
  destruct (Loc x Hx) as [i [c [Ei Hxc]]]. destruct (Loc y Hy) as [j [c' [Ej Hyc]]].
  rewrite (Hidx i c x Ei Hxc), (Hidx j c' y Ej Hyc).
  rewrite Forall_forall in Hcl.
  destruct (Hcl c (nth_error_In _ _ Ei)) as [r [_ Hr]].
  split.
  - intros Eq. injection Eq as Eq. apply Nat2N.inj in Eq. subst j.
    rewrite Ei in Ej. injection Ej as <-.
    apply Hr in Hxc. apply Hr in Hyc.
    apply (mutual_trans (mutual_sym Hxc) Hyc).
  - intros M. assert (Hyc2 : In y c) by (apply Hr; apply (mutual_trans (proj1 (Hr x) Hxc) M)).
    rewrite (nodup_concat_same_index Hnd Ei Ej Hyc2 Hyc). reflexivity.
Qed.

Theorem tarjan_index_iso p v1 v2 dbg1 dbg2 t1 out1 t2 out2 : view_iso p v1 v2 ->
  Reach.VOk v1 -> Reach.VOk v2 ->
  (forall n, In n (vnodes v1) -> n < vbound v1) -> (forall n, In n (vnodes v2) -> n < vbound v2) ->
  (N.of_nat (length (vnodes v1)) < USIZE_MAX)%N -> (N.of_nat (length (vnodes v2)) < USIZE_MAX)%N ->
  tarjan_run v1 dbg1 = Ok (t1, out1) -> tarjan_run v2 dbg2 = Ok (t2, out2) ->
  forall x y, In x (vnodes v1) -> In y (vnodes v1) ->
    (node_component_index t1 dbg1 x = node_component_index t1 dbg1 y <->
     node_component_index t2 dbg2 (p x) = node_component_index t2 dbg2 (p y)).
Proof.
  intros H V1 V2 B1 B2 U1 U2 E1 E2 x y Hx Hy.
  rewrite (tarjan_index_mutual V1 B1 U1 E1 Hx Hy).
  rewrite (tarjan_index_mutual V2 B2 U2 E2 (iso_img H Hx) (iso_img H Hy)).
  apply (mutual_iso H Hx Hy).
Qed.

(* ------------------------------------------------------------------ *)
(* J2: astar with admissible heuristics                                 *)


Lemma goal_dist_iso_fwd p v1 v2 (g1 g2 : nat -> bool) s c : view_iso p v1 v2 -> In s (vnodes v1) ->
  (forall x, In x (vnodes v1) -> g1 x = g2 (p x)) ->
  goal_dist v1 g1 s c -> goal_dist v2 g2 (p s) c.
Proof.
  intros H Hs G [[t [w [Gt [W C]]]] L].
  pose proof (closed_walk (iso_closed1 H) Hs W) as Ht. split.
  - destruct (walk_iso_fwd H W) as [w' [W' [C' _]]].
    exists (p t), w'. split; [rewrite <- (G t Ht); exact Gt|]. split; [exact W'|].
    rewrite C'. exact C.
  - intros t' w' Gt' W'.
    pose proof (closed_walk (iso_closed2 H) (iso_img H Hs) W') as Ht'.
    apply (iso_nodes H) in Ht'. destruct Ht' as [t0 [Ht0 ->]].
    destruct (walk_iso_bwd H Hs Ht0 W') as [w0 [W0 [C0 _]]].
    rewrite <- C0. apply (L t0 w0); [rewrite (G t0 Ht0); exact Gt'|exact W0].
Qed.

Lemma goals_sym p v1 v2 (g1 g2 : nat -> bool) : view_iso p v1 v2 ->
  (forall x, In x (vnodes v1) -> g1 x = g2 (p x)) ->
  forall y, In y (vnodes v2) -> g2 y = g1 (inv_on p (vnodes v1) y).
Proof.
  intros H G y Hy. destruct (iso_inv_right H Hy) as [Hi Ei].
  rewrite (G _ Hi), Ei. reflexivity.
Qed.

Theorem goal_dist_iso p v1 v2 (g1 g2 : nat -> bool) s c : view_iso p v1 v2 -> In s (vnodes v1) ->
  (forall x, In x (vnodes v1) -> g1 x = g2 (p x)) ->
  (goal_dist v1 g1 s c <-> goal_dist v2 g2 (p s) c).
Proof.
  intros H Hs G. split; [apply (goal_dist_iso_fwd H Hs G)|].
  intros D. pose proof (goal_dist_iso_fwd (view_iso_sym H) (iso_img H Hs) (goals_sym H G) D) as D'.
  rewrite (iso_sym_back H Hs) in D'. exact D'.
Qed.

Lemma goal_reachable_iso_fwd p v1 v2 (g1 g2 : nat -> bool) s : view_iso p v1 v2 -> In s (vnodes v1) ->
  (forall x, In x (vnodes v1) -> g1 x = g2 (p x)) ->
  goal_reachable v1 g1 s -> goal_reachable v2 g2 (p s).
Proof.
  intros H Hs G [t [Gt [w W]]].
  pose proof (closed_walk (iso_closed1 H) Hs W) as Ht.
  destruct (walk_iso_fwd H W) as [w' [W' _]].
  exists (p t). split; [rewrite <- (G t Ht); exact Gt|exists w'; exact W'].
Qed.

Theorem goal_reachable_iso p v1 v2 (g1 g2 : nat -> bool) s : view_iso p v1 v2 -> In s (vnodes v1) ->
  (forall x, In x (vnodes v1) -> g1 x = g2 (p x)) ->
  (goal_reachable v1 g1 s <-> goal_reachable v2 g2 (p s)).
Proof.
  intros H Hs G. split; [apply (goal_reachable_iso_fwd H Hs G)|].
  intros D. pose proof (goal_reachable_iso_fwd (view_iso_sym H) (iso_img H Hs) (goals_sym H G) D) as D'.
  rewrite (iso_sym_back H Hs) in D'. exact D'.
Qed.

(* the two runs (any fuels, any two admissible heuristics) that return, return None together or
   Some together, and then the same cost: the distance to the nearest goal.  The node lists
   may differ; each is the node sequence of a walk of that cost in its own view. *)
Theorem astar_run_iso p v1 v2 s (g1 g2 : nat -> bool) est1 est2 f1 f2 r1 r2 :
  view_iso p v1 v2 -> Paths.VOk v1 -> Paths.VOk v2 -> nonneg v1 ->
  In s (vnodes v1) -> Paths.in_cap v1 s -> Paths.in_cap v2 (p s) ->
  (forall x, In x (vnodes v1) -> g1 x = g2 (p x)) ->
  (forall x, g1 x = true -> (0 <= est1 x)%Z) -> (forall y, g2 y = true -> (0 <= est2 y)%Z) ->
  admissible v1 g1 est1 -> admissible v2 g2 est2 ->
  astar_run f1 v1 s g1 est1 = Ok r1 -> astar_run f2 v2 (p s) g2 est2 = Ok r2 ->
  (r1 = None <-> r2 = None) /\
  (forall c1 q1 c2 q2, r1 = Some (c1, q1) -> r2 = Some (c2, q2) ->
     c1 = c2 /\ goal_dist v1 g1 s c1 /\ goal_dist v2 g2 (p s) c2 /\
     (exists t w, g1 t = true /\ walk v1 s w t /\ walk_nodes s w = q1 /\ walk_cost w = c1) /\
     (exists t w, g2 t = true /\ walk v2 (p s) w t /\ walk_nodes (p s) w = q2 /\ walk_cost w = c2)).
Proof.
  intros H V1 V2 N1 Hs C1 C2 G P1 P2 A1 A2 E1 E2.
  pose proof (proj1 (nonneg_iso H) N1) as N2.
  destruct (astar_run_admissible V1 N1 C1 P1 A1 E1) as [X1 Y1].
  destruct (astar_run_admissible V2 N2 C2 P2 A2 E2) as [X2 Y2].
  pose proof (goal_reachable_iso H Hs G) as GR.
  split; [rewrite X1, X2; tauto|].
  intros c1 q1 c2 q2 -> ->.
  destruct (Y1 c1 q1 eq_refl) as [D1 W1]. destruct (Y2 c2 q2 eq_refl) as [D2 W2].
  split; [|split; [exact D1|split; [exact D2|split; [exact W1|exact W2]]]].
  apply (goal_dist_unique (proj1 (goal_dist_iso c1 H Hs G) D1) D2).
Qed.

(* with enough fuel both runs return *)
Theorem astar_run_iso_total p v1 v2 s (g1 g2 : nat -> bool) est1 est2 f1 f2 :
  view_iso p v1 v2 -> Paths.VOk v1 -> Paths.VOk v2 -> nonneg v1 ->
  In s (vnodes v1) -> Paths.in_cap v1 s -> Paths.in_cap v2 (p s) ->
  (forall x, In x (vnodes v1) -> g1 x = g2 (p x)) ->
  (forall x, g1 x = true -> (0 <= est1 x)%Z) -> (forall y, g2 y = true -> (0 <= est2 y)%Z) ->
  admissible v1 g1 est1 -> admissible v2 g2 est2 ->
  astar_fuel_bound v1 s <= f1 -> astar_fuel_bound v2 (p s) <= f2 ->
  exists r1 r2, astar_run f1 v1 s g1 est1 = Ok r1 /\ astar_run f2 v2 (p s) g2 est2 = Ok r2 /\
    (r1 = None <-> r2 = None) /\
    (forall c1 q1 c2 q2, r1 = Some (c1, q1) -> r2 = Some (c2, q2) -> c1 = c2).
Proof.
  intros H V1 V2 N1 Hs C1 C2 G P1 P2 A1 A2 F1 F2.
  pose proof (proj1 (nonneg_iso H) N1) as N2.
  destruct (astar_run_total g1 est1 V1 N1 F1) as [r1 [E1 _]].
  destruct (astar_run_total g2 est2 V2 N2 F2) as [r2 [E2 _]].
  exists r1, r2. split; [exact E1|]. split; [exact E2|].
  destruct (astar_run_iso H V1 V2 N1 Hs C1 C2 G P1 P2 A1 A2 E1 E2) as [X Y].
  split; [exact X|]. intros c1 q1 c2 q2 R1 R2. apply (Y c1 q1 c2 q2 R1 R2).
Qed.

(* the model's astar (constant fuel), when both runs return *)
Theorem astar_iso_partial p v1 v2 s (g1 g2 : nat -> bool) est1 est2 r1 r2 :
  view_iso p v1 v2 -> Paths.VOk v1 -> Paths.VOk v2 -> nonneg v1 ->
  In s (vnodes v1) -> Paths.in_cap v1 s -> Paths.in_cap v2 (p s) ->
  (forall x, In x (vnodes v1) -> g1 x = g2 (p x)) ->
  (forall x, g1 x = true -> (0 <= est1 x)%Z) -> (forall y, g2 y = true -> (0 <= est2 y)%Z) ->
  admissible v1 g1 est1 -> admissible v2 g2 est2 ->
  astar v1 s g1 est1 = Ok r1 -> astar v2 (p s) g2 est2 = Ok r2 ->
  (r1 = None <-> r2 = None) /\
  (forall c1 q1 c2 q2, r1 = Some (c1, q1) -> r2 = Some (c2, q2) -> c1 = c2).
Proof.
  intros H V1 V2 N1 Hs C1 C2 G P1 P2 A1 A2 E1 E2. rewrite astar_eq in E1, E2.
  destruct (astar_run_iso H V1 V2 N1 Hs C1 C2 G P1 P2 A1 A2 E1 E2) as [X Y].
  split; [exact X|]. intros c1 q1 c2 q2 R1 R2. apply (Y c1 q1 c2 q2 R1 R2).
Qed.

(* ------------------------------------------------------------------ *)
(* J4a: spfa, find_negative_cycle                                       *)

(* spfa, under the side conditions of C11b_spfa for both views (the same min() and max()):
   Err(NegativeCycle) on both or on neither, and then the same entry at corresponding nodes
   (the distance, or max() at the unreachable ones) *)
Theorem spfa_iso p v1 v2 s kmin kmax Dg1 Dg2 : view_iso p v1 v2 -> BOk v1 -> BOk v2 -> In s (vnodes v1) ->
  (forall a, length (out_edges v1 a) <= Dg1) -> (forall a, length (out_edges v2 a) <= Dg2) ->
  (forall w x, walk v1 s w x -> length w <= vbound v1 * vbound v1 * Dg1 -> (kmin <= walk_cost w)%Z) ->
  (forall w x, walk v2 (p s) w x -> length w <= vbound v2 * vbound v2 * Dg2 -> (kmin <= walk_cost w)%Z) ->
  (forall w x, walk v1 s w x -> NoDup (s :: map tgt w) -> (walk_cost w < kmax)%Z) ->
  (forall w x, walk v2 (p s) w x -> NoDup (p s :: map tgt w) -> (walk_cost w < kmax)%Z) ->
  exists r1 r2, spfa kmin kmax v1 s = Ok r1 /\ spfa kmin kmax v2 (p s) = Ok r2 /\
    (r1 = None <-> r2 = None) /\
    forall d1 q1 d2 q2, r1 = Some (d1, q1) -> r2 = Some (d2, q2) ->
      forall x, In x (vnodes v1) -> nth x d1 kmax = nth (p x) d2 kmax.
Proof.
  intros H B1 B2 Hs D1 D2 L1 L2 U1 U2.
  pose proof (bok_bound B1 _ Hs) as Ls1. pose proof (bok_bound B2 _ (iso_img H Hs)) as Ls2.
  destruct (C11b_spfa kmin kmax v1 s Dg1 B1 Ls1 D1 L1 U1) as [r1 [E1 S1]].
  destruct (C11b_spfa kmin kmax v2 (p s) Dg2 B2 Ls2 D2 L2 U2) as [r2 [E2 S2]].
  exists r1, r2. split; [exact E1|]. split; [exact E2|].
  pose proof (neg_cycle_iso H Hs) as NC.
  split.
  - destruct r1 as [[d1 q1]|], r2 as [[d2 q2]|]; split; intros E; try reflexivity; try discriminate E; exfalso.
    + destruct S1 as [Hn _]. apply Hn, NC, S2.
    + destruct S2 as [Hn _]. apply Hn, NC, S1.
  - intros d1 q1 d2 q2 -> -> x Hx.
    destruct S1 as [_ [_ [_ [R1 [NR1 _]]]]]. destruct S2 as [_ [_ [_ [R2 [NR2 _]]]]].
    pose proof (preachable_iso H Hs Hx) as PR.
    destruct (Z.eq_dec (nth x d1 kmax) (nth (p x) d2 kmax)) as [Eq|Ne]; [exact Eq|exfalso].
    assert (NN : ~ ~ Paths.reachable v1 s x).
    { intros NR. apply Ne. rewrite (proj1 (NR1 x NR)).
      symmetry. apply NR2. intros R. apply NR, PR, R. }
    apply NN. intros R. apply Ne.
    destruct (R1 x R) as [I1 _]. destruct (R2 (p x) (proj1 PR R)) as [I2 _].
    apply (is_dist_unique (proj1 (is_dist_iso _ H Hs Hx) I1) I2).
Qed.

(* find_negative_cycle: None on both or Some on both; each cycle is a negative closed walk of
   its own view (the two node lists need not correspond) *)
Theorem find_negative_cycle_iso p v1 v2 s : view_iso p v1 v2 -> BOk v1 -> BOk v2 -> In s (vnodes v1) ->
  (forall a, In a (vnodes v1) -> Paths.in_cap v1 a) -> (forall a, In a (vnodes v2) -> Paths.in_cap v2 a) ->
  exists r1 r2, find_negative_cycle v1 s = Ok r1 /\ find_negative_cycle v2 (p s) = Ok r2 /\
    (r1 = None <-> r2 = None) /\
    (forall l1, r1 = Some l1 -> exists a c, walk v1 a c a /\ map tgt c = l1 /\ (walk_cost c < 0)%Z) /\
    (forall l2, r2 = Some l2 -> exists a c, walk v2 a c a /\ map tgt c = l2 /\ (walk_cost c < 0)%Z).
Proof.
  intros H B1 B2 Hs C1 C2.
  pose proof (bok_bound B1 _ Hs) as Ls1. pose proof (bok_bound B2 _ (iso_img H Hs)) as Ls2.
  destruct (fnc_spec B1 Ls1 C1) as [r1 [E1 S1]]. destruct (fnc_spec B2 Ls2 C2) as [r2 [E2 S2]].
  exists r1, r2. split; [exact E1|]. split; [exact E2|].
  destruct (bellman_ford_iso H B1 B2 Hs) as [b1 [b2 [F1 [F2 [X _]]]]].
  split; [|split].
  - destruct r1 as [l1|], r2 as [l2|]; split; intros E; try reflexivity; try discriminate E; exfalso.
    + destruct S1 as [G1 _]. destruct S2 as [dp G2]. rewrite F1 in G1. rewrite F2 in G2.
      injection G1 as ->. injection G2 as ->. assert (K : Some dp = None) by (apply X; reflexivity). discriminate K.
    + destruct S2 as [G2 _]. destruct S1 as [dp G1]. rewrite F1 in G1. rewrite F2 in G2.
      injection G1 as ->. injection G2 as ->. assert (K : Some dp = None) by (apply X; reflexivity). discriminate K.
  - intros l1 ->. apply S1.
  - intros l2 ->. apply S2.
Qed.

(* ------------------------------------------------------------------ *)
(* J5: Prim on connected undirected views                               *)

Theorem prim_iso p v1 v2 n0 rest : nodes_iso p v1 v2 -> UView v1 -> UView v2 ->
  view_iso_erefs_u p v1 v2 -> vnodes v1 = n0 :: rest ->
  (forall x, In x (vnodes v1) -> uconn (ends (gedges v1)) n0 x) ->
  exists l1 l2 k1 k2, prim v1 = Ok l1 /\ prim v2 = Ok l2 /\ kruskal v1 = Ok k1 /\ kruskal v2 = Ok k2 /\
    weight l1 = weight l2 /\ weight l1 = weight k1 /\ weight l2 = weight k2.
Proof.
  intros Hn U1 U2 HP Ev1 Hc1.
  pose proof U1 as [M1 [P1 _]]. pose proof U2 as [M2 [P2 _]].
  assert (Hn0 : In n0 (vnodes v1)) by (rewrite Ev1; left; reflexivity).
  destruct (vnodes v2) as [|m0 rest2] eqn:Ev2.
  { exfalso. pose proof (nodes_iso_img Hn Hn0) as K. rewrite Ev2 in K. destruct K. }
  assert (Hc2 : forall y, In y (vnodes v2) -> uconn (ends (gedges v2)) m0 y).
  { assert (Hm0 : In m0 (vnodes v2)) by (rewrite Ev2; left; reflexivity).
    intros y Hy. apply (proj2 Hn) in Hm0. apply (proj2 Hn) in Hy.
    destruct Hm0 as [a [Ha ->]]. destruct Hy as [b [Hb ->]].
    apply (conn_erefs_fwd HP). unfold uconn in Hc1.
    eapply c_trans; [apply c_sym; apply (Hc1 a Ha)|apply (Hc1 b Hb)]. }
  destruct (prim_spanning_tree v1 n0 rest P1 Ev1) as [l1 [E1 _]].
  destruct (prim_spanning_tree v2 m0 rest2 P2 Ev2) as [l2 [E2 _]].
  destruct (kruskal_iso_u Hn M1 M2 HP) as [k1 [k2 [F1 [F2 [W _]]]]].
  exists l1, l2, k1, k2. split; [exact E1|]. split; [exact E2|]. split; [exact F1|]. split; [exact F2|].
  pose proof (prim_kruskal_same_weight v1 n0 rest l1 k1 U1 Ev1 Hc1 E1 F1) as W1.
  assert (W2 : weight l2 = weight k2).
  { apply (prim_kruskal_same_weight v2 m0 rest2 l2 k2 U2); [exact Ev2|exact Hc2|exact E2|exact F2]. }
  split; [rewrite W1, W2; exact W|]. split; assumption.
Qed.

(* ------------------------------------------------------------------ *)
(* Helpers for the examples of Props/C07b.v                             *)

(* with non-negative costs the zero heuristic is admissible *)
Lemma admissible_zero v (g : nat -> bool) : nonneg v -> admissible v g (fun _ => 0%Z).
Proof.
  intros N x d [[t [w [_ [W C]]]] _]. rewrite <- C. apply (walk_cost_nonneg N W).
Qed.

Definition below_bound_b (v : view) : bool := forallb (fun a => Nat.ltb a (vbound v)) (vnodes v).

Lemma below_bound_b_ok v : below_bound_b v = true -> forall n, In n (vnodes v) -> n < vbound v.
Proof.
  unfold below_bound_b. rewrite forallb_forall. intros Hb n Hn. apply Nat.ltb_lt. apply Hb; exact Hn.
Qed.

Definition nodes_in_cap_b (v : view) : bool := forallb (Paths.in_capb v) (vnodes v).

Lemma nodes_in_cap_b_ok v : nodes_in_cap_b v = true -> forall a, In a (vnodes v) -> Paths.in_cap v a.
Proof.
  unfold nodes_in_cap_b. rewrite forallb_forall. intros Hb a Ha. apply Paths.in_capb_ok. apply Hb; exact Ha.
Qed.
