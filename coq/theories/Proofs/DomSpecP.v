(* Pure graph theory of dominance (no algorithm): walks, the order structure of dominance,
   existence and uniqueness of immediate dominators, transfer along a graph isomorphism of the
   reachable part, and the instance for views. *)
From PG Require Import Lib.Io Model.View Model.Traversal Spec.Reach Spec.DomSpec
                       Proofs.TravBase Proofs.TraversalAll.

(* ------------------------------------------------------------------ *)
(* Walks                                                               *)
Section Walks.
Variable R : nat -> nat -> Prop.
Notation walk := (gwalk R).

Lemma gwalk_app a l1 m l2 b : walk a l1 m -> walk m l2 b -> walk a (l1 ++ l2) b.
Proof.
  revert a. induction l1 as [|x t IH]; intros a H1 H2; cbn [gwalk app] in *.
  - subst m. exact H2.
  - destruct H1 as [Hr H1]. split; [exact Hr|]. apply IH; assumption.
Qed.

Lemma gwalk_snoc a l m b : walk a l m -> R m b -> walk a (l ++ [b]) b.
Proof.
  intros H1 H2. apply (gwalk_app a l m [b] b H1). cbn [gwalk]. split; [exact H2 | reflexivity].
Qed.

Lemma gwalk_split l1 : forall a l2 b, walk a (l1 ++ l2) b -> exists m, walk a l1 m /\ walk m l2 b.
Proof.
  induction l1 as [|x t IH]; intros a l2 b H; cbn [gwalk app] in *.
  - exists a. split; [reflexivity | exact H].
  - destruct H as [Hr H]. destruct (IH _ _ _ H) as [m [H1 H2]]. exists m.
    split; [split; assumption | exact H2].
Qed.

Lemma gwalk_snoc_inv a l y b : walk a (l ++ [y]) b -> y = b /\ exists m, walk a l m /\ R m y.
Proof.
  intros H. apply gwalk_split in H. destruct H as [m [H1 H2]]. cbn [gwalk] in H2.
  destruct H2 as [Hr ->]. split; [reflexivity|]. exists m. split; assumption.
Qed.

Lemma gwalk_end_in l : forall a b, walk a l b -> In b (a :: l).
Proof.
  induction l as [|x t IH]; intros a b H; cbn [gwalk] in H.
  - left; exact H.
  - destruct H as [_ H]. right. apply IH; exact H.
Qed.

Lemma gwalk_prefix l : forall a b c, walk a l b -> In c (a :: l) ->
  exists l1 l2, l = l1 ++ l2 /\ walk a l1 c /\ walk c l2 b.
Proof.
  induction l as [|x t IH]; intros a b c H Hin.
  - destruct Hin as [<-|[]]. exists [], []. cbn [gwalk] in *. auto.
  - destruct Hin as [<-|Hin].
    + exists [], (x :: t). split; [reflexivity|]. split; [reflexivity | exact H].
    + cbn [gwalk] in H. destruct H as [Hr H]. destruct (IH x b c H Hin) as [l1 [l2 [E [H1 H2]]]].
      exists (x :: l1), l2. split; [cbn [app]; rewrite E; reflexivity|].
      split; [split; assumption | exact H2].
Qed.

(* split at the last occurrence of c *)
Lemma gwalk_last_occ l : forall a b c, walk a l b -> In c (a :: l) ->
  exists l1 l2, l = l1 ++ l2 /\ walk a l1 c /\ walk c l2 b /\ ~ In c l2.
Proof.
  induction l as [|x t IH]; intros a b c H Hin.
  - destruct Hin as [<-|[]]. exists [], []. cbn [gwalk] in *. repeat split; auto.
  - destruct (in_dec Nat.eq_dec c (x :: t)) as [Hi|Hn].
    + cbn [gwalk] in H. destruct H as [Hr H].
      destruct (IH x b c H Hi) as [l1 [l2 [E [H1 [H2 Hn2]]]]].
      exists (x :: l1), l2. split; [cbn [app]; rewrite E; reflexivity|].
      split; [split; assumption|]. split; assumption.
    + destruct Hin as [<-|Hin]; [|contradiction].
      exists [], (x :: t). split; [reflexivity|]. split; [reflexivity|]. split; assumption.
Qed.

Lemma gwalk_Forall (P : nat -> Prop) l : forall a b,
  (forall x y, P x -> R x y -> P y) -> P a -> walk a l b -> Forall P (a :: l).
Proof.
  induction l as [|x t IH]; intros a b HP Ha H.
  - constructor; [exact Ha | constructor].
  - cbn [gwalk] in H. destruct H as [Hr H]. constructor; [exact Ha|].
    apply (IH x b HP); [apply (HP a x Ha Hr) | exact H].
Qed.

Lemma NoDup_app_tail {A} (l1 l2 : list A) : NoDup (l1 ++ l2) -> NoDup l2.
Proof.
  induction l1 as [|a l1 IH]; cbn [app]; intros H; [exact H|].
  inversion H; subst. apply IH; assumption.
Qed.

(* every walk contains a walk without repeated nodes between the same ends *)
Lemma gwalk_simple l : forall a b, walk a l b ->
  exists l', walk a l' b /\ incl l' l /\ NoDup (a :: l').
Proof.
  induction l as [|x t IH]; intros a b H.
  - exists []. split; [exact H|]. split; [intros y []|]. constructor; [intros [] | constructor].
  - cbn [gwalk] in H. destruct H as [Hr H]. destruct (IH x b H) as [l1 [H1 [Hi Hnd]]].
    destruct (in_dec Nat.eq_dec a (x :: l1)) as [Hin|Hout].
    + destruct (gwalk_last_occ l1 x b a H1 Hin) as [l2 [l3 [E [_ [H3 Hn3]]]]].
      exists l3. split; [exact H3|]. split.
      * intros y Hy. right. apply Hi. rewrite E. apply in_or_app; right; exact Hy.
      * constructor; [exact Hn3|]. rewrite E in Hnd. inversion Hnd as [|x' l' _ Hnd1].
        apply NoDup_app_tail in Hnd1. exact Hnd1.
    + exists (x :: l1). split; [split; assumption|]. split.
      * intros y [<-|Hy]; [left; reflexivity | right; apply Hi; exact Hy].
      * constructor; assumption.
Qed.
End Walks.

(* ------------------------------------------------------------------ *)
(* Dominance is a partial order; dominators of a node form a chain     *)
Section Dominance.
Variable R : nat -> nat -> Prop.
Variable root : nat.
Notation walk := (gwalk R).
Notation dom := (gdom R root).

Lemma gdom_reach_l a b : dom a b -> greach R root a.
Proof.
  intros [[l Hl] Ha]. specialize (Ha l Hl).
  destruct (gwalk_prefix R l root b a Hl Ha) as [l1 [l2 [_ [H1 _]]]]. exists l1; exact H1.
Qed.

Lemma gdom_refl a : greach R root a -> dom a a.
Proof. intros Hr. split; [exact Hr|]. intros l Hl. apply (gwalk_end_in R l root a Hl). Qed.

Lemma gdom_root b : greach R root b -> dom root b.
Proof. intros Hr. split; [exact Hr|]. intros l _. left; reflexivity. Qed.

Lemma gdom_trans a b c : dom a b -> dom b c -> dom a c.
Proof.
  intros [Hrb Hab] [Hrc Hbc]. split; [exact Hrc|]. intros l Hl. specialize (Hbc l Hl).
  destruct (gwalk_prefix R l root c b Hl Hbc) as [l1 [l2 [E [H1 H2]]]]. specialize (Hab l1 H1).
  subst l. destruct Hab as [->|Hin]; [left; reflexivity | right; apply in_or_app; left; exact Hin].
Qed.

Lemma gdom_antisym a b : dom a b -> dom b a -> a = b.
Proof.
  intros Hab Hba. destruct (Nat.eq_dec a b) as [E|Hne]; [exact E | exfalso].
  assert (H : forall n l, length l < n -> ~ walk root l a /\ ~ walk root l b).
  { induction n as [|n IH]; intros l Hn; [lia|]. split; intros Hw.
    - pose proof (proj2 Hba l Hw) as Hin.
      destruct (gwalk_prefix R l root a b Hw Hin) as [l1 [l2 [E [H1 H2]]]].
      destruct l2 as [|y l2]; [cbn [gwalk] in H2; congruence|].
      apply (proj2 (IH l1 ltac:(subst l; rewrite app_length in Hn; cbn [length] in Hn; lia))). exact H1.
    - pose proof (proj2 Hab l Hw) as Hin.
      destruct (gwalk_prefix R l root b a Hw Hin) as [l1 [l2 [E [H1 H2]]]].
      destruct l2 as [|y l2]; [cbn [gwalk] in H2; congruence|].
      apply (proj1 (IH l1 ltac:(subst l; rewrite app_length in Hn; cbn [length] in Hn; lia))). exact H1. }
  destruct Hab as [[l Hl] _]. apply (proj2 (H (S (length l)) l (Nat.lt_succ_diag_r _))). exact Hl.
Qed.

(* a strict dominator of b dominates every reachable predecessor of b *)
Lemma gsdom_pred a b p : gsdom R root a b -> R p b -> greach R root p -> dom a p.
Proof.
  intros [[_ Hd] Hne] Hpb Hrp. split; [exact Hrp|]. intros l Hl.
  pose proof (Hd _ (gwalk_snoc R root l p b Hl Hpb)) as Hin.
  destruct Hin as [Hr|Hin]; [left; exact Hr|]. apply in_app_or in Hin.
  destruct Hin as [Hin|[E|[]]]; [right; exact Hin | congruence].
Qed.

Lemma gsdom_root_none a : ~ gsdom R root a root.
Proof.
  intros [[_ Hd] Hne]. specialize (Hd [] eq_refl). destruct Hd as [E|[]]. congruence.
Qed.

Lemma gidom_root_none a : ~ gidom R root a root.
Proof. intros [H _]. exact (gsdom_root_none a H). Qed.

Lemma gidom_unique a a' b : gidom R root a b -> gidom R root a' b -> a = a'.
Proof.
  intros [Ha Hca] [Ha' Hca']. apply gdom_antisym; [apply Hca'; exact Ha | apply Hca; exact Ha'].
Qed.

(* The remaining facts need to decide dominance; for a finite graph a search does it. *)
Section Decidable.
Hypothesis Hdec : forall a b, greach R root b ->
  dom a b \/ exists l, walk root l b /\ ~ In a (root :: l).

Lemma gdom_dec a b : greach R root b -> dom a b \/ ~ dom a b.
Proof.
  intros Hr. destruct (Hdec a b Hr) as [H|[l [Hl Hn]]]; [left; exact H | right].
  intros [_ H]. apply Hn, H, Hl.
Qed.

Lemma gdom_total a b c : dom a c -> dom b c -> dom a b \/ dom b a.
Proof.
  intros Hac Hbc.
  destruct (Nat.eq_dec a b) as [->|Hne]; [left; apply gdom_refl, (gdom_reach_l b c Hbc)|].
  destruct (Hdec a b (gdom_reach_l b c Hbc)) as [H|[w1 [Hw1 Ha1]]]; [left; exact H|].
  destruct (Hdec b a (gdom_reach_l a c Hac)) as [H|[w2 [Hw2 Hb2]]]; [right; exact H|].
  exfalso. destruct Hac as [[l Hl] Hac]. destruct Hbc as [_ Hbc].
  pose proof (Hac l Hl) as Hina.
  destruct (gwalk_last_occ R l root c a Hl Hina) as [l1 [l2 [E [H1 [H2 Hn2]]]]].
  destruct (in_dec Nat.eq_dec b l2) as [Hb|Hb].
  - destruct (gwalk_last_occ R l2 a c b H2 (or_intror Hb)) as [l3 [l4 [E2 [H3 [H4 Hn4]]]]].
    pose proof (gwalk_app R root w1 b l4 c Hw1 H4) as Hw. specialize (Hac _ Hw).
    apply Ha1. destruct Hac as [Hr|Hin]; [left; exact Hr|]. apply in_app_or in Hin.
    destruct Hin as [Hin|Hin]; [right; exact Hin|]. exfalso. apply Hn2. rewrite E2.
    apply in_or_app; right; exact Hin.
  - pose proof (gwalk_app R root w2 a l2 c Hw2 H2) as Hw. specialize (Hbc _ Hw).
    apply Hb2. destruct Hbc as [Hr|Hin]; [left; exact Hr|]. apply in_app_or in Hin.
    destruct Hin as [Hin|Hin]; [right; exact Hin | contradiction].
Qed.

Lemma closest_exists b L : L <> [] -> (forall c, In c L -> gsdom R root c b) ->
  exists m, In m L /\ forall c, In c L -> dom c m.
Proof.
  induction L as [|x L IH]; intros Hne HL; [congruence|].
  destruct L as [|y L'].
  - exists x. split; [left; reflexivity|]. intros c [<-|[]].
    apply gdom_refl. apply (gdom_reach_l x b (proj1 (HL x (or_introl eq_refl)))).
  - destruct IH as [m [Hm Hall]]; [discriminate | intros c Hc; apply HL; right; exact Hc|].
    destruct (gdom_total x m b (proj1 (HL x (or_introl eq_refl))) (proj1 (HL m (or_intror Hm)))) as [H|H].
    + exists m. split; [right; exact Hm|]. intros c [<-|Hc]; [exact H | apply Hall; exact Hc].
    + exists x. split; [left; reflexivity|]. intros c [<-|Hc].
      * apply gdom_refl. apply (gdom_reach_l x b (proj1 (HL x (or_introl eq_refl)))).
      * apply gdom_trans with m; [apply Hall; exact Hc | exact H].
Qed.

Lemma sdoms_list b cand : greach R root b ->
  exists L, forall c, In c L <-> In c cand /\ gsdom R root c b.
Proof.
  intros Hr. induction cand as [|a cand [L HL]].
  - exists []. intros c. cbn [In]. tauto.
  - assert (Hs : gsdom R root a b \/ ~ gsdom R root a b).
    { destruct (gdom_dec a b Hr) as [Hd|Hd]; [|right; intros [H _]; exact (Hd H)].
      destruct (Nat.eq_dec a b) as [He|He]; [right; intros [_ H]; exact (H He) | left; split; assumption]. }
    destruct Hs as [Hs|Hs].
    + exists (a :: L). intros c. cbn [In]. rewrite HL. split.
      * intros [<-|[H1 H2]]; [split; [left; reflexivity | exact Hs] | split; [right; exact H1 | exact H2]].
      * intros [[<-|H1] H2]; [left; reflexivity | right; split; assumption].
    + exists L. intros c. rewrite HL. cbn [In]. split.
      * intros [H1 H2]. split; [right; exact H1 | exact H2].
      * intros [[<-|H1] H2]; [contradiction | split; assumption].
Qed.

Lemma gidom_exists b : greach R root b -> b <> root -> exists a, gidom R root a b.
Proof.
  intros Hr Hne. destruct Hr as [w Hw].
  assert (Hrb : greach R root b) by (exists w; exact Hw).
  destruct (sdoms_list b (root :: w) Hrb) as [L HL].
  assert (Hroot : In root L).
  { apply HL. split; [left; reflexivity|]. split; [apply gdom_root; exact Hrb | congruence]. }
  destruct (closest_exists b L) as [m [Hm Hall]].
  - intros E. rewrite E in Hroot. destruct Hroot.
  - intros c Hc. apply HL; exact Hc.
  - exists m. split; [apply HL; exact Hm|]. intros c Hc. apply Hall. apply HL.
    split; [apply (proj2 (proj1 Hc)); exact Hw | exact Hc].
Qed.
End Decidable.
End Dominance.

(* ------------------------------------------------------------------ *)
(* Transfer along an isomorphism of the reachable parts                *)
Section Transfer.
Variables (E R : nat -> nat -> Prop) (f : nat -> nat) (n r root : nat).
Hypothesis Hr : r < n.
Hypothesis Hfr : f r = root.
Hypothesis Hinj : forall i j, i < n -> j < n -> f i = f j -> i = j.
Hypothesis HE : forall i j, E i j -> i < n /\ j < n /\ R (f i) (f j).
Hypothesis HR : forall i y, i < n -> R (f i) y -> exists j, j < n /\ y = f j /\ E i j.

Lemma walk_fwd l : forall i j, i < n -> gwalk E i l j ->
  gwalk R (f i) (map f l) (f j) /\ j < n /\ Forall (fun x => x < n) l.
Proof.
  induction l as [|x t IH]; intros i j Hi H; cbn [gwalk map] in *.
  - subst j. split; [reflexivity|]. split; [exact Hi | constructor].
  - destruct H as [He H]. destruct (HE i x He) as [_ [Hx Hrx]].
    destruct (IH x j Hx H) as [H1 [H2 H3]]. split; [split; assumption|]. split; [exact H2|].
    constructor; assumption.
Qed.

Lemma walk_bwd l : forall i y, i < n -> gwalk R (f i) l y ->
  exists l' j, l = map f l' /\ y = f j /\ j < n /\ gwalk E i l' j /\ Forall (fun x => x < n) l'.
Proof.
  induction l as [|x t IH]; intros i y Hi H; cbn [gwalk] in H.
  - exists [], i. subst y. repeat split; auto.
  - destruct H as [Hrx H]. destruct (HR i x Hi Hrx) as [k [Hk [-> Hek]]].
    destruct (IH k y Hk H) as [l' [j [E1 [E2 [Hj [Hw Hf]]]]]].
    exists (k :: l'), j. split; [cbn [map]; rewrite E1; reflexivity|]. split; [exact E2|].
    split; [exact Hj|]. split; [split; assumption | constructor; assumption].
Qed.

Lemma gdom_transfer a b : a < n -> b < n -> (gdom E r a b <-> gdom R root (f a) (f b)).
Proof.
  intros Ha Hb. split.
  - intros [[w Hw] Hd]. split.
    + exists (map f w). rewrite <- Hfr. apply (walk_fwd w r b Hr Hw).
    + intros l Hl. rewrite <- Hfr in Hl.
      destruct (walk_bwd l r (f b) Hr Hl) as [l' [j [E1 [E2 [Hj [Hw' _]]]]]].
      apply Hinj in E2; [|assumption|assumption]. subst j. specialize (Hd l' Hw').
      rewrite <- Hfr, E1. change (f r :: map f l') with (map f (r :: l')). apply in_map; exact Hd.
  - intros [[w Hw] Hd]. split.
    + rewrite <- Hfr in Hw. destruct (walk_bwd w r (f b) Hr Hw) as [l' [j [E1 [E2 [Hj [Hw' _]]]]]].
      apply Hinj in E2; [|assumption|assumption]. subst j. exists l'; exact Hw'.
    + intros l Hl. destruct (walk_fwd l r b Hr Hl) as [H1 [_ Hall]]. rewrite Hfr in H1.
      specialize (Hd _ H1). rewrite <- Hfr in Hd. change (f r :: map f l) with (map f (r :: l)) in Hd.
      apply in_map_iff in Hd. destruct Hd as [x [Ex Hx]].
      assert (Hxn : x < n).
      { destruct Hx as [<-|Hx]; [exact Hr|]. rewrite Forall_forall in Hall. apply Hall; exact Hx. }
      apply Hinj in Ex; [|assumption|assumption]. subst x. exact Hx.
Qed.

(* whatever dominates an image is an image *)
Lemma gdom_image c b : b < n -> gdom R root c (f b) -> exists j, j < n /\ c = f j.
Proof.
  intros Hb [[w Hw] Hd]. specialize (Hd w Hw). rewrite <- Hfr in Hw.
  destruct (walk_bwd w r (f b) Hr Hw) as [l' [j [E1 [_ [_ [_ Hall]]]]]].
  rewrite <- Hfr, E1 in Hd. change (f r :: map f l') with (map f (r :: l')) in Hd.
  apply in_map_iff in Hd. destruct Hd as [x [Ex Hx]]. exists x. split; [|symmetry; exact Ex].
  destruct Hx as [<-|Hx]; [exact Hr|]. rewrite Forall_forall in Hall. apply Hall; exact Hx.
Qed.

Lemma gidom_transfer a b : a < n -> b < n -> gidom E r a b -> gidom R root (f a) (f b).
Proof.
  intros Ha Hb [[Hd Hne] Hc]. split.
  - split; [apply gdom_transfer; assumption|]. intros E1. apply Hne. apply Hinj; assumption.
  - intros c [Hcd Hcn]. destruct (gdom_image c b Hb Hcd) as [j [Hj ->]].
    apply gdom_transfer; [assumption|assumption|]. apply Hc. split.
    + apply gdom_transfer; assumption.
    + intros ->. apply Hcn; reflexivity.
Qed.
End Transfer.

(* ------------------------------------------------------------------ *)
(* Views                                                               *)

Lemma reachable_greach v a b : reachable v a b <-> greach (step v) a b.
Proof.
  split.
  - induction 1 as [|x y Hx [l Hl] Hxy]; [exists []; reflexivity|].
    exists (l ++ [y]). apply (gwalk_snoc (step v) a l x y Hl Hxy).
  - intros [l H]. revert a H. induction l as [|x t IH]; intros a H; cbn [gwalk] in H.
    + subst b. apply reach_refl.
    + destruct H as [Hs H]. eapply reachable_left; [exact Hs | apply IH; exact H].
Qed.

Lemma dominates_gdom v root a b : dominates v root a b <-> gdom (step v) root a b.
Proof. unfold dominates, gdom, dpath. rewrite reachable_greach. reflexivity. Qed.

Lemma sdom_gsdom v root a b : sdom v root a b <-> gsdom (step v) root a b.
Proof. unfold sdom, gsdom. rewrite dominates_gdom. reflexivity. Qed.

Lemma idom_gidom v root a b : idom v root a b <-> gidom (step v) root a b.
Proof.
  unfold idom, gidom. rewrite sdom_gsdom. split; intros [H1 H2]; (split; [exact H1|]);
    intros c Hc; [apply dominates_gdom, H2, sdom_gsdom, Hc | apply dominates_gdom, H2, sdom_gsdom, Hc].
Qed.

Lemma reach_in_left (P : nat -> Prop) v s x y :
  P s -> step v s x -> reach_in P v x y -> reach_in P v s y.
Proof.
  intros Hs Hsx H. induction H as [Hx | y z Hy IH Hyz Hz].
  - eapply ri_step; [apply ri_refl; exact Hs | exact Hsx | exact Hx].
  - eapply ri_step; [exact IH | exact Hyz | exact Hz].
Qed.

Lemma walk_reach_in (P : nat -> Prop) v l : forall a b,
  gwalk (step v) a l b -> Forall P (a :: l) -> reach_in P v a b.
Proof.
  induction l as [|x t IH]; intros a b H HP; cbn [gwalk] in H.
  - subst b. apply ri_refl. inversion HP; assumption.
  - destruct H as [Hs H]. inversion HP as [|a' l' Pa Pt]; subst.
    apply (reach_in_left P v a x b Pa Hs). apply IH; assumption.
Qed.

Lemma reach_in_walk (P : nat -> Prop) v a b : reach_in P v a b ->
  exists l, gwalk (step v) a l b /\ Forall P (a :: l).
Proof.
  induction 1 as [Ha | x y Hx [l [Hl HP]] Hxy Hy].
  - exists []. split; [reflexivity | constructor; [exact Ha | constructor]].
  - exists (l ++ [y]). split; [apply (gwalk_snoc (step v) a l x y Hl Hxy)|].
    rewrite app_comm_cons. apply Forall_app. split; [exact HP | constructor; [exact Hy | constructor]].
Qed.

(* dominance is decidable on a well-formed view: search with the candidate removed *)
Lemma view_avoid_dec v root : VOk v -> in_cap v root -> forall a b, greach (step v) root b ->
  gdom (step v) root a b \/ exists l, gwalk (step v) root l b /\ ~ In a (root :: l).
Proof.
  intros Hv Hc a b Hr.
  destruct (dfs_move_to_vok v (mkDfs [] [a]) root (4 * trav_fuel v) Hv Hc (model_fuel v))
    as [l [d' [_ [_ [Hl _]]]]]. cbn [ddisc] in Hl.
  destruct (in_dec Nat.eq_dec b l) as [Hin|Hout].
  - right. apply Hl in Hin. destruct (reach_in_walk _ v root b Hin) as [w [Hw HP]].
    exists w. split; [exact Hw|]. intros Ha. rewrite Forall_forall in HP. apply (HP a Ha). left; reflexivity.
  - left. split; [exact Hr|]. intros w Hw.
    destruct (in_dec Nat.eq_dec a (root :: w)) as [Hi|Hn]; [exact Hi | exfalso].
    apply Hout, Hl. apply (walk_reach_in _ v w root b Hw). rewrite Forall_forall.
    intros x Hx [E|[]]. subst x. exact (Hn Hx).
Qed.

(* ---- D1 for views ---- *)
Section ViewOrder.
Variable v : view.
Variable root : nat.

Lemma dominates_refl a : reachable v root a -> dominates v root a a.
Proof. intros H. apply dominates_gdom, gdom_refl, reachable_greach, H. Qed.

Lemma dominates_root b : reachable v root b -> dominates v root root b.
Proof. intros H. apply dominates_gdom, gdom_root, reachable_greach, H. Qed.

Lemma dominates_trans a b c : dominates v root a b -> dominates v root b c -> dominates v root a c.
Proof. rewrite !dominates_gdom. apply gdom_trans. Qed.

Lemma dominates_antisym a b : dominates v root a b -> dominates v root b a -> a = b.
Proof. rewrite !dominates_gdom. apply gdom_antisym. Qed.

Lemma dominates_reach_l a b : dominates v root a b -> reachable v root a.
Proof. rewrite dominates_gdom, reachable_greach. apply gdom_reach_l. Qed.

Lemma idom_unique a a' b : idom v root a b -> idom v root a' b -> a = a'.
Proof. rewrite !idom_gidom. apply gidom_unique. Qed.

Lemma idom_root_none a : ~ idom v root a root.
Proof. rewrite idom_gidom. apply gidom_root_none. Qed.

Lemma sdom_root_none a : ~ sdom v root a root.
Proof. rewrite sdom_gsdom. apply gsdom_root_none. Qed.

Hypothesis Hv : VOk v.
Hypothesis Hc : in_cap v root.

Lemma dominates_total a b c : dominates v root a c -> dominates v root b c ->
  dominates v root a b \/ dominates v root b a.
Proof. rewrite !dominates_gdom. apply gdom_total. apply view_avoid_dec; assumption. Qed.

Lemma dominates_dec a b : dominates v root a b \/ ~ dominates v root a b.
Proof.
  destruct (dfs_reachable_vok v root (4 * trav_fuel v) Hv Hc (model_fuel v)) as [l [d [_ [_ Hl]]]].
  destruct (in_dec Nat.eq_dec b l) as [Hin|Hout].
  - rewrite dominates_gdom. apply gdom_dec; [apply view_avoid_dec; assumption|].
    apply reachable_greach, Hl, Hin.
  - right. intros [H _]. apply Hout, Hl, H.
Qed.

Lemma idom_exists b : reachable v root b -> b <> root -> exists a, idom v root a b.
Proof.
  intros Hr Hne. destruct (gidom_exists (step v) root (view_avoid_dec v root Hv Hc) b) as [a Ha].
  - apply reachable_greach; exact Hr.
  - exact Hne.
  - exists a. apply idom_gidom; exact Ha.
Qed.
End ViewOrder.
