(* floyd_warshall / floyd_warshall_path over a view: as long as no diagonal entry is negative each
   phase k of the triple loop is one synchronous update; from this, detection of every negative
   cycle (when no relaxation is lost to overflow) and correctness of the predecessor matrix. *)
From Coq Require Import Lia ZArith List Permutation.
From PG Require Import Lib.Io Model.View Model.Traversal Model.ShortestM Spec.EPaths Proofs.FloydP.
Open Scope Z_scope.

Notation dm := (mg 0%Z).
Notation pm := (mg (None : option nat)).

(* ------------------------------------------------------------------ one relaxation, entry by entry *)
Section Relax.
  Variables kmin kmax : Z.
  Variable n : nat.

  (* the test of fw_relax on the triple (k, i, j) *)
  Definition fires (d : list (list Z)) (k i j : nat) : bool :=
    Z.ltb (dm d i k) kmax && Z.ltb (dm d k j) kmax && Z.leb (dm d i k + dm d k j) kmax &&
    Z.leb kmin (dm d i k + dm d k j) && Z.ltb (dm d i k + dm d k j) (dm d i j).

  Definition step_d (d : list (list Z)) (k i j : nat) : Z :=
    if fires d k i j then dm d i k + dm d k j else dm d i j.
  Definition step_p (d : list (list Z)) (p : list (list (option nat))) (k i j : nat) : option nat :=
    if fires d k i j then pm p k j else pm p i j.

  Lemma fw_relax_entry d p k i j : Shape n d -> Shape n p -> (k < n)%nat -> (i < n)%nat -> (j < n)%nat ->
    exists d' p', fw_relax kmin kmax (d, p) k i j = Ok (d', p') /\ Shape n d' /\ Shape n p' /\
      (forall a b, dm d' a b = if Nat.eqb i a && Nat.eqb j b then step_d d k i j else dm d a b) /\
      (forall a b, pm p' a b = if Nat.eqb i a && Nat.eqb j b then step_p d p k i j else pm p a b).
  Proof.
    intros HSd HSp Hk Hi Hj.
    assert (Hsame : forall x y : nat, (if Nat.eqb i x && Nat.eqb j y then dm d i j else dm d x y) = dm d x y).
    { intros x y. destruct (Nat.eqb_spec i x) as [<-|]; cbn [andb]; auto.
      destruct (Nat.eqb_spec j y) as [<-|]; auto. }
    assert (Hsamep : forall x y : nat, (if Nat.eqb i x && Nat.eqb j y then pm p i j else pm p x y) = pm p x y).
    { intros x y. destruct (Nat.eqb_spec i x) as [<-|]; cbn [andb]; auto.
      destruct (Nat.eqb_spec j y) as [<-|]; auto. }
    unfold fw_relax. rewrite (mget_ok 0 HSd Hi Hk), (mget_ok 0 HSd Hk Hj). cbn [rbind].
    unfold step_d, step_p, fires.
    set (dik := dm d i k). set (dkj := dm d k j).
    assert (Hno :
      exists d' p', Ok (d, p) = Ok (d', p') /\ Shape n d' /\ Shape n p' /\
        (forall x y, dm d' x y = if Nat.eqb i x && Nat.eqb j y then dm d i j else dm d x y) /\
        (forall x y, pm p' x y = if Nat.eqb i x && Nat.eqb j y then pm p i j else pm p x y)).
    { exists d, p. split; [reflexivity|]. split; [exact HSd|]. split; [exact HSp|].
      split; intros x y; [rewrite Hsame|rewrite Hsamep]; reflexivity. }
    destruct (Z.ltb_spec dik kmax) as [Hik|Hik]; cbn [andb negb]; [|exact Hno].
    destruct (Z.ltb_spec dkj kmax) as [Hkj|Hkj]; cbn [andb negb]; [|exact Hno].
    unfold ov_add.
    destruct (Z.ltb_spec kmax (dik + dkj)) as [Hov|Hnov].
    { rewrite (mget_ok 0 HSd Hi Hj). cbn [rbind negb andb].
      destruct (Z.leb_spec (dik + dkj) kmax); [lia|]. cbn [andb]. exact Hno. }
    destruct (Z.leb_spec (dik + dkj) kmax); [|lia]. cbn [andb].
    destruct (Z.ltb_spec (dik + dkj) kmin) as [Hun|Hnun].
    { rewrite (mget_ok 0 HSd Hi Hj). cbn [rbind negb andb].
      destruct (Z.leb_spec kmin (dik + dkj)); [lia|]. cbn [andb]. exact Hno. }
    destruct (Z.leb_spec kmin (dik + dkj)); [|lia]. cbn [andb].
    rewrite (mget_ok 0 HSd Hi Hj). cbn [rbind negb andb].
    destruct (Z.ltb_spec (dik + dkj) (dm d i j)) as [Hlt|Hge]; [|exact Hno].
    destruct (mset_ok 0 (dik + dkj) HSd Hi Hj) as [d1 [E1 [HS1 Hd1]]].
    rewrite E1. cbn [rbind]. rewrite (mget_ok None HSp Hk Hj). cbn [rbind].
    destruct (mset_ok None (pm p k j) HSp Hi Hj) as [p1 [Ep1 [HSp1 Hp1]]].
    rewrite Ep1. cbn [rmap].
    exists d1, p1. split; auto.
  Qed.

  (* ---------------------------------------------------------------- a list of relaxations through k *)
  Definition ent_eq (s s' : fwst) (i j : nat) : Prop :=
    dm (fst s) i j = dm (fst s') i j /\ pm (snd s) i j = pm (snd s') i j.
  Definition ent_step (s0 s' : fwst) (k i j : nat) : Prop :=
    dm (fst s') i j = step_d (fst s0) k i j /\ pm (snd s') i j = step_p (fst s0) (snd s0) k i j.

  Lemma fires_diag_k d k i j : 0 <= dm d k k -> (i = k \/ j = k) -> fires d k i j = false.
  Proof.
    intros Hkk Hij. unfold fires.
    destruct (Z.ltb_spec (dm d i k + dm d k j) (dm d i j)) as [Hlt|]; [|rewrite !Bool.andb_false_r; auto].
    exfalso. destruct Hij as [->| ->]; lia.
  Qed.

  Lemma fold_sync s0 k : (k < n)%nat -> 0 <= dm (fst s0) k k -> forall l s,
    (forall k' i j, In (k', i, j) l -> k' = k /\ (i < n)%nat /\ (j < n)%nat) -> NoDup l ->
    Shape n (fst s) -> Shape n (snd s) ->
    (forall i j, In (k, i, j) l \/ i = k \/ j = k -> ent_eq s s0 i j) ->
    exists s', fw_fold kmin kmax l s = Ok s' /\ Shape n (fst s') /\ Shape n (snd s') /\
      (forall i j, In (k, i, j) l -> ent_step s0 s' k i j) /\
      (forall i j, ~ In (k, i, j) l -> ent_eq s' s i j).
  Proof.
    intros Hk Hkk. induction l as [|[[k0 i0] j0] rest IH]; intros [d p] Hl Hnd HSd HSp Hag; unfold ent_eq in Hag; cbn [fst snd] in *.
    - exists (d, p). cbn [fw_fold]. split; auto. split; auto. split; auto.
      split; [intros i j []|]. intros i j _. split; auto.
    - destruct (Hl k0 i0 j0 (or_introl eq_refl)) as [-> [Hi Hj]].
      inversion Hnd as [|x l' Hnin Hnd']; subst.
      destruct (fw_relax_entry d p k i0 j0 HSd HSp Hk Hi Hj) as [d1 [p1 [E1 [HS1 [HSp1 [Hd1 Hp1]]]]]].
      (* the test sees the entries of s0 *)
      assert (Hfire : fires d k i0 j0 = fires (fst s0) k i0 j0).
      { unfold fires.
        destruct (Hag i0 k (or_intror (or_intror eq_refl))) as [-> _].
        destruct (Hag k j0 (or_intror (or_introl eq_refl))) as [-> _].
        destruct (Hag i0 j0 (or_introl (or_introl eq_refl))) as [-> _]. cbn [fst]. reflexivity. }
      assert (Hst : dm d1 i0 j0 = step_d (fst s0) k i0 j0 /\ pm p1 i0 j0 = step_p (fst s0) (snd s0) k i0 j0).
      { rewrite Hd1, Hp1, !Nat.eqb_refl. cbn [andb]. unfold step_d, step_p. rewrite Hfire.
        destruct (Hag i0 k (or_intror (or_intror eq_refl))) as [-> _].
        destruct (Hag k j0 (or_intror (or_introl eq_refl))) as [-> Hpk].
        destruct (Hag i0 j0 (or_introl (or_introl eq_refl))) as [-> ->]. cbn [fst snd] in *.
        rewrite Hpk. auto. }
      destruct (IH (d1, p1)) as [s' [E [HS' [HSp' [Hin Hout]]]]]; auto.
      + intros k' i j H. apply Hl. right; auto.
      + intros i j Hij. unfold ent_eq. cbn [fst snd]. rewrite Hd1, Hp1.
        destruct (Nat.eqb_spec i0 i) as [<-|Hne]; cbn [andb]; [|apply Hag; destruct Hij as [H|H]; [left; right; exact H|right; exact H]].
        destruct (Nat.eqb_spec j0 j) as [<-|Hne]; cbn [andb]; [|apply Hag; destruct Hij as [H|H]; [left; right; exact H|right; exact H]].
        destruct Hij as [Hin'|Hij]; [contradiction|].
        unfold step_d, step_p. rewrite Hfire, (fires_diag_k (fst s0) k i0 j0 Hkk Hij).
        apply Hag. right; exact Hij.
      + exists s'. cbn [fw_fold]. rewrite E1. cbn [rbind]. split; auto. split; auto. split; auto. split.
        * intros i j [Heq|Hin']; [|apply Hin; auto].
          injection Heq as <- <-. destruct (Hout i0 j0 Hnin) as [H1 H2]. cbn [fst snd] in *.
          unfold ent_step. rewrite H1, H2. exact Hst.
        * intros i j Hnin'. destruct (Hout i j) as [H1 H2]; [intros H; apply Hnin'; right; auto|].
          cbn [fst snd] in *. unfold ent_eq. cbn [fst snd]. rewrite H1, H2, Hd1, Hp1.
          destruct (Nat.eqb_spec i0 i) as [<-|Hne]; cbn [andb]; auto.
          destruct (Nat.eqb_spec j0 j) as [<-|Hne]; cbn [andb]; auto.
          exfalso. apply Hnin'. left; auto.
  Qed.
End Relax.

(* ------------------------------------------------------------------ a phase is a synchronous update *)
Lemma NoDup_app_intro {A} (l1 l2 : list A) :
  NoDup l1 -> NoDup l2 -> (forall x, In x l1 -> ~ In x l2) -> NoDup (l1 ++ l2).
Proof.
  induction l1 as [|a t IH]; cbn [app]; intros H1 H2 Hd; auto.
  inversion H1 as [|a' l' Ha Ht]; subst. constructor.
  - intros Hin. apply in_app_or in Hin. destruct Hin as [Hin|Hin]; auto. apply (Hd a); [left|]; auto.
  - apply IH; auto. intros x Hx. apply Hd. right; auto.
Qed.

Lemma NoDup_phase v k : NoDup (phase v k).
Proof.
  unfold phase. generalize (seq_NoDup (vnode_count v) 0). generalize (seq 0 (vnode_count v)) at 1 3.
  intros li Hli. induction li as [|i rest IH]; cbn [flat_map]; [constructor|].
  inversion Hli as [|i' l' Hi Hrest]; subst.
  apply NoDup_app_intro; auto.
  - generalize (seq_NoDup (vnode_count v) 0). generalize (seq 0 (vnode_count v)).
    intros lj Hlj. induction lj as [|j lj' IHj]; cbn [map]; [constructor|].
    inversion Hlj as [|j' l'' Hj Hlj']; subst. constructor; auto.
    intros Hin. apply in_map_iff in Hin. destruct Hin as [j1 [Heq Hj1]]. injection Heq as ->. contradiction.
  - intros x Hx Hx'. apply in_map_iff in Hx. destruct Hx as [j [<- Hj]].
    apply in_flat_map in Hx'. destruct Hx' as [i1 [Hi1 Hin]].
    apply in_map_iff in Hin. destruct Hin as [j1 [Heq Hj1]]. injection Heq as -> ->. contradiction.
Qed.

Lemma phase_sync kmin kmax v s0 k :
  Shape (vnode_count v) (fst s0) -> Shape (vnode_count v) (snd s0) -> (k < vnode_count v)%nat ->
  0 <= dm (fst s0) k k ->
  exists s1, fw_fold kmin kmax (phase v k) s0 = Ok s1 /\
    Shape (vnode_count v) (fst s1) /\ Shape (vnode_count v) (snd s1) /\
    forall i j, (i < vnode_count v)%nat -> (j < vnode_count v)%nat -> ent_step kmin kmax s0 s1 k i j.
Proof.
  intros HSd HSp Hk Hkk.
  destruct (fold_sync kmin kmax (vnode_count v) s0 k Hk Hkk (phase v k) s0) as [s1 [E [HS1 [HSp1 [Hin _]]]]]; auto.
  - intros k' i j H. apply in_phase in H. exact H.
  - apply NoDup_phase.
  - intros i j _. split; reflexivity.
  - exists s1. split; auto. split; auto. split; auto.
    intros i j Hi Hj. apply Hin. apply in_phase. auto.
Qed.

(* ------------------------------------------------------------------ closed walks and simple cycles *)
Section Cycles.
  Variable v : view.

  (* closed walks over vertices that satisfy P are not negative *)
  Definition NNP (P : nat -> Prop) : Prop :=
    forall a c, ewalk v a c a -> (forall x, In x (map fst c) -> P x) -> 0 <= ecost c.

  Lemma eshorten_gen (P : nat -> Prop) : NNP P -> forall N q i j, (length q <= N)%nat -> ewalk v i q j ->
    (forall x, In x (map fst q) -> P x) ->
    exists p', ewalk v i p' j /\ esimple i p' /\ ecost p' <= ecost q /\ incl (map fst p') (map fst q).
  Proof.
    intros HNN. induction N as [|N IH]; intros q i j Hlen W HP.
    - destruct q; [|cbn [length] in Hlen; lia]. exists []. split; auto. split; [|split; [lia|intros x []]].
      constructor; [intros []|constructor].
    - destruct (ewalk_cycle_split W) as [Hs|[p1 [c [p2 [x [Hq [Hc [W1 [Wc W2]]]]]]]]].
      + exists q. split; auto. split; auto. split; [lia|apply incl_refl].
      + assert (Hc' : (1 <= length c)%nat) by (destruct c; [congruence|cbn [length]; lia]).
        subst q. rewrite !app_length in Hlen.
        assert (Hcost : 0 <= ecost c).
        { apply (HNN x c Wc). intros y Hy. apply HP. rewrite !map_app. apply in_or_app; right.
          apply in_or_app; left; auto. }
        destruct (IH (p1 ++ p2) i j) as [p' [W' [Hs' [Hcp Hincl]]]].
        * rewrite app_length; lia.
        * eapply ewalk_app; eauto.
        * intros y Hy. apply HP. rewrite map_app in Hy. rewrite !map_app.
          apply in_app_or in Hy. apply in_or_app. destruct Hy; [left; auto|right; apply in_or_app; right; auto].
        * exists p'. split; auto. split; auto. rewrite !ecost_app in *. split; [lia|].
          intros y Hy. apply Hincl in Hy. rewrite map_app in Hy. rewrite !map_app.
          apply in_app_or in Hy. apply in_or_app. destruct Hy; [left; auto|right; apply in_or_app; right; auto].
  Qed.

  (* a closed walk that repeats no vertex *)
  Definition scycle (a : nat) (c : list (nat * Z)) : Prop :=
    ewalk v a c a /\ c <> [] /\ NoDup (map fst c).

  Lemma NN_of_simple (P : nat -> Prop) :
    (forall a c, scycle a c -> (forall x, In x (map fst c) -> P x) -> 0 <= ecost c) -> NNP P.
  Proof.
    intros HS.
    assert (H : forall N a c, (length c <= N)%nat -> ewalk v a c a ->
                  (forall x, In x (map fst c) -> P x) -> 0 <= ecost c).
    { induction N as [|N IH]; intros a c Hlen W HP.
      - destruct c; [cbn [ecost]; lia|cbn [length] in Hlen; lia].
      - destruct c as [|[b w] c']; [cbn [ecost]; lia|].
        inversion W as [|a' b' w' p' e' Hst W']; subst.
        destruct (ewalk_cycle_split W') as [Hs|[p1 [cy [p2 [x [Hq [Hc [W1 [Wc W2]]]]]]]]].
        + apply (HS a ((b, w) :: c')); auto. split; auto. split; [discriminate|exact Hs].
        + assert (Hc' : (1 <= length cy)%nat) by (destruct cy; [congruence|cbn [length]; lia]).
          subst c'. cbn [length] in Hlen. rewrite !app_length in Hlen.
          assert (H1 : 0 <= ecost cy).
          { apply (IH x cy); [lia|auto|]. intros y Hy. apply HP. cbn [map]. right.
            rewrite !map_app. apply in_or_app; right. apply in_or_app; left; auto. }
          assert (H2 : 0 <= ecost ((b, w) :: p1 ++ p2)).
          { apply (IH a); [cbn [length]; rewrite app_length; lia| |].
            - constructor; auto. eapply ewalk_app; eauto.
            - intros y Hy. apply HP. cbn [map] in *. destruct Hy as [Hy|Hy]; [left; auto|right].
              rewrite map_app in Hy. rewrite !map_app. apply in_app_or in Hy. apply in_or_app.
              destruct Hy; [left; auto|right; apply in_or_app; right; auto]. }
          cbn [ecost] in *. rewrite !ecost_app in *. lia. }
    intros a c W HP. apply (H (length c) a c); auto.
  Qed.

  (* a simple cycle can be started at any of its vertices *)
  Lemma scycle_rotate a c k : scycle a c -> In k (map fst c) ->
    exists c', scycle k c' /\ ecost c' = ecost c /\ (forall x, In x (map fst c') <-> In x (map fst c)).
  Proof.
    intros [W [Hne Hnd]] Hk.
    destruct (ewalk_split_at W (or_intror Hk)) as [c1 [c2 [Hc [W1 W2]]]].
    exists (c2 ++ c1). split; [split; [|split]|split].
    - eapply ewalk_app; eauto.
    - intros Heq. apply app_eq_nil in Heq. destruct Heq as [-> ->]. subst c. auto.
    - subst c. rewrite map_app in *. eapply Permutation_NoDup; [apply Permutation_app_comm|exact Hnd].
    - subst c. rewrite !ecost_app. lia.
    - intros x. subst c. rewrite !map_app, !in_app_iff. tauto.
  Qed.
End Cycles.

(* ------------------------------------------------------------------ the state after load and diagonal *)
Section Prefix.
  Variable kmax : Z.
  Variable v : view.
  Hypothesis HF : FOk v.
  Let n := vnode_count v.

  (* an entry is either untouched or holds a reference a -> b and its source *)
  Definition LP (s : fwst) : Prop := forall a b, (a < n)%nat -> (b < n)%nat ->
    (dm (fst s) a b = kmax /\ pm (snd s) a b = None) \/
    (pm (snd s) a b = Some a /\ estep v a b (dm (fst s) a b)).

  Lemma LP_set d p d' p' a b w : LP (d, p) -> estep v a b w ->
    (forall x y, dm d' x y = if Nat.eqb a x && Nat.eqb b y then w else dm d x y) ->
    (forall x y, pm p' x y = if Nat.eqb a x && Nat.eqb b y then Some a else pm p x y) ->
    LP (d', p').
  Proof.
    intros HL Hst Hd Hp x y Hx Hy. cbn [fst snd]. rewrite Hd, Hp.
    destruct (Nat.eqb_spec a x) as [<-|Hne]; cbn [andb]; [|apply HL; auto].
    destruct (Nat.eqb_spec b y) as [<-|Hne]; cbn [andb]; [|apply HL; auto].
    right; auto.
  Qed.

  Lemma fw_load_LP dir : dir = vdirected v -> forall es s s',
    Shape n (fst s) -> Shape n (snd s) -> LP s -> (forall e, In e es -> In e (verefs v)) ->
    fw_load dir es s = Ok s' -> LP s' /\ Shape n (fst s') /\ Shape n (snd s').
  Proof.
    intros Hdir. induction es as [|[[[id a] b] w] rest IH]; intros [d p] s' HSd HSp HL Hes E; cbn [fst snd] in *.
    - cbn [fw_load] in E. injection E as <-. auto.
    - assert (Hin : In (id, a, b, w) (verefs v)) by (apply Hes; left; auto).
      assert (Hrest : forall e, In e rest -> In e (verefs v)) by (intros e H; apply Hes; right; auto).
      destruct (fk_refs HF Hin) as [Ha Hb]. fold n in Ha, Hb.
      cbn [fw_load] in E. rewrite (mget_ok 0 HSd Ha Hb) in E. cbn [rbind] in E.
      destruct (Z.ltb w (dm d a b)); [|apply (IH (d, p) s'); auto].
      destruct (mset_ok 0 w HSd Ha Hb) as [d1 [E1 [HS1 Hd1]]].
      destruct (mset_ok None (Some a) HSp Ha Hb) as [p1 [Ep1 [HSp1 Hp1]]].
      rewrite E1 in E. cbn [rbind] in E. rewrite Ep1 in E. cbn [rbind] in E.
      assert (HL1 : LP (d1, p1)).
      { apply (LP_set d p d1 p1 a b w HL); auto. exists id; left; auto. }
      destruct dir eqn:Ed; [apply (IH (d1, p1) s'); auto|].
      destruct (mset_ok 0 w HS1 Hb Ha) as [d2 [E2 [HS2 Hd2]]].
      destruct (mset_ok None (Some b) HSp1 Hb Ha) as [p2 [Ep2 [HSp2 Hp2]]].
      rewrite E2 in E. cbn [rbind] in E. rewrite Ep2 in E. cbn [rbind] in E.
      apply (IH (d2, p2) s'); auto.
      apply (LP_set d1 p1 d2 p2 b a w HL1); auto. exists id; right; auto.
  Qed.

  Lemma fw_diag_P : forall ids s s', Shape n (fst s) -> Shape n (snd s) ->
    (forall i, In i ids -> (i < n)%nat) -> fw_diag ids s = Ok s' ->
    Shape n (fst s') /\ Shape n (snd s') /\
    (forall a b, a <> b -> dm (fst s') a b = dm (fst s) a b /\ pm (snd s') a b = pm (snd s) a b) /\
    (forall i, pm (snd s) i i = Some i -> pm (snd s') i i = Some i) /\
    (forall i, In i ids -> pm (snd s') i i = Some i).
  Proof.
    induction ids as [|i rest IH]; intros [d p] s' HSd HSp Hids E; cbn [fst snd] in *.
    - cbn [fw_diag] in E. injection E as <-. cbn [fst snd]. split; auto. split; auto. split; auto.
      split; auto. intros i [].
    - assert (Hi : (i < n)%nat) by (apply Hids; left; auto).
      assert (Hrest : forall i', In i' rest -> (i' < n)%nat) by (intros i' H; apply Hids; right; auto).
      cbn [fw_diag] in E. rewrite (mget_ok 0 HSd Hi Hi) in E. cbn [rbind] in E.
      destruct (mset_ok None (Some i) HSp Hi Hi) as [p1 [Ep1 [HSp1 Hp1]]].
      assert (Hd1 : exists d1, (if Z.ltb 0 (dm d i i) then mset d i i 0 else Ok d) = Ok d1 /\ Shape n d1 /\
                               forall a b, a <> b -> dm d1 a b = dm d a b).
      { destruct (Z.ltb 0 (dm d i i)).
        - destruct (mset_ok 0 0 HSd Hi Hi) as [d1 [E1 [HS1 Hd1]]]. exists d1. split; auto. split; auto.
          intros a b Hab. rewrite Hd1. destruct (Nat.eqb_spec i a) as [<-|]; cbn [andb]; auto.
          destruct (Nat.eqb_spec i b) as [<-|]; auto. congruence.
        - exists d. auto. }
      destruct Hd1 as [d1 [E1 [HS1 Hd1]]]. rewrite E1 in E. cbn [rbind] in E. rewrite Ep1 in E. cbn [rbind] in E.
      destruct (IH (d1, p1) s' HS1 HSp1 Hrest E) as [HS' [HSp' [Hoff [Hkeep Hset]]]]. cbn [fst snd] in *.
      assert (Hpi : pm p1 i i = Some i) by (rewrite Hp1, !Nat.eqb_refl; reflexivity).
      split; auto. split; auto. split; [|split].
      + intros a b Hab. destruct (Hoff a b Hab) as [H1 H2]. rewrite H1, H2, Hd1, Hp1 by auto.
        destruct (Nat.eqb_spec i a) as [<-|]; cbn [andb]; auto.
        destruct (Nat.eqb_spec i b) as [<-|]; auto. congruence.
      + intros x Hx. apply Hkeep. rewrite Hp1.
        destruct (Nat.eqb_spec i x) as [<-|]; cbn [andb]; auto.
      + intros x [<-|Hx]; auto.
  Qed.

  (* the state before the triple loop *)
  Lemma fw_prefix_full :
    exists s2, rbind (fw_load (vdirected v) (verefs v) (s_init kmax v)) (fw_diag (vnodes v)) = Ok s2 /\
      St kmax v s2 /\
      (forall a b w, estep v a b w -> dm (fst s2) a b <= w) /\
      (forall i, (i < n)%nat -> dm (fst s2) i i <= 0) /\
      (forall a b, (a < n)%nat -> (b < n)%nat -> a <> b ->
         (dm (fst s2) a b = kmax /\ pm (snd s2) a b = None) \/
         (pm (snd s2) a b = Some a /\ estep v a b (dm (fst s2) a b))) /\
      (forall i, (i < n)%nat -> pm (snd s2) i i = Some i).
  Proof.
    destruct (fw_prefix kmax HF) as [s2 [E [HSt [Hstep Hdiag]]]].
    exists s2. split; auto. split; auto. split; auto. split; auto.
    destruct (fw_load (vdirected v) (verefs v) (s_init kmax v)) as [s1| |] eqn:E1; cbn [rbind] in E; try discriminate.
    destruct (St_init kmax v) as [HS0 [HSp0 _]].
    assert (HL0 : LP (s_init kmax v)).
    { intros a b Ha Hb. left. unfold s_init. cbn [fst snd]. split; apply mg_repeat; auto. }
    destruct (fw_load_LP (vdirected v) eq_refl (verefs v) (s_init kmax v) s1 HS0 HSp0 HL0 (fun e H => H) E1)
      as [HL1 [HS1 HSp1]].
    destruct (fw_diag_P (vnodes v) s1 s2 HS1 HSp1 (fk_lt HF) E) as [_ [_ [Hoff [_ Hset]]]].
    split.
    - intros a b Ha Hb Hab. destruct (Hoff a b Hab) as [-> ->]. apply HL1; auto.
    - intros i Hi. apply Hset. apply (fk_all HF); auto.
  Qed.
End Prefix.

(* ------------------------------------------------------------------ the invariant between phases *)
Section Core.
  Variables kmin kmax : Z.
  Variable v : view.
  Hypothesis HF : FOk v.
  Let n := vnode_count v.
  (* simple paths stay below max(); walks of at most 2 n references stay above min() *)
  Hypothesis HB1 : forall i p j, ewalk v i p j -> esimple i p -> ecost p < kmax.
  Hypothesis HW : forall i p j, ewalk v i p j -> (length p <= 2 * n)%nat -> kmin <= ecost p.

  (* the inner vertices of q (all but the last) are below k *)
  Definition inner (k : nat) (q : list (nat * Z)) (j : nat) : Prop :=
    q = [] \/ exists q0 w, q = q0 ++ [(j, w)] /\ forall x, In x (map fst q0) -> (x < k)%nat.

  Definition WK (k : nat) (d : list (list Z)) : Prop :=
    forall i j, (i < n)%nat -> (j < n)%nat -> dm d i j < kmax ->
      exists q, ewalk v i q j /\ ecost q = dm d i j /\ inner k q j.

  Definition NNk (k : nat) : Prop := NNP v (fun x => (x < k)%nat).

  Record CoreI (k : nat) (d : list (list Z)) : Prop := {
    ciS : Shape n d;
    ciU : forall i j, (i < n)%nat -> (j < n)%nat -> dm d i j <= kmax;
    ciD : forall i, (i < n)%nat -> dm d i i = 0;
    ciW : WK k d;
    ciL : Low v k d;
    ciN : NNk k;
    ciE : forall a b w, estep v a b w -> dm d a b <= w
  }.

  Lemma simple_short i p j : ewalk v i p j -> esimple i p -> (i < n)%nat -> (S (length p) <= n)%nat.
  Proof.
    intros W Hs Hi.
    assert (Hincl : incl (i :: map fst p) (seq 0 n)).
    { intros x [<-|Hx]; apply in_seq; [lia|]. pose proof (ewalk_vertices_lt HF W Hx) as H. fold n in H. lia. }
    pose proof (NoDup_incl_length Hs Hincl) as H. rewrite seq_length in H. cbn [length] in H.
    rewrite map_length in H. exact H.
  Qed.

  Lemma wk_short k d i j : CoreI k d -> (i < n)%nat -> (j < n)%nat -> dm d i j < kmax ->
    exists q', ewalk v i q' j /\ (length q' <= n)%nat /\ ecost q' <= dm d i j.
  Proof.
    intros HC Hi Hj Hfin. destruct (ciW k d HC i j Hi Hj Hfin) as [q [W [Cq [->|[q0 [w [-> Hin]]]]]]].
    - exists []. split; auto. split; [cbn [length]; lia|lia].
    - destruct (ewalk_app_inv W) as [m [W0 W1]].
      destruct (eshorten_gen v (fun x => (x < k)%nat) (ciN k d HC) (length q0) q0 i m (le_n _) W0 Hin)
        as [p0 [Wp [Hs [Hc _]]]].
      exists (p0 ++ [(j, w)]). split; [eapply ewalk_app; eauto|].
      pose proof (simple_short i p0 m Wp Hs Hi). rewrite app_length. cbn [length].
      split; [lia|]. rewrite ecost_app in *. lia.
  Qed.

  Lemma sum_low k d i m j : CoreI k d -> (i < n)%nat -> (m < n)%nat -> (j < n)%nat ->
    dm d i m < kmax -> dm d m j < kmax -> kmin <= dm d i m + dm d m j.
  Proof.
    intros HC Hi Hm Hj H1 H2.
    destruct (wk_short k d i m HC Hi Hm H1) as [q1 [W1 [L1 C1]]].
    destruct (wk_short k d m j HC Hm Hj H2) as [q2 [W2 [L2 C2]]].
    assert (kmin <= ecost (q1 ++ q2)).
    { apply (HW i (q1 ++ q2) j); [eapply ewalk_app; eauto|]. rewrite app_length. lia. }
    rewrite ecost_app in *. lia.
  Qed.

  Lemma step_le d k i j : dm d i k < kmax -> dm d k j < kmax -> kmin <= dm d i k + dm d k j <= kmax ->
    step_d kmin kmax d k i j <= dm d i k + dm d k j.
  Proof.
    intros H1 H2 [H3 H4]. unfold step_d, fires.
    destruct (Z.ltb_spec (dm d i k) kmax); [|lia]. destruct (Z.ltb_spec (dm d k j) kmax); [|lia].
    destruct (Z.leb_spec (dm d i k + dm d k j) kmax); [|lia]. destruct (Z.leb_spec kmin (dm d i k + dm d k j)); [|lia].
    cbn [andb]. destruct (Z.ltb_spec (dm d i k + dm d k j) (dm d i j)); lia.
  Qed.

  Lemma step_mono d k i j : step_d kmin kmax d k i j <= dm d i j.
  Proof.
    unfold step_d. destruct (fires kmin kmax d k i j) eqn:E; [|lia].
    unfold fires in E. apply andb_prop in E. destruct E as [_ E]. apply Z.ltb_lt in E. lia.
  Qed.

  Lemma fires_true d k i j : fires kmin kmax d k i j = true ->
    dm d i k < kmax /\ dm d k j < kmax /\ dm d i k + dm d k j <= kmax /\ dm d i k + dm d k j < dm d i j.
  Proof.
    unfold fires. intros E. repeat (apply andb_prop in E; destruct E as [E ?]).
    apply Z.ltb_lt in E. apply Z.ltb_lt in H. apply Z.ltb_lt in H2. apply Z.leb_le in H1. auto.
  Qed.

  Lemma core_Wt k d : CoreI k d -> Wt kmax v d.
  Proof.
    intros HC i j Hi Hj. split; [apply (ciU k d HC); auto|].
    intros Hfin. destruct (ciW k d HC i j Hi Hj Hfin) as [q [W [Cq _]]]. exists q; auto.
  Qed.

  Lemma inner_mono k q j : inner k q j -> inner (S k) q j.
  Proof.
    intros [->|[q0 [w [-> H]]]]; [left; auto|right]. exists q0, w. split; auto.
    intros x Hx. specialize (H x Hx). lia.
  Qed.

  (* one phase, seen as a synchronous update, when the diagonal stays non-negative *)
  Lemma core_phase k d0 d1 : CoreI k d0 -> (k < n)%nat -> Shape n d1 ->
    (forall i j, (i < n)%nat -> (j < n)%nat -> dm d1 i j = step_d kmin kmax d0 k i j) ->
    (forall i, (i < n)%nat -> 0 <= dm d1 i i) ->
    CoreI (S k) d1.
  Proof.
    intros HC Hk HS1 Hd1 Hdiag.
    assert (Hkk : dm d0 k k = 0) by (apply (ciD k d0 HC); auto).
    assert (Hmono : forall i j, (i < n)%nat -> (j < n)%nat -> dm d1 i j <= dm d0 i j).
    { intros i j Hi Hj. rewrite Hd1 by auto. apply step_mono. }
    assert (HLow : Low v (S k) d1).
    { intros i j p W Hs Hne Hin.
      assert (Hpne : p <> []) by (intros ->; apply ewalk_nil_inv in W; congruence).
      destruct (ewalk_lt HF W Hpne) as [Hi Hj]. fold n in Hi, Hj.
      assert (Hbase : (forall x, In x (map fst p) -> x = j \/ (x < k)%nat) -> dm d1 i j <= ecost p).
      { intros Hin'. pose proof (ciL k d0 HC i j p W Hs Hne Hin'). specialize (Hmono i j Hi Hj). lia. }
      destruct (in_dec Nat.eq_dec k (map fst p)) as [Hkin|Hknin].
      - destruct (Nat.eq_dec k j) as [Hkj|Hkj].
        + apply Hbase. intros x Hx. destruct (Hin x Hx) as [->|Hlt]; auto.
          destruct (Nat.eq_dec x j); auto. right; lia.
        + destruct (esplit_at W Hs Hkin Hkj) as [p1 [p2 [Hp [W1 [W2 [Hs1 [Hs2 [Hik [Hin1 Hin2]]]]]]]]].
          assert (L1 : dm d0 i k <= ecost p1).
          { apply (ciL k d0 HC i k p1 W1 Hs1 Hik). intros x Hx. destruct (Hin1 x Hx) as [->|[Hxp [Hxk Hxj]]]; auto.
            destruct (Hin x Hxp) as [->|Hlt]; [congruence|]. right; lia. }
          assert (L2 : dm d0 k j <= ecost p2).
          { apply (ciL k d0 HC k j p2 W2 Hs2 Hkj). intros x Hx. destruct (Hin2 x Hx) as [Hxp Hxk].
            destruct (Hin x Hxp) as [->|Hlt]; auto. right; lia. }
          pose proof (HB1 _ _ _ W1 Hs1) as B1. pose proof (HB1 _ _ _ W2 Hs2) as B2. pose proof (HB1 _ _ _ W Hs) as B.
          rewrite Hp, ecost_app in *.
          assert (F1 : dm d0 i k < kmax) by lia. assert (F2 : dm d0 k j < kmax) by lia.
          pose proof (sum_low k d0 i k j HC Hi Hk Hj F1 F2) as B3.
          rewrite Hd1 by auto.
          assert (step_d kmin kmax d0 k i j <= dm d0 i k + dm d0 k j) by (apply step_le; lia). lia.
      - apply Hbase. intros x Hx. destruct (Hin x Hx) as [->|Hlt]; auto.
        right. assert (x <> k) by (intros ->; auto). lia. }
    constructor; auto.
    - intros i j Hi Hj. specialize (Hmono i j Hi Hj). pose proof (ciU k d0 HC i j Hi Hj). lia.
    - intros i Hi. specialize (Hmono i i Hi Hi). specialize (Hdiag i Hi). rewrite (ciD k d0 HC i Hi) in Hmono. lia.
    - intros i j Hi Hj Hfin. rewrite Hd1 in * by auto. unfold step_d in *.
      destruct (fires kmin kmax d0 k i j) eqn:Ef.
      + destruct (fires_true d0 k i j Ef) as [F1 [F2 _]].
        assert (Hik : i <> k /\ j <> k).
        { split; intros ->; rewrite (fires_diag_k kmin kmax d0 k) in Ef; auto; try discriminate; lia. }
        destruct Hik as [Hik Hjk].
        destruct (ciW k d0 HC i k Hi Hk F1) as [q1 [W1 [C1 I1]]].
        destruct (ciW k d0 HC k j Hk Hj F2) as [q2 [W2 [C2 I2]]].
        destruct I1 as [->|[q10 [w1 [-> H1]]]]; [apply ewalk_nil_inv in W1; congruence|].
        destruct I2 as [->|[q20 [w2 [-> H2]]]]; [apply ewalk_nil_inv in W2; congruence|].
        exists ((q10 ++ [(k, w1)]) ++ q20 ++ [(j, w2)]). split; [eapply ewalk_app; eauto|].
        split; [rewrite ecost_app; lia|]. right. exists ((q10 ++ [(k, w1)]) ++ q20), w2.
        split; [rewrite <- !app_assoc; reflexivity|].
        intros x Hx. rewrite !map_app in Hx. cbn [map fst] in Hx.
        apply in_app_or in Hx. destruct Hx as [Hx|Hx]; [apply in_app_or in Hx; destruct Hx as [Hx|[<-|[]]]|].
        * specialize (H1 x Hx). lia.
        * lia.
        * specialize (H2 x Hx). lia.
      + destruct (ciW k d0 HC i j Hi Hj Hfin) as [q [W [Cq Iq]]]. exists q. split; auto. split; auto.
        apply inner_mono; auto.
    - (* no negative closed walk over the vertices 0 .. k *)
      apply NN_of_simple. intros a c Hsc Hv.
      destruct (in_dec Nat.eq_dec k (map fst c)) as [Hkin|Hknin].
      + destruct (scycle_rotate v a c k Hsc Hkin) as [c' [[W' [Hne' Hnd']] [Hcost Hverts]]].
        rewrite <- Hcost. destruct c' as [|[x1 w1] c'']; [congruence|].
        inversion W' as [|a' b' w' p' e' Hst W'']; subst.
        cbn [map fst] in Hnd'. cbn [ecost snd].
        destruct (Z_lt_le_dec (w1 + ecost c'') 0) as [Hneg|]; [exfalso|lia].
        destruct c'' as [|e0 c3].
        * apply ewalk_nil_inv in W''. subst x1. pose proof (ciE k d0 HC k k w1 Hst). cbn [ecost] in Hneg. lia.
        * assert (Hne3 : e0 :: c3 <> []) by discriminate.
          pose proof (ewalk_end_in W'' Hne3) as Hkin3.
          assert (Hx1k : x1 <> k).
          { intros ->. inversion Hnd'; auto. }
          destruct (estep_lt HF Hst) as [_ Hx1]. fold n in Hx1.
          assert (L1 : dm d0 x1 k <= ecost (e0 :: c3)).
          { apply (ciL k d0 HC x1 k (e0 :: c3) W'' Hnd' Hx1k). intros x Hx.
            assert (Hlt : (x < S k)%nat).
            { apply Hv. apply Hverts. cbn [map fst]. right; auto. }
            destruct (Nat.eq_dec x k); auto. right; lia. }
          pose proof (HB1 _ _ _ W'' Hnd') as B1.
          assert (B2 : w1 < kmax).
          { assert (H : ecost [(x1, w1)] < kmax); [|cbn [ecost snd] in H; lia].
            apply (HB1 k [(x1, w1)] x1); [constructor; auto; constructor|].
            unfold esimple. cbn [map fst]. constructor; [intros [H|[]]; congruence|constructor; [intros []|constructor]]. }
          pose proof (ciE k d0 HC k x1 w1 Hst) as L2.
          assert (F1 : dm d0 x1 k < kmax) by lia. assert (F2 : dm d0 k x1 < kmax) by lia.
          pose proof (sum_low k d0 x1 k x1 HC Hx1 Hk Hx1 F1 F2) as B3.
          assert (Hle : step_d kmin kmax d0 k x1 x1 <= dm d0 x1 k + dm d0 k x1).
          { apply step_le; auto. split; auto. pose proof (HB1 0%nat [] 0%nat (ew_nil v 0%nat)) as H0.
            assert (0 < kmax) by (apply H0; constructor; [intros []|constructor]). lia. }
          specialize (Hdiag x1 Hx1). rewrite Hd1 in Hdiag by auto. lia.
      + destruct Hsc as [W _]. apply (ciN k d0 HC a c W). intros x Hx. specialize (Hv x Hx).
        assert (x <> k) by (intros ->; auto). lia.
    - intros a b w Hst. destruct (estep_lt HF Hst) as [Ha Hb]. fold n in Ha, Hb.
      specialize (Hmono a b Ha Hb). pose proof (ciE k d0 HC a b w Hst). lia.
  Qed.
End Core.

(* ------------------------------------------------------------------ F1: every negative cycle is reported *)
Section Complete.
  Variables kmin kmax : Z.
  Variable v : view.
  Hypothesis HF : FOk v.
  Let n := vnode_count v.
  Hypothesis HB1 : forall i p j, ewalk v i p j -> esimple i p -> ecost p < kmax.
  Hypothesis HW : forall i p j, ewalk v i p j -> (length p <= 2 * n)%nat -> kmin <= ecost p.

  Lemma kmax_pos : 0 < kmax.
  Proof. apply (HB1 0%nat [] 0%nat (ew_nil v 0%nat)). constructor; [intros []|constructor]. Qed.

  Lemma phases_range a len k i j : (a + len <= n)%nat -> In (k, i, j) (flat_map (phase v) (seq a len)) ->
    (k < n)%nat /\ (i < n)%nat /\ (j < n)%nat.
  Proof.
    intros Hle Hin. apply in_flat_map in Hin. destruct Hin as [k0 [Hk0 Hin]]. apply in_seq in Hk0.
    apply in_phase in Hin. destruct Hin as [-> [Hi Hj]]. fold n in Hi, Hj. repeat split; auto; lia.
  Qed.

  Lemma core_phases : forall len a s s', (a + len <= n)%nat -> CoreI kmax v a (fst s) -> Shape n (snd s) ->
    fw_fold kmin kmax (flat_map (phase v) (seq a len)) s = Ok s' ->
    (forall i, (i < n)%nat -> 0 <= dm (fst s') i i) ->
    CoreI kmax v (a + len) (fst s') /\ Shape n (snd s').
  Proof.
    induction len as [|len IH]; intros a s s' Hle HC HSp E Hdiag.
    - cbn [seq flat_map fw_fold] in E. injection E as <-. rewrite Nat.add_0_r. auto.
    - cbn [seq flat_map] in E. rewrite fw_fold_app in E.
      assert (Ha : (a < n)%nat) by lia.
      assert (HSt : St kmax v s).
      { split; [apply (ciS kmax v a _ HC)|]. split; auto. apply (core_Wt kmax v a _ HC). }
      assert (Haa : 0 <= dm (fst s) a a) by (rewrite (ciD kmax v a _ HC a Ha); lia).
      destruct (phase_sync kmin kmax v s a (ciS kmax v a _ HC) HSp Ha Haa) as [s1 [E1 [HS1 [HSp1 Hent]]]].
      rewrite E1 in E. cbn [rbind] in E.
      destruct (fw_fold_total kmin HSt (l := phase v a)) as [s1' [E1' [HSt1 _]]].
      { intros k i j H. apply in_phase in H. destruct H as [-> [Hi Hj]]. auto. }
      rewrite E1 in E1'. injection E1' as <-.
      destruct (fw_fold_total kmin HSt1 (l := flat_map (phase v) (seq (S a) len))) as [s'' [E'' [_ HM]]].
      { intros k i j H. apply (phases_range (S a) len); auto. lia. }
      rewrite E in E''. injection E'' as <-.
      assert (Hdiag1 : forall i, (i < n)%nat -> 0 <= dm (fst s1) i i).
      { intros i Hi. specialize (HM i i). specialize (Hdiag i Hi). lia. }
      assert (HC1 : CoreI kmax v (S a) (fst s1)).
      { apply (core_phase kmin kmax v HF HB1 HW a (fst s) (fst s1)); auto.
        intros i j Hi Hj. apply (Hent i j Hi Hj). }
      replace (a + S len)%nat with (S a + len)%nat by lia.
      apply (IH (S a) s1 s'); auto. lia.
  Qed.

  (* the invariant holds before the first phase when the diagonal is not negative *)
  Lemma core_init s2 : St kmax v s2 ->
    (forall a b w, estep v a b w -> dm (fst s2) a b <= w) ->
    (forall i, (i < n)%nat -> dm (fst s2) i i = 0) ->
    (forall a b, (a < n)%nat -> (b < n)%nat -> a <> b ->
       (dm (fst s2) a b = kmax /\ pm (snd s2) a b = None) \/
       (pm (snd s2) a b = Some a /\ estep v a b (dm (fst s2) a b))) ->
    CoreI kmax v 0 (fst s2).
  Proof.
    intros [HS [HSp HWt]] Hstep Hd0 HLP. constructor; auto.
    - intros i j Hi Hj. apply (HWt i j Hi Hj).
    - intros i j Hi Hj Hfin. destruct (Nat.eq_dec i j) as [<-|Hne].
      + exists []. split; [constructor|]. split; [rewrite Hd0; auto|left; auto].
      + destruct (HLP i j Hi Hj Hne) as [[Hk _]|[_ Hst]]; [lia|].
        exists [(j, dm (fst s2) i j)]. split; [constructor; auto; constructor|].
        split; [cbn [ecost snd]; lia|]. right. exists [], (dm (fst s2) i j). split; auto. intros x [].
    - intros i j p W Hs Hne Hin.
      destruct p as [|[b w] p']; [apply ewalk_nil_inv in W; congruence|].
      inversion W as [|a b' w' p'' c Hst Hp']; subst.
      assert (b = j) by (destruct (Hin b (or_introl eq_refl)); [auto|lia]). subst b.
      destruct p' as [|[b2 w2] p3].
      + cbn [ecost snd]. pose proof (Hstep _ _ _ Hst). lia.
      + exfalso. assert (b2 = j) by (destruct (Hin b2 (or_intror (or_introl eq_refl))); [auto|lia]). subst b2.
        unfold esimple in Hs. cbn [map fst] in Hs. inversion Hs as [|a l _ Hnd]; subst.
        inversion Hnd as [|a l Hnin _]; subst. apply Hnin. left; auto.
    - intros a c W Hv. destruct c as [|[b w] c']; [cbn [ecost]; lia|].
      specialize (Hv b (or_introl eq_refl)). lia.
  Qed.

  Theorem fw_complete : eneg_cycle v -> floyd_warshall kmin kmax v = Ok None.
  Proof.
    intros Hneg. pose proof kmax_pos as Hk0.
    destruct (fw_total_sound kmin HF (kmax := kmax)) as [r [E _]]; [lia|].
    destruct r as [s3|]; auto. exfalso.
    destruct (fw_prefix_full kmax v HF) as [s2 [E2 [HSt2 [Hstep [Hdiag [HLP _]]]]]].
    unfold floyd_warshall in E. fold (s_init kmax v) in E.
    destruct (fw_load (vdirected v) (verefs v) (s_init kmax v)) as [s1| |]; cbn [rbind] in *; try discriminate.
    rewrite E2 in E. cbn [rbind] in E.
    destruct (fw_fold_total kmin HSt2 (l := triples_kij (vnode_count v)) (in_triples (v := v)))
      as [s3' [E3 [HSt3 HM3]]].
    rewrite E3 in E. cbn [rbind] in E.
    destruct (existsb _ (seq 0 (vnode_count v))) eqn:Ex; [discriminate|]. injection E as <-.
    assert (Hd3 : forall i, (i < n)%nat -> 0 <= dm (fst s3') i i).
    { intros i Hi. destruct (Z_lt_le_dec (dm (fst s3') i i) 0) as [Hlt|]; auto. exfalso.
      assert (Hex : existsb (fun i => match nth_error (fst s3') i with
                           | Some r => match nth_error r i with Some x => Z.ltb x 0 | None => false end
                           | None => false end) (seq 0 (vnode_count v)) = true).
      { apply existsb_exists. exists i. split; [apply in_seq; fold n; lia|].
        destruct HSt3 as [HS3 _]. rewrite (diag_lookup HS3) by auto. apply Z.ltb_lt; auto. }
      rewrite Hex in Ex. discriminate. }
    assert (Hd2 : forall i, (i < n)%nat -> dm (fst s2) i i = 0).
    { intros i Hi. specialize (HM3 i i). specialize (Hd3 i Hi). specialize (Hdiag i Hi). lia. }
    pose proof (core_init s2 HSt2 Hstep Hd2 HLP) as HC0.
    rewrite triples_phases in E3.
    destruct (core_phases n 0%nat s2 s3') as [HC3 _]; auto.
    { destruct HSt2 as [_ [HSp _]]; auto. }
    cbn [Nat.add] in HC3.
    destruct Hneg as [a [c [W Hc]]].
    assert (0 <= ecost c); [|lia].
    apply (ciN kmax v n _ HC3 a c W). intros x Hx. apply (ewalk_vertices_lt HF W Hx).
  Qed.
End Complete.

(* ------------------------------------------------------------------ F2: the predecessor matrix *)
(* following predecessors from j back to i; the result lists the vertices after i, in path order *)
Fixpoint fw_chain (fuel : nat) (p : list (list (option nat))) (i j : nat) : option (list nat) :=
  match fuel with
  | 0%nat => None
  | S f => if Nat.eqb i j then Some []
           else match pm p i j with
                | None => None
                | Some m => option_map (fun l => l ++ [j]) (fw_chain f p i m)
                end
  end.

Lemma fw_chain_mono p : forall f f' i j l, fw_chain f p i j = Some l -> (f <= f')%nat -> fw_chain f' p i j = Some l.
Proof.
  induction f as [|f IH]; intros f' i j l E Hle; [discriminate|].
  destruct f' as [|f']; [lia|]. cbn [fw_chain] in *.
  destruct (Nat.eqb i j); auto. destruct (pm p i j) as [m|]; [|discriminate].
  destruct (fw_chain f p i m) as [l0|] eqn:E0; [|discriminate].
  rewrite (IH f' i m l0 E0) by lia. exact E.
Qed.

Lemma fw_chain_len p : forall f i j l, fw_chain f p i j = Some l -> fw_chain (S (length l)) p i j = Some l.
Proof.
  induction f as [|f IH]; intros i j l E; [discriminate|].
  cbn [fw_chain] in E. cbn [fw_chain]. destruct (Nat.eqb i j); auto. destruct (pm p i j) as [m|]; [|discriminate].
  destruct (fw_chain f p i m) as [l0|] eqn:E0; [|discriminate].
  cbn [option_map] in E. injection E as <-. rewrite app_length. cbn [length].
  rewrite (fw_chain_mono p _ (length l0 + 1) i m l0 (IH i m l0 E0)) by lia. reflexivity.
Qed.

Section Pred.
  Variables kmin kmax : Z.
  Variable v : view.
  Hypothesis HF : FOk v.
  Let n := vnode_count v.
  Hypothesis HNN : ~ eneg_cycle v.
  Hypothesis HB1 : forall i p j, ewalk v i p j -> esimple i p -> ecost p < kmax.
  Hypothesis HB2 : forall i p k q j, ewalk v i p k -> ewalk v k q j -> kmin <= ecost p + ecost q.

  Lemma HW_of_HB2 : forall i p j, ewalk v i p j -> (length p <= 2 * n)%nat -> kmin <= ecost p.
  Proof. intros i p j W _. pose proof (HB2 i p j [] j W (ew_nil v j)) as H. cbn [ecost] in H. lia. Qed.

  Lemma NN_all : NNP v (fun _ => True).
  Proof.
    intros a c W _. destruct (Z_lt_le_dec (ecost c) 0) as [Hneg|]; auto.
    exfalso. apply HNN. exists a, c; auto.
  Qed.

  Lemma inner_verts k q j : inner k q j -> forall x, In x (map fst q) -> x = j \/ (x < k)%nat.
  Proof.
    intros [->|[q0 [w [-> H]]]] x Hx; [destruct Hx|].
    rewrite map_app in Hx. apply in_app_or in Hx. destruct Hx as [Hx|[<-|[]]]; auto.
  Qed.

  Lemma diag_nonneg s : St kmax v s -> forall i, (i < n)%nat -> 0 <= dm (fst s) i i.
  Proof.
    intros [_ [_ HWt]] i Hi. destruct (HWt i i Hi Hi) as [Hle Hq].
    destruct (Z_lt_le_dec (dm (fst s) i i) kmax) as [Hlt|Hge].
    - destruct (Hq Hlt) as [q [W C]]. pose proof (NN_all i q W (fun _ _ => I)). lia.
    - pose proof (kmax_pos kmax v HB1). lia.
  Qed.

  (* the ghost rank rho orders every vertex after its predecessor *)
  Definition PI (k : nat) (d : list (list Z)) (p : list (list (option nat))) (rho : nat -> nat -> nat) : Prop :=
    (forall i, (i < n)%nat -> pm p i i = Some i /\ rho i i = 0%nat) /\
    (forall i j, (i < n)%nat -> (j < n)%nat -> (rho i j < 2 ^ S k)%nat) /\
    (forall i j, (i < n)%nat -> (j < n)%nat -> i <> j -> dm d i j = kmax -> pm p i j = None) /\
    (forall i j, (i < n)%nat -> (j < n)%nat -> i <> j -> dm d i j < kmax ->
       exists m w, pm p i j = Some m /\ (m < n)%nat /\ estep v m j w /\ dm d i m < kmax /\
         (dm d i m + w < dm d i j \/ (dm d i m + w = dm d i j /\ (rho i m < rho i j)%nat))).

  Lemma through_k k d0 d1 i m : CoreI kmax v k d0 -> CoreI kmax v (S k) d1 -> (k < n)%nat ->
    (i < n)%nat -> (m < n)%nat -> dm d0 i k < kmax -> dm d0 k m < kmax ->
    dm d1 i m <= dm d0 i k + dm d0 k m /\ dm d1 i m < kmax.
  Proof.
    intros HC0 HC1 Hk Hi Hm F1 F2.
    destruct (ciW kmax v k d0 HC0 i k Hi Hk F1) as [q1 [W1 [C1 I1]]].
    destruct (ciW kmax v k d0 HC0 k m Hk Hm F2) as [q2 [W2 [C2 I2]]].
    assert (W : ewalk v i (q1 ++ q2) m) by (eapply ewalk_app; eauto).
    destruct (eshorten_gen v (fun _ => True) NN_all (length (q1 ++ q2)) (q1 ++ q2) i m (le_n _) W (fun _ _ => I))
      as [p' [W' [Hs' [Hc' Hincl]]]].
    rewrite ecost_app in Hc'.
    destruct (Nat.eq_dec i m) as [<-|Hne].
    - rewrite (ciD kmax v (S k) d1 HC1 i Hi). pose proof (kmax_pos kmax v HB1).
      pose proof (NN_all i (q1 ++ q2) W (fun _ _ => I)) as H0. rewrite ecost_app in H0. lia.
    - assert (dm d1 i m <= ecost p').
      { apply (ciL kmax v (S k) d1 HC1 i m p' W' Hs' Hne). intros x Hx. apply Hincl in Hx.
        rewrite map_app in Hx. apply in_app_or in Hx. destruct Hx as [Hx|Hx].
        - destruct (inner_verts k q1 k I1 x Hx) as [->|Hlt]; right; lia.
        - destruct (inner_verts k q2 m I2 x Hx) as [->|Hlt]; [left; auto|right; lia]. }
      pose proof (HB1 _ _ _ W' Hs'). lia.
  Qed.

  Lemma pi_phase k d0 p0 d1 p1 rho : CoreI kmax v k d0 -> CoreI kmax v (S k) d1 -> (k < n)%nat ->
    (forall i j, (i < n)%nat -> (j < n)%nat -> ent_step kmin kmax (d0, p0) (d1, p1) k i j) ->
    PI k d0 p0 rho ->
    PI (S k) d1 p1 (fun i j => if fires kmin kmax d0 k i j then (2 ^ S k + rho k j)%nat else rho i j).
  Proof.
    intros HC0 HC1 Hk Hent [Hdg [Hrb [Hinf Hmain]]].
    assert (Hkk : 0 <= dm d0 k k) by (rewrite (ciD kmax v k d0 HC0 k Hk); lia).
    assert (Hd1 : forall i j, (i < n)%nat -> (j < n)%nat -> dm d1 i j = step_d kmin kmax d0 k i j).
    { intros i j Hi Hj. apply (Hent i j Hi Hj). }
    assert (Hp1 : forall i j, (i < n)%nat -> (j < n)%nat -> pm p1 i j = step_p kmin kmax d0 p0 k i j).
    { intros i j Hi Hj. apply (Hent i j Hi Hj). }
    assert (Hfd : forall i, (i < n)%nat -> fires kmin kmax d0 k i i = false).
    { intros i Hi. destruct (fires kmin kmax d0 k i i) eqn:Ef; auto. exfalso.
      destruct (fires_true kmin kmax d0 k i i Ef) as [_ [_ [_ Hlt]]].
      pose proof (Hd1 i i Hi Hi) as H. unfold step_d in H. rewrite Ef in H.
      rewrite (ciD kmax v (S k) d1 HC1 i Hi) in H. rewrite (ciD kmax v k d0 HC0 i Hi) in Hlt. lia. }
    assert (Hpow : (2 ^ S (S k) = 2 ^ S k + 2 ^ S k)%nat) by (rewrite (Nat.pow_succ_r' 2 (S k)); lia).
    split; [|split; [|split]].
    - intros i Hi. rewrite Hp1 by auto. unfold step_p. rewrite (Hfd i Hi). apply Hdg; auto.
    - intros i j Hi Hj. destruct (fires kmin kmax d0 k i j).
      + specialize (Hrb k j Hk Hj). lia.
      + specialize (Hrb i j Hi Hj). lia.
    - intros i j Hi Hj Hne Hmax. rewrite Hd1 in Hmax by auto. rewrite Hp1 by auto.
      unfold step_d in Hmax. unfold step_p. destruct (fires kmin kmax d0 k i j) eqn:Ef.
      + destruct (fires_true kmin kmax d0 k i j Ef) as [_ [_ [Hle Hlt]]].
        pose proof (ciU kmax v k d0 HC0 i j Hi Hj). lia.
      + apply Hinf; auto.
    - intros i j Hi Hj Hne Hfin. rewrite Hd1 in Hfin by auto. rewrite (Hd1 i j) by auto. rewrite Hp1 by auto.
      unfold step_d in *. unfold step_p. destruct (fires kmin kmax d0 k i j) eqn:Ef.
      + destruct (fires_true kmin kmax d0 k i j Ef) as [F1 [F2 [Hle Hlt]]].
        assert (Hjk : j <> k).
        { intros ->. rewrite (fires_diag_k kmin kmax d0 k i k Hkk) in Ef; [discriminate|auto]. }
        destruct (Hmain k j Hk Hj (not_eq_sym Hjk) F2) as [m [w [Hp [Hm [Hst [Fm Hlex]]]]]].
        destruct (through_k k d0 d1 i m HC0 HC1 Hk Hi Hm F1 Fm) as [Hthr Hfm].
        exists m, w. split; auto. split; auto. split; auto. split; auto.
        destruct (Z_lt_le_dec (dm d1 i m + w) (dm d0 i k + dm d0 k j)) as [|Hge]; [left; auto|right].
        assert (Htie : dm d0 k m + w = dm d0 k j /\ (rho k m < rho k j)%nat) by (destruct Hlex as [|[? ?]]; [lia|split; auto; lia]).
        destruct Htie as [Htie Hrho]. split; [lia|].
        destruct (fires kmin kmax d0 k i m); [lia|]. specialize (Hrb i m Hi Hm). lia.
      + destruct (Hmain i j Hi Hj Hne Hfin) as [m [w [Hp [Hm [Hst [Fm Hlex]]]]]].
        exists m, w. split; auto. split; auto. split; auto.
        rewrite (Hd1 i m) by auto. unfold step_d.
        destruct (fires kmin kmax d0 k i m) eqn:Efm.
        * destruct (fires_true kmin kmax d0 k i m Efm) as [_ [_ [_ Hlt]]]. split; [lia|]. left. lia.
        * split; auto.
  Qed.

  Lemma pi_phases : forall len a s s', (a + len <= n)%nat -> CoreI kmax v a (fst s) -> Shape n (snd s) ->
    (exists rho, PI a (fst s) (snd s) rho) ->
    fw_fold kmin kmax (flat_map (phase v) (seq a len)) s = Ok s' ->
    CoreI kmax v (a + len) (fst s') /\ Shape n (snd s') /\ exists rho, PI (a + len) (fst s') (snd s') rho.
  Proof.
    induction len as [|len IH]; intros a s s' Hle HC HSp HPI E.
    - cbn [seq flat_map fw_fold] in E. injection E as <-. rewrite Nat.add_0_r. auto.
    - cbn [seq flat_map] in E. rewrite fw_fold_app in E.
      assert (Ha : (a < n)%nat) by lia.
      assert (HSt : St kmax v s).
      { split; [apply (ciS kmax v a _ HC)|]. split; auto. apply (core_Wt kmax v a _ HC). }
      assert (Haa : 0 <= dm (fst s) a a) by (rewrite (ciD kmax v a _ HC a Ha); lia).
      destruct (phase_sync kmin kmax v s a (ciS kmax v a _ HC) HSp Ha Haa) as [s1 [E1 [HS1 [HSp1 Hent]]]].
      rewrite E1 in E. cbn [rbind] in E.
      destruct (fw_fold_total kmin HSt (l := phase v a)) as [s1' [E1' [HSt1 _]]].
      { intros k i j H. apply in_phase in H. destruct H as [-> [Hi Hj]]. auto. }
      rewrite E1 in E1'. injection E1' as <-.
      assert (HC1 : CoreI kmax v (S a) (fst s1)).
      { apply (core_phase kmin kmax v HF HB1 HW_of_HB2 a (fst s) (fst s1)); auto.
        - intros i j Hi Hj. apply (Hent i j Hi Hj).
        - apply (diag_nonneg s1 HSt1). }
      destruct HPI as [rho HPI].
      replace (a + S len)%nat with (S a + len)%nat by lia.
      apply (IH (S a) s1 s'); auto; [lia|].
      eexists. apply (pi_phase a (fst s) (snd s) (fst s1) (snd s1) rho); auto.
  Qed.
End Pred.

Section PredFinal.
  Variables kmin kmax : Z.
  Variable v : view.
  Hypothesis HF : FOk v.
  Let n := vnode_count v.
  Hypothesis HNN : ~ eneg_cycle v.
  Hypothesis HB1 : forall i p j, ewalk v i p j -> esimple i p -> ecost p < kmax.
  Hypothesis HB2 : forall i p k q j, ewalk v i p k -> ewalk v k q j -> kmin <= ecost p + ecost q.

  Definition PredSpec (d : list (list Z)) (p : list (list (option nat))) : Prop :=
    (forall i, (i < n)%nat -> pm p i i = Some i) /\
    (forall i j, (i < n)%nat -> (j < n)%nat -> i <> j -> ~ ereachable v i j -> pm p i j = None) /\
    (forall i j, (i < n)%nat -> (j < n)%nat -> i <> j -> ereachable v i j ->
       exists m w, pm p i j = Some m /\ (m < n)%nat /\ estep v m j w /\ ereachable v i m /\
                   dm d i m + w = dm d i j) /\
    (forall i j, (i < n)%nat -> (j < n)%nat -> ereachable v i j ->
       exists l q, fw_chain n p i j = Some l /\ ewalk v i q j /\ map fst q = l /\ esimple i q /\
                   ecost q = dm d i j).

  Theorem fw_path_spec :
    exists d p, floyd_warshall kmin kmax v = Ok (Some (d, p)) /\ Shape n d /\ Shape n p /\
      (forall i j, (i < n)%nat -> (j < n)%nat ->
         (dm d i j = kmax <-> ~ ereachable v i j) /\ (ereachable v i j -> edist v i j (dm d i j))) /\
      PredSpec d p.
  Proof.
    destruct (fw_exact HF HNN HB1 HB2) as [d [p [E [HSd [HSp Hex]]]]]. fold n in HSd, HSp, Hex.
    exists d, p. split; auto. split; auto. split; auto. split; auto.
    destruct (fw_prefix_full kmax v HF) as [s2 [E2 [HSt2 [Hstep [Hdiag [HLP Hpd]]]]]]. fold n in Hdiag, HLP, Hpd.
    assert (E3 : fw_fold kmin kmax (triples_kij n) s2 = Ok (d, p)).
    { pose proof E as E'. unfold floyd_warshall in E'. fold (s_init kmax v) in E'.
      destruct (fw_load (vdirected v) (verefs v) (s_init kmax v)) as [s1| |]; cbn [rbind] in *; try discriminate.
      rewrite E2 in E'. cbn [rbind] in E'.
      destruct (fw_fold_total kmin HSt2 (l := triples_kij (vnode_count v)) (in_triples (v := v)))
        as [s3' [E3 _]].
      fold n in E3. fold n in E'. rewrite E3 in E'. cbn [rbind] in E'.
      destruct (existsb _ (seq 0 n)); [discriminate|]. injection E' as <-. exact E3. }
    assert (Hd2 : forall i, (i < n)%nat -> dm (fst s2) i i = 0).
    { intros i Hi. pose proof (diag_nonneg kmax v HNN HB1 s2 HSt2 i Hi). specialize (Hdiag i Hi). lia. }
    pose proof (core_init kmax v s2 HSt2 Hstep Hd2 HLP) as HC0.
    assert (HPI0 : PI kmax v 0 (fst s2) (snd s2) (fun i j => if Nat.eqb i j then 0%nat else 1%nat)).
    { split; [|split; [|split]].
      - intros i Hi. rewrite Nat.eqb_refl. split; auto.
      - intros i j Hi Hj. cbn. destruct (Nat.eqb i j); lia.
      - intros i j Hi Hj Hne Hmax. destruct (HLP i j Hi Hj Hne) as [[_ Hp]|[_ Hst]]; auto.
        exfalso. rewrite Hmax in Hst.
        assert (H : ecost [(j, kmax)] < kmax); [|cbn [ecost snd] in H; lia].
        apply (HB1 i [(j, kmax)] j); [constructor; auto; constructor|].
        unfold esimple. cbn [map fst]. constructor; [intros [H|[]]; congruence|constructor; [intros []|constructor]].
      - intros i j Hi Hj Hne Hfin. destruct (HLP i j Hi Hj Hne) as [[Hmax _]|[Hp Hst]]; [lia|].
        exists i, (dm (fst s2) i j). split; auto. split; auto. split; auto.
        rewrite (Hd2 i Hi). pose proof (kmax_pos kmax v HB1). split; [lia|]. right. split; [lia|].
        rewrite Nat.eqb_refl. destruct (Nat.eqb_spec i j); [congruence|lia]. }
    unfold n in E3. rewrite triples_phases in E3.
    destruct (pi_phases kmin kmax v HF HNN HB1 HB2 n 0%nat s2 (d, p)) as [HCn [_ [rho HPIn]]]; auto.
    { destruct HSt2 as [_ [H _]]; auto. }
    { eexists; eauto. }
    cbn [Nat.add fst snd] in HCn, HPIn. fold n in HCn, HPIn.
    destruct HPIn as [Hdg [_ [Hinf Hmain]]].
    assert (Hfin : forall i j, (i < n)%nat -> (j < n)%nat -> ereachable v i j -> dm d i j < kmax).
    { intros i j Hi Hj Hr. pose proof (ciU kmax v n d HCn i j Hi Hj). destruct (Hex i j Hi Hj) as [[Hm _] _].
      destruct (Z.eq_dec (dm d i j) kmax) as [Heq|]; [|lia]. exfalso. apply (Hm Heq); auto. }
    assert (Hreach : forall i j, (i < n)%nat -> (j < n)%nat -> dm d i j < kmax -> ereachable v i j).
    { intros i j Hi Hj Hlt. destruct (ciW kmax v n d HCn i j Hi Hj Hlt) as [q [W _]]. exists q; auto. }
    (* the predecessor edge is tight and lowers the rank *)
    assert (Htight : forall i j, (i < n)%nat -> (j < n)%nat -> i <> j -> dm d i j < kmax ->
              exists m w, pm p i j = Some m /\ (m < n)%nat /\ estep v m j w /\ dm d i m < kmax /\
                          dm d i m + w = dm d i j /\ (rho i m < rho i j)%nat).
    { intros i j Hi Hj Hne Hlt. destruct (Hmain i j Hi Hj Hne Hlt) as [m [w [Hp [Hm [Hst [Fm Hlex]]]]]].
      exists m, w. split; auto. split; auto. split; auto. split; auto.
      destruct (ciW kmax v n d HCn i m Hi Hm Fm) as [qm [Wm [Cm _]]].
      assert (Wj : ewalk v i (qm ++ [(j, w)]) j) by (eapply ewalk_app; eauto; constructor; auto; constructor).
      destruct (Hex i j Hi Hj) as [_ Hd]. destruct (Hd (Hreach i j Hi Hj Hlt)) as [_ Hlow].
      pose proof (Hlow _ Wj) as H. rewrite ecost_app in H. cbn [ecost snd] in H.
      destruct Hlex as [|[? ?]]; [lia|split; auto]. }
    split; [|split; [|split]].
    - intros i Hi. apply Hdg; auto.
    - intros i j Hi Hj Hne Hnr. apply Hinf; auto. apply (Hex i j Hi Hj). auto.
    - intros i j Hi Hj Hne Hr.
      destruct (Htight i j Hi Hj Hne (Hfin i j Hi Hj Hr)) as [m [w [Hp [Hm [Hst [Fm [Ht _]]]]]]].
      exists m, w. repeat split; auto.
    - (* following predecessors *)
      assert (Hchain : forall r i j, (rho i j < r)%nat -> (i < n)%nat -> (j < n)%nat -> dm d i j < kmax ->
                exists f l q, fw_chain f p i j = Some l /\ ewalk v i q j /\ map fst q = l /\ ecost q = dm d i j /\
                              NoDup l /\ forall x, In x l -> x <> i /\ (x < n)%nat /\ (rho i x <= rho i j)%nat).
      { induction r as [|r IH]; intros i j Hr Hi Hj Hlt; [lia|].
        destruct (Nat.eq_dec i j) as [<-|Hne].
        - exists 1%nat, [], []. cbn [fw_chain]. rewrite Nat.eqb_refl. split; auto. split; [constructor|].
          split; auto. split; [rewrite (ciD kmax v n d HCn i Hi); reflexivity|]. split; [constructor|intros x []].
        - destruct (Htight i j Hi Hj Hne Hlt) as [m [w [Hp [Hm [Hst [Fm [Ht Hrho]]]]]]].
          destruct (IH i m) as [f [l [q [Ec [Wq [Hl [Cq [Hnd Hall]]]]]]]]; auto; [lia|].
          exists (S f), (l ++ [j]), (q ++ [(j, w)]). split; [|split; [|split; [|split; [|split]]]].
          + cbn [fw_chain]. destruct (Nat.eqb_spec i j); [congruence|]. rewrite Hp, Ec. reflexivity.
          + eapply ewalk_app; eauto. constructor; auto. constructor.
          + rewrite map_app, Hl. reflexivity.
          + rewrite ecost_app. cbn [ecost snd]. lia.
          + apply NoDup_app_intro; auto; [constructor; [intros []|constructor]|].
            intros x Hx [Heq|[]]. subst x. destruct (Hall j Hx) as [_ [_ Hle]]. lia.
          + intros x Hx. apply in_app_or in Hx. destruct Hx as [Hx|[<-|[]]].
            * destruct (Hall x Hx) as [H1 [H2 H3]]. repeat split; auto. lia.
            * repeat split; auto. }
      intros i j Hi Hj Hr.
      destruct (Hchain (S (rho i j)) i j (Nat.lt_succ_diag_r _) Hi Hj (Hfin i j Hi Hj Hr))
        as [f [l [q [Ec [Wq [Hl [Cq [Hnd Hall]]]]]]]].
      assert (Hsim : esimple i q).
      { unfold esimple. rewrite Hl. constructor; auto. intros Hin. destruct (Hall i Hin) as [H _]. congruence. }
      exists l, q. split; [|auto].
      pose proof (simple_short v HF i q j Wq Hsim Hi) as Hlen. fold n in Hlen.
      apply (fw_chain_mono p (S (length l))); [apply (fw_chain_len p f); auto|].
      rewrite <- Hl, map_length. exact Hlen.
  Qed.
End PredFinal.

(* ------------------------------------------------------------------ corollaries and side conditions *)
Theorem fw_err_iff kmin kmax v : FOk v ->
  (forall i p j, ewalk v i p j -> esimple i p -> ecost p < kmax) ->
  (forall i p j, ewalk v i p j -> (length p <= 2 * vnode_count v)%nat -> kmin <= ecost p) ->
  (floyd_warshall kmin kmax v = Ok None <-> eneg_cycle v).
Proof.
  intros HF HB1 HW. split.
  - intros E. pose proof (kmax_pos kmax v HB1) as Hk.
    destruct (fw_total_sound kmin HF (kmax := kmax)) as [r [E' Hr]]; [lia|].
    rewrite E in E'. injection E' as <-. auto.
  - apply (fw_complete kmin kmax v HF HB1 HW).
Qed.

Theorem fw_complete_bounds kmin kmax v M : FOk v -> 0 <= M ->
  (forall a b w, estep v a b w -> - M <= w <= M) ->
  Z.of_nat (vnode_count v) * M < kmax -> 0 < kmax -> kmin <= - (2 * (Z.of_nat (vnode_count v) * M)) ->
  (forall i p j, ewalk v i p j -> esimple i p -> ecost p < kmax) /\
  (forall i p j, ewalk v i p j -> (length p <= 2 * vnode_count v)%nat -> kmin <= ecost p).
Proof.
  intros HF HM0 HM Hmax Hk0 Hmin. split.
  - intros i p j W Hs. destruct p as [|e p']; [cbn [ecost]; lia|].
    assert (Hne : e :: p' <> []) by discriminate.
    destruct (ewalk_lt HF W Hne) as [Hi _].
    pose proof (simple_short v HF i (e :: p') j W Hs Hi) as Hlen.
    pose proof (ecost_bound HM W). nia.
  - intros i p j W Hlen. pose proof (ecost_bound HM W).
    assert (Z.of_nat (length p) <= 2 * Z.of_nat (vnode_count v)) by lia. nia.
Qed.

(* ------------------------------------------------------------------ boolean checkers for concrete views *)
Definition fok_b (v : view) : bool :=
  forallb (fun i => existsb (Nat.eqb i) (vnodes v)) (seq 0 (vnode_count v)) &&
  forallb (fun i => Nat.ltb i (vnode_count v)) (vnodes v) &&
  forallb (fun r : nat * nat * nat * Z =>
             let '(_, a, b, _) := r in Nat.ltb a (vnode_count v) && Nat.ltb b (vnode_count v)) (verefs v).

Lemma fok_b_ok v : fok_b v = true -> FOk v.
Proof.
  unfold fok_b. intros H. apply andb_prop in H. destruct H as [H H3]. apply andb_prop in H. destruct H as [H1 H2].
  rewrite forallb_forall in H1, H2, H3. constructor.
  - intros i Hi. assert (Hin : In i (seq 0 (vnode_count v))) by (apply in_seq; lia).
    specialize (H1 i Hin). apply existsb_exists in H1. destruct H1 as [y [Hy E]]. apply Nat.eqb_eq in E. subst; auto.
  - intros i Hi. apply Nat.ltb_lt. auto.
  - intros id a b w Hin. specialize (H3 _ Hin). cbn in H3. apply andb_prop in H3. destruct H3 as [Ha Hb].
    apply Nat.ltb_lt in Ha. apply Nat.ltb_lt in Hb. auto.
Qed.

Definition ebound_b (v : view) (M : Z) : bool :=
  forallb (fun r : nat * nat * nat * Z => let '(_, _, _, w) := r in Z.leb (- M) w && Z.leb w M) (verefs v).

Lemma ebound_b_ok v M : ebound_b v M = true -> forall a b w, estep v a b w -> - M <= w <= M.
Proof.
  unfold ebound_b. intros H a b w [id [Hin|[_ Hin]]]; rewrite forallb_forall in H; specialize (H _ Hin);
    cbn in H; apply andb_prop in H; destruct H as [H1 H2]; apply Z.leb_le in H1; apply Z.leb_le in H2; lia.
Qed.
