(* C20e, the weight of the result (the proved links of the 2-approximation): on a view without parallel
   edges the result of steiner_for weighs no more than the closure tree it was built from:
     result <= spanning forest of the union of the paths <= union of the paths
            <= sum over the closure-tree edges of the path length = weight of the closure tree. *)
From Coq Require Import Lia ZArith Bool Permutation.
From PG Require Import Lib.Io Model.View Model.Traversal Model.ShortestM Model.UnionFindM Model.MstM Model.MiscM Model.SteinerM
  Spec.Partition Spec.Forest Spec.MiscSpec Spec.Paths Spec.EPaths
  Proofs.ForestP Proofs.MstP Proofs.FloydP Proofs.FloydCompleteP Proofs.DijkstraP
  Proofs.MiscSteinerP1 Proofs.MiscSteinerP2 Proofs.SteinerMP1 Proofs.SteinerMP2 Proofs.SteinerMP3 Proofs.SteinerMP.
Local Open Scope nat_scope.

Definition upair (r : edge4) : nat * nat := let '(_, a, b, _) := r in (Nat.min a b, Nat.max a b).
Definition ukey (p : nat * nat) : nat * nat := (Nat.min (fst p) (snd p), Nat.max (fst p) (snd p)).

(* no two edge references on the same unordered pair of nodes *)
Definition SimpleRefs (v : view) : Prop := NoDup (map upair (verefs v)).

Definition pair_eqb (p q : nat * nat) : bool := andb (Nat.eqb (fst p) (fst q)) (Nat.eqb (snd p) (snd q)).
Lemma pair_eqb_eq p q : pair_eqb p q = true <-> p = q.
Proof.
  destruct p as [a b], q as [c d]. unfold pair_eqb. cbn [fst snd]. rewrite andb_true_iff, !Nat.eqb_eq.
  split; [intros [-> ->]; reflexivity | intros E; injection E as -> ->; split; reflexivity].
Qed.

Definition wk (v : view) (k : nat * nat) : Z :=
  match List.find (fun r => pair_eqb (upair r) k) (verefs v) with Some r => snd r | None => 0%Z end.

Lemma NoDup_map_inj {A B} (f : A -> B) : forall l, NoDup (map f l) ->
  forall x y, In x l -> In y l -> f x = f y -> x = y.
Proof.
  induction l as [|h t IH]; intros ND x y Hx Hy E; [destruct Hx|].
  cbn [map] in ND. inversion ND as [|z r Hz Hr]; subst.
  destruct Hx as [<-|Hx]; destruct Hy as [<-|Hy]; auto.
  - exfalso. apply Hz. rewrite E. apply in_map, Hy.
  - exfalso. apply Hz. rewrite <- E. apply in_map, Hx.
Qed.

Lemma wk_ref v r : SimpleRefs v -> In r (verefs v) -> wk v (upair r) = snd r.
Proof.
  intros HS Hr. unfold wk. destruct (List.find (fun r0 => pair_eqb (upair r0) (upair r)) (verefs v)) as [r'|] eqn:Ef.
  - apply find_some in Ef. destruct Ef as [Hr' E]. apply pair_eqb_eq in E.
    rewrite (NoDup_map_inj upair _ HS r' r Hr' Hr E). reflexivity.
  - exfalso. pose proof (find_none _ _ Ef r Hr) as E. cbn beta in E.
    assert (pair_eqb (upair r) (upair r) = true) by (apply pair_eqb_eq; reflexivity). congruence.
Qed.

Lemma wk_step v x y w : SimpleRefs v -> estep v x y w -> wk v (ukey (x, y)) = w.
Proof.
  intros HS [i [Hin|[_ Hin]]].
  - change (ukey (x, y)) with (upair (i, x, y, w)). rewrite (wk_ref v _ HS Hin). reflexivity.
  - assert (E : ukey (x, y) = upair (i, y, x, w)).
    { unfold ukey, upair. cbn [fst snd]. rewrite Nat.min_comm, Nat.max_comm. reflexivity. }
    rewrite E, (wk_ref v _ HS Hin). reflexivity.
Qed.

Lemma zsum_app l1 l2 : zsum (l1 ++ l2) = (zsum l1 + zsum l2)%Z.
Proof. unfold zsum. induction l1 as [|h t IH]; cbn [app fold_right]; [lia|]. rewrite IH. lia. Qed.

Lemma sum_incl_le {K} (f : K -> Z) : forall A B, NoDup A -> incl A B -> (forall b, In b B -> (0 <= f b)%Z) ->
  (zsum (map f A) <= zsum (map f B))%Z.
Proof.
  induction A as [|a A IH]; intros B ND Hi Hn.
  - cbn [map]. unfold zsum at 1. cbn [fold_right].
    clear Hi. induction B as [|b B IHB]; [unfold zsum; cbn [map fold_right]; lia|].
    cbn [map]. unfold zsum in *. cbn [fold_right]. pose proof (Hn b (or_introl eq_refl)).
    assert (0 <= fold_right Z.add 0 (map f B))%Z by (apply IHB; intros b' Hb'; apply Hn; right; exact Hb'). lia.
  - inversion ND as [|x l Hx Hl]; subst.
    destruct (in_split a B (Hi a (or_introl eq_refl))) as [B1 [B2 ->]].
    assert (Hi' : incl A (B1 ++ B2)).
    { intros z Hz. pose proof (Hi z (or_intror Hz)) as Hb. apply in_app_iff in Hb. apply in_app_iff.
      destruct Hb as [Hb|[Hb|Hb]]; [left; exact Hb | subst z; exfalso; apply Hx, Hz | right; exact Hb]. }
    assert (Hn' : forall b, In b (B1 ++ B2) -> (0 <= f b)%Z).
    { intros b Hb. apply Hn. apply in_app_iff in Hb. apply in_app_iff. destruct Hb; [left | right; right]; assumption. }
    pose proof (IH (B1 ++ B2) Hl Hi' Hn') as G.
    rewrite !map_app, !zsum_app in *. cbn [map]. unfold zsum in *. cbn [fold_right]. lia.
Qed.

Lemma zsum_filter_le (f : edge4 -> bool) : forall l, (forall r, In r l -> (0 <= snd r)%Z) ->
  (zsum (map snd (filter f l)) <= zsum (map snd l))%Z.
Proof.
  induction l as [|h t IH]; intros Hn; [apply Z.le_refl|].
  assert (G : (zsum (map snd (filter f t)) <= zsum (map snd t))%Z) by (apply IH; intros r Hr; apply Hn; right; exact Hr).
  pose proof (Hn h (or_introl eq_refl)). cbn [filter]. destruct (f h); cbn [map]; unfold zsum in *; cbn [fold_right]; lia.
Qed.

Lemma weight_strip4 l : weight (strip4 l) = zsum (map snd l).
Proof.
  unfold weight, strip4, zsum. rewrite map_map. f_equal. apply map_ext. intros [[[e a] b] w]. reflexivity.
Qed.

Lemma chain_cost v : SimpleRefs v -> forall q s t, ewalk v s q t ->
  zsum (map (fun p => wk v (ukey p)) (chainp s (map fst q))) = ecost q.
Proof.
  intros HS. induction q as [|[b w] q IH]; intros s t W; [reflexivity|].
  inversion W as [|a b' w' p' c Hs Hp]; subst. cbn [map fst chainp ecost snd].
  unfold zsum in *. cbn [fold_right]. rewrite (IH b t Hp), (wk_step v s b w HS Hs). reflexivity.
Qed.

(* the entries of the closure are distances *)
Lemma metric_closure_dist v terms cl : SOk v terms -> metric_closure v terms = Ok cl ->
  forall a b d, In (a, b, d) cl -> In a terms /\ In b terms /\ is_dist v a b d.
Proof.
  intros H E a b d Hin. destruct (rmapm_In _ _ _ E) as [H1 _].
  destruct (H1 _ Hin) as [[a' b'] [Hp Ee]]. change (mc_entry v (a', b') = Ok (a, b, d)) in Ee.
  pose proof (mc_entry_fst v _ _ Ee) as Ef. cbn [fst] in Ef.
  injection Ef as <- <-. destruct (pairs_after_In _ _ _ Hp) as [Ha Hb]. split; [exact Ha|]. split; [exact Hb|].
  destruct (dijkstra_goal b (so_vok v terms H) (sok_nonneg v terms H) (so_cap v terms H a Ha)) as [m [Em [_ [Hg _]]]].
  cbn [mc_entry] in Ee. rewrite Em in Ee. cbn [rbind] in Ee.
  destruct (sget m b) as [d0|] eqn:Es; [|discriminate Ee]. injection Ee as <-. apply Hg. reflexivity.
Qed.

Section Weight.
  Variables (v : view) (terms : list nat) (cl : list (nat * nat * Z)) (d : list (list Z))
            (prev : list (list (option nat))).
  Hypothesis H : SOk v terms.
  Hypothesis HS : SimpleRefs v.
  Hypothesis E1 : metric_closure v terms = Ok cl.
  Hypothesis E2 : floyd_warshall KMIN KMAX v = Ok (Some (d, prev)).

  Lemma walk_back_cost s t w : In (s, t, w) cl ->
    exists q, walk_back (S (vbound v)) prev s t [] = Ok (chainp s (map fst q)) /\ ewalk v s q t /\ ecost q = w.
  Proof.
    intros Hin. destruct (metric_closure_dist v terms cl H E1 s t w Hin) as [Hs [Ht Hd]].
    destruct (sok_floyd v terms H) as [d' [prev' [E2' Hp]]]. rewrite E2 in E2'. injection E2' as <- <-.
    destruct (Hp s t Hs Ht) as [q [Ec [W [_ [Hc He]]]]]. exists q.
    assert (Ec2 : fw_chain (S (S (vbound v))) prev s t = Some (map fst q)).
    { apply (fw_chain_mono prev (vnode_count v)); [exact Ec|]. assert (Hcb : vnode_count v <= vbound v).
      { destruct (so_mok v terms H) as [ND [Hb _]]. unfold vnode_count.
        rewrite <- (seq_length (vbound v) 0). apply NoDup_incl_length; [exact ND|].
        intros a Ha. apply in_seq. specialize (Hb a Ha). lia. }
      lia. }
    rewrite (walk_back_chain prev s (S (vbound v)) t [] _ Ec2), app_nil_r.
    split; [reflexivity|]. split; [exact W|].
    apply (edist_iff s t (dm d s t) (so_refs v terms H)) in He.
    rewrite Hc. apply (is_dist_unique He Hd).
  Qed.

  Lemma pp_sum : forall tree pp, incl tree cl -> path_pairs v prev tree = Ok pp ->
    zsum (map (fun p => wk v (ukey p)) pp) = weight tree.
  Proof.
    induction tree as [|[[s t] w] tr IH]; intros pp Hi E.
    - unfold path_pairs in E. cbn [rmapm rmap concat] in E. injection E as <-. reflexivity.
    - destruct (walk_back_cost s t w (Hi _ (or_introl eq_refl))) as [q [Ew [W Hc]]].
      unfold path_pairs in E. cbn [rmapm] in E. rewrite Ew in E. cbn [rbind] in E.
      destruct (rmapm (fun '(s0, t0, _) => walk_back (S (vbound v)) prev s0 t0 []) tr) as [ys| |] eqn:Er;
        cbn [rbind rmap] in E; try discriminate E.
      injection E as <-. cbn [concat]. rewrite map_app, zsum_app.
      rewrite (chain_cost v HS q s t W), Hc.
      rewrite (IH (concat ys)); [unfold weight; cbn [map snd fold_right]; reflexivity | |].
      + intros x Hx. apply Hi. right. exact Hx.
      + unfold path_pairs. rewrite Er. reflexivity.
  Qed.

  Variables (tree : list (nat * nat * Z)) (nodes : list nat) (es : list (nat * nat * Z)).
  Hypothesis Ht : In tree (closure_msts (vbound v) (length terms) cl).
  Hypothesis Es : steiner_for v terms prev tree = Ok (nodes, es).

  Lemma refs_nonneg : forall r, In r (verefs v) -> (0 <= snd r)%Z.
  Proof.
    intros [[[i a] b] w] Hin. cbn [snd]. apply (so_nonneg v terms H a b w). exists i. left. exact Hin.
  Qed.

  Theorem weight_le_closure_mst : (sumw es <= sumw tree)%Z.
  Proof.
    destruct (sok_tree v terms cl tree H E1 Ht) as [Hi HT].
    pose proof (sok_paths v terms d prev H E2) as HP.
    destruct (path_pairs_ok v terms prev tree (so_mok v terms H) HP (so_two v terms H) HT) as [pp [Epp _]].
    pose proof Es as Es'. rewrite steiner_for_unfold, Epp in Es'. cbn [rbind] in Es'. injection Es' as _ <-.
    rewrite !sumw_weight, weight_strip4.
    set (E3 := es3_of v pp). set (R := pruned (keep_of v pp) E3 terms).
    assert (N2 : forall r, In r (es2_of v pp) -> In r (verefs v)).
    { intros r Hr. unfold es2_of, es1_of in Hr. apply filter_In in Hr. destruct Hr as [Hr _].
      apply filter_In in Hr. tauto. }
    assert (N3 : forall r, In r E3 -> In r (es2_of v pp)).
    { intros r Hr. apply (forest_of_sub _ _ _ Hr). }
    apply (Z.le_trans _ (zsum (map snd E3))).
    { apply zsum_filter_le. intros r Hr. apply refs_nonneg, N2, N3, Hr. }
    apply (Z.le_trans _ (zsum (map snd (es2_of v pp)))).
    { apply zsum_filter_le. intros r Hr. apply refs_nonneg, N2, Hr. }
    rewrite <- (pp_sum tree pp Hi Epp).
    assert (Em : map snd (es2_of v pp) = map (wk v) (map upair (es2_of v pp))).
    { rewrite map_map. apply map_ext_in. intros r Hr. symmetry. apply (wk_ref v r HS (N2 r Hr)). }
    rewrite Em. rewrite <- (map_map ukey (wk v) pp).
    apply sum_incl_le.
    - unfold es2_of, es1_of. apply NoDup_map_filter, NoDup_map_filter, HS.
    - intros k Hk. apply in_map_iff in Hk. destruct Hk as [[[[i a] b] w] [Ek Hr]].
      apply (es2_In v terms prev tree (so_mok v terms H) HP (so_two v terms H) HT pp Epp) in Hr. destruct Hr as [_ [Hp|Hp]].
      + apply in_map_iff. exists (a, b). split; [exact Ek | exact Hp].
      + apply in_map_iff. exists (b, a). split; [|exact Hp]. rewrite <- Ek. unfold ukey, upair. cbn [fst snd].
        rewrite Nat.min_comm, Nat.max_comm. reflexivity.
    - intros k Hk. apply in_map_iff in Hk. destruct Hk as [[x y] [Ek Hp]]. subst k.
      destruct (pp_step v terms prev tree (so_mok v terms H) HP (so_two v terms H) HT pp Epp x y Hp) as [w Hw].
      rewrite (wk_step v x y w HS Hw). apply (so_nonneg v terms H x y w Hw).
  Qed.
End Weight.

(* the trees of closure_msts are minimal among the spanning trees of the closure *)
Lemma fold_min_le {A} (f : A -> Z) : forall l b,
  (fold_left (fun b t => Z.min b (f t)) l b <= b)%Z /\
  forall t, In t l -> (fold_left (fun b t => Z.min b (f t)) l b <= f t)%Z.
Proof.
  induction l as [|x l IH]; intros b; cbn [fold_left]; [split; [lia | intros t []]|].
  destruct (IH (Z.min b (f x))) as [G1 G2]. split; [lia|].
  intros t [<-|Ht]; [lia | apply G2, Ht].
Qed.

Theorem closure_msts_minimal bound k cl tree t' : In tree (closure_msts bound k cl) ->
  In t' (closure_trees bound k cl) -> (sumw tree <= sumw t')%Z.
Proof.
  unfold closure_msts. destruct (closure_trees bound k cl) as [|t0 ts] eqn:Ec; [intros []|].
  intros Hin Ht'. apply filter_In in Hin. destruct Hin as [_ Em]. apply Z.eqb_eq in Em. rewrite Em.
  apply (fold_min_le sumw (t0 :: ts) (sumw t0)). exact Ht'.
Qed.
