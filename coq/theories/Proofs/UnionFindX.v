(* Further consequences of the C19 refinement, for Props/C19b.v: the answers of
   equiv form an equivalence relation in every reachable state, find and
   into_labeling separate exactly the classes of the specification, and a
   class never splits again however the history continues. *)
From PG Require Import Lib.ListArr Model.UnionFindM Spec.Partition Proofs.UnionFindP Proofs.UnionFindH.

Lemma final_abs n0 ops : Abs (final n0 ops) (spec_run n0 ops).
Proof. exact (run_abs ops (abs_new n0)). Qed.

(* --- equiv is an equivalence relation on the elements in range --- *)

Lemma equiv_refl_reach n0 ops x : x < fst (spec_run n0 ops) ->
  equiv (final n0 ops) x x = Ok true.
Proof. intros Hx. apply (equiv_iff_connected n0 ops Hx Hx). apply c_refl. Qed.

Lemma equiv_sym_reach n0 ops x y :
  x < fst (spec_run n0 ops) -> y < fst (spec_run n0 ops) ->
  equiv (final n0 ops) x y = Ok true -> equiv (final n0 ops) y x = Ok true.
Proof.
  intros Hx Hy E. apply (equiv_iff_connected n0 ops Hy Hx).
  apply c_sym. apply (equiv_iff_connected n0 ops Hx Hy). exact E.
Qed.

Lemma equiv_trans_reach n0 ops x y z :
  x < fst (spec_run n0 ops) -> y < fst (spec_run n0 ops) -> z < fst (spec_run n0 ops) ->
  equiv (final n0 ops) x y = Ok true -> equiv (final n0 ops) y z = Ok true ->
  equiv (final n0 ops) x z = Ok true.
Proof.
  intros Hx Hy Hz E1 E2. apply (equiv_iff_connected n0 ops Hx Hz).
  eapply c_trans.
  - apply (equiv_iff_connected n0 ops Hx Hy). exact E1.
  - apply (equiv_iff_connected n0 ops Hy Hz). exact E2.
Qed.

(* --- find separates exactly the classes --- *)

Lemma find_classes_reach n0 ops x y :
  x < fst (spec_run n0 ops) -> y < fst (spec_run n0 ops) ->
  exists rx ry, find (final n0 ops) x = Ok rx /\ find (final n0 ops) y = Ok ry /\
    rx < fst (spec_run n0 ops) /\ conn (snd (spec_run n0 ops)) x rx /\
    (rx = ry <-> conn (snd (spec_run n0 ops)) x y).
Proof.
  intros Hx Hy. destruct (final_abs n0 ops) as [I [L [_ Eq]]].
  destruct (find_spec x I) as [[H _]|[_ [rx [Rx Ex]]]]; [lia|].
  destruct (find_spec y I) as [[H _]|[_ [ry [Ry Ey]]]]; [lia|].
  exists rx, ry. split; [exact Ex|]. split; [exact Ey|].
  assert (Hrx : rx < fst (spec_run n0 ops)).
  { rewrite <- L. unfold uf_len. apply (rootof_lt (rootof_root_self Rx)). }
  split; [exact Hrx|]. split.
  - apply (Eq x rx Hx Hrx). exists rx. split; [exact Rx|]. exact (rootof_root_self Rx).
  - rewrite <- (Eq x y Hx Hy). split.
    + intros ->. exists ry. split; assumption.
    + intros [r [R1 R2]]. rewrite (rootof_det Rx R1). rewrite (rootof_det Ry R2). reflexivity.
Qed.

(* --- into_labeling is a labelling of exactly the classes --- *)

Lemma labeling_classes_reach n0 ops :
  exists l, into_labeling (final n0 ops) = Ok l /\ length l = fst (spec_run n0 ops) /\
    forall x y, x < fst (spec_run n0 ops) -> y < fst (spec_run n0 ops) ->
      (nth x l 0 = nth y l 0 <-> conn (snd (spec_run n0 ops)) x y).
Proof.
  destruct (final_abs n0 ops) as [I [L [_ Eq]]].
  destruct (into_labeling_spec I) as [l [E [Ll R]]].
  exists l. split; [exact E|]. split; [lia|].
  intros x y Hx Hy. rewrite <- (Eq x y Hx Hy).
  assert (Rx := R x ltac:(lia)). assert (Ry := R y ltac:(lia)). split.
  - intros E'. exists (nth x l 0). split; [exact Rx|]. rewrite E'. exact Ry.
  - intros [r [R1 R2]]. rewrite (rootof_det Rx R1). rewrite (rootof_det Ry R2). reflexivity.
Qed.

(* --- classes never split: the specification only grows --- *)

Lemma spec_step_mono s o :
  fst s <= fst (spec_step s o) /\
  forall a b, conn (snd s) a b -> conn (snd (spec_step s o)) a b.
Proof.
  destruct s as [n prs]. destruct o; simpl; try (split; [lia|auto]).
  - destruct (andb _ _); simpl; split; try lia; auto using conn_weaken.
  - destruct (andb _ _); simpl; split; try lia; auto using conn_weaken.
Qed.

Lemma spec_fold_mono ops : forall s,
  fst s <= fst (fold_left spec_step ops s) /\
  forall a b, conn (snd s) a b -> conn (snd (fold_left spec_step ops s)) a b.
Proof.
  induction ops as [|o ops IH]; intros s; simpl.
  - split; [lia|auto].
  - destruct (spec_step_mono s o) as [L1 C1]. destruct (IH (spec_step s o)) as [L2 C2].
    split; [lia|]. intros a b H. apply C2. apply C1. exact H.
Qed.

Lemma spec_run_app n0 ops more :
  spec_run n0 (ops ++ more) = fold_left spec_step more (spec_run n0 ops).
Proof. unfold spec_run. apply fold_left_app. Qed.

Lemma equiv_stays_true n0 ops more x y :
  x < fst (spec_run n0 ops) -> y < fst (spec_run n0 ops) ->
  equiv (final n0 ops) x y = Ok true ->
  equiv (final n0 (ops ++ more)) x y = Ok true.
Proof.
  intros Hx Hy E.
  destruct (spec_fold_mono more (spec_run n0 ops)) as [Lm Cm].
  rewrite <- spec_run_app in Lm, Cm.
  apply (equiv_iff_connected n0 (ops ++ more)); try lia.
  apply Cm. apply (equiv_iff_connected n0 ops Hx Hy). exact E.
Qed.

(* Queries and failed unions in the continuation leave every answer as it was. *)
Definition merging (n : nat) (o : op) : bool :=
  match o with
  | ONewSet => true
  | OUnion x y | OTryUnion x y => andb (andb (Nat.ltb x n) (Nat.ltb y n)) (negb (Nat.eqb x y))
  | _ => false
  end.

Lemma spec_step_nonmerging s o : merging (fst s) o = false -> spec_step s o = s.
Proof.
  destruct s as [n prs]. destruct o; simpl; intros H; try reflexivity; try discriminate;
    rewrite H; reflexivity.
Qed.

Lemma spec_fold_nonmerging more : forall s,
  forallb (fun o => negb (merging (fst s) o)) more = true ->
  fold_left spec_step more s = s.
Proof.
  induction more as [|o more IH]; intros s H; simpl in *; [reflexivity|].
  apply andb_prop in H. destruct H as [H1 H2]. apply Bool.negb_true_iff in H1.
  rewrite (spec_step_nonmerging s o H1). apply IH. exact H2.
Qed.

Lemma equiv_frozen n0 ops more x y :
  forallb (fun o => negb (merging (fst (spec_run n0 ops)) o)) more = true ->
  x < fst (spec_run n0 ops) -> y < fst (spec_run n0 ops) ->
  (equiv (final n0 (ops ++ more)) x y = Ok true <-> equiv (final n0 ops) x y = Ok true).
Proof.
  intros Hm Hx Hy.
  assert (S : spec_run n0 (ops ++ more) = spec_run n0 ops).
  { rewrite spec_run_app. apply spec_fold_nonmerging. exact Hm. }
  rewrite (equiv_iff_connected n0 ops Hx Hy).
  assert (Hx' : x < fst (spec_run n0 (ops ++ more))) by (rewrite S; exact Hx).
  assert (Hy' : y < fst (spec_run n0 (ops ++ more))) by (rewrite S; exact Hy).
  rewrite (equiv_iff_connected n0 (ops ++ more) Hx' Hy'). rewrite S. reflexivity.
Qed.
