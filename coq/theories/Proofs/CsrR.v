(* Refinement: every Csr operation simulates the abstract graph of CsrSpec. *)
From PG Require Import Lib.ListExtra Lib.Io Model.CsrM Spec.CsrSpec Proofs.CsrSearch Proofs.CsrP.
Set Implicit Arguments.

(* ------------------------------------------------------------------ *)
(* Lookups in the abstract graph                                       *)

Lemma find_snoc {A} (f : A -> bool) l x :
  find f (l ++ [x]) =
  match find f l with Some y => Some y | None => if f x then Some x else None end.
Proof.
  induction l as [|h t IH]; cbn [app find].
  - destruct (f x); reflexivity.
  - destruct (f h); auto.
Qed.

Lemma find_ext' {A} (f f' : A -> bool) l : (forall x, f x = f' x) -> find f l = find f' l.
Proof.
  intros H. induction l as [|h t IH]; cbn [find]; auto. rewrite H, IH. reflexivity.
Qed.

Lemma spec_weight_snoc d s a b w x y :
  spec_weight d (mkSpec (snodes s) (sedges s ++ [(a, b, w)])) x y =
  match spec_weight d s x y with
  | Some v => Some v
  | None => if same_pair d x y (a, b, w) then Some w else None
  end.
Proof.
  unfold spec_weight; cbn [sedges]. rewrite find_snoc.
  destruct (find (same_pair d x y) (sedges s)) as [e|]; cbn [option_map]; auto.
  destruct (same_pair d x y (a, b, w)); reflexivity.
Qed.

Lemma same_pair_sym a b e : same_pair false a b e = same_pair false b a e.
Proof.
  destruct e as [[x y] w]. cbn [same_pair negb andb].
  destruct (Nat.eqb x a), (Nat.eqb y b), (Nat.eqb x b), (Nat.eqb y a); reflexivity.
Qed.

Lemma spec_weight_sym s a b : spec_weight false s a b = spec_weight false s b a.
Proof. unfold spec_weight. f_equal. apply find_ext'. apply same_pair_sym. Qed.

Lemma spec_contains_sym s a b : spec_contains false s a b = spec_contains false s b a.
Proof. unfold spec_contains. rewrite spec_weight_sym. reflexivity. Qed.

Lemma spec_weight_oob d s a b : spec_wf s ->
  ~ (a < spec_node_count s /\ b < spec_node_count s) -> spec_weight d s a b = None.
Proof.
  intros W H. unfold spec_weight.
  destruct (find (same_pair d a b) (sedges s)) as [[[x y] w]|] eqn:F; auto.
  exfalso. apply find_some in F. destruct F as [Hin Hsp]. apply W in Hin.
  cbn [same_pair] in Hsp. apply orb_true_iff in Hsp.
  destruct Hsp as [Hsp|Hsp].
  - apply andb_true_iff in Hsp. destruct Hsp as [Hx Hy].
    apply Nat.eqb_eq in Hx. apply Nat.eqb_eq in Hy. subst. tauto.
  - apply andb_true_iff in Hsp. destruct Hsp as [Hsp Hy].
    apply andb_true_iff in Hsp. destruct Hsp as [_ Hx].
    apply Nat.eqb_eq in Hx. apply Nat.eqb_eq in Hy. subst. tauto.
Qed.

Lemma spec_contains_true d s a b : spec_contains d s a b = true <-> spec_weight d s a b <> None.
Proof.
  unfold spec_contains. destruct (spec_weight d s a b); split; congruence.
Qed.

Lemma spec_contains_false d s a b : spec_contains d s a b = false <-> spec_weight d s a b = None.
Proof.
  unfold spec_contains. destruct (spec_weight d s a b); split; congruence.
Qed.

Lemma map_Some_inj {A} (l1 l2 : list A) : map Some l1 = map Some l2 -> l1 = l2.
Proof.
  revert l2; induction l1 as [|h t IH]; intros [|h2 t2] H; try discriminate; auto.
  cbn [map] in H. inversion H; subst. f_equal; auto.
Qed.

(* ------------------------------------------------------------------ *)
(* RowRep                                                              *)

Lemma RowRep_ext g a f f' : (forall y, f y = f' y) -> RowRep g a f -> RowRep g a f'.
Proof.
  intros H [ts [ws [N [W [Hasc [Hin Hmap]]]]]].
  exists ts, ws. splits; auto.
  - intros b. rewrite <- H. apply Hin.
  - rewrite <- Hmap. apply map_ext. intros y; auto.
Qed.

Definition with_ecount (g : csr) (k : nat) : csr :=
  mkCsr (column g) (cedges g) (row g) (nweights g) k.

Lemma with_ecount_inv g k : CInv g -> CInv (with_ecount g k).
Proof. intros [H1 H2 H3 H4 H5 H6 H7]. constructor; auto. Qed.

Lemma with_ecount_rowrep g k a f : RowRep (with_ecount g k) a f <-> RowRep g a f.
Proof. reflexivity. Qed.

Lemma with_ecount_count g k : node_count (with_ecount g k) = node_count g.
Proof. reflexivity. Qed.

(* One directed insertion, seen through an arbitrary lookup function. *)
Lemma add_edge_rowrep g a b w (look : nat -> nat -> option nat) :
  CInv g -> a < node_count g -> b < node_count g ->
  (forall a', a' < node_count g -> RowRep g a' (look a')) ->
  (look a b <> None -> add_edge_ g a b w = Ok (AddOk false, g)) /\
  (look a b = None ->
   exists g', add_edge_ g a b w = Ok (AddOk true, g') /\ CInv g' /\
     node_count g' = node_count g /\ nweights g' = nweights g /\ ecount g' = ecount g /\
     length (column g') = S (length (column g)) /\
     forall a', a' < node_count g ->
       RowRep g' a' (fun y => if Nat.eqb a' a && Nat.eqb y b then Some w else look a' y)).
Proof.
  intros I Ha Hb R.
  destruct (R a Ha) as [ts [ws [N [W [Hasc [Hin Hmap]]]]]].
  split.
  - intros Hl. apply (add_edge_found w I Ha Hb N). apply Hin; auto.
  - intros Hl.
    assert (Hnin : ~ In b ts) by (intros X; apply Hin in X; auto).
    destruct (add_edge_insert w I Ha Hb N W Hnin)
      as [i [g' [E [I' [Hnc [Hnw [Hec [Hcol [Hi [Hasc' [N' [W' Hoth]]]]]]]]]]]].
    exists g'. splits; auto.
    intros a' Ha'. destruct (Nat.eq_dec a' a) as [->|Hne].
    + exists (ins ts i b), (ins ws i w). splits; auto.
      * intros y. rewrite In_ins, Nat.eqb_refl. cbn [andb].
        destruct (Nat.eqb_spec y b) as [->|Hyb].
        -- split; [congruence|auto].
        -- rewrite <- Hin. split; [intros [X|X]; [congruence|auto] | auto].
      * rewrite !map_ins. rewrite !Nat.eqb_refl. cbn [andb]. f_equal.
        rewrite <- Hmap. apply map_ext_in. intros y Hy.
        destruct (Nat.eqb_spec y b) as [->|Hyb]; [tauto|reflexivity].
    + destruct (Hoth a' Ha' Hne) as [N2 W2].
      destruct (R a' Ha') as [ts2 [ws2 [N3 [W3 [Hasc3 [Hin3 Hmap3]]]]]].
      exists ts2, ws2. splits; auto; try congruence.
      * intros y. destruct (Nat.eqb_spec a' a) as [X|X]; [tauto|]. cbn [andb]. apply Hin3.
      * rewrite <- Hmap3. apply map_ext. intros y.
        destruct (Nat.eqb_spec a' a) as [X|X]; [tauto|]. reflexivity.
Qed.

(* ------------------------------------------------------------------ *)
(* Initial state, add_node, clear_edges                                *)

Lemma spec_weight_nil d ns a b : spec_weight d (mkSpec ns []) a b = None.
Proof. reflexivity. Qed.

Lemma RowRep_empty g a f : neighbors_slice g a = Ok [] -> edges_slice g a = Ok [] ->
  (forall y, f y = None) -> RowRep g a f.
Proof.
  intros N W H. exists [], []. splits; auto.
  - constructor.
  - intros y. rewrite H. cbn [In]. split; [tauto|congruence].
Qed.

Lemma rep_with_nodes d n : Rep d (with_nodes n) (spec_with_nodes n).
Proof.
  pose proof (with_nodes_inv n) as I. pose proof (with_nodes_count n) as Hc.
  unfold Rep. splits.
  - intros a b w [].
  - rewrite Hc. unfold spec_node_count, spec_with_nodes; cbn [snodes]. rewrite repeat_length; auto.
  - reflexivity.
  - intros a Ha.
    destruct (row_view I Ha) as [s [e [_ [_ [Hse [Hel [_ [N [W _]]]]]]]]].
    cbn [with_nodes column cedges length] in *.
    assert (e = 0) by lia. assert (s = 0) by lia. subst. rewrite seg_nil in *.
    apply RowRep_empty; auto.
  - destruct d; reflexivity.
Qed.

Lemma add_node_rows g g' a : CInv g -> a < node_count g ->
  column g' = column g -> cedges g' = cedges g ->
  row g' = ins (row g) (node_count g) (length (column g)) ->
  neighbors_slice g' a = neighbors_slice g a /\ edges_slice g' a = edges_slice g a.
Proof.
  intros I Ha Hc He Hr. pose proof (node_count_inv I) as Hn. pose proof (ci_len_row I) as Hl.
  assert (R : forall k, k <= node_count g -> nth_error (row g') k = nth_error (row g) k).
  { intros k Hk. rewrite Hr, nth_error_ins by lia.
    destruct (Nat.ltb_spec k (node_count g)); auto.
    destruct (Nat.eqb_spec k (node_count g)); try lia. subst k.
    rewrite Hn. symmetry. exact (ci_last I). }
  assert (NR : neighbors_range g' a = neighbors_range g a).
  { unfold neighbors_range. rewrite (R a), (R (S a)), Hc by lia. reflexivity. }
  unfold neighbors_slice, neighbors_of, edges_slice. rewrite NR, Hc, He. auto.
Qed.

Lemma spec_add_node_wf s w : spec_wf s -> spec_wf (snd (spec_add_node s w)).
Proof.
  intros W a b x Hin. apply W in Hin. unfold spec_node_count in *.
  cbn [spec_add_node snd snodes]. rewrite app_length. cbn [length]. lia.
Qed.

Lemma add_node_refines d g s w : CInv g -> Rep d g s ->
  exists g', add_node g w = Ok (fst (spec_add_node s w), g') /\ CInv g' /\
             Rep d g' (snd (spec_add_node s w)).
Proof.
  intros I [Hwf [Hnc [Hnw [Hrows Hec]]]].
  destruct (add_node_ok w I) as [g' [E [I' [Hc' [Hw' [Hcol [Hced [Hecnt Hrow]]]]]]]].
  exists g'. cbn [spec_add_node fst]. rewrite <- Hnc. splits; auto.
  unfold Rep. splits.
  - apply spec_add_node_wf; auto.
  - unfold spec_node_count in *. cbn [spec_add_node snd snodes]. rewrite app_length. cbn [length]. lia.
  - cbn [spec_add_node snd snodes]. rewrite Hw', Hnw. reflexivity.
  - intros a Ha. rewrite Hc' in Ha.
    change (spec_weight d (snd (spec_add_node s w)) a) with (spec_weight d s a).
    destruct (Nat.eq_dec a (node_count g)) as [->|Hne].
    + assert (Ha' : node_count g < node_count g') by lia.
      destruct (row_view I' Ha') as [s0 [e0 [Hs0 [He0 [_ [_ [_ [N [W _]]]]]]]]].
      pose proof (node_count_inv I) as Hn. pose proof (ci_len_row I) as Hl.
      rewrite Hrow, nth_error_ins in Hs0, He0 by lia.
      destruct (Nat.ltb_spec (node_count g) (node_count g)); try lia.
      destruct (Nat.ltb_spec (S (node_count g)) (node_count g)); try lia.
      rewrite Nat.eqb_refl in Hs0.
      destruct (Nat.eqb_spec (S (node_count g)) (node_count g)); try lia.
      replace (S (node_count g) - 1) with (length (nweights g)) in He0 by lia.
      rewrite (ci_last I) in He0. apply Some_inj in Hs0. apply Some_inj in He0. subst s0 e0.
      rewrite seg_nil in N, W.
      apply RowRep_empty; auto.
      intros y. apply spec_weight_oob; auto. lia.
    + assert (Ha0 : a < node_count g) by lia.
      destruct (@add_node_rows g g' a I Ha0 Hcol Hced Hrow) as [N W].
      destruct (Hrows a Ha0) as [ts [ws [N0 [W0 [Hasc [Hin Hmap]]]]]].
      exists ts, ws. splits; auto; congruence.
  - unfold edge_count in *. rewrite Hcol, Hecnt. exact Hec.
Qed.

Lemma clear_edges_refines d g s : CInv g -> Rep d g s ->
  CInv (clear_edges d g) /\ Rep d (clear_edges d g) (spec_clear_edges s).
Proof.
  intros I [Hwf [Hnc [Hnw [Hrows Hec]]]]. split; [apply clear_edges_inv; auto|].
  unfold Rep. splits.
  - intros a b w [].
  - rewrite clear_edges_count. exact Hnc.
  - exact Hnw.
  - intros a Ha. rewrite clear_edges_count in Ha.
    destruct (clear_edges_rows d I Ha) as [N W].
    apply RowRep_empty; auto.
  - destruct d; reflexivity.
Qed.

(* ------------------------------------------------------------------ *)
(* try_add_edge                                                        *)

Lemma try_add_edge_total d g a b w : CInv g ->
  exists r g', try_add_edge d g a b w = Ok (r, g') /\ CInv g' /\ node_count g' = node_count g.
Proof.
  intros I. unfold try_add_edge.
  destruct (add_edge_total a b w I) as [r [g1 [E [I1 Hc1]]]]. rewrite E. cbn [rbind].
  destruct r as [ret|x y]; [|eauto].
  set (g2 := if ret && negb d then _ else g1).
  assert (I2 : CInv g2 /\ node_count g2 = node_count g).
  { subst g2. destruct (ret && negb d); auto. split; auto. apply (with_ecount_inv (S (ecount g1)) I1). }
  destruct I2 as [I2 Hc2].
  destruct (ret && negb d && negb (Nat.eqb a b)); [|eauto].
  destruct (add_edge_total b a w I2) as [r2 [g3 [E2 [I3 Hc3]]]]. rewrite E2. cbn [rbind].
  destruct r2 as [ret2|x y]; (do 2 eexists; splits; [reflexivity|auto|congruence]).
Qed.

Lemma weight_after_directed s a b w x y : spec_weight true s a b = None ->
  (if Nat.eqb x a && Nat.eqb y b then Some w else spec_weight true s x y) =
  spec_weight true (mkSpec (snodes s) (sedges s ++ [(a, b, w)])) x y.
Proof.
  intros Hc. rewrite spec_weight_snoc. cbn [same_pair negb andb]. rewrite orb_false_r.
  rewrite (Nat.eqb_sym a x), (Nat.eqb_sym b y).
  destruct (Nat.eqb_spec x a) as [->|Hx]; destruct (Nat.eqb_spec y b) as [->|Hy]; cbn [andb].
  - rewrite Hc. reflexivity.
  - destruct (spec_weight true s a y); reflexivity.
  - destruct (spec_weight true s x b); reflexivity.
  - destruct (spec_weight true s x y); reflexivity.
Qed.

Lemma weight_after_undirected s a b w x y : spec_weight false s a b = None ->
  (if Nat.eqb x b && Nat.eqb y a then Some w
   else if Nat.eqb x a && Nat.eqb y b then Some w else spec_weight false s x y) =
  spec_weight false (mkSpec (snodes s) (sedges s ++ [(a, b, w)])) x y.
Proof.
  intros Hc. pose proof Hc as Hc'. rewrite spec_weight_sym in Hc'.
  rewrite spec_weight_snoc. cbn [same_pair negb andb].
  rewrite (Nat.eqb_sym a x), (Nat.eqb_sym b y), (Nat.eqb_sym a y), (Nat.eqb_sym b x).
  destruct (Nat.eqb_spec x a) as [Hxa|Hxa]; destruct (Nat.eqb_spec y b) as [Hyb|Hyb];
    destruct (Nat.eqb_spec x b) as [Hxb|Hxb]; destruct (Nat.eqb_spec y a) as [Hya|Hya];
    cbn [andb orb]; subst; try rewrite Hc; try rewrite Hc'; try reflexivity;
    match goal with |- context [spec_weight false s ?u ?v] => destruct (spec_weight false s u v) end;
    reflexivity.
Qed.

Lemma spec_snoc_wf s a b w : spec_wf s -> a < spec_node_count s -> b < spec_node_count s ->
  spec_wf (mkSpec (snodes s) (sedges s ++ [(a, b, w)])).
Proof.
  intros W Ha Hb x y z Hin. cbn [sedges] in Hin. apply in_app_iff in Hin.
  destruct Hin as [Hin|[Hin|[]]].
  - apply W in Hin. exact Hin.
  - inversion Hin; subst. split; assumption.
Qed.

Lemma spec_try_add_edge_wf d s a b w : spec_wf s -> spec_wf (snd (spec_try_add_edge d s a b w)).
Proof.
  intros W. unfold spec_try_add_edge.
  destruct (Nat.ltb_spec a (spec_node_count s)); destruct (Nat.ltb_spec b (spec_node_count s));
    cbn [andb negb snd]; auto.
  destruct (spec_contains d s a b); cbn [snd]; auto.
  apply spec_snoc_wf; auto.
Qed.

Theorem try_add_edge_refines d g s a b w : CInv g -> Rep d g s ->
  exists g', try_add_edge d g a b w = Ok (fst (spec_try_add_edge d s a b w), g') /\
    CInv g' /\ Rep d g' (snd (spec_try_add_edge d s a b w)) /\
    (fst (spec_try_add_edge d s a b w) <> AddOk true -> g' = g).
Proof.
  intros I R. pose proof R as [Hwf [Hnc [Hnw [Hrows Hec]]]].
  unfold spec_try_add_edge, try_add_edge. rewrite <- Hnc.
  destruct (Nat.ltb_spec a (node_count g)) as [Ha|Ha];
    [destruct (Nat.ltb_spec b (node_count g)) as [Hb|Hb]|]; cbn [andb negb].
  2: { rewrite add_edge_err by lia. cbn [rbind fst snd]. exists g. splits; auto. }
  2: { rewrite add_edge_err by lia. cbn [rbind fst snd]. exists g. splits; auto. }
  destruct (add_edge_rowrep w (spec_weight d s) I Ha Hb Hrows) as [Hfound Hins].
  destruct (spec_contains d s a b) eqn:Hc.
  { apply spec_contains_true in Hc. rewrite (Hfound Hc). cbn [rbind andb fst snd].
    exists g; splits; auto. }
  apply spec_contains_false in Hc.
  destruct (Hins Hc) as [g1 [E [I1 [Hc1 [Hw1 [He1 [Hcol1 R1]]]]]]].
  rewrite E. cbn [rbind andb fst snd].
  assert (Hwf' : spec_wf (mkSpec (snodes s) (sedges s ++ [(a, b, w)]))).
  { apply spec_snoc_wf; auto; lia. }
  destruct d; cbn [negb andb].
  - (* directed *)
    exists g1. splits; auto; [|congruence].
    unfold Rep. splits; auto.
    + rewrite Hc1. exact Hnc.
    + rewrite Hw1. exact Hnw.
    + intros a' Ha'. rewrite Hc1 in Ha'. eapply RowRep_ext; [|apply (R1 a' Ha')].
      intros y. cbv beta. apply weight_after_directed; auto.
    + unfold edge_count, spec_edge_count in *. cbn [sedges]. rewrite app_length. cbn [length]. lia.
  - (* undirected *)
    fold (with_ecount g1 (S (ecount g1))).
    pose proof (with_ecount_inv (S (ecount g1)) I1) as I2.
    destruct (Nat.eqb_spec a b) as [Hab|Hab]; cbn [negb].
    + subst b. exists (with_ecount g1 (S (ecount g1))). splits; auto; [|congruence].
      unfold Rep. splits; auto.
      * rewrite with_ecount_count, Hc1. exact Hnc.
      * cbn [with_ecount nweights]. rewrite Hw1. exact Hnw.
      * intros a' Ha'. rewrite with_ecount_count, Hc1 in Ha'. apply with_ecount_rowrep.
        eapply RowRep_ext; [|apply (R1 a' Ha')].
        intros y. cbv beta. rewrite <- (weight_after_undirected s a a w a' y Hc).
        destruct (Nat.eqb a' a && Nat.eqb y a); reflexivity.
      * unfold edge_count, spec_edge_count in *. cbn [with_ecount ecount sedges].
        rewrite app_length. cbn [length]. lia.
    + assert (Hb2 : b < node_count (with_ecount g1 (S (ecount g1)))) by (rewrite with_ecount_count; lia).
      assert (Ha2 : a < node_count (with_ecount g1 (S (ecount g1)))) by (rewrite with_ecount_count; lia).
      assert (R2 : forall a', a' < node_count (with_ecount g1 (S (ecount g1))) ->
                 RowRep (with_ecount g1 (S (ecount g1))) a'
                   ((fun a' y => if Nat.eqb a' a && Nat.eqb y b then Some w else spec_weight false s a' y) a')).
      { intros a' Ha'. rewrite with_ecount_count, Hc1 in Ha'. apply with_ecount_rowrep. apply R1; auto. }
      destruct (add_edge_rowrep w _ I2 Hb2 Ha2 R2) as [_ Hins2].
      destruct Hins2 as [g3 [E3 [I3 [Hc3 [Hw3 [He3 [Hcol3 R3]]]]]]].
      { cbv beta. destruct (Nat.eqb_spec b a); try congruence. cbn [andb].
        rewrite spec_weight_sym. exact Hc. }
      rewrite E3. cbn [rbind]. exists g3. splits; auto; [|congruence].
      unfold Rep. splits; auto.
      * rewrite Hc3, with_ecount_count, Hc1. exact Hnc.
      * rewrite Hw3. cbn [with_ecount nweights]. rewrite Hw1. exact Hnw.
      * intros a' Ha'. rewrite Hc3 in Ha'. eapply RowRep_ext; [|apply (R3 a' Ha')].
        intros y. cbv beta. apply weight_after_undirected; auto.
      * unfold edge_count, spec_edge_count in *. rewrite He3. cbn [with_ecount ecount sedges].
        rewrite app_length. cbn [length]. lia.
Qed.

(* ------------------------------------------------------------------ *)
(* Queries                                                             *)

Theorem rep_queries d g s a : CInv g -> Rep d g s -> a < node_count g ->
  neighbors_slice g a = Ok (spec_neighbors d s a) /\
  edges_slice g a = Ok (spec_weights d s a) /\
  out_degree g a = Ok (spec_out_degree d s a) /\
  (forall b, contains_edge g a b = Ok (spec_contains d s a b)).
Proof.
  intros I [Hwf [Hnc [Hnw [Hrows Hec]]]] Ha.
  destruct (Hrows a Ha) as [ts [ws [N [W [Hasc [Hin Hmap]]]]]].
  assert (Hts : ts = spec_neighbors d s a).
  { apply ascending_ext; auto.
    - apply ascending_filter, ascending_seq.
    - intros x. unfold spec_neighbors. rewrite filter_In, in_seq, spec_contains_true, <- Hin, <- Hnc.
      split; [|tauto]. intros Hx. pose proof (row_targets I Ha N _ Hx). split; auto; lia. }
  assert (Hws : ws = spec_weights d s a).
  { apply map_Some_inj. rewrite <- Hmap. unfold spec_weights. rewrite <- Hts, map_map.
    apply map_ext_in. intros y Hy. apply Hin in Hy. destruct (spec_weight d s a y); congruence. }
  splits.
  - congruence.
  - congruence.
  - destruct (row_view I Ha) as [s0 [e0 [_ [_ [Hse [Hel [_ [N' [_ [D _]]]]]]]]]].
    rewrite D. f_equal. unfold spec_out_degree. rewrite <- Hts.
    rewrite N in N'. inversion N'; subst ts. rewrite seg_length; auto.
  - intros b. destruct (contains_edge_ok b I Ha N) as [r [E Hr]]. rewrite E. f_equal.
    rewrite Hin, <- spec_contains_true in Hr.
    destruct r, (spec_contains d s a b); auto.
    + symmetry; apply Hr; auto.
    + apply Hr; auto.
Qed.

(* undirected: b is a neighbour of a iff a is a neighbour of b *)
Theorem rep_symmetric g s a b ta tb : CInv g -> Rep false g s ->
  a < node_count g -> b < node_count g ->
  neighbors_slice g a = Ok ta -> neighbors_slice g b = Ok tb ->
  (In b ta <-> In a tb).
Proof.
  intros I [Hwf [Hnc [Hnw [Hrows Hec]]]] Ha Hb Na Nb.
  destruct (Hrows a Ha) as [ts [ws [N [W [Hasc [Hin Hmap]]]]]].
  destruct (Hrows b Hb) as [ts2 [ws2 [N2 [W2 [Hasc2 [Hin2 Hmap2]]]]]].
  assert (ts = ta) by congruence. assert (ts2 = tb) by congruence. subst.
  rewrite Hin, Hin2, spec_weight_sym. tauto.
Qed.

(* the node index one past the end reads the empty tail; beyond it row[a] panics *)
Lemma queries_at_n g b : CInv g ->
  neighbors_slice g (node_count g) = Ok [] /\ edges_slice g (node_count g) = Ok [] /\
  out_degree g (node_count g) = Ok 0 /\ contains_edge g (node_count g) b = Ok false.
Proof.
  intros I. pose proof (node_count_inv I) as Hn. pose proof (ci_len_row I) as Hl.
  assert (NR : neighbors_range g (node_count g) = Ok (length (column g), length (column g))).
  { unfold neighbors_range. rewrite Hn, (ci_last I), nth_error_oob by lia. reflexivity. }
  assert (NO : neighbors_of g (node_count g) = Ok (length (column g), [])).
  { unfold neighbors_of. rewrite NR. cbn [rbind]. rewrite slice_ok, seg_nil by lia. reflexivity. }
  splits.
  - unfold neighbors_slice. rewrite NO. reflexivity.
  - unfold edges_slice. rewrite NR. cbn [rbind]. rewrite <- (ci_cedges I), slice_ok, seg_nil by lia.
    reflexivity.
  - unfold out_degree. rewrite NR. cbn [rmap]. rewrite Nat.sub_diag. reflexivity.
  - unfold contains_edge, find_edge_pos. rewrite NO. reflexivity.
Qed.

Lemma queries_oob g a b : CInv g -> node_count g < a ->
  neighbors_slice g a = Panic /\ edges_slice g a = Panic /\
  out_degree g a = Panic /\ contains_edge g a b = Panic.
Proof.
  intros I Ha. pose proof (node_count_inv I) as Hn. pose proof (ci_len_row I) as Hl.
  assert (NR : neighbors_range g a = Panic).
  { unfold neighbors_range. rewrite nth_error_oob by lia. reflexivity. }
  unfold neighbors_slice, edges_slice, out_degree, contains_edge, find_edge_pos, neighbors_of.
  rewrite NR. auto.
Qed.

(* ------------------------------------------------------------------ *)
(* Corollaries in the words of the property                            *)

Lemma try_add_edge_out_of_range d g a b w : ~ (a < node_count g /\ b < node_count g) ->
  try_add_edge d g a b w = Ok (AddErr a b, g).
Proof. intros H. unfold try_add_edge. rewrite add_edge_err by auto. reflexivity. Qed.

Lemma try_add_edge_existing d g s a b w : CInv g -> Rep d g s ->
  a < node_count g -> b < node_count g -> spec_contains d s a b = true ->
  try_add_edge d g a b w = Ok (AddOk false, g).
Proof.
  intros I R Ha Hb Hc.
  destruct (try_add_edge_refines a b w I R) as [g' [E [_ [_ Hsame]]]].
  pose proof R as [_ [Hnc _]].
  unfold spec_try_add_edge in *. rewrite <- Hnc in *.
  destruct (Nat.ltb_spec a (node_count g)); try lia.
  destruct (Nat.ltb_spec b (node_count g)); try lia.
  cbn [andb negb] in *. rewrite Hc in *. cbn [fst] in *.
  rewrite E. rewrite Hsame; [reflexivity|discriminate].
Qed.

Lemma spec_try_add_edge_contains d s a b w :
  a < spec_node_count s -> b < spec_node_count s ->
  spec_contains d (snd (spec_try_add_edge d s a b w)) a b = true.
Proof.
  intros Ha Hb. unfold spec_try_add_edge.
  destruct (Nat.ltb_spec a (spec_node_count s)); try lia.
  destruct (Nat.ltb_spec b (spec_node_count s)); try lia. cbn [andb negb].
  destruct (spec_contains d s a b) eqn:Hc; cbn [snd]; auto.
  apply spec_contains_true. rewrite spec_weight_snoc.
  apply spec_contains_false in Hc. rewrite Hc. cbn [same_pair]. rewrite !Nat.eqb_refl. cbn. congruence.
Qed.

Lemma spec_try_add_edge_count d s a b w :
  spec_node_count (snd (spec_try_add_edge d s a b w)) = spec_node_count s.
Proof.
  unfold spec_try_add_edge.
  destruct (negb _); auto. destruct (spec_contains d s a b); auto.
Qed.

(* after an undirected insertion the edge is in both rows *)
Theorem undirected_both_rows g s a b w : CInv g -> Rep false g s ->
  a < node_count g -> b < node_count g ->
  exists r g', try_add_edge false g a b w = Ok (r, g') /\
    contains_edge g' a b = Ok true /\ contains_edge g' b a = Ok true.
Proof.
  intros I R Ha Hb.
  destruct (try_add_edge_refines a b w I R) as [g' [E [I' [R' _]]]].
  pose proof R as [_ [Hnc _]]. pose proof R' as [_ [Hnc' _]].
  rewrite spec_try_add_edge_count in Hnc'.
  assert (Hc : spec_contains false (snd (spec_try_add_edge false s a b w)) a b = true).
  { apply spec_try_add_edge_contains; lia. }
  assert (Ha' : a < node_count g') by lia. assert (Hb' : b < node_count g') by lia.
  destruct (rep_queries I' R' Ha') as [_ [_ [_ Q1]]].
  destruct (rep_queries I' R' Hb') as [_ [_ [_ Q2]]].
  do 2 eexists. split; [exact E|]. rewrite Q1, Q2, (spec_contains_sym _ b a), Hc. auto.
Qed.

(* The debug_assert_eq!(ret, _ret2) in add_edge: when the first half of an
   undirected insertion succeeds, so does the mirrored half. *)
Theorem undirected_debug_assert g s a b w g1 : CInv g -> Rep false g s ->
  a < node_count g -> b < node_count g -> a <> b ->
  add_edge_ g a b w = Ok (AddOk true, g1) ->
  exists g3, add_edge_ (with_ecount g1 (S (ecount g1))) b a w = Ok (AddOk true, g3).
Proof.
  intros I [Hwf [Hnc [Hnw [Hrows Hec]]]] Ha Hb Hab E.
  destruct (add_edge_rowrep w (spec_weight false s) I Ha Hb Hrows) as [Hfound Hins].
  destruct (spec_weight false s a b) as [v|] eqn:Hc.
  { rewrite Hfound in E by congruence. discriminate. }
  destruct (Hins eq_refl) as [g1' [E' [I1 [Hc1 [_ [_ [_ R1]]]]]]].
  assert (g1' = g1) by congruence. subst g1'.
  pose proof (with_ecount_inv (S (ecount g1)) I1) as I2.
  assert (Hb2 : b < node_count (with_ecount g1 (S (ecount g1)))) by (rewrite with_ecount_count; lia).
  assert (Ha2 : a < node_count (with_ecount g1 (S (ecount g1)))) by (rewrite with_ecount_count; lia).
  assert (R2 : forall a', a' < node_count (with_ecount g1 (S (ecount g1))) ->
             RowRep (with_ecount g1 (S (ecount g1))) a'
               ((fun a' y => if Nat.eqb a' a && Nat.eqb y b then Some w else spec_weight false s a' y) a')).
  { intros a' Ha'. rewrite with_ecount_count, Hc1 in Ha'. apply with_ecount_rowrep. apply R1; auto. }
  destruct (add_edge_rowrep w _ I2 Hb2 Ha2 R2) as [_ Hins2].
  destruct Hins2 as [g3 [E3 _]].
  { cbv beta. destruct (Nat.eqb_spec b a); try congruence. cbn [andb].
    rewrite spec_weight_sym. exact Hc. }
  exists g3. exact E3.
Qed.
