(* C04, part 5: the observers.  Under the invariant, edges / edges_directed /
   edge_references / edge_count / node_count / node_identifiers all describe the
   graph that get_edge_weight and get_node_weight describe, and never panic. *)
From PG Require Import Lib.ListArr Model.MatrixM Spec.MatrixSpec
  Proofs.MatrixReloc Proofs.MatrixTri Proofs.MatrixP.
Require Import Lia.

(* what a scan of row / column [fixed] over the indices [ks] must produce *)
Definition scan_spec (directed : bool) (g : mg) (by_rows : bool) (fixed : nat) (ks : list nat)
  : list (nat * nat * nat) :=
  flat_map (fun k =>
    match (if by_rows then get_edge_weight directed g k fixed else get_edge_weight directed g fixed k) with
    | Some w => [if by_rows then (k, fixed, w) else (fixed, k, w)]
    | None => []
    end) ks.

Lemma edges_scan_spec directed g by_rows fixed ks : MInv directed g ->
  fixed < ncap g -> (forall k, In k ks -> k < ncap g) ->
  edges_scan directed g by_rows fixed ks = Ok (scan_spec directed g by_rows fixed ks).
Proof.
  intros I Hf. induction ks as [|k rest IH]; intros Hks.
  - reflexivity.
  - assert (Hk : k < ncap g) by (apply Hks; left; auto).
    assert (Hrest : forall k', In k' rest -> k' < ncap g) by (intros k' H; apply Hks; right; auto).
    cbn [edges_scan scan_spec flat_map]. fold (scan_spec directed g by_rows fixed rest).
    rewrite (IH Hrest). destruct by_rows.
    + pose proof (lin_pos_lt directed k fixed _ Hk Hf) as Hp. rewrite <- (mi_len _ _ I) in Hp.
      destruct (nth_error_lt_Some (adj g) Hp) as [c Hc]. rewrite Hc. cbn [rmap].
      rewrite get_lt, Hc by auto. destruct c; reflexivity.
    + pose proof (lin_pos_lt directed fixed k _ Hf Hk) as Hp. rewrite <- (mi_len _ _ I) in Hp.
      destruct (nth_error_lt_Some (adj g) Hp) as [c Hc]. rewrite Hc. cbn [rmap].
      rewrite get_lt, Hc by auto. destruct c; reflexivity.
Qed.

Theorem edges_of_spec directed g a incoming : MInv directed g ->
  edges_of directed g a incoming =
  Ok (if Nat.leb (ncap g) a then [] else scan_spec directed g incoming a (seq 0 (ncap g))).
Proof.
  intros I. unfold edges_of. destruct (Nat.leb_spec (ncap g) a) as [L|L]; auto.
  apply edges_scan_spec; auto. intros k Hk. apply in_seq in Hk. lia.
Qed.

(* beyond the capacity there is nothing to report *)
Lemma scan_spec_beyond directed g by_rows a ks : ncap g <= a -> scan_spec directed g by_rows a ks = [].
Proof.
  intros L. unfold scan_spec. induction ks as [|k rest IH]; auto.
  cbn [flat_map]. rewrite IH. destruct by_rows; rewrite get_ge; auto.
Qed.

Definition row_width (directed : bool) (n r : nat) : nat := if directed then n else S r.

Definition all_edges (directed : bool) (g : mg) : list (nat * nat * nat) :=
  flat_map (fun r => scan_spec directed g false r (seq 0 (row_width directed (ncap g) r))) (seq 0 (ncap g)).

Lemma edge_references_rows directed g rows : MInv directed g -> (forall r, In r rows -> r < ncap g) ->
  fold_right (fun r acc =>
      rbind (edges_scan directed g false r (seq 0 (if directed then ncap g else S r))) (fun l =>
      rmap (fun tl => l ++ tl) acc)) (Ok []) rows =
  Ok (flat_map (fun r => scan_spec directed g false r (seq 0 (row_width directed (ncap g) r))) rows).
Proof.
  intros I. induction rows as [|r rest IH]; intros Hrows.
  - reflexivity.
  - assert (Hr : r < ncap g) by (apply Hrows; left; auto).
    cbn [fold_right flat_map]. rewrite IH by (intros r' H; apply Hrows; right; auto).
    rewrite edges_scan_spec; [reflexivity|exact I|exact Hr|].
    intros k Hk. apply in_seq in Hk. destruct directed; lia.
Qed.

Theorem edge_references_spec directed g : MInv directed g ->
  edge_references directed g = Ok (all_edges directed g).
Proof.
  intros I. unfold edge_references, all_edges. apply edge_references_rows; auto.
  intros r Hr. apply in_seq in Hr. lia.
Qed.

(* ------------------------------------------------------------------ *)
(* edge_count                                                          *)

Lemma sum_shift (F : nat -> nat) s w :
  list_sum (map (fun c => F (s + c)) (seq 0 w)) = list_sum (map F (seq s w)).
Proof.
  induction w as [|w IH]; auto.
  rewrite !seq_S, !map_app, !list_sum_app, IH. reflexivity.
Qed.

Lemma list_sum_cons a l : list_sum (a :: l) = a + list_sum l.
Proof. reflexivity. Qed.

Lemma list_sum_single x : list_sum [x] = x.
Proof. unfold list_sum. cbn [fold_right]. lia. Qed.

Lemma sum_rows (F : nat -> nat) (off width : nat -> nat) :
  off 0 = 0 -> (forall r, off (S r) = off r + width r) ->
  forall m, list_sum (map (fun r => list_sum (map (fun c => F (off r + c)) (seq 0 (width r)))) (seq 0 m))
            = list_sum (map F (seq 0 (off m))).
Proof.
  intros H0 HS. induction m as [|m IH].
  - rewrite H0. reflexivity.
  - rewrite seq_S, map_app, list_sum_app, IH. cbn [map list_sum Nat.add].
    rewrite list_sum_single, HS, seq_app, map_app, list_sum_app, sum_shift. cbn [Nat.add]. lia.
Qed.

Lemma sum_nsome (l : list (option nat)) :
  list_sum (map (fun p => osome (cell_val (nth_error l p))) (seq 0 (length l))) = nsome l.
Proof.
  induction l as [|o t IH]; auto.
  cbn [length seq map]. rewrite list_sum_cons, <- seq_shift, map_map.
  cbn [nth_error]. rewrite IH, nsome_cons. destruct o; reflexivity.
Qed.

Lemma sum_ext (F G : nat -> nat) l : (forall x, In x l -> F x = G x) ->
  list_sum (map F l) = list_sum (map G l).
Proof.
  intros H. induction l as [|h t IH]; auto.
  cbn [map]. rewrite !list_sum_cons. rewrite H by (left; auto). rewrite IH; auto.
  intros x Hx. apply H. right; auto.
Qed.

Lemma flat_map_length_sum {A B} (f : A -> list B) l :
  length (flat_map f l) = list_sum (map (fun x => length (f x)) l).
Proof.
  induction l as [|h t IH]; auto.
  cbn [flat_map map]. rewrite list_sum_cons, app_length, IH. reflexivity.
Qed.

Definition row_off (directed : bool) (n r : nat) : nat := if directed then r * n else tri r.

Lemma row_off_S directed n r : row_off directed n (S r) = row_off directed n r + row_width directed n r.
Proof. destruct directed; cbn [row_off row_width]; [lia|apply tri_S]. Qed.

Lemma row_off_full directed n : row_off directed n n = adj_len directed n.
Proof. destruct directed; reflexivity. Qed.

Lemma lin_pos_row directed n r c : c < row_width directed n r ->
  lin_pos directed r c n = row_off directed n r + c.
Proof.
  destruct directed; cbn [row_width lin_pos row_off]; auto.
  intros H. rewrite tri_pos_max_min, Nat.max_l, Nat.min_r by lia. reflexivity.
Qed.

Lemma scan_spec_length directed g r ks :
  length (scan_spec directed g false r ks) =
  list_sum (map (fun c => osome (get_edge_weight directed g r c)) ks).
Proof.
  unfold scan_spec. induction ks as [|k rest IH]; auto.
  cbn [flat_map map]. rewrite list_sum_cons, app_length, IH.
  destruct (get_edge_weight directed g r k); reflexivity.
Qed.

Theorem edge_count_spec directed g : MInv directed g -> length (all_edges directed g) = nbe g.
Proof.
  intros I. rewrite (mi_nbe _ _ I), <- sum_nsome, (mi_len _ _ I), <- row_off_full.
  rewrite <- (sum_rows (fun p => osome (cell_val (nth_error (adj g) p)))
                       (row_off directed (ncap g)) (row_width directed (ncap g))).
  - unfold all_edges. rewrite flat_map_length_sum.
    apply sum_ext. intros r Hr. apply in_seq in Hr.
    rewrite scan_spec_length. apply sum_ext. intros c Hc. apply in_seq in Hc.
    assert (Hc' : c < ncap g) by (destruct directed; cbn [row_width] in Hc; lia).
    rewrite get_lt by lia. rewrite lin_pos_row by lia. reflexivity.
  - destruct directed; reflexivity.
  - apply row_off_S.
Qed.

(* ------------------------------------------------------------------ *)
(* node_count and node_identifiers                                     *)

Lemma filter_partition_length {A} (f : A -> bool) l :
  length (filter f l) + length (filter (fun x => negb (f x)) l) = length l.
Proof.
  induction l as [|h t IH]; auto.
  cbn [filter]. destruct (f h); cbn [negb length]; lia.
Qed.

Theorem node_count_spec directed g : MInv directed g -> ids_len g = length (iter_ids g).
Proof.
  intros I. unfold ids_len, iter_ids.
  pose proof (filter_partition_length (fun i => mem_nat i (removed g)) (seq 0 (ub g))) as H.
  rewrite seq_length in H.
  assert (E : length (filter (fun i => mem_nat i (removed g)) (seq 0 (ub g))) = length (removed g)).
  { apply Nat.le_antisymm.
    - apply NoDup_incl_length.
      + apply NoDup_filter, seq_NoDup.
      + intros x Hx. apply filter_In in Hx. apply mem_nat_In. tauto.
    - apply NoDup_incl_length.
      + apply (mi_nodup _ _ I).
      + intros x Hx. apply filter_In. apply mem_nat_In in Hx. split; auto.
        apply in_seq. pose proof (mi_rem _ _ I x Hx). lia. }
  lia.
Qed.

Theorem node_identifiers_spec directed g : MInv directed g ->
  NoDup (iter_ids g) /\ forall i, In i (iter_ids g) <-> get_node_weight g i <> None.
Proof.
  intros I. split.
  - apply NoDup_filter, seq_NoDup.
  - intros i. rewrite in_iter_ids. apply (mi_live _ _ I).
Qed.
