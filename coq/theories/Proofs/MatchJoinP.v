(* maximum_matching (Gabow): what join_loop, relabel and refresh compute, in terms of the
   sequences of non-outer vertices (MatchSeqP).  The sequences are abstract here (predicate Sq). *)
From PG Require Import Lib.Io Model.View Model.Traversal Model.MatchM Spec.Reach Spec.MatchSpec
  Proofs.TravBase Proofs.MatchGreedyP Proofs.MatchShapeP Proofs.MatchAugP Proofs.MatchFlipP
  Proofs.MatchInvP Proofs.MatchSeqP.

Lemma last_snoc (l : list nat) x d : last (l ++ [x]) d = x.
Proof. apply last_last. Qed.

Lemma is_flagged_true l e : is_flagged l e = true -> l = LFlag e.
Proof. destruct l; cbn [is_flagged]; try discriminate. intros H. apply Nat.eqb_eq in H. subst. reflexivity. Qed.

Lemma hd_app_ne (l l' : list nat) d : l <> [] -> hd d (l ++ l') = hd d l.
Proof. destruct l; [contradiction | reflexivity]. Qed.

Section Join.
Variable v : view.
Variable s : mst.          (* the state when find_join is entered *)
Variable e es et : nat.
Let d := vbound v.

Variable Sq : list nat -> Prop.
Hypothesis Q1 : forall X, Sq X -> NoDup X.
Hypothesis Q2 : forall X, Sq X -> exists X0, X = X0 ++ [d].
Hypothesis Q3 : forall X Y f a1 b1 a2 b2, Sq X -> Sq Y -> X = a1 ++ f :: b1 -> Y = a2 ++ f :: b2 -> b1 = b2.
Hypothesis Q4 : forall X a f y b s', Sq X -> X = a ++ f :: y :: b -> Agree s s' -> step_inner s' f = Ok y.
Hypothesis Q5 : forall X x, Sq X -> In x X -> x < length (lab s) /\ ~ outerv (lab s) x.
Hypothesis NoFlag : forall z, nth_error (lab s) z <> Some (LFlag e).

(* labs' is lab s with the entries in V flagged *)
Definition FL (V : list nat) (labs' : list label) : Prop :=
  length labs' = length (lab s) /\
  forall z, (In z V -> nth_error labs' z = Some (LFlag e)) /\
            (~ In z V -> nth_error labs' z = nth_error (lab s) z).

Lemma FL_perm V V' labs' : (forall z, In z V <-> In z V') -> FL V labs' -> FL V' labs'.
Proof.
  intros Hp [Hl Hz]. split; [exact Hl|]. intros z. destruct (Hz z) as [H1 H2]. split.
  - intros H. apply H1, Hp, H.
  - intros H. apply H2. intros H'. apply H, Hp, H'.
Qed.

Lemma FL_Agree V s' : mate s' = mate s -> fin s' = fin s -> FL V (lab s') ->
  (forall z, In z V -> ~ outerv (lab s) z) -> Agree s s'.
Proof.
  intros Hm Hf [_ Hz] HV. split; [exact Hm|]. intros u Hu. split; [|rewrite Hf; reflexivity].
  apply (Hz u). intros Hin. apply (HV u Hin Hu).
Qed.

Definition JRes (X Y : list nat) (j : nat) (s' s1 : mst) : Prop :=
  exists Xa Xb Ya Yb V,
    X = Xa ++ j :: Xb /\ Y = Ya ++ j :: Yb /\
    (forall x, In x Xa -> ~ In x Y) /\ (forall x, In x Ya -> ~ In x X) /\
    mate s1 = mate s /\ fin s1 = fin s /\ FL V (lab s1) /\ (forall z, In z V -> In z X \/ In z Y) /\
    vis s1 = vis s' /\ queue s1 = queue s' /\ nedges s1 = nedges s'.

Lemma JRes_sym X Y j s' s1 : JRes X Y j s' s1 -> JRes Y X j s' s1.
Proof.
  intros [Xa [Xb [Ya [Yb [V [H1 [H2 [H3 [H4 [H5 [H6 [H7 [H8 H9]]]]]]]]]]]]].
  exists Ya, Yb, Xa, Xb, V. repeat (split; [assumption|]). split; [|exact H9].
  intros z Hz. destruct (H8 z Hz); auto.
Qed.

Definition jl_body (f : nat) (s' : mst) (lft rgt : nat) : res (nat * mst) :=
  rbind (step_inner s' lft) (fun lft' =>
  rbind (getp (lab s') lft') (fun l =>
    if is_flagged l e then Ok (lft', s')
    else rbind (setp (lab s') lft' (LFlag e)) (fun lab' =>
           join_loop v f (mkMst (mate s') lab' (fin s') (vis s') (queue s') (nedges s')) e lft' rgt))).

Lemma join_loop_S f s' lft rgt :
  join_loop v (S f) s' e lft rgt = if Nat.eqb rgt d then jl_body f s' lft rgt else jl_body f s' rgt lft.
Proof. cbn [join_loop]. unfold d. destruct (Nat.eqb rgt (vbound v)); reflexivity. Qed.

Definition JL_stmt (fuel : nat) : Prop :=
  forall X Y Xv Xr Yv Yr s' j s1,
    Sq X -> Sq Y -> X = Xv ++ Xr -> Y = Yv ++ Yr -> Xv <> [] -> Yv <> [] ->
    (forall x, In x Xv -> ~ In x Yv) ->
    mate s' = mate s -> fin s' = fin s -> FL (Xv ++ Yv) (lab s') ->
    join_loop v fuel s' e (last Xv d) (last Yv d) = Ok (j, s1) ->
    JRes X Y j s' s1.

Lemma jl_body_ok f : JL_stmt f ->
  forall Z W Zv Zr Wv Wr s' j s1,
    Sq Z -> Sq W -> Z = Zv ++ Zr -> W = Wv ++ Wr -> Zv <> [] -> Wv <> [] ->
    (forall x, In x Zv -> ~ In x Wv) ->
    mate s' = mate s -> fin s' = fin s -> FL (Zv ++ Wv) (lab s') ->
    last Zv d <> d ->
    jl_body f s' (last Zv d) (last Wv d) = Ok (j, s1) ->
    JRes Z W j s' s1.
Proof.
  intros IH Z W Zv Zr Wv Wr s' j s1 HZ HW EZ EW Zne Wne Hdis Hm Hf HFL Hcd H.
  pose proof (Q1 Z HZ) as NZ. pose proof (Q1 W HW) as NW.
  destruct (exists_last Zne) as [Zv' [c EZv]]. rewrite EZv in H, Hcd. rewrite last_snoc in H, Hcd.
  (* c is not the last element of Z *)
  destruct Zr as [|y Zr'].
  { exfalso. destruct (Q2 Z HZ) as [Z0 EZ0]. rewrite app_nil_r in EZ. rewrite EZ, EZv in EZ0.
    apply app_inj_tail in EZ0. destruct EZ0 as [_ E]. contradiction. }
  assert (EZ' : Z = Zv' ++ c :: y :: Zr') by (rewrite EZ, EZv, <- app_assoc; reflexivity).
  assert (HVno : forall z, In z (Zv ++ Wv) -> ~ outerv (lab s) z).
  { intros z Hz. apply in_app_or in Hz. destruct Hz as [Hz|Hz].
    - apply (Q5 Z z HZ). rewrite EZ. apply in_or_app; left; exact Hz.
    - apply (Q5 W z HW). rewrite EW. apply in_or_app; left; exact Hz. }
  pose proof (FL_Agree _ s' Hm Hf HFL HVno) as HA.
  unfold jl_body in H. rewrite (Q4 Z Zv' c y Zr' s' HZ EZ' HA) in H. cbn [rbind] in H.
  rb H as E1 l. apply getp_ok in E1.
  assert (HyZ : In y Z) by (rewrite EZ; apply in_or_app; right; left; reflexivity).
  assert (HynZv : ~ In y Zv).
  { intros Hin. rewrite EZ in NZ. apply (nodup_app_disj _ _ NZ y Hin). left; reflexivity. }
  destruct HFL as [HFLl HFLz].
  destruct (is_flagged l e) eqn:Efl.
  - (* y has been visited from the other side: it is the join *)
    injection H as <- <-. apply is_flagged_true in Efl. subst l.
    assert (HyW : In y Wv).
    { destruct (in_dec Nat.eq_dec y (Zv ++ Wv)) as [Hin|Hnin].
      - apply in_app_or in Hin. destruct Hin; [contradiction | assumption].
      - exfalso. rewrite (proj2 (HFLz y) Hnin) in E1. apply (NoFlag y E1). }
    apply in_split in HyW. destruct HyW as [Wa [Wv2 EWv]].
    assert (EW' : W = Wa ++ y :: (Wv2 ++ Wr)) by (rewrite EW, EWv, <- app_assoc; reflexivity).
    assert (Etail : Zr' = Wv2 ++ Wr) by (apply (Q3 Z W y Zv _ Wa _ HZ HW EZ EW')).
    exists Zv, Zr', Wa, (Wv2 ++ Wr), (Zv ++ Wv).
    split; [exact EZ|]. split; [exact EW'|]. split; [|split].
    + intros x Hx HxW. rewrite EW in HxW. apply in_app_or in HxW. destruct HxW as [HxW|HxW].
      * apply (Hdis x Hx HxW).
      * rewrite EZ in NZ. apply (nodup_app_disj _ _ NZ x Hx). right. rewrite Etail.
        apply in_or_app; right; exact HxW.
    + intros x Hx HxZ.
      assert (HxWv : In x Wv) by (rewrite EWv; apply in_or_app; left; exact Hx).
      rewrite EZ in HxZ. apply in_app_or in HxZ. destruct HxZ as [HxZ|[HxZ|HxZ]].
      * apply (Hdis x HxZ HxWv).
      * subst x. rewrite EW' in NW. apply (nodup_app_disj _ _ NW y Hx). left; reflexivity.
      * rewrite EW' in NW. apply (nodup_app_disj _ _ NW x Hx). right. rewrite <- Etail. exact HxZ.
    + split; [exact Hm|]. split; [exact Hf|]. split; [split; assumption|]. split; [|auto].
      intros z Hz. apply in_app_or in Hz. destruct Hz as [Hz|Hz].
      * left. rewrite EZ. apply in_or_app; left; exact Hz.
      * right. rewrite EW. apply in_or_app; left; exact Hz.
  - (* flag y and go on *)
    rb H as E2 lab'. apply setp_ok in E2. destruct E2 as [Hyl ->].
    assert (HynV : ~ In y (Zv ++ Wv)).
    { intros Hin. rewrite (proj1 (HFLz y) Hin) in E1. injection E1 as <-.
      cbn [is_flagged] in Efl. rewrite Nat.eqb_refl in Efl. discriminate. }
    assert (HynW : ~ In y Wv) by (intros Hin; apply HynV; apply in_or_app; right; exact Hin).
    set (s'' := mkMst (mate s') (upd (lab s') y (LFlag e)) (fin s') (vis s') (queue s') (nedges s')) in *.
    assert (R : JRes Z W j s'' s1).
    { apply (IH Z W (Zv ++ [y]) Zr' Wv Wr s'' j s1); auto.
      - rewrite EZ, <- app_assoc. reflexivity.
      - intros E. apply app_eq_nil in E. destruct E; discriminate.
      - intros x Hx. apply in_app_or in Hx. destruct Hx as [Hx|[<-|[]]]; [apply Hdis, Hx | exact HynW].
      - split; [cbn [lab s'']; rewrite upd_length; exact HFLl|].
        intros z. cbn [lab s'']. rewrite nth_error_upd, (proj2 (Nat.ltb_lt _ _) Hyl).
        destruct (Nat.eqb_spec y z) as [<-|Hne].
        + split; [reflexivity|]. intros Hn. exfalso. apply Hn.
          apply in_or_app; left. apply in_or_app; right; left; reflexivity.
        + split.
          * intros Hin. apply (proj1 (HFLz z)). apply in_app_or in Hin. destruct Hin as [Hin|Hin].
            -- apply in_app_or in Hin. destruct Hin as [Hin|[E|[]]]; [|contradiction].
               apply in_or_app; left; exact Hin.
            -- apply in_or_app; right; exact Hin.
          * intros Hn. apply (proj2 (HFLz z)). intros Hin. apply Hn.
            apply in_app_or in Hin. destruct Hin as [Hin|Hin].
            -- apply in_or_app; left. apply in_or_app; left; exact Hin.
            -- apply in_or_app; right; exact Hin.
      - rewrite last_snoc. exact H. }
    exact R.
Qed.

Lemma join_loop_ok : forall fuel, JL_stmt fuel.
Proof.
  induction fuel as [|f IH]; intros X Y Xv Xr Yv Yr s' j s1 HX HY EX EY Xne Yne Hdis Hm Hf HFL H;
    [discriminate|].
  rewrite join_loop_S in H. destruct (Nat.eqb_spec (last Yv d) d) as [Ed|Ed].
  - apply (jl_body_ok f IH X Y Xv Xr Yv Yr s' j s1); auto.
    intros Ex. apply (Hdis d).
    + rewrite <- Ex. apply last_In_ne. exact Xne.
    + rewrite <- Ed. apply last_In_ne. exact Yne.
  - apply JRes_sym. apply (jl_body_ok f IH Y X Yv Yr Xv Xr s' j s1); auto.
    + intros x Hx Hx'. apply (Hdis x Hx' Hx).
    + apply (FL_perm (Xv ++ Yv)); [|exact HFL]. intros z. rewrite !in_app_iff. tauto.
Qed.

(* ------------------------------------------------------------------ *)
(* relabel                                                             *)

(* s2 is s1 with the vertices of A relabelled LEdge e es et, their first_inner set to j *)
Definition RL (j : nat) (s1 s2 : mst) (A : list nat) : Prop :=
  mate s2 = mate s1 /\ nedges s2 = nedges s1 /\
  length (lab s2) = length (lab s1) /\ length (fin s2) = length (fin s1) /\
  (forall z, In z A -> nth_error (lab s2) z = Some (LEdge e es et) /\ nth_error (fin s2) z = Some j) /\
  (forall z, ~ In z A -> nth_error (lab s2) z = nth_error (lab s1) z /\
                         nth_error (fin s2) z = nth_error (fin s1) z) /\
  (forall x, In x (queue s2) -> In x (queue s1) \/ In x A).

Lemma RL_refl j s1 : RL j s1 s1 [].
Proof. unfold RL. repeat (split; [reflexivity|]). split; [intros z []|]. split; auto. Qed.

Lemma RL_Agree j s1 s2 A : Agree s s1 -> RL j s1 s2 A -> (forall z, In z A -> ~ outerv (lab s) z) ->
  Agree s s2.
Proof.
  intros [Am Ao] [R1 [_ [_ [_ [_ [R6 _]]]]]] HA. split; [congruence|].
  intros u Hu. destruct (R6 u) as [L F]; [intros Hin; apply (HA u Hin Hu)|].
  destruct (Ao u Hu) as [L' F']. split; congruence.
Qed.

Lemma relabel_ok X j Xb s1 : Sq X -> Agree s s1 ->
  forall fuel A1 A2 s2 s3,
    X = (A1 ++ A2) ++ j :: Xb -> RL j s1 s2 A1 ->
    relabel v fuel s2 e es et j (hd d (A2 ++ [j])) = Ok s3 ->
    RL j s1 s3 (A1 ++ A2).
Proof.
  intros HX HA1. pose proof (Q1 X HX) as NX.
  induction fuel as [|f IH]; intros A1 A2 s2 s3 EX R H; cbn [relabel] in H; [discriminate|].
  assert (HAno : forall z, In z (A1 ++ A2) -> ~ outerv (lab s) z).
  { intros z Hz. apply (Q5 X z HX). rewrite EX. apply in_or_app; left; exact Hz. }
  destruct A2 as [|x A2'].
  - cbn [app hd] in H. rewrite Nat.eqb_refl in H. injection H as <-. rewrite app_nil_r. exact R.
  - cbn [app hd] in H.
    assert (Hxj : x <> j).
    { intros ->. rewrite EX in NX. apply (nodup_app_disj _ _ NX j); [|left; reflexivity].
      apply in_or_app; right; left; reflexivity. }
    destruct (Nat.eqb_spec x j) as [E|_]; [contradiction|].
    assert (EX' : X = A1 ++ x :: (A2' ++ j :: Xb)).
    { rewrite EX, <- app_assoc. reflexivity. }
    assert (Hxd : x <> d).
    { intros ->. destruct (Q2 X HX) as [X0 EX0].
      destruct (nodup_split_unique X _ _ _ _ d NX EX' EX0) as [_ Hb].
      destruct A2'; discriminate. }
    fold d in H. destruct (Nat.eqb_spec x d) as [E|_]; [contradiction|].
    rb H as E1 s2a. apply label_visit_same in E1 as E1'. destruct E1' as [V1 [V2 [V3 V4]]].
    assert (V5 : forall y, In y (queue s2a) -> y = x \/ In y (queue s2)).
    { unfold label_visit in E1. destruct (visit v (vis s2) x) as [[fresh m]| |]; cbn [rbind] in E1; try discriminate.
      injection E1 as <-. cbn [queue]. intros y Hy. destruct fresh; [|right; exact Hy].
      apply in_app_or in Hy. destruct Hy as [Hy|[<-|[]]]; auto. }
    rb H as E2 lab'. rb H as E3 fin'. apply setp_ok in E2. destruct E2 as [Hxl ->].
    apply setp_ok in E3. destruct E3 as [Hxf ->]. rb H as E4 inner'.
    set (s2b := mkMst (mate s2a) (upd (lab s2a) x (LEdge e es et)) (upd (fin s2a) x j)
                      (vis s2a) (queue s2a) (nedges s2a)) in *.
    destruct R as [R1 [R2 [R3 [R4 [R5 [R6 R7]]]]]].
    assert (R' : RL j s1 s2b (A1 ++ [x])).
    { unfold RL. cbn [mate lab fin queue nedges s2b]. rewrite !upd_length, V1, V2, V3, V4.
      split; [exact R1|]. split; [exact R2|]. split; [exact R3|]. split; [exact R4|]. split; [|split].
      - intros z Hz. rewrite !nth_error_upd. rewrite V2 in Hxl. rewrite V3 in Hxf.
        rewrite (proj2 (Nat.ltb_lt _ _) Hxl), (proj2 (Nat.ltb_lt _ _) Hxf).
        destruct (Nat.eqb_spec x z) as [->|Hne]; [auto|].
        apply in_app_or in Hz. destruct Hz as [Hz|[E|[]]]; [apply R5, Hz | contradiction].
      - intros z Hz. rewrite !nth_error_upd.
        destruct (Nat.eqb_spec x z) as [->|Hne].
        + exfalso. apply Hz. apply in_or_app; right; left; reflexivity.
        + apply R6. intros Hin. apply Hz. apply in_or_app; left; exact Hin.
      - intros y Hy. destruct (V5 y Hy) as [->|Hy'].
        + right. apply in_or_app; right; left; reflexivity.
        + destruct (R7 y Hy') as [Hq|Hq]; [left; exact Hq | right; apply in_or_app; left; exact Hq]. }
    assert (HAg : Agree s s2b).
    { apply (RL_Agree j s1 s2b (A1 ++ [x]) HA1 R'). intros z Hz. apply HAno.
      apply in_app_or in Hz. apply in_or_app. destruct Hz as [Hz|[<-|[]]]; [left; exact Hz | right; left; reflexivity]. }
    assert (Hnext : step_inner s2b x = Ok (hd d (A2' ++ [j]))).
    { destruct A2' as [|y A2''].
      - cbn [app hd]. apply (Q4 X A1 x j Xb s2b HX); [|exact HAg]. rewrite EX'. reflexivity.
      - cbn [app hd]. apply (Q4 X A1 x y (A2'' ++ j :: Xb) s2b HX); [|exact HAg]. rewrite EX'. reflexivity. }
    rewrite Hnext in E4. injection E4 as <-.
    replace (A1 ++ x :: A2') with ((A1 ++ [x]) ++ A2') by (rewrite <- app_assoc; reflexivity).
    apply (IH (A1 ++ [x]) A2' s2b s3); [|exact R' | exact H].
    rewrite EX, <- !app_assoc. reflexivity.
Qed.

End Join.

(* ------------------------------------------------------------------ *)
(* refresh                                                             *)

Lemma refresh_spec v : forall labs s idx join acc r,
  refresh v labs s idx join acc = Ok r ->
  exists r', r = rev acc ++ r' /\ length r' = length labs /\
    forall k lb, nth_error labs k = Some lb ->
      exists cur, nth_error (fin s) (idx + k) = Some cur /\
        nth_error r' k = Some (if negb (Nat.eqb (idx + k) (vbound v)) && is_outer lb
                               then (if outb (lab s) cur then join else cur) else cur).
Proof.
  induction labs as [|l rest IH]; intros s idx join acc r H; cbn [refresh] in H.
  - injection H as <-. exists []. rewrite app_nil_r. split; [reflexivity|]. split; [reflexivity|].
    intros k lb Hk. destruct k; discriminate.
  - rb H as E1 cur. apply getp_ok in E1.
    destruct (negb (Nat.eqb idx (vbound v)) && is_outer l) eqn:Ec.
    + rb H as E2 l2. apply getp_ok in E2.
      assert (Ho : is_outer l2 = outb (lab s) cur).
      { unfold outb. rewrite (nth_error_nth (lab s) cur LNone E2). reflexivity. }
      apply IH in H. destruct H as [r' [Hr [Hl Hk]]].
      exists ((if is_outer l2 then join else cur) :: r'). split; [|split].
      * rewrite Hr. cbn [rev]. rewrite <- app_assoc. reflexivity.
      * cbn [length]. rewrite Hl. reflexivity.
      * intros k lb Hlb. destruct k as [|k].
        -- cbn [nth_error] in Hlb. injection Hlb as <-. exists cur. rewrite Nat.add_0_r.
           split; [exact E1|]. cbn [nth_error]. rewrite Ec, Ho. reflexivity.
        -- cbn [nth_error] in Hlb. destruct (Hk k lb Hlb) as [c [H1 H2]]. exists c.
           replace (idx + S k) with (S idx + k) by lia. split; [exact H1|]. cbn [nth_error]. exact H2.
    + apply IH in H. destruct H as [r' [Hr [Hl Hk]]].
      exists (cur :: r'). split; [|split].
      * rewrite Hr. cbn [rev]. rewrite <- app_assoc. reflexivity.
      * cbn [length]. rewrite Hl. reflexivity.
      * intros k lb Hlb. destruct k as [|k].
        -- cbn [nth_error] in Hlb. injection Hlb as <-. exists cur. rewrite Nat.add_0_r.
           split; [exact E1|]. cbn [nth_error]. rewrite Ec. reflexivity.
        -- cbn [nth_error] in Hlb. destruct (Hk k lb Hlb) as [c [H1 H2]]. exists c.
           replace (idx + S k) with (S idx + k) by lia. split; [exact H1|]. cbn [nth_error]. exact H2.
Qed.

Print Assumptions join_loop_ok.
Print Assumptions relabel_ok.
Print Assumptions refresh_spec.
