(* C06 / T6 (second part): the view of a StableGraph (Model/FullViewOf.v) is total and consistent
   under the C02 invariant.  The facts about the invariant, the walks, the counters and the bounds
   come from the C02 theorems (Props/C02.v); the generic iterator lemmas from Proofs/GraphQ.v. *)
From Coq Require Import Permutation.
From PG Require Import Lib.Io Lib.Walk Model.GraphM Model.StableM Model.StableIO
  Model.FullView Model.FullViewOf Spec.ViewSpec
  Proofs.GraphP Proofs.GraphQ Proofs.StableP Proofs.StableT
  Proofs.FullViewP Proofs.AdaptorP Proofs.FullViewOfP Props.C02.

Lemma flat_map_combine_seq {A B} (F : nat * A -> list B) (G : nat -> list B) (l : list A) s :
  (forall i x, nth_error l i = Some x -> F (s + i, x) = G (s + i)) ->
  flat_map F (combine (seq s (length l)) l) = flat_map G (seq s (length l)).
Proof.
  revert s. induction l as [|h t IH]; intros s H; cbn [length seq combine flat_map]; [reflexivity|].
  f_equal.
  - specialize (H 0 h eq_refl). rewrite Nat.add_0_r in H. exact H.
  - apply IH. intros i x Hi. specialize (H (S i) x Hi).
    replace (S s + i) with (s + S i) by lia. exact H.
Qed.

Lemma flat_map_filter_map {A B} (p : A -> bool) (h : A -> B) l :
  flat_map (fun x => if p x then [h x] else []) l = map h (filter p l).
Proof.
  induction l as [|x t IH]; cbn [flat_map filter]; [reflexivity|].
  destruct (p x); cbn [app map]; rewrite IH; reflexivity.
Qed.

(* the adjacency matrix over any edge list whose endpoints are below n *)
Lemma s_adj_row_spec d n erefs nodes a b :
  (forall q, In q erefs -> q_src q < n /\ q_tgt q < n) -> b < n ->
  (In b (s_adj_row n (s_adj_bits d n erefs) nodes a) <-> In b nodes /\ edge_between d erefs a b).
Proof.
  intros Hends Hb. unfold s_adj_row, s_adj_bits, edge_between.
  rewrite filter_In, memn_In, in_flat_map. split.
  - intros (Hn & q & Hq & Hv). split; [exact Hn|]. exists q. split; [exact Hq|].
    destruct (Hends q Hq) as [Hs Ht]. destruct Hv as [Hv|Hv].
    + left. symmetry in Hv. destruct (base_inj _ _ _ _ _ Hb Ht Hv) as [-> ->]. reflexivity.
    + destruct d; [destruct Hv|]. destruct Hv as [Hv|[]]. right. split; [reflexivity|].
      symmetry in Hv. destruct (base_inj _ _ _ _ _ Hb Hs Hv) as [-> ->]. reflexivity.
  - intros (Hn & q & Hq & H). split; [exact Hn|]. exists q. split; [exact Hq|].
    destruct H as [H | [-> H]]; injection H as -> ->; [left | right; left]; reflexivity.
Qed.

Section OfS.
  Variable cap : nat.
  Variable s : sgraph.
  Hypothesis I : SInv cap s.

  Notation g := (sg s).
  Notation N := (length (gnodes (sg s))).
  Notation m := (length (gedges (sg s))).

  (* ---- what the C02 theorems give ---- *)
  Lemma Hec : m <= cap.
  Proof. apply (proj1 (C02_invariant_meaning cap s) I). Qed.
  Lemma Hncap : N <= cap.
  Proof. apply (proj1 (C02_invariant_meaning cap s) I). Qed.
  Lemma Hlive k x i : ewo g x <> None -> epo (gedges g) k x = Some i -> nwo g i <> None.
  Proof.
    destruct (proj1 (C02_invariant_meaning cap s) I) as (_ & _ & H & _). apply H.
  Qed.
  Lemma Hadj k i : nwo g i <> None ->
    exists l, adj cap g k i l /\
              (forall x, In x l <-> ewo g x <> None /\ epo (gedges g) k x = Some i).
  Proof.
    destruct (proj1 (C02_invariant_meaning cap s) I) as (_ & _ & _ & H & _). apply H.
  Qed.

  Lemma epo_iff k x a : epo (gedges g) k x = Some a <-> x < m /\ ept g k x = a.
  Proof.
    unfold epo, ept. destruct (nth_error (gedges g) x) as [ed|] eqn:E; cbn [option_map].
    - split.
      + intros H. injection H as <-. split; [eapply nth_error_Some_lt; exact E | reflexivity].
      + intros [_ <-]. reflexivity.
    - split; [discriminate|]. intros [H _]. apply nth_error_None in E. lia.
  Qed.

  Lemma ewo_lt x : ewo g x <> None -> x < m.
  Proof.
    unfold ewo. destruct (nth_error (gedges g) x) eqn:E; [|congruence].
    intros _. eapply nth_error_Some_lt. exact E.
  Qed.
  Lemma nwo_lt a : nwo g a <> None -> a < N.
  Proof.
    unfold nwo. destruct (nth_error (gnodes g) a) eqn:E; [|congruence].
    intros _. eapply nth_error_Some_lt. exact E.
  Qed.

  (* ---- the two lists of a live node ---- *)
  Definition sadj (k a : nat) : list nat :=
    match chain (fuel_of g) (gedges g) (sel (s_next cap s a) k) k with Ok l => l | _ => [] end.

  Lemma sadj_spec k a : nwo g a <> None ->
    chain (fuel_of g) (gedges g) (sel (s_next cap s a) k) k = Ok (sadj k a) /\
    NoDup (sadj k a) /\
    (forall x, In x (sadj k a) <-> ewo g x <> None /\ epo (gedges g) k x = Some a).
  Proof.
    intro L. destruct (Hadj k a L) as (l & Hl & _).
    destruct (proj1 (C02_walks cap s k a I) l L Hl) as (E & Hnd & Hin).
    unfold sadj. rewrite E. auto.
  Qed.

  Lemma sadj_lt k a : nwo g a <> None -> forall x, In x (sadj k a) -> x < m.
  Proof.
    intros L x Hx. apply (proj2 (proj2 (sadj_spec k a L))) in Hx. apply ewo_lt. apply Hx.
  Qed.

  Lemma chain0 a : nwo g a <> None ->
    chain (fuel_of g) (gedges g) (fst (s_next cap s a)) 0 = Ok (sadj 0 a).
  Proof. intro L. exact (proj1 (sadj_spec 0 a L)). Qed.
  Lemma chain1 a : nwo g a <> None ->
    chain (fuel_of g) (gedges g) (snd (s_next cap s a)) 1 = Ok (sadj 1 a).
  Proof. intro L. exact (proj1 (sadj_spec 1 a L)). Qed.
  Lemma chain_end k : chain (fuel_of g) (gedges g) cap k = Ok [].
  Proof. apply chain_cap. exact Hec. Qed.

  (* ---- the reference of edge slot x; live slots ---- *)
  Definition sqd (x : nat) : quad :=
    match nth_error (gedges g) x with
    | Some ed => (x, fst (enode ed), snd (enode ed), zo (ewt ed))
    | None => (x, 0, 0, 0%Z)
    end.
  Definition elive (x : nat) : bool := match ewo g x with Some _ => true | None => false end.
  Definition nlive (a : nat) : bool := match nwo g a with Some _ => true | None => false end.

  Lemma elive_iff x : elive x = true <-> ewo g x <> None.
  Proof. unfold elive. destruct (ewo g x); split; congruence. Qed.
  Lemma nlive_iff a : nlive a = true <-> nwo g a <> None.
  Proof. unfold nlive. destruct (nwo g a); split; congruence. Qed.

  Lemma sqd_src x : q_src (sqd x) = src g x.
  Proof. unfold sqd, src, ept. destruct (nth_error (gedges g) x); reflexivity. Qed.
  Lemma sqd_tgt x : q_tgt (sqd x) = tgt g x.
  Proof. unfold sqd, tgt, ept. destruct (nth_error (gedges g) x); reflexivity. Qed.
  Lemma sqd_id x : q_id (sqd x) = x.
  Proof. unfold sqd. destruct (nth_error (gedges g) x); reflexivity. Qed.

  Notation EL := (filter elive (seq 0 m)).
  Notation NL := (filter nlive (seq 0 N)).

  Lemma in_EL x : In x EL <-> ewo g x <> None.
  Proof.
    rewrite filter_In, in_seq, elive_iff. split; [tauto|]. intro H. pose proof (ewo_lt _ H). split; [lia | exact H].
  Qed.
  Lemma in_NL a : In a NL <-> nwo g a <> None.
  Proof.
    rewrite filter_In, in_seq, nlive_iff. split; [tauto|]. intro H. pose proof (nwo_lt _ H). split; [lia | exact H].
  Qed.

  Lemma erefs_eq : s_erefs_of s = map sqd EL.
  Proof.
    unfold s_erefs_of. rewrite <- flat_map_filter_map. apply flat_map_combine_seq.
    intros i e Hi. cbn [Nat.add]. unfold elive, ewo, sqd. rewrite Hi.
    destruct (ewt e); reflexivity.
  Qed.

  Lemma live_edges_len : length (live_edges s) = length EL.
  Proof.
    unfold live_edges.
    rewrite (flat_map_combine_seq _
               (fun x => if elive x
                 then [(x, match nth_error (gedges g) x with Some e => enode e | None => (0, 0) end,
                        match ewo g x with Some w => w | None => 0 end)]
                 else [])).
    - rewrite flat_map_filter_map. apply map_length.
    - intros i e Hi. cbn [Nat.add]. unfold elive, ewo. rewrite Hi. destruct (ewt e); reflexivity.
  Qed.

  Lemma live_nodes_eq :
    live_nodes s = map (fun a => (a, match nwo g a with Some w => w | None => 0 end)) NL.
  Proof.
    unfold live_nodes. rewrite <- flat_map_filter_map. apply flat_map_combine_seq.
    intros i nd Hi. cbn [Nat.add]. unfold nlive, nwo. rewrite Hi. destruct (nwt nd); reflexivity.
  Qed.

  Lemma nodes_eq : map fst (live_nodes s) = NL.
  Proof.
    rewrite live_nodes_eq, map_map. cbn [fst]. apply map_id.
  Qed.

  Lemma s_eref_quads {sw l r} :
    Forall2 (eref g sw) l r ->
    map squad_of r = map (fun e => if sw then q_flip (sqd e) else sqd e) l.
  Proof.
    induction 1 as [|e x l' r' He H IH]; cbn [map]; [reflexivity|].
    f_equal; [|exact IH]. destruct He as [ed [He ->]].
    unfold squad_of, sqd. rewrite He. destruct sw; reflexivity.
  Qed.

  (* ---- the iterators of a live node ---- *)
  Definition SOUT (d : bool) (a : nat) : list quad :=
    map sqd (sadj 0 a) ++
    (if d then []
     else map (fun e => q_flip (sqd e)) (filter (fun e => negb (src g e =? a)) (sadj 1 a))).
  Definition SINL (d : bool) (a : nat) : list quad :=
    if d then map sqd (sadj 1 a) else map q_flip (SOUT false a).

  Lemma s_edges_out d a : nwo g a <> None ->
    rmap (fun l => (a, map squad_of l)) (edges_directed_nx d g a (s_next cap s a) 0)
    = Ok (a, SOUT d a).
  Proof.
    intro L. unfold edges_directed_nx. destruct d; cbn [Nat.eqb negb orb andb].
    - rewrite (chain0 a L). cbn [rbind flat_map].
      destruct (@flat_map_eref _ _ g false (sadj 0 a) (sadj_lt 0 a L)) as (r & E & R).
      rewrite app_nil_r. cbn [rmap]. do 2 f_equal. unfold SOUT. rewrite app_nil_r.
      transitivity (map squad_of r); [f_equal; exact E | apply (s_eref_quads R)].
    - rewrite (chain0 a L), (chain1 a L). cbn [rbind].
      destruct (@flat_map_eref _ _ g false (sadj 0 a) (sadj_lt 0 a L)) as (r1 & E1 & R1).
      destruct (@flat_map_eref_skip _ _ g true a (sadj 1 a) (sadj_lt 1 a L)) as (r2 & E2 & R2).
      cbn [rmap]. do 2 f_equal. unfold SOUT.
      transitivity (map squad_of (r1 ++ r2)); [f_equal; f_equal; [exact E1 | exact E2]|].
      rewrite map_app, (s_eref_quads R1), (s_eref_quads R2). reflexivity.
  Qed.

  Lemma s_edges_in d a : nwo g a <> None ->
    rmap (fun l => (a, map squad_of l)) (edges_directed_nx d g a (s_next cap s a) 1)
    = Ok (a, SINL d a).
  Proof.
    intro L. unfold edges_directed_nx. destruct d; cbn [Nat.eqb negb orb andb].
    - rewrite (chain1 a L). cbn [rbind flat_map app].
      destruct (@flat_map_eref _ _ g false (sadj 1 a) (sadj_lt 1 a L)) as (r & E & R).
      cbn [rmap]. do 2 f_equal. unfold SINL.
      transitivity (map squad_of r); [f_equal; exact E | apply (s_eref_quads R)].
    - rewrite (chain0 a L), (chain1 a L). cbn [rbind].
      destruct (@flat_map_eref _ _ g true (sadj 0 a) (sadj_lt 0 a L)) as (r1 & E1 & R1).
      destruct (@flat_map_eref_skip _ _ g false a (sadj 1 a) (sadj_lt 1 a L)) as (r2 & E2 & R2).
      cbn [rmap]. do 2 f_equal.
      transitivity (map squad_of (r1 ++ r2)); [f_equal; f_equal; [exact E1 | exact E2]|].
      rewrite map_app, (s_eref_quads R1), (s_eref_quads R2).
      unfold SINL, SOUT. rewrite map_app, !map_map. f_equal.
      apply map_ext. intro e. rewrite q_flip_flip. reflexivity.
  Qed.

  Lemma s_nb_lists a :
    map (@snd nat nat)
        (map (fun e => (e, tgt g e)) (sadj 0 a) ++
         map (fun e => (e, src g e)) (filter (fun e => negb (src g e =? a)) (sadj 1 a)))
    = map q_tgt (SOUT false a).
  Proof.
    unfold SOUT. rewrite !map_app, !map_map. f_equal; apply map_ext; intro e; cbn [snd].
    - symmetry. apply sqd_tgt.
    - rewrite q_flip_tgt. symmetry. apply sqd_src.
  Qed.

  (* the source of a live edge is a slot index, hence differs from the sentinel *)
  Lemma src_not_cap a x : nwo g a <> None -> In x (sadj 1 a) -> negb (src g x =? cap) = true.
  Proof.
    intros L Hx. apply (proj2 (proj2 (sadj_spec 1 a L))) in Hx. destruct Hx as [Hx _].
    assert (Hs : epo (gedges g) 0 x = Some (src g x)).
    { apply epo_iff. split; [apply ewo_lt; exact Hx | reflexivity]. }
    pose proof (nwo_lt _ (Hlive 0 x _ Hx Hs)) as Hlt. pose proof Hncap.
    apply negb_true_iff. apply Nat.eqb_neq. lia.
  Qed.

  Lemma s_nb_out d a : nwo g a <> None ->
    rmap (fun l => (a, map (@snd nat nat) l)) (neighbors_directed_nx cap d g a (s_next cap s a) 0)
    = Ok (a, map q_tgt (SOUT d a)).
  Proof.
    intro L. unfold neighbors_directed_nx, neighbors_undirected_nx. destruct d; cbn [Nat.eqb].
    - rewrite (@neighbors_raw_spec _ _ g cap _ _ (sadj 0 a) []
                 (chain0 a L) (chain_end 1) (sadj_lt 0 a L) (fun x (H : In x []) => match H with end)).
      cbn [rmap filter map]. unfold SOUT. rewrite !app_nil_r, !map_map. do 2 f_equal.
      apply map_ext. intro e. cbn [snd]. symmetry. apply sqd_tgt.
    - rewrite (@neighbors_raw_spec _ _ g a _ _ (sadj 0 a) (sadj 1 a)
                 (chain0 a L) (chain1 a L) (sadj_lt 0 a L) (sadj_lt 1 a L)).
      cbn [rmap]. rewrite s_nb_lists. reflexivity.
  Qed.

  Lemma s_nb_in d a : nwo g a <> None ->
    rmap (fun l => (a, map (@snd nat nat) l)) (neighbors_directed_nx cap d g a (s_next cap s a) 1)
    = Ok (a, map q_src (SINL d a)).
  Proof.
    intro L. unfold neighbors_directed_nx, neighbors_undirected_nx. destruct d; cbn [Nat.eqb].
    - rewrite (@neighbors_raw_spec _ _ g cap _ _ [] (sadj 1 a)
                 (chain_end 0) (chain1 a L) (fun x (H : In x []) => match H with end) (sadj_lt 1 a L)).
      cbn [rmap map app].
      rewrite (filter_true_id (fun e => negb (src g e =? cap)) (sadj 1 a))
        by (intros x Hx; exact (src_not_cap a x L Hx)).
      unfold SINL. rewrite !map_map. do 2 f_equal.
      apply map_ext. intro e. cbn [snd]. symmetry. apply sqd_src.
    - rewrite (@neighbors_raw_spec _ _ g a _ _ (sadj 0 a) (sadj 1 a)
                 (chain0 a L) (chain1 a L) (sadj_lt 0 a L) (sadj_lt 1 a L)).
      cbn [rmap]. rewrite s_nb_lists. unfold SINL. rewrite map_map.
      do 2 f_equal. apply map_ext. intro q. rewrite q_flip_src. reflexivity.
  Qed.

  (* ---- the view, explicitly ---- *)
  Definition SF0 (d : bool) : fview :=
    mkFv d (node_bound s) (Some (node_bound s)) (Some (ecount s)) (Some (edge_bound s))
         (Some (ncount s)) false true true true
         (map fst (live_nodes s)) (map (fun '(i, w) => (i, zn w)) (live_nodes s))
         (map (fun a => (a, SOUT d a)) (map fst (live_nodes s)))
         (map (fun a => (a, SINL d a)) (map fst (live_nodes s)))
         (map (fun a => (a, map q_tgt (SOUT d a))) (map fst (live_nodes s)))
         (map (fun a => (a, map q_src (SINL d a))) (map fst (live_nodes s)))
         (s_erefs_of s)
         (map (fun a => (a, s_adj_row (node_bound s)
                              (s_adj_bits d (node_bound s) (s_erefs_of s))
                              (map fst (live_nodes s)) a))
              (map fst (live_nodes s))).

  Lemma in_nodes a : In a (map fst (live_nodes s)) <-> nwo g a <> None.
  Proof. rewrite nodes_eq. apply in_NL. Qed.

  Lemma fview_of_stable_eq d : fview_of_stable cap d s = Ok (SF0 d).
  Proof.
    unfold fview_of_stable. cbv zeta.
    rewrite (rmapM_ok _ (fun a => (a, SOUT d a)))
      by (intros a Ha; apply s_edges_out; apply in_nodes; exact Ha). cbn [rbind].
    rewrite (rmapM_ok _ (fun a => (a, SINL d a)))
      by (intros a Ha; apply s_edges_in; apply in_nodes; exact Ha). cbn [rbind].
    rewrite (rmapM_ok _ (fun a => (a, map q_tgt (SOUT d a))))
      by (intros a Ha; apply s_nb_out; apply in_nodes; exact Ha). cbn [rbind].
    rewrite (rmapM_ok _ (fun a => (a, map q_src (SINL d a))))
      by (intros a Ha; apply s_nb_in; apply in_nodes; exact Ha). cbn [rbind].
    reflexivity.
  Qed.

  (* ---- the lists are the live edges with that endpoint ---- *)
  Lemma sadj_perm k a : nwo g a <> None ->
    Permutation (sadj k a) (filter (fun x => ept g k x =? a) EL).
  Proof.
    intro L. destruct (sadj_spec k a L) as (_ & Hnd & Hin).
    apply NoDup_Permutation; [exact Hnd | do 2 apply NoDup_filter; apply seq_NoDup|].
    intro x. rewrite (Hin x), filter_In, in_EL, epo_iff, Nat.eqb_eq.
    split; [tauto|]. intros [H1 H2]. pose proof (ewo_lt _ H1). tauto.
  Qed.

  Lemma sadj_in_perm a : nwo g a <> None ->
    Permutation (filter (fun e => negb (src g e =? a)) (sadj 1 a))
                (filter (fun x => andb (tgt g x =? a) (negb (src g x =? a))) EL).
  Proof.
    intro L. destruct (sadj_spec 1 a L) as (_ & Hnd & Hin).
    apply NoDup_Permutation;
      [apply NoDup_filter; exact Hnd | do 2 apply NoDup_filter; apply seq_NoDup|].
    intro x. split; intro H.
    - apply filter_In in H. destruct H as [H1 H2]. apply Hin in H1. destruct H1 as [H1 H3].
      apply filter_In. split; [apply in_EL; exact H1|].
      apply epo_iff in H3. destruct H3 as [_ H3].
      apply andb_true_iff. split; [apply Nat.eqb_eq; exact H3 | exact H2].
    - apply filter_In in H. destruct H as [H1 H2]. apply in_EL in H1.
      apply andb_true_iff in H2. destruct H2 as [H2 H3]. apply Nat.eqb_eq in H2.
      apply filter_In. split; [|exact H3]. apply Hin. split; [exact H1|].
      apply epo_iff. split; [apply ewo_lt; exact H1 | exact H2].
  Qed.

  Lemma sout_perm d a : nwo g a <> None ->
    Permutation (SOUT d a) (spec_out d (map sqd EL) a).
  Proof.
    intro L. unfold SOUT, spec_out. apply Permutation_app.
    - rewrite (map_filter_comm sqd (fun q => q_src q =? a) (fun x => src g x =? a))
        by (intro x; rewrite sqd_src; reflexivity).
      apply Permutation_map. apply (sadj_perm 0 a L).
    - destruct d; [constructor|].
      rewrite (map_filter_comm sqd (fun q => andb (q_tgt q =? a) (negb (q_src q =? a)))
                 (fun x => andb (tgt g x =? a) (negb (src g x =? a))))
        by (intro x; rewrite sqd_src, sqd_tgt; reflexivity).
      rewrite map_map. apply Permutation_map. apply sadj_in_perm. exact L.
  Qed.

  Lemma sin_perm_directed a : nwo g a <> None ->
    Permutation (SINL true a) (spec_in true (map sqd EL) a).
  Proof.
    intro L. unfold SINL, spec_in. rewrite app_nil_r.
    rewrite (map_filter_comm sqd (fun q => q_tgt q =? a) (fun x => tgt g x =? a))
      by (intro x; rewrite sqd_tgt; reflexivity).
    apply Permutation_map. apply (sadj_perm 1 a L).
  Qed.

  (* both endpoints of a live edge are live nodes *)
  Lemma ends_live x : ewo g x <> None -> nwo g (src g x) <> None /\ nwo g (tgt g x) <> None.
  Proof.
    intro Hx. pose proof (ewo_lt _ Hx) as Hlt. split.
    - apply (Hlive 0 x _ Hx). apply epo_iff. split; [exact Hlt | reflexivity].
    - apply (Hlive 1 x _ Hx). apply epo_iff. split; [exact Hlt | reflexivity].
  Qed.

  Lemma bound_gt a : nwo g a <> None -> a < node_bound s.
  Proof.
    destruct (C02_counts_bounds_iterators_agree cap false s I) as (_ & _ & _ & _ & H & _).
    apply H.
  Qed.

  Theorem SF0_consistent d : FConsistent (SF0 d).
  Proof.
    destruct (C02_counts_bounds_iterators_agree cap false s I)
      as (Hnc & Hecnt & _ & _ & Hnb & _ & Heb & _).
    constructor.
    - constructor; unfold SF0; fvs.
      + rewrite nodes_eq. apply NoDup_filter. apply seq_NoDup.
      + intros a Ha. apply bound_gt. apply in_nodes. exact Ha.
      + intros c Hc a Ha. injection Hc as <-. apply bound_gt. apply in_nodes. exact Ha.
      + intros c Hc. injection Hc as <-. rewrite map_length. exact Hnc.
      + intro H. discriminate.
    - unfold NrefsOK, SF0. fvs. rewrite map_map. apply map_ext. intros [i w]. reflexivity.
    - constructor; unfold SF0; fvs; rewrite erefs_eq.
      + intros q Hq. apply in_map_iff in Hq. destruct Hq as (x & <- & Hx). apply in_EL in Hx.
        rewrite sqd_src, sqd_tgt, !in_nodes. apply ends_live. exact Hx.
      + intros c Hc. injection Hc as <-. rewrite map_length, Hecnt. apply live_edges_len.
      + intros _. rewrite map_map.
        rewrite (map_ext (fun x => q_id (sqd x)) (fun x => x)) by apply sqd_id.
        rewrite map_id. apply NoDup_filter. apply seq_NoDup.
      + intros _ c Hc q Hq. injection Hc as <-. apply in_map_iff in Hq.
        destruct Hq as (x & <- & Hx). rewrite sqd_id. apply Heb. apply in_EL. exact Hx.
    - constructor; unfold SF0; fvs; intros; apply map_fst_tab.
    - constructor; unfold SF0; fvs; intros a Ha.
      + rewrite (assocl_tab (fun a => SOUT d a)) by exact Ha. rewrite erefs_eq.
        apply same_edges_perm. apply sout_perm. apply in_nodes. exact Ha.
      + rewrite (assocl_tab (fun a => SOUT d a)) by exact Ha.
        rewrite (assocl_tab (fun a => map q_tgt (SOUT d a))) by exact Ha. reflexivity.
    - constructor; unfold SF0; fvs; intros _ a Ha.
      + rewrite (assocl_tab (fun a => SINL d a)) by exact Ha. rewrite erefs_eq.
        assert (L : nwo g a <> None) by (apply in_nodes; exact Ha).
        destruct d.
        * apply same_edges_perm. apply sin_perm_directed. exact L.
        * apply same_edges_expect_in. rewrite expect_in_undirected_flip.
          unfold SINL. apply same_edges_flip. apply same_edges_expect_out.
          apply same_edges_perm. apply sout_perm. exact L.
      + rewrite (assocl_tab (fun a => SINL d a)) by exact Ha.
        rewrite (assocl_tab (fun a => map q_src (SINL d a))) by exact Ha. reflexivity.
    - intros _ a b Ha Hb. unfold SF0 in *. fvs.
      rewrite (assocl_tab (fun a => s_adj_row (node_bound s)
                             (s_adj_bits d (node_bound s) (s_erefs_of s))
                             (map fst (live_nodes s)) a)) by exact Ha.
      rewrite s_adj_row_spec.
      + tauto.
      + intros q Hq. rewrite erefs_eq in Hq. apply in_map_iff in Hq.
        destruct Hq as (x & <- & Hx). apply in_EL in Hx. rewrite sqd_src, sqd_tgt.
        destruct (ends_live x Hx) as [H1 H2]. split; apply bound_gt; assumption.
      + apply bound_gt. apply in_nodes. exact Hb.
  Qed.

  Lemma SF0_keyed d : AdjKeyed (SF0 d).
  Proof. intros _. unfold SF0. fvs. rewrite map_fst_tab. apply incl_refl. Qed.
End OfS.

Theorem fview_of_stable_consistent cap directed (s : sgraph) :
  SInv cap s ->
  exists f, fview_of_stable cap directed s = Ok f /\ FConsistent f /\ AdjKeyed f /\
            f_directed f = directed /\
            f_nodes f = map fst (live_nodes s) /\
            f_bound f = node_bound s /\
            f_erefs f = s_erefs_of s /\
            (f_compact f = false /\ f_ids_ok f = true /\ f_has_in f = true /\ f_has_adj f = true).
Proof.
  intro I. exists (SF0 cap s directed).
  split; [apply fview_of_stable_eq; exact I|].
  split; [apply SF0_consistent; exact I|].
  split; [apply SF0_keyed|].
  repeat split.
Qed.

Theorem stable_adaptors cap directed (s : sgraph) f k1 p1 q1 k2 p2 q2 f1 f2 :
  SInv cap s -> fview_of_stable cap directed s = Ok f ->
  In k1 [1; 3; 4; 5] -> In k2 [1; 3; 4; 5] ->
  apply_adaptor k1 p1 q1 f = Some f1 -> apply_adaptor k2 p2 q2 f1 = Some f2 -> FConsistent f2.
Proof.
  intros I E H1 H2 E1 E2.
  destruct (fview_of_stable_consistent cap directed s I) as (f' & E' & Hc & Hk & _).
  rewrite E in E'. injection E' as <-.
  exact (adaptor_depth2 _ _ _ _ _ _ _ _ _ H1 H2 Hc (keyed_rows _ Hk) E1 E2).
Qed.
