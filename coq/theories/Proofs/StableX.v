(* StableGraph, second round: occupy_vacant_node anywhere in the free list (X1), add_vacant_node,
   ensure_node_exists, extend_with_edges (X2). *)
From PG Require Import Lib.ListArr Lib.ListExtra Lib.Walk Model.GraphM Model.StableM
  Proofs.GraphP Proofs.GraphRE Proofs.StableP Proofs.StableE Proofs.StableH Proofs.StableU.
Set Implicit Arguments.

(* ------------------------------------------------------------------ *)
(* Generic facts                                                       *)

Lemma last_cons_default {A} (l : list A) : forall x d, last (x :: l) d = last l x.
Proof.
  induction l as [|y l IH]; intros x d; [reflexivity|].
  change (last (x :: y :: l) d) with (last (y :: l) d). rewrite (IH y d), (IH y x). reflexivity.
Qed.

Lemma list_snoc_case {A} (l : list A) : l = [] \/ exists l' a, l = l' ++ [a].
Proof. induction l using rev_ind; [left; auto|right; eauto]. Qed.

Lemma NoDup_app_disjoint {A} (l1 l2 : list A) x : NoDup (l1 ++ l2) -> In x l1 -> In x l2 -> False.
Proof.
  induction l1 as [|y l1 IH]; simpl; intros H H1 H2; [contradiction|].
  inversion H as [|? ? Hy Hr]; subst. destruct H1 as [->|H1].
  - apply Hy. apply in_or_app. auto.
  - apply IH; auto.
Qed.

Lemma upd_app_last {A} (l : list A) x y : upd (l ++ [x]) (length l) y = l ++ [y].
Proof. induction l as [|h t IH]; simpl; auto. f_equal. auto. Qed.

Lemma bkp_app_iff g p l1 l2 : bkp g p (l1 ++ l2) <-> bkp g p l1 /\ bkp g (last l1 p) l2.
Proof.
  revert p; induction l1 as [|x l1 IH]; intros p.
  - simpl. tauto.
  - rewrite last_cons_default. cbn [app bkp]. rewrite IH. tauto.
Qed.

Lemma nth_set_hd_neq (ns : list (node (option nat))) k i v j :
  j <> i -> nth_error (set_hd ns k i v) j = nth_error ns j.
Proof. intros H. unfold set_hd. destruct (nth_error ns i); auto. apply nth_error_upd_neq. auto. Qed.

Lemma set_hd_length (ns : list (node (option nat))) k i v : length (set_hd ns k i v) = length ns.
Proof. unfold set_hd. destruct (nth_error ns i); auto. apply upd_length. Qed.

Lemma hdn_set_hd_10 (ns : list (node (option nat))) i v j : hdn (set_hd ns 1 i v) 0 j = hdn ns 0 j.
Proof. exact (hdn_set_hd_other ns 1 i v j). Qed.

Lemma hdn_set_hd_01 (ns : list (node (option nat))) i v j : hdn (set_hd ns 0 i v) 1 j = hdn ns 1 j.
Proof. exact (hdn_set_hd_other ns 0 i v j). Qed.

Lemma upd_fwd_ptr cap (g : IG) i v :
  length (gnodes g) <= cap -> i < length (gnodes g) \/ i = cap ->
  (if Nat.eqb i cap then Ok g
   else upd_node g i (fun n => set_nnext n (v, snd (nnext n))))
  = Ok (mkGraph (set_hd (gnodes g) 0 i v) (gedges g)).
Proof.
  intros Hc H. destruct (Nat.eqb_spec i cap) as [E|Hne].
  - unfold set_hd. rewrite (proj2 (nth_error_None _ _)) by lia. destruct g; reflexivity.
  - destruct H as [H|H]; [|contradiction].
    destruct (nth_error_lt_Some _ H) as [n En].
    unfold upd_node, set_hd. rewrite En. reflexivity.
Qed.

Lemma fnx_of g i : fnx g i =
  match nwo g i with
  | Some _ => None
  | None => if Nat.ltb i (length (gnodes g)) then hdn (gnodes g) 0 i else None
  end.
Proof.
  unfold fnx, nwo, hdn. destruct (nth_error (gnodes g) i) as [n|] eqn:E.
  - apply nth_error_Some_lt in E. destruct (Nat.ltb_spec i (length (gnodes g))); [|lia].
    destruct (nwt n); reflexivity.
  - destruct (Nat.ltb i (length (gnodes g))); reflexivity.
Qed.

(* ------------------------------------------------------------------ *)
(* X1: occupy_vacant_node                                              *)

Section Occupy.
  Variable cap : nat.
  Variable debug : bool.

  Notation adj := (@adj (option nat) (option nat) cap).
  Notation SInv := (SInv cap).

  Record occ_post (s : sgraph) (idx w : nat) (s' : sgraph) : Prop := {
    oc_new : nwo (sg s') idx = Some w;
    oc_old : forall j, j <> idx -> nwo (sg s') j = nwo (sg s) j;
    oc_edges : gedges (sg s') = gedges (sg s);
    oc_nlen : length (gnodes (sg s')) = length (gnodes (sg s));
    oc_adj_old : forall k j l, nwo (sg s) j <> None -> adj (sg s) k j l -> adj (sg s') k j l;
    oc_adj_new : forall k, adj (sg s') k idx [];
    oc_nc : ncount s' = S (ncount s);
    oc_ec : ecount s' = ecount s;
    oc_fe : free_edge s' = free_edge s;
    oc_free : exists l1 l2,
      lseg (fnx (sg s)) (free_node s) (l1 ++ idx :: l2) cap /\
      lseg (fnx (sg s')) (free_node s') (l1 ++ l2) cap /\ bkp (sg s') cap (l1 ++ l2)
  }.

  Theorem occupy_vacant_node_spec s idx w :
    SInv s -> idx < length (gnodes (sg s)) -> nwo (sg s) idx = None ->
    exists s', occupy_vacant_node cap debug s idx w = Ok s' /\ SInv s' /\ occ_post s idx w s'.
  Proof.
    intros I Hlt Hv.
    set (g := sg s) in *. set (fn := free_node s) in *.
    pose proof (sgi_ncap (si_g I)) as Hncap. fold g in Hncap.
    destruct (si_fn I) as [fl [Hfl [Hfb Cf]]]. fold g fn in Hfl, Hfb, Cf.
    assert (Hin : In idx fl). { apply Cf. split; auto. split; auto. discriminate. }
    destruct (in_split _ _ Hin) as [l1 [l2 Efl]]. subst fl.
    pose proof (FNL_NoDup Hncap Hfl) as Hnd.
    destruct (NoDup_split_notin _ _ _ Hnd) as [Hn1 Hn2].
    pose proof (NoDup_remove_1 _ _ _ Hnd) as Hnd12.
    pose proof Hfl as Hsp. apply lseg_split in Hsp. destruct Hsp as [m [Hs1 Hs2]].
    apply lseg_cons_inv in Hs2. destruct Hs2 as [Em [nxt [Hfx Hl2]]]. subst m.
    destruct (fnx_Some _ _ Hfx) as [slot [Hslot [Hw Hnx]]].
    apply bkp_app_iff in Hfb. destruct Hfb as [Hb1 [Hb0 Hb2]].
    remember (last l1 cap) as prev eqn:Eprev.
    assert (Hprev : snd (nnext slot) = prev).
    { unfold hdn in Hb0. rewrite Hslot in Hb0. cbn [option_map sel] in Hb0. congruence. }
    assert (Hvac_fl : forall x, In x (l1 ++ idx :: l2) -> x < length (gnodes g) /\ nwo g x = None).
    { intros x Hx. apply Cf in Hx. tauto. }
    (* the predecessor *)
    assert (Hpcase : (l1 = [] /\ prev = cap) \/ (exists l1', l1 = l1' ++ [prev])).
    { destruct (list_snoc_case l1) as [->|[l1' [p ->]]].
      - left. auto.
      - right. exists l1'. rewrite last_last in Eprev. subst p. reflexivity. }
    assert (Hpin : prev <> cap -> In prev l1).
    { intros Hne. destruct Hpcase as [[_ E]|[l1' ->]]; [contradiction|]. apply in_or_app. simpl; auto. }
    assert (Hpcap : prev = cap -> l1 = []).
    { intros E. destruct Hpcase as [[E' _]|[l1' E']]; auto. exfalso.
      assert (Hx : In prev (l1 ++ idx :: l2)) by (rewrite E'; apply in_or_app; left; apply in_or_app; simpl; auto).
      apply Hvac_fl in Hx. lia. }
    assert (Hprange : prev < length (gnodes g) \/ prev = cap).
    { destruct (Nat.eq_dec prev cap) as [E|Hne]; auto. left.
      apply (Hvac_fl prev). apply in_or_app. left. auto. }
    assert (Hpi : prev <> idx).
    { intros E. destruct (Nat.eq_dec prev cap) as [E'|Hne]; [lia|]. apply Hn1. rewrite <- E. auto. }
    (* the successor *)
    assert (Hncase : (l2 = [] /\ nxt = cap) \/ (exists l2', l2 = nxt :: l2')).
    { destruct l2 as [|y l2'].
      - left. apply lseg_nil_inv in Hl2. auto.
      - right. pose proof Hl2 as Hl2'. apply lseg_cons_inv in Hl2'. destruct Hl2' as [-> _]. eauto. }
    assert (Hnin : nxt <> cap -> In nxt l2).
    { intros Hne. destruct Hncase as [[_ E]|[l2' ->]]; [contradiction|]. simpl; auto. }
    assert (Hnrange : nxt < length (gnodes g) \/ nxt = cap).
    { destruct (Nat.eq_dec nxt cap) as [E|Hne]; auto. left.
      apply (Hvac_fl nxt). apply in_or_app. right. simpl. auto. }
    assert (Hni : nxt <> idx).
    { intros E. destruct (Nat.eq_dec nxt cap) as [E'|Hne]; [lia|]. apply Hn2. rewrite <- E. auto. }
    assert (Hpn : prev <> cap -> nxt <> prev).
    { intros Hne E. apply (NoDup_app_disjoint _ _ prev Hnd12); auto. rewrite <- E. apply Hnin. congruence. }
    (* the run *)
    set (newn := mkNode (Some w) (cap, cap) : node (option nat)).
    set (ns1 := upd (gnodes g) idx newn).
    set (ns2 := set_hd ns1 0 prev nxt).
    set (ns3 := set_hd ns2 1 nxt prev).
    set (g' := mkGraph ns3 (gedges g) : IG).
    set (fn' := if Nat.eqb fn idx then nxt else fn).
    assert (Hlen1 : length ns1 = length (gnodes g)) by (unfold ns1; apply upd_length).
    assert (Hlen2 : length ns2 = length (gnodes g)) by (unfold ns2; rewrite set_hd_length; auto).
    assert (Hlen3 : length ns3 = length (gnodes g)) by (unfold ns3; rewrite set_hd_length; auto).
    assert (Hrun : occupy_vacant_node cap debug s idx w =
                   Ok (mkSG g' (S (ncount s)) (ecount s) fn' (free_edge s))).
    { unfold occupy_vacant_node. fold g. rewrite Hslot, Hw, andb_false_r.
      unfold upd_node at 1. rewrite Hslot. cbn [rbind]. rewrite Hprev, Hnx. fold newn ns1.
      rewrite (@upd_fwd_ptr cap (mkGraph ns1 (gedges g)) prev nxt);
        [|cbn [gnodes]; lia|cbn [gnodes]; lia].
      cbn [rbind gnodes gedges]. fold ns2.
      rewrite (@upd_back_ptr cap (mkGraph ns2 (gedges g)) nxt prev);
        [|cbn [gnodes]; lia|cbn [gnodes]; lia].
      cbn [rbind gnodes gedges]. reflexivity. }
    rewrite Hrun. eexists; split; [reflexivity|].
    assert (Hmw : map (@nwt _) ns3 = upd (map (@nwt _) (gnodes g)) idx (Some w)).
    { unfold ns3, ns2. rewrite !set_hd_nwt. unfold ns1. rewrite map_upd. reflexivity. }
    assert (Hnw : forall j, nwo g' j = if Nat.eqb j idx then Some w else nwo g j).
    { intros j. rewrite (nwo_map g' j). unfold g'. cbn [gnodes]. rewrite Hmw, nth_error_upd.
      rewrite map_length. rewrite (Nat.eqb_sym j idx).
      destruct (Nat.eqb_spec idx j) as [<-|Hne].
      - destruct (Nat.ltb_spec idx (length (gnodes g))); [reflexivity|lia].
      - rewrite <- nwo_map. reflexivity. }
    assert (Hoth : forall j, j <> idx -> j <> prev -> j <> nxt -> nth_error ns3 j = nth_error (gnodes g) j).
    { intros j H1 H2 H3. unfold ns3, ns2. rewrite !nth_set_hd_neq by auto.
      unfold ns1. apply nth_error_upd_neq. auto. }
    assert (Hnew : nth_error ns3 idx = Some newn).
    { unfold ns3, ns2. rewrite !nth_set_hd_neq by auto. unfold ns1. apply nth_error_upd_eq. auto. }
    assert (Hh0 : forall j, j <> idx -> j <> prev -> hdn ns3 0 j = hdn (gnodes g) 0 j).
    { intros j H1 H2. unfold ns3. rewrite hdn_set_hd_10. unfold ns2.
      rewrite hdn_set_hd_neq by auto. apply hdn_same. unfold ns1. apply nth_error_upd_neq. auto. }
    assert (Hh0p : prev <> cap -> hdn ns3 0 prev = Some nxt).
    { intros Hne. unfold ns3. rewrite hdn_set_hd_10. unfold ns2. apply hdn_set_hd_same. lia. }
    assert (Hh1 : forall j, j <> idx -> j <> nxt -> hdn ns3 1 j = hdn (gnodes g) 1 j).
    { intros j H1 H2. unfold ns3. rewrite hdn_set_hd_neq by auto. unfold ns2.
      rewrite hdn_set_hd_01. apply hdn_same. unfold ns1. apply nth_error_upd_neq. auto. }
    assert (Hh1n : nxt <> cap -> hdn ns3 1 nxt = Some prev).
    { intros Hne. unfold ns3. apply hdn_set_hd_same. lia. }
    assert (Hfx' : forall j, j <> idx -> j <> prev -> fnx g' j = fnx g j).
    { intros j H1 H2. apply fnx_same2.
      - unfold g'. cbn [gnodes]. rewrite Hmw. apply nth_error_upd_neq. auto.
      - apply Hh0; auto. }
    assert (Hfxp : prev <> cap -> fnx g' prev = Some nxt).
    { intros Hne. rewrite fnx_of. rewrite Hnw.
      destruct (Nat.eqb_spec prev idx) as [|_]; [contradiction|].
      destruct (Hvac_fl prev) as [Hplt Hpv]; [apply in_or_app; left; auto|].
      rewrite Hpv. unfold g'. cbn [gnodes]. rewrite Hlen3.
      destruct (Nat.ltb_spec prev (length (gnodes g))); [|lia]. apply Hh0p. auto. }
    assert (Hlive_oth : forall j, nwo g j <> None -> j <> idx /\ j <> prev /\ j <> nxt).
    { intros j Hj. split; [|split].
      - intros ->. contradiction.
      - intros ->. destruct Hprange as [Hp|Hp].
        + destruct (Hvac_fl prev) as [_ Hpv]; [apply in_or_app; left; apply Hpin; lia|]. contradiction.
        + apply Hj. apply nwo_oob. lia.
      - intros ->. destruct Hnrange as [Hn|Hn].
        + destruct (Hvac_fl nxt) as [_ Hpv]; [apply in_or_app; right; right; apply Hnin; lia|]. contradiction.
        + apply Hj. apply nwo_oob. lia. }
    assert (Hadj_old : forall k j l, nwo g j <> None -> adj g k j l -> adj g' k j l).
    { intros k j l Hj [n [Hn Hl]]. destruct (Hlive_oth j Hj) as [H1 [H2 H3]].
      exists n. split; auto. unfold g'. cbn [gnodes]. rewrite Hoth; auto. }
    assert (Hadj_new : forall k, adj g' k idx []).
    { intros k. exists newn. split; [exact Hnew|]. destruct k; simpl; constructor. }
    (* the new free list *)
    assert (Hfree : lseg (fnx g') fn' (l1 ++ l2) cap /\ bkp g' cap (l1 ++ l2)).
    { assert (HL2 : lseg (fnx g') nxt l2 cap).
      { eapply lseg_frame; [exact Hl2|]. intros x Hx. apply Hfx'.
        - intros ->. contradiction.
        - intros ->. destruct (Nat.eq_dec prev cap) as [E|Hne].
          + assert (Hxx : In cap (l1 ++ idx :: l2)) by (rewrite <- E; apply in_or_app; right; right; auto).
            apply Hvac_fl in Hxx. lia.
          + apply (NoDup_app_disjoint _ _ prev Hnd12); auto. }
      assert (HB2 : bkp g' prev l2).
      { destruct Hncase as [[-> _]|[l2' El2]]; [exact Logic.I|]. subst l2.
        destruct Hb2 as [_ Hb2']. split.
        - unfold g'. cbn [gnodes]. apply Hh1n. intros E.
          assert (Hxx : In cap (l1 ++ idx :: nxt :: l2')) by (rewrite <- E; apply in_or_app; right; right; left; auto).
          apply Hvac_fl in Hxx. lia.
        - eapply bkp_frame; [|exact Hb2']. intros x Hx. unfold g'. cbn [gnodes]. apply Hh1.
          + intros ->. apply Hn2. simpl; auto.
          + intros ->. apply NoDup_remove_2 in Hnd. apply NoDup_app_r in Hnd12.
            inversion Hnd12; auto. }
      destruct Hpcase as [[El1 Ep]|[l1' El1]].
      - (* idx is the head *)
        subst l1. cbn [app] in *. pose proof (lseg_nil_inv Hs1) as Efn.
        unfold fn'. rewrite Efn, Nat.eqb_refl. split; [exact HL2|]. rewrite <- Ep. exact HB2.
      - (* idx has a predecessor *)
        assert (Hpne : prev <> cap).
        { intros E. apply Hpcap in E. rewrite E in El1. destruct l1'; discriminate. }
        assert (Hfnidx : fn <> idx).
        { intros E. rewrite El1 in Hs1. destruct l1' as [|y l1'']; cbn [app] in Hs1;
            apply lseg_cons_inv in Hs1; destruct Hs1 as [Ey _]; apply Hn1; rewrite El1, <- E;
            [subst fn; simpl; auto|subst fn; simpl; auto]. }
        unfold fn'. destruct (Nat.eqb_spec fn idx) as [|_]; [contradiction|].
        rewrite El1 in Hs1. apply lseg_snoc_inv in Hs1. destruct Hs1 as [Hs1 Hpx].
        assert (Hp1' : ~ In prev l1').
        { rewrite El1 in Hnd12. rewrite <- app_assoc in Hnd12. apply NoDup_remove_2 in Hnd12.
          intros Hx. apply Hnd12. apply in_or_app. auto. }
        split.
        + rewrite El1, <- app_assoc. eapply lseg_app.
          * eapply lseg_frame; [exact Hs1|]. intros x Hx. apply Hfx'.
            -- intros ->. apply Hn1. rewrite El1. apply in_or_app. auto.
            -- intros ->. contradiction.
          * econstructor; [apply Hfxp; auto|exact HL2].
        + apply bkp_app_iff. split.
          * eapply bkp_frame; [|exact Hb1]. intros x Hx. unfold g'. cbn [gnodes]. apply Hh1.
            -- intros ->. contradiction.
            -- intros ->. destruct (Nat.eq_dec nxt cap) as [E|Hne].
               ++ assert (Hxx : In cap (l1 ++ idx :: l2)) by (rewrite <- E; apply in_or_app; auto).
                  apply Hvac_fl in Hxx. lia.
               ++ apply (NoDup_app_disjoint _ _ nxt Hnd12); auto.
          * rewrite <- Eprev. exact HB2. }
    assert (Hvac' : forall i, In i (l1 ++ l2) <-> i < length (gnodes g) /\ nwo g' i = None).
    { intros i. rewrite Hnw. pose proof (Cf i) as Ci.
      destruct (Nat.eqb_spec i idx) as [->|Hne].
      - split; [|intros [_ H]; discriminate]. intros H. exfalso. apply in_app_or in H.
        destruct H as [H|H]; [apply Hn1; exact H|apply Hn2; exact H].
      - split.
        + intros H. assert (H' : In i (l1 ++ idx :: l2)).
          { apply in_app_or in H. apply in_or_app.
            destruct H as [H|H]; [left; exact H|right; right; exact H]. }
          apply Ci in H'. destruct H' as [A [B _]]. split; [exact A|exact B].
        + intros [H1 H2]. assert (H' : In i (l1 ++ idx :: l2)).
          { apply Ci. split; auto. split; auto. discriminate. }
          apply in_app_or in H'. apply in_or_app.
          destruct H' as [H'|[H'|H']]; [left; exact H'|congruence|right; exact H']. }
    split; [constructor|constructor]; cbn [sg ncount ecount free_node free_edge].
    - constructor.
      + unfold g'. cbn [gnodes]. lia.
      + apply (sgi_ecap (si_g I)).
      + intros k x i Hx Hep. apply lv_None. rewrite Hnw.
        destruct (Nat.eqb_spec i idx); [discriminate|].
        apply lv_None. apply (sgi_ends (si_g I) k x); auto.
      + intros k i Hi. apply lv_None in Hi. rewrite Hnw in Hi.
        destruct (Nat.eqb_spec i idx) as [E|Hne]; [subst i|].
        * exists []. split; [apply Hadj_new|].
          intros x. split; [intros []|]. intros [Hx Hep]. exfalso.
          assert (Hl : lv None g idx) by (apply (sgi_ends (si_g I) k x); auto).
          apply lv_None in Hl. contradiction.
        * destruct (sgi_adj (si_g I) k (i := i)) as [l [Hl C]]; [apply lv_None; auto|].
          exists l. split; auto.
    - intros a H. discriminate.
    - unfold g'. cbn [gnodes]. rewrite Hmw.
      assert (Hn0 : nth_error (map (@nwt _) (gnodes g)) idx = Some None).
      { rewrite nth_error_map, Hslot. simpl. rewrite Hw. reflexivity. }
      pose proof (@nsome_upd _ _ _ _ (Some w) Hn0) as Hc. cbn [osome] in Hc.
      rewrite (si_nc I). fold g. cbn [osome]. lia.
    - apply (si_ec I).
    - exists (l1 ++ l2). split; [apply Hfree|]. split; [apply Hfree|].
      intros i. unfold g'. cbn [gnodes]. rewrite Hlen3. fold g'. rewrite Hvac'.
      split; [intros [A B]; split; auto; split; auto; discriminate|intros [A [B _]]; split; auto].
    - apply (@FEL_same_edges cap g g'); [reflexivity|apply (si_fe I)].
    - rewrite Hnw, Nat.eqb_refl. reflexivity.
    - intros j Hj. rewrite Hnw. destruct (Nat.eqb_spec j idx); [contradiction|reflexivity].
    - reflexivity.
    - unfold g'. cbn [gnodes]. exact Hlen3.
    - exact Hadj_old.
    - exact Hadj_new.
    - reflexivity.
    - reflexivity.
    - reflexivity.
    - exists l1, l2. split; [exact Hfl|]. exact Hfree.
  Qed.

  Lemma occupy_oob s idx w :
    length (gnodes (sg s)) <= idx -> occupy_vacant_node cap debug s idx w = Panic.
  Proof.
    intros H. unfold occupy_vacant_node. rewrite (proj2 (nth_error_None _ _)); auto.
  Qed.
End Occupy.

(* ------------------------------------------------------------------ *)
(* add_vacant_node, ensure_node_exists                                 *)

Section Ensure.
  Variable cap : nat.
  Variable capcheck : bool.
  Variable debug : bool.

  Notation adj := (@adj (option nat) (option nat) cap).
  Notation SInv := (SInv cap).

  (* one vacant slot appended and pushed on the free list *)
  Record avn_post (s s' : sgraph) : Prop := {
    av_nodes : forall j, nwo (sg s') j = nwo (sg s) j;
    av_edges : gedges (sg s') = gedges (sg s);
    av_nlen : length (gnodes (sg s')) = S (length (gnodes (sg s)));
    av_adj : forall k j l, nwo (sg s) j <> None -> adj (sg s) k j l -> adj (sg s') k j l;
    av_nc : ncount s' = ncount s;
    av_ec : ecount s' = ecount s;
    av_fe : free_edge s' = free_edge s;
    av_fn : free_node s' = length (gnodes (sg s));
    av_free : forall l, lseg (fnx (sg s)) (free_node s) l cap ->
                lseg (fnx (sg s')) (free_node s') (length (gnodes (sg s)) :: l) cap
  }.

  Lemma add_vacant_node_spec s :
    SInv s -> length (gnodes (sg s)) < cap ->
    exists g', add_vacant_node cap capcheck (sg s) (free_node s) = Ok (g', length (gnodes (sg s))) /\
      SInv (mkSG g' (ncount s) (ecount s) (length (gnodes (sg s))) (free_edge s)) /\
      avn_post s (mkSG g' (ncount s) (ecount s) (length (gnodes (sg s))) (free_edge s)).
  Proof.
    intros I Hlt. set (g := sg s) in *. set (fn := free_node s) in *.
    remember (length (gnodes g)) as m eqn:Em.
    pose proof (sgi_ncap (si_g I)) as Hncap. fold g in Hncap.
    destruct (si_fn I) as [fl [Hfl [Hfb Cf]]]. fold g fn in Hfl, Hfb, Cf.
    pose proof (FNL_NoDup Hncap Hfl) as Hnd.
    assert (Hfn : (fn < m /\ exists fl', fl = fn :: fl') \/ (fn = cap /\ fl = [])).
    { destruct fl as [|y fl'].
      - right. apply lseg_nil_inv in Hfl. auto.
      - left. pose proof Hfl as Hfl2. apply lseg_cons_inv in Hfl2. destruct Hfl2 as [-> _].
        split; [|eauto]. rewrite Em. apply (lseg_fnx_in fn Hfl). simpl; auto. }
    assert (Hfnm : fn <> m) by (destruct Hfn as [[H _]|[H _]]; lia).
    assert (Hfl_lt : forall x, In x fl -> x < m).
    { intros x Hx. rewrite Em. apply (lseg_fnx_in x Hfl Hx). }
    set (vn := mkNode None (fn, cap) : node (option nat)).
    set (ns' := set_hd (gnodes g ++ [vn]) 1 fn m).
    set (g' := mkGraph ns' (gedges g) : IG).
    assert (Hrun : add_vacant_node cap capcheck g fn = Ok (g', m)).
    { unfold add_vacant_node.
      rewrite (@try_add_node_ok _ _ cap capcheck g None) by (right; lia).
      rewrite <- Em. unfold upd_node at 1. cbn [gnodes gedges].
      assert (Hnth : nth_error (gnodes g ++ [mkNode (None : option nat) (cap, cap)]) m
                     = Some (mkNode None (cap, cap))).
      { rewrite nth_error_app2 by lia. rewrite Em, Nat.sub_diag. reflexivity. }
      rewrite Hnth. cbn [rbind].
      assert (Hupd : upd (gnodes g ++ [mkNode (None : option nat) (cap, cap)]) m
                       (set_nnext (mkNode (None : option nat) (cap, cap)) (fn, cap)) = gnodes g ++ [vn]).
      { rewrite Em. rewrite upd_app_last. reflexivity. }
      rewrite !Hupd.
      rewrite (@upd_back_ptr cap (mkGraph (gnodes g ++ [vn]) (gedges g)) fn m).
      - cbn [rbind gnodes gedges]. reflexivity.
      - cbn [gnodes]. rewrite app_length. simpl. lia.
      - cbn [gnodes]. rewrite app_length. simpl. destruct Hfn as [[H _]|[H _]]; [left; lia|right; auto]. }
    exists g'. split; [exact Hrun|].
    assert (Hlen' : length ns' = S m).
    { unfold ns'. rewrite set_hd_length, app_length. simpl. lia. }
    assert (Hmw : map (@nwt _) ns' = map (@nwt _) (gnodes g) ++ [None]).
    { unfold ns'. rewrite set_hd_nwt, map_app. reflexivity. }
    assert (Hnw : forall j, nwo g' j = nwo g j).
    { intros j. rewrite (nwo_map g' j), (nwo_map g j). unfold g'. cbn [gnodes].
      rewrite Hmw, nth_error_app, map_length, <- Em.
      destruct (Nat.ltb_spec j m) as [Hj|Hj]; [reflexivity|].
      rewrite (nth_error_oob (map (@nwt _) (gnodes g)) j) by (rewrite map_length; lia).
      destruct (j - m) as [|d]; [reflexivity|]. destruct d; reflexivity. }
    assert (Hold : forall j, j < m -> j <> fn -> nth_error ns' j = nth_error (gnodes g) j).
    { intros j H1 H2. unfold ns'. rewrite nth_set_hd_neq by auto. apply nth_error_app1. lia. }
    assert (Hvn : nth_error ns' m = Some vn).
    { unfold ns'. rewrite nth_set_hd_neq by auto. rewrite nth_error_app2 by lia.
      rewrite Em, Nat.sub_diag. reflexivity. }
    assert (Hh0 : forall j, j < m -> hdn ns' 0 j = hdn (gnodes g) 0 j).
    { intros j Hj. unfold ns'. rewrite hdn_set_hd_10. apply hdn_same. apply nth_error_app1. lia. }
    assert (Hfx : forall j, j < m -> fnx g' j = fnx g j).
    { intros j Hj. apply fnx_same2.
      - unfold g'. cbn [gnodes]. rewrite Hmw. apply nth_error_app1. rewrite map_length. lia.
      - apply Hh0; auto. }
    assert (Hfxm : fnx g' m = Some fn).
    { unfold fnx, g'. cbn [gnodes]. rewrite Hvn. reflexivity. }
    assert (Hlive : forall j, nwo g j <> None -> j < m /\ j <> fn).
    { intros j Hj. split; [rewrite Em; apply nwo_Some_lt; auto|].
      intros ->. destruct Hfn as [[_ [fl' ->]]|[E _]].
      - destruct (lseg_fnx_in fn Hfl) as [_ Hv]; [simpl; auto|]. contradiction.
      - apply Hj. apply nwo_oob. lia. }
    assert (Hadj : forall k j l, nwo g j <> None -> adj g k j l -> adj g' k j l).
    { intros k j l Hj [n [Hn Hl]]. destruct (Hlive j Hj) as [H1 H2].
      exists n. split; auto. unfold g'. cbn [gnodes]. rewrite Hold; auto. }
    assert (Hfree : lseg (fnx g') m (m :: fl) cap).
    { econstructor; [exact Hfxm|]. eapply lseg_frame; [exact Hfl|].
      intros x Hx. apply Hfx. auto. }
    split; [constructor|constructor]; cbn [sg ncount ecount free_node free_edge].
    - constructor.
      + unfold g'. cbn [gnodes]. lia.
      + apply (sgi_ecap (si_g I)).
      + intros k x i Hx Hep. apply lv_None. rewrite Hnw.
        apply lv_None. apply (sgi_ends (si_g I) k x); auto.
      + intros k i Hi. apply lv_None in Hi. rewrite Hnw in Hi.
        destruct (sgi_adj (si_g I) k (i := i)) as [l [Hl C]]; [apply lv_None; auto|].
        exists l. split; auto.
    - intros a H. discriminate.
    - unfold g'. cbn [gnodes]. rewrite Hmw, nsome_app. cbn [nsome].
      rewrite (si_nc I). fold g. lia.
    - apply (si_ec I).
    - exists (m :: fl). split; [exact Hfree|]. split.
      + split.
        * unfold hdn, g'. cbn [gnodes]. rewrite Hvn. reflexivity.
        * destruct Hfn as [[Hfnlt [fl' Efl]]|[_ Efl]]; subst fl; [|exact Logic.I].
          destruct Hfb as [_ Hfb']. split.
          -- unfold g'. cbn [gnodes]. unfold ns'. apply hdn_set_hd_same.
             rewrite app_length. simpl. lia.
          -- eapply bkp_frame; [|exact Hfb']. intros x Hx. apply hdn_same.
             unfold g'. cbn [gnodes]. apply Hold.
             ++ apply Hfl_lt. simpl; auto.
             ++ intros ->. inversion Hnd; auto.
      + intros i. unfold g'. cbn [gnodes]. rewrite Hlen'. fold g'. rewrite Hnw.
        pose proof (Cf i) as Ci. simpl. split.
        * intros [<-|H].
          -- split; [lia|]. split; [apply nwo_oob; lia|discriminate].
          -- apply Ci in H. destruct H as [H1 [H2 _]]. split; [lia|]. split; [auto|discriminate].
        * intros [H1 [H2 _]]. destruct (Nat.eq_dec m i) as [E|Hne]; [left; auto|right].
          apply Ci. split; [lia|]. split; [auto|discriminate].
    - apply (@FEL_same_edges cap g g'); [reflexivity|apply (si_fe I)].
    - exact Hnw.
    - reflexivity.
    - unfold g'. cbn [gnodes]. rewrite Hlen', Em. reflexivity.
    - exact Hadj.
    - reflexivity.
    - reflexivity.
    - reflexivity.
    - exact Em.
    - intros l Hl. assert (l = fl).
      { eapply lseg_det; [|exact Hl|exact Hfl]. apply fnx_cap. auto. }
      subst l. fold g. rewrite <- Em. exact Hfree.
  Qed.

  Record avu_post (s : sgraph) (n : nat) (s' : sgraph) : Prop := {
    au_nodes : forall j, nwo (sg s') j = nwo (sg s) j;
    au_edges : gedges (sg s') = gedges (sg s);
    au_nlen : length (gnodes (sg s')) = length (gnodes (sg s)) + n;
    au_adj : forall k j l, nwo (sg s) j <> None -> adj (sg s) k j l -> adj (sg s') k j l;
    au_nc : ncount s' = ncount s;
    au_ec : ecount s' = ecount s;
    au_fe : free_edge s' = free_edge s;
    au_free : forall l, lseg (fnx (sg s)) (free_node s) l cap ->
                lseg (fnx (sg s')) (free_node s') (rev (seq (length (gnodes (sg s))) n) ++ l) cap
  }.

  Lemma avu_post_refl s : avu_post s 0 s.
  Proof. constructor; auto; lia. Qed.

  Lemma avu_post_step s s1 n s' : avn_post s s1 -> avu_post s1 n s' -> avu_post s (S n) s'.
  Proof.
    intros P1 P'. constructor.
    + intros j. rewrite (au_nodes P'). apply (av_nodes P1).
    + rewrite (au_edges P'). apply (av_edges P1).
    + rewrite (au_nlen P'), (av_nlen P1). lia.
    + intros k j l Hj Hl. apply (au_adj P').
      * rewrite (av_nodes P1). auto.
      * apply (av_adj P1); auto.
    + rewrite (au_nc P'). apply (av_nc P1).
    + rewrite (au_ec P'). apply (av_ec P1).
    + rewrite (au_fe P'). apply (av_fe P1).
    + intros l Hl. pose proof (au_free P' (av_free P1 Hl)) as H'.
      rewrite (av_nlen P1) in H'. cbn [seq rev]. rewrite <- app_assoc. exact H'.
  Qed.

  Lemma add_vacant_until_spec ix : forall n s fuel,
    SInv s -> S ix - length (gnodes (sg s)) = n -> n < fuel -> ix < cap ->
    exists s', add_vacant_until cap capcheck fuel s ix = (Ok tt, s') /\ SInv s' /\ avu_post s n s'.
  Proof.
    induction n as [|n IH]; intros s fuel I Hn Hf Hix;
      (destruct fuel as [|f]; [lia|]); cbn [add_vacant_until].
    - destruct (Nat.ltb_spec ix (length (gnodes (sg s)))) as [_|H]; [|lia].
      exists s. split; auto. split; auto. apply avu_post_refl.
    - destruct (Nat.ltb_spec ix (length (gnodes (sg s)))) as [H|H]; [lia|].
      destruct (@add_vacant_node_spec s I) as [g' [Hrun [I1 P1]]]; [lia|].
      rewrite Hrun.
      set (s1 := mkSG g' (ncount s) (ecount s) (length (gnodes (sg s))) (free_edge s)) in *.
      destruct (IH s1 f I1) as [s' [Hrun' [I' P']]]; [rewrite (av_nlen P1); lia|lia|auto|].
      exists s'. split; [exact Hrun'|]. split; [exact I'|]. eapply avu_post_step; eauto.
  Qed.

  (* at the index limit the padding loop panics after it has filled the vector up to cap slots:
     the state left behind has d = cap - len more vacant slots, all on the free list, and
     satisfies the invariant *)
  Lemma add_vacant_until_panic ix : forall d s fuel,
    capcheck = true -> SInv s -> cap <= ix -> cap - length (gnodes (sg s)) = d -> d < fuel ->
    exists s', add_vacant_until cap capcheck fuel s ix = (Panic, s') /\ SInv s' /\ avu_post s d s'.
  Proof.
    induction d as [|d IH]; intros s fuel Hc I Hix Hd Hf;
      (destruct fuel as [|f]; [lia|]); cbn [add_vacant_until];
      pose proof (sgi_ncap (si_g I)) as Hncap;
      (destruct (Nat.ltb_spec ix (length (gnodes (sg s)))) as [H|_]; [lia|]).
    - unfold add_vacant_node.
      rewrite (@try_add_node_limit _ _ cap capcheck (sg s) None) by (auto; lia).
      exists s. split; [reflexivity|]. split; [exact I|]. apply avu_post_refl.
    - destruct (@add_vacant_node_spec s I) as [g' [Hrun [I1 P1]]]; [lia|].
      rewrite Hrun.
      set (s1 := mkSG g' (ncount s) (ecount s) (length (gnodes (sg s))) (free_edge s)) in *.
      destruct (IH s1 f Hc I1 Hix) as [s' [Hrun' [I' P']]]; [rewrite (av_nlen P1); lia|lia|].
      exists s'. split; [exact Hrun'|]. split; [exact I'|]. eapply avu_post_step; eauto.
  Qed.

  (* ensure_node_exists on a slot that is not live *)
  Record ens_post (s : sgraph) (ix : nat) (s' : sgraph) : Prop := {
    en_new : nwo (sg s') ix = Some 0;
    en_old : forall j, j <> ix -> nwo (sg s') j = nwo (sg s) j;
    en_edges : gedges (sg s') = gedges (sg s);
    en_nlen : length (gnodes (sg s')) = Nat.max (length (gnodes (sg s))) (S ix);
    en_adj_old : forall k j l, nwo (sg s) j <> None -> adj (sg s) k j l -> adj (sg s') k j l;
    en_adj_new : forall k, adj (sg s') k ix [];
    en_nc : ncount s' = S (ncount s);
    en_ec : ecount s' = ecount s;
    en_fe : free_edge s' = free_edge s;
    en_free : forall l, lseg (fnx (sg s)) (free_node s) l cap ->
      exists l1 l2,
        rev (seq (length (gnodes (sg s))) (S ix - length (gnodes (sg s)))) ++ l = l1 ++ ix :: l2 /\
        lseg (fnx (sg s')) (free_node s') (l1 ++ l2) cap /\ bkp (sg s') cap (l1 ++ l2)
  }.

  Theorem ensure_node_exists_spec s ix :
    SInv s ->
    (nwo (sg s) ix <> None -> ensure_node_exists cap capcheck debug s ix = (Ok tt, s)) /\
    (nwo (sg s) ix = None -> ix < cap ->
       exists s', ensure_node_exists cap capcheck debug s ix = (Ok tt, s') /\ SInv s' /\ ens_post s ix s') /\
    (capcheck = true -> cap <= ix ->
       exists s', ensure_node_exists cap capcheck debug s ix = (Panic, s') /\ SInv s' /\
                  avu_post s (cap - length (gnodes (sg s))) s').
  Proof.
    intros I. pose proof (sgi_ncap (si_g I)) as Hncap. split; [|split].
    - intros Hl. unfold ensure_node_exists. destruct (get_node_live s ix Hl) as [n [Hg _]].
      rewrite Hg. reflexivity.
    - intros Hv Hix. unfold ensure_node_exists. rewrite (get_node_vacant s ix Hv).
      destruct (@add_vacant_until_spec ix _ s (S (S ix)) I eq_refl) as [s1 [Hrun1 [I1 P1]]]; [lia|auto|].
      rewrite Hrun1. cbv beta iota.
      destruct (@occupy_vacant_node_spec cap debug s1 ix 0 I1) as [s2 [Hrun2 [I2 P2]]].
      { rewrite (au_nlen P1). lia. }
      { rewrite (au_nodes P1). exact Hv. }
      rewrite Hrun2.
      exists s2. split; [reflexivity|]. split; [exact I2|]. constructor.
      + apply (oc_new P2).
      + intros j Hj. rewrite (oc_old P2) by auto. apply (au_nodes P1).
      + rewrite (oc_edges P2). apply (au_edges P1).
      + rewrite (oc_nlen P2), (au_nlen P1). lia.
      + intros k j l Hj Hl. apply (oc_adj_old P2).
        * rewrite (au_nodes P1). auto.
        * apply (au_adj P1); auto.
      + apply (oc_adj_new P2).
      + rewrite (oc_nc P2), (au_nc P1). reflexivity.
      + rewrite (oc_ec P2). apply (au_ec P1).
      + rewrite (oc_fe P2). apply (au_fe P1).
      + intros l Hl. destruct (oc_free P2) as [l1 [l2 [H1 [H2 H3]]]].
        exists l1, l2. split; [|auto].
        eapply lseg_det; [|exact (au_free P1 Hl)|exact H1].
        apply fnx_cap. apply (sgi_ncap (si_g I1)).
    - intros Hc Hix. unfold ensure_node_exists.
      rewrite (get_node_vacant s ix) by (apply nwo_oob; lia).
      destruct (@add_vacant_until_panic ix _ s (S (S ix)) Hc I Hix eq_refl) as [s' [Hrun [I' P']]]; [lia|].
      rewrite Hrun. cbv beta iota. exists s'. split; [reflexivity|]. split; [exact I'|exact P'].
  Qed.
End Ensure.

(* ------------------------------------------------------------------ *)
(* X2: extend_with_edges                                               *)

Lemma Forall2_in_r {A B} (R : A -> B -> Prop) l l' y :
  Forall2 R l l' -> In y l' -> exists x, In x l /\ R x y.
Proof.
  intros H; induction H as [|a b l l' Hab Hl IH]; intros Hin; simpl in Hin; [contradiction|].
  destruct Hin as [<-|Hin].
  - exists a. simpl; auto.
  - destruct (IH Hin) as [x [Hx Hr]]. exists x. simpl; auto.
Qed.

Lemma Forall2_imp {A B} (R R' : A -> B -> Prop) l l' :
  (forall a b, R a b -> R' a b) -> Forall2 R l l' -> Forall2 R' l l'.
Proof. intros Himp H; induction H; constructor; auto. Qed.

(* live nodes and edges of s survive in s' with weight (and endpoints) unchanged *)
Record keeps (s s' : sgraph) : Prop := {
  kp_nodes : forall j w, nwo (sg s) j = Some w -> nwo (sg s') j = Some w;
  kp_edges : forall x w, ewo (sg s) x = Some w -> ewo (sg s') x = Some w;
  kp_epo : forall k x, ewo (sg s) x <> None -> epo (gedges (sg s')) k x = epo (gedges (sg s)) k x;
  kp_nlen : length (gnodes (sg s)) <= length (gnodes (sg s'));
  kp_elen : length (gedges (sg s)) <= length (gedges (sg s'))
}.

Lemma keeps_refl s : keeps s s.
Proof. constructor; auto. Qed.

Lemma keeps_trans s1 s2 s3 : keeps s1 s2 -> keeps s2 s3 -> keeps s1 s3.
Proof.
  intros A B. constructor.
  - intros j w H. apply (kp_nodes B). apply (kp_nodes A). auto.
  - intros x w H. apply (kp_edges B). apply (kp_edges A). auto.
  - intros k x H. rewrite (kp_epo B), (kp_epo A); auto.
    destruct (ewo (sg s1) x) as [w|] eqn:E; [|congruence].
    rewrite (kp_edges A _ E). discriminate.
  - pose proof (kp_nlen A). pose proof (kp_nlen B). lia.
  - pose proof (kp_elen A). pose proof (kp_elen B). lia.
Qed.

Definition endp (es : list (nat * nat * nat)) (j : nat) : Prop :=
  exists a b w, In (a, b, w) es /\ (j = a \/ j = b).

(* edge [x] of s' is the listed edge t, stored in a slot that was not live in s *)
Definition added (s s' : sgraph) (t : nat * nat * nat) (x : nat) : Prop :=
  ewo (sg s) x = None /\ ewo (sg s') x = Some (snd t) /\
  epo (gedges (sg s')) 0 x = Some (fst (fst t)) /\ epo (gedges (sg s')) 1 x = Some (snd (fst t)).

Definition maxep (es : list (nat * nat * nat)) : nat :=
  fold_right (fun t m => Nat.max (Nat.max (fst (fst t)) (snd (fst t))) m) 0 es.

Section Extend.
  Variable cap : nat.
  Variable capcheck : bool.
  Variable debug : bool.

  Notation adj := (@adj (option nat) (option nat) cap).
  Notation SInv := (SInv cap).

  (* ensure_node_exists, all cases in one statement *)
  Record ens_sum (s : sgraph) (ix : nat) (s' : sgraph) : Prop := {
    es_inv : SInv s';
    es_keeps : keeps s s';
    es_live : nwo (sg s') ix <> None;
    es_edges : gedges (sg s') = gedges (sg s);
    es_fe : free_edge s' = free_edge s;
    es_ec : ecount s' = ecount s;
    es_nodes : forall j, nwo (sg s') j <> None <-> (nwo (sg s) j <> None \/ j = ix);
    es_zero : forall j, nwo (sg s) j = None -> nwo (sg s') j <> None -> nwo (sg s') j = Some 0 /\ j = ix;
    es_nlen : length (gnodes (sg s')) <= Nat.max (length (gnodes (sg s))) (S ix)
  }.

  (* what a failed ensure_node_exists (index at or beyond the limit) leaves behind: the vector
     padded with vacant slots up to cap entries, everything else as before *)
  Record pad_sum (s s' : sgraph) : Prop := {
    ps_inv : SInv s';
    ps_keeps : keeps s s';
    ps_nodes : forall j, nwo (sg s') j = nwo (sg s) j;
    ps_edges : gedges (sg s') = gedges (sg s);
    ps_fe : free_edge s' = free_edge s;
    ps_ec : ecount s' = ecount s;
    ps_nlen : length (gnodes (sg s')) = cap
  }.

  Lemma ensure_total s ix :
    SInv s -> (capcheck = false -> ix < cap) ->
    (exists s', ensure_node_exists cap capcheck debug s ix = (Panic, s') /\
                capcheck = true /\ cap <= ix /\ pad_sum s s') \/
    (exists s', ensure_node_exists cap capcheck debug s ix = (Ok tt, s') /\ ens_sum s ix s').
  Proof.
    intros I Hroom. destruct (ensure_node_exists_spec capcheck debug ix I) as [H1 [H2 H3]].
    destruct (nwo (sg s) ix) as [w0|] eqn:E.
    - right. exists s. split; [apply H1; congruence|]. constructor; auto.
      + apply keeps_refl.
      + congruence.
      + intros j. split; [auto|]. intros [H| ->]; congruence.
      + intros j Hj Hj'. contradiction.
      + lia.
    - destruct (Nat.lt_ge_cases ix cap) as [Hlt|Hge].
      + right. destruct (H2 eq_refl Hlt) as [s' [Hrun [I' P]]]. exists s'. split; auto.
        constructor; auto.
        * constructor.
          -- intros j w Hj. rewrite (en_old P); auto. intros ->. congruence.
          -- intros x w Hx. unfold ewo. rewrite (en_edges P). exact Hx.
          -- intros k x _. rewrite (en_edges P). reflexivity.
          -- rewrite (en_nlen P). lia.
          -- rewrite (en_edges P). lia.
        * rewrite (en_new P). discriminate.
        * apply (en_edges P).
        * apply (en_fe P).
        * apply (en_ec P).
        * intros j. destruct (Nat.eq_dec j ix) as [->|Hne].
          -- rewrite (en_new P). split; [auto|discriminate].
          -- rewrite (en_old P) by auto. split; [auto|]. intros [H|H]; [auto|contradiction].
        * intros j Hj Hj'. destruct (Nat.eq_dec j ix) as [->|Hne].
          -- split; [apply (en_new P)|reflexivity].
          -- rewrite (en_old P) in Hj' by auto. contradiction.
        * rewrite (en_nlen P). lia.
      + left. destruct capcheck eqn:Ec.
        * destruct (H3 eq_refl Hge) as [s' [Hrun [I' P]]]. exists s'.
          split; [exact Hrun|]. split; [reflexivity|]. split; [exact Hge|].
          pose proof (sgi_ncap (si_g I)) as Hncap.
          constructor.
          -- exact I'.
          -- constructor.
             ++ intros j w Hj. rewrite (au_nodes P). exact Hj.
             ++ intros x w Hx. unfold ewo. rewrite (au_edges P). exact Hx.
             ++ intros k x _. rewrite (au_edges P). reflexivity.
             ++ rewrite (au_nlen P). lia.
             ++ rewrite (au_edges P). lia.
          -- apply (au_nodes P).
          -- apply (au_edges P).
          -- apply (au_fe P).
          -- apply (au_ec P).
          -- rewrite (au_nlen P). lia.
        * specialize (Hroom eq_refl). lia.
  Qed.

  Lemma ae_keeps s a b w e s' : add_edge_post cap s a b w e s' -> keeps s s'.
  Proof.
    intros P. constructor.
    - intros j w0 H. rewrite (ae_nodes P). exact H.
    - intros x w0 H. rewrite (ae_old P); auto. intros ->. rewrite (ae_fresh P) in H. discriminate.
    - intros k x H. apply (ae_old_ends P). intros ->. apply H. apply (ae_fresh P).
    - rewrite (ae_nlen P). lia.
    - apply (ae_elen P).
  Qed.

  Definition ext_room (s : sgraph) (es : list (nat * nat * nat)) : Prop :=
    capcheck = false ->
    (forall a b w, In (a, b, w) es -> a < cap /\ b < cap) /\
    length (gedges (sg s)) + length es <= cap.

  Definition ext_result (s : sgraph) (es : list (nat * nat * nat)) (ok : bool) (s' : sgraph) : Prop :=
    SInv s' /\ keeps s s' /\
    (length (gnodes (sg s')) <= Nat.max (length (gnodes (sg s))) (S (maxep es)) /\
     length (gedges (sg s')) <= length (gedges (sg s)) + length es) /\
    (forall j, nwo (sg s) j = None -> nwo (sg s') j <> None -> nwo (sg s') j = Some 0 /\ endp es j) /\
    exists pre post xs,
      es = pre ++ post /\ Forall2 (added s s') pre xs /\ NoDup xs /\
      (forall x, ewo (sg s') x <> None <-> (ewo (sg s) x <> None \/ In x xs)) /\
      (forall j, endp pre j -> nwo (sg s') j <> None) /\
      ecount s' = ecount s + length pre /\
      (if ok then post = []
       else capcheck = true /\
            exists a b w post', post = (a, b, w) :: post' /\
              (((cap <= a \/ (nwo (sg s') a <> None /\ cap <= b)) /\ length (gnodes (sg s')) = cap) \/
               (a < cap /\ b < cap /\ free_edge s' = cap /\ length (gedges (sg s')) = cap))).

  Lemma ext_result_stop s es s' a b w rest :
    es = (a, b, w) :: rest ->
    SInv s' -> keeps s s' -> gedges (sg s') = gedges (sg s) -> ecount s' = ecount s ->
    length (gnodes (sg s')) <= Nat.max (length (gnodes (sg s))) (S (Nat.max a b)) ->
    (forall j, nwo (sg s) j = None -> nwo (sg s') j <> None -> nwo (sg s') j = Some 0 /\ (j = a \/ j = b)) ->
    capcheck = true ->
    (((cap <= a \/ (nwo (sg s') a <> None /\ cap <= b)) /\ length (gnodes (sg s')) = cap) \/
     (a < cap /\ b < cap /\ free_edge s' = cap /\ length (gedges (sg s')) = cap)) ->
    ext_result s es false s'.
  Proof.
    intros -> I' K Eg Ec Hnl Hz Hc Hwhy. split; [auto|]. split; [auto|]. split; [|split].
    - split; [cbn [maxep fold_right fst snd]; lia|rewrite Eg; lia].
    - intros j H1 H2. destruct (Hz j H1 H2) as [Z Hj]. split; auto.
      exists a, b, w. split; [simpl; auto|auto].
    - exists [], ((a, b, w) :: rest), []. split; [reflexivity|]. split; [constructor|].
      split; [constructor|]. split; [|split; [|split]].
      + intros x. unfold ewo. rewrite Eg. simpl. tauto.
      + intros j [a0 [b0 [w0 [[] _]]]].
      + simpl. lia.
      + split; auto. exists a, b, w, rest. auto.
  Qed.

  Theorem s_extend_with_edges_spec es : forall s,
    SInv s -> ext_room s es ->
    exists ok s', s_extend_with_edges cap capcheck debug s es = (ok, s') /\ ext_result s es ok s'.
  Proof.
    induction es as [|[[a b] w] rest IH]; intros s I Hroom.
    - exists true, s. split; [reflexivity|]. split; [auto|]. split; [apply keeps_refl|]. split; [|split].
      + simpl. lia.
      + intros j H1 H2. contradiction.
      + exists [], [], []. split; [reflexivity|]. split; [constructor|]. split; [constructor|].
        split; [intros x; simpl; tauto|]. split; [intros j [a0 [b0 [w0 [[] _]]]]|].
        split; [simpl; lia|reflexivity].
    - cbn [s_extend_with_edges].
      assert (Hra : capcheck = false -> a < cap).
      { intros Hc. destruct (Hroom Hc) as [H _]. apply (H a b w). simpl; auto. }
      assert (Hrb : capcheck = false -> b < cap).
      { intros Hc. destruct (Hroom Hc) as [H _]. apply (H a b w). simpl; auto. }
      pose proof (sgi_ncap (si_g I)) as Hncap0.
      destruct (@ensure_total s a I Hra) as [[s1 [Hrun1 [Hc [Hge S1]]]]|[s1 [Hrun1 S1]]];
        rewrite Hrun1; cbv beta iota.
      { exists false, s1. split; [reflexivity|].
        eapply ext_result_stop; eauto.
        - apply (ps_inv S1).
        - apply (ps_keeps S1).
        - apply (ps_edges S1).
        - apply (ps_ec S1).
        - rewrite (ps_nlen S1). lia.
        - intros j H1 H2. rewrite (ps_nodes S1) in H2. contradiction.
        - left. split; [left; exact Hge|apply (ps_nlen S1)]. }
      pose proof (sgi_ncap (si_g (es_inv S1))) as Hncap1.
      destruct (@ensure_total s1 b (es_inv S1) Hrb) as [[s2 [Hrun2 [Hc [Hge S2]]]]|[s2 [Hrun2 S2]]];
        rewrite Hrun2; cbv beta iota.
      { exists false, s2. split; [reflexivity|].
        eapply ext_result_stop; eauto.
        - apply (ps_inv S2).
        - eapply keeps_trans; [apply (es_keeps S1)|apply (ps_keeps S2)].
        - rewrite (ps_edges S2). apply (es_edges S1).
        - rewrite (ps_ec S2). apply (es_ec S1).
        - rewrite (ps_nlen S2). lia.
        - intros j H1 H2. rewrite (ps_nodes S2) in H2 |- *.
          destruct (es_zero S1 j H1 H2) as [Z ->]. auto.
        - left. split; [|apply (ps_nlen S2)]. right. split; [|exact Hge].
          rewrite (ps_nodes S2). apply (es_live S1). }
      pose proof (es_inv S2) as I2.
      assert (K02 : keeps s s2) by (eapply keeps_trans; [apply (es_keeps S1)|apply (es_keeps S2)]).
      assert (Eg2 : gedges (sg s2) = gedges (sg s)) by (rewrite (es_edges S2); apply (es_edges S1)).
      assert (Ec2 : ecount s2 = ecount s) by (rewrite (es_ec S2); apply (es_ec S1)).
      assert (Hz2 : forall j, nwo (sg s) j = None -> nwo (sg s2) j <> None ->
                              nwo (sg s2) j = Some 0 /\ (j = a \/ j = b)).
      { intros j H1 H2. destruct (nwo (sg s1) j) as [v|] eqn:E1.
        - destruct (es_zero S1 j H1) as [Z ->]; [congruence|]. split; auto.
          apply (kp_nodes (es_keeps S2)). congruence.
        - destruct (es_zero S2 j E1 H2) as [Z ->]. auto. }
      assert (Hnl2 : length (gnodes (sg s2)) <= Nat.max (length (gnodes (sg s))) (S (Nat.max a b))).
      { pose proof (es_nlen S1). pose proof (es_nlen S2). lia. }
      assert (La2 : nwo (sg s2) a <> None).
      { apply (es_nodes S2). left. apply (es_live S1). }
      pose proof (es_live S2) as Lb2.
      destruct (@s_try_add_edge_total cap capcheck debug s2 a b w I2) as [r [s3 [Hrun3 [I3 P3]]]].
      { intros Hc _. destruct (Hroom Hc) as [_ H]. rewrite Eg2. simpl in H. lia. }
      rewrite Hrun3. destruct r as [e|x].
      { destruct P3 as [-> P3]. exists false, s2. split; [reflexivity|].
        destruct P3 as [[_ [Hfe [Hc Hl]]]|[i [_ [_ [Hi [Hv _]]]]]].
        - eapply ext_result_stop; eauto. right.
          pose proof (sgi_ncap (si_g I2)) as Hncap2.
          pose proof (nwo_Some_lt _ _ La2). pose proof (nwo_Some_lt _ _ Lb2).
          split; [lia|]. split; [lia|]. auto.
        - exfalso. destruct Hi as [->| ->]; contradiction. }
      destruct P3 as [_ [_ [Hx P3]]].
      pose proof (ae_keeps P3) as K23.
      destruct (IH s3 I3) as [ok [s' [Hrun' R']]].
      { intros Hc. destruct (Hroom Hc) as [H1 H2]. split.
        - intros a0 b0 w0 Hin. apply (H1 a0 b0 w0). simpl; auto.
        - pose proof (ae_elen P3) as H3. rewrite Eg2 in H3. simpl in H2. lia. }
      exists ok, s'. split; [exact Hrun'|].
      destruct R' as [I' [K3' [[Hbn' Hbe'] [Hz' [pre [post [xs [Ees [Hadd [Hnd [Hlive [Hendp [Hec Hok]]]]]]]]]]]]].
      assert (K03 : keeps s s3) by (eapply keeps_trans; eauto).
      assert (Hew3 : forall y, ewo (sg s3) y = if Nat.eqb y x then Some w else ewo (sg s) y).
      { intros y. destruct (Nat.eqb_spec y x) as [->|Hne]; [apply (ae_new P3)|].
        rewrite (ae_old P3) by auto. unfold ewo. rewrite Eg2. reflexivity. }
      assert (Hfresh : ewo (sg s) x = None).
      { pose proof (ae_fresh P3) as H. unfold ewo in *. rewrite Eg2 in H. exact H. }
      split; [exact I'|]. split; [eapply keeps_trans; eauto|]. split; [|split].
      + pose proof (ae_nlen P3) as Hn3. pose proof (ae_elen P3) as He3. rewrite Eg2 in He3.
        cbn [maxep fold_right fst snd length]. fold (maxep rest). split; lia.
      + intros j H1 H2. destruct (nwo (sg s3) j) as [v|] eqn:E3.
        * rewrite (ae_nodes P3) in E3. destruct (Hz2 j H1) as [Z Hj]; [congruence|]. split.
          -- apply (kp_nodes K3'). rewrite (ae_nodes P3). exact Z.
          -- exists a, b, w. split; [simpl; auto|auto].
        * destruct (Hz' j E3 H2) as [Z [a0 [b0 [w0 [Hin Hj]]]]]. split; auto.
          exists a0, b0, w0. split; [simpl; auto|auto].
      + exists ((a, b, w) :: pre), post, (x :: xs). split; [rewrite Ees; reflexivity|].
        split; [|split; [|split; [|split; [|split]]]].
        * constructor.
          -- unfold added. cbn [fst snd]. split; [exact Hfresh|]. split.
             ++ apply (kp_edges K3'). apply (ae_new P3).
             ++ rewrite !(kp_epo K3') by (rewrite (ae_new P3); discriminate).
                split; [apply (ae_new_ends P3 0)|apply (ae_new_ends P3 1)].
          -- eapply Forall2_imp; [|exact Hadd]. intros t y [A1 A2]. split; auto.
             rewrite Hew3 in A1. destruct (Nat.eqb_spec y x); [discriminate|exact A1].
        * constructor; auto. intros Hin.
          destruct (Forall2_in_r x Hadd Hin) as [t [_ [A1 _]]]. rewrite (ae_new P3) in A1. discriminate.
        * intros y. rewrite Hlive, Hew3. destruct (Nat.eqb_spec y x) as [->|Hne]; simpl.
          -- split; [auto|]. intros _. left. discriminate.
          -- split; [intros [H|H]; auto|]. intros [H|[H|H]]; auto; congruence.
        * intros j [a0 [b0 [w0 [[Heq|Hin] Hj]]]].
          -- injection Heq as -> -> ->.
             assert (L3 : nwo (sg s3) j <> None).
             { rewrite (ae_nodes P3). destruct Hj as [->| ->]; auto. }
             destruct (nwo (sg s3) j) as [v|] eqn:E3; [|congruence].
             rewrite (kp_nodes K3' _ E3). discriminate.
          -- apply Hendp. exists a0, b0, w0. auto.
        * rewrite Hec, (ae_ec P3), Ec2. simpl. lia.
        * exact Hok.
  Qed.
End Extend.
