(* T6, final form: a history of plain operations from Graph::new() runs to a state that is,
   query for query, the stamped multigraph of Spec/MGraph.v produced by the same history. *)
From PG Require Import Lib.ListArr Lib.Walk Model.GraphM Spec.MGraph
  Proofs.GraphP Proofs.GraphQ Proofs.GraphRE Proofs.GraphRN Proofs.GraphRev Proofs.GraphH
  Proofs.GraphT Proofs.GraphS Proofs.GraphErase.
Set Implicit Arguments.

Section GraphFinal.
  Context {NW EW : Type}.
  Variable cap : nat.
  Variable capcheck : bool.
  Variable debug : bool.

  Lemma map_op_stamp c (o : op NW EW) : map_op (@fst EW nat) (stamp_op c o) = o.
  Proof. destruct o; reflexivity. Qed.

  Lemma map_op_stamps (ops : list (op NW EW)) : forall c,
    map (map_op (@fst EW nat)) (stamp_ops c ops) = ops.
  Proof.
    induction ops as [|o ops IH]; intros c; simpl; auto.
    rewrite map_op_stamp, IH. reflexivity.
  Qed.

  (* what the multigraph s looks like without its stamps *)
  Definition unstamp (t : medge EW) : (nat * nat) * EW := (fst t, fst (snd t)).

  Theorem history_multigraph (ops : list (op NW EW)) :
    capcheck = true \/ length ops <= cap ->
    exists (g : graph NW EW) (s : mgraph NW EW),
      run cap capcheck debug g_empty ops = Ok g /\
      GInv cap g /\
      mrun cap capcheck m_empty ops s /\
      mnodes s = map (@nwt NW) (gnodes g) /\
      map unstamp (medges s) = etrip g /\
      (forall k a, adjf cap g k a = m_adj s k a) /\
      (forall a, neighbors_directed cap true g a 0 =
                   Ok (map (fun e => (e, m_ep s 1 e)) (m_adj s 0 a))) /\
      (forall a, neighbors_directed cap true g a 1 =
                   Ok (map (fun e => (e, m_ep s 0 e)) (m_adj s 1 a))).
  Proof.
    intros H.
    destruct (@history_refines NW EW cap capcheck debug ops H) as [gs [Er [Is [Mr Hadj]]]].
    set (c := clock_after 0 ops) in *.
    set (g := emap (@fst EW nat) gs).
    assert (Erun : run cap capcheck debug g_empty ops = Ok g).
    { pose proof (run_emap (@fst EW nat) cap capcheck debug (stamp_ops 0 ops) (@g_empty NW (EW * nat))) as E.
      rewrite map_op_stamps, Er in E. exact E. }
    assert (I : GInv cap g).
    { destruct (@run_empty_GInv NW EW cap capcheck debug ops H) as [g' [Er' I']].
      rewrite Erun in Er'. injection Er' as <-. exact I'. }
    assert (A : forall k a, adjf cap g k a = m_adj (mabs gs c) k a).
    { intros k a. unfold g. rewrite adjf_emap. apply Hadj. }
    exists g, (mabs gs c).
    split; [exact Erun|]. split; [exact I|]. split; [exact Mr|]. split; [reflexivity|].
    split; [unfold g; rewrite etrip_emap; reflexivity|]. split; [exact A|]. split.
    - intros a. rewrite (neighbors_directed_out I). rewrite A. f_equal.
      apply map_ext. intros e. unfold tgt, g. rewrite ept_emap, m_ep_mabs. reflexivity.
    - intros a. rewrite (neighbors_directed_in I a 0). rewrite A. f_equal.
      apply map_ext. intros e. unfold src, g. rewrite ept_emap, m_ep_mabs. reflexivity.
  Qed.
End GraphFinal.

(* ------------------------------------------------------------------ *)
(* Non-vacuity: a 4-node graph with parallel edges, a self-loop, a refused add_edge, one
   removal that moves the last edge, and one removal of an absent edge -- built by the
   executable model; it satisfies the invariant, and every query is computed.            *)
Definition ex_ops : list (op nat nat) :=
  [OAddNode 10; OAddNode 11; OAddNode 12; OAddNode 13;
   OAddEdge 0 1 100; OAddEdge 0 1 101; OAddEdge 2 2 102; OAddEdge 1 0 103; OAddEdge 3 0 104;
   OAddEdge 7 0 105; ORemoveEdge 3; ORemoveEdge 9].

Lemma example_graph :
  exists g : graph nat nat,
    run 50 true true g_empty ex_ops = Ok g /\ GInv 50 g /\
    etrip g = [(0, 1, 100); (0, 1, 101); (2, 2, 102); (3, 0, 104)] /\
    map (@nwt nat) (gnodes g) = [10; 11; 12; 13] /\
    (adjf 50 g 0 0, adjf 50 g 1 0, adjf 50 g 0 1, adjf 50 g 1 1,
     adjf 50 g 0 2, adjf 50 g 1 2, adjf 50 g 0 3, adjf 50 g 1 3)
      = ([1; 0], [3], [], [1; 0], [2], [2], [3], []) /\
    neighbors_directed 50 true g 0 0 = Ok [(1, 1); (0, 1)] /\
    neighbors_directed 50 true g 1 1 = Ok [(1, 0); (0, 0)] /\
    neighbors_undirected 50 g 0 = Ok [(1, 1); (0, 1); (3, 3)] /\
    neighbors_undirected 50 g 2 = Ok [(2, 2)] /\
    edges_directed 50 true g 0 0 = Ok [(1, (0, 1), 101); (0, (0, 1), 100)] /\
    edges_directed 50 false g 0 0 = Ok [(1, (0, 1), 101); (0, (0, 1), 100); (3, (0, 3), 104)] /\
    edges_directed 50 false g 0 1 = Ok [(1, (1, 0), 101); (0, (1, 0), 100); (3, (3, 0), 104)] /\
    edges_directed 50 false g 2 0 = Ok [(2, (2, 2), 102)] /\
    (find_edge true g 0 1, find_edge true g 1 0, find_edge true g 0 3,
     find_edge false g 0 3, find_edge false g 1 3)
      = (Ok (Some 1), Ok None, Ok None, Ok (Some 3), Ok None) /\
    (externals 50 true g 0, externals 50 true g 1, externals 50 false g 0) = ([1], [3], []) /\
    rmap (fun p => (fst p, etrip (snd p))) (remove_edge true g 0)
      = Ok (Some 100, [(3, 0, 104); (0, 1, 101); (2, 2, 102)]) /\
    rmap (fun p => (fst p, etrip (snd p), map (@nwt nat) (gnodes (snd p)))) (remove_node 50 true g 0)
      = Ok (Some 10, [(2, 2, 102)], [13; 11; 12]) /\
    rmap fst (remove_node 50 false g 9) = Ok None.
Proof.
  destruct (@run_empty_GInv nat nat 50 true true ex_ops (or_introl eq_refl)) as [g [E I]].
  exists g. split; [exact E|]. split; [exact I|].
  vm_compute in E. injection E as <-. vm_compute. repeat split; reflexivity.
Qed.

Lemma example_spec :
  let s := mkM [10; 11; 12; 13]
               [(0, 1, (100, 0)); (0, 1, (101, 1)); (2, 2, (102, 2)); (3, 0, (104, 4))] 6 in
  mrun 50 true m_empty ex_ops s /\
  (m_adj s 0 0, m_adj s 1 0, m_adj s 1 1, m_adj s 0 2, m_adj s 1 2) = ([1; 0], [3], [1; 0], [2], [2]).
Proof.
  intros s. split; [|vm_compute; reflexivity].
  destruct (@history_refines nat nat 50 true true ex_ops (or_introl eq_refl)) as [gs [Er [_ [Mr _]]]].
  vm_compute in Er. injection Er as <-. exact Mr.
Qed.
