(* Dfs (traversal.rs): Dfs::next, move_to, reset.  The emitted nodes are exactly the
   nodes reachable from the start through nodes not discovered before, each once. *)
From PG Require Import Lib.Io Model.View Model.Traversal Spec.Reach Proofs.TravBase.
Set Implicit Arguments.

(* ------------------------------------------------------------------ *)
(* One call of Dfs::next, as a relation                                *)

Definition dfs_next_rel (v : view) (d : dfs) (o : option nat) (d' : dfs) : Prop :=
  match o with
  | None => dstack d' = [] /\ ddisc d' = ddisc d /\ forall x, In x (dstack d) -> In x (ddisc d)
  | Some n => exists pre rest,
      dstack d = pre ++ n :: rest /\ (forall x, In x pre -> In x (ddisc d)) /\ ~ In n (ddisc d) /\
      ddisc d' = n :: ddisc d /\
      dstack d' = rev (filter (fun s => negb (is_visited (n :: ddisc d) s)) (neighbors v n)) ++ rest
  end.

Lemma dfs_next_sound v : forall fuel d o d',
  dfs_next fuel v d = Ok (o, d') -> dfs_next_rel v d o d'.
Proof.
  induction fuel as [|f IH]; intros d o d' H; [discriminate|].
  cbn [dfs_next] in H. destruct d as [st disc]; cbn [dstack ddisc] in *.
  destruct st as [|node rest].
  - injection H as <- <-. cbn [dfs_next_rel dstack ddisc]. repeat split; auto. intros x [].
  - destruct (visit v disc node) as [[fresh disc']| |] eqn:Ev; cbn [rbind] in H; try discriminate.
    apply visit_sound in Ev. destruct Ev as [-> ->].
    destruct (mem node disc) eqn:Em; cbn [negb] in H.
    + apply IH in H. destruct o as [n|]; cbn [dfs_next_rel dstack ddisc] in *.
      * destruct H as [pre [rest' [E [Hp [Hn [Hd Hs]]]]]]. exists (node :: pre), rest'.
        subst rest. repeat split; auto.
        intros x [<-|Hx]; [apply mem_In; exact Em | auto].
      * destruct H as [Hs [Hd Hall]]. repeat split; auto.
        intros x [<-|Hx]; [apply mem_In; exact Em | auto].
    + injection H as <- <-. exists [], rest. cbn [dfs_next_rel dstack ddisc app].
      repeat split; auto.
      * intros x [].
      * apply mem_false; exact Em.
Qed.

Lemma dfs_next_total v : forall fuel d,
  length (dstack d) < fuel -> (forall x, In x (dstack d) -> in_cap v x) ->
  exists o d', dfs_next fuel v d = Ok (o, d').
Proof.
  induction fuel as [|f IH]; intros d Hf Hc; [lia|].
  cbn [dfs_next]. destruct d as [st disc]; cbn [dstack ddisc] in *.
  destruct st as [|node rest]; [eauto|].
  rewrite (visit_ok v disc node) by (apply Hc; left; reflexivity). cbn [rbind].
  destruct (mem node disc); cbn [negb]; [|eauto].
  apply IH; cbn [dstack length] in *; [lia|]. intros x Hx; apply Hc; right; exact Hx.
Qed.

(* ------------------------------------------------------------------ *)
(* The invariant: D0 = discovered before the move, t = node moved to,
   E = emitted since (most recent first)                              *)

Record DInv (v : view) (D0 : list nat) (t : nat) (E : list nat) (d : dfs) : Prop := {
  di_disc : ddisc d = E ++ D0;
  di_nodup : NoDup E;
  di_fresh : forall x, In x E -> ~ In x D0;
  di_reach : forall x, In x E -> reach_in (fun y => ~ In y D0) v t x;
  di_stack : forall x, In x (dstack d) ->
               in_cap v x /\ (~ In x D0 -> reach_in (fun y => ~ In y D0) v t x);
  di_closed : forall u w, In u E -> step v u w -> In w (ddisc d) \/ In w (dstack d);
  di_start : In t (ddisc d) \/ In t (dstack d)
}.

Definition dmeas (v : view) (d : dfs) : nat :=
  length (dstack d) + usum (outdeg v) (ddisc d) (vnodes v).

Section DfsInv.
Variable v : view.
Hypothesis Hcap : forall a b, step v a b -> in_cap v b.
Hypothesis Hnodes : forall a b, step v a b -> In a (vnodes v).
Variable D0 : list nat.
Variable t : nat.

Lemma dinv_some E d n d' :
  DInv v D0 t E d -> dfs_next_rel v d (Some n) d' -> DInv v D0 t (n :: E) d'.
Proof.
  intros I [pre [rest [Es [Hpre [Hn [Ed' Es']]]]]].
  destruct I as [Ed Hnd Hfr Hre Hst Hcl Hs0].
  assert (HnE : ~ In n E) by (intros HE; apply Hn; rewrite Ed; apply in_or_app; left; exact HE).
  assert (HnD : ~ In n D0) by (intros HD; apply Hn; rewrite Ed; apply in_or_app; right; exact HD).
  assert (Hnst : In n (dstack d)) by (rewrite Es; apply in_or_app; right; left; reflexivity).
  assert (Hrn : reach_in (fun y => ~ In y D0) v t n) by (apply (Hst n Hnst); exact HnD).
  assert (Hold : forall w, In w (dstack d) -> In w (ddisc d') \/ In w (dstack d')).
  { intros w Hw. rewrite Es in Hw. apply in_app_or in Hw. rewrite Ed', Es'.
    destruct Hw as [Hw|[<-|Hw]].
    - left; right; apply Hpre; exact Hw.
    - left; left; reflexivity.
    - right; apply in_or_app; right; exact Hw. }
  constructor.
  - rewrite Ed', Ed. reflexivity.
  - constructor; assumption.
  - intros x [<-|Hx]; auto.
  - intros x [<-|Hx]; auto.
  - intros x Hx. rewrite Es' in Hx. apply in_app_or in Hx. destruct Hx as [Hx|Hx].
    + rewrite <- in_rev in Hx. apply filter_In in Hx. destruct Hx as [Hx Hv]. split.
      * apply (Hcap n x Hx).
      * intros HxD. eapply ri_step; [exact Hrn | exact Hx | exact HxD].
    + apply Hst. rewrite Es. apply in_or_app; right; right; exact Hx.
  - intros u w [<-|Hu] Hw.
    + unfold is_visited in Es'. destruct (mem w (n :: ddisc d)) eqn:Em.
      * left. rewrite Ed'. apply mem_In; exact Em.
      * right. rewrite Es'. apply in_or_app; left. rewrite <- in_rev. apply filter_In. split; [exact Hw|].
        rewrite Em; reflexivity.
    + destruct (Hcl u w Hu Hw) as [Hd|Hd]; [left; rewrite Ed'; right; exact Hd | apply Hold; exact Hd].
  - destruct Hs0 as [Hd|Hd]; [left; rewrite Ed'; right; exact Hd | apply Hold; exact Hd].
Qed.

Lemma dinv_none E d d' :
  DInv v D0 t E d -> dfs_next_rel v d None d' -> DInv v D0 t E d'.
Proof.
  intros I [Es' [Ed' Hall]]. destruct I as [Ed Hnd Hfr Hre Hst Hcl Hs0].
  constructor; auto.
  - rewrite Ed'; exact Ed.
  - rewrite Es'; intros x [].
  - intros u w Hu Hw. left. rewrite Ed'. destruct (Hcl u w Hu Hw); auto.
  - left. rewrite Ed'. destruct Hs0; auto.
Qed.

Lemma dmeas_some d n d' : dfs_next_rel v d (Some n) d' -> dmeas v d' < dmeas v d.
Proof.
  intros [pre [rest [Es [Hpre [Hn [Ed' Es']]]]]]. unfold dmeas. rewrite Es, Ed', Es'.
  rewrite !app_length, rev_length. cbn [length].
  pose proof (filter_length_le (fun s => negb (is_visited (n :: ddisc d) s)) (neighbors v n)) as Hf.
  apply mem_false in Hn.
  pose proof (usum_outdeg_mark v (ddisc d) n Hnodes Hn) as Hu. unfold outdeg in Hu at 2. lia.
Qed.

Lemma dmeas_none d d' : dfs_next_rel v d None d' -> dmeas v d' <= dmeas v d.
Proof. intros [Es' [Ed' _]]. unfold dmeas. rewrite Es', Ed'. cbn [length]. lia. Qed.

(* draining: never a panic, never out of fuel, and the invariant at exhaustion *)
Lemma dfs_drain_ok : forall fuel E d,
  DInv v D0 t E d -> dmeas v d < fuel -> dmeas v d < trav_fuel v ->
  exists l d', dfs_drain fuel v d = Ok (l, d') /\ DInv v D0 t (rev l ++ E) d' /\ dstack d' = [].
Proof.
  induction fuel as [|f IH]; intros E d I Hf Ht; [lia|].
  cbn [dfs_drain].
  destruct (@dfs_next_total v (trav_fuel v) d) as [o [d1 E1]].
  { unfold dmeas in Ht; lia. }
  { intros x Hx. apply (di_stack I x Hx). }
  rewrite E1. cbn [rbind]. pose proof (dfs_next_sound _ _ _ E1) as R.
  destruct o as [n|].
  - pose proof (dmeas_some R) as Hm.
    destruct (IH (n :: E) d1 (dinv_some I R)) as [l [d2 [E2 [I2 S2]]]]; [lia|lia|].
    rewrite E2. cbn [rmap]. exists (n :: l), d2. split; [reflexivity|]. split; [|exact S2].
    cbn [rev]. rewrite <- app_assoc. exact I2.
  - exists [], d1. split; [reflexivity|]. split.
    + cbn [rev app]. exact (dinv_none I R).
    + apply R.
Qed.

End DfsInv.

(* ------------------------------------------------------------------ *)
(* move_to followed by draining                                        *)

Theorem dfs_move_to_drain v d t fuel :
  cap_ok v -> nodes_ok v -> in_cap v t -> trav_fuel v <= fuel ->
  exists l d', dfs_drain fuel v (dfs_move_to d t) = Ok (l, d') /\ NoDup l /\
    (forall x, In x l <-> reach_in (fun y => ~ In y (ddisc d)) v t x) /\
    ddisc d' = rev l ++ ddisc d /\ dstack d' = [].
Proof.
  intros [Hcap _] Hnodes Ht Hfuel.
  assert (Hn1 : forall a b, step v a b -> In a (vnodes v)) by (intros a b H; apply (Hnodes a b H)).
  assert (I0 : DInv v (ddisc d) t [] (dfs_move_to d t)).
  { constructor; cbn [dfs_move_to ddisc dstack app].
    - reflexivity.
    - constructor.
    - intros x [].
    - intros x [].
    - intros x [<-|[]]. split; [exact Ht|]. intros Hx. apply ri_refl; exact Hx.
    - intros u w [].
    - right; left; reflexivity. }
  assert (M0 : dmeas v (dfs_move_to d t) < trav_fuel v).
  { unfold dmeas. cbn [dfs_move_to ddisc dstack length].
    pose proof (usum_nil_le (outdeg v) (ddisc d) (vnodes v)). rewrite usum_outdeg_all in H.
    pose proof (trav_fuel_big v). lia. }
  destruct (dfs_drain_ok Hcap Hn1 (fuel := fuel) I0) as [l [d' [E [I S]]]]; [lia|exact M0|].
  exists l, d'. rewrite app_nil_r in I. destruct I as [Ed Hnd Hfr Hre Hst Hcl Hs0].
  repeat split; auto.
  - rewrite <- (rev_involutive l). apply NoDup_rev; exact Hnd.
  - intros Hx. apply Hre. rewrite <- in_rev. exact Hx.
  - intros Hx. rewrite in_rev.
    assert (G : forall w, In w (ddisc d') -> ~ In w (ddisc d) -> In w (rev l)).
    { intros w Hw Hnw. rewrite Ed in Hw. apply in_app_or in Hw. destruct Hw; tauto. }
    induction Hx as [Hs | x y Hx IH Hxy Hy].
    + apply G; [|exact Hs]. rewrite S in Hs0. destruct Hs0 as [H|[]]; exact H.
    + apply G; [|exact Hy]. destruct (Hcl x y IH Hxy) as [H|H]; [exact H | rewrite S in H; destruct H].
Qed.

(* from a fresh Dfs: exactly the reachable nodes *)
Theorem dfs_reachable v s fuel :
  cap_ok v -> nodes_ok v -> in_cap v s -> trav_fuel v <= fuel ->
  exists l d', dfs_drain fuel v (dfs_move_to dfs_empty s) = Ok (l, d') /\ NoDup l /\
    (forall x, In x l <-> reachable v s x) /\ ddisc d' = rev l /\ dstack d' = [].
Proof.
  intros Hc Hn Hs Hf.
  destruct (@dfs_move_to_drain v dfs_empty s fuel Hc Hn Hs Hf) as [l [d' [E [Hnd [Hr [Hd Hst]]]]]].
  exists l, d'. cbn [dfs_empty ddisc] in *. rewrite app_nil_r in Hd. repeat split; auto.
  - intros Hx. apply Hr in Hx. eapply reach_in_reachable; exact Hx.
  - intros Hx. apply Hr. apply reachable_reach_in in Hx.
    eapply reach_in_weaken; [|exact Hx]. intros y _ [].
Qed.

(* after k calls of next from a fresh Dfs, the discovered set is the emitted list *)
Lemma dfs_steps_disc v : forall k d l d',
  dfs_steps k v d = Ok (l, d') -> ddisc d' = rev l ++ ddisc d.
Proof.
  induction k as [|k IH]; intros d l d' H; cbn [dfs_steps] in H.
  - injection H as <- <-. reflexivity.
  - destruct (dfs_next (trav_fuel v) v d) as [[o d1]| |] eqn:E1; cbn [rbind] in H; try discriminate.
    apply dfs_next_sound in E1. destruct o as [n|].
    + destruct (dfs_steps k v d1) as [[l2 d2]| |] eqn:E2; cbn [rmap] in H; try discriminate.
      injection H as <- <-. apply IH in E2. destruct E1 as [pre [rest [_ [_ [_ [Ed _]]]]]].
      rewrite E2, Ed. cbn [rev]. rewrite <- app_assoc. reflexivity.
    + injection H as <- <-. destruct E1 as [_ [Ed _]]. rewrite Ed. reflexivity.
Qed.
