(* C06 / T5, T7: concrete views -- the non-vacuity example, one inconsistent variant per clause,
   the three witnesses against UndirectedAdaptor and the witness that Reversed needs a full
   adjacency table. *)
From PG Require Import Lib.Io Model.FullView Spec.ViewSpec Proofs.FullViewP.

(* ---- T7: 5 live nodes 0 1 2 4 5 (slot 3 vacant, node_bound 6), directed; edges
        e0: 0->1, e1: 0->1 (a parallel pair), e2: 2->2 (a self-loop), e3: 1->4, e4: 5->0 ---- *)
Definition e0 : quad := (0, 0, 1, 10%Z).
Definition e1 : quad := (1, 0, 1, 11%Z).
Definition e2 : quad := (2, 2, 2, 12%Z).
Definition e3 : quad := (3, 1, 4, 13%Z).
Definition e4 : quad := (4, 5, 0, 14%Z).

Definition ex_gen (nodes : list nat) (nrefs : list (nat * Z))
    (out inn : list (nat * list quad)) (nb nbin : list (nat * list nat))
    (erefs : list quad) (adj : list (nat * list nat)) : fview :=
  mkFv true 6 (Some 6) (Some 5) (Some 6) (Some 5) false true true true
       nodes nrefs out inn nb nbin erefs adj.

Definition ex_nodes := [0; 1; 2; 4; 5].
Definition ex_nrefs : list (nat * Z) := [(0, 100%Z); (1, 101%Z); (2, 102%Z); (4, 104%Z); (5, 105%Z)].
Definition ex_out : list (nat * list quad) := [(0, [e1; e0]); (1, [e3]); (2, [e2]); (4, []); (5, [e4])].
Definition ex_in : list (nat * list quad) := [(0, [e4]); (1, [e1; e0]); (2, [e2]); (4, [e3]); (5, [])].
Definition ex_nb : list (nat * list nat) := [(0, [1; 1]); (1, [4]); (2, [2]); (4, []); (5, [0])].
Definition ex_nbin : list (nat * list nat) := [(0, [5]); (1, [0; 0]); (2, [2]); (4, [1]); (5, [])].
Definition ex_erefs := [e0; e1; e2; e3; e4].
Definition ex_adj : list (nat * list nat) := [(0, [1]); (1, [4]); (2, [2]); (4, []); (5, [0])].

Definition ex : fview := ex_gen ex_nodes ex_nrefs ex_out ex_in ex_nb ex_nbin ex_erefs ex_adj.

(* one broken variant per clause *)
Definition bad1 := ex_gen [0; 1; 2; 4; 6] ex_nrefs ex_out ex_in ex_nb ex_nbin ex_erefs ex_adj.
Definition bad2 := ex_gen ex_nodes [(1, 101%Z); (0, 100%Z); (2, 102%Z); (4, 104%Z); (5, 105%Z)]
                          ex_out ex_in ex_nb ex_nbin ex_erefs ex_adj.
Definition bad3 := ex_gen ex_nodes ex_nrefs ex_out ex_in ex_nb ex_nbin
                          [e0; e1; e2; e3; (4, 5, 3, 14%Z)] ex_adj.
Definition bad4 := ex_gen ex_nodes ex_nrefs [(0, [e1; e0]); (1, [e3]); (2, [e2]); (4, [])]
                          ex_in ex_nb ex_nbin ex_erefs ex_adj.
Definition bad5 := ex_gen ex_nodes ex_nrefs [(0, [e0]); (1, [e3]); (2, [e2]); (4, []); (5, [e4])]
                          ex_in [(0, [1]); (1, [4]); (2, [2]); (4, []); (5, [0])] ex_nbin ex_erefs ex_adj.
Definition bad6 := ex_gen ex_nodes ex_nrefs ex_out
                          [(0, [e4]); (1, [e0]); (2, [e2]); (4, [e3]); (5, [])]
                          ex_nb [(0, [5]); (1, [0]); (2, [2]); (4, [1]); (5, [])] ex_erefs ex_adj.
Definition bad7 := ex_gen ex_nodes ex_nrefs ex_out ex_in ex_nb ex_nbin ex_erefs
                          [(0, []); (1, [4]); (2, [2]); (4, []); (5, [0])].

(* ---- T5: the witnesses against UndirectedAdaptor ---- *)
Definition q01 : quad := (0, 0, 1, 5%Z).
Definition q00 : quad := (0, 0, 0, 5%Z).

(* directed, one edge 0 -> 1 *)
Definition uw_edge : fview :=
  mkFv true 2 (Some 2) (Some 1) (Some 1) (Some 2) true true true false
       [0; 1] [(0, 0%Z); (1, 0%Z)]
       [(0, [q01]); (1, [])] [(0, []); (1, [q01])]
       [(0, [1]); (1, [])] [(0, []); (1, [0])]
       [q01] [].

(* directed, one self-loop 0 -> 0 *)
Definition uw_loop : fview :=
  mkFv true 1 (Some 1) (Some 1) (Some 1) (Some 1) true true true false
       [0] [(0, 0%Z)]
       [(0, [q00])] [(0, [q00])]
       [(0, [0])] [(0, [0])]
       [q00] [].

(* undirected base, one edge 0 - 1 *)
Definition uw_undir : fview :=
  mkFv false 2 (Some 2) (Some 1) (Some 1) (Some 2) true true true false
       [0; 1] [(0, 0%Z); (1, 0%Z)]
       [(0, [q01]); (1, [q_flip q01])] [(0, [q_flip q01]); (1, [q01])]
       [(0, [1]); (1, [0])] [(0, [1]); (1, [0])]
       [q01] [].

Lemma consistent_by_check f : fv_ok f = true -> FConsistent f.
Proof. apply fv_ok_iff. Qed.

Lemma inconsistent_by_check f : fv_ok f = false -> ~ FConsistent f.
Proof. intros E H. apply fv_ok_iff in H. rewrite E in H. discriminate. Qed.

Lemma undirected_refuted :
  (FConsistent uw_edge /\ f_directed uw_edge = true /\ f_has_in uw_edge = true /\
   f_erefs uw_edge = [(0, 0, 1, 5%Z)] /\
   fv_ok (fv_undirected uw_edge) = false /\ fv_check (fv_undirected uw_edge) = 5 /\
   ~ FConsistent (fv_undirected uw_edge)) /\
  (FConsistent uw_loop /\ f_directed uw_loop = true /\ f_has_in uw_loop = true /\
   f_erefs uw_loop = [(0, 0, 0, 5%Z)] /\
   fv_ok (fv_undirected uw_loop) = false /\ fv_check (fv_undirected uw_loop) = 5 /\
   ~ FConsistent (fv_undirected uw_loop)) /\
  (FConsistent uw_undir /\ f_directed uw_undir = false /\ f_has_in uw_undir = true /\
   f_erefs uw_undir = [(0, 0, 1, 5%Z)] /\
   fv_ok (fv_undirected uw_undir) = false /\ fv_check (fv_undirected uw_undir) = 5 /\
   ~ FConsistent (fv_undirected uw_undir)).
Proof.
  split; [|split];
    (split; [apply consistent_by_check; vm_compute; reflexivity|];
     do 3 (split; [reflexivity|]);
     split; [vm_compute; reflexivity|]; split; [vm_compute; reflexivity|];
     apply inconsistent_by_check; vm_compute; reflexivity).
Qed.

(* ---- T2: Reversed builds its adjacency table from the key list of the base table ---- *)
Definition rv_cex : fview :=
  mkFv true 2 None None None None false true true true
       [0; 1] [(0, 0%Z); (1, 0%Z)]
       [(0, [q01]); (1, [])] [(0, []); (1, [q01])]
       [(0, [1]); (1, [])] [(0, []); (1, [0])]
       [q01] [(0, [1])].

Lemma reversed_needs_adj_rows :
  FConsistent rv_cex /\ f_has_in rv_cex = true /\ ~ AdjRows rv_cex /\
  f_adj (fv_reversed rv_cex) = [(0, [])] /\
  fv_check (fv_reversed rv_cex) = 7 /\ ~ FConsistent (fv_reversed rv_cex).
Proof.
  split; [apply consistent_by_check; vm_compute; reflexivity|].
  split; [reflexivity|]. split.
  - intro H.
    specialize (H eq_refl 1 0 (or_intror (or_introl eq_refl)) (or_introl eq_refl)
                  (or_introl eq_refl)).
    cbn in H. destruct H as [H|[]]. discriminate.
  - split; [reflexivity|]. split; [vm_compute; reflexivity|].
    apply inconsistent_by_check. vm_compute. reflexivity.
Qed.
