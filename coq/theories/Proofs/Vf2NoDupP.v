(* C13b, V3: the enumeration has no repetition: every mapping below a state extends the state's
   mapping, and the nodes tried for n0 are pairwise different. *)
From PG Require Import Lib.Io Lib.ListExtra Model.IsoM Model.Vf2M Spec.IsoSpec Proofs.IsoRefP
                       Proofs.Vf2BaseP Proofs.Vf2StateP Proofs.Vf2MachP Proofs.Vf2FeasP
                       Proofs.Vf2SoundP.

Section NoDupS.
Variables (sem subgraph : bool) (nm em : Z) (g0 g1 : sgraph6).
Hypothesis He0 : erange g0.
Hypothesis He1 : erange g1.

Notation outs := (outs sem subgraph nm em g0 g1).
Notation branch := (branch sem subgraph nm em g0 g1).

Lemma cand_iter_NoDup w st1 ol n1 : svalid g1 st1 -> n1 < s_n g1 -> s_n g1 - n1 <= w ->
  NoDup (cand_iter g1 w st1 ol n1).
Proof.
  intros Hv Hn Hw. rewrite cand_iter_eq by auto. constructor.
  - intros H. apply filter_In in H. destruct H as [H _]. apply in_seq in H. lia.
  - apply NoDup_filter. apply seq_NoDup.
Qed.

(* every mapping enumerated below st extends the mapping of st *)
Lemma outs_extends d : forall st m, pvalid g0 g1 st -> In m (outs d st) ->
  forall a b, nth a (vs_mapping (fst st)) None = Some b -> nth a m 0 = b.
Proof.
  induction d as [|d IH]; intros st m Hv H a b Hab; cbn [Vf2MachP.outs] in H; [contradiction|].
  destruct (next_candidate g0 g1 st) as [[[n0 n1] ol]|] eqn:En; [|contradiction].
  pose proof (next_candidate_spec _ _ _ _ _ _ Hv En) as (A1 & A2 & A3 & A4).
  apply in_flat_map in H. destruct H as [x [Hx H]].
  apply cand_iter_In in Hx; auto; try lia; [|apply Hv]. destruct Hx as [X1 X2].
  unfold Vf2MachP.branch in H. destruct (is_feasible sem nm em g0 g1 st n0 x); [|contradiction].
  assert (Hv' : pvalid g0 g1 (push_state g0 g1 st n0 x)) by (apply pvalid_push; auto).
  assert (Hab' : nth a (vs_mapping (fst (push_state g0 g1 st n0 x))) None = Some b).
  { unfold push_state. cbn [fst]. rewrite push_mapping_nth.
    - destruct (Nat.eqb_spec n0 a); [congruence|auto].
    - rewrite (sv_map_len _ _ (pv_0 _ _ _ Hv)). auto. }
  cbv zeta in H. apply in_app_iff in H. destruct H as [H|H].
  - destruct (is_complete (fst (push_state g0 g1 st n0 x))); [|contradiction].
    destruct H as [<-|[]]. apply mapping_out_nth. exact Hab'.
  - destruct (card_ok subgraph (push_state g0 g1 st n0 x)); [|contradiction].
    eapply IH; eauto.
Qed.

Lemma branch_at d st n0 x m : pvalid g0 g1 st ->
  n0 < s_n g0 -> nth n0 (vs_mapping (fst st)) None = None ->
  x < s_n g1 -> nth x (vs_mapping (snd st)) None = None ->
  In m (branch (outs d) st n0 x) -> nth n0 m 0 = x.
Proof.
  intros Hv A1 A2 X1 X2 H.
  unfold Vf2MachP.branch in H. destruct (is_feasible sem nm em g0 g1 st n0 x); [|contradiction].
  assert (Hv' : pvalid g0 g1 (push_state g0 g1 st n0 x)) by (apply pvalid_push; auto).
  assert (Hab' : nth n0 (vs_mapping (fst (push_state g0 g1 st n0 x))) None = Some x).
  { unfold push_state. cbn [fst]. rewrite push_mapping_nth.
    - rewrite Nat.eqb_refl. reflexivity.
    - rewrite (sv_map_len _ _ (pv_0 _ _ _ Hv)). auto. }
  cbv zeta in H. apply in_app_iff in H. destruct H as [H|H].
  - destruct (is_complete (fst (push_state g0 g1 st n0 x))); [|contradiction].
    destruct H as [<-|[]]. apply mapping_out_nth. exact Hab'.
  - destruct (card_ok subgraph (push_state g0 g1 st n0 x)); [|contradiction].
    eapply outs_extends; eauto.
Qed.

Lemma NoDup_flat_map_at (f : nat -> list (list nat)) (pos : nat) (l : list nat) :
  NoDup l -> (forall x, In x l -> NoDup (f x)) ->
  (forall x m, In x l -> In m (f x) -> nth pos m 0 = x) ->
  NoDup (flat_map f l).
Proof.
  induction l as [|x t IH]; intros Hnd Hf Hat; cbn [flat_map]; [constructor|].
  inversion Hnd as [|? ? Hx Ht]; subst.
  apply NoDup_app_intro.
  - apply Hf. left; auto.
  - apply IH; auto.
    + intros y Hy. apply Hf. right; auto.
    + intros y m Hy. apply Hat. right; auto.
  - intros m H1 H2. apply in_flat_map in H2. destruct H2 as [y [Hy H2]].
    apply (Hat x m (or_introl eq_refl)) in H1. apply (Hat y m (or_intror Hy)) in H2.
    apply Hx. congruence.
Qed.

Theorem outs_NoDup d : forall st, pvalid g0 g1 st -> NoDup (outs d st).
Proof.
  induction d as [|d IH]; intros st Hv; cbn [Vf2MachP.outs]; [constructor|].
  destruct (next_candidate g0 g1 st) as [[[n0 n1] ol]|] eqn:En; [|constructor].
  pose proof (next_candidate_spec _ _ _ _ _ _ Hv En) as (A1 & A2 & A3 & A4).
  apply (NoDup_flat_map_at _ n0).
  - apply cand_iter_NoDup; auto; [apply Hv|lia].
  - intros x Hx. apply cand_iter_In in Hx; auto; try lia; [|apply Hv]. destruct Hx as [X1 X2].
    unfold Vf2MachP.branch. destruct (is_feasible sem nm em g0 g1 st n0 x); [|constructor].
    assert (Hv' : pvalid g0 g1 (push_state g0 g1 st n0 x)) by (apply pvalid_push; auto).
    cbv zeta. destruct (is_complete (fst (push_state g0 g1 st n0 x))) eqn:Ec.
    + rewrite outs_complete_nil; auto.
      destruct (card_ok subgraph _); cbn [app]; constructor; auto; constructor.
    + cbn [app]. destruct (card_ok subgraph _); [apply IH; auto|constructor].
  - intros x m Hx Hm. apply cand_iter_In in Hx; auto; try lia; [|apply Hv]. destruct Hx as [X1 X2].
    eapply branch_at; eauto.
Qed.

End NoDupS.
