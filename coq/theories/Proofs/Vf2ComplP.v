(* C13b, V4: completeness of the enumeration: every embedding that extends the mapping of a state
   is enumerated below it.  The look-ahead (neighbour counts in is_feasible, the cardinality test
   on Tout / Tin) never cuts a branch that leads to an embedding, and the candidate lists cover
   every extension. *)
From PG Require Import Lib.Io Lib.ListExtra Model.IsoM Model.Vf2M Spec.IsoSpec Proofs.IsoRefP
                       Proofs.IsoEquivP
                       Proofs.Vf2BaseP Proofs.Vf2StateP Proofs.Vf2MachP Proofs.Vf2FeasP
                       Proofs.Vf2SoundP Proofs.Vf2NoDupP.

(* ------------------------------------------------------------------ *)
(* in a simple graph the neighbour lists have no repetition             *)

Lemma NoDup_map_filter_key {A B K} (k : A -> K) (h : A -> B) (p : A -> bool) (l : list A) :
  NoDup (map k l) ->
  (forall x y, In x l -> In y l -> p x = true -> p y = true -> h x = h y -> k x = k y) ->
  NoDup (map h (filter p l)).
Proof.
  intros Hk Hh. apply NoDup_map_inj_in.
  - intros x y Hx Hy E. apply filter_In in Hx, Hy. destruct Hx as [Hx Px], Hy as [Hy Py].
    apply (NoDup_map_In_inj k l Hk); auto.
  - apply NoDup_filter. eapply NoDup_map_inv; eauto.
Qed.

Lemma NoDup_map_filter_sub {A B} (h : A -> B) (q : A -> bool) (l : list A) :
  NoDup (map h l) -> NoDup (map h (filter q l)).
Proof.
  induction l as [|x t IH]; cbn [map filter]; auto.
  intros H. inversion H as [|? ? Hx Ht]; subst. destruct (q x); cbn [map]; auto.
  constructor; auto. intros Hi. apply Hx. apply in_map_iff in Hi. destruct Hi as [y [E Hy]].
  apply filter_In in Hy. rewrite <- E. apply in_map. tauto.
Qed.

Lemma out_chain_fst_NoDup dir es a : NoDup (map (ekey dir) es) -> NoDup (map fst (out_chain es a)).
Proof.
  intros H. unfold out_chain. rewrite map_rev. apply NoDup_rev. rewrite map_map.
  apply (NoDup_map_filter_key (ekey dir)); auto.
  intros [[s t] w] [[s' t'] w'] _ _ Px Py E. cbn [fst] in E.
  apply Nat.eqb_eq in Px, Py. subst. unfold ekey. reflexivity.
Qed.

Lemma in_chain_fst_NoDup dir es a : NoDup (map (ekey dir) es) -> NoDup (map fst (in_chain es a)).
Proof.
  intros H. unfold in_chain. rewrite map_rev. apply NoDup_rev. rewrite map_map.
  apply (NoDup_map_filter_key (ekey dir)); auto.
  intros [[s t] w] [[s' t'] w'] _ _ Px Py E. cbn [fst] in E.
  apply Nat.eqb_eq in Px, Py. subst. unfold ekey. reflexivity.
Qed.

Lemma neighbors_NoDup g a o : wf g -> NoDup (neighbors_directed g a o).
Proof.
  intros [_ Hk]. unfold neighbors_directed, edges_directed. destruct (s_dir g) eqn:Hd.
  - destruct o; [eapply out_chain_fst_NoDup|eapply in_chain_fst_NoDup]; eauto.
  - rewrite map_app. apply NoDup_app_intro.
    + eapply out_chain_fst_NoDup; eauto.
    + apply NoDup_map_filter_sub. eapply in_chain_fst_NoDup; eauto.
    + intros x H1 H2. apply in_map_iff in H1, H2.
      destruct H1 as [[x1 w1] [E1 H1]]. destruct H2 as [[x2 w2] [E2 H2]].
      cbn [fst] in E1, E2. subst x1 x2. apply out_chain_In in H1.
      apply filter_In in H2. destruct H2 as [H2 Hne]. cbn [fst] in Hne.
      apply in_chain_In in H2.
      assert (E : (a, x, w1) = (x, a, w2)).
      { apply (NoDup_map_In_inj (ekey false) (s_es g)); auto.
        unfold ekey, nkey. cbn [fst snd]. f_equal; lia. }
      inversion E; subst. rewrite Nat.eqb_refl in Hne. discriminate.
Qed.

(* ------------------------------------------------------------------ *)
(* counting through an injection                                        *)

Lemma filter_map_swap {A B} (f : A -> B) (p : B -> bool) (l : list A) :
  filter p (map f l) = map f (filter (fun x => p (f x)) l).
Proof. induction l as [|x t IH]; cbn [map filter]; auto. destruct (p (f x)); cbn [map]; congruence. Qed.

Lemma filter_all_length {A} (f : A -> bool) (l : list A) :
  (forall x, In x l -> f x = true) -> length (filter f l) = length l.
Proof.
  induction l as [|x t IH]; intros H; cbn [filter length]; auto.
  rewrite (H x (or_introl eq_refl)). cbn [length]. f_equal. apply IH. intros y Hy. apply H. right; auto.
Qed.

Lemma count_nz_seq l :
  count_nz l = length (filter (fun i => nonz (nth i l 0)) (seq 0 (length l))).
Proof.
  unfold count_nz. induction l as [|x t IH]; cbn [length seq filter nth]; auto.
  rewrite <- seq_shift, filter_map_swap. cbn [nth].
  destruct (nonz x); cbn [length]; rewrite map_length; rewrite IH; reflexivity.
Qed.

Lemma inj_count_le (f : nat -> nat) (P0 P1 : nat -> bool) n0 n1 :
  (forall a b, a < n0 -> b < n0 -> f a = f b -> a = b) ->
  (forall a, a < n0 -> P0 a = true -> f a < n1 /\ P1 (f a) = true) ->
  length (filter P0 (seq 0 n0)) <= length (filter P1 (seq 0 n1)).
Proof.
  intros Hinj Hp. rewrite <- (map_length f (filter P0 (seq 0 n0))).
  apply NoDup_incl_length.
  - apply NoDup_map_inj_in.
    + intros x y Hx Hy. apply filter_In in Hx, Hy. destruct Hx as [Hx _], Hy as [Hy _].
      apply in_seq in Hx, Hy. apply Hinj; lia.
    + apply NoDup_filter, seq_NoDup.
  - intros y Hy. apply in_map_iff in Hy. destruct Hy as [x [<- Hx]].
    apply filter_In in Hx. destruct Hx as [Hx Px]. apply in_seq in Hx.
    destruct (Hp x ltac:(lia) Px) as [H1 H2]. apply filter_In. split; auto. apply in_seq. lia.
Qed.

(* ------------------------------------------------------------------ *)
Section Compl.
Variables (sem subgraph : bool) (nm em : Z) (g0 g1 : sgraph6).
Hypothesis Hwf0 : wf g0.
Hypothesis Hwf1 : wf g1.
Hypothesis Hdir : s_dir g0 = s_dir g1.
Variable f : nat -> nat.
Hypothesis Hemb : embedding (nmE sem nm) (emE sem em) g0 g1 f.
(* the isomorphism variant is only complete between graphs of the same order *)
Hypothesis Hsz : subgraph = false -> s_n g0 = s_n g1.

Let He0 : erange g0 := wf_erange g0 Hwf0.
Let He1 : erange g1 := wf_erange g1 Hwf1.

Lemma f_rng a : a < s_n g0 -> f a < s_n g1.
Proof. destruct Hemb as [H _]. auto. Qed.
Lemma f_inj a b : a < s_n g0 -> b < s_n g0 -> f a = f b -> a = b.
Proof. destruct Hemb as [_ [H _]]. auto. Qed.
Lemma f_adj a b : a < s_n g0 -> b < s_n g0 ->
  (adjb g0 a b = true <-> adjb g1 (f a) (f b) = true).
Proof. destruct Hemb as [_ [_ H]]. intros Ha Hb. apply (preserves_Adj _ _ _ _ _ a b H Ha Hb). Qed.
Lemma Pe_sem : sem = true -> forall a b, a < s_n g0 -> b < s_n g0 ->
  edge_ok em (ew g0 a b) (ew g1 (f a) (f b)).
Proof.
  intros E. destruct Hemb as [_ [_ [H _]]]. unfold emE in H. rewrite E in H. exact H.
Qed.
Lemma Pn_sem : sem = true -> forall a, a < s_n g0 -> wmatch nm (nwt g0 a) (nwt g1 (f a)) = true.
Proof.
  intros E. destruct Hemb as [_ [_ [_ H]]]. unfold nmE in H. rewrite E in H. exact H.
Qed.

Lemma edge_match_ok a b : sem = true -> a < s_n g0 -> b < s_n g0 ->
  adjb g0 a b = true -> edge_match_eq em g0 g1 (a, b) (f a, f b) = true.
Proof.
  intros E Ha Hb Hadj. unfold edge_match_eq. cbn [fst snd].
  rewrite !find_edge_weight_edge_w by auto. fold (ew g0 a b). fold (ew g1 (f a) (f b)).
  pose proof (Pe_sem E a b Ha Hb) as H. apply adjb_ew in Hadj.
  destruct (ew g0 a b); [|congruence]. destruct (ew g1 (f a) (f b)); cbn [edge_ok] in H; tauto.
Qed.

(* the state's mapping is a restriction of f *)
Definition extends (st : st2) : Prop :=
  forall a b, nth a (vs_mapping (fst st)) None = Some b -> f a = b.

Lemma extends_new : extends (vs_new g0, vs_new g1).
Proof.
  intros a b H. unfold vs_new in H. cbn [fst vs_mapping] in H. rewrite nth_repeat_d in H. discriminate.
Qed.

Section State.
Variable st : st2.
Hypothesis Hv : pvalid g0 g1 st.
Hypothesis Hx : extends st.

Let Hv0 : svalid g0 (fst st) := pv_0 _ _ _ Hv.
Let Hv1 : svalid g1 (snd st) := pv_1 _ _ _ Hv.

Lemma map0_pre a b : nth a (vs_mapping (fst st)) None = Some b ->
  a < s_n g0 /\ f a = b /\ nth b (vs_mapping (snd st)) None = Some a.
Proof.
  intros H. assert (Ha : a < s_n g0).
  { rewrite <- (sv_map_len _ _ Hv0). eapply nth_Some_lt; eauto. }
  split; auto. split; [apply Hx; auto|]. apply (pv_inv _ _ _ Hv); auto. eapply pv_rng0; eauto.
Qed.

Lemma map1_pre a b : nth b (vs_mapping (snd st)) None = Some a ->
  a < s_n g0 /\ f a = b /\ nth a (vs_mapping (fst st)) None = Some b.
Proof.
  intros H. assert (Hb : b < s_n g1).
  { rewrite <- (sv_map_len _ _ Hv1). eapply nth_Some_lt; eauto. }
  assert (Ha : a < s_n g0) by (eapply pv_rng1; eauto).
  assert (H0 : nth a (vs_mapping (fst st)) None = Some b) by (apply (pv_inv _ _ _ Hv); auto).
  split; auto.
Qed.

Lemma img_unmapped a : a < s_n g0 -> nth a (vs_mapping (fst st)) None = None ->
  nth (f a) (vs_mapping (snd st)) None = None.
Proof.
  intros Ha Hu. destruct (nth (f a) (vs_mapping (snd st)) None) as [a'|] eqn:E; auto.
  apply map1_pre in E. destruct E as (E1 & E2 & E3).
  apply f_inj in E2; auto. subst a'. congruence.
Qed.

Lemma mapped0_lt a : mapped (fst st) a -> a < s_n g0.
Proof.
  intros H. unfold mapped in H. destruct (nth a (vs_mapping (fst st)) None) eqn:E; [|congruence].
  apply map0_pre in E. tauto.
Qed.

(* the marks transfer along f *)
Lemma out_transfer i : i < s_n g0 -> nth i (vs_out (fst st)) 0 <> 0 -> nth (f i) (vs_out (snd st)) 0 <> 0.
Proof.
  intros Hi H. apply (sv_out_front _ _ Hv0) in H. destruct H as [a [Ha Hadj]].
  apply (sv_out_front _ _ Hv1). pose proof (mapped0_lt a Ha) as Hlt.
  unfold mapped in Ha. destruct (nth a (vs_mapping (fst st)) None) as [b|] eqn:E; [|congruence].
  apply map0_pre in E. destruct E as (_ & E2 & E3). exists b. split.
  - unfold mapped. congruence.
  - subst b. apply f_adj; auto.
Qed.

Lemma ins_transfer i : s_dir g0 = true -> i < s_n g0 ->
  nth i (vs_ins (fst st)) 0 <> 0 -> nth (f i) (vs_ins (snd st)) 0 <> 0.
Proof.
  intros Hd Hi H. apply (sv_ins_front _ _ Hv0 Hd) in H. destruct H as [a [Ha Hadj]].
  apply (sv_ins_front _ _ Hv1); [congruence|]. pose proof (mapped0_lt a Ha) as Hlt.
  unfold mapped in Ha. destruct (nth a (vs_mapping (fst st)) None) as [b|] eqn:E; [|congruence].
  apply map0_pre in E. destruct E as (_ & E2 & E3). exists b. split.
  - unfold mapped. congruence.
  - subst b. apply f_adj; auto.
Qed.

(* with equal orders f is onto and the marks transfer back *)
Lemma f_surj j : s_n g0 = s_n g1 -> j < s_n g1 -> exists i, i < s_n g0 /\ f i = j.
Proof.
  intros E Hj. assert (H : In j (map f (seq 0 (s_n g0)))).
  { apply inj_surj.
    - intros a Ha. rewrite E. apply f_rng; auto.
    - apply f_inj.
    - lia. }
  apply in_map_iff in H. destruct H as [i [Hi1 Hi2]]. apply in_seq in Hi2. exists i. split; [lia|auto].
Qed.

Lemma out_back j : s_n g0 = s_n g1 -> j < s_n g1 -> nth j (vs_out (snd st)) 0 <> 0 ->
  exists i, i < s_n g0 /\ f i = j /\ nth i (vs_out (fst st)) 0 <> 0.
Proof.
  intros E Hj H. destruct (f_surj j E Hj) as [i [Hi Hfi]]. exists i. split; auto. split; auto.
  apply (sv_out_front _ _ Hv1) in H. destruct H as [b [Hb Hadj]].
  unfold mapped in Hb. destruct (nth b (vs_mapping (snd st)) None) as [a|] eqn:Eb; [|congruence].
  apply map1_pre in Eb. destruct Eb as (Ea & Efa & Ema).
  apply (sv_out_front _ _ Hv0). exists a. split; [unfold mapped; congruence|].
  apply f_adj; auto. congruence.
Qed.

Lemma ins_back j : s_dir g0 = true -> s_n g0 = s_n g1 -> j < s_n g1 ->
  nth j (vs_ins (snd st)) 0 <> 0 ->
  exists i, i < s_n g0 /\ f i = j /\ nth i (vs_ins (fst st)) 0 <> 0.
Proof.
  intros Hd E Hj H. destruct (f_surj j E Hj) as [i [Hi Hfi]]. exists i. split; auto. split; auto.
  apply (sv_ins_front _ _ Hv1) in H; [|congruence]. destruct H as [b [Hb Hadj]].
  unfold mapped in Hb. destruct (nth b (vs_mapping (snd st)) None) as [a|] eqn:Eb; [|congruence].
  apply map1_pre in Eb. destruct Eb as (Ea & Efa & Ema).
  apply (sv_ins_front _ _ Hv0 Hd). exists a. split; [unfold mapped; congruence|].
  apply f_adj; auto. congruence.
Qed.

(* ---- the cardinality test ---- *)
Lemma nonz_iff x : nonz x = true <-> x <> 0.
Proof. unfold nonz. rewrite negb_true_iff, Nat.eqb_neq. tauto. Qed.

Lemma out_size_le : vs_out_size (fst st) <= vs_out_size (snd st).
Proof.
  rewrite (sv_out_size _ _ Hv0), (sv_out_size _ _ Hv1), !count_nz_seq.
  rewrite (sv_out_len _ _ Hv0), (sv_out_len _ _ Hv1).
  apply (inj_count_le f); [apply f_inj|].
  intros a Ha Hp. split; [apply f_rng; auto|]. apply nonz_iff. apply out_transfer; auto.
  apply nonz_iff; auto.
Qed.

Lemma out_size_ge : s_n g0 = s_n g1 -> vs_out_size (snd st) <= vs_out_size (fst st).
Proof.
  intros E. rewrite (sv_out_size _ _ Hv0), (sv_out_size _ _ Hv1), !count_nz_seq.
  rewrite (sv_out_len _ _ Hv0), (sv_out_len _ _ Hv1).
  rewrite <- (map_length f (filter _ (seq 0 (s_n g0)))).
  apply NoDup_incl_length; [apply NoDup_filter, seq_NoDup|].
  intros j Hj. apply filter_In in Hj. destruct Hj as [Hj Hp]. apply in_seq in Hj.
  apply nonz_iff in Hp. destruct (out_back j E ltac:(lia) Hp) as (i & Hi & Hfi & Ho).
  apply in_map_iff. exists i. split; auto. apply filter_In. split; [apply in_seq; lia|].
  apply nonz_iff; auto.
Qed.

Lemma ins_size_le : vs_ins_size (fst st) <= vs_ins_size (snd st).
Proof.
  rewrite (sv_ins_size _ _ Hv0), (sv_ins_size _ _ Hv1), !count_nz_seq.
  rewrite (sv_ins_len _ _ Hv0), (sv_ins_len _ _ Hv1). rewrite <- Hdir.
  destruct (Bool.bool_dec (s_dir g0) true) as [Hd|Hd]; [|apply not_true_is_false in Hd]; rewrite Hd.
  - apply (inj_count_le f); [apply f_inj|].
    intros a Ha Hp. split; [apply f_rng; auto|]. apply nonz_iff. apply ins_transfer; auto.
    apply nonz_iff; auto.
  - cbn. lia.
Qed.

Lemma ins_size_ge : s_n g0 = s_n g1 -> vs_ins_size (snd st) <= vs_ins_size (fst st).
Proof.
  intros E. rewrite (sv_ins_size _ _ Hv0), (sv_ins_size _ _ Hv1), !count_nz_seq.
  rewrite (sv_ins_len _ _ Hv0), (sv_ins_len _ _ Hv1). rewrite <- Hdir.
  destruct (Bool.bool_dec (s_dir g0) true) as [Hd|Hd]; [|apply not_true_is_false in Hd]; rewrite Hd.
  - rewrite <- (map_length f (filter _ (seq 0 (s_n g0)))).
    apply NoDup_incl_length; [apply NoDup_filter, seq_NoDup|].
    intros j Hj. apply filter_In in Hj. destruct Hj as [Hj Hp]. apply in_seq in Hj.
    apply nonz_iff in Hp. destruct (ins_back j Hd E ltac:(lia) Hp) as (i & Hi & Hfi & Ho).
    apply in_map_iff. exists i. split; auto. apply filter_In. split; [apply in_seq; lia|].
    apply nonz_iff; auto.
  - cbn. lia.
Qed.

Lemma card_ok_ext : card_ok subgraph st = true.
Proof.
  unfold card_ok. pose proof out_size_le. pose proof ins_size_le.
  destruct (Bool.bool_dec subgraph true) as [Hs|Hs]; [|apply not_true_is_false in Hs]; rewrite Hs;
    cbn [negb andb orb].
  - apply andb_true_iff. split; apply Nat.leb_le; auto.
  - pose proof (out_size_ge (Hsz Hs)). pose proof (ins_size_ge (Hsz Hs)).
    rewrite orb_false_r. apply andb_true_iff. split; apply Nat.eqb_eq; lia.
Qed.

(* ---- the candidate lists ---- *)
Lemma in_open_transfer ol i : i < s_n g0 -> in_open g0 (fst st) ol i = true ->
  in_open g1 (snd st) ol (f i) = true.
Proof.
  intros Hi H. destruct ol; cbn [in_open] in *.
  - apply andb_true_iff in H. destruct H as [H1 H2]. apply andb_true_iff. split.
    + apply Nat.ltb_lt in H1. apply Nat.ltb_lt.
      assert (nth (f i) (vs_out (snd st)) 0 <> 0) by (apply out_transfer; auto; lia). lia.
    + apply unmapped_iff. apply img_unmapped; auto. apply unmapped_iff; auto.
  - apply andb_true_iff in H. destruct H as [Hd H]. apply andb_true_iff in H. destruct H as [H1 H2].
    apply andb_true_iff. split; [congruence|]. apply andb_true_iff. split.
    + apply Nat.ltb_lt in H1. apply Nat.ltb_lt.
      assert (nth (f i) (vs_ins (snd st)) 0 <> 0) by (apply ins_transfer; auto; lia). lia.
    + apply unmapped_iff. apply img_unmapped; auto. apply unmapped_iff; auto.
  - apply unmapped_iff. apply img_unmapped; auto. apply unmapped_iff; auto.
Qed.

Lemma raw_next_transfer ol n : raw_next g0 (fst st) ol 0 = Some n ->
  raw_next g1 (snd st) ol 0 <> None.
Proof.
  intros H E. apply raw_next_Some in H; auto. destruct H as (H1 & H2 & _). cbn [Nat.add] in *.
  pose proof (in_open_transfer ol n H1 H2) as H3.
  rewrite (raw_next_None g1 (snd st) ol 0 Hv1 E (f n)) in H3; [discriminate|].
  split; [lia|apply f_rng; auto].
Qed.

Lemma next_candidate_exists a : a < s_n g0 -> nth a (vs_mapping (fst st)) None = None ->
  exists n0 n1 ol, next_candidate g0 g1 st = Some (n0, n1, ol).
Proof.
  intros Ha Hu.
  assert (HA : raw_next g0 (fst st) OlOther 0 <> None).
  { intros E. pose proof (raw_next_None g0 (fst st) OlOther 0 Hv0 E a ltac:(lia)) as H.
    cbn [in_open] in H. apply unmapped_iff in Hu. congruence. }
  assert (HB : raw_next g1 (snd st) OlOther 0 <> None).
  { destruct (raw_next g0 (fst st) OlOther 0) as [n|] eqn:E; [|congruence].
    eapply raw_next_transfer; eauto. }
  cbn [raw_next] in HA, HB. unfold next_candidate.
  destruct (next_out_index (snd st) 0) as [a1|]; destruct (next_out_index (fst st) 0) as [a0|];
  destruct (next_in_index g1 (snd st) 0) as [b1|]; destruct (next_in_index g0 (fst st) 0) as [b0|];
  destruct (next_rest_index (snd st) 0) as [c1|]; try congruence;
  destruct (next_rest_index (fst st) 0) as [c0|]; try congruence;
  cbn [is_some is_none orb]; eauto.
Qed.

Lemma candidate_covers n0 n1 ol : next_candidate g0 g1 st = Some (n0, n1, ol) ->
  In (f n0) (cand_iter g1 (s_n g1) (snd st) ol n1).
Proof.
  intros H. apply next_candidate_Some in H. destruct H as [H0 H1].
  apply raw_next_Some in H0; auto. apply raw_next_Some in H1; auto.
  destruct H0 as (A1 & A2 & _). destruct H1 as (B1 & B2 & B3). cbn [Nat.add] in *.
  pose proof (in_open_transfer ol n0 A1 A2) as H3.
  rewrite cand_iter_eq by (auto; lia).
  assert (Hge : n1 <= f n0).
  { destruct (Nat.le_gt_cases n1 (f n0)); auto. rewrite B3 in H3 by lia. discriminate. }
  destruct (Nat.eq_dec n1 (f n0)) as [->|Hne]; [left; auto|right].
  apply filter_In. split; auto. apply in_seq. pose proof (f_rng n0 A1). lia.
Qed.

(* ---- feasibility of (n0, f n0) ---- *)
Section Feas.
Variable n0 : nat.
Hypothesis Hn0 : n0 < s_n g0.
Hypothesis Hu0 : nth n0 (vs_mapping (fst st)) None = None.

Lemma mn0 x m : m_neigh_succ (fst st) n0 (f n0) x = Some m -> x < s_n g0 /\ m = f x.
Proof.
  unfold m_neigh_succ. destruct (Nat.eqb_spec n0 x) as [<-|Hne]; cbn [negb].
  - intros H. inversion H. auto.
  - intros H. apply map0_pre in H. destruct H as (H1 & H2 & _). auto.
Qed.

Lemma mn1 y a : m_neigh_succ (snd st) (f n0) n0 y = Some a -> a < s_n g0 /\ f a = y.
Proof.
  unfold m_neigh_succ. destruct (Nat.eqb_spec (f n0) y) as [<-|Hne]; cbn [negb].
  - intros H. inversion H; subst. auto.
  - intros H. apply map1_pre in H. destruct H as (H1 & H2 & _). auto.
Qed.

Lemma isadj0' x y : x < s_n g0 -> y < s_n g0 -> is_adjacent g0 (vs_adj (fst st)) x y = adjb g0 x y.
Proof. intros. rewrite (sv_adj _ _ Hv0). apply is_adjacent_adjb; auto. Qed.
Lemma isadj1' x y : x < s_n g1 -> y < s_n g1 -> is_adjacent g1 (vs_adj (snd st)) x y = adjb g1 x y.
Proof. intros. rewrite (sv_adj _ _ Hv1). apply is_adjacent_adjb; auto. Qed.

Lemma nbr_len_le o :
  (forall x, In x (neighbors_directed g0 n0 o) -> In (f x) (neighbors_directed g1 (f n0) o)) ->
  length (neighbors_directed g0 n0 o) <= length (neighbors_directed g1 (f n0) o).
Proof.
  intros H. rewrite <- (map_length f (neighbors_directed g0 n0 o)).
  apply NoDup_incl_length.
  - apply NoDup_map_inj_in; [|apply neighbors_NoDup; auto].
    intros x y Hxx Hy. apply f_inj; eapply neighbors_range; eauto.
  - intros y Hy. apply in_map_iff in Hy. destruct Hy as [x [<- Hxx]]. auto.
Qed.

Lemma syn_succ_ext : syn_succ g0 g1 st n0 (f n0) = true.
Proof.
  pose proof (f_rng n0 Hn0) as Hn1.
  unfold syn_succ. apply andb_true_iff. split; [|apply andb_true_iff; split].
  - apply forallb_forall. intros x Hxx. apply neighbors_out_In in Hxx.
    unfold succ_chk. destruct (m_neigh_succ (fst st) n0 (f n0) x) as [m|] eqn:E; auto.
    apply mn0 in E. destruct E as [E1 ->]. rewrite isadj1' by (auto using f_rng).
    apply f_adj; auto.
  - apply forallb_forall. intros y Hy. apply neighbors_out_In in Hy.
    unfold succ_chk. destruct (m_neigh_succ (snd st) (f n0) n0 y) as [a|] eqn:E; auto.
    apply mn1 in E. destruct E as [E1 <-]. rewrite isadj0' by auto.
    apply f_adj; auto.
  - apply Nat.leb_le. apply nbr_len_le. intros x Hxx. apply neighbors_out_In in Hxx.
    apply neighbors_out_In. apply f_adj; auto. apply (adjb_range g0 n0 x He0 Hxx).
Qed.

Lemma syn_pred_ext : syn_pred g0 g1 st n0 (f n0) = true.
Proof.
  pose proof (f_rng n0 Hn0) as Hn1.
  unfold syn_pred.
  destruct (Bool.bool_dec (s_dir g0) true) as [Hd|Hd]; [|apply not_true_is_false in Hd]; rewrite Hd;
    [|reflexivity].
  assert (Hd1 : s_dir g1 = true) by congruence.
  apply andb_true_iff. split; [|apply andb_true_iff; split].
  - apply forallb_forall. intros x Hxx. apply neighbors_in_In in Hxx; auto.
    unfold pred_chk. destruct (nth x (vs_mapping (fst st)) None) as [m|] eqn:E; auto.
    apply map0_pre in E. destruct E as (E1 & <- & _). rewrite isadj1' by (auto using f_rng).
    apply f_adj; auto.
  - apply forallb_forall. intros y Hy. apply neighbors_in_In in Hy; auto.
    unfold pred_chk. destruct (nth y (vs_mapping (snd st)) None) as [a|] eqn:E; auto.
    apply map1_pre in E. destruct E as (E1 & <- & _). rewrite isadj0' by auto.
    apply f_adj; auto.
  - apply Nat.leb_le. apply nbr_len_le. intros x Hxx. apply neighbors_in_In in Hxx; auto.
    apply neighbors_in_In; auto. apply f_adj; auto. apply (adjb_range g0 x n0 He0 Hxx).
Qed.

Lemma sem_ok_ext : sem_ok sem nm em g0 g1 st n0 (f n0) = true.
Proof.
  pose proof (f_rng n0 Hn0) as Hn1.
  unfold sem_ok.
  destruct (Bool.bool_dec sem true) as [Hs|Hs]; [|apply not_true_is_false in Hs]; rewrite Hs;
    [|reflexivity].
  apply andb_true_iff. split; [|apply andb_true_iff; split].
  - unfold node_match_eq.
    destruct (nth_error (s_nw g0) n0) as [x|] eqn:E0.
    2:{ apply nth_error_None in E0. unfold s_n in Hn0. lia. }
    destruct (nth_error (s_nw g1) (f n0)) as [y|] eqn:E1.
    2:{ apply nth_error_None in E1. unfold s_n in Hn1. lia. }
    pose proof (Pn_sem Hs n0 Hn0) as H. unfold nwt in H.
    rewrite (nth_error_nth_default _ _ _ E0), (nth_error_nth_default _ _ _ E1) in H. exact H.
  - unfold edge_feas_b. apply andb_true_iff. split.
    + apply forallb_forall. intros x Hxx. apply neighbors_out_In in Hxx.
      unfold efo_chk. destruct (m_neigh_succ (fst st) n0 (f n0) x) as [m|] eqn:E; auto.
      apply mn0 in E. destruct E as [E1 ->]. apply edge_match_ok; auto.
    + destruct (Bool.bool_dec (s_dir g0) true) as [Hd|Hd]; [|apply not_true_is_false in Hd]; rewrite Hd;
        [|reflexivity].
      apply forallb_forall. intros x Hxx. apply neighbors_in_In in Hxx; auto.
      unfold efi_chk. destruct (nth x (vs_mapping (fst st)) None) as [m|] eqn:E; auto.
      apply map0_pre in E. destruct E as (E1 & <- & _). apply edge_match_ok; auto.
  - unfold edge_feas_b. apply andb_true_iff. split.
    + apply forallb_forall. intros y Hy. apply neighbors_out_In in Hy.
      unfold efo_chk. destruct (m_neigh_succ (snd st) (f n0) n0 y) as [a|] eqn:E; auto.
      apply mn1 in E. destruct E as [E1 <-]. apply edge_match_ok; auto. apply f_adj; auto.
    + rewrite <- Hdir.
      destruct (Bool.bool_dec (s_dir g0) true) as [Hd|Hd]; [|apply not_true_is_false in Hd]; rewrite Hd;
        [|reflexivity].
      apply forallb_forall. intros y Hy. apply neighbors_in_In in Hy; [|congruence].
      unfold efi_chk. destruct (nth y (vs_mapping (snd st)) None) as [a|] eqn:E; auto.
      apply map1_pre in E. destruct E as (E1 & <- & _). apply edge_match_ok; auto. apply f_adj; auto.
Qed.

Lemma feasible_ext : is_feasible sem nm em g0 g1 st n0 (f n0) = true.
Proof.
  rewrite is_feasible_eq, syn_succ_ext, syn_pred_ext, sem_ok_ext. reflexivity.
Qed.

Lemma extends_push : extends (push_state g0 g1 st n0 (f n0)).
Proof.
  intros a b. unfold push_state. cbn [fst]. rewrite push_mapping_nth.
  - destruct (Nat.eqb_spec n0 a) as [<-|Hne]; [intros H; inversion H; auto|apply Hx].
  - rewrite (sv_map_len _ _ Hv0). auto.
Qed.

End Feas.

(* a complete state that extends to f is f *)
Lemma complete_is_f : is_complete (fst st) = true -> mapping_out (fst st) = map f (seq 0 (s_n g0)).
Proof.
  intros Hc. apply (nth_ext_eq 0).
  - unfold mapping_out. rewrite !map_length, seq_length. apply (sv_map_len _ _ Hv0).
  - intros a Ha. unfold mapping_out in Ha. rewrite map_length, (sv_map_len _ _ Hv0) in Ha.
    rewrite nth_map_seq by auto.
    pose proof (complete_all_mapped g0 (fst st) Hv0 Hc a Ha) as H.
    destruct (nth a (vs_mapping (fst st)) None) as [b|] eqn:E; [|congruence].
    rewrite (mapping_out_nth _ _ _ E). symmetry. apply Hx. exact E.
Qed.

End State.

(* ------------------------------------------------------------------ *)
Theorem outs_complete d : forall st, pvalid g0 g1 st -> extends st ->
  is_complete (fst st) = false -> s_n g0 - vs_gen (fst st) <= d ->
  In (map f (seq 0 (s_n g0))) (outs sem subgraph nm em g0 g1 d st).
Proof.
  induction d as [|d IH]; intros st Hv Hx Hc Hd.
  - exfalso. unfold is_complete in Hc. apply Nat.eqb_neq in Hc.
    pose proof (sv_gen _ _ (pv_0 _ _ _ Hv)). pose proof (sv_map_len _ _ (pv_0 _ _ _ Hv)).
    pose proof (count_some_le (vs_mapping (fst st))). lia.
  - cbn [outs].
    assert (Hun : exists a, a < s_n g0 /\ nth a (vs_mapping (fst st)) None = None).
    { pose proof (sv_gen _ _ (pv_0 _ _ _ Hv)) as Hgen.
      pose proof (sv_map_len _ _ (pv_0 _ _ _ Hv)) as Hlen.
      destruct (find_index (fun (_ : nat) (o : option nat) => is_none o) (vs_mapping (fst st)) 0)
        as [a|] eqn:E.
      - apply (find_index_Some _ None) in E. destruct E as (E1 & E2 & _).
        exists a. rewrite Nat.sub_0_r in E2. split; [lia|].
        destruct (nth a (vs_mapping (fst st)) None); [discriminate|reflexivity].
      - exfalso. unfold is_complete in Hc. apply Nat.eqb_neq in Hc. apply Hc.
        rewrite Hgen. unfold count_some. apply filter_all_length.
        intros o Ho. apply In_nth with (d := None) in Ho. destruct Ho as [i [Hi <-]].
        pose proof (find_index_None _ None _ _ E i Hi) as H. cbn [Nat.add] in H.
        destruct (nth i (vs_mapping (fst st)) None); [reflexivity|discriminate]. }
    destruct Hun as [a [Ha Hu]].
    destruct (next_candidate_exists st Hv Hx a Ha Hu) as (n0 & n1 & ol & En). rewrite En.
    pose proof (next_candidate_spec _ _ _ _ _ _ Hv En) as (A1 & A2 & A3 & A4).
    apply in_flat_map. exists (f n0). split; [apply candidate_covers; auto|].
    unfold branch. rewrite feasible_ext by auto. cbv zeta.
    assert (Hv' : pvalid g0 g1 (push_state g0 g1 st n0 (f n0))).
    { apply pvalid_push; auto using f_rng, wf_erange. apply img_unmapped; auto. }
    assert (Hx' : extends (push_state g0 g1 st n0 (f n0))) by (apply extends_push; auto).
    apply in_app_iff.
    destruct (is_complete (fst (push_state g0 g1 st n0 (f n0)))) eqn:Ec.
    + left. left. apply complete_is_f; auto.
    + right. rewrite card_ok_ext by auto. apply IH; auto.
      change (vs_gen (fst (push_state g0 g1 st n0 (f n0)))) with (S (vs_gen (fst st))). lia.
Qed.

End Compl.
