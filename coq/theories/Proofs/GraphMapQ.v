(* C03, part 3 (T3): every query of GraphMap answers like the simple graph [abs g]. *)
From Coq Require Import Lia ZArith Permutation.
From PG Require Import Lib.Io Model.GraphMapM Spec.SimpleGraph Proofs.GraphMapL Proofs.GraphMapP
  Proofs.GraphMapR.
Local Open Scope Z_scope.

(* Flattening of a list of (source, target, weight) triples, the wire format of
   edges / edges_directed / all_edges. *)
Definition flat3 (ts : list (Z * Z * Z)) : list Z := flat_map (fun t => [src t; tgt t; snd t]) ts.

(* ------------------------------------------------------------------ *)
(* Generic helpers                                                     *)

Lemma NoDup_map_inj_on {A B} (f : A -> B) (l : list A) :
  NoDup l -> (forall x y, In x l -> In y l -> f x = f y -> x = y) -> NoDup (map f l).
Proof.
  induction l as [|h t IH]; intros HN Hinj; cbn [map]; [constructor|].
  inversion HN as [|x l Hnotin HN']; subst. constructor.
  - intros HI. apply in_map_iff in HI. destruct HI as [y [Hf Hy]].
    assert (y = h) by (apply Hinj; cbn [In]; auto). subst. contradiction.
  - apply IH; auto. intros x y Hx Hy. apply Hinj; cbn [In]; auto.
Qed.

Lemma alist_functional (es : list ((Z * Z) * Z)) k w1 w2 :
  NoDup (map fst es) -> In (k, w1) es -> In (k, w2) es -> w1 = w2.
Proof.
  intros HN H1 H2. apply (in_im_get zpair_eqb zpair_eqb_spec _ _ _ HN) in H1.
  apply (in_im_get zpair_eqb zpair_eqb_spec _ _ _ HN) in H2. congruence.
Qed.

Lemma in_keys_iff (es : list ((Z * Z) * Z)) k : In k (map fst es) <-> exists w, In (k, w) es.
Proof.
  rewrite in_map_iff. split.
  - intros [[k0 w] [Hf HI]]. cbn [fst] in Hf. subst. eauto.
  - intros [w HI]. exists (k, w); auto.
Qed.

(* ------------------------------------------------------------------ *)
(* The specification's s_out / s_in, characterised by membership       *)

Definition canon (d : bool) (es : list ((Z * Z) * Z)) : Prop :=
  forall p q, In (p, q) (map fst es) -> edge_key d p q = (p, q).

Lemma canon_tail d e es : canon d (e :: es) -> canon d es.
Proof. intros H p q HI. apply H. cbn [map In]. auto. Qed.

Lemma in_s_out d sn0 es a x y w : canon d es ->
  (In (x, y, w) (s_out d (mkSg sn0 es) a) <-> x = a /\ In (edge_key d a y, w) es).
Proof.
  intros Hc. unfold s_out. cbn [se]. rewrite in_flat_map. split.
  - intros [[[p q] w0] [He Hin]].
    assert (Hpq : edge_key d p q = (p, q)).
    { apply Hc. apply (in_map fst) in He. exact He. }
    destruct (p =? a) eqn:Ep; zb.
    + destruct Hin as [Heq|[]]. pairs. destruct Heq as [[H1 H2] H3]. subst.
      split; auto. rewrite Hpq. exact He.
    + destruct d; cbn [negb andb] in Hin; [destruct Hin|].
      destruct (q =? a) eqn:Eq; zb; [|destruct Hin].
      destruct Hin as [Heq|[]]. pairs. destruct Heq as [[H1 H2] H3]. subst.
      split; auto. rewrite edge_key_false_sym, Hpq. exact He.
  - intros [-> He]. destruct d.
    + exists ((a, y), w). split; auto. rewrite Z.eqb_refl. left; reflexivity.
    + destruct (edge_key_false_cases a y) as [[Hk Hle]|[Hk Hlt]]; rewrite Hk in He.
      * exists ((a, y), w). split; auto. rewrite Z.eqb_refl. left; reflexivity.
      * exists ((y, a), w). split; auto. rewrite (proj2 (Z.eqb_neq y a)) by lia.
        rewrite Z.eqb_refl. left; reflexivity.
Qed.

Lemma in_s_in d sn0 es a x y w : canon d es ->
  (In (x, y, w) (s_in d (mkSg sn0 es) a) <-> y = a /\ In (edge_key d x a, w) es).
Proof.
  intros Hc. unfold s_in. cbn [se]. rewrite in_flat_map. split.
  - intros [[[p q] w0] [He Hin]].
    assert (Hpq : edge_key d p q = (p, q)).
    { apply Hc. apply (in_map fst) in He. exact He. }
    destruct (q =? a) eqn:Eq; zb.
    + destruct Hin as [Heq|[]]. pairs. destruct Heq as [[H1 H2] H3]. subst.
      split; auto. rewrite Hpq. exact He.
    + destruct d; cbn [negb andb] in Hin; [destruct Hin|].
      destruct (p =? a) eqn:Ep; zb; [|destruct Hin].
      destruct Hin as [Heq|[]]. pairs. destruct Heq as [[H1 H2] H3]. subst.
      split; auto. rewrite edge_key_false_sym, Hpq. exact He.
  - intros [-> He]. destruct d.
    + exists ((x, a), w). split; auto. rewrite Z.eqb_refl. left; reflexivity.
    + destruct (edge_key_false_cases x a) as [[Hk Hle]|[Hk Hlt]]; rewrite Hk in He.
      * exists ((x, a), w). split; auto. rewrite Z.eqb_refl. left; reflexivity.
      * exists ((a, x), w). split; auto. rewrite (proj2 (Z.eqb_neq x a)) by lia.
        rewrite Z.eqb_refl. left; reflexivity.
Qed.

Lemma s_out_cons d sn0 e es a :
  s_out d (mkSg sn0 (e :: es)) a = s_out d (mkSg sn0 [e]) a ++ s_out d (mkSg sn0 es) a.
Proof. unfold s_out. cbn [se flat_map]. rewrite app_nil_r. reflexivity. Qed.

Lemma s_in_cons d sn0 e es a :
  s_in d (mkSg sn0 (e :: es)) a = s_in d (mkSg sn0 [e]) a ++ s_in d (mkSg sn0 es) a.
Proof. unfold s_in. cbn [se flat_map]. rewrite app_nil_r. reflexivity. Qed.

(* Each target (resp. source) occurs once: at most one edge per pair. *)
Lemma s_out_tgt_NoDup d sn0 es a : canon d es -> NoDup (map fst es) ->
  NoDup (map tgt (s_out d (mkSg sn0 es) a)).
Proof.
  induction es as [|e es IH]; intros Hc HN; [constructor|].
  inversion HN as [|k l Hnotin HN']; subst.
  pose proof (IH (canon_tail d e es Hc) HN') as IHn.
  rewrite s_out_cons, map_app.
  destruct (s_out d (mkSg sn0 [e]) a) as [|t [|t' rest]] eqn:Eo.
  - exact IHn.
  - cbn [map app]. constructor; auto. intros HI. apply in_map_iff in HI.
    destruct HI as [[[x y] w] [Ht HI]]. unfold tgt in Ht. cbn [fst snd] in Ht.
    apply (in_s_out d sn0 es a x y w (canon_tail d e es Hc)) in HI. destruct HI as [-> HI].
    assert (Ht0 : In t (s_out d (mkSg sn0 [e]) a)) by (rewrite Eo; left; reflexivity).
    destruct t as [[x0 y0] w0]. cbn [fst snd] in Ht. subst y0.
    assert (Hc1 : canon d [e]).
    { intros p q HI1. apply Hc. cbn [map In] in *. tauto. }
    apply (in_s_out d sn0 [e] a x0 y w0 Hc1) in Ht0. destruct Ht0 as [-> [He|[]]].
    apply Hnotin. rewrite He. cbn [fst]. apply (in_map fst) in HI. exact HI.
  - exfalso. unfold s_out in Eo. cbn [se flat_map] in Eo. rewrite app_nil_r in Eo.
    destruct e as [[p q] w]. destruct (p =? a); [discriminate|].
    destruct (negb d && (q =? a)); discriminate.
Qed.

Lemma s_in_src_NoDup d sn0 es a : canon d es -> NoDup (map fst es) ->
  NoDup (map src (s_in d (mkSg sn0 es) a)).
Proof.
  induction es as [|e es IH]; intros Hc HN; [constructor|].
  inversion HN as [|k l Hnotin HN']; subst.
  pose proof (IH (canon_tail d e es Hc) HN') as IHn.
  rewrite s_in_cons, map_app.
  destruct (s_in d (mkSg sn0 [e]) a) as [|t [|t' rest]] eqn:Eo.
  - exact IHn.
  - cbn [map app]. constructor; auto. intros HI. apply in_map_iff in HI.
    destruct HI as [[[x y] w] [Ht HI]]. unfold src in Ht. cbn [fst snd] in Ht.
    apply (in_s_in d sn0 es a x y w (canon_tail d e es Hc)) in HI. destruct HI as [-> HI].
    assert (Ht0 : In t (s_in d (mkSg sn0 [e]) a)) by (rewrite Eo; left; reflexivity).
    destruct t as [[x0 y0] w0]. cbn [fst snd] in Ht. subst x0.
    assert (Hc1 : canon d [e]).
    { intros p q HI1. apply Hc. cbn [map In] in *. tauto. }
    apply (in_s_in d sn0 [e] a x y0 w0 Hc1) in Ht0. destruct Ht0 as [-> [He|[]]].
    apply Hnotin. rewrite He. cbn [fst]. apply (in_map fst) in HI. exact HI.
  - exfalso. unfold s_in in Eo. cbn [se flat_map] in Eo. rewrite app_nil_r in Eo.
    destruct e as [[p q] w]. destruct (q =? a); [discriminate|].
    destruct (negb d && (p =? a)); discriminate.
Qed.

Lemma GInv_canon d g : GInv d g -> canon d (gedges g).
Proof. intros HI p q. apply (gi_canonical d g HI). Qed.

(* ------------------------------------------------------------------ *)
(* Point queries                                                       *)

Theorem contains_node_abs g n : contains_node g n = s_has_node (abs g) n.
Proof.
  pose proof (contains_node_iff g n) as H1. pose proof (s_has_node_iff (abs g) n) as H2.
  cbn [abs sn] in H2. destruct (contains_node g n), (s_has_node (abs g) n); auto; intuition congruence.
Qed.

Theorem edge_weight_abs d g a b : edge_weight d g a b = s_weight d (abs g) a b.
Proof. unfold edge_weight, s_weight. rewrite s_key_edge_key, s_find_im_get. reflexivity. Qed.

Theorem contains_edge_abs d g a b : contains_edge d g a b = s_has_edge d (abs g) a b.
Proof. unfold contains_edge, s_has_edge. rewrite edge_weight_abs. reflexivity. Qed.

Theorem edge_weight_iff d g a b w : GInv d g ->
  (edge_weight d g a b = Some w <-> In (s_key d a b, w) (se (abs g))).
Proof.
  intros HI. unfold edge_weight. rewrite s_key_edge_key. cbn [abs se].
  apply (im_get_iff zpair_eqb zpair_eqb_spec). apply (gi_edges_nodup d g HI).
Qed.

Lemma edge_weight_some_iff d g a b : GInv d g ->
  (edge_weight d g a b <> None <-> In (edge_key d a b) (ekeys g)).
Proof.
  intros _. unfold edge_weight, ekeys.
  pose proof (im_get_none zpair_eqb zpair_eqb_spec (gedges g) (edge_key d a b)) as Hn.
  destruct (im_get zpair_eqb (gedges g) (edge_key d a b)) as [w|] eqn:Ew.
  - split; [|congruence]. intros _. eapply im_get_some_key; eauto using zpair_eqb_spec.
  - split; [congruence|]. intros HIn. destruct Hn as [Hn _]. exfalso. apply Hn; auto.
Qed.

(* ------------------------------------------------------------------ *)
(* neighbors / neighbors_directed                                      *)

Lemma GInv_adj d g a : GInv d g -> adj_ok d (fun k => In k (ekeys g)) a (adj_of g a).
Proof. intros HI. apply GInv_GI in HI. destruct HI as [_ [_ [_ Hadj]]]. apply Hadj. Qed.

Lemma neighbors_spec d g a : GInv d g ->
  NoDup (neighbors d g a) /\ forall b, In b (neighbors d g a) <-> In (edge_key d a b) (ekeys g).
Proof.
  intros HI. pose proof (GInv_adj d g a HI) as [HU H]. unfold neighbors. destruct d; cbn [uniq] in HU.
  - destruct H as [Ho Hi]. split.
    + apply NoDup_map_inj_on; [apply NoDup_filter; exact HU|].
      intros [x1 d1] [x2 d2] H1 H2 Hf. apply filter_In in H1. apply filter_In in H2.
      cbn [fst snd] in *. destruct H1 as [_ ->]. destruct H2 as [_ ->]. congruence.
    + intros b. change (edge_key true a b) with (a, b). cbn beta in Ho. rewrite <- Ho, in_map_iff. split.
      * intros [[x dx] [Hf Hx]]. apply filter_In in Hx. cbn [fst snd] in *. destruct Hx as [Hx ->].
        subst. exact Hx.
      * intros Hb. exists (b, true). split; auto. apply filter_In. auto.
  - destruct H as [Ho _]. split; [exact HU | exact Ho].
Qed.

Lemma neighbors_directed_spec d g a out : GInv d g ->
  NoDup (neighbors_directed d g a out) /\
  forall b, In b (neighbors_directed d g a out) <->
            In (if out then edge_key d a b else edge_key d b a) (ekeys g).
Proof.
  intros HI. pose proof (GInv_adj d g a HI) as [HU H]. unfold neighbors_directed.
  destruct d; cbn [uniq] in HU.
  - destruct H as [Ho Hi]. change (edge_key true) with (fun x y : Z => (x, y)). cbn beta.
    assert (Hnoaf : ~ In (a, false) (adj_of g a)).
    { intros HIn. apply Hi in HIn. tauto. }
    split.
    + apply NoDup_map_inj_on; [apply NoDup_filter; exact HU|].
      intros [x1 d1] [x2 d2] H1 H2 Hf. apply filter_In in H1. apply filter_In in H2.
      cbn [fst snd] in *. subst x2. destruct H1 as [H1 Ht1]. destruct H2 as [H2 Ht2].
      apply orb_true_iff in Ht1. apply orb_true_iff in Ht2. rewrite !eqb_true_iff, !Z.eqb_eq in *.
      destruct (Z.eq_dec x1 a) as [->|Hne].
      * destruct d1, d2; auto; contradiction.
      * destruct Ht1 as [->|Ht1]; [|contradiction]. destruct Ht2 as [->|Ht2]; [|contradiction]. reflexivity.
    + intros b. rewrite in_map_iff. split.
      * intros [[x dx] [Hf Hx]]. apply filter_In in Hx. cbn [fst snd] in *. subst x.
        destruct Hx as [Hx Ht]. apply orb_true_iff in Ht. rewrite eqb_true_iff, Z.eqb_eq in Ht.
        destruct out.
        -- destruct Ht as [->| ->]; [apply Ho; exact Hx|]. destruct dx; [apply Ho; exact Hx | contradiction].
        -- destruct Ht as [->| ->]; [apply Hi in Hx; tauto|]. destruct dx; [apply Ho; exact Hx | contradiction].
      * intros HE. destruct out.
        -- exists (b, true). split; auto. apply filter_In. split; [apply Ho; exact HE|]. reflexivity.
        -- destruct (Z.eq_dec a b) as [->|Hne].
           ++ exists (b, true). split; auto. apply filter_In. split; [apply Ho; exact HE|].
              cbn [fst snd]. rewrite Z.eqb_refl. apply orb_true_r.
           ++ exists (b, false). split; auto. apply filter_In. split; [apply Hi; auto|]. reflexivity.
  - destruct H as [Ho _]. split; [exact HU|]. intros b. rewrite Ho.
    destruct out; [reflexivity | rewrite edge_key_false_sym; reflexivity].
Qed.

Theorem neighbors_directed_undirected g a out :
  neighbors_directed false g a out = neighbors false g a.
Proof. reflexivity. Qed.

Lemma in_map_tgt_out d g a b : GInv d g ->
  (In b (map tgt (s_out d (abs g) a)) <-> In (edge_key d a b) (ekeys g)).
Proof.
  intros HI. rewrite in_map_iff. unfold ekeys. rewrite in_keys_iff. split.
  - intros [[[x y] w] [Ht Hin]]. unfold tgt in Ht. cbn [fst snd] in Ht. subst y.
    apply (in_s_out d (nkeys g) (gedges g) a x b w (GInv_canon d g HI)) in Hin. exists w. tauto.
  - intros [w Hin]. exists (a, b, w). split; auto.
    apply (in_s_out d (nkeys g) (gedges g) a a b w (GInv_canon d g HI)). auto.
Qed.

Lemma in_map_src_in d g a b : GInv d g ->
  (In b (map src (s_in d (abs g) a)) <-> In (edge_key d b a) (ekeys g)).
Proof.
  intros HI. rewrite in_map_iff. unfold ekeys. rewrite in_keys_iff. split.
  - intros [[[x y] w] [Ht Hin]]. unfold src in Ht. cbn [fst snd] in Ht. subst x.
    apply (in_s_in d (nkeys g) (gedges g) a b y w (GInv_canon d g HI)) in Hin. exists w. tauto.
  - intros [w Hin]. exists (b, a, w). split; auto.
    apply (in_s_in d (nkeys g) (gedges g) a b a w (GInv_canon d g HI)). auto.
Qed.

Theorem neighbors_correct d g a : GInv d g ->
  Permutation (neighbors d g a) (map tgt (s_out d (abs g) a)).
Proof.
  intros HI. destruct (neighbors_spec d g a HI) as [HN Hin].
  apply NoDup_Permutation; auto.
  - apply (s_out_tgt_NoDup d (nkeys g) (gedges g) a (GInv_canon d g HI) (gi_edges_nodup d g HI)).
  - intros b. rewrite Hin, in_map_tgt_out by exact HI. reflexivity.
Qed.

Theorem neighbors_directed_out_correct d g a : GInv d g ->
  Permutation (neighbors_directed d g a true) (map tgt (s_out d (abs g) a)).
Proof.
  intros HI. destruct (neighbors_directed_spec d g a true HI) as [HN Hin].
  apply NoDup_Permutation; auto.
  - apply (s_out_tgt_NoDup d (nkeys g) (gedges g) a (GInv_canon d g HI) (gi_edges_nodup d g HI)).
  - intros b. rewrite Hin, in_map_tgt_out by exact HI. reflexivity.
Qed.

Theorem neighbors_directed_in_correct d g a : GInv d g ->
  Permutation (neighbors_directed d g a false) (map src (s_in d (abs g) a)).
Proof.
  intros HI. destruct (neighbors_directed_spec d g a false HI) as [HN Hin].
  apply NoDup_Permutation; auto.
  - apply (s_in_src_NoDup d (nkeys g) (gedges g) a (GInv_canon d g HI) (gi_edges_nodup d g HI)).
  - intros b. rewrite Hin, in_map_src_in by exact HI. reflexivity.
Qed.

(* ------------------------------------------------------------------ *)
(* edges / edges_directed: the unreachable!() arm is unreachable       *)

Definition trip (d : bool) (g : gm) (swap : bool) (from b : Z) : Z * Z * Z :=
  let x := if swap then b else from in
  let y := if swap then from else b in
  (x, y, match edge_weight d g x y with Some w => w | None => 0 end).

Lemma flat3_cons t ts : flat3 (t :: ts) = src t :: tgt t :: snd t :: flat3 ts.
Proof. reflexivity. Qed.

Lemma edge_triples_ok d g (swap : bool) (from : Z) (bs : list Z) :
  (forall b : Z, In b bs ->
     edge_weight d g (if swap then b else from) (if swap then from else b) <> None) ->
  edge_triples d g swap from bs = Ok (flat3 (map (trip d g swap from) bs)).
Proof.
  induction bs as [|b rest IH]; intros Hall; [reflexivity|].
  assert (Hb := Hall b (or_introl eq_refl)).
  assert (IH' := IH (fun (b' : Z) (Hb' : In b' rest) => Hall b' (or_intror Hb'))).
  cbn [map]. rewrite flat3_cons. set (T := flat3 (map (trip d g swap from) rest)) in *.
  unfold trip, src, tgt. cbn [fst snd].
  destruct swap; cbn [edge_triples]; rewrite IH'.
  - destruct (edge_weight d g b from); [reflexivity | contradiction].
  - destruct (edge_weight d g from b); [reflexivity | contradiction].
Qed.

Lemma triples_perm d g (swap : bool) (a : Z) (bs : list Z) (ts : list (Z * Z * Z)) :
  GInv d g -> NoDup bs -> NoDup ts ->
  (forall b, In b bs <-> In (if swap then edge_key d b a else edge_key d a b) (ekeys g)) ->
  (forall x y w, In (x, y, w) ts <->
     (if swap then y = a /\ In (edge_key d x a, w) (gedges g)
              else x = a /\ In (edge_key d a y, w) (gedges g))) ->
  exists l, edge_triples d g swap a bs = Ok (flat3 l) /\ Permutation l ts.
Proof.
  intros HI HNb HNt Hbs Hts. exists (map (trip d g swap a) bs). split.
  - apply edge_triples_ok. intros b Hb. apply Hbs in Hb.
    destruct swap; apply edge_weight_some_iff; auto.
  - apply NoDup_Permutation; auto.
    + apply NoDup_map_inj_on; auto. intros b1 b2 _ _ Heq. unfold trip in Heq.
      destruct swap; pairs; tauto.
    + intros [[x y] w]. rewrite Hts, in_map_iff. unfold trip. split.
      * intros [b [Heq Hb]]. apply Hbs in Hb. pairs. destruct Heq as [[H1 H2] H3].
        destruct swap; subst; (split; [reflexivity|]);
          apply (im_get_in zpair_eqb zpair_eqb_spec); unfold edge_weight, ekeys in *;
          apply (im_get_key_some zpair_eqb zpair_eqb_spec) in Hb; destruct Hb as [w0 Hw0];
          rewrite Hw0; reflexivity.
      * pose proof (gi_edges_nodup d g HI) as HNe. destruct swap.
        -- intros [-> Hin]. exists x. split.
           ++ unfold edge_weight. rewrite (in_im_get zpair_eqb zpair_eqb_spec _ _ _ HNe Hin). reflexivity.
           ++ apply Hbs. apply (in_map fst) in Hin. exact Hin.
        -- intros [-> Hin]. exists y. split.
           ++ unfold edge_weight. rewrite (in_im_get zpair_eqb zpair_eqb_spec _ _ _ HNe Hin). reflexivity.
           ++ apply Hbs. apply (in_map fst) in Hin. exact Hin.
Qed.

Lemma s_out_NoDup d g a : GInv d g -> NoDup (s_out d (abs g) a).
Proof.
  intros HI. apply (NoDup_map_inv tgt).
  apply (s_out_tgt_NoDup d (nkeys g) (gedges g) a (GInv_canon d g HI) (gi_edges_nodup d g HI)).
Qed.

Lemma s_in_NoDup d g a : GInv d g -> NoDup (s_in d (abs g) a).
Proof.
  intros HI. apply (NoDup_map_inv src).
  apply (s_in_src_NoDup d (nkeys g) (gedges g) a (GInv_canon d g HI) (gi_edges_nodup d g HI)).
Qed.

Theorem edges_of_correct d g a : GInv d g ->
  exists l, edges_of d g a = Ok (flat3 l) /\ Permutation l (s_out d (abs g) a).
Proof.
  intros HI. destruct (neighbors_spec d g a HI) as [HN Hin]. unfold edges_of.
  apply (triples_perm d g false a _ _ HI HN (s_out_NoDup d g a HI) Hin).
  intros x y w. apply (in_s_out d (nkeys g) (gedges g) a x y w (GInv_canon d g HI)).
Qed.

Theorem edges_directed_out_correct d g a : GInv d g ->
  exists l, edges_directed d g a true = Ok (flat3 l) /\ Permutation l (s_out d (abs g) a).
Proof.
  intros HI. destruct (neighbors_directed_spec d g a true HI) as [HN Hin]. unfold edges_directed.
  apply (triples_perm d g false a _ _ HI HN (s_out_NoDup d g a HI) Hin).
  intros x y w. apply (in_s_out d (nkeys g) (gedges g) a x y w (GInv_canon d g HI)).
Qed.

(* Incoming: the queried node is the TARGET of every reported triple. *)
Theorem edges_directed_in_correct d g a : GInv d g ->
  exists l, edges_directed d g a false = Ok (flat3 l) /\ Permutation l (s_in d (abs g) a).
Proof.
  intros HI. destruct (neighbors_directed_spec d g a false HI) as [HN Hin]. unfold edges_directed.
  apply (triples_perm d g true a _ _ HI HN (s_in_NoDup d g a HI) Hin).
  intros x y w. apply (in_s_in d (nkeys g) (gedges g) a x y w (GInv_canon d g HI)).
Qed.

Theorem s_in_target d g a t : GInv d g -> In t (s_in d (abs g) a) -> tgt t = a.
Proof.
  intros HI Hin. destruct t as [[x y] w].
  apply (in_s_in d (nkeys g) (gedges g) a x y w (GInv_canon d g HI)) in Hin. unfold tgt. cbn. tauto.
Qed.

Theorem s_out_source d g a t : GInv d g -> In t (s_out d (abs g) a) -> src t = a.
Proof.
  intros HI Hin. destruct t as [[x y] w].
  apply (in_s_out d (nkeys g) (gedges g) a x y w (GInv_canon d g HI)) in Hin. unfold src. cbn. tauto.
Qed.

(* ------------------------------------------------------------------ *)
(* all_edges, nodes, counts                                            *)

Theorem all_edges_correct g : all_edges g = flat3 (se (abs g)).
Proof.
  unfold all_edges, flat3. cbn [abs se]. induction (gedges g) as [|[[a b] w] t IH]; cbn [flat_map]; auto.
  rewrite IH. reflexivity.
Qed.

Theorem all_edges_once d g : GInv d g -> NoDup (map fst (se (abs g))).
Proof. intros HI. apply (gi_edges_nodup d g HI). Qed.

Theorem nodes_correct g : map fst (gnodes g) = sn (abs g).
Proof. reflexivity. Qed.

Theorem counts_correct g :
  length (gnodes g) = length (sn (abs g)) /\ length (gedges g) = length (se (abs g)).
Proof. unfold abs, nkeys. cbn [sn se]. rewrite map_length. auto. Qed.

(* ------------------------------------------------------------------ *)
(* Undirected adjacency vectors: exactly one entry per incident edge   *)

Lemma NoDup_map_inj_in {A B} (f : A -> B) (l : list A) x y :
  NoDup (map f l) -> In x l -> In y l -> f x = f y -> x = y.
Proof.
  induction l as [|h t IH]; cbn [map In]; intros HN Hx Hy Hf; [destruct Hx|].
  inversion HN as [|z l0 Hnotin HN']; subst.
  destruct Hx as [->|Hx], Hy as [->|Hy]; auto.
  - exfalso. apply Hnotin. rewrite Hf. apply in_map; exact Hy.
  - exfalso. apply Hnotin. rewrite <- Hf. apply in_map; exact Hx.
Qed.

Theorem undirected_entry_unique g a v b : GInv false g -> In (a, v) (gnodes g) ->
  (In (edge_key false a b) (ekeys g) <-> exists! e, In e v /\ fst e = b) /\ ~ In (a, false) v.
Proof.
  intros HI Hin. destruct (gi_adj false g HI a v Hin) as [HNv [HNf [Ho Hi]]]. split.
  - rewrite <- Ho, in_map_iff. split.
    + intros [e [Hf He]]. exists e. split; [auto|]. intros e' [He' Hf'].
      apply (NoDup_map_inj_in fst v e e' HNf He He'). congruence.
    + intros [e [[He Hf] _]]. exists e; auto.
  - intros H. apply Hi in H. congruence.
Qed.
