(* C04, part 1: growing a flat square matrix in place (extend_flat_square /
   relocate_rows) moves every old cell (r, c) from r*old+c to r*new+c, fills
   everything else with nulls, and never panics: the block branch is taken only
   on disjoint in-bounds ranges and both debug assertions hold. *)
From PG Require Import Lib.ListArr Model.MatrixM.
Require Import Lia.

(* ------------------------------------------------------------------ *)
(* Small nonlinear facts                                               *)

Lemma mul_le_l a b n : a <= b -> a * n <= b * n.
Proof. intros H. apply Nat.mul_le_mono_r; auto. Qed.

Lemma mul_le_r a b n : a <= b -> n * a <= n * b.
Proof. intros H. apply Nat.mul_le_mono_l; auto. Qed.

Lemma mul_S_le a b n : a < b -> a * n + n <= b * n.
Proof.
  intros H. change (a * n + n) with (a * n + n).
  replace (a * n + n) with (S a * n) by (cbn [Nat.mul]; lia).
  apply mul_le_l; lia.
Qed.

(* uniqueness of the (row, column) decomposition of a flat position *)
Lemma rowcol_uniq n r k r' k' :
  k < n -> k' < n -> r * n + k = r' * n + k' -> r = r' /\ k = k'.
Proof.
  intros Hk Hk' E.
  assert (Hr : r = r').
  { destruct (Nat.lt_trichotomy r r') as [L|[L|L]]; auto.
    - pose proof (mul_S_le _ _ n L). lia.
    - pose proof (mul_S_le _ _ n L). lia. }
  subst r'. split; auto. lia.
Qed.

Lemma rowcol_decomp n j : 0 < n -> exists r k, j = r * n + k /\ k < n.
Proof.
  intros Hn. exists (j / n), (j mod n). split.
  - rewrite Nat.mul_comm. apply Nat.div_mod. lia.
  - apply Nat.mod_upper_bound. lia.
Qed.

Lemma rowcol_lt n r k : r < n -> k < n -> r * n + k < n * n.
Proof. intros Hr Hk. pose proof (mul_S_le _ _ n Hr). lia. Qed.

(* ------------------------------------------------------------------ *)
(* ensure_len                                                          *)

Lemma ensure_len_length {A} (l : list (option A)) n : length l <= n -> length (ensure_len l n) = n.
Proof. intros H. unfold ensure_len. rewrite app_length, repeat_length. lia. Qed.

Lemma ensure_len_length_ge {A} (l : list (option A)) n : n <= length l -> ensure_len l n = l.
Proof.
  intros H. unfold ensure_len. replace (n - length l) with 0 by lia.
  cbn [repeat]. apply app_nil_r.
Qed.

Lemma ensure_len_old {A} (l : list (option A)) n j :
  j < length l -> nth_error (ensure_len l n) j = nth_error l j.
Proof. intros H. unfold ensure_len. apply nth_error_app1; auto. Qed.

Lemma ensure_len_new {A} (l : list (option A)) n j :
  length l <= j -> j < n -> nth_error (ensure_len l n) j = Some None.
Proof.
  intros H1 H2. unfold ensure_len. rewrite nth_error_app2 by auto.
  apply nth_error_repeat. lia.
Qed.

(* ------------------------------------------------------------------ *)
(* A descending element-wise swap into a null target is a move         *)

Lemma swap_cells_move {A} (l : list (option A)) i j x :
  nth_error l i = Some x -> nth_error l j = Some None ->
  swap_cells l i j = Ok (upd (upd l i None) j x).
Proof. intros Hi Hj. unfold swap_cells. rewrite Hi, Hj. reflexivity. Qed.

Lemma swap_desc_move {A} k : forall (l : list (option A)) pos npos,
  pos < npos -> npos + k <= length l ->
  (forall j, pos + k <= j -> j < npos + k -> nth_error l j = Some None) ->
  exists l', swap_desc l pos npos k = Ok l' /\ length l' = length l /\
    (forall i, i < k -> nth_error l' (npos + i) = nth_error l (pos + i)) /\
    (forall j, pos <= j -> j < npos -> nth_error l' j = Some None) /\
    (forall j, j < pos \/ npos + k <= j -> nth_error l' j = nth_error l j).
Proof.
  induction k as [|i IH]; intros l pos npos Hlt Hlen Hnone.
  - exists l. cbn [swap_desc]. repeat split; auto.
    + intros i Hi. lia.
    + intros j H1 H2. apply Hnone; lia.
  - assert (Hpi : pos + i < length l) by lia.
    destruct (nth_error_lt_Some l Hpi) as [x Hx].
    assert (Hy : nth_error l (npos + i) = Some None) by (apply Hnone; lia).
    cbn [swap_desc]. rewrite (swap_cells_move _ _ _ _ Hx Hy). cbn [rbind].
    set (l1 := upd (upd l (pos + i) None) (npos + i) x).
    assert (Hl1 : length l1 = length l) by (unfold l1; rewrite !upd_length; auto).
    assert (Hget : forall j, j <> pos + i -> j <> npos + i -> nth_error l1 j = nth_error l j).
    { intros j H1 H2. unfold l1. rewrite !nth_error_upd_neq by lia. auto. }
    destruct (IH l1 pos npos Hlt) as (l' & E & Hlen' & Hmv & Hgap & Hout).
    + lia.
    + intros j H1 H2. destruct (Nat.eq_dec j (pos + i)) as [->|Hne].
      * unfold l1. rewrite nth_error_upd_neq by lia. apply nth_error_upd_eq; auto.
      * rewrite Hget by lia. apply Hnone; lia.
    + exists l'. split; auto. split; [lia|]. split; [|split].
      * intros i' Hi'. destruct (Nat.eq_dec i' i) as [->|Hne].
        -- rewrite Hout by lia. unfold l1. rewrite nth_error_upd_eq; auto.
           rewrite upd_length. lia.
        -- rewrite Hmv by lia. apply Hget; lia.
      * auto.
      * intros j Hj. rewrite Hout by lia. apply Hget; lia.
Qed.

(* ------------------------------------------------------------------ *)
(* The loop invariant of relocate_rows                                 *)

Section Reloc.
Variables (old new : nat) (l0 : list (option nat)).
Hypothesis Hlt : old < new.
Hypothesis Hl0 : length l0 = old * old.

(* Rows 0..c are still at their old offsets (the flat prefix below (c+1)*old
   is untouched), rows c+1..old-1 are at their new offsets, the rest is null. *)
Record RInv (l : list (option nat)) (c : nat) : Prop := {
  ri_len : length l = new * new;
  ri_low : forall j, j < (c + 1) * old -> nth_error l j = nth_error l0 j;
  ri_hi : forall r k, c < r -> r < old -> k < old ->
          nth_error l (r * new + k) = nth_error l0 (r * old + k);
  ri_none : forall r k, r < new -> k < new -> (c + 1) * old <= r * new + k ->
            (r <= c \/ old <= r \/ old <= k) -> nth_error l (r * new + k) = Some None
}.

Lemma rinv_init : RInv (ensure_len l0 (new * new)) (old - 1).
Proof.
  assert (Hsq : old * old <= new * new).
  { pose proof (mul_le_l _ _ old (Nat.lt_le_incl _ _ Hlt)). pose proof (mul_le_r _ _ new (Nat.lt_le_incl _ _ Hlt)). lia. }
  assert (Hc : (old - 1 + 1) * old <= old * old).
  { destruct old as [|o]; [cbn; lia|]. replace (S o - 1 + 1) with (S o) by lia. lia. }
  constructor.
  - apply ensure_len_length. lia.
  - intros j Hj. apply ensure_len_old. lia.
  - intros r k H1 H2 H3. lia.
  - intros r k Hr Hk Hge _. apply ensure_len_new.
    + destruct old as [|o]; [cbn in *; lia|].
      replace (S o - 1 + 1) with (S o) in Hge by lia. lia.
    + apply rowcol_lt; auto.
Qed.

Lemma rinv_step l c : S c < old -> RInv l (S c) ->
  exists l', (if Nat.leb (S c * old + old) (S c * new)
              then swap_block true l (S c * old) (S c * new) old
              else swap_desc l (S c * old) (S c * new) old) = Ok l' /\
             (if Nat.leb (S c * old + old) (S c * new)
              then swap_block false l (S c * old) (S c * new) old
              else swap_desc l (S c * old) (S c * new) old) = Ok l' /\
             RInv l' c.
Proof.
  intros Hc I. destruct I as [Ilen Ilow Ihi Inone].
  set (pos := S c * old). set (npos := S c * new).
  assert (Hpn : pos < npos).
  { unfold pos, npos. cbn [Nat.mul]. pose proof (mul_le_r _ _ c (Nat.lt_le_incl _ _ Hlt)). lia. }
  assert (Hpos : pos + old = (S c + 1) * old).
  { unfold pos. replace (S c + 1) with (S (S c)) by lia. cbn [Nat.mul]. lia. }
  assert (Hpos' : pos = (c + 1) * old) by (unfold pos; replace (c + 1) with (S c) by lia; auto).
  assert (Hnn : npos + new <= (new - 1) * new).
  { unfold npos. assert (H : S c < new - 1) by lia. pose proof (mul_S_le _ _ new H). lia. }
  assert (Hnew : (new - 1) * new + new = new * new).
  { destruct new as [|n]; [lia|]. replace (S n - 1) with n by lia. cbn [Nat.mul]. lia. }
  assert (Hend : npos + old < length l) by lia.
  destruct (swap_desc_move old l pos npos Hpn) as (l' & E & Hlen' & Hmv & Hgap & Hout).
  { lia. }
  { intros j H1 H2.
    destruct (rowcol_decomp new j) as (r & k & -> & Hk); [lia|].
    assert (Hr : r <= S c).
    { destruct (Nat.le_gt_cases r (S c)) as [L|L]; auto.
      pose proof (mul_S_le (S c) r new L) as H. fold npos in H. lia. }
    apply Inone; auto; lia. }
  exists l'.
  assert (Eb : forall dbg, swap_block dbg l pos npos old = Ok l').
  { intros dbg. unfold swap_block.
    replace (Nat.ltb (pos + old) (length l)) with true by (symmetry; apply Nat.ltb_lt; lia).
    replace (Nat.ltb (npos + old) (length l)) with true by (symmetry; apply Nat.ltb_lt; lia).
    cbn [andb negb]. rewrite andb_false_r.
    replace (Nat.leb (npos + old) (length l)) with true by (symmetry; apply Nat.leb_le; lia).
    auto. }
  split; [|split].
  - destruct (Nat.leb (pos + old) npos); auto.
  - destruct (Nat.leb (pos + old) npos); auto.
  - constructor.
    + lia.
    + intros j Hj. rewrite Hout by lia. apply Ilow. lia.
    + intros r k H1 H2 H3. destruct (Nat.eq_dec r (S c)) as [->|Hne].
      * fold npos. rewrite Hmv by auto. fold pos. apply Ilow. lia.
      * assert (L : S c < r) by lia. pose proof (mul_S_le (S c) r new L) as H. fold npos in H.
        rewrite Hout by lia. apply Ihi; auto.
    + intros r k Hr Hk Hge Hor.
      destruct (Nat.lt_ge_cases (r * new + k) npos) as [L|L].
      * apply Hgap; lia.
      * destruct (Nat.lt_ge_cases (r * new + k) (npos + old)) as [L2|L2].
        -- exfalso. assert (Hk' : r * new + k - npos < new) by lia.
           assert (E2 : r * new + k = S c * new + (r * new + k - npos)) by (fold npos; lia).
           destruct (rowcol_uniq _ _ _ _ _ Hk Hk' E2) as [-> Ek]. lia.
        -- rewrite Hout by lia. apply Inone; auto; lia.
Qed.

Lemma relocate_rows_inv dbg c : forall l, (c = 0 \/ c < old) -> RInv l c ->
  exists l', relocate_rows dbg l old new c = Ok l' /\ RInv l' 0.
Proof.
  induction c as [|c IH]; intros l Hc I.
  - exists l. split; auto.
  - assert (Hc' : S c < old) by lia.
    destruct (rinv_step _ _ Hc' I) as (l1 & E1 & E2 & I1).
    destruct (IH l1) as (l' & E & I'); [lia|auto|].
    exists l'. split; auto.
    cbn [relocate_rows]. destruct dbg; [rewrite E1|rewrite E2]; cbn [rbind]; auto.
Qed.

Lemma rinv_final l' : RInv l' 0 ->
  length l' = new * new /\
  (forall r c, r < old -> c < old -> nth_error l' (r * new + c) = nth_error l0 (r * old + c)) /\
  (forall r c, r < new -> c < new -> old <= r \/ old <= c -> nth_error l' (r * new + c) = Some None).
Proof.
  intros [Ilen Ilow Ihi Inone]. split; auto. split.
  - intros r c Hr Hc. destruct r as [|r].
    + cbn [Nat.mul Nat.add]. apply Ilow. lia.
    + apply Ihi; auto; lia.
  - intros r c Hr Hc Hor. apply Inone; auto; try lia.
    destruct Hor as [H|H]; [|lia].
    pose proof (mul_le_l old r new H). assert (H1 : 1 <= new) by lia. pose proof (mul_le_r 1 new old H1). lia.
Qed.

Theorem relocate_spec dbg :
  exists l', relocate_rows dbg (ensure_len l0 (new * new)) old new (old - 1) = Ok l' /\
    length l' = new * new /\
    (forall r c, r < old -> c < old -> nth_error l' (r * new + c) = nth_error l0 (r * old + c)) /\
    (forall r c, r < new -> c < new -> old <= r \/ old <= c -> nth_error l' (r * new + c) = Some None).
Proof.
  assert (Hc : old - 1 = 0 \/ old - 1 < old) by lia.
  destruct (relocate_rows_inv dbg (old - 1) _ Hc rinv_init) as (l' & E & I).
  exists l'. split; auto. apply rinv_final; auto.
Qed.

End Reloc.

(* ------------------------------------------------------------------ *)
(* next_power_of_two and the wrapper extend_flat_square                *)

Lemma npow2_loop_ge fuel : forall p n, 1 <= p -> n < p + fuel -> n <= npow2_loop fuel p n.
Proof.
  induction fuel as [|f IH]; intros p n Hp Hn; cbn [npow2_loop].
  - lia.
  - destruct (Nat.leb_spec n p) as [L|L]; auto.
    apply IH; lia.
Qed.

Lemma next_power_of_two_ge n : n <= next_power_of_two n.
Proof. unfold next_power_of_two. apply npow2_loop_ge; lia. Qed.

Definition grown_cap (newc : nat) (exact : bool) : nat :=
  if exact then newc else Nat.max (next_power_of_two newc) 4.

Lemma grown_cap_ge newc exact : newc <= grown_cap newc exact.
Proof.
  unfold grown_cap. destruct exact; auto.
  pose proof (next_power_of_two_ge newc). lia.
Qed.

Theorem extend_flat_square_spec debug l old newc exact :
  old < newc -> length l = old * old ->
  exists l' new, extend_flat_square debug l old newc exact = Ok (l', new) /\
    new = grown_cap newc exact /\ newc <= new /\ (exact = true -> new = newc) /\
    length l' = new * new /\
    (forall r c, r < old -> c < old -> nth_error l' (r * new + c) = nth_error l (r * old + c)) /\
    (forall r c, r < new -> c < new -> old <= r \/ old <= c -> nth_error l' (r * new + c) = Some None).
Proof.
  intros Hlt Hlen. pose proof (grown_cap_ge newc exact) as Hge.
  assert (Hlt' : old < grown_cap newc exact) by lia.
  destruct (relocate_spec old (grown_cap newc exact) l Hlt' Hlen debug) as (l' & E & H1 & H2 & H3).
  exists l', (grown_cap newc exact). unfold extend_flat_square. fold (grown_cap newc exact).
  rewrite E. cbn [rmap]. repeat split; auto.
  intros ->. reflexivity.
Qed.
