(* C04, part 3: the structural invariant of the MatrixGraph model and the effect
   of every mutating operation on get_edge_weight. *)
From PG Require Import Lib.ListArr Model.MatrixM Spec.MatrixSpec Proofs.MatrixReloc Proofs.MatrixTri.
Require Import Lia.

Ltac splits := repeat match goal with |- _ /\ _ => split end.

(* ------------------------------------------------------------------ *)
(* Counting non-null cells                                             *)

Fixpoint nsome (l : list (option nat)) : nat :=
  match l with
  | [] => 0
  | Some _ :: t => S (nsome t)
  | None :: t => nsome t
  end.

Definition osome (o : option nat) : nat := match o with Some _ => 1 | None => 0 end.

Lemma nsome_cons o t : nsome (o :: t) = osome o + nsome t.
Proof. destruct o; reflexivity. Qed.

Lemma nsome_app l1 l2 : nsome (l1 ++ l2) = nsome l1 + nsome l2.
Proof.
  induction l1 as [|o t IH]; auto.
  rewrite <- app_comm_cons, !nsome_cons, IH. lia.
Qed.

Lemma nsome_repeat_none n : nsome (repeat None n) = 0.
Proof. induction n as [|n IH]; auto. Qed.

Lemma nsome_ensure_len l n : nsome (ensure_len l n) = nsome l.
Proof. unfold ensure_len. rewrite nsome_app, nsome_repeat_none. lia. Qed.

Lemma nsome_upd l : forall p old v, nth_error l p = Some old ->
  nsome (upd l p v) + osome old = nsome l + osome v.
Proof.
  induction l as [|o t IH]; intros [|p] old v H; cbn [nth_error] in H; try discriminate.
  - inversion H; subst. cbn [upd]. rewrite !nsome_cons. lia.
  - cbn [upd]. rewrite !nsome_cons. pose proof (IH p old v H). lia.
Qed.

Lemma nsome_map_none (l : list (option nat)) : nsome (map (fun _ => None) l) = 0.
Proof. induction l as [|o t IH]; auto. Qed.

Lemma swap_cells_nsome l i j l' : swap_cells l i j = Ok l' -> nsome l' = nsome l.
Proof.
  unfold swap_cells. destruct (nth_error l i) as [x|] eqn:Ei; [|discriminate].
  destruct (nth_error l j) as [y|] eqn:Ej; [|discriminate].
  intros H; inversion H; subst; clear H.
  pose proof (nsome_upd l i x y Ei) as H1.
  destruct (Nat.eq_dec i j) as [->|Hne].
  - assert (E : nth_error (upd l j y) j = Some y).
    { apply nth_error_upd_eq. eapply nth_error_Some_lt; eauto. }
    pose proof (nsome_upd _ j y x E). rewrite Ei in Ej. inversion Ej; subst. lia.
  - assert (E : nth_error (upd l i y) j = Some y).
    { rewrite nth_error_upd_neq; auto. }
    pose proof (nsome_upd _ j y x E). lia.
Qed.

Lemma swap_desc_nsome k : forall l pos npos l', swap_desc l pos npos k = Ok l' -> nsome l' = nsome l.
Proof.
  induction k as [|i IH]; intros l pos npos l' H; cbn [swap_desc] in H.
  - inversion H; auto.
  - destruct (swap_cells l (pos + i) (npos + i)) as [l1| |] eqn:E; cbn [rbind] in H; try discriminate.
    rewrite (IH _ _ _ _ H). eapply swap_cells_nsome; eauto.
Qed.

Lemma swap_block_nsome dbg l pos npos k l' : swap_block dbg l pos npos k = Ok l' -> nsome l' = nsome l.
Proof.
  unfold swap_block. destruct (andb dbg _); [discriminate|].
  destruct (Nat.leb _ _); [|discriminate]. apply swap_desc_nsome.
Qed.

Lemma relocate_rows_nsome dbg old new c : forall l l',
  relocate_rows dbg l old new c = Ok l' -> nsome l' = nsome l.
Proof.
  induction c as [|c IH]; intros l l' H; cbn [relocate_rows] in H.
  - inversion H; auto.
  - destruct (Nat.leb _ _).
    + destruct (swap_block dbg l _ _ old) as [l1| |] eqn:E; cbn [rbind] in H; try discriminate.
      rewrite (IH _ _ H). eapply swap_block_nsome; eauto.
    + destruct (swap_desc l _ _ old) as [l1| |] eqn:E; cbn [rbind] in H; try discriminate.
      rewrite (IH _ _ H). eapply swap_desc_nsome; eauto.
Qed.

(* ------------------------------------------------------------------ *)
(* The invariant                                                       *)

Definition adj_len (directed : bool) (n : nat) : nat := if directed then n * n else tri n.

Definition live (g : mg) (i : nat) : Prop := i < ub g /\ mem_nat i (removed g) = false.

Record MInv (directed : bool) (g : mg) : Prop := {
  mi_len : length (adj g) = adj_len directed (ncap g);
  mi_nbe : nbe g = nsome (adj g);
  mi_ub : ub g <= length (elems g);
  mi_live : forall i, live g i <-> get_node_weight g i <> None;
  mi_rem : forall i, mem_nat i (removed g) = true -> i < ub g;
  mi_nodup : NoDup (removed g)
}.

(* every edge joins two existing nodes *)
Definition ELive (directed : bool) (g : mg) : Prop :=
  forall x y w, get_edge_weight directed g x y = Some w -> live g x /\ live g y.

Definition same_ids (g g' : mg) : Prop :=
  elems g' = elems g /\ ub g' = ub g /\ removed g' = removed g.

Lemma same_ids_refl g : same_ids g g.
Proof. repeat split. Qed.

Lemma same_ids_trans g1 g2 g3 : same_ids g1 g2 -> same_ids g2 g3 -> same_ids g1 g3.
Proof. intros (A & B & C) (D & E & F). repeat split; congruence. Qed.

Lemma same_ids_live g g' i : same_ids g g' -> (live g' i <-> live g i).
Proof. intros (A & B & C). unfold live. rewrite B, C. tauto. Qed.

Lemma adj_len_undirected_diag n : 1 <= n -> adj_len false n = tri_pos (n - 1) (n - 1) + 1.
Proof. intros H. symmetry. apply tri_pos_diag; auto. Qed.

Lemma adj_len_mono directed a b : a <= b -> adj_len directed a <= adj_len directed b.
Proof.
  intros H. destruct directed; cbn [adj_len].
  - pose proof (mul_le_l a b a H). pose proof (mul_le_r a b b H). lia.
  - apply tri_mono; auto.
Qed.

(* ------------------------------------------------------------------ *)
(* Positions                                                           *)

Lemma lin_pos_lt directed a b n : a < n -> b < n -> lin_pos directed a b n < adj_len directed n.
Proof.
  intros Ha Hb. destruct directed; cbn [lin_pos adj_len].
  - apply rowcol_lt; auto.
  - apply tri_pos_lt_tri; auto.
Qed.

Lemma same_pairb_true directed a b x y :
  same_pairb directed a b x y = true <-> (a = x /\ b = y) \/ (directed = false /\ a = y /\ b = x).
Proof.
  unfold same_pairb. rewrite orb_true_iff, !andb_true_iff, negb_true_iff, !Nat.eqb_eq. tauto.
Qed.

Lemma same_pairb_false directed a b x y :
  same_pairb directed a b x y = false <-> ~ ((a = x /\ b = y) \/ (directed = false /\ a = y /\ b = x)).
Proof. rewrite <- same_pairb_true. destruct (same_pairb directed a b x y); intuition congruence. Qed.

Lemma same_pairb_refl directed a b : same_pairb directed a b a b = true.
Proof. apply same_pairb_true; auto. Qed.

Lemma lin_pos_same directed a b x y n :
  same_pairb directed a b x y = true -> lin_pos directed x y n = lin_pos directed a b n.
Proof.
  intros H. apply same_pairb_true in H. destruct H as [[-> ->]|(-> & -> & ->)]; auto.
  cbn [lin_pos]. apply tri_pos_sym.
Qed.

Lemma lin_pos_inj directed a b x y n : a < n -> b < n -> x < n -> y < n ->
  lin_pos directed a b n = lin_pos directed x y n -> same_pairb directed a b x y = true.
Proof.
  intros Ha Hb Hx Hy E. apply same_pairb_true. destruct directed; cbn [lin_pos] in E.
  - left. apply (rowcol_uniq n); auto.
  - destruct (tri_pos_inj _ _ _ _ E) as [H|H]; auto.
Qed.

(* ------------------------------------------------------------------ *)
(* get_edge_weight                                                     *)

Definition cell_val (c : option (option nat)) : option nat :=
  match c with Some (Some w) => Some w | _ => None end.

Lemma get_lt directed g a b : a < ncap g -> b < ncap g ->
  get_edge_weight directed g a b = cell_val (nth_error (adj g) (lin_pos directed a b (ncap g))).
Proof.
  intros Ha Hb. unfold get_edge_weight, to_edge_position.
  replace (Nat.leb (ncap g) (Nat.max a b)) with false by (symmetry; apply Nat.leb_gt; lia).
  reflexivity.
Qed.

Lemma get_ge directed g a b : ncap g <= a \/ ncap g <= b -> get_edge_weight directed g a b = None.
Proof.
  intros H. unfold get_edge_weight, to_edge_position.
  replace (Nat.leb (ncap g) (Nat.max a b)) with true by (symmetry; apply Nat.leb_le; lia).
  reflexivity.
Qed.

Lemma pos_lt directed g a b : a < ncap g -> b < ncap g ->
  to_edge_position directed g a b = Some (lin_pos directed a b (ncap g)).
Proof.
  intros Ha Hb. unfold to_edge_position.
  replace (Nat.leb (ncap g) (Nat.max a b)) with false by (symmetry; apply Nat.leb_gt; lia).
  reflexivity.
Qed.

Lemma pos_ge directed g a b : ncap g <= a \/ ncap g <= b -> to_edge_position directed g a b = None.
Proof.
  intros H. unfold to_edge_position.
  replace (Nat.leb (ncap g) (Nat.max a b)) with true by (symmetry; apply Nat.leb_le; lia).
  reflexivity.
Qed.

Lemma get_same_pair directed g a b x y :
  same_pairb directed a b x y = true -> get_edge_weight directed g x y = get_edge_weight directed g a b.
Proof.
  intros H. pose proof H as H'. apply same_pairb_true in H'.
  destruct (Nat.lt_ge_cases a (ncap g)) as [La|La]; [destruct (Nat.lt_ge_cases b (ncap g)) as [Lb|Lb]|].
  - assert (x < ncap g /\ y < ncap g) as [Lx Ly] by (destruct H' as [[-> ->]|(_ & -> & ->)]; auto).
    rewrite !get_lt by auto. rewrite (lin_pos_same _ _ _ _ _ _ H). reflexivity.
  - rewrite (get_ge directed g a b) by auto. apply get_ge. destruct H' as [[-> ->]|(_ & -> & ->)]; auto.
  - rewrite (get_ge directed g a b) by auto. apply get_ge. destruct H' as [[-> ->]|(_ & -> & ->)]; auto.
Qed.

Lemma get_undirected_sym g x y : get_edge_weight false g x y = get_edge_weight false g y x.
Proof. apply get_same_pair. apply same_pairb_true. right; auto. Qed.

(* writing one cell *)
Lemma get_upd_cell directed g a b v e u r n x y :
  length (adj g) = adj_len directed (ncap g) -> a < ncap g -> b < ncap g ->
  get_edge_weight directed
    (mkMg (upd (adj g) (lin_pos directed a b (ncap g)) v) (ncap g) e u r n) x y =
  if same_pairb directed a b x y then v else get_edge_weight directed g x y.
Proof.
  intros Hlen Ha Hb.
  pose proof (lin_pos_lt directed a b _ Ha Hb) as Hp.
  destruct (same_pairb directed a b x y) eqn:E.
  - assert (x < ncap g /\ y < ncap g) as [Lx Ly].
    { apply same_pairb_true in E. destruct E as [[<- <-]|(_ & <- & <-)]; auto. }
    rewrite get_lt by auto. cbn [adj ncap].
    rewrite (lin_pos_same _ _ _ _ _ _ E). rewrite nth_error_upd_eq by lia. destruct v; reflexivity.
  - destruct (Nat.lt_ge_cases x (ncap g)) as [Lx|Lx]; [destruct (Nat.lt_ge_cases y (ncap g)) as [Ly|Ly]|].
    + rewrite !get_lt by auto. cbn [adj ncap]. rewrite nth_error_upd_neq; auto.
      intros Eq. apply lin_pos_inj in Eq; auto. congruence.
    + rewrite !get_ge; auto.
    + rewrite !get_ge; auto.
Qed.

Lemma minv_upd_cell directed g p old v n' :
  MInv directed g -> nth_error (adj g) p = Some old -> n' + osome old = nbe g + osome v ->
  MInv directed (mkMg (upd (adj g) p v) (ncap g) (elems g) (ub g) (removed g) n').
Proof.
  intros [Hlen Hnbe Hub Hlive Hrem Hnd] Hp Hn.
  constructor; cbn [adj ncap elems ub removed nbe]; auto.
  - rewrite upd_length; auto.
  - pose proof (nsome_upd _ _ _ v Hp). lia.
Qed.

(* ------------------------------------------------------------------ *)
(* Growing the matrix                                                  *)

Lemma extend_linearized_spec directed debug l old newc exact :
  length l = adj_len directed old ->
  exists l' new, extend_linearized directed debug l old newc exact = Ok (l', new) /\
    old <= new /\ newc <= new /\ (old < newc -> exact = true -> new = newc) /\
    length l' = adj_len directed new /\ nsome l' = nsome l /\
    (forall x y, x < old -> y < old ->
       nth_error l' (lin_pos directed x y new) = nth_error l (lin_pos directed x y old)) /\
    (forall x y, x < new -> y < new -> old <= x \/ old <= y ->
       nth_error l' (lin_pos directed x y new) = Some None).
Proof.
  intros Hlen. unfold extend_linearized. destruct (Nat.leb_spec newc old) as [L|L].
  - exists l, old. repeat split; auto; lia.
  - destruct directed; cbn [adj_len] in Hlen.
    + destruct (extend_flat_square_spec debug l old newc exact L Hlen)
        as (l' & new & E & Hnew & Hge & Hex & Hlen' & Hold & Hnone).
      exists l', new. split; auto. split; [lia|]. split; auto. split; auto. split; auto.
      split; [|split; auto].
      unfold extend_flat_square in E.
      destruct (relocate_rows debug _ old _ (old - 1)) as [l2| |] eqn:ER; cbn [rmap] in E; try discriminate.
      inversion E; subst l2. rewrite (relocate_rows_nsome _ _ _ _ _ _ ER). apply nsome_ensure_len.
    + exists (ensure_len l (tri_pos (newc - 1) (newc - 1) + 1)), newc.
      unfold extend_lower_triangular. rewrite tri_pos_diag by lia.
      assert (Hm : tri old <= tri newc) by (apply tri_mono; lia).
      split; auto. split; [lia|]. split; auto. split; auto. split.
      { cbn [adj_len]. apply ensure_len_length. lia. }
      split; [apply nsome_ensure_len|]. split.
      * intros x y Hx Hy. cbn [lin_pos]. apply ensure_len_old.
        rewrite Hlen. apply tri_pos_lt_tri; auto.
      * intros x y Hx Hy Hor. cbn [lin_pos]. apply ensure_len_new.
        -- rewrite Hlen. apply tri_pos_ge_tri; auto.
        -- apply tri_pos_lt_tri; auto.
Qed.

Lemma extend_for_node_spec directed debug g m exact : MInv directed g ->
  exists g1, extend_capacity_for_node directed debug g m exact = Ok g1 /\
    MInv directed g1 /\ same_ids g g1 /\ nbe g1 = nbe g /\ ncap g <= ncap g1 /\ m < ncap g1 /\
    (ncap g <= m -> exact = true -> ncap g1 = m + 1) /\
    forall x y, get_edge_weight directed g1 x y = get_edge_weight directed g x y.
Proof.
  intros I. destruct I as [Hlen Hnbe Hub Hlive Hrem Hnd].
  destruct (extend_linearized_spec directed debug (adj g) (ncap g) (m + 1) exact Hlen)
    as (l' & new & E & Hle & Hge & Hex & Hlen' & Hns & Hold & Hnone).
  unfold extend_capacity_for_node. rewrite E. cbn [rmap].
  eexists. split; [reflexivity|].
  split; [|split; [|split; [|split; [|split; [|split]]]]]; cbn [adj ncap elems ub removed nbe]; auto; try lia.
  - constructor; cbn [adj ncap elems ub removed nbe]; auto. lia.
  - repeat split.
  - intros H1 H2. apply Hex; auto. lia.
  - intros x y.
    destruct (Nat.lt_ge_cases x (ncap g)) as [Lx|Lx]; [destruct (Nat.lt_ge_cases y (ncap g)) as [Ly|Ly]|].
    + rewrite !get_lt by (cbn [ncap]; lia). cbn [adj ncap]. rewrite Hold; auto.
    + rewrite (get_ge directed g) by auto.
      destruct (Nat.lt_ge_cases y new) as [Ly'|Ly']; [|apply get_ge; cbn [ncap]; auto].
      rewrite get_lt by (cbn [ncap]; lia). cbn [adj ncap]. rewrite Hnone; auto. lia.
    + rewrite (get_ge directed g) by auto.
      destruct (Nat.lt_ge_cases x new) as [Lx'|Lx']; [|apply get_ge; cbn [ncap]; auto].
      destruct (Nat.lt_ge_cases y new) as [Ly'|Ly']; [|apply get_ge; cbn [ncap]; auto].
      rewrite get_lt by (cbn [ncap]; lia). cbn [adj ncap]. rewrite Hnone; auto.
Qed.

Lemma extend_for_edge_spec directed debug g a b : MInv directed g ->
  exists g1, extend_capacity_for_edge directed debug g a b = Ok g1 /\
    MInv directed g1 /\ same_ids g g1 /\ nbe g1 = nbe g /\ ncap g <= ncap g1 /\
    a < ncap g1 /\ b < ncap g1 /\
    forall x y, get_edge_weight directed g1 x y = get_edge_weight directed g x y.
Proof.
  intros I. unfold extend_capacity_for_edge. destruct (Nat.leb_spec (ncap g) (Nat.max a b)) as [L|L].
  - destruct (extend_for_node_spec directed debug g (Nat.max a b) false I)
      as (g1 & E & I1 & Hids & Hn & Hle & Hm & _ & Hget).
    exists g1. splits; auto; lia.
  - exists g. splits; auto; try lia. apply same_ids_refl.
Qed.

(* an already large enough matrix is left alone *)
Lemma extend_for_edge_id directed debug g a b : a < ncap g -> b < ncap g ->
  extend_capacity_for_edge directed debug g a b = Ok g.
Proof.
  intros Ha Hb. unfold extend_capacity_for_edge.
  replace (Nat.leb (ncap g) (Nat.max a b)) with false by (symmetry; apply Nat.leb_gt; lia).
  reflexivity.
Qed.

(* ------------------------------------------------------------------ *)
(* update_edge and its relatives                                       *)

Lemma update_edge_spec directed notzero debug g a b w : MInv directed g ->
  (andb notzero (Nat.eqb w 0) = true ->
     exists g1, update_edge directed notzero debug g a b w = Ok (inl tt, g1) /\
       MInv directed g1 /\ same_ids g g1 /\ nbe g1 = nbe g /\
       forall x y, get_edge_weight directed g1 x y = get_edge_weight directed g x y) /\
  (andb notzero (Nat.eqb w 0) = false ->
     exists g', update_edge directed notzero debug g a b w = Ok (inr (get_edge_weight directed g a b), g') /\
       MInv directed g' /\ same_ids g g' /\
       nbe g' = nbe g + (match get_edge_weight directed g a b with None => 1 | Some _ => 0 end) /\
       a < ncap g' /\ b < ncap g' /\
       forall x y, get_edge_weight directed g' x y =
                   if same_pairb directed a b x y then Some w else get_edge_weight directed g x y).
Proof.
  intros I.
  destruct (extend_for_edge_spec directed debug g a b I) as (g1 & E & I1 & Hids & Hn & Hle & Ha & Hb & Hget).
  pose proof (lin_pos_lt directed a b _ Ha Hb) as Hp. rewrite <- (mi_len _ _ I1) in Hp.
  destruct (nth_error_lt_Some (adj g1) Hp) as [old Hold].
  unfold update_edge. rewrite E. cbn [rbind]. rewrite Hold.
  split; intros Hz; rewrite Hz.
  - exists g1. splits; auto.
  - assert (Eo : get_edge_weight directed g a b = old).
    { rewrite <- Hget, get_lt by auto. rewrite Hold. destruct old; reflexivity. }
    rewrite Eo. eexists. split; [reflexivity|].
    split; [|split; [|split; [|split; [|split]]]]; cbn [adj ncap elems ub removed nbe]; auto.
    + apply minv_upd_cell with (old := old); auto. destruct old; cbn [osome]; lia.
    + destruct old; lia.
    + intros x y. rewrite get_upd_cell; auto; [|apply (mi_len _ _ I1)].
      rewrite Hget. reflexivity.
Qed.

Theorem update_edge_returned directed notzero debug g a b w old g' :
  MInv directed g -> update_edge directed notzero debug g a b w = Ok (inr old, g') ->
  MInv directed g' /\ same_ids g g' /\
  get_edge_weight directed g' a b = Some w /\
  old = get_edge_weight directed g a b /\
  (forall x y, same_pairb directed a b x y = false ->
     get_edge_weight directed g' x y = get_edge_weight directed g x y) /\
  nbe g' = nbe g + (match old with None => 1 | Some _ => 0 end).
Proof.
  intros I E. destruct (update_edge_spec directed notzero debug g a b w I) as [Hz Hnz].
  destruct (andb notzero (Nat.eqb w 0)) eqn:Z.
  - destruct (Hz eq_refl) as (g1 & E1 & _). rewrite E1 in E. discriminate.
  - destruct (Hnz eq_refl) as (g2 & E2 & I2 & Hids & Hn & _ & _ & Hget).
    rewrite E2 in E. inversion E; subst old g2; clear E.
    splits; auto.
    + rewrite Hget, same_pairb_refl. reflexivity.
    + intros x y Hxy. rewrite Hget, Hxy. reflexivity.
Qed.

Theorem update_edge_total directed notzero debug g a b w : MInv directed g ->
  exists r g', update_edge directed notzero debug g a b w = Ok (r, g') /\
    (r = inl tt <-> andb notzero (Nat.eqb w 0) = true).
Proof.
  intros I. destruct (update_edge_spec directed notzero debug g a b w I) as [Hz Hnz].
  destruct (andb notzero (Nat.eqb w 0)) eqn:Z.
  - destruct (Hz eq_refl) as (g1 & E1 & _). exists (inl tt), g1. split; auto. tauto.
  - destruct (Hnz eq_refl) as (g2 & E2 & _). eexists _, g2. split; [exact E2|].
    split; intros H; discriminate.
Qed.

(* ------------------------------------------------------------------ *)
(* Clearing cells: remove_edge and the loop of remove_node             *)

Lemma clear_pos_spec directed g a b c n' :
  MInv directed g -> a < ncap g -> b < ncap g ->
  nth_error (adj g) (lin_pos directed a b (ncap g)) = Some c -> n' + osome c = nbe g ->
  let g' := mkMg (upd (adj g) (lin_pos directed a b (ncap g)) None) (ncap g) (elems g) (ub g) (removed g) n' in
  MInv directed g' /\
  forall x y, get_edge_weight directed g' x y =
              if same_pairb directed a b x y then None else get_edge_weight directed g x y.
Proof.
  intros I Ha Hb Hc Hn g'. split.
  - apply minv_upd_cell with (old := c); auto. cbn [osome]. lia.
  - intros x y. unfold g'. apply get_upd_cell; auto. apply (mi_len _ _ I).
Qed.

Lemma get_none_same_pair directed g a b x y :
  get_edge_weight directed g a b = None ->
  get_edge_weight directed g x y =
  if same_pairb directed a b x y then None else get_edge_weight directed g x y.
Proof.
  intros H. destruct (same_pairb directed a b x y) eqn:E; auto.
  rewrite (get_same_pair _ _ _ _ _ _ E). auto.
Qed.

Lemma cell_some_nsome l p w : nth_error l p = Some (Some w) -> 1 <= nsome l.
Proof. intros H. pose proof (nsome_upd l p (Some w) None H). cbn [osome] in *. lia. Qed.

Lemma remove_edge_spec directed g a b : MInv directed g ->
  exists g', remove_edge directed g a b = Ok (get_edge_weight directed g a b, g') /\
    MInv directed g' /\ same_ids g g' /\ ncap g' = ncap g /\
    nbe g' + osome (get_edge_weight directed g a b) = nbe g /\
    forall x y, get_edge_weight directed g' x y =
                if same_pairb directed a b x y then None else get_edge_weight directed g x y.
Proof.
  intros I. unfold remove_edge.
  destruct (Nat.lt_ge_cases a (ncap g)) as [La|La]; [destruct (Nat.lt_ge_cases b (ncap g)) as [Lb|Lb]|].
  - rewrite pos_lt, get_lt by auto.
    pose proof (lin_pos_lt directed a b _ La Lb) as Hp. rewrite <- (mi_len _ _ I) in Hp.
    destruct (nth_error_lt_Some (adj g) Hp) as [c Hc]. rewrite Hc.
    destruct c as [w|]; cbn [cell_val].
    + pose proof (cell_some_nsome _ _ _ Hc) as H1. pose proof (mi_nbe _ _ I) as Hn.
      assert (Hn' : nbe g - 1 + osome (Some w) = nbe g) by (cbn [osome]; lia).
      destruct (clear_pos_spec directed g a b (Some w) (nbe g - 1) I La Lb Hc Hn') as [I' Hget].
      eexists. split; [reflexivity|]. splits; auto; try (repeat split; fail);
        cbn [nbe osome] in *; lia.
    + exists g. splits; auto; try apply same_ids_refl.
      intros x y. apply get_none_same_pair. rewrite get_lt, Hc by auto. reflexivity.
  - rewrite pos_ge, get_ge by auto. exists g. splits; auto; try apply same_ids_refl.
    intros x y. apply get_none_same_pair. apply get_ge; auto.
  - rewrite pos_ge, get_ge by auto. exists g. splits; auto; try apply same_ids_refl.
    intros x y. apply get_none_same_pair. apply get_ge; auto.
Qed.

(* one cell of remove_node's loop: to_edge_position, then mem::take *)
Lemma clear_pair_spec directed g a b : MInv directed g ->
  exists g', match to_edge_position directed g a b with
             | Some p => clear_cell g p true
             | None => Ok g
             end = Ok g' /\
    MInv directed g' /\ same_ids g g' /\ ncap g' = ncap g /\
    forall x y, get_edge_weight directed g' x y =
                if same_pairb directed a b x y then None else get_edge_weight directed g x y.
Proof.
  intros I.
  destruct (Nat.lt_ge_cases a (ncap g)) as [La|La]; [destruct (Nat.lt_ge_cases b (ncap g)) as [Lb|Lb]|].
  - rewrite pos_lt by auto. unfold clear_cell.
    pose proof (lin_pos_lt directed a b _ La Lb) as Hp. rewrite <- (mi_len _ _ I) in Hp.
    destruct (nth_error_lt_Some (adj g) Hp) as [c Hc]. rewrite Hc.
    assert (Hn' : (match c with Some _ => nbe g - 1 | None => nbe g end) + osome c = nbe g).
    { destruct c as [w|]; cbn [osome]; [|lia].
      pose proof (cell_some_nsome _ _ _ Hc). pose proof (mi_nbe _ _ I). lia. }
    destruct (clear_pos_spec directed g a b c _ I La Lb Hc Hn') as [I' Hget].
    eexists. split; [reflexivity|]. splits; auto. repeat split.
  - rewrite pos_ge by auto. exists g. splits; auto; try apply same_ids_refl.
    intros x y. apply get_none_same_pair. apply get_ge; auto.
  - rewrite pos_ge by auto. exists g. splits; auto; try apply same_ids_refl.
    intros x y. apply get_none_same_pair. apply get_ge; auto.
Qed.

Lemma same_pairb_endpoint directed a b x y :
  same_pairb directed a b x y = true -> (x = a /\ y = b) \/ (x = b /\ y = a).
Proof. intros H. apply same_pairb_true in H. intuition. Qed.

Lemma remove_node_loop_spec directed a ids : forall g, MInv directed g ->
  exists g', remove_node_loop directed g a ids = Ok g' /\
    MInv directed g' /\ same_ids g g' /\ ncap g' = ncap g /\
    (forall x y, x <> a -> y <> a -> get_edge_weight directed g' x y = get_edge_weight directed g x y) /\
    (forall x y w, get_edge_weight directed g' x y = Some w -> get_edge_weight directed g x y = Some w) /\
    (forall y, In y ids -> get_edge_weight directed g' a y = None /\ get_edge_weight directed g' y a = None).
Proof.
  induction ids as [|id rest IH]; intros g I.
  - exists g. splits; auto; try apply same_ids_refl. intros y [].
  - cbn [remove_node_loop].
    destruct (clear_pair_spec directed g a id I) as (g1 & E1 & I1 & Hids1 & Hc1 & Hget1).
    rewrite E1. cbn [rbind].
    assert (exists g2, (if directed
                        then match to_edge_position directed g1 id a with
                             | Some p => clear_cell g1 p true
                             | None => Ok g1
                             end
                        else Ok g1) = Ok g2 /\
              MInv directed g2 /\ same_ids g g2 /\ ncap g2 = ncap g /\
              (forall x y, x <> a -> y <> a -> get_edge_weight directed g2 x y = get_edge_weight directed g x y) /\
              (forall x y w, get_edge_weight directed g2 x y = Some w -> get_edge_weight directed g x y = Some w) /\
              get_edge_weight directed g2 a id = None /\ get_edge_weight directed g2 id a = None)
      as (g2 & E2 & I2 & Hids2 & Hc2 & Hoth2 & Hmono2 & Ha2 & Hb2).
    { assert (Hoth1 : forall x y, x <> a -> y <> a ->
                get_edge_weight directed g1 x y = get_edge_weight directed g x y).
      { intros x y Hx Hy. rewrite Hget1. destruct (same_pairb directed a id x y) eqn:S; auto.
        apply same_pairb_endpoint in S. lia. }
      assert (Hmono1 : forall x y w, get_edge_weight directed g1 x y = Some w ->
                get_edge_weight directed g x y = Some w).
      { intros x y w. rewrite Hget1. destruct (same_pairb directed a id x y); auto; discriminate. }
      assert (Ha1 : get_edge_weight directed g1 a id = None).
      { rewrite Hget1, same_pairb_refl. reflexivity. }
      destruct directed.
      - destruct (clear_pair_spec true g1 id a I1) as (g2 & E2 & I2 & Hids2 & Hc2 & Hget2).
        exists g2. splits; auto.
        + eapply same_ids_trans; eauto.
        + lia.
        + intros x y Hx Hy. rewrite Hget2. destruct (same_pairb true id a x y) eqn:S; auto.
          apply same_pairb_endpoint in S. lia.
        + intros x y w. rewrite Hget2. destruct (same_pairb true id a x y); auto; discriminate.
        + rewrite Hget2. destruct (same_pairb true id a a id); auto.
        + rewrite Hget2, same_pairb_refl. reflexivity.
      - exists g1. splits; auto.
        rewrite Hget1. replace (same_pairb false a id id a) with true; auto.
        symmetry. apply same_pairb_true. right; auto. }
    rewrite E2. cbn [rbind].
    destruct (IH g2 I2) as (g' & E & I' & Hids' & Hc' & Hoth' & Hmono' & Hin').
    exists g'. splits; auto.
    + eapply same_ids_trans; eauto.
    + lia.
    + intros x y Hx Hy. rewrite Hoth', Hoth2; auto.
    + intros y [<-|Hy]; [|apply Hin'; auto]. split.
      * destruct (get_edge_weight directed g' a id) as [w|] eqn:G; auto.
        apply Hmono' in G. congruence.
      * destruct (get_edge_weight directed g' id a) as [w|] eqn:G; auto.
        apply Hmono' in G. congruence.
Qed.

(* ------------------------------------------------------------------ *)
(* IdStorage                                                           *)

Lemma mem_nat_In x l : mem_nat x l = true <-> In x l.
Proof.
  induction l as [|h t IH]; cbn [mem_nat In].
  - split; [discriminate|tauto].
  - rewrite orb_true_iff, Nat.eqb_eq, IH. tauto.
Qed.

Lemma mem_nat_app x l1 l2 : mem_nat x (l1 ++ l2) = orb (mem_nat x l1) (mem_nat x l2).
Proof.
  induction l1 as [|h t IH]; cbn [mem_nat app]; auto.
  rewrite IH, orb_assoc. reflexivity.
Qed.

Lemma mem_nat_snoc x l a : mem_nat x (l ++ [a]) = false <-> mem_nat x l = false /\ x <> a.
Proof.
  rewrite mem_nat_app. cbn [mem_nat]. rewrite orb_false_r, orb_false_iff, Nat.eqb_neq.
  intuition.
Qed.

Lemma NoDup_snoc (l : list nat) a : NoDup (l ++ [a]) <-> NoDup l /\ ~ In a l.
Proof.
  split.
  - intros H. apply NoDup_remove in H. rewrite app_nil_r in H. exact H.
  - intros [H1 H2]. rewrite <- (rev_involutive (l ++ [a])). apply NoDup_rev.
    rewrite rev_app_distr. cbn [rev app]. constructor.
    + rewrite <- in_rev. auto.
    + apply NoDup_rev; auto.
Qed.

Lemma in_iter_ids g i : In i (iter_ids g) <-> live g i.
Proof.
  unfold iter_ids, live. rewrite filter_In, in_seq, negb_true_iff. intuition lia.
Qed.

Lemma ensure_len_length_lb {A} (l : list (option A)) n : n <= length (ensure_len l n).
Proof. unfold ensure_len. rewrite app_length, repeat_length. lia. Qed.

Lemma cell_val_ensure_len (l : list (option nat)) n j :
  cell_val (nth_error (ensure_len l n) j) = cell_val (nth_error l j).
Proof.
  destruct (Nat.lt_ge_cases j (length l)) as [L|L].
  - rewrite ensure_len_old; auto.
  - assert (E : nth_error l j = None) by (apply nth_error_None; auto).
    rewrite E. unfold ensure_len. rewrite nth_error_app2 by auto.
    destruct (Nat.lt_ge_cases (j - length l) (n - length l)) as [L2|L2].
    + rewrite nth_error_repeat; auto.
    + assert (E2 : nth_error (repeat (@None nat) (n - length l)) (j - length l) = None).
      { apply nth_error_None. rewrite repeat_length. auto. }
      rewrite E2. reflexivity.
Qed.

Lemma gnw_cell g i : get_node_weight g i = cell_val (nth_error (elems g) i).
Proof. reflexivity. Qed.

Lemma cell_val_upd (l : list (option nat)) i v j : i < length l ->
  cell_val (nth_error (upd l i v) j) = if Nat.eqb j i then v else cell_val (nth_error l j).
Proof.
  intros Hi. destruct (Nat.eqb_spec j i) as [->|Hne].
  - rewrite nth_error_upd_eq by auto. destruct v; reflexivity.
  - rewrite nth_error_upd_neq by auto. reflexivity.
Qed.

(* the id the next add_node will hand out *)
Definition next_id (g : mg) : nat :=
  match rev (removed g) with id :: _ => id | [] => ub g end.

Lemma minv_of_ids directed g g' :
  MInv directed g -> adj g' = adj g -> ncap g' = ncap g -> nbe g' = nbe g ->
  ub g' <= length (elems g') ->
  (forall i, live g' i <-> get_node_weight g' i <> None) ->
  (forall i, mem_nat i (removed g') = true -> i < ub g') ->
  NoDup (removed g') -> MInv directed g'.
Proof.
  intros I Ha Hc Hn Hub Hlive Hrem Hnd.
  constructor; auto.
  - rewrite Ha, Hc. apply (mi_len _ _ I).
  - rewrite Ha, Hn. apply (mi_nbe _ _ I).
Qed.

Lemma ids_add_spec directed g w : MInv directed g ->
  exists g', ids_add g w = Ok (next_id g, g') /\ ~ live g (next_id g) /\
    adj g' = adj g /\ ncap g' = ncap g /\ nbe g' = nbe g /\ MInv directed g' /\
    (forall j, live g' j <-> j = next_id g \/ live g j) /\
    (forall j, get_node_weight g' j = if Nat.eqb j (next_id g) then Some w else get_node_weight g j).
Proof.
  intros I. pose proof (mi_ub _ _ I) as Hub. pose proof (mi_live _ _ I) as Hlive.
  pose proof (mi_rem _ _ I) as Hrem. pose proof (mi_nodup _ _ I) as Hnd.
  unfold ids_add, next_id. destruct (rev (removed g)) as [|id rest] eqn:Er.
  - assert (Erm : removed g = []).
    { rewrite <- (rev_involutive (removed g)), Er. reflexivity. }
    pose proof (ensure_len_length_lb (elems g) (S (ub g))) as Hl.
    replace (Nat.ltb (ub g) (length (ensure_len (elems g) (S (ub g))))) with true
      by (symmetry; apply Nat.ltb_lt; lia).
    eexists. split; [reflexivity|].
    assert (Hnl : ~ live g (ub g)) by (unfold live; lia).
    assert (Hlv : forall j, live (mkMg (adj g) (ncap g) (upd (ensure_len (elems g) (S (ub g))) (ub g) (Some w))
                                   (S (ub g)) (removed g) (nbe g)) j <-> j = ub g \/ live g j).
    { intros j. unfold live. cbn [ub removed]. rewrite Erm. cbn [mem_nat]. intuition lia. }
    assert (Hnw : forall j, get_node_weight (mkMg (adj g) (ncap g) (upd (ensure_len (elems g) (S (ub g))) (ub g) (Some w))
                                   (S (ub g)) (removed g) (nbe g)) j =
                            if Nat.eqb j (ub g) then Some w else get_node_weight g j).
    { intros j. rewrite !gnw_cell. cbn [elems]. rewrite cell_val_upd by lia.
      rewrite cell_val_ensure_len. reflexivity. }
    splits; auto.
    apply (minv_of_ids directed g); auto; cbn [ub elems removed].
    + rewrite upd_length. lia.
    + intros i. rewrite Hlv, Hnw. destruct (Nat.eqb_spec i (ub g)) as [->|Hne].
      * split; [discriminate|auto].
      * rewrite <- Hlive. intuition.
    + rewrite Erm. cbn [mem_nat]. discriminate.
  - assert (Erm : removed g = rev rest ++ [id]).
    { rewrite <- (rev_involutive (removed g)), Er. reflexivity. }
    assert (Hid : id < ub g).
    { apply Hrem. rewrite Erm, mem_nat_app. cbn [mem_nat]. rewrite Nat.eqb_refl, orb_true_r. reflexivity. }
    rewrite Erm in Hnd. apply NoDup_snoc in Hnd. destruct Hnd as [Hnd Hnin].
    assert (Hmid : mem_nat id (rev rest) = false).
    { destruct (mem_nat id (rev rest)) eqn:M; auto. apply mem_nat_In in M. tauto. }
    replace (Nat.ltb id (length (elems g))) with true by (symmetry; apply Nat.ltb_lt; lia).
    eexists. split; [reflexivity|].
    assert (Hnl : ~ live g id).
    { unfold live. rewrite Erm, mem_nat_app. cbn [mem_nat]. rewrite Nat.eqb_refl, orb_true_r.
      intros [_ H]; discriminate. }
    assert (Hlv : forall j, live (mkMg (adj g) (ncap g) (upd (elems g) id (Some w)) (ub g) (rev rest) (nbe g)) j
                            <-> j = id \/ live g j).
    { intros j. unfold live. cbn [ub removed]. rewrite Erm, mem_nat_snoc.
      destruct (Nat.eq_dec j id) as [->|Hne]; intuition. }
    assert (Hnw : forall j, get_node_weight (mkMg (adj g) (ncap g) (upd (elems g) id (Some w)) (ub g) (rev rest) (nbe g)) j =
                            if Nat.eqb j id then Some w else get_node_weight g j).
    { intros j. rewrite !gnw_cell. cbn [elems]. rewrite cell_val_upd by lia. reflexivity. }
    splits; auto.
    apply (minv_of_ids directed g); auto; cbn [ub elems removed].
    + rewrite upd_length. lia.
    + intros i. rewrite Hlv, Hnw. destruct (Nat.eqb_spec i id) as [->|Hne].
      * split; [discriminate|auto].
      * rewrite <- Hlive. intuition.
    + intros i Hi. apply Hrem. rewrite Erm, mem_nat_app, Hi. reflexivity.
Qed.

Lemma live_gnw directed g a : MInv directed g -> live g a -> exists w, get_node_weight g a = Some w.
Proof.
  intros I H. apply (mi_live _ _ I) in H. destruct (get_node_weight g a) as [w|]; [eauto|congruence].
Qed.

Lemma gnw_elems g a w : get_node_weight g a = Some w -> nth_error (elems g) a = Some (Some w).
Proof.
  unfold get_node_weight. destruct (nth_error (elems g) a) as [[x|]|]; intros H; inversion H; auto.
Qed.

Lemma ids_remove_dead directed g a : MInv directed g -> ~ live g a -> ids_remove g a = Panic.
Proof.
  intros I H. rewrite (mi_live _ _ I) in H. unfold ids_remove.
  unfold get_node_weight in H. destruct (nth_error (elems g) a) as [[x|]|]; auto.
  exfalso. apply H. discriminate.
Qed.

Lemma ids_remove_spec directed g a : MInv directed g -> live g a ->
  exists w g', ids_remove g a = Ok (w, g') /\ get_node_weight g a = Some w /\
    adj g' = adj g /\ ncap g' = ncap g /\ nbe g' = nbe g /\ MInv directed g' /\
    (forall j, live g' j <-> j <> a /\ live g j) /\
    (forall j, get_node_weight g' j = if Nat.eqb j a then None else get_node_weight g j) /\
    (a + 1 = ub g -> ub g' = a /\ removed g' = removed g) /\
    (a + 1 <> ub g -> ub g' = ub g /\ removed g' = removed g ++ [a]).
Proof.
  intros I La. pose proof (mi_ub _ _ I) as Hub. pose proof (mi_live _ _ I) as Hlive.
  pose proof (mi_rem _ _ I) as Hrem. pose proof (mi_nodup _ _ I) as Hnd.
  destruct (live_gnw _ _ _ I La) as [w Hw]. pose proof (gnw_elems _ _ _ Hw) as He.
  destruct La as [La1 La2].
  exists w. unfold ids_remove. rewrite He, La2.
  assert (Hnw : forall u r j, get_node_weight (mkMg (adj g) (ncap g) (upd (elems g) a None) u r (nbe g)) j =
                              if Nat.eqb j a then None else get_node_weight g j).
  { intros u r j. rewrite !gnw_cell. cbn [elems]. rewrite cell_val_upd by lia. reflexivity. }
  destruct (Nat.eqb_spec (ub g - a) 1) as [E1|E1].
  - eexists. split; [reflexivity|].
    assert (Hlv : forall j, live (mkMg (adj g) (ncap g) (upd (elems g) a None) (ub g - 1) (removed g) (nbe g)) j
                            <-> j <> a /\ live g j).
    { intros j. unfold live. cbn [ub removed]. intuition lia. }
    splits; auto; cbn [ub removed];
      try (intros Hx; split; [lia|reflexivity]); try (intros Hx; exfalso; lia).
    apply (minv_of_ids directed g); auto; cbn [ub elems removed].
    + rewrite upd_length. lia.
    + intros i. rewrite Hlv, Hnw. destruct (Nat.eqb_spec i a) as [->|Hne].
      * intuition.
      * rewrite <- Hlive. intuition.
    + intros i Hi. pose proof (Hrem i Hi). assert (i <> a) by congruence. lia.
  - eexists. split; [reflexivity|].
    assert (Hlv : forall j, live (mkMg (adj g) (ncap g) (upd (elems g) a None) (ub g) (removed g ++ [a]) (nbe g)) j
                            <-> j <> a /\ live g j).
    { intros j. unfold live. cbn [ub removed]. rewrite mem_nat_snoc. intuition. }
    splits; auto; cbn [ub removed];
      try (intros Hx; split; [lia|reflexivity]); try (intros Hx; exfalso; lia).
    apply (minv_of_ids directed g); auto; cbn [ub elems removed].
    + rewrite upd_length. lia.
    + intros i. rewrite Hlv, Hnw. destruct (Nat.eqb_spec i a) as [->|Hne].
      * intuition.
      * rewrite <- Hlive. intuition.
    + intros i. rewrite mem_nat_app. cbn [mem_nat]. rewrite orb_false_r, orb_true_iff, Nat.eqb_eq.
      intros [Hi| ->]; auto.
    + apply NoDup_snoc. split; auto. rewrite <- mem_nat_In. congruence.
Qed.

(* ------------------------------------------------------------------ *)
(* remove_node, add_node, clear, with_capacity                         *)

Lemma get_ext directed g g' x y : adj g' = adj g -> ncap g' = ncap g ->
  get_edge_weight directed g' x y = get_edge_weight directed g x y.
Proof.
  intros Ha Hc. unfold get_edge_weight, to_edge_position. rewrite Ha, Hc. reflexivity.
Qed.

Lemma live_dec g a : live g a \/ ~ live g a.
Proof.
  unfold live. destruct (Nat.lt_ge_cases a (ub g)); destruct (mem_nat a (removed g));
    intuition (try lia; try discriminate).
Qed.

Lemma same_ids_gnw g g' i : same_ids g g' -> get_node_weight g' i = get_node_weight g i.
Proof. intros (E & _). unfold get_node_weight. rewrite E. reflexivity. Qed.

Lemma dead_gnw directed g a : MInv directed g -> ~ live g a -> get_node_weight g a = None.
Proof.
  intros I H. rewrite (mi_live _ _ I) in H. destruct (get_node_weight g a); auto.
  exfalso. apply H. discriminate.
Qed.

Lemma remove_node_spec directed g a : MInv directed g ->
  exists g', remove_node directed g a = Ok (get_node_weight g a, g') /\
    MInv directed g' /\ ncap g' = ncap g /\
    (forall x y, x <> a -> y <> a -> get_edge_weight directed g' x y = get_edge_weight directed g x y) /\
    (forall x y w, get_edge_weight directed g' x y = Some w -> get_edge_weight directed g x y = Some w) /\
    (forall y, live g y -> get_edge_weight directed g' a y = None /\ get_edge_weight directed g' y a = None) /\
    (forall j, live g' j <-> j <> a /\ live g j) /\
    (forall j, get_node_weight g' j = if Nat.eqb j a then None else get_node_weight g j) /\
    (live g a -> a + 1 = ub g -> ub g' = a /\ removed g' = removed g) /\
    (live g a -> a + 1 <> ub g -> ub g' = ub g /\ removed g' = removed g ++ [a]).
Proof.
  intros I. unfold remove_node.
  destruct (remove_node_loop_spec directed a (iter_ids g) g I)
    as (g1 & E1 & I1 & Hids1 & Hc1 & Hoth1 & Hmono1 & Hin1).
  rewrite E1. cbn [rbind].
  assert (Hin : forall y, live g y ->
            get_edge_weight directed g1 a y = None /\ get_edge_weight directed g1 y a = None).
  { intros y Hy. apply Hin1. apply in_iter_ids; auto. }
  destruct (live_dec g a) as [La|La].
  - assert (La1 : live g1 a) by (apply (same_ids_live g g1); auto).
    destruct (ids_remove_spec directed g1 a I1 La1)
      as (w & g2 & E2 & Hw & Ha2 & Hc2 & Hn2 & I2 & Hlv2 & Hnw2 & Htop & Hmid).
    rewrite E2. rewrite <- (same_ids_gnw g g1 a Hids1), Hw.
    destruct Hids1 as (He1 & Hu1 & Hr1).
    exists g2. splits; auto.
    + lia.
    + intros x y Hx Hy. rewrite (get_ext directed g1 g2) by auto. auto.
    + intros x y w'. rewrite (get_ext directed g1 g2) by auto. auto.
    + intros y Hy. rewrite !(get_ext directed g1 g2) by auto. auto.
    + intros j. rewrite Hlv2. unfold live. rewrite Hu1, Hr1. tauto.
    + intros j. rewrite Hnw2. unfold get_node_weight. rewrite He1. reflexivity.
    + intros _ H. rewrite <- Hr1. apply Htop. lia.
    + intros _ H. rewrite <- Hu1, <- Hr1. apply Hmid. lia.
  - assert (La1 : ~ live g1 a) by (rewrite (same_ids_live g g1); auto).
    rewrite (ids_remove_dead directed g1 a I1 La1).
    rewrite (dead_gnw directed g a I La).
    exists g1. splits; auto; try tauto.
    + intros j. rewrite (same_ids_live g g1) by auto. split; [|tauto].
      intros H. split; auto. intros ->. tauto.
    + intros j. rewrite (same_ids_gnw g g1) by auto.
      destruct (Nat.eqb_spec j a) as [->|Hne]; auto. apply (dead_gnw directed g a I La).
Qed.

Lemma add_node_spec directed cap capcheck g w : MInv directed g ->
  (andb capcheck (Nat.eqb (ids_len g) cap) = true ->
     try_add_node cap capcheck g w = Ok (inl NodeIxLimit, g) /\ add_node cap capcheck g w = Panic) /\
  (andb capcheck (Nat.eqb (ids_len g) cap) = false ->
     exists g', try_add_node cap capcheck g w = Ok (inr (next_id g), g') /\
       add_node cap capcheck g w = Ok (next_id g, g') /\ ~ live g (next_id g) /\
       adj g' = adj g /\ ncap g' = ncap g /\ nbe g' = nbe g /\ MInv directed g' /\
       (forall j, live g' j <-> j = next_id g \/ live g j) /\
       (forall j, get_node_weight g' j = if Nat.eqb j (next_id g) then Some w else get_node_weight g j)).
Proof.
  intros I. unfold add_node, try_add_node. split; intros Hz; rewrite Hz.
  - split; reflexivity.
  - destruct (ids_add_spec directed g w I) as (g' & E & H).
    exists g'. rewrite E. cbn [rmap rbind]. splits; auto; apply H.
Qed.

Lemma nth_error_map_none (l : list (option nat)) p :
  cell_val (nth_error (map (fun _ => None) l) p) = None.
Proof.
  rewrite nth_error_map. destruct (nth_error l p); reflexivity.
Qed.

Lemma clear_spec directed g : MInv directed g ->
  MInv directed (clear g) /\
  (forall x y, get_edge_weight directed (clear g) x y = None) /\
  (forall j, ~ live (clear g) j) /\
  (forall j, get_node_weight (clear g) j = None).
Proof.
  intros I. splits.
  - constructor; cbn [clear adj ncap elems ub removed nbe]; auto.
    + rewrite map_length. apply (mi_len _ _ I).
    + rewrite nsome_map_none. reflexivity.
    + intros i. unfold live, get_node_weight. cbn [clear ub elems]. destruct i; cbn [nth_error]; intuition (try lia; try congruence).
    + intros i H. discriminate.
    + constructor.
  - intros x y.
    destruct (Nat.lt_ge_cases x (ncap g)) as [Lx|Lx]; [destruct (Nat.lt_ge_cases y (ncap g)) as [Ly|Ly]|].
    + rewrite get_lt by auto. cbn [clear adj]. apply nth_error_map_none.
    + apply get_ge; auto.
    + apply get_ge; auto.
  - intros j [H _]. cbn [clear ub] in H. lia.
  - intros j. unfold get_node_weight. cbn [clear elems]. destruct j; reflexivity.
Qed.

Definition mg_empty : mg := mkMg [] 0 [] 0 [] 0.

Lemma minv_empty directed : MInv directed mg_empty.
Proof.
  constructor; cbn [mg_empty adj ncap elems ub removed nbe]; auto.
  - destruct directed; reflexivity.
  - intros i. unfold live, get_node_weight. cbn [mg_empty ub elems]. destruct i; cbn [nth_error]; intuition (try lia; try congruence).
  - intros i H. discriminate.
  - constructor.
Qed.

Lemma with_capacity_spec directed debug k :
  exists g0, with_capacity directed debug k = Ok g0 /\ MInv directed g0 /\ ncap g0 = k /\
    (forall x y, get_edge_weight directed g0 x y = None) /\
    (forall j, ~ live g0 j) /\ (forall j, get_node_weight g0 j = None).
Proof.
  unfold with_capacity. fold mg_empty.
  assert (Hg : forall x y, get_edge_weight directed mg_empty x y = None).
  { intros x y. apply get_ge. cbn [mg_empty ncap]. lia. }
  assert (Hl : forall j, ~ live mg_empty j).
  { intros j [H _]. cbn [mg_empty ub] in H. lia. }
  assert (Hw : forall j, get_node_weight mg_empty j = None).
  { intros j. unfold get_node_weight. cbn [mg_empty elems]. destruct j; reflexivity. }
  destruct (Nat.ltb_spec 0 k) as [L|L].
  - destruct (extend_for_node_spec directed debug mg_empty (k - 1) true (minv_empty directed))
      as (g1 & E & I1 & Hids & _ & _ & _ & Hex & Hget).
    exists g1. split; [exact E|]. split; [exact I1|]. split; [|split; [|split]].
    + rewrite Hex; auto; cbn [mg_empty ncap]; lia.
    + intros x y. rewrite Hget. apply Hg.
    + intros j. rewrite (same_ids_live mg_empty g1) by auto. apply Hl.
    + intros j. rewrite (same_ids_gnw mg_empty g1) by auto. apply Hw.
  - exists mg_empty. splits; auto. apply minv_empty. cbn [mg_empty ncap]. lia.
Qed.

(* ------------------------------------------------------------------ *)
(* Packaged statements for remove_node on a live node and for id reuse *)

Lemma next_id_snoc g g' a : removed g' = removed g ++ [a] -> next_id g' = a.
Proof. intros H. unfold next_id. rewrite H, rev_unit. reflexivity. Qed.

Theorem remove_node_live directed g a : MInv directed g -> live g a ->
  exists w g', remove_node directed g a = Ok (Some w, g') /\ get_node_weight g a = Some w /\
    MInv directed g' /\
    (forall y, live g y -> get_edge_weight directed g' a y = None /\ get_edge_weight directed g' y a = None) /\
    (forall x y, x <> a -> y <> a -> get_edge_weight directed g' x y = get_edge_weight directed g x y) /\
    (forall j, live g' j <-> j <> a /\ live g j) /\
    (next_id g' = a \/ (a + 1 = ub g /\ ub g' = a)) /\
    (ELive directed g -> ELive directed g' /\
       forall y, get_edge_weight directed g' a y = None /\ get_edge_weight directed g' y a = None).
Proof.
  intros I La. destruct (live_gnw directed g a I La) as [w Hw].
  destruct (remove_node_spec directed g a I)
    as (g' & E & I' & Hc & Hoth & Hmono & Hin & Hlv & Hgnw & Htop & Hmid).
  rewrite Hw in E. exists w, g'.
  split; [exact E|]. split; [exact Hw|]. split; [exact I'|]. split; [exact Hin|].
  split; [exact Hoth|]. split; [exact Hlv|]. split.
  - destruct (Nat.eq_dec (a + 1) (ub g)) as [Et|Et].
    + right. split; auto. apply Htop; auto.
    + left. apply (next_id_snoc g). apply Hmid; auto.
  - intros EL.
    assert (Hrow : forall y, get_edge_weight directed g' a y = None /\ get_edge_weight directed g' y a = None).
    { intros y. split.
      - destruct (get_edge_weight directed g' a y) as [v|] eqn:G; auto.
        pose proof (Hmono _ _ _ G) as G0. destruct (EL _ _ _ G0) as [_ Ly].
        destruct (Hin y Ly). congruence.
      - destruct (get_edge_weight directed g' y a) as [v|] eqn:G; auto.
        pose proof (Hmono _ _ _ G) as G0. destruct (EL _ _ _ G0) as [Ly _].
        destruct (Hin y Ly). congruence. }
    split; [|exact Hrow].
    intros x y v G. pose proof (Hmono _ _ _ G) as G0. destruct (EL _ _ _ G0) as [Lx Ly].
    rewrite !Hlv. split; split; auto.
    + intros ->. destruct (Hrow y). congruence.
    + intros ->. destruct (Hrow x). congruence.
Qed.

Theorem reused_id_clean directed cap capcheck g w i g' :
  MInv directed g -> ELive directed g -> add_node cap capcheck g w = Ok (i, g') ->
  i = next_id g /\ ~ live g i /\ live g' i /\ get_node_weight g' i = Some w /\
  MInv directed g' /\ ELive directed g' /\
  (forall y, get_edge_weight directed g' i y = None /\ get_edge_weight directed g' y i = None) /\
  (forall x y, get_edge_weight directed g' x y = get_edge_weight directed g x y) /\
  (forall j, j <> i -> (live g' j <-> live g j) /\ get_node_weight g' j = get_node_weight g j).
Proof.
  intros I EL E. destruct (add_node_spec directed cap capcheck g w I) as [Hz Hnz].
  destruct (andb capcheck (Nat.eqb (ids_len g) cap)) eqn:Z.
  - destruct (Hz eq_refl) as [_ E']. rewrite E' in E. discriminate.
  - destruct (Hnz eq_refl) as (g2 & _ & E' & Hnl & Ha & Hc & Hn & I' & Hlv & Hgnw).
    rewrite E' in E. inversion E; subst i g2; clear E.
    assert (Hget : forall x y, get_edge_weight directed g' x y = get_edge_weight directed g x y).
    { intros x y. apply get_ext; auto. }
    split; [reflexivity|]. split; [exact Hnl|]. split; [apply Hlv; auto|]. split.
    { rewrite Hgnw, Nat.eqb_refl. reflexivity. }
    split; [exact I'|]. split; [|split; [|split; [exact Hget|]]].
    + intros x y v. rewrite Hget. intros G. destruct (EL _ _ _ G) as [Lx Ly].
      rewrite !Hlv. auto.
    + intros y. rewrite !Hget. split.
      * destruct (get_edge_weight directed g (next_id g) y) as [v|] eqn:G; auto.
        destruct (EL _ _ _ G). tauto.
      * destruct (get_edge_weight directed g y (next_id g)) as [v|] eqn:G; auto.
        destruct (EL _ _ _ G). tauto.
    + intros j Hj. split.
      * rewrite Hlv. tauto.
      * rewrite Hgnw. destruct (Nat.eqb_spec j (next_id g)); [tauto|reflexivity].
Qed.

(* edge operations between live nodes keep every edge between live nodes *)
Lemma elive_set_edge directed g g' a b v :
  ELive directed g -> same_ids g g' -> (v <> None -> live g a /\ live g b) ->
  (forall x y, get_edge_weight directed g' x y =
               if same_pairb directed a b x y then v else get_edge_weight directed g x y) ->
  ELive directed g'.
Proof.
  intros EL Hids Hv Hget x y w. rewrite Hget. destruct (same_pairb directed a b x y) eqn:S.
  - intros H. assert (Hv' : v <> None) by congruence. destruct (Hv Hv') as [La Lb].
    apply same_pairb_endpoint in S.
    destruct S as [[-> ->]|[-> ->]]; split; apply (same_ids_live g g'); auto.
  - intros H. destruct (EL x y w H) as [Hx Hy].
    split; apply (same_ids_live g g'); auto.
Qed.
