(* C20e: boolean checks of SOk for concrete views, and the witness graph on which the crate used to
   return a cycle (7 edges on 6 nodes, terminals 3, 2, 5, 1). *)
From Coq Require Import Lia ZArith Bool.
From PG Require Import Lib.Io Model.View Model.Traversal Model.ShortestM Model.MstM Model.MiscM Model.SteinerM
  Spec.Partition Spec.Forest Spec.MiscSpec Spec.Paths Spec.EPaths
  Proofs.MstP Proofs.FloydP Proofs.FloydCompleteP Proofs.MiscSteinerP1 Proofs.SteinerMP1 Proofs.SteinerMP Proofs.SteinerMW.
Local Open Scope nat_scope.

Definition estep_b (v : view) (a b : nat) (w : Z) : bool :=
  existsb (fun '(_, s, t, w') =>
    orb (andb (Nat.eqb s a) (andb (Nat.eqb t b) (Z.eqb w' w)))
        (andb (negb (vdirected v)) (andb (Nat.eqb t a) (andb (Nat.eqb s b) (Z.eqb w' w))))) (verefs v).

Lemma estep_b_ok v a b w : estep_b v a b w = true <-> estep v a b w.
Proof.
  unfold estep_b, estep. rewrite existsb_exists. split.
  - intros [[[[i s] t] w'] [Hin E]]. exists i. apply orb_true_iff in E. destruct E as [E|E].
    + apply andb_true_iff in E. destruct E as [E1 E]. apply andb_true_iff in E. destruct E as [E2 E3].
      apply Nat.eqb_eq in E1. apply Nat.eqb_eq in E2. apply Z.eqb_eq in E3. subst. left. exact Hin.
    + apply andb_true_iff in E. destruct E as [E0 E]. apply andb_true_iff in E. destruct E as [E1 E].
      apply andb_true_iff in E. destruct E as [E2 E3].
      apply Nat.eqb_eq in E1. apply Nat.eqb_eq in E2. apply Z.eqb_eq in E3. apply negb_true_iff in E0. subst.
      right. split; assumption.
  - intros [i [Hin|[Hd Hin]]].
    + exists (i, a, b, w). split; [exact Hin|]. rewrite !Nat.eqb_refl, Z.eqb_refl. reflexivity.
    + exists (i, b, a, w). split; [exact Hin|]. rewrite Hd, !Nat.eqb_refl, Z.eqb_refl. cbn [negb andb]. apply orb_true_r.
Qed.

(* edge_references and out-lists describe the same steps *)
Definition erefs_b (v : view) : bool :=
  andb (forallb (fun '(_, s, t, w) =>
          andb (existsb (fun e => andb (Nat.eqb (tgt e) t) (Z.eqb (ewgt e) w)) (out_edges v s))
               (orb (vdirected v) (existsb (fun e => andb (Nat.eqb (tgt e) s) (Z.eqb (ewgt e) w)) (out_edges v t))))
        (verefs v))
       (forallb (fun al : nat * list eref => forallb (fun e => estep_b v (fst al) (tgt e) (ewgt e)) (snd al)) (vout v)).

Lemma erefs_b_ok v : erefs_b v = true -> ERefsOk v.
Proof.
  unfold erefs_b. intros H. apply andb_true_iff in H. destruct H as [H1 H2].
  rewrite forallb_forall in H1, H2. intros a b w. split.
  - intros [i [Hin|[Hd Hin]]]; specialize (H1 _ Hin); cbn beta iota in H1; apply andb_true_iff in H1; destruct H1 as [G1 G2].
    + apply existsb_exists in G1. destruct G1 as [e [He E]]. apply andb_true_iff in E. destruct E as [E1 E2].
      apply Nat.eqb_eq in E1. apply Z.eqb_eq in E2. exists e. repeat split; assumption.
    + rewrite Hd in G2. cbn [orb] in G2.
      apply existsb_exists in G2. destruct G2 as [e [He E]]. apply andb_true_iff in E. destruct E as [E1 E2].
      apply Nat.eqb_eq in E1. apply Z.eqb_eq in E2. exists e. repeat split; assumption.
  - intros [e [He [<- <-]]]. destruct (out_edges_In _ _ _ He) as [l [Hl Hel]].
    specialize (H2 _ Hl). cbn [fst snd] in H2. rewrite forallb_forall in H2. apply estep_b_ok. apply H2, Hel.
Qed.

Fixpoint ewalk_b (v : view) (a : nat) (p : list (nat * Z)) (c : nat) : bool :=
  match p with
  | [] => Nat.eqb a c
  | (b, w) :: p' => andb (estep_b v a b w) (ewalk_b v b p' c)
  end.

Lemma ewalk_b_ok v : forall p a c, ewalk_b v a p c = true -> ewalk v a p c.
Proof.
  induction p as [|[b w] p IH]; intros a c H; cbn [ewalk_b] in H.
  - apply Nat.eqb_eq in H. subst. constructor.
  - apply andb_true_iff in H. destruct H as [H1 H2]. constructor; [apply estep_b_ok, H1 | apply IH, H2].
Qed.

(* every terminal is joined to the root r, both ways, by the listed walks *)
Definition conn_b (v : view) (r : nat) (terms : list nat) (ws : list (list (nat * Z) * list (nat * Z))) : bool :=
  andb (Nat.eqb (length ws) (length terms))
       (forallb (fun '(t, (p, q)) => andb (ewalk_b v r p t) (ewalk_b v t q r)) (combine terms ws)).

Lemma conn_b_ok v r terms ws : conn_b v r terms ws = true ->
  forall s t, In s terms -> In t terms -> ereachable v s t.
Proof.
  unfold conn_b. intros H. apply andb_true_iff in H. destruct H as [Hl H]. apply Nat.eqb_eq in Hl.
  rewrite forallb_forall in H.
  assert (G : forall t, In t terms -> ereachable v r t /\ ereachable v t r).
  { intros t Ht. destruct (In_nth terms t 0 Ht) as [k [Hk Ek]].
    set (pq := nth k ws ([], [])).
    assert (Hin : In (t, pq) (combine terms ws)).
    { rewrite <- Ek. unfold pq. rewrite <- combine_nth by (symmetry; exact Hl). apply nth_In.
      rewrite combine_length. lia. }
    specialize (H _ Hin). destruct pq as [p q]. cbn beta iota in H. apply andb_true_iff in H. destruct H as [H1 H2].
    split; [exists p; apply ewalk_b_ok, H1 | exists q; apply ewalk_b_ok, H2]. }
  intros s t Hs Ht. destruct (G s Hs) as [_ [p Wp]]. destruct (G t Ht) as [[q Wq] _].
  exists (p ++ q). apply (ewalk_app Wp Wq).
Qed.

Definition sok_b (v : view) (terms : list nat) (M : Z) (r : nat) (ws : list (list (nat * Z) * list (nat * Z))) : bool :=
  andb (MstP.mok_b v) (andb (fok_b v) (andb (vok_b v) (andb (erefs_b v)
  (andb (MiscM.nodupb (map id4 (verefs v)))
  (andb (forallb (fun q : edge4 => Z.leb 0 (snd q)) (verefs v))
  (andb (ebound_b v M) (andb (Z.leb 0 M) (andb (Z.ltb (Z.of_nat (vnode_count v) * M) KMAX)
  (andb (MiscM.nodupb terms) (andb (Nat.leb 2 (length terms))
  (andb (forallb (fun t => andb (mem t (vnodes v)) (in_capb v t)) terms) (conn_b v r terms ws)))))))))))).

Lemma sok_b_ok v terms M r ws : sok_b v terms M r ws = true -> SOk v terms.
Proof.
  unfold sok_b. intros H.
  repeat (let G := fresh "G" in apply andb_true_iff in H; destruct H as [G H]).
  assert (HF : FOk v) by (apply fok_b_ok, G0).
  assert (Hnn : forall a b w, estep v a b w -> (0 <= w)%Z).
  { rewrite forallb_forall in G4. intros a b w [i [Hin|[_ Hin]]]; specialize (G4 _ Hin); cbn [snd] in G4;
      apply Z.leb_le in G4; exact G4. }
  assert (HNN : ~ eneg_cycle v).
  { intros [a [c [W Hc]]]. pose proof (ecost_nonneg v Hnn a c a W). lia. }
  apply Z.leb_le in G6. apply Z.ltb_lt in G7.
  destruct (@bounds_from_weights (- (2 * (Z.of_nat (vnode_count v) * M)))%Z KMAX v M HF HNN G6 (@ebound_b_ok v M G5) G7) as [B1 _].
  { lia. } { unfold KMAX. lia. }
  rewrite forallb_forall in G10.
  constructor.
  - apply MstP.mok_b_sound, G.
  - exact HF.
  - apply vok_b_ok, G1.
  - apply erefs_b_ok, G2.
  - apply nodupb_iff, G3.
  - exact Hnn.
  - exact B1.
  - apply nodupb_iff, G8.
  - apply Nat.leb_le, G9.
  - intros t Ht. specialize (G10 t Ht). apply andb_true_iff in G10. apply MstP.mem_In. tauto.
  - intros t Ht. specialize (G10 t Ht). apply andb_true_iff in G10. apply in_capb_ok. tauto.
  - apply (conn_b_ok v r terms ws). unfold conn_b. rewrite G11, H. reflexivity.
Qed.

(* ------------------------------------------------------------------ *)
(* the witness: 0-1 (1), 0-2 (1), 0-3 (1), 3-4 (2), 4-5 (2), 0-4 (1), 1-2 (1); terminals 3, 2, 5, 1 *)
Definition w_view : view :=
  mkView false 6 None [0; 1; 2; 3; 4; 5]
    [(0, [(0, 1, 1%Z); (1, 2, 1%Z); (2, 3, 1%Z); (5, 4, 1%Z)]);
     (1, [(0, 0, 1%Z); (6, 2, 1%Z)]);
     (2, [(1, 0, 1%Z); (6, 1, 1%Z)]);
     (3, [(2, 0, 1%Z); (3, 4, 2%Z)]);
     (4, [(3, 3, 2%Z); (4, 5, 2%Z); (5, 0, 1%Z)]);
     (5, [(4, 4, 2%Z)])]
    [] 7 7
    [(0, 0, 1, 1%Z); (1, 0, 2, 1%Z); (2, 0, 3, 1%Z); (3, 3, 4, 2%Z);
     (4, 4, 5, 2%Z); (5, 0, 4, 1%Z); (6, 1, 2, 1%Z)].
Definition w_T : list nat := [3; 2; 5; 1].

Example w_sok : SOk w_view w_T.
Proof.
  apply (sok_b_ok w_view w_T 2%Z 0
           [([(3, 1%Z)], [(0, 1%Z)]); ([(2, 1%Z)], [(0, 1%Z)]);
            ([(4, 1%Z); (5, 2%Z)], [(4, 2%Z); (0, 1%Z)]); ([(1, 1%Z)], [(0, 1%Z)])]).
  vm_compute. reflexivity.
Qed.

Example w_simple : SimpleRefs w_view.
Proof. unfold SimpleRefs. vm_compute. repeat constructor; cbn [In]; intuition congruence. Qed.

(* six minimum spanning trees of the closure, five distinct results, all of weight 6 or 7 (the optimum is 6) *)
Example w_outputs :
  metric_closure w_view w_T = Ok [(3, 2, 2%Z); (3, 5, 4%Z); (3, 1, 2%Z); (2, 5, 4%Z); (2, 1, 1%Z); (5, 1, 4%Z)] /\
  rmap (closure_msts 6 4) (metric_closure w_view w_T) = Ok
    [[(3, 2, 2%Z); (3, 5, 4%Z); (2, 1, 1%Z)]; [(3, 2, 2%Z); (2, 5, 4%Z); (2, 1, 1%Z)];
     [(3, 2, 2%Z); (2, 1, 1%Z); (5, 1, 4%Z)]; [(3, 5, 4%Z); (3, 1, 2%Z); (2, 1, 1%Z)];
     [(3, 1, 2%Z); (2, 5, 4%Z); (2, 1, 1%Z)]; [(3, 1, 2%Z); (2, 1, 1%Z); (5, 1, 4%Z)]] /\
  steiner_outputs w_view w_T = Ok
    [([0; 1; 2; 3; 4; 5], [(0, 2, 1%Z); (0, 3, 1%Z); (3, 4, 2%Z); (4, 5, 2%Z); (1, 2, 1%Z)]);
     ([0; 1; 2; 3; 4; 5], [(0, 2, 1%Z); (0, 3, 1%Z); (4, 5, 2%Z); (0, 4, 1%Z); (1, 2, 1%Z)]);
     ([0; 1; 2; 3; 4; 5], [(0, 1, 1%Z); (0, 2, 1%Z); (0, 3, 1%Z); (4, 5, 2%Z); (0, 4, 1%Z)]);
     ([0; 1; 2; 3; 4; 5], [(0, 1, 1%Z); (0, 3, 1%Z); (3, 4, 2%Z); (4, 5, 2%Z); (1, 2, 1%Z)]);
     ([0; 1; 2; 3; 4; 5], [(0, 1, 1%Z); (0, 2, 1%Z); (0, 3, 1%Z); (4, 5, 2%Z); (0, 4, 1%Z)]);
     ([0; 1; 2; 3; 4; 5], [(0, 1, 1%Z); (0, 3, 1%Z); (4, 5, 2%Z); (0, 4, 1%Z); (1, 2, 1%Z)])] /\
  steiner_opt w_view w_T = Some 6%Z.
Proof. vm_compute. repeat split; reflexivity. Qed.

(* every possible result is accepted by steiner_check and by steiner_possible *)
Example w_outputs_accepted :
  match steiner_outputs w_view w_T with
  | Ok outs => forallb (fun '(ns, es) => andb (Nat.eqb (steiner_check w_view w_T ns es) 0)
                                              (steiner_possible w_view w_T ns es)) outs
  | _ => false
  end = true.
Proof. vm_compute. reflexivity. Qed.

(* the answer of the crate before the fix: all seven edges but 0-4 ... the triangle 0-1-2 is a cycle *)
Definition w_prefix_nodes : list nat := [0; 1; 2; 3; 4; 5].
Definition w_prefix_edges : list (nat * nat * Z) :=
  [(0, 1, 1%Z); (0, 2, 1%Z); (0, 3, 1%Z); (3, 4, 2%Z); (4, 5, 2%Z); (1, 2, 1%Z)].

Example w_prefix_rejected :
  steiner_possible w_view w_T w_prefix_nodes w_prefix_edges = false /\
  steiner_check w_view w_T w_prefix_nodes w_prefix_edges = 2.
Proof. vm_compute. split; reflexivity. Qed.
