(* C07, part I1: under view_iso the abstract notions in which every algorithm theorem is
   stated correspond: steps, reachability, walks and their costs, distances, negative
   cycles, cycles, mutual reachability, two-colourability, spanning forests.
   Also: view_iso is symmetric (through an inverse of p on the nodes), and the
   well-formedness conditions that do not mention vcap / vbound transfer. *)
From Coq Require Import Permutation Lia ZArith List.
From PG Require Import Lib.Io Model.View Spec.Reach Spec.Paths Spec.AlgoSpec Spec.Partition
                       Spec.Forest Spec.ViewIso.
Set Implicit Arguments.
Unset Strict Implicit.
Local Open Scope nat_scope.   (* Spec.Paths opens Z_scope *)

(* ------------------------------------------------------------------ *)
(* Projections                                                         *)

Lemma iso_inj p v1 v2 : view_iso p v1 v2 -> inj_on p (vnodes v1).
Proof. intros H; apply H. Qed.

Lemma iso_nodes p v1 v2 : view_iso p v1 v2 ->
  forall x, In x (vnodes v2) <-> exists a, In a (vnodes v1) /\ x = p a.
Proof. intros H; apply H. Qed.

Lemma iso_out p v1 v2 : view_iso p v1 v2 -> forall a, In a (vnodes v1) ->
  Permutation (map (entry_via p) (out_edges v1 a)) (map entry (out_edges v2 (p a))).
Proof. intros H; apply H. Qed.

Lemma iso_src1 p v1 v2 : view_iso p v1 v2 -> forall a e, In e (out_edges v1 a) -> In a (vnodes v1).
Proof.
  intros H a e He. destruct (in_dec Nat.eq_dec a (vnodes v1)) as [Hin|Hout]; [exact Hin|].
  destruct H as [_ [_ [_ [H1 _]]]]. rewrite (H1 a Hout) in He. destruct He.
Qed.

Lemma iso_src2 p v1 v2 : view_iso p v1 v2 -> forall a e, In e (out_edges v2 a) -> In a (vnodes v2).
Proof.
  intros H a e He. destruct (in_dec Nat.eq_dec a (vnodes v2)) as [Hin|Hout]; [exact Hin|].
  destruct H as [_ [_ [_ [_ [H2 _]]]]]. rewrite (H2 a Hout) in He. destruct He.
Qed.

Lemma iso_tgt1 p v1 v2 : view_iso p v1 v2 ->
  forall a e, In e (out_edges v1 a) -> In (tgt e) (vnodes v1).
Proof. intros H; apply H. Qed.

Lemma iso_img p v1 v2 a : view_iso p v1 v2 -> In a (vnodes v1) -> In (p a) (vnodes v2).
Proof. intros H Ha. apply (iso_nodes H). exists a; split; [exact Ha|reflexivity]. Qed.

(* ------------------------------------------------------------------ *)
(* Entries correspond                                                  *)

Lemma iso_entry_fwd p v1 v2 a e : view_iso p v1 v2 -> In e (out_edges v1 a) ->
  exists e', In e' (out_edges v2 (p a)) /\ tgt e' = p (tgt e) /\ ewgt e' = ewgt e.
Proof.
  intros H He. pose proof (iso_src1 H He) as Ha.
  pose proof (iso_out H Ha) as HP.
  assert (Hi : In (entry_via p e) (map entry (out_edges v2 (p a)))).
  { eapply Permutation_in; [exact HP|]. apply in_map; exact He. }
  apply in_map_iff in Hi. destruct Hi as [e' [Ee Hin]].
  exists e'. split; [exact Hin|]. unfold entry, entry_via in Ee.
  injection Ee as E1 E2. split; assumption.
Qed.

Lemma iso_entry_bwd p v1 v2 a e' : view_iso p v1 v2 -> In a (vnodes v1) ->
  In e' (out_edges v2 (p a)) ->
  exists e, In e (out_edges v1 a) /\ tgt e' = p (tgt e) /\ ewgt e' = ewgt e.
Proof.
  intros H Ha He. pose proof (iso_out H Ha) as HP.
  assert (Hi : In (entry e') (map (entry_via p) (out_edges v1 a))).
  { eapply Permutation_in; [apply Permutation_sym; exact HP|]. apply in_map; exact He. }
  apply in_map_iff in Hi. destruct Hi as [e [Ee Hin]].
  exists e. split; [exact Hin|]. unfold entry, entry_via in Ee.
  injection Ee as E1 E2. split; [symmetry; exact E1|symmetry; exact E2].
Qed.

Lemma iso_closed1 p v1 v2 : view_iso p v1 v2 -> closed_view v1.
Proof. intros H a e He. split; [eapply iso_src1; eauto|eapply iso_tgt1; eauto]. Qed.

Lemma iso_closed2 p v1 v2 : view_iso p v1 v2 -> closed_view v2.
Proof.
  intros H x e' He. pose proof (iso_src2 H He) as Hx. split; [exact Hx|].
  apply (iso_nodes H) in Hx. destruct Hx as [a [Ha ->]].
  destruct (iso_entry_bwd H Ha He) as [e [Hin [Et _]]].
  rewrite Et. apply (iso_img H). eapply iso_tgt1; eauto.
Qed.

(* the number of out-entries of corresponding nodes is the same *)
Lemma iso_outdeg p v1 v2 a : view_iso p v1 v2 -> In a (vnodes v1) ->
  length (out_edges v1 a) = length (out_edges v2 (p a)).
Proof.
  intros H Ha. pose proof (Permutation_length (iso_out H Ha)) as E.
  rewrite !map_length in E. exact E.
Qed.

(* ------------------------------------------------------------------ *)
(* An inverse of p on the nodes, and symmetry of view_iso              *)

Lemma inv_on_spec p l x : (exists a, In a l /\ x = p a) ->
  In (inv_on p l x) l /\ p (inv_on p l x) = x.
Proof.
  intros [a [Ha ->]]. unfold inv_on.
  destruct (find (fun a0 => Nat.eqb (p a0) (p a)) l) as [b|] eqn:E.
  - apply find_some in E. destruct E as [Hb Eb]. apply Nat.eqb_eq in Eb. split; assumption.
  - exfalso. pose proof (find_none _ _ E a Ha) as Hn. cbv beta in Hn.
    rewrite Nat.eqb_refl in Hn. discriminate.
Qed.

Lemma inv_on_left p l a : inj_on p l -> In a l -> inv_on p l (p a) = a.
Proof.
  intros Hi Ha. destruct (@inv_on_spec p l (p a)) as [Hb Eb]; [exists a; auto|].
  apply Hi; assumption.
Qed.

Lemma iso_inv_left p v1 v2 a : view_iso p v1 v2 -> In a (vnodes v1) ->
  inv_on p (vnodes v1) (p a) = a.
Proof. intros H Ha. apply inv_on_left; [exact (iso_inj H)|exact Ha]. Qed.

Lemma iso_inv_right p v1 v2 x : view_iso p v1 v2 -> In x (vnodes v2) ->
  In (inv_on p (vnodes v1) x) (vnodes v1) /\ p (inv_on p (vnodes v1) x) = x.
Proof. intros H Hx. apply inv_on_spec. apply (iso_nodes H). exact Hx. Qed.

Theorem view_iso_sym p v1 v2 : view_iso p v1 v2 -> view_iso (inv_on p (vnodes v1)) v2 v1.
Proof.
  intros H. set (q := inv_on p (vnodes v1)).
  split; [|split; [|split; [|split; [|split]]]].
  - intros x y Hx Hy E.
    destruct (iso_inv_right H Hx) as [_ Ex]. destruct (iso_inv_right H Hy) as [_ Ey].
    fold q in Ex, Ey. rewrite <- Ex, <- Ey, E. reflexivity.
  - intros a. split.
    + intros Ha. exists (p a). split; [apply (iso_img H Ha)|].
      unfold q. symmetry. apply (iso_inv_left H Ha).
    + intros [x [Hx ->]]. apply (iso_inv_right H Hx).
  - intros x Hx. destruct (iso_inv_right H Hx) as [Ha Ex]. fold q in Ha, Ex.
    pose proof (iso_out H Ha) as HP. rewrite Ex in HP.
    apply Permutation_sym in HP.
    apply (Permutation_map (fun tw : nat * Z => (q (fst tw), snd tw))) in HP.
    rewrite !map_map in HP.
    erewrite (map_ext_in _ entry (out_edges v1 (q x))) in HP.
    + exact HP.
    + intros e He. unfold entry_via, entry. cbn [fst snd].
      unfold q. rewrite (iso_inv_left H (iso_tgt1 H He)). reflexivity.
  - intros x Hx. destruct H as [_ [_ [_ [_ [H2 _]]]]]. apply H2; exact Hx.
  - intros a Ha. destruct H as [_ [_ [_ [H1 _]]]]. apply H1; exact Ha.
  - intros x e He. apply (iso_closed2 H He).
Qed.

(* view_iso from its first three clauses and closedness of both views *)
Lemma view_iso_intro p v1 v2 :
  inj_on p (vnodes v1) ->
  (forall x, In x (vnodes v2) <-> exists a, In a (vnodes v1) /\ x = p a) ->
  (forall a, In a (vnodes v1) ->
     Permutation (map (entry_via p) (out_edges v1 a)) (map entry (out_edges v2 (p a)))) ->
  closed_view v1 -> closed_view v2 -> view_iso p v1 v2.
Proof.
  intros Hi Hn Ho C1 C2. split; [exact Hi|]. split; [exact Hn|]. split; [exact Ho|].
  split; [|split].
  - intros a Ha. destruct (out_edges v1 a) as [|e t] eqn:E; [reflexivity|].
    exfalso; apply Ha. apply (C1 a e). rewrite E. left; reflexivity.
  - intros a Ha. destruct (out_edges v2 a) as [|e t] eqn:E; [reflexivity|].
    exfalso; apply Ha. apply (C2 a e). rewrite E. left; reflexivity.
  - intros a e He. apply (C1 a e He).
Qed.

(* Reach.VOk and Paths.BOk each give closedness *)
Lemma closed_of_nodes_ok v : nodes_ok v -> closed_view v.
Proof.
  intros Hn a e He. apply (Hn a (tgt e)). unfold neighbors. apply in_map. exact He.
Qed.

Lemma closed_of_VOk v : Reach.VOk v -> closed_view v.
Proof. intros [_ [Hn _]]. apply closed_of_nodes_ok; exact Hn. Qed.

Lemma closed_of_BOk v : BOk v -> closed_view v.
Proof.
  intros HB a e He. split.
  - apply (bok_src HB). intros E. rewrite E in He. destruct He.
  - apply (bok_tgt HB _ _ He).
Qed.

Lemma closed_step v a b : closed_view v -> step v a b -> In a (vnodes v) /\ In b (vnodes v).
Proof.
  intros C Hs. unfold step, neighbors in Hs. apply in_map_iff in Hs.
  destruct Hs as [e [<- He]]. apply (C a e He).
Qed.

Lemma closed_reachable v a b : closed_view v -> In a (vnodes v) -> Reach.reachable v a b ->
  In b (vnodes v).
Proof.
  intros C Ha R. induction R as [|x y Rx IH Hxy]; [exact Ha|].
  apply (closed_step C Hxy).
Qed.

Lemma closed_walk v a c b : closed_view v -> In a (vnodes v) -> walk v a c b -> In b (vnodes v).
Proof.
  intros C Ha W. induction W as [a | a e c b He W IH]; [exact Ha|].
  apply IH. apply (C a e He).
Qed.

(* ------------------------------------------------------------------ *)
(* I1: steps and reachability (Spec.Reach)                              *)

Lemma step_iso_fwd p v1 v2 a b : view_iso p v1 v2 -> step v1 a b -> step v2 (p a) (p b).
Proof.
  intros H Hs. unfold step, neighbors in *. apply in_map_iff in Hs.
  destruct Hs as [e [<- He]]. destruct (iso_entry_fwd H He) as [e' [Hin [Et _]]].
  rewrite <- Et. apply in_map. exact Hin.
Qed.

Lemma step_iso_bwd p v1 v2 a b : view_iso p v1 v2 -> In a (vnodes v1) -> In b (vnodes v1) ->
  step v2 (p a) (p b) -> step v1 a b.
Proof.
  intros H Ha Hb Hs. apply (step_iso_fwd (view_iso_sym H)) in Hs.
  rewrite (iso_inv_left H Ha), (iso_inv_left H Hb) in Hs. exact Hs.
Qed.

Theorem step_iso p v1 v2 a b : view_iso p v1 v2 -> In a (vnodes v1) -> In b (vnodes v1) ->
  (step v1 a b <-> step v2 (p a) (p b)).
Proof. intros H Ha Hb. split; [apply step_iso_fwd; exact H|apply step_iso_bwd; assumption]. Qed.

Lemma reachable_iso_fwd p v1 v2 a b : view_iso p v1 v2 ->
  Reach.reachable v1 a b -> Reach.reachable v2 (p a) (p b).
Proof.
  intros H R. induction R as [|x y Rx IH Hxy]; [apply reach_refl|].
  eapply reach_step; [exact IH|]. apply (step_iso_fwd H Hxy).
Qed.

Lemma reachable_iso_bwd p v1 v2 a b : view_iso p v1 v2 -> In a (vnodes v1) -> In b (vnodes v1) ->
  Reach.reachable v2 (p a) (p b) -> Reach.reachable v1 a b.
Proof.
  intros H Ha Hb R. apply (reachable_iso_fwd (view_iso_sym H)) in R.
  rewrite (iso_inv_left H Ha), (iso_inv_left H Hb) in R. exact R.
Qed.

Theorem reachable_iso p v1 v2 a b : view_iso p v1 v2 -> In a (vnodes v1) -> In b (vnodes v1) ->
  (Reach.reachable v1 a b <-> Reach.reachable v2 (p a) (p b)).
Proof.
  intros H Ha Hb. split; [apply reachable_iso_fwd; exact H|apply reachable_iso_bwd; assumption].
Qed.

(* k-step paths and hop distance *)
Lemma path_iso_fwd p v1 v2 a b k : view_iso p v1 v2 -> path v1 a b k -> path v2 (p a) (p b) k.
Proof.
  intros H P. induction P as [|x y k Px IH Hxy]; [apply path_0|].
  eapply path_S; [exact IH|]. apply (step_iso_fwd H Hxy).
Qed.

Theorem hopdist_iso p v1 v2 a b k : view_iso p v1 v2 -> In a (vnodes v1) -> In b (vnodes v1) ->
  (hopdist v1 a b k <-> hopdist v2 (p a) (p b) k).
Proof.
  intros H Ha Hb.
  assert (Hb' : forall j, path v2 (p a) (p b) j -> path v1 a b j).
  { intros j P. apply (path_iso_fwd (view_iso_sym H)) in P.
    rewrite (iso_inv_left H Ha), (iso_inv_left H Hb) in P. exact P. }
  split; intros [P M]; split.
  - apply (path_iso_fwd H P).
  - intros j Pj. apply M, Hb', Pj.
  - apply Hb', P.
  - intros j Pj. apply M. apply (path_iso_fwd H Pj).
Qed.

(* ------------------------------------------------------------------ *)
(* I1: cycles, mutual reachability, two-colourability                   *)

Lemma on_cycle_iso_fwd p v1 v2 c : view_iso p v1 v2 -> on_cycle v1 c -> on_cycle v2 (p c).
Proof.
  intros H [c' [Hs R]]. exists (p c'). split; [apply (step_iso_fwd H Hs)|apply (reachable_iso_fwd H R)].
Qed.

Lemma on_cycle_node v c : closed_view v -> on_cycle v c -> In c (vnodes v).
Proof. intros C [c' [Hs _]]. apply (closed_step C Hs). Qed.

Theorem on_cycle_iso p v1 v2 c : view_iso p v1 v2 -> In c (vnodes v1) ->
  (on_cycle v1 c <-> on_cycle v2 (p c)).
Proof.
  intros H Hc. split; [apply on_cycle_iso_fwd; exact H|].
  intros Hcyc. apply (on_cycle_iso_fwd (view_iso_sym H)) in Hcyc.
  rewrite (iso_inv_left H Hc) in Hcyc. exact Hcyc.
Qed.

Theorem acyclic_iso p v1 v2 : view_iso p v1 v2 -> (acyclic v1 <-> acyclic v2).
Proof.
  intros H. split; intros Ha c Hc.
  - apply (Ha _ (on_cycle_iso_fwd (view_iso_sym H) Hc)).
  - apply (Ha _ (on_cycle_iso_fwd H Hc)).
Qed.

Theorem some_cycle_iso p v1 v2 : view_iso p v1 v2 ->
  ((exists n, In n (vnodes v1) /\ on_cycle v1 n) <-> (exists n, In n (vnodes v2) /\ on_cycle v2 n)).
Proof.
  intros H. split; intros [n [Hn Hc]].
  - exists (p n). split; [apply (iso_img H Hn)|apply (on_cycle_iso_fwd H Hc)].
  - exists (inv_on p (vnodes v1) n). split; [apply (iso_inv_right H Hn)|].
    apply (on_cycle_iso_fwd (view_iso_sym H) Hc).
Qed.

Theorem mutual_iso p v1 v2 a b : view_iso p v1 v2 -> In a (vnodes v1) -> In b (vnodes v1) ->
  (mutual v1 a b <-> mutual v2 (p a) (p b)).
Proof.
  intros H Ha Hb. unfold mutual.
  rewrite (reachable_iso H Ha Hb), (reachable_iso H Hb Ha). reflexivity.
Qed.

Lemma two_colourable_iso_fwd p v1 v2 s : view_iso p v1 v2 -> In s (vnodes v1) ->
  two_colourable v1 s -> two_colourable v2 (p s).
Proof.
  intros H Hs [c Hc]. set (q := inv_on p (vnodes v1)).
  exists (fun x => c (q x)). intros a b R St.
  pose proof (closed_reachable (iso_closed2 H) (iso_img H Hs) R) as Ha.
  apply (Hc (q a) (q b)).
  - apply (reachable_iso_fwd (view_iso_sym H)) in R. fold q in R.
    unfold q in R at 1. rewrite (iso_inv_left H Hs) in R. exact R.
  - apply (step_iso_fwd (view_iso_sym H) St).
Qed.

Theorem two_colourable_iso p v1 v2 s : view_iso p v1 v2 -> In s (vnodes v1) ->
  (two_colourable v1 s <-> two_colourable v2 (p s)).
Proof.
  intros H Hs. split; [apply two_colourable_iso_fwd; assumption|].
  intros T. apply (two_colourable_iso_fwd (view_iso_sym H) (iso_img H Hs)) in T.
  rewrite (iso_inv_left H Hs) in T. exact T.
Qed.

(* ------------------------------------------------------------------ *)
(* I1: walks, costs, distances, negative cycles (Spec.Paths)            *)

Lemma walk_iso_fwd p v1 v2 a c b : view_iso p v1 v2 -> walk v1 a c b ->
  exists c', walk v2 (p a) c' (p b) /\ walk_cost c' = walk_cost c /\ length c' = length c.
Proof.
  intros H W. induction W as [a | a e c b He W [c' [W' [Ec El]]]].
  - exists []. split; [constructor|split; reflexivity].
  - destruct (iso_entry_fwd H He) as [e' [Hin [Et Ew]]].
    exists (e' :: c'). split; [|split].
    + constructor; [exact Hin|]. rewrite Et. exact W'.
    + cbn [walk_cost]. rewrite Ew, Ec. reflexivity.
    + cbn [length]. rewrite El. reflexivity.
Qed.

Lemma walk_iso_bwd p v1 v2 a c' b : view_iso p v1 v2 -> In a (vnodes v1) -> In b (vnodes v1) ->
  walk v2 (p a) c' (p b) ->
  exists c, walk v1 a c b /\ walk_cost c = walk_cost c' /\ length c = length c'.
Proof.
  intros H Ha Hb W. destruct (walk_iso_fwd (view_iso_sym H) W) as [c [Wc E]].
  rewrite (iso_inv_left H Ha), (iso_inv_left H Hb) in Wc. exists c. split; assumption.
Qed.

Theorem preachable_iso p v1 v2 a b : view_iso p v1 v2 -> In a (vnodes v1) -> In b (vnodes v1) ->
  (Paths.reachable v1 a b <-> Paths.reachable v2 (p a) (p b)).
Proof.
  intros H Ha Hb. split; intros [c W].
  - destruct (walk_iso_fwd H W) as [c' [W' _]]. exists c'; exact W'.
  - destruct (walk_iso_bwd H Ha Hb W) as [c' [W' _]]. exists c'; exact W'.
Qed.

Lemma is_dist_iso_fwd p v1 v2 s x d : view_iso p v1 v2 -> In s (vnodes v1) -> In x (vnodes v1) ->
  is_dist v1 s x d -> is_dist v2 (p s) (p x) d.
Proof.
  intros H Hs Hx [[c [W Ec]] Hmin]. split.
  - destruct (walk_iso_fwd H W) as [c' [W' [Ec' _]]]. exists c'. split; [exact W'|].
    rewrite Ec'. exact Ec.
  - intros c' W'. destruct (walk_iso_bwd H Hs Hx W') as [c0 [W0 [E0 _]]].
    rewrite <- E0. apply Hmin. exact W0.
Qed.

Theorem is_dist_iso p v1 v2 s x d : view_iso p v1 v2 -> In s (vnodes v1) -> In x (vnodes v1) ->
  (is_dist v1 s x d <-> is_dist v2 (p s) (p x) d).
Proof.
  intros H Hs Hx. split; [apply is_dist_iso_fwd; assumption|].
  intros D. apply (is_dist_iso_fwd (view_iso_sym H) (iso_img H Hs) (iso_img H Hx)) in D.
  rewrite (iso_inv_left H Hs), (iso_inv_left H Hx) in D. exact D.
Qed.

Lemma neg_cycle_iso_fwd p v1 v2 s : view_iso p v1 v2 ->
  neg_cycle_reachable v1 s -> neg_cycle_reachable v2 (p s).
Proof.
  intros H [a [c [cy [W [Wc Hneg]]]]].
  destruct (walk_iso_fwd H W) as [c' [W' _]].
  destruct (walk_iso_fwd H Wc) as [cy' [Wc' [Ec _]]].
  exists (p a), c', cy'. split; [exact W'|]. split; [exact Wc'|]. rewrite Ec. exact Hneg.
Qed.

Theorem neg_cycle_iso p v1 v2 s : view_iso p v1 v2 -> In s (vnodes v1) ->
  (neg_cycle_reachable v1 s <-> neg_cycle_reachable v2 (p s)).
Proof.
  intros H Hs. split; [apply neg_cycle_iso_fwd; exact H|].
  intros N. apply (neg_cycle_iso_fwd (view_iso_sym H)) in N.
  rewrite (iso_inv_left H Hs) in N. exact N.
Qed.

(* non-negativity of the costs is a property of the abstract graph *)
Theorem nonneg_iso p v1 v2 : view_iso p v1 v2 -> (nonneg v1 <-> nonneg v2).
Proof.
  intros H. split; intros Hn a e He.
  - destruct (iso_entry_fwd (view_iso_sym H) He) as [e' [Hin [_ Ew]]].
    rewrite <- Ew. apply (Hn _ _ Hin).
  - destruct (iso_entry_fwd H He) as [e' [Hin [_ Ew]]].
    rewrite <- Ew. apply (Hn _ _ Hin).
Qed.

(* the two walk vocabularies agree on reachability *)
Lemma reachable_walk v a b : Reach.reachable v a b <-> Paths.reachable v a b.
Proof.
  split.
  - intros R. induction R as [|x y Rx [c W] Hxy].
    + exists []. constructor.
    + unfold step, neighbors in Hxy. apply in_map_iff in Hxy. destruct Hxy as [e [<- He]].
      exists (c ++ [e]). eapply walk_snoc; eassumption.
  - intros [c W]. induction W as [a | a e c b He W IH]; [apply reach_refl|].
    eapply reachable_left; [|exact IH]. unfold step, neighbors. apply in_map. exact He.
Qed.

(* ------------------------------------------------------------------ *)
(* The clause on target nodes cannot be dropped: with it removed, these two views would be
   related by p = (fun _ => 0) (injective on the one node), and the second has a cycle
   while the first has none.                                            *)

Definition cx1 : view := mkView true 1 (Some 1) [0] [(0, [(0, 5, 0%Z)])] [] 1 1 [].
Definition cx2 : view := mkView true 1 (Some 1) [0] [(0, [(0, 0, 0%Z)])] [] 1 1 [].

Example iso_needs_closed_targets :
  let p := fun _ : nat => 0 in
  inj_on p (vnodes cx1) /\
  (forall x, In x (vnodes cx2) <-> exists a, In a (vnodes cx1) /\ x = p a) /\
  (forall a, In a (vnodes cx1) ->
     Permutation (map (entry_via p) (out_edges cx1 a)) (map entry (out_edges cx2 (p a)))) /\
  (forall a, ~ In a (vnodes cx1) -> out_edges cx1 a = []) /\
  (forall x, ~ In x (vnodes cx2) -> out_edges cx2 x = []) /\
  acyclic cx1 /\ ~ acyclic cx2.
Proof.
  cbv zeta. split; [|split; [|split; [|split; [|split; [|split]]]]].
  - intros a b [<-|[]] [<-|[]] _. reflexivity.
  - intros x. cbn [cx1 cx2 vnodes In]. split.
    + intros [<-|[]]. exists 0. auto.
    + intros [a [_ ->]]. left; reflexivity.
  - intros a [<-|[]]. vm_compute. apply Permutation_refl.
  - intros a Ha. destruct a as [|a]; [exfalso; apply Ha; left; reflexivity|reflexivity].
  - intros a Ha. destruct a as [|a]; [exfalso; apply Ha; left; reflexivity|reflexivity].
  - intros c [c' [Hs R]].
    assert (E : c = 0 /\ c' = 5).
    { destruct c as [|c]; [|destruct Hs]. destruct Hs as [<-|[]]. auto. }
    destruct E as [-> ->]. inversion R as [|x y Rx Hxy].
    clear -Rx Hxy. induction Rx as [|x' y' Rx' IH Hx'y'].
    + destruct Hxy.
    + destruct x' as [|x']; [|destruct Hx'y']. destruct Hx'y' as [<-|[]]. destruct Hxy.
  - intros Ha. apply (Ha 0). exists 0. split; [left; reflexivity|apply reach_refl].
Qed.

(* ------------------------------------------------------------------ *)
(* view_iso gives nodes_iso; the inverse of a nodes_iso                 *)

Lemma view_iso_nodes_iso p v1 v2 : view_iso p v1 v2 -> nodes_iso p v1 v2.
Proof. intros H. split; [exact (iso_inj H)|exact (iso_nodes H)]. Qed.

Lemma nodes_iso_img p v1 v2 a : nodes_iso p v1 v2 -> In a (vnodes v1) -> In (p a) (vnodes v2).
Proof. intros [_ Hn] Ha. apply Hn. exists a; split; [exact Ha|reflexivity]. Qed.

Lemma nodes_iso_inv_left p v1 v2 a : nodes_iso p v1 v2 -> In a (vnodes v1) ->
  inv_on p (vnodes v1) (p a) = a.
Proof. intros [Hi _] Ha. apply inv_on_left; assumption. Qed.

Lemma nodes_iso_inv_right p v1 v2 x : nodes_iso p v1 v2 -> In x (vnodes v2) ->
  In (inv_on p (vnodes v1) x) (vnodes v1) /\ p (inv_on p (vnodes v1) x) = x.
Proof. intros [_ Hn] Hx. apply inv_on_spec. apply Hn. exact Hx. Qed.

Lemma nodes_iso_sym p v1 v2 : nodes_iso p v1 v2 -> nodes_iso (inv_on p (vnodes v1)) v2 v1.
Proof.
  intros H. set (q := inv_on p (vnodes v1)). split.
  - intros x y Hx Hy E.
    destruct (nodes_iso_inv_right H Hx) as [_ Ex]. destruct (nodes_iso_inv_right H Hy) as [_ Ey].
    fold q in Ex, Ey. rewrite <- Ex, <- Ey, E. reflexivity.
  - intros a. split.
    + intros Ha. exists (p a). split; [apply (nodes_iso_img H Ha)|].
      unfold q. symmetry. apply (nodes_iso_inv_left H Ha).
    + intros [x [Hx ->]]. apply (nodes_iso_inv_right H Hx).
Qed.

Lemma NoDup_map_inj_on (p : nat -> nat) l l' : inj_on p l' -> incl l l' -> NoDup l -> NoDup (map p l).
Proof.
  intros Hi Hs Hnd. induction Hnd as [|a t Ha Ht IH]; cbn [map]; constructor.
  - intros Hin. apply in_map_iff in Hin. destruct Hin as [b [Eb Hb]]. apply Ha.
    assert (E : b = a); [|rewrite <- E; exact Hb].
    apply Hi; [apply Hs; right; exact Hb|apply Hs; left; reflexivity|exact Eb].
  - apply IH. intros x Hx. apply Hs. right; exact Hx.
Qed.

(* the number of nodes is the same when neither node list repeats a node *)
Lemma nodes_iso_count p v1 v2 : nodes_iso p v1 v2 -> NoDup (vnodes v1) -> NoDup (vnodes v2) ->
  length (vnodes v1) = length (vnodes v2).
Proof.
  intros [Hi Hn] N1 N2. rewrite <- (map_length p (vnodes v1)). apply Permutation_length.
  apply Permutation_sym. apply NoDup_Permutation; [exact N2| |].
  - apply (NoDup_map_inj_on Hi (fun x Hx => Hx) N1).
  - intros y. rewrite Hn, in_map_iff. split.
    + intros [a [Ha ->]]. exists a. split; [reflexivity|exact Ha].
    + intros [a [<- Ha]]. exists a. split; [exact Ha|reflexivity].
Qed.

(* ------------------------------------------------------------------ *)
(* I1 for Spec.Forest: undirected connectivity, forests, spanning forests  *)

Definition pair_via (f : nat -> nat) (ab : nat * nat) : nat * nat := (f (fst ab), f (snd ab)).

Lemma conn_map f prs x y : conn prs x y -> conn (map (pair_via f) prs) (f x) (f y).
Proof.
  intros C. induction C as [x | x y Hin | x y C IH | x y z C1 IH1 C2 IH2].
  - apply c_refl.
  - apply c_base. apply (in_map (pair_via f)) in Hin. exact Hin.
  - apply c_sym; exact IH.
  - eapply c_trans; eauto.
Qed.

Lemma conn_sub prs prs' x y : (forall a b, In (a, b) prs -> conn prs' a b) ->
  conn prs x y -> conn prs' x y.
Proof.
  intros Hs C. induction C as [x | x y Hin | x y C IH | x y z C1 IH1 C2 IH2].
  - apply c_refl.
  - apply Hs; exact Hin.
  - apply c_sym; exact IH.
  - eapply c_trans; eauto.
Qed.

Lemma ends_triple_via p F : ends (map (triple_via p) F) = map (pair_via p) (ends F).
Proof.
  unfold ends. rewrite !map_map. apply map_ext. intros [[a b] w]. reflexivity.
Qed.

Lemma weight_triple_via p F : weight (map (triple_via p) F) = weight F.
Proof.
  unfold weight. f_equal. rewrite map_map. apply map_ext. intros [[a b] w]. reflexivity.
Qed.

(* the same edge, possibly with its endpoints reported in the other order *)
Definition flip_eq (t t' : nat * nat * Z) : Prop :=
  t' = t \/ t' = (snd (fst t), fst (fst t), snd t).

Lemma unord_flip_eq t t' : unord t = unord t' -> flip_eq t t'.
Proof.
  destruct t as [[a b] w], t' as [[a' b'] w']. unfold unord, flip_eq. cbn [fst snd].
  intros E. injection E as E1 E2 E3. subst w'.
  destruct (Nat.le_gt_cases a b) as [L|L], (Nat.le_gt_cases a' b') as [L'|L'].
  - left. f_equal. f_equal; lia.
  - right. f_equal. f_equal; lia.
  - right. f_equal. f_equal; lia.
  - left. f_equal. f_equal; lia.
Qed.

Lemma unord_via_unord f t : unord (triple_via f (unord t)) = unord (triple_via f t).
Proof.
  destruct t as [[a b] w]. unfold unord, triple_via.
  destruct (Nat.le_gt_cases a b) as [L|L].
  - rewrite (Nat.min_l a b), (Nat.max_r a b) by lia. reflexivity.
  - rewrite (Nat.min_r a b), (Nat.max_l a b) by lia.
    rewrite (Nat.min_comm (f b)), (Nat.max_comm (f b)). reflexivity.
Qed.

(* an oriented correspondence is in particular an unoriented one *)
Lemma erefs_iso_unord p v1 v2 : view_iso_erefs p v1 v2 -> view_iso_erefs_u p v1 v2.
Proof.
  unfold view_iso_erefs, view_iso_erefs_u. intros HP.
  apply (Permutation_map unord) in HP. rewrite map_map in HP. exact HP.
Qed.

Definition ends_in_nodes (v : view) : Prop :=
  forall a b w, In (a, b, w) (gedges v) -> In a (vnodes v) /\ In b (vnodes v).

Lemma MOk_ends_in_nodes v : MOk v -> ends_in_nodes v.
Proof.
  intros [_ [_ He]] a b w Hin. unfold gedges in Hin. apply in_map_iff in Hin.
  destruct Hin as [[[[i a'] b'] w'] [E Hin]]. injection E as -> -> ->. apply (He i a b w Hin).
Qed.

Lemma erefs_iso_u_sym p v1 v2 : nodes_iso p v1 v2 -> ends_in_nodes v1 ->
  view_iso_erefs_u p v1 v2 -> view_iso_erefs_u (inv_on p (vnodes v1)) v2 v1.
Proof.
  unfold view_iso_erefs_u. intros Hn He HP. set (q := inv_on p (vnodes v1)).
  apply Permutation_sym in HP.
  apply (Permutation_map (fun t => unord (triple_via q t))) in HP.
  rewrite !map_map in HP.
  erewrite (map_ext _ (fun t => unord (triple_via q t))) in HP
    by (intros t; apply unord_via_unord).
  erewrite (map_ext_in _ unord (gedges v1)) in HP; [exact HP|].
  intros [[a b] w] Hin. rewrite unord_via_unord. destruct (He a b w Hin) as [Ha Hb].
  unfold triple_via, q. rewrite (nodes_iso_inv_left Hn Ha), (nodes_iso_inv_left Hn Hb). reflexivity.
Qed.

Lemma erefs_iso_sym p v1 v2 : nodes_iso p v1 v2 -> ends_in_nodes v1 ->
  view_iso_erefs p v1 v2 -> view_iso_erefs (inv_on p (vnodes v1)) v2 v1.
Proof.
  unfold view_iso_erefs. intros Hn He HP. set (q := inv_on p (vnodes v1)).
  apply Permutation_sym in HP. apply (Permutation_map (triple_via q)) in HP.
  rewrite map_map in HP.
  erewrite (map_ext_in _ (fun t => t) (gedges v1)) in HP; [rewrite map_id in HP; exact HP|].
  intros [[a b] w] Hin. destruct (He a b w Hin) as [Ha Hb].
  unfold triple_via, q. rewrite (nodes_iso_inv_left Hn Ha), (nodes_iso_inv_left Hn Hb). reflexivity.
Qed.

(* flips do not change connectivity *)
Definition pflip (ab ab' : nat * nat) : Prop := ab' = ab \/ ab' = (snd ab, fst ab).

Lemma flip_eq_ends F F' : Forall2 flip_eq F F' ->
  Forall2 pflip (ends F) (ends F') /\ map snd F = map snd F'.
Proof.
  intros HF. induction HF as [|t t' F F' Ht HF [IH1 IH2]]; [split; [constructor|reflexivity]|].
  destruct t as [[a b] w]. unfold ends in *. cbn [map]. split.
  - constructor; [|exact IH1]. destruct Ht as [-> | ->]; [left|right]; reflexivity.
  - f_equal; [|exact IH2]. destruct Ht as [-> | ->]; reflexivity.
Qed.

Lemma pflip_sub es es' a b : Forall2 pflip es es' -> In (a, b) es -> conn es' a b.
Proof.
  intros HF. induction HF as [|ab ab' es es' Hf HF IH]; intros Hin; [destruct Hin|].
  destruct Hin as [->|Hin].
  - destruct Hf as [-> | ->]; cbn [fst snd].
    + apply c_base. left; reflexivity.
    + apply c_sym, c_base. left; reflexivity.
  - apply (@conn_sub es' (ab' :: es')); [|apply IH; exact Hin].
    intros c d Hcd. apply c_base. right; exact Hcd.
Qed.

Lemma pflip_sym_list es es' : Forall2 pflip es es' -> Forall2 pflip es' es.
Proof.
  intros HF. induction HF as [|ab ab' es es' Hf HF IH]; constructor; [|exact IH].
  destruct ab as [a b]. destruct Hf as [-> | ->]; [left; reflexivity|right; reflexivity].
Qed.

Lemma conn_flip es es' x y : Forall2 pflip es es' -> (conn es x y <-> conn es' x y).
Proof.
  intros HF. split; apply conn_sub; intros a b Hin.
  - apply (pflip_sub HF Hin).
  - apply (pflip_sub (pflip_sym_list HF) Hin).
Qed.

Lemma conn_cons_equiv prev prev' ab ab' :
  (forall x y, conn prev x y <-> conn prev' x y) -> pflip ab ab' ->
  forall x y, conn (ab :: prev) x y <-> conn (ab' :: prev') x y.
Proof.
  intros He Hf x y. destruct ab as [a b].
  assert (S1 : forall es es' (c d : nat), (forall x y, conn es x y -> conn es' x y) ->
             forall cd cd', pflip cd cd' -> In (c, d) (cd :: es) -> conn (cd' :: es') c d).
  { intros es es' c d Hsub cd cd' Hp [->|Hin].
    - destruct Hp as [-> | ->]; cbn [fst snd]; [apply c_base|apply c_sym, c_base]; left; reflexivity.
    - apply (@conn_sub es' (cd' :: es')); [|apply Hsub, c_base, Hin].
      intros c' d' Hcd. apply c_base. right; exact Hcd. }
  split; apply conn_sub; intros c d Hin.
  - apply (S1 prev prev' c d (fun x y => proj1 (He x y)) (a, b) ab' Hf Hin).
  - apply (S1 prev' prev c d (fun x y => proj2 (He x y)) ab' (a, b)); [|exact Hin].
    destruct Hf as [-> | ->]; [left|right]; reflexivity.
Qed.

Lemma acyclic_from_flip es es' : Forall2 pflip es es' -> forall prev prev',
  (forall x y, conn prev x y <-> conn prev' x y) ->
  acyclic_from prev es -> acyclic_from prev' es'.
Proof.
  intros HF. induction HF as [|ab ab' es es' Hf HF IH]; intros prev prev' He Ha; [exact I|].
  destruct ab as [a b], ab' as [a' b']. cbn [acyclic_from] in *. destruct Ha as [Hn Ha]. split.
  - intros C. apply Hn. apply He. unfold uconn in *.
    destruct Hf as [E|E]; cbn [fst snd] in E; injection E as -> ->; [exact C|apply c_sym; exact C].
  - apply (IH ((a, b) :: prev)); [|exact Ha]. apply conn_cons_equiv; assumption.
Qed.

(* an injective renaming keeps a forest a forest *)
Lemma acyclic_from_map p q es : forall prev,
  (forall a b, In (a, b) (prev ++ es) -> q (p a) = a /\ q (p b) = b) ->
  acyclic_from prev es -> acyclic_from (map (pair_via p) prev) (map (pair_via p) es).
Proof.
  induction es as [|[a b] t IH]; intros prev Hq Ha; [exact I|].
  cbn [map] in *. change (pair_via p (a, b)) with (p a, p b).
  cbn [acyclic_from] in *. destruct Ha as [Hn Ha]. split.
  - intros C. apply Hn. unfold uconn in *. apply (conn_map q) in C.
    rewrite map_map in C.
    destruct (Hq a b) as [Ea Eb]; [apply in_or_app; right; left; reflexivity|].
    rewrite Ea, Eb in C.
    erewrite (map_ext_in _ (fun ab => ab)) in C; [rewrite map_id in C; exact C|].
    intros [c d] Hcd. unfold pair_via. cbn [fst snd].
    destruct (Hq c d) as [Ec Ed]; [apply in_or_app; left; exact Hcd|]. rewrite Ec, Ed. reflexivity.
  - change ((p a, p b) :: map (pair_via p) prev) with (map (pair_via p) ((a, b) :: prev)).
    apply IH; [|exact Ha]. intros c d Hcd. apply Hq.
    cbn [app] in Hcd. destruct Hcd as [E|Hcd].
    + apply in_or_app. right. left. exact E.
    + apply in_app_or in Hcd. apply in_or_app. destruct Hcd as [Hcd|Hcd]; [left|right; right]; exact Hcd.
Qed.

(* every edge reference of v1 has a counterpart in v2, up to orientation *)
Lemma erefs_u_counterpart p v1 v2 t : view_iso_erefs_u p v1 v2 -> In t (gedges v1) ->
  exists t', In t' (gedges v2) /\ flip_eq (triple_via p t) t'.
Proof.
  intros HP Hin.
  assert (Hi : In (unord (triple_via p t)) (map unord (gedges v2))).
  { eapply Permutation_in; [exact HP|]. apply (in_map (fun t => unord (triple_via p t))). exact Hin. }
  apply in_map_iff in Hi. destruct Hi as [t' [E Hin']].
  exists t'. split; [exact Hin'|]. apply unord_flip_eq. symmetry; exact E.
Qed.

Lemma erefs_u_counterpart_back p v1 v2 t' : view_iso_erefs_u p v1 v2 -> In t' (gedges v2) ->
  exists t, In t (gedges v1) /\ flip_eq (triple_via p t) t'.
Proof.
  intros HP Hin.
  assert (Hi : In (unord t') (map (fun t => unord (triple_via p t)) (gedges v1))).
  { eapply Permutation_in; [apply Permutation_sym; exact HP|]. apply in_map. exact Hin. }
  apply in_map_iff in Hi. destruct Hi as [t [E Hin']].
  exists t. split; [exact Hin'|]. apply unord_flip_eq. exact E.
Qed.

Lemma forest_counterpart p v1 v2 F : view_iso_erefs_u p v1 v2 -> incl F (gedges v1) ->
  exists F', Forall2 flip_eq (map (triple_via p) F) F' /\ incl F' (gedges v2).
Proof.
  intros HP. induction F as [|t F IH]; intros Hs.
  - exists []. split; [constructor|intros x []].
  - destruct IH as [F' [HF Hi]]; [intros x Hx; apply Hs; right; exact Hx|].
    destruct (erefs_u_counterpart HP (Hs t (or_introl eq_refl))) as [t' [Hin Hf]].
    exists (t' :: F'). split; [constructor; assumption|].
    intros x [<-|Hx]; [exact Hin|apply Hi; exact Hx].
Qed.

Lemma Forall2_len {A B} (R : A -> B -> Prop) l l' : Forall2 R l l' -> length l = length l'.
Proof. induction 1; cbn [length]; congruence. Qed.

(* a spanning forest of one view gives one of the other view, of the same weight and size *)
Theorem spanning_forest_transfer p v1 v2 F : nodes_iso p v1 v2 -> ends_in_nodes v1 ->
  view_iso_erefs_u p v1 v2 -> spanning_forest v1 F ->
  exists F', spanning_forest v2 F' /\ weight F' = weight F /\ length F' = length F.
Proof.
  intros Hn He HP [Hincl [Hac Hsp]].
  destruct (forest_counterpart HP Hincl) as [F' [HF Hi']].
  destruct (flip_eq_ends HF) as [Hpf Hw].
  rewrite ends_triple_via in Hpf.
  exists F'. split; [split; [exact Hi'|split]|split].
  - (* acyclic *)
    unfold acyclic_edges in *.
    apply (acyclic_from_flip Hpf (prev := []) (prev' := [])); [intros x y; reflexivity|].
    apply (@acyclic_from_map p (inv_on p (vnodes v1)) (ends F) []); [|exact Hac].
    intros a b Hab. cbn [app] in Hab. unfold ends in Hab. apply in_map_iff in Hab.
    destruct Hab as [[[a' b'] w] [E Hin]]. cbn [fst] in E. injection E as -> ->.
    destruct (He a b w (Hincl _ Hin)) as [Ha Hb].
    split; apply (nodes_iso_inv_left Hn); assumption.
  - (* spanning *)
    intros x y. unfold uconn. split; apply conn_sub; intros a b Hab.
    + apply c_base. unfold ends in *. apply in_map_iff in Hab. destruct Hab as [t [E Hin]].
      apply in_map_iff. exists t. split; [exact E|apply Hi'; exact Hin].
    + unfold ends in Hab. apply in_map_iff in Hab. destruct Hab as [t' [E Hin]].
      destruct (erefs_u_counterpart_back HP Hin) as [[[a1 b1] w1] [Hin1 Hf]].
      assert (C1 : conn (ends F) a1 b1).
      { apply Hsp. apply c_base. unfold ends. apply in_map_iff. exists (a1, b1, w1). split; [reflexivity|exact Hin1]. }
      apply (conn_map p) in C1. apply (proj1 (conn_flip _ _ Hpf)) in C1.
      unfold triple_via in Hf. destruct Hf as [->| ->]; cbn [fst snd] in E; injection E as <- <-.
      * exact C1.
      * apply c_sym; exact C1.
  - unfold weight. rewrite <- Hw. fold (weight (map (triple_via p) F)). apply weight_triple_via.
  - rewrite <- (Forall2_len HF). apply map_length.
Qed.

(* ------------------------------------------------------------------ *)
(* I5: a renumbering of a view (with holes, any index width) is isomorphic to it and
   inherits every well-formedness condition                             *)

Lemma assoc_relabel {A} (f : nat -> A) (p : nat -> nat) l0 a : inj_on p l0 -> In a l0 ->
  forall l, incl l l0 -> In a l -> assoc_nat (map (fun b => (p b, f b)) l) (p a) = Some (f a).
Proof.
  intros Hi Ha0 l. induction l as [|b t IH]; intros Hs Ha; [destruct Ha|].
  cbn [map assoc_nat]. destruct (Nat.eqb_spec (p b) (p a)) as [E|Hne].
  - assert (Eb : b = a) by (apply Hi; [apply Hs; left; reflexivity|exact Ha0|exact E]).
    rewrite Eb. reflexivity.
  - apply IH; [intros x Hx; apply Hs; right; exact Hx|].
    destruct Ha as [->|Ha]; [congruence|exact Ha].
Qed.

Lemma assoc_relabel_none {A} (f : nat -> A) (p : nat -> nat) l x : ~ In x (map p l) ->
  assoc_nat (map (fun b => (p b, f b)) l) x = None.
Proof.
  induction l as [|b t IH]; intros Hx; [reflexivity|].
  cbn [map assoc_nat]. destruct (Nat.eqb_spec (p b) x) as [E|Hne].
  - exfalso; apply Hx. left; exact E.
  - apply IH. intros Hin; apply Hx. right; exact Hin.
Qed.

Lemma out_edges_relabel p v a : inj_on p (vnodes v) -> In a (vnodes v) ->
  out_edges (relabel p v) (p a) = map (relabel_eref p) (out_edges v a).
Proof.
  intros Hi Ha. unfold out_edges at 1. unfold relabel. cbn [vout].
  rewrite (@assoc_relabel _ (fun b => map (relabel_eref p) (out_edges v b)) p (vnodes v) a Hi Ha
             (vnodes v) (fun x Hx => Hx) Ha). reflexivity.
Qed.

Lemma out_edges_relabel_none p v x : ~ In x (map p (vnodes v)) -> out_edges (relabel p v) x = [].
Proof.
  intros Hx. unfold out_edges, relabel. cbn [vout]. rewrite assoc_relabel_none; [reflexivity|exact Hx].
Qed.

Lemma in_edges_relabel p v a : inj_on p (vnodes v) -> In a (vnodes v) ->
  in_edges (relabel p v) (p a) = map (relabel_eref p) (in_edges v a).
Proof.
  intros Hi Ha. unfold in_edges at 1. unfold relabel. cbn [vin].
  rewrite (@assoc_relabel _ (fun b => map (relabel_eref p) (in_edges v b)) p (vnodes v) a Hi Ha
             (vnodes v) (fun x Hx => Hx) Ha). reflexivity.
Qed.

Lemma relabel_nodes p v : vnodes (relabel p v) = map p (vnodes v).
Proof. reflexivity. Qed.

Lemma relabel_bound p v : vbound (relabel p v) = S (list_max (map p (vnodes v))).
Proof. reflexivity. Qed.

Lemma relabel_cap p v : vcap (relabel p v) = Some (S (list_max (map p (vnodes v)))).
Proof. reflexivity. Qed.

Lemma relabel_below p v x : In x (map p (vnodes v)) -> x < S (list_max (map p (vnodes v))).
Proof.
  intros Hx. pose proof (proj1 (list_max_le (map p (vnodes v)) _) (le_n _)) as HF.
  rewrite Forall_forall in HF. specialize (HF x Hx). lia.
Qed.

Lemma relabel_closed p v : inj_on p (vnodes v) -> closed_view v -> closed_view (relabel p v).
Proof.
  intros Hi C x e' He. rewrite relabel_nodes.
  destruct (in_dec Nat.eq_dec x (map p (vnodes v))) as [Hx|Hx];
    [|rewrite (out_edges_relabel_none Hx) in He; destruct He].
  split; [exact Hx|]. apply in_map_iff in Hx. destruct Hx as [a [<- Ha]].
  rewrite (out_edges_relabel Hi Ha) in He. apply in_map_iff in He. destruct He as [e [<- He]].
  change (tgt (relabel_eref p e)) with (p (tgt e)). apply in_map. apply (C a e He).
Qed.

Theorem view_iso_relabel p v : inj_on p (vnodes v) -> closed_view v -> view_iso p v (relabel p v).
Proof.
  intros Hi C. apply view_iso_intro; [exact Hi| | |exact C|apply relabel_closed; assumption].
  - intros x. rewrite relabel_nodes, in_map_iff. split.
    + intros [a [<- Ha]]. exists a. split; [exact Ha|reflexivity].
    + intros [a [Ha ->]]. exists a. split; [reflexivity|exact Ha].
  - intros a Ha. rewrite (out_edges_relabel Hi Ha), map_map.
    apply Permutation_refl.
Qed.

Theorem view_iso_in_relabel p v : inj_on p (vnodes v) -> view_iso_in p v (relabel p v).
Proof.
  intros Hi a Ha. rewrite (in_edges_relabel Hi Ha), map_map. apply Permutation_refl.
Qed.

Lemma gedges_relabel p v : gedges (relabel p v) = map (triple_via p) (gedges v).
Proof.
  unfold gedges, relabel. cbn [verefs]. rewrite !map_map. apply map_ext.
  intros [[[i a] b] w]. reflexivity.
Qed.

Theorem view_iso_erefs_relabel p v : view_iso_erefs p v (relabel p v).
Proof. unfold view_iso_erefs. rewrite gedges_relabel. apply Permutation_refl. Qed.

(* Spec.Reach.VOk *)
Theorem relabel_VOk p v : inj_on p (vnodes v) -> Reach.VOk v -> Reach.VOk (relabel p v).
Proof.
  intros Hi V. pose proof (closed_of_VOk V) as C. pose proof (relabel_closed Hi C) as C'.
  destruct V as [_ [Hno Hio]].
  assert (Hcap : forall x, In x (map p (vnodes v)) -> Reach.in_cap (relabel p v) x).
  { intros x Hx. unfold Reach.in_cap. rewrite relabel_cap. apply (relabel_below Hx). }
  split; [split|split].
  - intros a b Hb. apply Hcap. apply (closed_step C' Hb).
  - intros a Ha. apply Hcap. exact Ha.
  - intros a b Hb. apply (closed_step C' Hb).
  - intros a' b' Hb'. rewrite relabel_nodes in Hb'. apply in_map_iff in Hb'.
    destruct Hb' as [b [<- Hb]].
    unfold neighbors_in. rewrite (in_edges_relabel Hi Hb), map_map.
    change (map (fun x => tgt (relabel_eref p x)) (in_edges v b)) with (map (fun x => p (tgt x)) (in_edges v b)).
    rewrite <- (map_map tgt p). fold (neighbors_in v b). split.
    + intros Ha'. apply in_map_iff in Ha'. destruct Ha' as [a [<- Ha]].
      apply (Hio a b Hb) in Ha. destruct (Hno a b Ha) as [Han _].
      unfold neighbors. rewrite (out_edges_relabel Hi Han), map_map.
      change (map (fun x => tgt (relabel_eref p x)) (out_edges v a)) with (map (fun x => p (tgt x)) (out_edges v a)).
      rewrite <- (map_map tgt p). apply in_map. exact Ha.
    + intros Hs. destruct (closed_step C' Hs) as [Ha' _]. rewrite relabel_nodes in Ha'.
      apply in_map_iff in Ha'. destruct Ha' as [a [<- Ha]].
      unfold step, neighbors in Hs. rewrite (out_edges_relabel Hi Ha), map_map in Hs.
      apply in_map_iff in Hs. destruct Hs as [e [Ee He]]. cbn [relabel_eref tgt fst snd] in Ee.
      assert (Eb : tgt e = b).
      { apply Hi; [apply (C a e He)|exact Hb|exact Ee]. }
      apply in_map. apply (Hio a b Hb). unfold neighbors. rewrite <- Eb. apply in_map. exact He.
Qed.

(* Spec.Paths.VOk; the targets must be nodes for them to fit the new visit map *)
Theorem relabel_PVOk p v : inj_on p (vnodes v) -> closed_view v -> Paths.VOk (relabel p v).
Proof.
  intros Hi C. pose proof (relabel_closed Hi C) as C'. constructor.
  - intros a e He. unfold Paths.in_cap. rewrite relabel_cap. apply relabel_below.
    apply (C' a e He).
  - intros a Hne. destruct (out_edges (relabel p v) a) as [|e t] eqn:E; [congruence|].
    apply (C' a e). rewrite E. left; reflexivity.
Qed.

Theorem relabel_BOk p v : inj_on p (vnodes v) -> BOk v -> BOk (relabel p v).
Proof.
  intros Hi B. pose proof (closed_of_BOk B) as C. pose proof (relabel_closed Hi C) as C'. constructor.
  - rewrite relabel_nodes. apply (NoDup_map_inj_on Hi (fun x Hx => Hx) (bok_nodup B)).
  - intros a Ha. rewrite relabel_bound. apply relabel_below. exact Ha.
  - intros a Hne. destruct (out_edges (relabel p v) a) as [|e t] eqn:E; [congruence|].
    apply (C' a e). rewrite E. left; reflexivity.
  - intros a e He. apply (C' a e He).
Qed.

Theorem relabel_MOk p v : inj_on p (vnodes v) -> MOk v -> MOk (relabel p v).
Proof.
  intros Hi [Nd [_ He]]. split; [|split].
  - rewrite relabel_nodes. apply (NoDup_map_inj_on Hi (fun x Hx => Hx) Nd).
  - intros a Ha. rewrite relabel_bound. apply relabel_below. exact Ha.
  - intros i a' b' w Hin. unfold relabel in Hin. cbn [verefs] in Hin. apply in_map_iff in Hin.
    destruct Hin as [[[[i0 a] b] w0] [E Hin]]. injection E as -> <- <- ->.
    destruct (He _ _ _ _ Hin) as [Ha Hb]. rewrite relabel_nodes. split; apply in_map; assumption.
Qed.

(* the side conditions of tarjan_scc and k_shortest_path *)
Lemma relabel_nodes_below p v : forall n, In n (vnodes (relabel p v)) -> n < vbound (relabel p v).
Proof. intros n Hn. rewrite relabel_bound. apply relabel_below. exact Hn. Qed.

Lemma relabel_node_count p v : length (vnodes (relabel p v)) = length (vnodes v).
Proof. rewrite relabel_nodes. apply map_length. Qed.

Lemma relabel_targets_below p v : inj_on p (vnodes v) -> closed_view v ->
  forall a e, In e (out_edges (relabel p v) a) -> tgt e < vbound (relabel p v).
Proof.
  intros Hi C a e He. apply relabel_nodes_below. apply (relabel_closed Hi C He).
Qed.

(* ------------------------------------------------------------------ *)
(* A boolean check of view_iso, for concrete pairs of views             *)

Definition entry_eqb (x y : nat * Z) : bool := Nat.eqb (fst x) (fst y) && Z.eqb (snd x) (snd y).

Fixpoint remove1 (x : nat * Z) (l : list (nat * Z)) : option (list (nat * Z)) :=
  match l with
  | [] => None
  | y :: t => if entry_eqb x y then Some t else option_map (cons y) (remove1 x t)
  end.

Fixpoint perm_b (l1 l2 : list (nat * Z)) : bool :=
  match l1 with
  | [] => match l2 with [] => true | _ => false end
  | x :: t => match remove1 x l2 with Some l2' => perm_b t l2' | None => false end
  end.

Definition closed_b (v : view) : bool :=
  forallb (fun al : nat * list eref =>
             memb (fst al) (vnodes v) && forallb (fun e => memb (tgt e) (vnodes v)) (snd al)) (vout v).

Definition view_iso_b (p : nat -> nat) (v1 v2 : view) : bool :=
  forallb (fun a => forallb (fun b => implb (Nat.eqb (p a) (p b)) (Nat.eqb a b)) (vnodes v1)) (vnodes v1)
  && forallb (fun x => memb x (map p (vnodes v1))) (vnodes v2)
  && forallb (fun a => memb (p a) (vnodes v2)) (vnodes v1)
  && forallb (fun a => perm_b (map (entry_via p) (out_edges v1 a)) (map entry (out_edges v2 (p a)))) (vnodes v1)
  && closed_b v1 && closed_b v2.

Lemma entry_eqb_eq x y : entry_eqb x y = true -> x = y.
Proof.
  destruct x as [a w], y as [b u]. unfold entry_eqb. cbn [fst snd]. intros H.
  apply andb_prop in H. destruct H as [H1 H2]. apply Nat.eqb_eq in H1. apply Z.eqb_eq in H2. congruence.
Qed.

Lemma remove1_perm x l l' : remove1 x l = Some l' -> Permutation l (x :: l').
Proof.
  revert l'. induction l as [|y t IH]; intros l' H; cbn [remove1] in H; [discriminate|].
  destruct (entry_eqb x y) eqn:E.
  - injection H as <-. apply entry_eqb_eq in E. subst y. apply Permutation_refl.
  - destruct (remove1 x t) as [t'|]; [|discriminate]. cbn [option_map] in H. injection H as <-.
    eapply perm_trans; [apply perm_skip, (IH t' eq_refl)|]. apply perm_swap.
Qed.

Lemma perm_b_ok l1 : forall l2, perm_b l1 l2 = true -> Permutation l1 l2.
Proof.
  induction l1 as [|x t IH]; intros l2 H; cbn [perm_b] in H.
  - destruct l2; [apply perm_nil|discriminate].
  - destruct (remove1 x l2) as [l2'|] eqn:E; [|discriminate].
    apply Permutation_sym. eapply perm_trans; [apply (remove1_perm E)|].
    apply perm_skip. apply Permutation_sym. apply IH. exact H.
Qed.

Lemma closed_b_ok v : closed_b v = true -> closed_view v.
Proof.
  unfold closed_b. rewrite forallb_forall. intros H a e He.
  destruct (out_edges_In _ _ _ He) as [l [Hl Hel]].
  pose proof (H _ Hl) as Hal. cbn [fst snd] in Hal. apply andb_prop in Hal. destruct Hal as [Hm Hf].
  rewrite forallb_forall in Hf. split; apply memb_In; [exact Hm|apply Hf; exact Hel].
Qed.

Theorem view_iso_b_ok p v1 v2 : view_iso_b p v1 v2 = true -> view_iso p v1 v2.
Proof.
  unfold view_iso_b. intros H.
  apply andb_prop in H. destruct H as [H C2]. apply andb_prop in H. destruct H as [H C1].
  apply andb_prop in H. destruct H as [H Hp]. apply andb_prop in H. destruct H as [H Hn1].
  apply andb_prop in H. destruct H as [Hi Hn2].
  rewrite forallb_forall in Hi, Hn2, Hn1, Hp.
  apply view_iso_intro; [| | |apply closed_b_ok; exact C1|apply closed_b_ok; exact C2].
  - intros a b Ha Hb E. specialize (Hi a Ha). rewrite forallb_forall in Hi. specialize (Hi b Hb).
    rewrite E, Nat.eqb_refl in Hi. cbn [implb] in Hi. apply Nat.eqb_eq. exact Hi.
  - intros x. split.
    + intros Hx. apply Hn2 in Hx. apply memb_In in Hx. apply in_map_iff in Hx.
      destruct Hx as [a [<- Ha]]. exists a. split; [exact Ha|reflexivity].
    + intros [a [Ha ->]]. apply memb_In. apply Hn1. exact Ha.
  - intros a Ha. apply perm_b_ok. apply Hp. exact Ha.
Qed.

(* and of the two edge_references correspondences *)
Definition triple_eqb (x y : nat * nat * Z) : bool :=
  Nat.eqb (fst (fst x)) (fst (fst y)) && Nat.eqb (snd (fst x)) (snd (fst y)) && Z.eqb (snd x) (snd y).

Fixpoint remove1t (x : nat * nat * Z) (l : list (nat * nat * Z)) : option (list (nat * nat * Z)) :=
  match l with
  | [] => None
  | y :: t => if triple_eqb x y then Some t else option_map (cons y) (remove1t x t)
  end.

Fixpoint permt_b (l1 l2 : list (nat * nat * Z)) : bool :=
  match l1 with
  | [] => match l2 with [] => true | _ => false end
  | x :: t => match remove1t x l2 with Some l2' => permt_b t l2' | None => false end
  end.

Lemma triple_eqb_eq x y : triple_eqb x y = true -> x = y.
Proof.
  destruct x as [[a b] w], y as [[c d] u]. unfold triple_eqb. cbn [fst snd]. intros H.
  apply andb_prop in H. destruct H as [H H3]. apply andb_prop in H. destruct H as [H1 H2].
  apply Nat.eqb_eq in H1. apply Nat.eqb_eq in H2. apply Z.eqb_eq in H3. congruence.
Qed.

Lemma remove1t_perm x l l' : remove1t x l = Some l' -> Permutation l (x :: l').
Proof.
  revert l'. induction l as [|y t IH]; intros l' H; cbn [remove1t] in H; [discriminate|].
  destruct (triple_eqb x y) eqn:E.
  - injection H as <-. apply triple_eqb_eq in E. subst y. apply Permutation_refl.
  - destruct (remove1t x t) as [t'|]; [|discriminate]. cbn [option_map] in H. injection H as <-.
    eapply perm_trans; [apply perm_skip, (IH t' eq_refl)|]. apply perm_swap.
Qed.

Lemma permt_b_ok l1 : forall l2, permt_b l1 l2 = true -> Permutation l1 l2.
Proof.
  induction l1 as [|x t IH]; intros l2 H; cbn [permt_b] in H.
  - destruct l2; [apply perm_nil|discriminate].
  - destruct (remove1t x l2) as [l2'|] eqn:E; [|discriminate].
    apply Permutation_sym. eapply perm_trans; [apply (remove1t_perm E)|].
    apply perm_skip. apply Permutation_sym. apply IH. exact H.
Qed.

Definition view_iso_erefs_b (p : nat -> nat) (v1 v2 : view) : bool :=
  permt_b (map (triple_via p) (gedges v1)) (gedges v2).
Definition view_iso_erefs_u_b (p : nat -> nat) (v1 v2 : view) : bool :=
  permt_b (map (fun t => unord (triple_via p t)) (gedges v1)) (map unord (gedges v2)).

Lemma view_iso_erefs_b_ok p v1 v2 : view_iso_erefs_b p v1 v2 = true -> view_iso_erefs p v1 v2.
Proof. apply permt_b_ok. Qed.

Lemma view_iso_erefs_u_b_ok p v1 v2 : view_iso_erefs_u_b p v1 v2 = true -> view_iso_erefs_u p v1 v2.
Proof. apply permt_b_ok. Qed.
