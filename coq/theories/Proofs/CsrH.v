(* Histories: the invariant and the refinement hold after any number of
   operations, and every operation returns what the abstract graph prescribes. *)
From PG Require Import Lib.ListExtra Lib.Io Model.CsrM Spec.CsrSpec Proofs.CsrSearch Proofs.CsrP Proofs.CsrR.
Set Implicit Arguments.

Lemma run_cons d g o rest :
  run d g (o :: rest) = snd (step d g o) :: run d (fst (step d g o)) rest.
Proof. cbn [run]. destruct (step d g o); reflexivity. Qed.

Lemma final_cons d g o rest : final d g (o :: rest) = final d (fst (step d g o)) rest.
Proof. reflexivity. Qed.

Lemma final_app d g ops1 ops2 : final d g (ops1 ++ ops2) = final d (final d g ops1) ops2.
Proof. unfold final. apply fold_left_app. Qed.

(* ------------------------------------------------------------------ *)
(* one step                                                            *)

Lemma step_inv d g o : fst o <> 8 -> CInv g -> CInv (fst (step d g o)).
Proof.
  intros H8 I. destruct o as [code a]. cbn [fst] in H8. unfold step.
  destruct code as [|[|[|[|[|[|[|[|[|c]]]]]]]]]; try exact I; try congruence.
  - destruct (add_node_ok (arg a 0) I) as [g' [E [I' _]]]. rewrite E. exact I'.
  - destruct (try_add_edge_total d (arg a 0) (arg a 1) (arg a 2) I) as [r [g' [E [I' _]]]].
    rewrite E. exact I'.
  - destruct (try_add_edge_total d (arg a 0) (arg a 1) (arg a 2) I) as [r [g' [E [I' _]]]].
    rewrite E. destruct r; exact I'.
  - apply clear_edges_inv; auto.
Qed.

Lemma step_refines d g s o : fst o <> 8 -> CInv g -> Rep d g s ->
  CInv (fst (step d g o)) /\ Rep d (fst (step d g o)) (spec_step d s o) /\
  hd (TAG_PANIC, []) (snd (step d g o)) = spec_out d s o.
Proof.
  intros H8 I R. pose proof R as [Hwf [Hnc [Hnw [Hrows Hec]]]].
  destruct o as [code a]. cbn [fst] in H8. unfold step, spec_step, spec_out.
  assert (Q : forall b,
     (arg a 0 < node_count g /\
      neighbors_slice g (arg a 0) = Ok (spec_neighbors d s (arg a 0)) /\
      edges_slice g (arg a 0) = Ok (spec_weights d s (arg a 0)) /\
      out_degree g (arg a 0) = Ok (spec_out_degree d s (arg a 0)) /\
      contains_edge g (arg a 0) b = Ok (spec_contains d s (arg a 0) b)) \/
     (arg a 0 = node_count g /\
      neighbors_slice g (arg a 0) = Ok [] /\ edges_slice g (arg a 0) = Ok [] /\
      out_degree g (arg a 0) = Ok 0 /\ contains_edge g (arg a 0) b = Ok false) \/
     (node_count g < arg a 0 /\
      neighbors_slice g (arg a 0) = Panic /\ edges_slice g (arg a 0) = Panic /\
      out_degree g (arg a 0) = Panic /\ contains_edge g (arg a 0) b = Panic)).
  { intros b. destruct (Nat.lt_trichotomy (arg a 0) (node_count g)) as [L|[E|L]].
    - left. destruct (rep_queries I R L) as [Q1 [Q2 [Q3 Q4]]]. splits; auto.
    - right; left. rewrite E. destruct (queries_at_n b I) as [Q1 [Q2 [Q3 Q4]]]. splits; auto.
    - right; right. destruct (queries_oob b I L) as [Q1 [Q2 [Q3 Q4]]]. splits; auto. }
  rewrite <- Hnc.
  destruct code as [|[|[|[|[|[|[|[|[|c]]]]]]]]]; try congruence.
  - destruct (add_node_refines (arg a 0) I R) as [g' [E [I' R']]]. rewrite E.
    cbn [fst snd hd spec_add_node] in *. rewrite <- Hnc. auto.
  - destruct (try_add_edge_refines (arg a 0) (arg a 1) (arg a 2) I R) as [g' [E [I' [R' _]]]].
    rewrite E. cbn [fst snd hd]. auto.
  - destruct (try_add_edge_refines (arg a 0) (arg a 1) (arg a 2) I R) as [g' [E [I' [R' _]]]].
    rewrite E. destruct (fst (spec_try_add_edge d s (arg a 0) (arg a 1) (arg a 2))); cbn [fst snd hd]; auto.
  - destruct (clear_edges_refines I R) as [I' R']. cbn [fst snd hd]. auto.
  - cbn [fst snd hd]. splits; auto.
    destruct (Q (arg a 1)) as [[L [_ [_ [_ E]]]]|[[L [_ [_ [_ E]]]]|[L [_ [_ [_ E]]]]]]; rewrite E; cbn [rline];
      bcases; try lia; reflexivity.
  - cbn [fst snd hd]. splits; auto.
    destruct (Q 0) as [[L [_ [_ [E _]]]]|[[L [_ [_ [E _]]]]|[L [_ [_ [E _]]]]]]; rewrite E; cbn [rline];
      bcases; try lia; reflexivity.
  - cbn [fst snd hd]. splits; auto.
    destruct (Q 0) as [[L [E _]]|[[L [E _]]|[L [E _]]]]; rewrite E; cbn [rline];
      bcases; try lia; try reflexivity. rewrite L. reflexivity.
  - cbn [fst snd hd]. splits; auto.
    destruct (Q 0) as [[L [_ [E _]]]|[[L [_ [E _]]]|[L [_ [E _]]]]]; rewrite E; cbn [rline];
      bcases; try lia; try reflexivity. rewrite L. reflexivity.
  - cbn [fst snd hd]. auto.
Qed.

(* ------------------------------------------------------------------ *)
(* histories                                                           *)

Theorem history_inv d ops : incremental ops -> forall g, CInv g -> CInv (final d g ops).
Proof.
  induction 1 as [|o rest Ho Hrest IH]; intros g I; [exact I|].
  rewrite final_cons. apply IH. apply step_inv; auto.
Qed.

Theorem history_refines d ops : incremental ops -> forall g s, CInv g -> Rep d g s ->
  CInv (final d g ops) /\ Rep d (final d g ops) (spec_final d s ops) /\
  map (hd (TAG_PANIC, [])) (run d g ops) = spec_outs d s ops.
Proof.
  induction 1 as [|o rest Ho Hrest IH]; intros g s I R; [cbn; auto|].
  destruct (step_refines o Ho I R) as [I' [R' Hout]].
  rewrite final_cons, run_cons. cbn [map spec_outs].
  change (spec_final d s (o :: rest)) with (spec_final d (spec_step d s o) rest).
  destruct (IH _ _ I' R') as [I2 [R2 Hout2]]. splits; auto. rewrite Hout, Hout2. reflexivity.
Qed.

(* [final] is the state from which the model's [run] performs the next operation *)
Lemma run_nth d ops1 : forall g o ops2,
  nth_error (run d g (ops1 ++ o :: ops2)) (length ops1) = Some (snd (step d (final d g ops1) o)).
Proof.
  induction ops1 as [|o1 rest IH]; intros g o ops2; cbn [app length]; rewrite run_cons; cbn [nth_error].
  - reflexivity.
  - rewrite final_cons. apply IH.
Qed.

(* ------------------------------------------------------------------ *)
(* The complete output: edge_references and the observation battery    *)

Lemma skipn_nth {A} (l : list A) : forall i x, nth_error l i = Some x -> skipn i l = x :: skipn (S i) l.
Proof.
  induction l as [|h t IH]; intros [|i] x H; cbn [nth_error] in H; try discriminate.
  - inversion H; reflexivity.
  - cbn [skipn]. rewrite (IH _ _ H). reflexivity.
Qed.

Lemma erefs_loop_rep d g s : CInv g -> Rep d g s -> forall k src idx,
  src + k = node_count g ->
  erefs_loop d g (skipn src (row g)) src idx = Ok (spec_erefs d s (seq src k) idx).
Proof.
  intros I R. pose proof (node_count_inv I) as Hn. pose proof (ci_len_row I) as Hl.
  induction k as [|k IH]; intros src idx Hk.
  - assert (src = node_count g) by lia. subst src.
    destruct (@nth_error_lt_Some _ (row g) (node_count g)) as [x Hx]; try lia.
    rewrite (skipn_nth _ _ Hx), skipn_all2 by lia. reflexivity.
  - assert (Ha : src < node_count g) by lia.
    destruct (row_view I Ha) as [s0 [e0 [Hs0 [He0 [Hse [Hel [_ [N [W _]]]]]]]]].
    destruct (rep_queries I R Ha) as [N' [W' _]].
    assert (Ets : seg (column g) s0 e0 = spec_neighbors d s src) by congruence.
    assert (Ews : seg (cedges g) s0 e0 = spec_weights d s src) by congruence.
    rewrite (skipn_nth _ _ Hs0).
    assert (HR : skipn (S src) (row g) = e0 :: skipn (S (S src)) (row g)) by (apply skipn_nth; auto).
    assert (Hunf : forall R', erefs_loop d g (s0 :: e0 :: R') src idx =
              rbind (slice (column g) s0 e0) (fun ts =>
              rbind (slice (cedges g) s0 e0) (fun ws =>
              rmap (fun tl => zip3 (negb d) idx src ts ws ++ tl)
                   (erefs_loop d g (e0 :: R') (S src) (idx + length ts))))) by reflexivity.
    rewrite HR, Hunf, <- HR.
    rewrite !slice_ok by (try rewrite (ci_cedges I); auto). cbn [rbind].
    rewrite IH by lia. cbn [rmap seq spec_erefs]. rewrite Ets, Ews. reflexivity.
Qed.

Lemma battery_rep d g s : CInv g -> Rep d g s -> battery d g = spec_battery d s.
Proof.
  intros I R. pose proof R as [Hwf [Hnc [Hnw [Hrows Hec]]]].
  unfold battery, spec_battery.
  pose proof (@erefs_loop_rep d g s I R (node_count g) 0 0 eq_refl) as E. cbn [skipn] in E.
  rewrite E, Hec, Hnw, <- Hnc. cbn [rline]. do 3 f_equal.
  rewrite !flat_map_concat_map. f_equal. apply map_ext_in. intros a Ha. apply in_seq in Ha.
  destruct (@rep_queries d g s a I R) as [N [W _]]; try lia.
  rewrite N, W. reflexivity.
Qed.

Lemma step_shape d g o : CInv g -> fst o <> 8 ->
  snd (step d g o) =
  if Nat.leb (fst o) 3
  then hd (TAG_PANIC, []) (snd (step d g o)) :: battery d (fst (step d g o))
  else [hd (TAG_PANIC, []) (snd (step d g o))].
Proof.
  intros I H8. destruct o as [code a]. cbn [fst] in *. unfold step.
  destruct code as [|[|[|[|[|[|[|[|[|c]]]]]]]]]; try reflexivity; try congruence.
  - destruct (add_node_ok (arg a 0) I) as [g' [E _]]. rewrite E. reflexivity.
  - destruct (try_add_edge_total d (arg a 0) (arg a 1) (arg a 2) I) as [r [g' [E _]]].
    rewrite E. reflexivity.
  - destruct (try_add_edge_total d (arg a 0) (arg a 1) (arg a 2) I) as [r [g' [E _]]].
    rewrite E. destruct r; reflexivity.
Qed.

Lemma step_block d g s o : fst o <> 8 -> CInv g -> Rep d g s ->
  snd (step d g o) = spec_block d s o.
Proof.
  intros H8 I R. destruct (step_refines o H8 I R) as [I' [R' Hout]].
  rewrite (step_shape d o I H8). unfold spec_block.
  rewrite Hout, (battery_rep I' R'). reflexivity.
Qed.

(* the model prints exactly what the abstract graph prescribes, block by block *)
Theorem history_run d ops : incremental ops -> forall g s, CInv g -> Rep d g s ->
  run d g ops = spec_run d s ops.
Proof.
  induction 1 as [|o rest Ho Hrest IH]; intros g s I R; [reflexivity|].
  destruct (step_refines o Ho I R) as [I' [R' _]].
  rewrite run_cons. cbn [spec_run]. rewrite (step_block o Ho I R), (IH _ _ I' R'). reflexivity.
Qed.
