(* C06 / T2-T5: the adaptors of Model/FullView.v (Reversed, NodeFiltered, EdgeFiltered, Frozen,
   UndirectedAdaptor) against the specification of Spec/ViewSpec.v. *)
From Coq Require Import Permutation.
From PG Require Import Lib.Io Model.FullView Spec.ViewSpec Proofs.FullViewP.

Ltac fvs :=
  cbn [f_directed f_bound f_vcap f_ecount f_ebound f_ncount f_compact f_ids_ok f_has_in f_has_adj
       f_nodes f_nrefs f_out f_in f_nb f_nbin f_erefs f_adj] in *.

(* ---------- association tables ---------- *)

Lemma assoc_mapv {A B} (g : A -> B) (l : list (nat * A)) a :
  assoc (mapv g l) a = option_map g (assoc l a).
Proof.
  unfold mapv. induction l as [|[k x] t IH]; cbn [map assoc]; [reflexivity|].
  destruct (k =? a); [reflexivity | exact IH].
Qed.

Lemma assocl_mapv {A B} (g : list A -> list B) (l : list (nat * list A)) a :
  g [] = [] -> assocl (mapv g l) a = g (assocl l a).
Proof.
  intro Hg. unfold assocl. rewrite assoc_mapv.
  destruct (assoc l a); cbn [option_map]; [reflexivity | symmetry; exact Hg].
Qed.

Lemma assoc_tab {A} (F : nat -> A) (l : list nat) a :
  assoc (map (fun x => (x, F x)) l) a = if memn a l then Some (F a) else None.
Proof.
  induction l as [|h t IH]; cbn [map assoc memn]; [reflexivity|].
  destruct (Nat.eqb_spec h a) as [->|Hne]; cbn [orb]; [reflexivity | exact IH].
Qed.

Lemma assocl_tab {A} (F : nat -> list A) (l : list nat) a :
  In a l -> assocl (map (fun x => (x, F x)) l) a = F a.
Proof.
  intro H. unfold assocl. rewrite assoc_tab. apply memn_In in H. rewrite H. reflexivity.
Qed.

Lemma assocl_tab_gen {A} (F : nat -> list A) (l : list nat) a :
  assocl (map (fun x => (x, F x)) l) a = if memn a l then F a else [].
Proof. unfold assocl. rewrite assoc_tab. destruct (memn a l); reflexivity. Qed.

Lemma assocl_in_key {A} (l : list (nat * list A)) a x : In x (assocl l a) -> In a (map fst l).
Proof.
  unfold assocl. induction l as [|[k v] t IH]; cbn [assoc map fst In]; [intros []|].
  destruct (Nat.eqb_spec k a) as [E|E]; [left; exact E | right; apply IH; assumption].
Qed.

Lemma map_fst_mapv {A B} (g : A -> B) (l : list (nat * A)) : map fst (mapv g l) = map fst l.
Proof. unfold mapv. rewrite map_map. apply map_ext. intros [k x]. reflexivity. Qed.

Lemma map_fst_tab {A} (F : nat -> A) (l : list nat) : map fst (map (fun x => (x, F x)) l) = l.
Proof. induction l as [|h t IH]; cbn [map fst]; [reflexivity | rewrite IH; reflexivity]. Qed.

Lemma mapv_mapv_id {A} (g : A -> A) (l : list (nat * A)) :
  (forall x, g (g x) = x) -> mapv g (mapv g l) = l.
Proof.
  intro Hg. unfold mapv. induction l as [|[k x] t IH]; cbn [map]; [reflexivity|].
  rewrite Hg, IH. reflexivity.
Qed.

Lemma map_flip_flip l : map q_flip (map q_flip l) = l.
Proof.
  rewrite map_map. rewrite <- (map_id l) at 2. apply map_ext. intro q. apply q_flip_flip.
Qed.

(* ---------- lists ---------- *)

Lemma Permutation_filter {A} (p : A -> bool) l1 l2 :
  Permutation l1 l2 -> Permutation (filter p l1) (filter p l2).
Proof.
  induction 1 as [|x l l' H IH|x y l|l l' l'' H1 IH1 H2 IH2]; cbn [filter].
  - constructor.
  - destruct (p x); [apply perm_skip|]; exact IH.
  - destruct (p x), (p y); try apply perm_swap; apply Permutation_refl.
  - eapply Permutation_trans; eassumption.
Qed.

Lemma map_filter_comm {A B} (g : A -> B) (p : B -> bool) (p' : A -> bool) l :
  (forall x, p (g x) = p' x) -> filter p (map g l) = map g (filter p' l).
Proof.
  intro H. induction l as [|h t IH]; cbn [map filter]; [reflexivity|].
  rewrite H. destruct (p' h); cbn [map]; rewrite IH; reflexivity.
Qed.

Lemma NoDup_map_filter {A B} (g : A -> B) (p : A -> bool) l :
  NoDup (map g l) -> NoDup (map g (filter p l)).
Proof.
  induction l as [|h t IH]; cbn [map filter]; intro H; [constructor|].
  inversion H as [|x l' Hn Hnd]; subst. destruct (p h); cbn [map].
  - constructor; [|apply IH; exact Hnd]. intro Hin. apply Hn.
    apply in_map_iff in Hin. destruct Hin as (y & Hy & Hyin). apply filter_In in Hyin.
    apply in_map_iff. exists y. tauto.
  - apply IH. exact Hnd.
Qed.

(* ---------- same_edges ---------- *)

Lemma same_edges_flip ids l1 l2 :
  same_edges ids l1 l2 -> same_edges ids (map q_flip l1) (map q_flip l2).
Proof.
  unfold same_edges. intro H.
  assert (E : forall l, map (qproj ids) (map q_flip l) = map q_flip (map (qproj ids) l)).
  { intro l. rewrite !map_map. apply map_ext. intro q. apply qproj_flip. }
  rewrite !E. apply Permutation_map. exact H.
Qed.

Lemma same_edges_filter ids (keep : quad -> bool) l1 l2 :
  (forall p q, qproj ids p = qproj ids q -> keep p = keep q) ->
  same_edges ids l1 l2 -> same_edges ids (filter keep l1) (filter keep l2).
Proof.
  unfold same_edges. intros Hk H.
  assert (E : forall l, map (qproj ids) (filter keep l) = filter keep (map (qproj ids) l)).
  { intro l. symmetry. apply map_filter_comm. intro q. apply Hk. apply qproj_idem. }
  rewrite !E. apply Permutation_filter. exact H.
Qed.

Lemma same_edges_app ids l1 l2 l1' l2' :
  same_edges ids l1 l1' -> same_edges ids l2 l2' -> same_edges ids (l1 ++ l2) (l1' ++ l2').
Proof. unfold same_edges. intros H1 H2. rewrite !map_app. apply Permutation_app; assumption. Qed.

Lemma same_edges_map ids {B} (g : quad -> B) l1 l2 :
  (forall q, g (qproj ids q) = g q) ->
  same_edges ids l1 l2 -> Permutation (map g l1) (map g l2).
Proof.
  unfold same_edges. intros Hg H.
  assert (E : forall l, map g l = map g (map (qproj ids) l)).
  { intro l. rewrite map_map. apply map_ext. intro q. symmetry. apply Hg. }
  rewrite (E l1), (E l2). apply Permutation_map. exact H.
Qed.

Lemma same_edges_all ids (P : quad -> Prop) l1 l2 :
  (forall q, P (qproj ids q) <-> P q) ->
  same_edges ids l1 l2 -> (forall q, In q l2 -> P q) -> forall q, In q l1 -> P q.
Proof.
  unfold same_edges. intros HP H H2 q Hq. apply HP.
  assert (Hin : In (qproj ids q) (map (qproj ids) l2)).
  { eapply Permutation_in; [exact H|]. apply in_map. exact Hq. }
  apply in_map_iff in Hin. destruct Hin as (q' & Heq & Hq'). rewrite <- Heq. apply HP.
  apply H2. exact Hq'.
Qed.

(* ---------- the expected lists under flipping and filtering ---------- *)

Lemma expect_out_src d erefs a q : In q (expect_out d erefs a) -> q_src q = a.
Proof.
  unfold expect_out. rewrite in_flat_map. intros (x & _ & Hx).
  destruct (Nat.eqb_spec (q_src x) a) as [E|E].
  - destruct Hx as [<-|[]]. exact E.
  - destruct (negb d); cbn [andb] in Hx; [|destruct Hx].
    destruct (Nat.eqb_spec (q_tgt x) a) as [E'|E']; [|destruct Hx].
    destruct Hx as [<-|[]]. rewrite q_flip_src. exact E'.
Qed.

Lemma expect_in_tgt d erefs a q : In q (expect_in d erefs a) -> q_tgt q = a.
Proof.
  unfold expect_in. rewrite in_flat_map. intros (x & _ & Hx).
  destruct (Nat.eqb_spec (q_tgt x) a) as [E|E].
  - destruct Hx as [<-|[]]. exact E.
  - destruct (negb d); cbn [andb] in Hx; [|destruct Hx].
    destruct (Nat.eqb_spec (q_src x) a) as [E'|E']; [|destruct Hx].
    destruct Hx as [<-|[]]. rewrite q_flip_tgt. exact E'.
Qed.

Lemma expect_out_flip d erefs a :
  expect_out d (map q_flip erefs) a = map q_flip (expect_in d erefs a).
Proof.
  unfold expect_out, expect_in. induction erefs as [|q t IH]; cbn [map flat_map]; [reflexivity|].
  rewrite map_app, IH, q_flip_src, q_flip_tgt. f_equal.
  destruct (q_tgt q =? a); [reflexivity|].
  destruct (andb (negb d) (q_src q =? a)); reflexivity.
Qed.

Lemma expect_in_flip d erefs a :
  expect_in d (map q_flip erefs) a = map q_flip (expect_out d erefs a).
Proof.
  unfold expect_out, expect_in. induction erefs as [|q t IH]; cbn [map flat_map]; [reflexivity|].
  rewrite map_app, IH, q_flip_src, q_flip_tgt. f_equal.
  destruct (q_src q =? a); [reflexivity|].
  destruct (andb (negb d) (q_tgt q =? a)); reflexivity.
Qed.

Lemma expect_out_filter d (keep : quad -> bool) erefs a :
  (d = false -> forall q, keep (q_flip q) = keep q) ->
  expect_out d (filter keep erefs) a = filter keep (expect_out d erefs a).
Proof.
  intro Hk. unfold expect_out. induction erefs as [|q t IH]; cbn [filter flat_map]; [reflexivity|].
  assert (E : forall (p : quad -> bool) l1 l2, filter p (l1 ++ l2) = filter p l1 ++ filter p l2).
  { intros p l1 l2. induction l1 as [|h l1 IH1]; cbn [app filter]; [reflexivity|].
    destruct (p h); cbn [app]; rewrite IH1; reflexivity. }
  rewrite E, <- IH. clear E IH.
  destruct (keep q) eqn:Eq; cbn [flat_map].
  - f_equal. destruct (q_src q =? a); cbn [filter].
    + rewrite Eq. reflexivity.
    + destruct d; cbn [negb andb]; [reflexivity|].
      destruct (q_tgt q =? a); cbn [filter]; [|reflexivity].
      rewrite (Hk eq_refl), Eq. reflexivity.
  - destruct (q_src q =? a); cbn [filter].
    + rewrite Eq. reflexivity.
    + destruct d; cbn [negb andb]; [reflexivity|].
      destruct (q_tgt q =? a); cbn [filter]; [|reflexivity].
      rewrite (Hk eq_refl), Eq. reflexivity.
Qed.

Lemma expect_in_filter d (keep : quad -> bool) erefs a :
  (d = false -> forall q, keep (q_flip q) = keep q) ->
  expect_in d (filter keep erefs) a = filter keep (expect_in d erefs a).
Proof.
  intro Hk. unfold expect_in. induction erefs as [|q t IH]; cbn [filter flat_map]; [reflexivity|].
  assert (E : forall (p : quad -> bool) l1 l2, filter p (l1 ++ l2) = filter p l1 ++ filter p l2).
  { intros p l1 l2. induction l1 as [|h l1 IH1]; cbn [app filter]; [reflexivity|].
    destruct (p h); cbn [app]; rewrite IH1; reflexivity. }
  rewrite E, <- IH. clear E IH.
  destruct (keep q) eqn:Eq; cbn [flat_map].
  - f_equal. destruct (q_tgt q =? a); cbn [filter].
    + rewrite Eq. reflexivity.
    + destruct d; cbn [negb andb]; [reflexivity|].
      destruct (q_src q =? a); cbn [filter]; [|reflexivity].
      rewrite (Hk eq_refl), Eq. reflexivity.
  - destruct (q_tgt q =? a); cbn [filter].
    + rewrite Eq. reflexivity.
    + destruct d; cbn [negb andb]; [reflexivity|].
      destruct (q_src q =? a); cbn [filter]; [|reflexivity].
      rewrite (Hk eq_refl), Eq. reflexivity.
Qed.

(* ---------- model-form accessors of clauses 5 and 6 ---------- *)

Lemma out_edges_m {f} : OutOK f -> forall a, In a (f_nodes f) ->
  same_edges (f_ids_ok f) (assocl (f_out f) a) (expect_out (f_directed f) (f_erefs f) a).
Proof. intros H a Ha. apply same_edges_expect_out. exact (o_edges H a Ha). Qed.

Lemma in_edges_m {f} : InOK f -> f_has_in f = true -> forall a, In a (f_nodes f) ->
  same_edges (f_ids_ok f) (assocl (f_in f) a) (expect_in (f_directed f) (f_erefs f) a).
Proof. intros H Hi a Ha. apply same_edges_expect_in. exact (i_edges H Hi a Ha). Qed.

(* every edge listed by edges(a) has source a; every edge of the in-list has target a *)
Lemma out_src {f} : OutOK f -> forall a, In a (f_nodes f) ->
  forall q, In q (assocl (f_out f) a) -> q_src q = a.
Proof.
  intros H a Ha.
  apply (same_edges_all (f_ids_ok f) (fun q => q_src q = a)
           (assocl (f_out f) a) (expect_out (f_directed f) (f_erefs f) a)).
  - intro q. rewrite qproj_src. tauto.
  - apply out_edges_m; assumption.
  - intros q Hq. eapply expect_out_src. exact Hq.
Qed.

Lemma in_tgt {f} : InOK f -> f_has_in f = true -> forall a, In a (f_nodes f) ->
  forall q, In q (assocl (f_in f) a) -> q_tgt q = a.
Proof.
  intros H Hi a Ha.
  apply (same_edges_all (f_ids_ok f) (fun q => q_tgt q = a)
           (assocl (f_in f) a) (expect_in (f_directed f) (f_erefs f) a)).
  - intro q. rewrite qproj_tgt. tauto.
  - apply in_edges_m; assumption.
  - intros q Hq. eapply expect_in_tgt. exact Hq.
Qed.

(* ================= T2: Reversed ================= *)

Lemma edge_between_flip d erefs a b :
  edge_between d (map q_flip erefs) a b <-> edge_between d erefs b a.
Proof.
  unfold edge_between. split.
  - intros (q & Hq & H). apply in_map_iff in Hq. destruct Hq as (q' & <- & Hq').
    exists q'. split; [exact Hq'|]. rewrite q_flip_src, q_flip_tgt in H.
    destruct H as [H | [Hd H]]; injection H as H1 H2; [left | right; split; [exact Hd|]];
      rewrite H1, H2; reflexivity.
  - intros (q & Hq & H). exists (q_flip q). split; [apply in_map; exact Hq|].
    rewrite q_flip_src, q_flip_tgt.
    destruct H as [H | [Hd H]]; injection H as H1 H2; [left | right; split; [exact Hd|]];
      rewrite H1, H2; reflexivity.
Qed.

(* a row of the reversed adjacency table: the transposed relation, on the node list, for the
   keys of the base table only *)
Lemma rev_adj_row_gen f a b :
  In b (assocl (f_adj (fv_reversed f)) a) <->
  In a (map fst (f_adj f)) /\ In b (f_nodes f) /\ In a (assocl (f_adj f) b).
Proof.
  unfold fv_reversed. fvs.
  rewrite (assocl_tab_gen (fun a => filter (fun b => memn a (assocl (f_adj f) b)) (f_nodes f))).
  destruct (memn a (map fst (f_adj f))) eqn:E.
  - apply memn_In in E. rewrite filter_In, memn_In. tauto.
  - apply memn_false in E. cbn [In]. tauto.
Qed.

Lemma rev_adj_row f a b :
  In a (map fst (f_adj f)) ->
  (In b (assocl (f_adj (fv_reversed f)) a) <-> In b (f_nodes f) /\ In a (assocl (f_adj f) b)).
Proof. intro Ha. rewrite rev_adj_row_gen. tauto. Qed.

Lemma keyed_rows f : AdjKeyed f -> AdjRows f.
Proof. intros H Hadj a b Ha _ _. exact (H Hadj a Ha). Qed.

Theorem reversed_consistent f :
  FConsistent f -> f_has_in f = true -> AdjRows f -> FConsistent (fv_reversed f).
Proof.
  intros [Hn Hr He Hk Ho Hi Ha] Hin Hkeyed. constructor.
  - destruct Hn as [N1 N2 N3 N4 N5]. constructor; assumption.
  - exact Hr.
  - destruct He as [E1 E2 E3 E4]. constructor; unfold fv_reversed; fvs.
    + intros q Hq. apply in_map_iff in Hq. destruct Hq as (q' & <- & Hq').
      rewrite q_flip_src, q_flip_tgt. destruct (E1 q' Hq'). split; assumption.
    + intros n Hn'. rewrite map_length. apply E2. exact Hn'.
    + intro Hids. rewrite map_map.
      rewrite (map_ext (fun x => q_id (q_flip x)) q_id) by (intro; apply q_flip_id).
      apply E3. exact Hids.
    + intros Hids c Hc q Hq. apply in_map_iff in Hq. destruct Hq as (q' & <- & Hq').
      rewrite q_flip_id. exact (E4 Hids c Hc q' Hq').
  - destruct Hk as [K1 K2 K3 K4]. constructor; unfold fv_reversed; fvs.
    + rewrite map_fst_mapv. apply K3. exact Hin.
    + apply K4. exact Hin.
    + intros _. rewrite map_fst_mapv. exact K1.
    + intros _. exact K2.
  - constructor; unfold fv_reversed; fvs; intros a Ha'.
    + apply same_edges_expect_out. rewrite assocl_mapv by reflexivity. rewrite expect_out_flip.
      apply same_edges_flip. apply in_edges_m; assumption.
    + rewrite assocl_mapv by reflexivity. rewrite map_map.
      rewrite (map_ext (fun x => q_tgt (q_flip x)) q_src) by (intro; apply q_flip_tgt).
      exact (i_nb Hi Hin a Ha').
  - constructor; unfold fv_reversed; fvs; intros _ a Ha'.
    + apply same_edges_expect_in. rewrite assocl_mapv by reflexivity. rewrite expect_in_flip.
      apply same_edges_flip. apply out_edges_m; assumption.
    + rewrite assocl_mapv by reflexivity. rewrite map_map.
      rewrite (map_ext (fun x => q_src (q_flip x)) q_tgt) by (intro; apply q_flip_src).
      exact (o_nb Ho a Ha').
  - intros Hadj a b Ha' Hb'.
    change (f_has_adj f = true) in Hadj. change (In a (f_nodes f)) in Ha'.
    change (In b (f_nodes f)) in Hb'.
    rewrite rev_adj_row_gen.
    change (f_directed (fv_reversed f)) with (f_directed f).
    change (f_erefs (fv_reversed f)) with (map q_flip (f_erefs f)).
    rewrite edge_between_flip. rewrite <- (Ha Hadj b a Hb' Ha').
    split; [tauto|]. intro H. split; [|tauto]. exact (Hkeyed Hadj a b Ha' Hb' H).
Qed.

(* Reversed keeps the needed rows, whatever the base *)
Lemma reversed_rows f : AdjRows (fv_reversed f).
Proof.
  intros Hadj a b Ha Hb Hin. apply rev_adj_row_gen in Hin. destruct Hin as (_ & _ & Hin).
  unfold fv_reversed. fvs. rewrite map_fst_tab. eapply assocl_in_key. exact Hin.
Qed.

(* the exact condition *)
Theorem reversed_exact f :
  FConsistent f -> f_has_in f = true -> (FConsistent (fv_reversed f) <-> AdjRows f).
Proof.
  intros Hf Hin. split; [|apply reversed_consistent; assumption].
  intros Hr Hadj a b Ha Hb Hab.
  pose proof (fc_adj Hr Hadj a b Ha Hb) as H.
  change (f_directed (fv_reversed f)) with (f_directed f) in H.
  change (f_erefs (fv_reversed f)) with (map q_flip (f_erefs f)) in H.
  rewrite edge_between_flip, <- (fc_adj Hf Hadj b a Hb Ha), rev_adj_row_gen in H.
  apply H. exact Hab.
Qed.

Lemma reversed_keyed f : AdjKeyed f -> AdjKeyed (fv_reversed f).
Proof.
  intros H Hadj. unfold fv_reversed in *. fvs. rewrite map_fst_tab. exact (H Hadj).
Qed.

(* what Reversed presents *)
Theorem reversed_presents f :
  f_nodes (fv_reversed f) = f_nodes f /\
  f_nrefs (fv_reversed f) = f_nrefs f /\
  f_directed (fv_reversed f) = f_directed f /\
  f_erefs (fv_reversed f) = map q_flip (f_erefs f) /\
  (forall a, assocl (f_out (fv_reversed f)) a = map q_flip (assocl (f_in f) a)) /\
  (forall a, assocl (f_in (fv_reversed f)) a = map q_flip (assocl (f_out f) a)) /\
  (forall a, assocl (f_nb (fv_reversed f)) a = assocl (f_nbin f) a) /\
  (forall a, assocl (f_nbin (fv_reversed f)) a = assocl (f_nb f) a) /\
  (forall a b, In a (f_nodes f) -> In b (f_nodes f) -> In a (map fst (f_adj f)) ->
     (In b (assocl (f_adj (fv_reversed f)) a) <-> In a (assocl (f_adj f) b))).
Proof.
  do 4 (split; [reflexivity|]).
  split; [intro a; unfold fv_reversed; fvs; apply assocl_mapv; reflexivity|].
  split; [intro a; unfold fv_reversed; fvs; apply assocl_mapv; reflexivity|].
  split; [reflexivity|]. split; [reflexivity|].
  intros a b Ha Hb Hk. rewrite rev_adj_row by exact Hk. tauto.
Qed.

Theorem reversed_involutive f : fv_same f (fv_reversed (fv_reversed f)).
Proof.
  constructor; try reflexivity.
  - unfold fv_reversed. fvs. apply mapv_mapv_id. apply map_flip_flip.
  - unfold fv_reversed. fvs. apply mapv_mapv_id. apply map_flip_flip.
  - unfold fv_reversed. fvs. apply map_flip_flip.
  - unfold fv_reversed. fvs. rewrite !map_fst_tab. reflexivity.
  - intros a b Ha Hka Hb Hkb.
    assert (K : map fst (f_adj (fv_reversed f)) = map fst (f_adj f)).
    { unfold fv_reversed. fvs. apply map_fst_tab. }
    rewrite rev_adj_row by (rewrite K; exact Hka).
    rewrite rev_adj_row by exact Hkb.
    change (f_nodes (fv_reversed f)) with (f_nodes f). tauto.
Qed.

(* ================= T3: NodeFiltered, EdgeFiltered, Frozen ================= *)

Definition kq_of (keep : nat -> bool) (q : quad) : bool := andb (keep (q_src q)) (keep (q_tgt q)).

Lemma kq_proj keep ids p q : qproj ids p = qproj ids q -> kq_of keep p = kq_of keep q.
Proof.
  intro H. unfold kq_of.
  rewrite <- (qproj_src ids p), <- (qproj_tgt ids p), H, qproj_src, qproj_tgt. reflexivity.
Qed.

Lemma kq_flip keep q : kq_of keep (q_flip q) = kq_of keep q.
Proof. unfold kq_of. rewrite q_flip_src, q_flip_tgt. apply andb_comm. Qed.

Theorem node_filtered_consistent keep f :
  FConsistent f -> FConsistent (fv_node_filtered keep f).
Proof.
  intros [Hn Hr He Hk Ho Hi Ha].
  assert (Hnodes : f_nodes (fv_node_filtered keep f) = filter keep (f_nodes f)) by reflexivity.
  constructor.
  - destruct Hn as [N1 N2 N3 N4 N5]. constructor; unfold fv_node_filtered; fvs.
    + apply NoDup_filter. exact N1.
    + intros a Ha'. apply filter_In in Ha'. apply N2. apply Ha'.
    + intros c Hc a Ha'. apply filter_In in Ha'. apply (N3 c Hc). apply Ha'.
    + intros n Hn'. discriminate.
    + intro Hc. discriminate.
  - unfold NrefsOK in *. unfold fv_node_filtered. fvs. rewrite <- Hr.
    symmetry. apply map_filter_comm. intros [a w]. reflexivity.
  - destruct He as [E1 E2 E3 E4]. constructor; unfold fv_node_filtered; fvs.
    + intros q Hq. apply filter_In in Hq. destruct Hq as [Hq Hkq].
      apply andb_true_iff in Hkq. destruct (E1 q Hq). rewrite !filter_In. tauto.
    + intros n Hn'. discriminate.
    + intro Hids. apply NoDup_map_filter. apply E3. exact Hids.
    + intros Hids c Hc q Hq. apply filter_In in Hq. apply (E4 Hids c Hc). apply Hq.
  - constructor; unfold fv_node_filtered; fvs.
    + apply map_fst_tab.
    + apply map_fst_tab.
    + intros ->. apply map_fst_tab.
    + intros ->. apply map_fst_tab.
  - constructor; unfold fv_node_filtered; fvs; intros a Ha'.
    + apply same_edges_expect_out.
      rewrite (assocl_tab (fun a => filter (fun q => andb (keep (q_src q)) (keep (q_tgt q)))
                                           (assocl (f_out f) a))) by exact Ha'.
      apply filter_In in Ha'. destruct Ha' as [Ha' Hka].
      change (fun q => andb (keep (q_src q)) (keep (q_tgt q))) with (kq_of keep).
      rewrite expect_out_filter by (intros _ q; apply kq_flip).
      apply same_edges_filter; [intros p q; apply kq_proj|].
      apply out_edges_m; assumption.
    + rewrite (assocl_tab (fun a => filter keep (assocl (f_nb f) a))) by exact Ha'.
      rewrite (assocl_tab (fun a => filter (fun q => andb (keep (q_src q)) (keep (q_tgt q)))
                                           (assocl (f_out f) a))) by exact Ha'.
      apply filter_In in Ha'. destruct Ha' as [Ha' Hka].
      rewrite (o_nb Ho a Ha').
      rewrite (map_filter_comm q_tgt keep (fun q => keep (q_tgt q))) by reflexivity.
      f_equal. apply filter_ext_in. intros q Hq.
      rewrite (out_src Ho a Ha' q Hq), Hka. reflexivity.
  - constructor; unfold fv_node_filtered; fvs; intros Hin a Ha'; rewrite Hin.
    + apply same_edges_expect_in.
      rewrite (assocl_tab (fun a => filter (fun q => andb (keep (q_src q)) (keep (q_tgt q)))
                                           (assocl (f_in f) a))) by exact Ha'.
      apply filter_In in Ha'. destruct Ha' as [Ha' Hka].
      change (fun q => andb (keep (q_src q)) (keep (q_tgt q))) with (kq_of keep).
      rewrite expect_in_filter by (intros _ q; apply kq_flip).
      apply same_edges_filter; [intros p q; apply kq_proj|].
      apply in_edges_m; assumption.
    + rewrite (assocl_tab (fun a => filter keep (assocl (f_nbin f) a))) by exact Ha'.
      rewrite (assocl_tab (fun a => filter (fun q => andb (keep (q_src q)) (keep (q_tgt q)))
                                           (assocl (f_in f) a))) by exact Ha'.
      apply filter_In in Ha'. destruct Ha' as [Ha' Hka].
      rewrite (i_nb Hi Hin a Ha').
      rewrite (map_filter_comm q_src keep (fun q => keep (q_src q))) by reflexivity.
      f_equal. apply filter_ext_in. intros q Hq.
      rewrite (in_tgt Hi Hin a Ha' q Hq), Hka. symmetry. apply andb_true_r.
  - intro Hadj. discriminate.
Qed.

(* what NodeFiltered presents: the node-induced subgraph *)
Theorem node_filtered_presents keep f :
  f_nodes (fv_node_filtered keep f) = filter keep (f_nodes f) /\
  f_directed (fv_node_filtered keep f) = f_directed f /\
  f_erefs (fv_node_filtered keep f) =
    filter (fun q => andb (keep (q_src q)) (keep (q_tgt q))) (f_erefs f) /\
  (forall q, In q (f_erefs (fv_node_filtered keep f)) <->
             In q (f_erefs f) /\ keep (q_src q) = true /\ keep (q_tgt q) = true).
Proof.
  do 3 (split; [reflexivity|]).
  intro q. unfold fv_node_filtered. fvs. rewrite filter_In, andb_true_iff. tauto.
Qed.

Lemma keep_ok_proj {ids d keep} :
  keep_ok ids d keep -> forall p q, qproj ids p = qproj ids q -> keep p = keep q.
Proof.
  intros [_ H] p q E. destruct ids.
  - cbn [qproj] in E. rewrite E. reflexivity.
  - apply H; [reflexivity | exact E].
Qed.

Theorem edge_filtered_consistent keep f :
  keep_ok (f_ids_ok f) (f_directed f) keep ->
  FConsistent f -> FConsistent (fv_edge_filtered keep f).
Proof.
  intros Hko [Hn Hr He Hk Ho Hi Ha].
  pose proof (keep_ok_proj Hko) as Hproj. pose proof (ko_flip Hko) as Hflip.
  constructor.
  - destruct Hn as [N1 N2 N3 N4 N5]. constructor; assumption.
  - exact Hr.
  - destruct He as [E1 E2 E3 E4]. constructor; unfold fv_edge_filtered; fvs.
    + intros q Hq. apply filter_In in Hq. apply E1. apply Hq.
    + intros n Hn'. discriminate.
    + intro Hids. apply NoDup_map_filter. apply E3. exact Hids.
    + intros Hids c Hc q Hq. apply filter_In in Hq. apply (E4 Hids c Hc). apply Hq.
  - destruct Hk as [K1 K2 K3 K4]. constructor; unfold fv_edge_filtered; fvs.
    + rewrite map_fst_mapv. exact K1.
    + change (map fst (mapv (fun l => map q_tgt (filter keep l)) (f_out f)) = f_nodes f).
      rewrite map_fst_mapv. exact K1.
    + intro Hin. rewrite map_fst_mapv. apply K3. exact Hin.
    + intro Hin.
      change (map fst (mapv (fun l => map q_src (filter keep l)) (f_in f)) = f_nodes f).
      rewrite map_fst_mapv. apply K3. exact Hin.
  - constructor; unfold fv_edge_filtered; fvs; intros a Ha'.
    + apply same_edges_expect_out. rewrite assocl_mapv by reflexivity.
      rewrite expect_out_filter by exact Hflip.
      apply same_edges_filter; [exact Hproj|]. apply out_edges_m; assumption.
    + change (assocl (mapv (fun l => map q_tgt (filter keep l)) (f_out f)) a =
              map q_tgt (assocl (mapv (filter keep) (f_out f)) a)).
      rewrite (assocl_mapv (fun l => map q_tgt (filter keep l))) by reflexivity.
      rewrite (assocl_mapv (filter keep)) by reflexivity. reflexivity.
  - constructor; unfold fv_edge_filtered; fvs; intros Hin a Ha'.
    + apply same_edges_expect_in. rewrite assocl_mapv by reflexivity.
      rewrite expect_in_filter by exact Hflip.
      apply same_edges_filter; [exact Hproj|]. apply in_edges_m; assumption.
    + change (assocl (mapv (fun l => map q_src (filter keep l)) (f_in f)) a =
              map q_src (assocl (mapv (filter keep) (f_in f)) a)).
      rewrite (assocl_mapv (fun l => map q_src (filter keep l))) by reflexivity.
      rewrite (assocl_mapv (filter keep)) by reflexivity. reflexivity.
  - intro Hadj. discriminate.
Qed.

Theorem edge_filtered_presents keep f :
  f_nodes (fv_edge_filtered keep f) = f_nodes f /\
  f_nrefs (fv_edge_filtered keep f) = f_nrefs f /\
  f_directed (fv_edge_filtered keep f) = f_directed f /\
  f_erefs (fv_edge_filtered keep f) = filter keep (f_erefs f).
Proof. repeat split. Qed.

(* the model's edge predicate looks at the weight only *)
Lemma edge_pred_ok ids d p1 p2 : keep_ok ids d (edge_pred p1 p2).
Proof.
  constructor.
  - intros _ q. unfold edge_pred. rewrite q_flip_w. reflexivity.
  - intros _ p q E. unfold edge_pred.
    rewrite <- (qproj_w false p), E, qproj_w. reflexivity.
Qed.

(* ================= T4: depth two ================= *)

Lemma adaptor_step k p1 p2 f g :
  In k [1; 3; 4; 5] -> FConsistent f -> AdjRows f ->
  apply_adaptor k p1 p2 f = Some g -> FConsistent g /\ AdjRows g.
Proof.
  intros Hk Hf Hkey H.
  destruct k as [|[|[|[|[|[|k]]]]]]; cbn [apply_adaptor] in H.
  - discriminate.
  - destruct (f_has_in f) eqn:Hin; [|discriminate]. injection H as <-.
    split; [apply reversed_consistent; assumption | apply reversed_rows].
  - exfalso. cbn [In] in Hk. lia.
  - injection H as <-. split; [apply node_filtered_consistent; exact Hf|].
    intro Hadj. discriminate.
  - injection H as <-. split; [apply edge_filtered_consistent; [apply edge_pred_ok | exact Hf]|].
    intro Hadj. discriminate.
  - injection H as <-. split; assumption.
  - discriminate.
Qed.

Theorem adaptor_depth2 k1 p1 q1 k2 p2 q2 f g h :
  In k1 [1; 3; 4; 5] -> In k2 [1; 3; 4; 5] -> FConsistent f -> AdjRows f ->
  apply_adaptor k1 p1 q1 f = Some g -> apply_adaptor k2 p2 q2 g = Some h -> FConsistent h.
Proof.
  intros H1 H2 Hf Hkey Hg Hh.
  destruct (adaptor_step _ _ _ _ _ H1 Hf Hkey Hg) as [Hg' Hkey'].
  exact (proj1 (adaptor_step _ _ _ _ _ H2 Hg' Hkey' Hh)).
Qed.

(* ================= T5: UndirectedAdaptor ================= *)

Lemma other_end_in a q : q_tgt q = a -> other_end a q = q_src q.
Proof. intro H. unfold other_end. rewrite H, Nat.eqb_refl. reflexivity. Qed.

Lemma other_end_out a q : q_src q = a -> other_end a q = q_tgt q.
Proof.
  intro H. unfold other_end. destruct (Nat.eqb_spec (q_tgt q) a) as [E|E]; [|reflexivity].
  rewrite H, E. reflexivity.
Qed.

Lemma expect_in_directed erefs a : expect_in true erefs a = filter (fun q => q_tgt q =? a) erefs.
Proof.
  unfold expect_in. induction erefs as [|q t IH]; cbn [flat_map filter]; [reflexivity|].
  rewrite IH. destruct (q_tgt q =? a); reflexivity.
Qed.

Lemma expect_out_directed erefs a : expect_out true erefs a = filter (fun q => q_src q =? a) erefs.
Proof.
  unfold expect_out. induction erefs as [|q t IH]; cbn [flat_map filter]; [reflexivity|].
  rewrite IH. destruct (q_src q =? a); reflexivity.
Qed.

Theorem undirected_partial f :
  FConsistent f -> f_directed f = true -> f_has_in f = true ->
  f_nodes (fv_undirected f) = f_nodes f /\
  f_nrefs (fv_undirected f) = f_nrefs f /\
  f_erefs (fv_undirected f) = f_erefs f /\
  f_directed (fv_undirected f) = false /\
  (forall k, k <> 5 -> clause k (fv_undirected f)) /\
  (forall a, In a (f_nodes f) ->
     assocl (f_out (fv_undirected f)) a = assocl (f_in f) a ++ assocl (f_out f) a /\
     Permutation (map (other_end a) (assocl (f_out (fv_undirected f)) a))
                 (sym_neighbors (f_erefs f) a) /\
     assocl (f_nb (fv_undirected f)) a = assocl (f_nbin f) a ++ assocl (f_nb f) a /\
     assocl (f_nb (fv_undirected f)) a = map (other_end a) (assocl (f_out (fv_undirected f)) a)).
Proof.
  intros [Hn Hr He Hk Ho Hi Ha] Hd Hin.
  split; [reflexivity|]. split; [reflexivity|]. split; [reflexivity|]. split; [reflexivity|].
  split.
  - intros k Hk5.
    destruct k as [|[|[|[|[|[|[|[|k]]]]]]]]; cbn [clause]; try exact I.
    + destruct Hn as [N1 N2 N3 N4 N5]. constructor; assumption.
    + exact Hr.
    + destruct He as [E1 E2 E3 E4]. constructor; unfold fv_undirected; fvs.
      * exact E1.
      * intros n Hn'. discriminate.
      * exact E3.
      * intros _ c Hc. discriminate.
    + constructor; unfold fv_undirected; fvs.
      * apply map_fst_tab.
      * apply map_fst_tab.
      * intro H. discriminate.
      * intro H. discriminate.
    + exfalso. apply Hk5. reflexivity.
    + constructor; intro H; discriminate.
    + intro H. discriminate.
  - intros a Ha'.
    assert (Eo : assocl (f_out (fv_undirected f)) a = assocl (f_in f) a ++ assocl (f_out f) a).
    { unfold fv_undirected. fvs.
      apply (assocl_tab (fun a => assocl (f_in f) a ++ assocl (f_out f) a)). exact Ha'. }
    assert (En : assocl (f_nb (fv_undirected f)) a = assocl (f_nbin f) a ++ assocl (f_nb f) a).
    { unfold fv_undirected. fvs.
      apply (assocl_tab (fun a => assocl (f_nbin f) a ++ assocl (f_nb f) a)). exact Ha'. }
    assert (Em : map (other_end a) (assocl (f_in f) a ++ assocl (f_out f) a) =
                 map q_src (assocl (f_in f) a) ++ map q_tgt (assocl (f_out f) a)).
    { rewrite map_app. f_equal.
      - apply map_ext_in. intros q Hq. apply other_end_in. exact (in_tgt Hi Hin a Ha' q Hq).
      - apply map_ext_in. intros q Hq. apply other_end_out. exact (out_src Ho a Ha' q Hq). }
    split; [exact Eo|]. split; [|split; [exact En|]].
    + rewrite Eo, Em. unfold sym_neighbors. apply Permutation_app.
      * rewrite <- expect_in_directed, <- Hd.
        apply (same_edges_map (f_ids_ok f) q_src); [intro q; apply qproj_src|].
        apply in_edges_m; assumption.
      * rewrite <- expect_out_directed, <- Hd.
        apply (same_edges_map (f_ids_ok f) q_tgt); [intro q; apply qproj_tgt|].
        apply out_edges_m; assumption.
    + rewrite En, Eo, Em, (i_nb Hi Hin a Ha'), (o_nb Ho a Ha'). reflexivity.
Qed.
