(* The certificate left by a search of Gabow's / Edmonds' algorithm that ends without
   augmenting (C15b, G1): outer vertices O, grouped into blossoms by their first inner vertex
   fi (n for the blossom of the start), every edge out of an outer vertex leading to an inner vertex
   or staying inside a blossom.  Then no matching covers the start and all matched vertices: each
   blossom has an odd number of vertices, so each sends a matching edge to an inner vertex, and
   there is one more blossom than there are inner vertices.  Pure counting; no model here. *)
From PG Require Import Lib.Io Model.View Model.MatchM Spec.Reach Spec.MatchSpec Spec.BergeSpec
  Proofs.MatchAccP Proofs.MatchOptP Proofs.BergeP.

(* ------------------------------------------------------------------ *)
(* counting facts                                                      *)

(* a finite set with a fixed-point-free involution has an even number of elements *)
Lemma invol_even : forall k (l : list nat) (g : nat -> nat), length l = k -> NoDup l ->
  (forall x, In x l -> In (g x) l /\ g x <> x /\ g (g x) = x) -> exists m, k = 2 * m.
Proof.
  induction k as [k IH] using lt_wf_ind. intros l g Hk Hnd Hg.
  destruct l as [|x t]; [exists 0; cbn [length] in Hk; lia|].
  destruct (Hg x (or_introl eq_refl)) as [Hgx [Hne Hinv]].
  destruct Hgx as [E|Hgx]; [congruence|].
  apply in_split in Hgx. destruct Hgx as [t1 [t2 Et]]. subst t.
  inversion Hnd as [|? ? Hx Hnt]; subst.
  assert (Hnd' : NoDup (t1 ++ t2)) by (apply NoDup_remove_1 with (a := g x); exact Hnt).
  assert (Hgx' : ~ In (g x) (t1 ++ t2)) by (apply NoDup_remove_2; exact Hnt).
  assert (Hlen : length (x :: t1 ++ g x :: t2) = S (S (length (t1 ++ t2)))).
  { cbn [length]. rewrite !app_length. cbn [length]. lia. }
  destruct (IH (length (t1 ++ t2))) with (l := t1 ++ t2) (g := g) as [m Hm].
  - lia.
  - reflexivity.
  - exact Hnd'.
  - intros z Hz.
    assert (Hzl : In z (x :: t1 ++ g x :: t2)).
    { right. rewrite in_app_iff in *. cbn [In]. tauto. }
    destruct (Hg z Hzl) as [H1 [H2 H3]]. split; [|split; assumption].
    destruct H1 as [E|H1].
    + exfalso. apply Hgx'. rewrite E, H3. exact Hz.
    + rewrite in_app_iff in H1. cbn [In] in H1. destruct H1 as [H1|[E|H1]].
      * apply in_or_app; left; exact H1.
      * exfalso. assert (Exz : x = z) by (rewrite <- Hinv, E, H3; reflexivity). subst z.
        apply Hx. rewrite in_app_iff in *. cbn [In]. tauto.
      * apply in_or_app; right; exact H1.
  - exists (S m). lia.
Qed.

Lemma filter_notin_len (l : list nat) b : ~ In b l ->
  length (filter (fun x => negb (Nat.eqb x b)) l) = length l.
Proof.
  induction l as [|a t IH]; intros Hb; [reflexivity|]. cbn [filter].
  destruct (Nat.eqb_spec a b) as [->|Hne]; [exfalso; apply Hb; left; reflexivity|].
  cbn [negb length]. f_equal. apply IH. intros H; apply Hb; right; exact H.
Qed.

Lemma filter_remove_one (l : list nat) b : NoDup l -> In b l ->
  length l = S (length (filter (fun x => negb (Nat.eqb x b)) l)).
Proof.
  induction l as [|a t IH]; intros Hnd Hb; [destruct Hb|].
  inversion Hnd as [|? ? Ha Ht]; subst. cbn [filter].
  destruct (Nat.eqb_spec a b) as [->|Hne]; cbn [negb length].
  - rewrite filter_notin_len by exact Ha. reflexivity.
  - f_equal. apply IH; [exact Ht|]. destruct Hb as [E|Hb]; [contradiction | exact Hb].
Qed.

Lemma choose_list {A B} (R : A -> B -> Prop) (l : list A) :
  (forall a, In a l -> exists b, R a b) -> exists l', Forall2 R l l'.
Proof.
  induction l as [|a t IH]; intros H; [exists []; constructor|].
  destruct (H a (or_introl eq_refl)) as [b Hb].
  destruct IH as [l' Hl']; [intros a' Ha'; apply H; right; exact Ha'|].
  exists (b :: l'). constructor; assumption.
Qed.

Lemma Forall2_len {A B} (R : A -> B -> Prop) l l' : Forall2 R l l' -> length l = length l'.
Proof. induction 1 as [|a b t t' _ _ IH]; cbn [length]; [reflexivity | f_equal; exact IH]. Qed.

Lemma Forall2_In_r {A B} (R : A -> B -> Prop) l l' b :
  Forall2 R l l' -> In b l' -> exists a, In a l /\ R a b.
Proof.
  induction 1 as [|a b' t t' Hab Ht IH]; intros Hb; [destruct Hb|].
  destruct Hb as [<-|Hb]; [exists a; split; [left; reflexivity | exact Hab]|].
  destruct (IH Hb) as [a' [H1 H2]]. exists a'. split; [right; exact H1 | exact H2].
Qed.

Lemma Forall2_nodup {A B} (R : A -> B -> Prop) l l' :
  Forall2 R l l' -> NoDup l -> (forall a a' b, R a b -> R a' b -> a = a') -> NoDup l'.
Proof.
  induction 1 as [|a b t t' Hab Ht IH]; intros Hnd Hinj; [constructor|].
  inversion Hnd as [|? ? Ha Hnt]; subst. constructor; [|apply IH; assumption].
  intros Hb. destruct (@Forall2_In_r _ _ R t t' b Ht Hb) as [a' [H1 H2]].
  rewrite (Hinj a a' b Hab H2) in Ha. contradiction.
Qed.

Lemma list_ex_or_all (P : nat -> Prop) (dec : forall x, {P x} + {~ P x}) (l : list nat) :
  (exists x, In x l /\ P x) \/ (forall x, In x l -> ~ P x).
Proof.
  induction l as [|a t IH]; [right; intros x []|].
  destruct (dec a) as [Ha|Ha]; [left; exists a; split; [left; reflexivity | exact Ha]|].
  destruct IH as [[x [H1 H2]]|IH]; [left; exists x; split; [right; exact H1 | exact H2]|].
  right. intros x [<-|Hx]; auto.
Qed.

Lemma medge_neq M x y : NoDup (endpoints M) -> medge M x y -> x <> y.
Proof. intros Hnd H. destruct (medge_remove M x y Hnd H) as [M' [_ [_ [_ [_ [_ Hne]]]]]]. exact Hne. Qed.

(* ------------------------------------------------------------------ *)
(* the certificate                                                     *)

Section Cert.
Variable n : nat.                      (* vertices are the numbers below n *)
Variable M : nat -> option nat.        (* the matching, as a partner function *)
Variable O : nat -> bool.              (* outer vertices *)
Variable fi : nat -> nat.              (* first inner vertex of an outer vertex; n at the root *)
Variable start : nat.
Variable adjP : nat -> nat -> Prop.

Hypothesis Msym : forall i j, M i = Some j -> M j = Some i /\ i <> j.
Hypothesis Mlt : forall i j, M i = Some j -> i < n.
Hypothesis Olt : forall x, O x = true -> x < n.
Hypothesis Ostart : O start = true.
Hypothesis Mstart : M start = None.
Hypothesis Fstart : fi start = n.
(* an outer vertex other than the start is matched, inside its blossom or to its first inner vertex *)
Hypothesis Omatched : forall u, O u = true -> u <> start ->
  exists w, M u = Some w /\ ((O w = true /\ fi w = fi u) \/ (O w = false /\ fi u = w)).
(* an edge out of an outer vertex leads to the mate of an outer vertex, or stays in the blossom *)
Hypothesis Closure : forall x y, O x = true -> adjP x y -> y <> x ->
  (O y = false /\ exists mv, M y = Some mv /\ O mv = true) \/ (O y = true /\ fi x = fi y).

Definition innerb (y : nat) : bool :=
  negb (O y) && match M y with Some o => O o | None => false end.
Definition Il : list nat := filter innerb (seq 0 n).
Definition Cl (f : nat) : list nat := filter (fun u => O u && Nat.eqb (fi u) f) (seq 0 n).

Lemma Il_spec y : In y Il <-> O y = false /\ exists o, M y = Some o /\ O o = true.
Proof.
  unfold Il, innerb. rewrite filter_In, in_seq, andb_true_iff, negb_true_iff. split.
  - intros [_ [H1 H2]]. split; [exact H1|]. destruct (M y) as [o|]; [eauto | discriminate].
  - intros [H1 [o [H2 H3]]]. split; [pose proof (Mlt y o H2); lia|]. rewrite H2. auto.
Qed.

Lemma Cl_spec f u : In u (Cl f) <-> O u = true /\ fi u = f.
Proof.
  unfold Cl. rewrite filter_In, in_seq, andb_true_iff, Nat.eqb_eq. split; [tauto|].
  intros [H1 H2]. pose proof (Olt u H1). split; [lia | auto].
Qed.

Lemma Il_lt y : In y Il -> y < n.
Proof. unfold Il. rewrite filter_In, in_seq. lia. Qed.

Lemma Il_nodup : NoDup (n :: Il).
Proof.
  constructor; [intros H; apply Il_lt in H; lia|]. apply NoDup_filter, seq_NoDup.
Qed.

Lemma Cl_nodup f : NoDup (Cl f).
Proof. apply NoDup_filter, seq_NoDup. Qed.

(* the base of a blossom: the start, or the mate of the first inner vertex *)
Definition base (f : nat) : nat :=
  if Nat.eqb f n then start else match M f with Some o => o | None => 0 end.

Lemma base_ok f : In f (n :: Il) ->
  In (base f) (Cl f) /\
  forall u, In u (Cl f) -> u <> base f -> exists w, M u = Some w /\ In w (Cl f) /\ w <> base f.
Proof.
  intros [<-|Hf].
  - unfold base. rewrite Nat.eqb_refl. split; [apply Cl_spec; auto|].
    intros u Hu Hne. apply Cl_spec in Hu. destruct Hu as [Hu Hfu].
    destruct (Omatched u Hu Hne) as [w [Hw [[H1 H2]|[H1 H2]]]].
    + exists w. split; [exact Hw|]. split; [apply Cl_spec; split; [exact H1 | congruence]|].
      intros ->. destruct (Msym u start Hw) as [H3 _]. congruence.
    + exfalso. destruct (Msym u w Hw) as [H3 _]. pose proof (Mlt w u H3). lia.
  - pose proof (Il_lt f Hf) as Hlt. apply Il_spec in Hf. destruct Hf as [Hf [o [Ho Hoo]]].
    unfold base. destruct (Nat.eqb_spec f n) as [E|_]; [lia|]. rewrite Ho.
    destruct (Msym f o Ho) as [Hof Hne].
    assert (Hos : o <> start) by (intros ->; congruence).
    assert (Hfo : fi o = f).
    { destruct (Omatched o Hoo Hos) as [w [Hw [[H1 H2]|[H1 H2]]]]; congruence. }
    split; [apply Cl_spec; auto|].
    intros u Hu Hnu. apply Cl_spec in Hu. destruct Hu as [Hu Hfu].
    assert (Hus : u <> start) by (intros ->; lia).
    destruct (Omatched u Hu Hus) as [w [Hw [[H1 H2]|[H1 H2]]]].
    + exists w. split; [exact Hw|]. split; [apply Cl_spec; split; [exact H1 | congruence]|].
      intros ->. destruct (Msym u o Hw) as [H3 _]. congruence.
    + exfalso. destruct (Msym u w Hw) as [H3 _]. apply Hnu. congruence.
Qed.

(* a blossom has an odd number of vertices *)
Lemma Cl_odd f : In f (n :: Il) -> exists k, length (Cl f) = S (2 * k).
Proof.
  intros Hf. destruct (base_ok f Hf) as [Hb Hrest].
  rewrite (filter_remove_one (Cl f) (base f) (Cl_nodup f) Hb).
  set (C' := filter (fun x => negb (Nat.eqb x (base f))) (Cl f)).
  assert (HC' : forall x, In x C' <-> In x (Cl f) /\ x <> base f).
  { intros x. unfold C'. rewrite filter_In, negb_true_iff, Nat.eqb_neq. tauto. }
  destruct (invol_even (length C') C' (fun u => match M u with Some w => w | None => u end) eq_refl) as [k Hk].
  - apply NoDup_filter, Cl_nodup.
  - intros x Hx. apply HC' in Hx. destruct Hx as [Hx Hxb].
    destruct (Hrest x Hx Hxb) as [w [Hw [Hwc Hwb]]]. rewrite Hw.
    destruct (Msym x w Hw) as [Hwx Hne]. rewrite Hwx.
    split; [apply HC'; auto|]. split; [congruence | reflexivity].
  - exists k. rewrite Hk. reflexivity.
Qed.

(* ---- against a matching that covers the start and every matched vertex ---- *)
Section Against.
Variable N : list (nat * nat).
Hypothesis HN : NoDup (endpoints N).
Hypothesis HNadj : forall i j, In (i, j) N -> adjP i j /\ adjP j i.
Hypothesis Hcov : forall x, M x <> None -> In x (endpoints N).
Hypothesis Hstart : In start (endpoints N).

Lemma Ocov u : O u = true -> exists y, pmate N u = Some y /\ adjP u y /\ y <> u /\ pmate N y = Some u.
Proof.
  intros Hu.
  assert (Hin : In u (endpoints N)).
  { destruct (Nat.eq_dec u start) as [->|Hne]; [exact Hstart|].
    destruct (Omatched u Hu Hne) as [w [Hw _]]. apply Hcov. congruence. }
  destruct (pmate_covered N u Hin) as [y Hy]. exists y. split; [exact Hy|].
  pose proof (pmate_medge N u y Hy) as He.
  split; [destruct He as [He|He]; apply HNadj in He; tauto|].
  split; [intros E; apply (medge_neq N u y HN He); symmetry; exact E|].
  apply medge_pmate; [exact HN | apply medge_sym, He].
Qed.

(* a matching edge from the blossom f to an inner vertex y *)
Definition R (f y : nat) : Prop := exists u, In u (Cl f) /\ pmate N u = Some y /\ In y Il.

Lemma R_exists f : In f (n :: Il) -> exists y, R f y.
Proof.
  intros Hf.
  set (P := fun u => exists y, pmate N u = Some y /\ In y Il).
  assert (dec : forall u, {P u} + {~ P u}).
  { intros u. unfold P. destruct (pmate N u) as [y|].
    - destruct (in_dec Nat.eq_dec y Il) as [Hy|Hy]; [left; eauto|].
      right. intros [y' [E Hy']]. injection E as <-. contradiction.
    - right. intros [y' [E _]]. discriminate. }
  destruct (list_ex_or_all P dec (Cl f)) as [[u [Hu [y [Hy Hyi]]]]|Hall].
  - exists y, u. auto.
  - exfalso. destruct (Cl_odd f Hf) as [k Hk].
    destruct (invol_even (length (Cl f)) (Cl f) (fun u => match pmate N u with Some y => y | None => u end) eq_refl) as [m Hm].
    + apply Cl_nodup.
    + intros u Hu. pose proof Hu as Hu'. apply Cl_spec in Hu'. destruct Hu' as [Huo Huf].
      destruct (Ocov u Huo) as [y [Hy [Hadj [Hne Hyu]]]]. rewrite Hy, Hyu.
      split; [|split; [exact Hne | reflexivity]].
      destruct (Closure u y Huo Hadj Hne) as [Hin|[Hyo Hfy]].
      * exfalso. apply (Hall u Hu). exists y. split; [exact Hy | apply Il_spec; exact Hin].
      * apply Cl_spec. split; [exact Hyo | congruence].
    + lia.
Qed.

Lemma R_inj f f' y : R f y -> R f' y -> f = f'.
Proof.
  intros [u [Hu [Hy _]]] [u' [Hu' [Hy' _]]].
  apply Cl_spec in Hu. apply Cl_spec in Hu'. destruct Hu as [_ <-]. destruct Hu' as [_ <-].
  f_equal. apply (medge_unique N y u u' HN); apply medge_sym, pmate_medge; assumption.
Qed.

Lemma against : False.
Proof.
  destruct (choose_list R (n :: Il) R_exists) as [L HL].
  assert (Hnd : NoDup L) by (apply (@Forall2_nodup _ _ R (n :: Il) L HL Il_nodup); intros a a' b; apply R_inj).
  assert (Hincl : incl L Il).
  { intros y Hy. destruct (@Forall2_In_r _ _ R (n :: Il) L y HL Hy) as [f [_ [u [_ [_ Hi]]]]]. exact Hi. }
  pose proof (NoDup_incl_length Hnd Hincl) as Hle.
  pose proof (@Forall2_len _ _ R (n :: Il) L HL) as Hlen. cbn [length] in Hlen. lia.
Qed.

End Against.

(* no matching of the graph covers the start and every matched vertex *)
Theorem cert_no_cover N : NoDup (endpoints N) -> (forall i j, In (i, j) N -> adjP i j /\ adjP j i) ->
  (forall x, M x <> None -> In x (endpoints N)) -> ~ In start (endpoints N).
Proof. intros H1 H2 H3 H4. exact (against N H1 H2 H3 H4). Qed.

End Cert.

Print Assumptions cert_no_cover.
