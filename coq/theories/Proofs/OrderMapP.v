(* C14, T1: the algebra of OrderMap (acyclic/order_map.rs): sorted association lists, and what
   add_node / remove_node / set_position / rename / try_from_graph do to the invariant [OInv]. *)
From Coq Require Import Sorted Permutation.
From PG Require Import Lib.Io Lib.ListExtra Model.View Model.Traversal Model.AcyclicM Model.AcyclicIO
                       Spec.Reach Spec.AcyclicSpec.

(* ------------------------------------------------------------------ *)
(* sorted association lists                                            *)

Lemma psorted_nil : psorted [].
Proof. constructor. Qed.

Lemma psorted_cons_iff p n l :
  psorted ((p, n) :: l) <-> psorted l /\ (forall q m, In (q, m) l -> p < q).
Proof.
  unfold psorted; cbn [map fst]. split.
  - intros H. apply StronglySorted_inv in H. destruct H as [Hs Hf]. split; [exact Hs|].
    intros q m Hin. rewrite Forall_forall in Hf. apply Hf. apply in_map_iff.
    exists (q, m); split; [reflexivity | exact Hin].
  - intros [Hs Hf]. constructor; [exact Hs|]. rewrite Forall_forall. intros q Hq.
    apply in_map_iff in Hq. destruct Hq as [[q' m] [E Hin]]. cbn [fst] in E; subst q'.
    eapply Hf; exact Hin.
Qed.

Lemma psorted_keys l : psorted l -> ascending (map fst l).
Proof. intros H; exact H. Qed.

Lemma in_keys (l : list (nat * nat)) q : In q (map fst l) <-> exists m, In (q, m) l.
Proof.
  rewrite in_map_iff. split.
  - intros [[q' m] [E Hin]]. cbn [fst] in E; subst q'. exists m; exact Hin.
  - intros [m Hin]. exists (q, m); split; [reflexivity | exact Hin].
Qed.

Lemma in_vals (l : list (nat * nat)) m : In m (map snd l) <-> exists q, In (q, m) l.
Proof.
  rewrite in_map_iff. split.
  - intros [[q m'] [E Hin]]. cbn [snd] in E; subst m'. exists q; exact Hin.
  - intros [q Hin]. exists (q, m); split; [reflexivity | exact Hin].
Qed.

Lemma assoc_sorted l p n : psorted l -> (assoc_nat l p = Some n <-> In (p, n) l).
Proof.
  induction l as [|[p0 n0] t IH]; intros Hs; cbn [assoc_nat In].
  - split; [discriminate | tauto].
  - apply psorted_cons_iff in Hs. destruct Hs as [Hst Hlt].
    destruct (Nat.eqb_spec p0 p) as [->|Hne].
    + split.
      * intros E; injection E as ->. left; reflexivity.
      * intros [E|Hin]; [injection E as ->; reflexivity|]. specialize (Hlt _ _ Hin). lia.
    + rewrite (IH Hst). split.
      * intros Hin; right; exact Hin.
      * intros [E|Hin]; [injection E as E1 E2; contradiction | exact Hin].
Qed.

(* a position is listed once *)
Lemma psorted_fun l p n m : psorted l -> In (p, n) l -> In (p, m) l -> n = m.
Proof.
  intros Hs H1 H2. apply (assoc_sorted l p n Hs) in H1. apply (assoc_sorted l p m Hs) in H2.
  congruence.
Qed.

Lemma p2n_insert_spec l p n : psorted l ->
  psorted (p2n_insert l p n) /\
  forall q m, In (q, m) (p2n_insert l p n) <-> (q = p /\ m = n) \/ (q <> p /\ In (q, m) l).
Proof.
  induction l as [|[p0 n0] t IH]; intros Hs.
  - cbn [p2n_insert]. split.
    + apply psorted_cons_iff. split; [apply psorted_nil | intros q m []].
    + intros q m. cbn [In]. split.
      * intros [E|[]]. injection E as <- <-. left; split; reflexivity.
      * intros [[-> ->]|[_ []]]. left; reflexivity.
  - apply psorted_cons_iff in Hs. destruct Hs as [Hst Hlt]. cbn [p2n_insert].
    destruct (Nat.eqb_spec p0 p) as [->|Hne].
    + split.
      * apply psorted_cons_iff. split; assumption.
      * intros q m. cbn [In]. split.
        -- intros [E|Hin]; [injection E as <- <-; left; split; reflexivity|].
           right. split; [specialize (Hlt _ _ Hin); lia | right; exact Hin].
        -- intros [[-> ->]|[Hq [E|Hin]]]; [left; reflexivity | injection E as E1 E2; congruence | right; exact Hin].
    + destruct (Nat.ltb_spec p p0) as [Hlt0|Hge].
      * split.
        -- apply psorted_cons_iff. split.
           ++ apply psorted_cons_iff. split; assumption.
           ++ intros q m [E|Hin]; [injection E as <- <-; exact Hlt0 | specialize (Hlt _ _ Hin); lia].
        -- intros q m. cbn [In]. split.
           ++ intros [E|[E|Hin]].
              ** injection E as <- <-. left; split; reflexivity.
              ** injection E as <- <-. right; split; [lia | left; reflexivity].
              ** right. split; [specialize (Hlt _ _ Hin); lia | right; exact Hin].
           ++ intros [[-> ->]|[Hq Hin]]; [left; reflexivity | right; exact Hin].
      * destruct (IH Hst) as [IHs IHi]. split.
        -- apply psorted_cons_iff. split; [exact IHs|]. intros q m Hin. apply IHi in Hin.
           destruct Hin as [[-> ->]|[_ Hin]]; [lia | eapply Hlt; exact Hin].
        -- intros q m. cbn [In]. rewrite IHi. split.
           ++ intros [E|[[-> ->]|[Hq Hin]]].
              ** injection E as <- <-. right; split; [exact Hne | left; reflexivity].
              ** left; split; reflexivity.
              ** right; split; [exact Hq | right; exact Hin].
           ++ intros [[-> ->]|[Hq [E|Hin]]].
              ** right; left; split; reflexivity.
              ** left; exact E.
              ** right; right; split; assumption.
Qed.

Lemma p2n_insert_sorted l p n : psorted l -> psorted (p2n_insert l p n).
Proof. intros H; apply (p2n_insert_spec l p n H). Qed.

Lemma p2n_insert_In l p n q m : psorted l ->
  (In (q, m) (p2n_insert l p n) <-> (q = p /\ m = n) \/ (q <> p /\ In (q, m) l)).
Proof. intros H; apply (p2n_insert_spec l p n H). Qed.

(* inserting above every key appends *)
Lemma p2n_insert_max l p n : (forall q m, In (q, m) l -> q < p) -> p2n_insert l p n = l ++ [(p, n)].
Proof.
  induction l as [|[p0 n0] t IH]; intros H; cbn [p2n_insert app]; [reflexivity|].
  assert (H0 : p0 < p) by (apply (H p0 n0); left; reflexivity).
  destruct (Nat.eqb_spec p0 p) as [E|_]; [lia|].
  destruct (Nat.ltb_spec p p0) as [L|_]; [lia|].
  f_equal. apply IH. intros q m Hin. apply (H q m). right; exact Hin.
Qed.

Lemma p2n_insert_keys l p n : psorted l -> In p (map fst l) ->
  map fst (p2n_insert l p n) = map fst l.
Proof.
  intros Hs Hin. apply ascending_ext.
  - apply (p2n_insert_sorted l p n Hs).
  - exact Hs.
  - intros q. rewrite !in_keys. split.
    + intros [m Hm]. apply (p2n_insert_In l p n q m Hs) in Hm.
      destruct Hm as [[-> ->]|[_ Hm]]; [apply in_keys; exact Hin | exists m; exact Hm].
    + intros [m Hm]. destruct (Nat.eq_dec q p) as [->|Hne].
      * exists n. apply (p2n_insert_In l p n p n Hs). left; split; reflexivity.
      * exists m. apply (p2n_insert_In l p n q m Hs). right; split; assumption.
Qed.

Lemma p2n_remove_spec l p : psorted l ->
  psorted (p2n_remove l p) /\ forall q m, In (q, m) (p2n_remove l p) <-> q <> p /\ In (q, m) l.
Proof.
  intros Hs. assert (Hin : forall q m, In (q, m) (p2n_remove l p) <-> q <> p /\ In (q, m) l).
  { intros q m. unfold p2n_remove. rewrite filter_In. cbn beta iota.
    destruct (Nat.eqb_spec q p) as [->|Hne]; cbn [negb]; split.
    - intros [_ E]; discriminate E.
    - intros [E _]; contradiction.
    - intros [H _]; split; assumption.
    - intros [_ H]; split; [exact H | reflexivity]. }
  split; [|exact Hin].
  clear Hin. induction l as [|[p0 n0] t IH]; [apply psorted_nil|].
  apply psorted_cons_iff in Hs. destruct Hs as [Hst Hlt].
  unfold p2n_remove. cbn [filter]. fold (p2n_remove t p).
  destruct (negb (Nat.eqb p0 p)); [|apply IH; exact Hst].
  apply psorted_cons_iff. split; [apply IH; exact Hst|].
  intros q m Hqm. unfold p2n_remove in Hqm. apply filter_In in Hqm. eapply Hlt; apply Hqm.
Qed.

(* a sorted list lists a node once when each node has one position *)
Lemma psorted_vals_nodup l : psorted l ->
  (forall p q n, In (p, n) l -> In (q, n) l -> p = q) -> NoDup (map snd l).
Proof.
  induction l as [|[p0 n0] t IH]; intros Hs Hf; cbn [map snd]; [constructor|].
  apply psorted_cons_iff in Hs. destruct Hs as [Hst Hlt]. constructor.
  - intros Hin. apply in_vals in Hin. destruct Hin as [q Hq].
    assert (E : p0 = q) by (apply (Hf p0 q n0); [left; reflexivity | right; exact Hq]).
    specialize (Hlt _ _ Hq). lia.
  - apply IH; [exact Hst|]. intros p q n H1 H2. apply (Hf p q n); right; assumption.
Qed.

(* the greatest key of a sorted list is its last *)
Lemma psorted_last l p x q m : psorted (l ++ [(p, x)]) -> In (q, m) (l ++ [(p, x)]) -> q <= p.
Proof.
  induction l as [|[p0 n0] t IH]; cbn [app]; intros Hs Hin.
  - destruct Hin as [E|[]]. injection E as <- <-. lia.
  - apply psorted_cons_iff in Hs. destruct Hs as [Hst Hlt]. destruct Hin as [E|Hin].
    + injection E as <- <-. assert (p0 < p); [|lia]. apply (Hlt p x). apply in_or_app; right; left; reflexivity.
    + apply IH; assumption.
Qed.

Definition next_pos (l : list (nat * nat)) : nat :=
  match rev l with (p, _) :: _ => S p | [] => 0 end.

Lemma next_pos_above l q m : psorted l -> In (q, m) l -> q < next_pos l.
Proof.
  intros Hs Hin. unfold next_pos. destruct (rev l) as [|[p x] r] eqn:E.
  - apply (f_equal (@rev _)) in E. rewrite rev_involutive in E. subst l. destruct Hin.
  - apply (f_equal (@rev _)) in E. rewrite rev_involutive in E. cbn [rev] in E. subst l.
    pose proof (psorted_last _ _ _ _ _ Hs Hin). lia.
Qed.

(* ------------------------------------------------------------------ *)
(* consequences of OInv                                                *)

Lemma OInv_ext (live live' : nat -> Prop) om :
  (forall n, live n <-> live' n) -> OInv live om -> OInv live' om.
Proof.
  intros E [Hs Hi Hl]. constructor; [exact Hs | |].
  - intros p n. rewrite Hi, E. reflexivity.
  - intros n Hn. apply Hl, E, Hn.
Qed.

Lemma OInv_listed live om n : OInv live om -> live n -> In (pos_or0 om n, n) (p2n om).
Proof.
  intros I Hn. apply (oi_in _ _ I). split; [exact Hn|].
  pose proof (oi_len _ _ I n Hn) as Hl. unfold pos_or0.
  apply nth_error_nth'. exact Hl.
Qed.

Lemma OInv_get_position live om n : OInv live om -> live n -> get_position om n = Ok (pos_or0 om n).
Proof.
  intros I Hn. pose proof (OInv_listed _ _ _ I Hn) as H. apply (oi_in _ _ I) in H.
  unfold get_position. rewrite (proj2 H). reflexivity.
Qed.

Lemma OInv_in_pos live om p n : OInv live om -> In (p, n) (p2n om) -> live n /\ pos_or0 om n = p.
Proof.
  intros I H. apply (oi_in _ _ I) in H. destruct H as [Hn E]. split; [exact Hn|].
  unfold pos_or0. apply nth_error_nth. exact E.
Qed.

(* two live nodes never share a position *)
Lemma OInv_pos_inj live om a b : OInv live om -> live a -> live b ->
  pos_or0 om a = pos_or0 om b -> a = b.
Proof.
  intros I Ha Hb E. pose proof (OInv_listed _ _ _ I Ha) as H1. pose proof (OInv_listed _ _ _ I Hb) as H2.
  rewrite E in H1. exact (psorted_fun _ _ _ _ (oi_sorted _ _ I) H1 H2).
Qed.

(* the order lists exactly the live nodes, each once *)
Lemma OInv_nodup live om : OInv live om -> NoDup (map snd (p2n om)).
Proof.
  intros I. apply psorted_vals_nodup; [apply (oi_sorted _ _ I)|].
  intros p q n H1 H2. apply (OInv_in_pos _ _ _ _ I) in H1. apply (OInv_in_pos _ _ _ _ I) in H2.
  destruct H1 as [_ <-]. destruct H2 as [_ <-]. reflexivity.
Qed.

Lemma OInv_live_iff live om n : OInv live om -> (In n (map snd (p2n om)) <-> live n).
Proof.
  intros I. rewrite in_vals. split.
  - intros [q Hq]. apply (OInv_in_pos _ _ _ _ I Hq).
  - intros Hn. exists (pos_or0 om n). apply (OInv_listed _ _ _ I Hn).
Qed.

Lemma at_position_iff live om p n : OInv live om -> (at_position om p = Some n <-> In (p, n) (p2n om)).
Proof. intros I. unfold at_position. apply assoc_sorted, (oi_sorted _ _ I). Qed.

Lemma at_position_get live om n : OInv live om -> live n -> at_position om (pos_or0 om n) = Some n.
Proof. intros I Hn. apply (at_position_iff _ _ _ _ I), (OInv_listed _ _ _ I Hn). Qed.

Lemma OInv_empty : OInv (fun _ => False) om_empty.
Proof.
  constructor; cbn [om_empty p2n n2p].
  - apply psorted_nil.
  - intros p n. split; [intros [] | intros [[] _]].
  - intros n [].
Qed.

(* everything one reads off an order map that satisfies the invariant *)
Lemma order_map_reading live om : OInv live om ->
  (forall p n : nat, at_position om p = Some n <-> In (p, n) (p2n om)) /\
  NoDup (map snd (p2n om)) /\
  (forall n : nat, In n (map snd (p2n om)) <-> live n) /\
  (forall a b : nat, live a -> live b -> pos_or0 om a = pos_or0 om b -> a = b) /\
  (forall n : nat, live n -> get_position om n = Ok (pos_or0 om n) /\ at_position om (pos_or0 om n) = Some n).
Proof.
  intros I. split; [intros p n; apply (at_position_iff live om p n I)|].
  split; [apply (OInv_nodup live om I)|]. split; [intros n; apply (OInv_live_iff live om n I)|].
  split; [intros a b; apply (OInv_pos_inj live om a b I)|].
  intros n Hn. split; [apply (OInv_get_position live om n I Hn) | apply (at_position_get live om n I Hn)].
Qed.

(* ------------------------------------------------------------------ *)
(* one fresh (position, node) pair                                     *)

Lemma om_insert_fresh live om idx pos :
  OInv live om -> ~ live idx -> idx < length (n2p om) -> (forall m, ~ In (pos, m) (p2n om)) ->
  OInv (fun n => n = idx \/ live n) (mkOm (p2n_insert (p2n om) pos idx) (upd (n2p om) idx pos)).
Proof.
  intros I Hni Hlen Hfresh. pose proof (oi_sorted _ _ I) as Hs. constructor; cbn [p2n n2p].
  - apply p2n_insert_sorted, Hs.
  - intros q m. rewrite (p2n_insert_In _ pos idx q m Hs), nth_error_upd.
    destruct (Nat.eqb_spec idx m) as [<-|Hne].
    + destruct (Nat.ltb_spec idx (length (n2p om))) as [_|Hge]; [|lia]. split.
      * intros [[-> _]|[_ Hin]]; [split; [left; reflexivity | reflexivity]|].
        apply (oi_in _ _ I) in Hin. destruct Hin as [Hl _]. contradiction.
      * intros [_ E]. injection E as <-. left; split; reflexivity.
    + split.
      * intros [[_ ->]|[_ Hin]]; [contradiction Hne; reflexivity|].
        apply (oi_in _ _ I) in Hin. destruct Hin as [Hl E]. split; [right; exact Hl | exact E].
      * intros [[->|Hl] E]; [contradiction Hne; reflexivity|]. right.
        assert (Hin : In (q, m) (p2n om)) by (apply (oi_in _ _ I); split; assumption).
        split; [|exact Hin]. intros ->. exact (Hfresh m Hin).
  - intros n Hn. rewrite upd_length. destruct Hn as [->|Hn]; [exact Hlen | apply (oi_len _ _ I n Hn)].
Qed.

Lemma nth_app_zeros (l : list nat) k n : nth n (l ++ repeat 0 k) 0 = nth n l 0.
Proof.
  destruct (Nat.lt_ge_cases n (length l)) as [H|H].
  - apply app_nth1; exact H.
  - rewrite app_nth2 by exact H. rewrite (nth_overflow l) by exact H.
    destruct (Nat.lt_ge_cases (n - length l) k) as [H2|H2].
    + apply nth_repeat.
    + apply nth_overflow. rewrite repeat_length. exact H2.
Qed.

Lemma pos_or0_upd_other (n2 : list nat) idx pos n : n <> idx ->
  nth n (upd n2 idx pos) 0 = nth n n2 0.
Proof.
  intros Hne. rewrite nth_upd. destruct (Nat.eqb_spec idx n) as [->|_]; [contradiction Hne; reflexivity|].
  reflexivity.
Qed.

(* ------------------------------------------------------------------ *)
(* add_node                                                            *)

Lemma om_add_node_ok live om idx bound :
  OInv live om -> ~ live idx -> idx < bound ->
  exists np om', om_add_node om idx bound = Ok (np, om') /\
    OInv (fun n => n = idx \/ live n) om' /\
    (forall q m, In (q, m) (p2n om) -> q < np) /\
    p2n om' = p2n om ++ [(np, idx)] /\
    pos_or0 om' idx = np /\
    (forall n, n <> idx -> pos_or0 om' n = pos_or0 om n) /\
    (forall n, n < length (n2p om) -> n <> idx -> nth_error (n2p om') n = nth_error (n2p om) n).
Proof.
  intros I Hni Hb. pose proof (oi_sorted _ _ I) as Hs.
  unfold om_add_node. fold (next_pos (p2n om)). set (np := next_pos (p2n om)).
  set (n2' := if Nat.leb (length (n2p om)) idx
              then n2p om ++ repeat 0 (bound - length (n2p om)) else n2p om).
  assert (Hidx : idx < length n2').
  { unfold n2'. destruct (Nat.leb_spec (length (n2p om)) idx) as [H|H]; [|exact H].
    rewrite app_length, repeat_length. lia. }
  assert (Hpre : forall n, n < length (n2p om) -> nth_error n2' n = nth_error (n2p om) n).
  { intros n Hn. unfold n2'. destruct (Nat.leb (length (n2p om)) idx); [|reflexivity].
    rewrite ListExtra.nth_error_app. destruct (Nat.ltb_spec n (length (n2p om))); [reflexivity | lia]. }
  assert (Hnth : forall n, nth n n2' 0 = nth n (n2p om) 0).
  { intros n. unfold n2'. destruct (Nat.leb (length (n2p om)) idx); [apply nth_app_zeros | reflexivity]. }
  assert (I1 : OInv live (mkOm (p2n om) n2')).
  { constructor; cbn [p2n n2p].
    - exact Hs.
    - intros p n. rewrite (oi_in _ _ I). split.
      + intros [Hl E]. split; [exact Hl|]. rewrite Hpre; [exact E | apply (oi_len _ _ I n Hl)].
      + intros [Hl E]. split; [exact Hl|]. rewrite <- Hpre; [exact E | apply (oi_len _ _ I n Hl)].
    - intros n Hl. pose proof (oi_len _ _ I n Hl) as H. unfold n2'.
      destruct (Nat.leb (length (n2p om)) idx); [rewrite app_length; lia | exact H]. }
  assert (Habove : forall q m, In (q, m) (p2n om) -> q < np).
  { intros q m Hin. apply (next_pos_above _ _ _ Hs Hin). }
  destruct (Nat.ltb_spec idx (length n2')) as [_|Hge]; [|lia].
  exists np, (mkOm (p2n_insert (p2n om) np idx) (upd n2' idx np)).
  split; [reflexivity|]. split.
  { apply (om_insert_fresh live (mkOm (p2n om) n2') idx np I1 Hni Hidx).
    intros m Hin. cbn [p2n] in Hin. specialize (Habove _ _ Hin). lia. }
  split; [exact Habove|]. cbn [p2n n2p]. split; [apply p2n_insert_max; exact Habove|].
  split.
  { unfold pos_or0; cbn [n2p]. rewrite nth_upd, Nat.eqb_refl.
    destruct (Nat.ltb_spec idx (length n2')); [reflexivity | lia]. }
  split.
  - intros n Hne. unfold pos_or0; cbn [n2p]. rewrite pos_or0_upd_other; [apply Hnth | exact Hne].
  - intros n Hn Hne. rewrite nth_error_upd_neq by (intros E; apply Hne; symmetry; exact E).
    apply Hpre; exact Hn.
Qed.

(* ------------------------------------------------------------------ *)
(* remove_node                                                         *)

Lemma om_remove_node_ok live om idx :
  OInv live om -> live idx ->
  exists om', om_remove_node om idx = Ok om' /\
    OInv (fun n => live n /\ n <> idx) om' /\
    p2n om' = p2n_remove (p2n om) (pos_or0 om idx) /\
    (forall q m, In (q, m) (p2n om') <-> In (q, m) (p2n om) /\ m <> idx) /\
    (forall n, n <> idx -> pos_or0 om' n = pos_or0 om n) /\
    length (n2p om') = length (n2p om).
Proof.
  intros I Hl. pose proof (oi_sorted _ _ I) as Hs.
  unfold om_remove_node. rewrite (OInv_get_position _ _ _ I Hl). cbn [rbind].
  set (pos := pos_or0 om idx).
  destruct (p2n_remove_spec (p2n om) pos Hs) as [Hrs Hri].
  assert (Hidx : In (pos, idx) (p2n om)) by (apply (OInv_listed _ _ _ I Hl)).
  assert (Hchar : forall q m, In (q, m) (p2n_remove (p2n om) pos) <-> In (q, m) (p2n om) /\ m <> idx).
  { intros q m. rewrite Hri. split.
    - intros [Hq Hin]. split; [exact Hin|]. intros ->.
      apply Hq. apply (OInv_in_pos _ _ _ _ I) in Hin. destruct Hin as [_ E]. symmetry; exact E.
    - intros [Hin Hm]. split; [|exact Hin]. intros ->.
      apply Hm. exact (psorted_fun _ _ _ _ Hs Hin Hidx). }
  eexists. split; [reflexivity|]. cbn [p2n n2p]. split.
  { constructor; cbn [p2n n2p].
    - exact Hrs.
    - intros q m. rewrite Hchar, (oi_in _ _ I), nth_error_upd.
      destruct (Nat.eqb_spec idx m) as [<-|Hne].
      + split; [intros [_ H]; contradiction H; reflexivity | intros [[_ H] _]; contradiction H; reflexivity].
      + split.
        * intros [[Hm E] Hx]. split; [split; assumption | exact E].
        * intros [[Hm Hx] E]. split; [split; assumption | exact Hx].
    - intros n [Hn _]. rewrite upd_length. apply (oi_len _ _ I n Hn). }
  split; [reflexivity|]. split; [exact Hchar|]. split.
  - intros n Hne. unfold pos_or0; cbn [n2p]. apply pos_or0_upd_other; exact Hne.
  - apply upd_length.
Qed.

(* ------------------------------------------------------------------ *)
(* set_position and a batch of them                                    *)

Lemma om_set_position_ok om idx pos : idx < length (n2p om) ->
  om_set_position om idx pos = Ok (mkOm (p2n_insert (p2n om) pos idx) (upd (n2p om) idx pos)).
Proof.
  intros H. unfold om_set_position. destruct (Nat.ltb_spec idx (length (n2p om))); [reflexivity | lia].
Qed.

(* a list of (position, node) assignments with distinct positions and distinct nodes acts as a
   simultaneous assignment *)
Lemma set_positions_spec l : forall om,
  psorted (p2n om) -> NoDup (map fst l) -> NoDup (map snd l) ->
  (forall n, In n (map snd l) -> n < length (n2p om)) ->
  exists om', set_positions om l = Ok om' /\ psorted (p2n om') /\
    length (n2p om') = length (n2p om) /\
    (forall q m, In (q, m) (p2n om') <-> In (q, m) l \/ (~ In q (map fst l) /\ In (q, m) (p2n om))) /\
    (forall q n, In (q, n) l -> nth_error (n2p om') n = Some q) /\
    (forall n, ~ In n (map snd l) -> nth_error (n2p om') n = nth_error (n2p om) n).
Proof.
  induction l as [|[p n] rest IH]; intros om Hs Hnp Hnn Hlen.
  - exists om. cbn [set_positions map In]. split; [reflexivity|]. split; [exact Hs|]. split; [reflexivity|].
    split; [|split].
    + intros q m. tauto.
    + intros q x [].
    + intros x _. reflexivity.
  - cbn [map fst snd] in Hnp, Hnn, Hlen. inversion Hnp as [|p' r' Hp Hnp']; subst.
    inversion Hnn as [|n' r' Hn Hnn']; subst.
    assert (Hnl : n < length (n2p om)) by (apply Hlen; left; reflexivity).
    cbn [set_positions]. rewrite (om_set_position_ok om n p Hnl). cbn [rbind].
    set (om1 := mkOm (p2n_insert (p2n om) p n) (upd (n2p om) n p)).
    destruct (IH om1) as [om' [Er [Hs' [Hl' [Hin' [Hset' Hoth']]]]]].
    + apply p2n_insert_sorted, Hs.
    + exact Hnp'.
    + exact Hnn'.
    + intros x Hx. cbn [om1 n2p]. rewrite upd_length. apply Hlen; right; exact Hx.
    + exists om'. split; [exact Er|]. split; [exact Hs'|]. split.
      { rewrite Hl'. cbn [om1 n2p]. apply upd_length. }
      split; [|split].
      * intros q m. rewrite Hin'. cbn [om1 p2n]. rewrite (p2n_insert_In _ p n q m Hs).
        cbn [map fst In]. split.
        -- intros [Hr|[Hq [[-> ->]|[Hqp Hold]]]].
           ++ left; right; exact Hr.
           ++ left; left; reflexivity.
           ++ right. split; [|exact Hold]. intros [E|Hr]; [apply Hqp; symmetry; exact E | exact (Hq Hr)].
        -- intros [[E|Hr]|[Hq Hold]].
           ++ injection E as <- <-. right. split; [exact Hp | left; split; reflexivity].
           ++ left; exact Hr.
           ++ right. split; [intros Hr; apply Hq; right; exact Hr|]. right.
              split; [intros ->; apply Hq; left; reflexivity | exact Hold].
      * intros q x [E|Hr].
        -- injection E as <- <-. rewrite (Hoth' n Hn). cbn [om1 n2p]. apply nth_error_upd_eq, Hnl.
        -- apply (Hset' q x Hr).
      * intros x Hx. cbn [map snd In] in Hx. rewrite Hoth' by (intros Hr; apply Hx; right; exact Hr).
        cbn [om1 n2p]. apply nth_error_upd_neq. intros ->. apply Hx; left; reflexivity.
Qed.

(* permuting the positions of some live nodes among themselves keeps the invariant *)
Lemma set_positions_perm live om l :
  OInv live om -> NoDup (map fst l) -> NoDup (map snd l) ->
  (forall n, In n (map snd l) -> live n) ->
  (forall q, In q (map fst l) <-> exists n, In n (map snd l) /\ pos_or0 om n = q) ->
  exists om', set_positions om l = Ok om' /\ OInv live om' /\
    map fst (p2n om') = map fst (p2n om) /\
    length (n2p om') = length (n2p om) /\
    (forall q n, In (q, n) l -> pos_or0 om' n = q) /\
    (forall n, ~ In n (map snd l) -> pos_or0 om' n = pos_or0 om n).
Proof.
  intros I Hnp Hnn Hlive Hpos. pose proof (oi_sorted _ _ I) as Hs.
  destruct (set_positions_spec l om Hs Hnp Hnn) as [om' [Er [Hs' [Hl' [Hin' [Hset' Hoth']]]]]].
  { intros n Hn. apply (oi_len _ _ I), Hlive, Hn. }
  exists om'. split; [exact Er|].
  assert (Hnew : forall q n, In (q, n) l -> pos_or0 om' n = q).
  { intros q n Hqn. unfold pos_or0. apply nth_error_nth. apply (Hset' q n Hqn). }
  assert (Hold : forall n, ~ In n (map snd l) -> pos_or0 om' n = pos_or0 om n).
  { intros n Hn. unfold pos_or0. destruct (nth_error (n2p om) n) as [x|] eqn:E.
    - rewrite (nth_error_nth _ _ _ E). apply nth_error_nth. rewrite (Hoth' n Hn). exact E.
    - rewrite !nth_overflow; [reflexivity | apply nth_error_None; exact E |].
      apply nth_error_None. rewrite (Hoth' n Hn). exact E. }
  split; [|split; [|split; [exact Hl' | split; [exact Hnew | exact Hold]]]].
  - constructor.
    + exact Hs'.
    + intros q m. rewrite Hin'. split.
      * intros [Hqm|[Hq Hqm]].
        -- split; [apply Hlive, in_vals; exists q; exact Hqm | apply (Hset' q m Hqm)].
        -- pose proof (proj1 (oi_in _ _ I q m) Hqm) as [Hm E]. split; [exact Hm|].
           rewrite Hoth'; [exact E|]. intros Hml. apply Hq. apply Hpos. exists m. split; [exact Hml|].
           unfold pos_or0. apply nth_error_nth. exact E.
      * intros [Hm E]. destruct (in_dec Nat.eq_dec m (map snd l)) as [Hml|Hml].
        -- left. apply in_vals in Hml. destruct Hml as [q' Hq']. rewrite (Hset' q' m Hq') in E.
           injection E as <-. exact Hq'.
        -- right. rewrite (Hoth' m Hml) in E.
           assert (Hqm : In (q, m) (p2n om)) by (apply (oi_in _ _ I); split; assumption).
           split; [|exact Hqm]. intros Hq. apply Hpos in Hq. destruct Hq as [n [Hnl En]].
           apply Hml. assert (n = m); [|subst; exact Hnl].
           pose proof (OInv_listed _ _ _ I (Hlive n Hnl)) as Hn. rewrite En in Hn.
           exact (psorted_fun _ _ _ _ Hs Hn Hqm).
    + intros n Hn. rewrite Hl'. apply (oi_len _ _ I n Hn).
  - apply ascending_ext; [exact Hs' | exact Hs|]. intros q. rewrite !in_keys. split.
    + intros [m Hm]. apply Hin' in Hm. destruct Hm as [Hm|[_ Hm]]; [|exists m; exact Hm].
      assert (Hq : In q (map fst l)) by (apply in_keys; exists m; exact Hm).
      apply Hpos in Hq. destruct Hq as [n [Hnl <-]]. exists n. apply (OInv_listed _ _ _ I (Hlive n Hnl)).
    + intros [m Hm]. destruct (in_dec Nat.eq_dec q (map fst l)) as [Hq|Hq].
      * apply in_keys in Hq. destruct Hq as [m' Hm']. exists m'. apply Hin'. left; exact Hm'.
      * exists m. apply Hin'. right; split; assumption.
Qed.

(* ------------------------------------------------------------------ *)
(* rename (Graph::remove_node moved the last node into the vacated index) *)

Lemma om_rename_ok live om from to :
  OInv live om -> live from -> ~ live to -> to < length (n2p om) ->
  exists om', om_rename om from to = Ok om' /\
    OInv (fun n => n = to \/ (live n /\ n <> from)) om' /\
    pos_or0 om' to = pos_or0 om from /\
    (forall n, n <> from -> n <> to -> pos_or0 om' n = pos_or0 om n) /\
    map fst (p2n om') = map fst (p2n om) /\
    (forall q m, In (q, m) (p2n om') <->
       (q = pos_or0 om from /\ m = to) \/ (In (q, m) (p2n om) /\ m <> from)).
Proof.
  intros I Hf Hnt Hlen. pose proof (oi_sorted _ _ I) as Hs.
  unfold om_rename. rewrite (OInv_get_position _ _ _ I Hf). cbn [rbind].
  destruct (Nat.ltb_spec to (length (n2p om))) as [_|Hge]; [|lia].
  set (pos := pos_or0 om from).
  assert (Hfrom : In (pos, from) (p2n om)) by (apply (OInv_listed _ _ _ I Hf)).
  assert (Hft : from <> to) by (intros ->; contradiction).
  assert (Hchar : forall q m, In (q, m) (p2n_insert (p2n om) pos to) <->
            (q = pos /\ m = to) \/ (In (q, m) (p2n om) /\ m <> from)).
  { intros q m. rewrite (p2n_insert_In _ pos to q m Hs). split.
    - intros [H|[Hq Hin]]; [left; exact H|]. right. split; [exact Hin|]. intros ->.
      apply Hq. apply (OInv_in_pos _ _ _ _ I) in Hin. destruct Hin as [_ E]. symmetry; exact E.
    - intros [H|[Hin Hm]]; [left; exact H|]. right. split; [|exact Hin]. intros ->.
      apply Hm. exact (psorted_fun _ _ _ _ Hs Hin Hfrom). }
  eexists. split; [reflexivity|]. cbn [p2n n2p]. split.
  { constructor; cbn [p2n n2p].
    - apply p2n_insert_sorted, Hs.
    - intros q m. rewrite Hchar, !nth_error_upd, !upd_length.
      destruct (Nat.eqb_spec to m) as [<-|Hne].
      + destruct (Nat.ltb_spec to (length (n2p om))) as [_|Hge]; [|lia]. split.
        * intros [[-> _]|[Hin _]]; [split; [left; reflexivity | reflexivity]|].
          apply (oi_in _ _ I) in Hin. destruct Hin as [Hl _]. contradiction.
        * intros [_ E]. injection E as <-. left; split; reflexivity.
      + destruct (Nat.eqb_spec from m) as [<-|Hne2].
        * split.
          -- intros [[_ ->]|[_ H]]; [contradiction Hne; reflexivity | contradiction H; reflexivity].
          -- intros [[->|[_ H]] _]; [contradiction Hne; reflexivity | contradiction H; reflexivity].
        * rewrite (oi_in _ _ I). split.
          -- intros [[_ ->]|[[Hm E] Hx]]; [contradiction Hne; reflexivity|].
             split; [right; split; assumption | exact E].
          -- intros [[->|[Hm Hx]] E]; [contradiction Hne; reflexivity|]. right. split; [split; assumption | exact Hx].
    - intros n Hn. rewrite !upd_length. destruct Hn as [->|[Hn _]]; [exact Hlen | apply (oi_len _ _ I n Hn)]. }
  split.
  { unfold pos_or0; cbn [n2p]. rewrite nth_upd, Nat.eqb_refl, upd_length.
    destruct (Nat.ltb_spec to (length (n2p om))); [reflexivity | lia]. }
  split.
  { intros n Hn1 Hn2. unfold pos_or0; cbn [n2p].
    rewrite pos_or0_upd_other; [|exact Hn2]. apply pos_or0_upd_other; exact Hn1. }
  split; [|exact Hchar].
  apply p2n_insert_keys; [exact Hs|]. apply in_keys. exists from. exact Hfrom.
Qed.

(* ------------------------------------------------------------------ *)
(* try_from_graph: positions 0, 1, 2, ... along a topological order    *)

Definition topo_step (acc : res omap) (x : nat * nat) : res omap :=
  let '(i, id) := x in
  rbind acc (fun om =>
    if Nat.ltb id (length (n2p om))
    then Ok (mkOm (p2n_insert (p2n om) i id) (upd (n2p om) id i)) else Panic).

Lemma om_from_topo_fold l : forall s live om,
  OInv live om -> (forall q m, In (q, m) (p2n om) -> q < s) ->
  NoDup l -> (forall n, In n l -> ~ live n /\ n < length (n2p om)) ->
  exists om', fold_left topo_step (combine (seq s (length l)) l) (Ok om) = Ok om' /\
    OInv (fun n => In n l \/ live n) om' /\
    p2n om' = p2n om ++ combine (seq s (length l)) l /\
    length (n2p om') = length (n2p om) /\
    (forall i n, nth_error l i = Some n -> pos_or0 om' n = s + i) /\
    (forall n, ~ In n l -> pos_or0 om' n = pos_or0 om n).
Proof.
  induction l as [|a rest IH]; intros s live om I Hlt Hnd Hl.
  - exists om. cbn [length seq combine fold_left]. split; [reflexivity|]. split.
    { eapply OInv_ext; [|exact I]. intros n; cbn [In]; tauto. }
    split; [rewrite app_nil_r; reflexivity|]. split; [reflexivity|]. split.
    + intros i n Hn. destruct i; discriminate Hn.
    + intros n _. reflexivity.
  - inversion Hnd as [|a' r' Ha Hnd']; subst.
    destruct (Hl a (or_introl eq_refl)) as [Hal Han].
    cbn [length seq combine fold_left]. cbn [topo_step rbind].
    destruct (Nat.ltb_spec a (length (n2p om))) as [_|Hge]; [|lia].
    set (om1 := mkOm (p2n_insert (p2n om) s a) (upd (n2p om) a s)).
    assert (I1 : OInv (fun n => n = a \/ live n) om1).
    { apply om_insert_fresh; [exact I | exact Hal | exact Han|].
      intros m Hin. specialize (Hlt _ _ Hin). lia. }
    assert (Hp1 : p2n om1 = p2n om ++ [(s, a)]) by (apply p2n_insert_max; exact Hlt).
    destruct (IH (S s) (fun n => n = a \/ live n) om1 I1) as [om' [Er [I' [Hp' [Hl' [Hnew Hold]]]]]].
    + intros q m Hin. rewrite Hp1 in Hin. apply in_app_or in Hin.
      destruct Hin as [Hin|[E|[]]]; [specialize (Hlt _ _ Hin); lia | injection E as <- <-; lia].
    + exact Hnd'.
    + intros n Hn. destruct (Hl n (or_intror Hn)) as [H1 H2]. split.
      * intros [->|H]; [contradiction | contradiction].
      * cbn [om1 n2p]. rewrite upd_length. exact H2.
    + exists om'. split; [exact Er|]. split.
      { eapply OInv_ext; [|exact I']. intros n. cbn [In]. split.
        - intros [H|[->|H]]; [left; right; exact H | left; left; reflexivity | right; exact H].
        - intros [[->|H]|H]; [right; left; reflexivity | left; exact H | right; right; exact H]. }
      split; [rewrite Hp', Hp1, <- app_assoc; reflexivity|].
      split; [rewrite Hl'; cbn [om1 n2p]; apply upd_length|]. split.
      * intros i n Hn. destruct i as [|i]; cbn [nth_error] in Hn.
        -- injection Hn as <-. rewrite (Hold a Ha). unfold pos_or0; cbn [om1 n2p].
           rewrite nth_upd, Nat.eqb_refl. destruct (Nat.ltb_spec a (length (n2p om))); [cbn [andb]; lia | lia].
        -- rewrite (Hnew i n Hn). lia.
      * intros n Hn. cbn [In] in Hn. rewrite Hold by (intros H; apply Hn; right; exact H).
        unfold pos_or0; cbn [om1 n2p]. apply pos_or0_upd_other.
        intros ->. apply Hn; left; reflexivity.
Qed.

Lemma om_from_topo_ok order bound :
  NoDup order -> (forall n, In n order -> n < bound) ->
  exists om, om_from_topo order bound = Ok om /\
    OInv (fun n => In n order) om /\
    p2n om = combine (seq 0 (length order)) order /\
    length (n2p om) = bound /\
    (forall i n, nth_error order i = Some n -> pos_or0 om n = i).
Proof.
  intros Hnd Hb. unfold om_from_topo.
  change (fun (acc : res omap) '(i, id) => rbind acc (fun om : omap =>
            if id <? length (n2p om)
            then Ok {| p2n := p2n_insert (p2n om) i id; n2p := upd (n2p om) id i |} else Panic))
    with topo_step.
  destruct (om_from_topo_fold order 0 (fun _ => False) (mkOm [] (repeat 0 bound)))
    as [om' [Er [I' [Hp' [Hl' [Hnew _]]]]]].
  - constructor; cbn [p2n n2p]; [apply psorted_nil | | intros n []].
    intros p n. split; [intros [] | intros [[] _]].
  - intros q m [].
  - exact Hnd.
  - intros n Hn. split; [intros [] | cbn [n2p]; rewrite repeat_length; apply Hb, Hn].
  - exists om'. split; [exact Er|]. split.
    { eapply OInv_ext; [|exact I']. intros n; tauto. }
    split; [exact Hp'|]. split; [rewrite Hl'; cbn [n2p]; apply repeat_length|].
    intros i n Hn. rewrite (Hnew i n Hn). reflexivity.
Qed.
