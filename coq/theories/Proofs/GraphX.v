(* Further public operations: weight updates, update_edge, retain_edges, retain_nodes. *)
From Coq Require Import Permutation.
From PG Require Import Lib.ListArr Lib.Walk Model.GraphM
  Proofs.GraphP Proofs.GraphQ Proofs.GraphRE Proofs.GraphRN Proofs.GraphH Proofs.GraphT.
Set Implicit Arguments.

(* the descending swap_remove loop keeps the already visited tail *)
Lemma swap_remove_keep_tail {A} (keep : A -> bool) (l : list A) i :
  i < length l ->
  (forall j x, i < j -> nth_error l j = Some x -> keep x = true) ->
  forall j x, i <= j -> nth_error (swap_remove l i) j = Some x -> keep x = true.
Proof.
  intros Hi Hk j x Hj. rewrite swap_remove_nth by auto.
  destruct (Nat.eqb_spec j i) as [->|Hne].
  - destruct (Nat.eqb_spec i (length l - 1)); [discriminate|].
    apply Hk. lia.
  - destruct (Nat.ltb_spec j (length l - 1)); [|discriminate].
    apply Hk. lia.
Qed.

Lemma filter_all_nth {A} (keep : A -> bool) (l : list A) :
  (forall j x, nth_error l j = Some x -> keep x = true) -> filter keep l = l.
Proof.
  intros H. apply filter_all. apply Forall_forall. intros x Hx.
  apply In_nth_error in Hx. destruct Hx as [j Hj]. eauto.
Qed.

Lemma filter_swap_remove_perm {A} (keep : A -> bool) (l : list A) i x :
  nth_error l i = Some x -> keep x = false ->
  Permutation (filter keep (swap_remove l i)) (filter keep l).
Proof.
  intros Hx Hk. pose proof (swap_remove_perm _ _ Hx) as P.
  apply (Permutation_filter keep) in P. simpl in P. rewrite Hk in P.
  apply Permutation_sym. exact P.
Qed.

Section GraphX.
  Context {NW EW : Type}.
  Variable cap : nat.
  Variable capcheck : bool.
  Variable debug : bool.

  Notation graph := (graph NW EW).
  Notation adj := (@adj NW EW cap).
  Notation GInv := (@GInv NW EW cap).
  Notation adjf := (@adjf NW EW cap).

  (* a change that touches no link and no endpoint *)
  Lemma GInv_same_links (g g' : graph) :
    GInv g ->
    length (gnodes g') = length (gnodes g) -> length (gedges g') = length (gedges g) ->
    (forall k, dir_same k g g') ->
    (forall k x, epo (gedges g') k x = epo (gedges g) k x) ->
    GInv g' /\ forall k i, adjf g' k i = adjf g k i.
  Proof.
    intros I Hn He D Ep.
    assert (I' : GInv g').
    { apply GInv_intro.
      - rewrite Hn. apply (gi_ncap I).
      - rewrite He. apply (gi_ecap I).
      - intros k x i. rewrite Ep, Hn. intros Hx. apply (GInv_epo_lt _ _ I Hx).
      - intros k i. rewrite Hn. intros Hi.
        destruct (gi_adj I k Hi) as [l [Hl C]]. exists l. split.
        + apply (dir_same_adj (D k)). auto.
        + intros x. rewrite Ep. apply C. }
    split; auto. intros k i.
    destruct (Nat.lt_ge_cases i (length (gnodes g))) as [Hi|Hi].
    - apply adjf_adj; [apply (gi_ecap I')|]. apply (dir_same_adj (D k)). apply adj_adjf; auto.
    - rewrite !adjf_oob; auto; try apply (gi_ecap I); try apply (gi_ecap I'). lia.
  Qed.

  Theorem set_edge_weight_spec (g : graph) e w :
    GInv g ->
    (length (gedges g) <= e -> set_edge_weight g e w = None) /\
    (e < length (gedges g) ->
       exists g', set_edge_weight g e w = Some g' /\ GInv g' /\
         gnodes g' = gnodes g /\
         map (@enode EW) (gedges g') = map (@enode EW) (gedges g) /\
         map (@ewt EW) (gedges g') = upd (map (@ewt EW) (gedges g)) e w /\
         forall k i, adjf g' k i = adjf g k i).
  Proof.
    intros I. unfold set_edge_weight. split.
    - intros H. rewrite (proj2 (nth_error_None (gedges g) e)); auto.
    - intros He. destruct (nth_error_lt_Some _ He) as [ed Hed]. rewrite Hed.
      eexists; split; [reflexivity|].
      set (g' := mkGraph (gnodes g) (upd (gedges g) e (mkEdge w (enext ed) (enode ed)))).
      assert (Hnth : forall x, option_map (fun d => (enext d, enode d)) (nth_error (gedges g') x) =
                               option_map (fun d => (enext d, enode d)) (nth_error (gedges g) x)).
      { intros x. unfold g'. simpl. rewrite nth_error_upd.
        destruct (Nat.eqb_spec e x) as [<-|]; auto.
        destruct (Nat.ltb_spec e (length (gedges g))); [|lia]. rewrite Hed. reflexivity. }
      destruct (@GInv_same_links g g' I) as [I' A].
      + reflexivity.
      + unfold g'. simpl. apply upd_length.
      + intros k. split; auto. intros x. unfold nxe. specialize (Hnth x).
        destruct (nth_error (gedges g') x), (nth_error (gedges g) x); simpl in *; congruence.
      + intros k x. unfold epo. specialize (Hnth x).
        destruct (nth_error (gedges g') x), (nth_error (gedges g) x); simpl in *; congruence.
      + split; auto. split; auto. split; [|split; auto].
        * unfold g'. simpl. eapply map_upd_same; eauto.
        * unfold g'. simpl. rewrite map_upd. reflexivity.
  Qed.

  Theorem set_node_weight_spec (g : graph) a w :
    GInv g ->
    (length (gnodes g) <= a -> set_node_weight g a w = None) /\
    (a < length (gnodes g) ->
       exists g', set_node_weight g a w = Some g' /\ GInv g' /\
         gedges g' = gedges g /\
         map (@nwt NW) (gnodes g') = upd (map (@nwt NW) (gnodes g)) a w /\
         forall k i, adjf g' k i = adjf g k i).
  Proof.
    intros I. unfold set_node_weight. split.
    - intros H. rewrite (proj2 (nth_error_None (gnodes g) a)); auto.
    - intros Ha. destruct (nth_error_lt_Some _ Ha) as [n Hn]. rewrite Hn.
      eexists; split; [reflexivity|].
      set (g' := mkGraph (upd (gnodes g) a (mkNode w (nnext n))) (gedges g)).
      destruct (@GInv_same_links g g' I) as [I' A].
      + unfold g'. simpl. apply upd_length.
      + reflexivity.
      + intros k. split; auto. intros j. unfold hdn, g'. simpl. rewrite nth_error_upd.
        destruct (Nat.eqb_spec a j) as [<-|]; auto.
        destruct (Nat.ltb_spec a (length (gnodes g))); [|lia]. rewrite Hn. reflexivity.
      + reflexivity.
      + split; auto. split; auto. split; auto.
        unfold g'. simpl. rewrite map_upd. reflexivity.
  Qed.

  (* update_edge: the weight of the edge find_edge returns is replaced, else add_edge *)
  Theorem try_update_edge_spec (directed : bool) (g : graph) a b w :
    GInv g ->
    exists o, find_edge directed g a b = Ok o /\
      match o with
      | Some ix =>
          ix < length (gedges g) /\
          exists g', set_edge_weight g ix w = Some g' /\
                     try_update_edge cap capcheck directed g a b w = Ok (inr ix, g')
      | None =>
          try_update_edge cap capcheck directed g a b w = Ok (try_add_edge cap capcheck g a b w)
      end.
  Proof.
    intros I. unfold try_update_edge.
    assert (Hf : exists o, find_edge directed g a b = Ok o /\
                           forall ix, o = Some ix -> ix < length (gedges g)).
    { destruct directed.
      - rewrite (find_edge_directed I). eexists; split; [reflexivity|].
        intros ix H. apply find_some in H. destruct H as [H _]. eapply adjf_lt; eauto.
      - rewrite (find_edge_undirected_spec I). eexists; split; [reflexivity|].
        intros ix H.
        destruct (find (fun x => Nat.eqb (tgt g x) b) (adjf g 0 a)) as [e0|] eqn:E0.
        + injection H as <-. apply find_some in E0. destruct E0 as [H _]. eapply adjf_lt; eauto.
        + apply find_some in H. destruct H as [H _]. eapply adjf_lt; eauto. }
    destruct Hf as [o [Ef Hlt]]. exists o. split; auto. rewrite Ef. cbn [rbind].
    destruct o as [ix|]; auto.
    specialize (Hlt ix eq_refl). split; auto.
    destruct (proj2 (@set_edge_weight_spec g ix w I) Hlt) as [g' [Es _]].
    exists g'. rewrite Es. auto.
  Qed.

  (* ------------------------------------------------------------------ *)
  (* retain_edges                                                        *)

  Lemma retain_edges_loop_spec (keep : EW -> bool) : forall todo (g : graph),
    GInv g -> todo <= length (gedges g) ->
    (forall j x, todo <= j -> nth_error (map (@ewt EW) (gedges g)) j = Some x -> keep x = true) ->
    exists g', retain_edges_loop debug keep g todo = Ok g' /\ GInv g' /\
      map (@nwt NW) (gnodes g') = map (@nwt NW) (gnodes g) /\
      Permutation (etrip g') (filter (fun t => keep (snd t)) (etrip g)).
  Proof.
    induction todo as [|i IH]; intros g I Ht Hk; cbn [retain_edges_loop].
    - exists g. split; auto. split; auto. split; auto.
      rewrite filter_all_nth; auto.
      intros j t Hj. unfold etrip in Hj. rewrite nth_error_map in Hj.
      destruct (nth_error (gedges g) j) as [ed|] eqn:E; simpl in Hj; [|discriminate].
      injection Hj as <-. simpl. apply (Hk j); [lia|]. rewrite nth_error_map, E. reflexivity.
    - assert (Hi : i < length (gedges g)) by lia.
      destruct (nth_error_lt_Some _ Hi) as [ed Hed]. rewrite Hed.
      destruct (keep (ewt ed)) eqn:Kd.
      + apply IH; auto; [lia|]. intros j x Hj Hx.
        destruct (Nat.eq_dec j i) as [->|Hne]; [|apply (Hk j); auto; lia].
        rewrite nth_error_map, Hed in Hx. injection Hx as <-. auto.
      + destruct (remove_edge_etrip debug I Hi) as [ed' [g1 [Hed' [Hre [I1 [Hnw [Het _]]]]]]].
        assert (ed' = ed) by congruence. subst ed'.
        rewrite Hre. cbn [rbind].
        assert (Hw1 : map (@ewt EW) (gedges g1) = swap_remove (map (@ewt EW) (gedges g)) i).
        { pose proof (f_equal (map (@snd (nat * nat) EW)) Het) as Hw. unfold etrip in Hw.
          rewrite <- map_swap_remove, !map_map in Hw. rewrite map_swap_remove in Hw. exact Hw. }
        assert (Hl1 : length (gedges g1) = length (gedges g) - 1).
        { apply (f_equal (@length _)) in Hw1.
          rewrite swap_remove_length in Hw1 by (rewrite map_length; auto).
          rewrite !map_length in Hw1. auto. }
        destruct (IH g1 I1) as [g' [Hr [I' [Hn' P']]]]; [lia| |].
        * intros j x Hj. rewrite Hw1.
          apply (@swap_remove_keep_tail _ keep (map (@ewt EW) (gedges g)) i);
            [rewrite map_length; auto| |auto].
          intros j' x' Hj' Hx'. apply (Hk j'); auto.
        * exists g'. split; auto. split; auto. split; [congruence|].
          eapply perm_trans; [exact P'|]. rewrite Het.
          apply (@filter_swap_remove_perm _ (fun t => keep (snd t)) (etrip g) i (etr ed)).
          -- unfold etrip. rewrite nth_error_map, Hed. reflexivity.
          -- exact Kd.
  Qed.

  Theorem retain_edges_spec (keep : EW -> bool) (g : graph) :
    GInv g ->
    exists g', retain_edges debug keep g = Ok g' /\ GInv g' /\
      map (@nwt NW) (gnodes g') = map (@nwt NW) (gnodes g) /\
      Permutation (etrip g') (filter (fun t => keep (snd t)) (etrip g)).
  Proof.
    intros I. unfold retain_edges. apply retain_edges_loop_spec; auto.
    intros j x Hj Hx. apply nth_error_Some_lt in Hx. rewrite map_length in Hx. lia.
  Qed.

  (* ------------------------------------------------------------------ *)
  (* retain_nodes                                                        *)

  Lemma retain_nodes_loop_spec (keep : NW -> bool) : forall todo (g : graph),
    GInv g -> todo <= length (gnodes g) ->
    (forall j x, todo <= j -> nth_error (map (@nwt NW) (gnodes g)) j = Some x -> keep x = true) ->
    exists g', retain_nodes_loop cap debug keep g todo = Ok g' /\ GInv g' /\
      Permutation (map (@nwt NW) (gnodes g')) (filter keep (map (@nwt NW) (gnodes g))).
  Proof.
    induction todo as [|i IH]; intros g I Ht Hk; cbn [retain_nodes_loop].
    - exists g. split; auto. split; auto. rewrite filter_all_nth; auto.
      intros j x Hj. apply (Hk j); auto. lia.
    - assert (Hi : i < length (gnodes g)) by lia.
      destruct (nth_error_lt_Some _ Hi) as [n Hn]. rewrite Hn.
      destruct (keep (nwt n)) eqn:Kd.
      + apply IH; auto; [lia|]. intros j x Hj Hx.
        destruct (Nat.eq_dec j i) as [->|Hne]; [|apply (Hk j); auto; lia].
        rewrite nth_error_map, Hn in Hx. injection Hx as <-. auto.
      + destruct (remove_node_spec debug I Hi) as [n' [g2 [g1 [Hn' [Hre [I1 [Hnw _]]]]]]].
        assert (n' = n) by congruence. subst n'.
        rewrite Hre. cbn [rbind].
        assert (Hl1 : length (gnodes g1) = length (gnodes g) - 1).
        { apply (f_equal (@length _)) in Hnw.
          rewrite swap_remove_length in Hnw by (rewrite map_length; auto).
          rewrite !map_length in Hnw. auto. }
        destruct (IH g1 I1) as [g' [Hr [I' P']]]; [lia| |].
        * intros j x Hj. rewrite Hnw.
          apply (@swap_remove_keep_tail _ keep (map (@nwt NW) (gnodes g)) i);
            [rewrite map_length; auto| |auto].
          intros j' x' Hj' Hx'. apply (Hk j'); auto.
        * exists g'. split; auto. split; auto.
          eapply perm_trans; [exact P'|]. rewrite Hnw.
          apply (@filter_swap_remove_perm _ keep (map (@nwt NW) (gnodes g)) i (nwt n)); auto.
          rewrite nth_error_map, Hn. reflexivity.
  Qed.

  Theorem retain_nodes_spec (keep : NW -> bool) (g : graph) :
    GInv g ->
    exists g', retain_nodes cap debug keep g = Ok g' /\ GInv g' /\
      Permutation (map (@nwt NW) (gnodes g')) (filter keep (map (@nwt NW) (gnodes g))).
  Proof.
    intros I. unfold retain_nodes. apply retain_nodes_loop_spec; auto.
    intros j x Hj Hx. apply nth_error_Some_lt in Hx. rewrite map_length in Hx. lia.
  Qed.
End GraphX.
