(* C06b / adj::List: the view of an adj::List (Model/FullViewOf2.v, fview_of_list_k) is total, and
   it is consistent (Spec/ViewSpec.v) exactly when every stored successor is a node (LInv), as long as
   no row is longer than the stride k of the synthetic edge ids (rows_le).

   LInv is the type invariant of adj::List.  It is established by new and kept by add_node,
   add_edge, update_edge, set_edge_weight (edge_weight_mut) and clear; add_node_from_edges does not
   check its successors, so it keeps LInv only when the caller passes successors that are nodes of
   the enlarged graph.  The last example of this file is the history that breaks it. *)
From Coq Require Import Permutation.
From PG Require Import Lib.ListExtra Lib.Io Model.AdjListM Spec.AdjListSpec Proofs.AdjListP
  Proofs.AdjListH Model.FullView Model.FullViewOf Model.FullViewOf2 Spec.ViewSpec
  Proofs.FullViewP Proofs.AdaptorP Proofs.FullViewOfP Props.C05.

(* ================= the invariant ================= *)

(* every successor is a node *)
Definition LInv (g : alist) : Prop :=
  forall a r s w, nth_error g a = Some r -> In (s, w) r -> s < length g.

(* no row is longer than the stride of the synthetic ids *)
Definition rows_le (k : nat) (g : alist) : Prop :=
  forall a r, nth_error g a = Some r -> length r <= k.

Lemma LInv_nil : LInv [].
Proof. intros a r s w H. destruct a; discriminate H. Qed.

Lemma LInv_new : LInv al_new.
Proof. exact LInv_nil. Qed.

(* clear *)
Lemma LInv_clear g x : LInv (fst (AdjListM.step g (3, x))).
Proof. exact LInv_nil. Qed.

Lemma In_upd {A} (l : list A) i v x : In x (upd l i v) -> x = v \/ In x l.
Proof.
  revert i. induction l as [|h t IH]; intros [|i] H; cbn [upd In] in *; try tauto.
  - destruct H as [H|H]; [left; symmetry; exact H | right; right; exact H].
  - destruct H as [H|H]; [right; left; exact H|]. destruct (IH i H) as [E|E]; tauto.
Qed.

(* a row is replaced by one whose successors are nodes *)
Lemma LInv_upd g a r' :
  LInv g -> (forall s w, In (s, w) r' -> s < length g) -> LInv (upd g a r').
Proof.
  intros I Hr a' r s w Hn Hin. rewrite upd_length. rewrite nth_error_upd in Hn.
  destruct (Nat.eqb a a').
  - destruct (Nat.ltb a (length g)); [|discriminate Hn]. injection Hn as <-. exact (Hr s w Hin).
  - exact (I a' r s w Hn Hin).
Qed.

(* a row is pushed whose successors are nodes of the enlarged graph *)
Lemma LInv_push g es :
  LInv g -> (forall s w, In (s, w) es -> s <= length g) -> LInv (g ++ [es]).
Proof.
  intros I Hes a r s w Hn Hin. rewrite app_length. cbn [length].
  destruct (Nat.lt_ge_cases a (length g)) as [L|L].
  - rewrite nth_error_app1 in Hn by exact L. pose proof (I a r s w Hn Hin). lia.
  - rewrite nth_error_app2 in Hn by exact L. destruct (a - length g) as [|j]; cbn [nth_error] in Hn.
    + injection Hn as <-. pose proof (Hes s w Hin). lia.
    + destruct j; discriminate Hn.
Qed.

Lemma LInv_add_node g : LInv g -> LInv (snd (al_add_node g)).
Proof.
  intro I. unfold al_add_node. cbn [snd]. apply LInv_push; [exact I | intros s w []].
Qed.

(* add_node_from_edges checks nothing: the successors have to be nodes of the new graph
   (length g is the new node itself) *)
Lemma LInv_add_node_from_edges g es :
  LInv g -> (forall s w, In (s, w) es -> s <= length g) ->
  LInv (snd (al_add_node_from_edges g es)).
Proof.
  intros I H. unfold al_add_node_from_edges. cbn [snd]. apply LInv_push; assumption.
Qed.

Lemma LInv_add_edge g a b w e g' : LInv g -> al_add_edge g a b w = Ok (e, g') -> LInv g'.
Proof.
  intros I H. unfold al_add_edge in H.
  destruct (Nat.leb_spec (length g) b) as [Hb|Hb]; [discriminate H|].
  destruct (nth_error g a) as [r|] eqn:Hr; [|discriminate H].
  injection H as _ <-. apply LInv_upd; [exact I|].
  intros s w' Hin. apply in_app_or in Hin. destruct Hin as [Hin|[Hin|[]]].
  - exact (I a r s w' Hr Hin).
  - injection Hin as <- _. exact Hb.
Qed.

Lemma LInv_update_edge g a b w e g' : LInv g -> al_update_edge g a b w = Ok (e, g') -> LInv g'.
Proof.
  intros I H. unfold al_update_edge in H.
  destruct (Nat.leb_spec (length g) b) as [Hb|Hb]; [discriminate H|].
  destruct (nth_error g a) as [r|] eqn:Hr; [|discriminate H].
  destruct (find_suc r b 0) as [i|]; injection H as _ <-; (apply LInv_upd; [exact I|]);
    intros s w' Hin.
  - apply In_upd in Hin. destruct Hin as [Hin|Hin].
    + injection Hin as -> _. exact Hb.
    + exact (I a r s w' Hr Hin).
  - apply in_app_or in Hin. destruct Hin as [Hin|[Hin|[]]].
    + exact (I a r s w' Hr Hin).
    + injection Hin as <- _. exact Hb.
Qed.

Lemma LInv_set_edge_weight g e v : LInv g -> LInv (snd (al_set_edge_weight g e v)).
Proof.
  intro I. unfold al_set_edge_weight.
  destruct (nth_error g (fst e)) as [r|] eqn:Hr; [|exact I].
  destruct (nth_error r (snd e)) as [[s0 w0]|] eqn:Hi; [|exact I].
  cbn [snd]. apply LInv_upd; [exact I|]. intros s w Hin. apply In_upd in Hin.
  destruct Hin as [Hin|Hin].
  - injection Hin as -> _. apply nth_error_In in Hi. exact (I _ r s0 w0 Hr Hi).
  - exact (I _ r s w Hr Hin).
Qed.

(* one step of the harness: every operation but an add_node_from_edges with a dangling successor *)
Lemma LInv_step_gen g o :
  (fst o = 11 -> forall s w, In (s, w) (pairs (snd o)) -> s <= length g) ->
  LInv g -> LInv (fst (AdjListM.step g o)).
Proof.
  intros H11 I. destruct o as [code x]. cbn [fst snd] in H11. unfold AdjListM.step.
  destruct code as [|[|[|[|[|[|[|[|[|[|[|[|c]]]]]]]]]]]]; try exact I.
  - cbn [al_add_node fst]. apply LInv_push; [exact I | intros s w []].
  - destruct (al_add_edge g (arg x 0) (arg x 1) (arg x 2)) as [[[y i] g']| |] eqn:E; try exact I.
    cbn [fst]. eapply LInv_add_edge; eassumption.
  - destruct (al_update_edge g (arg x 0) (arg x 1) (arg x 2)) as [[[y i] g']| |] eqn:E; try exact I.
    cbn [fst]. eapply LInv_update_edge; eassumption.
  - exact LInv_nil.
  - pose proof (LInv_set_edge_weight g (arg x 0, arg x 1) (arg x 2) I) as H.
    destruct (al_set_edge_weight g (arg x 0, arg x 1) (arg x 2)) as [ok g']. exact H.
  - cbn [al_add_node_from_edges fst]. apply LInv_push; [exact I | exact (H11 eq_refl)].
Qed.

Lemma LInv_step g o : fst o <> 11 -> LInv g -> LInv (fst (AdjListM.step g o)).
Proof. intro H. apply LInv_step_gen. intro E. contradiction. Qed.

Lemma LInv_final_from g ops :
  Forall (fun o : line => fst o <> 11) ops -> LInv g -> LInv (al_final g ops).
Proof.
  intro H. revert g. induction H as [|o rest Ho _ IH]; intros g I; [exact I|].
  change (al_final g (o :: rest)) with (al_final (fst (AdjListM.step g o)) rest).
  apply IH. apply LInv_step; assumption.
Qed.

Theorem LInv_final ops :
  Forall (fun o : line => fst o <> 11) ops -> LInv (al_final al_new ops).
Proof. intro H. apply LInv_final_from; [exact H | exact LInv_new]. Qed.

(* ================= the view, explicitly ================= *)

Definition lrow (g : alist) (a : nat) : list (nat * nat) :=
  match nth_error g a with Some r => r | None => [] end.

(* the references of the rows s, s+1, ... *)
Definition al_erefs_from (k s : nat) (g : alist) : list quad :=
  flat_map (fun '(a, r) => al_row_quads k a r) (combine (seq s (length g)) g).

Definition LF (k : nat) (g : alist) : fview :=
  mkFv true (length g) (Some (length g)) (Some (al_edge_count g)) None (Some (length g))
       true true false true
       (seq 0 (length g)) (map (fun a => (a, 0%Z)) (seq 0 (length g)))
       (map (fun a => (a, al_row_quads k a (lrow g a))) (seq 0 (length g))) []
       (map (fun a => (a, map fst (lrow g a))) (seq 0 (length g))) []
       (al_erefs_from k 0 g)
       (map (fun a => (a, filter (al_contains_edge g a) (seq 0 (length g)))) (seq 0 (length g))).

(* total, whatever the state *)
Lemma fview_of_list_eq k g : fview_of_list_k k g = Ok (LF k g).
Proof.
  unfold fview_of_list_k, al_node_count. cbv zeta.
  rewrite (rmapM_ok _ (fun a => (a, al_row_quads k a (lrow g a)))).
  2:{ intros a Ha. apply in_seq in Ha. unfold al_edges, lrow.
      destruct (nth_error g a) eqn:E; [reflexivity|]. apply nth_error_None in E. lia. }
  cbn [rbind].
  rewrite (rmapM_ok _ (fun a => (a, map fst (lrow g a)))).
  2:{ intros a Ha. apply in_seq in Ha. unfold al_neighbors, lrow.
      destruct (nth_error g a) eqn:E; [reflexivity|]. apply nth_error_None in E. lia. }
  cbn [rbind]. reflexivity.
Qed.

(* ---------- lists paired with their positions ---------- *)

Lemma in_combine_seq {A} (l : list A) s i x :
  In (i, x) (combine (seq s (length l)) l) <-> s <= i /\ nth_error l (i - s) = Some x.
Proof.
  revert s. induction l as [|h t IH]; intro s; cbn [length seq combine In].
  - split; [intros [] | intros [_ H]; destruct (i - s); discriminate H].
  - rewrite IH. split.
    + intros [H | [L H]].
      * injection H as <- <-. rewrite Nat.sub_diag. split; [lia | reflexivity].
      * split; [lia|]. replace (i - s) with (S (i - S s)) by lia. exact H.
    + intros [L H]. destruct (Nat.eq_dec i s) as [->|Hne].
      * left. rewrite Nat.sub_diag in H. cbn [nth_error] in H. injection H as <-. reflexivity.
      * right. split; [lia|]. replace (i - s) with (S (i - S s)) in H by lia. exact H.
Qed.

Lemma map_snd_combine_seq {A} (l : list A) s : map snd (combine (seq s (length l)) l) = l.
Proof.
  revert s. induction l as [|h t IH]; intro s; cbn [length seq combine map snd]; [reflexivity|].
  f_equal. apply IH.
Qed.

Lemma NoDup_app_intro {A} (l1 l2 : list A) :
  NoDup l1 -> NoDup l2 -> (forall x, In x l1 -> ~ In x l2) -> NoDup (l1 ++ l2).
Proof.
  induction 1 as [|h t Hh Ht IH]; intros H2 D; cbn [app]; [exact H2|]. constructor.
  - rewrite in_app_iff. intros [H|H]; [exact (Hh H) | exact (D h (or_introl eq_refl) H)].
  - apply IH; [exact H2 | intros x Hx; apply D; right; exact Hx].
Qed.

(* ---------- one row ---------- *)

Lemma in_row_quads k a r q :
  In q (al_row_quads k a r) <->
  exists i s w, nth_error r i = Some (s, w) /\ q = (k * a + i, a, s, zn w).
Proof.
  unfold al_row_quads. rewrite in_map_iff. split.
  - intros ([i [s w]] & <- & H). apply in_combine_seq in H. destruct H as [_ H].
    rewrite Nat.sub_0_r in H. exists i, s, w. split; [exact H | reflexivity].
  - intros (i & s & w & H & ->). exists (i, (s, w)). split; [reflexivity|].
    apply in_combine_seq. rewrite Nat.sub_0_r. split; [lia | exact H].
Qed.

Lemma row_quads_ids k a r :
  map q_id (al_row_quads k a r) = map (fun i => k * a + i) (seq 0 (length r)).
Proof.
  unfold al_row_quads. rewrite map_map. apply map_combine_seq. intros i [s w] _. reflexivity.
Qed.

Lemma row_quads_length k a r : length (al_row_quads k a r) = length r.
Proof.
  unfold al_row_quads. rewrite map_length, combine_length, seq_length. apply Nat.min_id.
Qed.

Lemma row_quads_tgt k a r : map q_tgt (al_row_quads k a r) = map fst r.
Proof.
  unfold al_row_quads. rewrite map_map.
  rewrite (map_ext _ (fun p : nat * (nat * nat) => fst (snd p)))
    by (intros [i [s w]]; reflexivity).
  rewrite <- (map_map snd fst). rewrite map_snd_combine_seq. reflexivity.
Qed.

Lemma filter_row_quads k a r a' :
  filter (fun q => q_src q =? a') (al_row_quads k a r) =
  if a =? a' then al_row_quads k a r else [].
Proof.
  unfold al_row_quads. generalize (combine (seq 0 (length r)) r). intro l.
  induction l as [|[i [s w]] t IH]; cbn [map filter q_src].
  - destruct (a =? a'); reflexivity.
  - rewrite IH. destruct (a =? a'); reflexivity.
Qed.

(* ---------- the references ---------- *)

Lemma erefs_from_cons k s r t :
  al_erefs_from k s (r :: t) = al_row_quads k s r ++ al_erefs_from k (S s) t.
Proof. reflexivity. Qed.

Lemma in_erefs_from k s g q :
  In q (al_erefs_from k s g) <->
  exists a r, s <= a /\ nth_error g (a - s) = Some r /\ In q (al_row_quads k a r).
Proof.
  unfold al_erefs_from. rewrite in_flat_map. split.
  - intros ([a r] & H & Hq). apply in_combine_seq in H. exists a, r. tauto.
  - intros (a & r & L & H & Hq). exists (a, r). split; [apply in_combine_seq; tauto | exact Hq].
Qed.

(* the references are the stored (successor, weight) pairs, with the id k*row+position *)
Lemma in_erefs k g q :
  In q (al_erefs_from k 0 g) <->
  exists a r i s w, nth_error g a = Some r /\ nth_error r i = Some (s, w) /\
                    q = (k * a + i, a, s, zn w).
Proof.
  rewrite in_erefs_from. split.
  - intros (a & r & _ & H & Hq). rewrite Nat.sub_0_r in H. apply in_row_quads in Hq.
    destruct Hq as (i & s & w & Hi & ->). exists a, r, i, s, w. auto.
  - intros (a & r & i & s & w & H & Hi & ->). exists a, r. rewrite Nat.sub_0_r.
    split; [lia|]. split; [exact H|]. apply in_row_quads. exists i, s, w. auto.
Qed.

Lemma lrow_nil a : lrow [] a = [].
Proof. unfold lrow. destruct a; reflexivity. Qed.

(* the references with source a are row a, in order *)
Lemma filter_erefs_from k s g a :
  filter (fun q => q_src q =? a) (al_erefs_from k s g) =
  if s <=? a then al_row_quads k a (lrow g (a - s)) else [].
Proof.
  revert s. induction g as [|r t IH]; intro s.
  - rewrite lrow_nil. destruct (s <=? a); reflexivity.
  - rewrite erefs_from_cons, filter_app, filter_row_quads, IH.
    destruct (Nat.eqb_spec s a) as [->|Hne].
    + rewrite Nat.leb_refl, Nat.sub_diag. destruct (Nat.leb_spec (S a) a); [lia|].
      rewrite app_nil_r. reflexivity.
    + cbn [app]. destruct (Nat.leb_spec (S s) a), (Nat.leb_spec s a); try lia; [|reflexivity].
      replace (a - s) with (S (a - S s)) by lia. reflexivity.
Qed.

Lemma erefs_from_length k s g :
  length (al_erefs_from k s g) = list_sum (map (@length (nat * nat)) g).
Proof.
  revert s. induction g as [|r t IH]; intro s; [reflexivity|].
  rewrite erefs_from_cons, app_length, row_quads_length, IH. reflexivity.
Qed.

Lemma rows_le_Forall k g : rows_le k g -> Forall (fun r => length r <= k) g.
Proof.
  intro H. apply Forall_forall. intros r Hr. apply In_nth_error in Hr.
  destruct Hr as [a Ha]. exact (H a r Ha).
Qed.

(* the synthetic ids are distinct when no row is longer than the stride *)
Lemma erefs_from_ids k s g :
  Forall (fun r => length r <= k) g -> NoDup (map q_id (al_erefs_from k s g)).
Proof.
  intro H. revert s. induction H as [|r t Hr Ht IH]; intro s.
  - constructor.
  - rewrite erefs_from_cons, map_app. apply NoDup_app_intro.
    + rewrite row_quads_ids. apply FinFun.Injective_map_NoDup; [|apply seq_NoDup].
      intros x y E. lia.
    + apply IH.
    + intros x Hx Hx'. rewrite row_quads_ids in Hx. apply in_map_iff in Hx.
      destruct Hx as (i & <- & Hi). apply in_seq in Hi.
      apply in_map_iff in Hx'. destruct Hx' as (q & Eq & Hq). apply in_erefs_from in Hq.
      destruct Hq as (a & r' & L & _ & Hq). apply in_row_quads in Hq.
      destruct Hq as (j & s' & w & _ & ->). cbn [q_id] in Eq.
      assert (k * S s <= k * a) by (apply Nat.mul_le_mono_l; lia). nia.
Qed.

(* ================= the clauses ================= *)

Lemma LF_nodes k g : NodesOK (LF k g).
Proof.
  constructor; unfold LF; fvs.
  - apply seq_NoDup.
  - intros a Ha. apply in_seq in Ha. lia.
  - intros c Hc a Ha. injection Hc as <-. apply in_seq in Ha. lia.
  - intros c Hc. injection Hc as <-. rewrite seq_length. reflexivity.
  - intros _ i. rewrite in_seq. lia.
Qed.

Lemma LF_nrefs k g : NrefsOK (LF k g).
Proof. unfold NrefsOK, LF. fvs. exact (map_fst_tab (fun _ => 0%Z) _). Qed.

Lemma LF_keys k g : KeysOK (LF k g).
Proof.
  constructor; unfold LF; fvs.
  - apply map_fst_tab.
  - apply map_fst_tab.
  - intro H. discriminate H.
  - intro H. discriminate H.
Qed.

Lemma LF_out k g : OutOK (LF k g).
Proof.
  constructor; unfold LF; fvs; intros a Ha.
  - rewrite (assocl_tab (fun a => al_row_quads k a (lrow g a))) by exact Ha.
    unfold spec_out. rewrite app_nil_r, filter_erefs_from. cbn [Nat.leb]. rewrite Nat.sub_0_r.
    apply same_edges_refl.
  - rewrite (assocl_tab (fun a => al_row_quads k a (lrow g a))) by exact Ha.
    rewrite (assocl_tab (fun a => map fst (lrow g a))) by exact Ha.
    symmetry. apply row_quads_tgt.
Qed.

Lemma LF_in k g : InOK (LF k g).
Proof. constructor; unfold LF; fvs; intro H; discriminate H. Qed.

Lemma LF_adj k g : AdjOK (LF k g).
Proof.
  intros _ a b Ha Hb. unfold LF in *. fvs.
  rewrite (assocl_tab (fun a => filter (al_contains_edge g a) (seq 0 (length g)))) by exact Ha.
  rewrite filter_In, al_contains_edge_get. unfold edge_between, al_get_edge. cbn [fst snd]. split.
  - intros (_ & i & w & H). destruct (nth_error g a) as [r|] eqn:Hr; [|discriminate H].
    exists (k * a + i, a, b, zn w). split; [|left; reflexivity].
    apply in_erefs. exists a, r, i, b, w. auto.
  - intros (q & Hq & [E | [E _]]); [|discriminate E]. split; [exact Hb|].
    apply in_erefs in Hq. destruct Hq as (a' & r & i & s & w & Hr & Hi & ->).
    cbn [q_src q_tgt] in E. injection E as -> ->. exists i, w. rewrite Hr. exact Hi.
Qed.

Lemma LF_erefs k g : rows_le k g -> LInv g -> ErefsOK (LF k g).
Proof.
  intros R I. constructor; unfold LF; fvs.
  - intros q Hq. apply in_erefs in Hq. destruct Hq as (a & r & i & s & w & Hr & Hi & ->).
    cbn [q_src q_tgt]. rewrite !in_seq. split.
    + apply nth_error_Some_lt in Hr. lia.
    + apply nth_error_In in Hi. pose proof (I a r s w Hr Hi). lia.
  - intros c Hc. injection Hc as <-. rewrite erefs_from_length. apply C05_list_edge_count_sum.
  - intros _. apply erefs_from_ids. apply rows_le_Forall. exact R.
  - intros _ c Hc. discriminate Hc.
Qed.

(* every reference has its target among the nodes only if every successor is a node *)
Lemma LF_ends_inv k g :
  (forall q, In q (f_erefs (LF k g)) ->
             In (q_src q) (f_nodes (LF k g)) /\ In (q_tgt q) (f_nodes (LF k g))) -> LInv g.
Proof.
  intros H a r s w Hr Hin. apply In_nth_error in Hin. destruct Hin as [i Hi].
  destruct (H (k * a + i, a, s, zn w)) as [_ Ht].
  - unfold LF; fvs. apply in_erefs. exists a, r, i, s, w. auto.
  - unfold LF in Ht; fvs. cbn [q_tgt] in Ht. apply in_seq in Ht. lia.
Qed.

Theorem LF_consistent_iff k g : rows_le k g -> (FConsistent (LF k g) <-> LInv g).
Proof.
  intro R. split.
  - intros [_ _ [He _ _ _] _ _ _ _]. exact (LF_ends_inv k g He).
  - intro I. constructor.
    + apply LF_nodes.
    + apply LF_nrefs.
    + apply LF_erefs; assumption.
    + apply LF_keys.
    + apply LF_out.
    + apply LF_in.
    + apply LF_adj.
Qed.

Lemma LF_keyed k g : AdjKeyed (LF k g).
Proof. intros _. unfold LF. fvs. rewrite map_fst_tab. apply incl_refl. Qed.

(* ================= the theorems ================= *)

Theorem fview_of_list_consistent k g :
  LInv g -> rows_le k g ->
  exists f, fview_of_list_k k g = Ok f /\ FConsistent f /\ AdjKeyed f /\
            f_directed f = true /\ f_nodes f = seq 0 (length g) /\ f_bound f = length g /\
            (f_compact f = true /\ f_ids_ok f = true /\ f_has_in f = false /\ f_has_adj f = true).
Proof.
  intros I R. exists (LF k g).
  split; [apply fview_of_list_eq|].
  split; [apply LF_consistent_iff; assumption|].
  split; [apply LF_keyed|].
  repeat split.
Qed.

(* the same, with the references and the per-node tables spelled out *)
Theorem fview_of_list_shape k g f :
  fview_of_list_k k g = Ok f ->
  f_erefs f = al_erefs_from k 0 g /\
  (forall q, In q (f_erefs f) <->
     exists a r i s w, nth_error g a = Some r /\ nth_error r i = Some (s, w) /\
                       q = (k * a + i, a, s, zn w)) /\
  (forall a, a < length g ->
     assocl (f_out f) a = al_row_quads k a (lrow g a) /\
     assocl (f_nb f) a = map fst (lrow g a) /\
     assocl (f_adj f) a = filter (al_contains_edge g a) (seq 0 (length g))) /\
  f_ecount f = Some (length (f_erefs f)).
Proof.
  intro E. rewrite fview_of_list_eq in E. injection E as <-. unfold LF. fvs.
  split; [reflexivity|]. split; [apply in_erefs|]. split.
  - intros a Ha. assert (Hin : In a (seq 0 (length g))) by (apply in_seq; lia).
    rewrite (assocl_tab (fun a => al_row_quads k a (lrow g a))) by exact Hin.
    rewrite (assocl_tab (fun a => map fst (lrow g a))) by exact Hin.
    rewrite (assocl_tab (fun a => filter (al_contains_edge g a) (seq 0 (length g)))) by exact Hin.
    repeat split.
  - rewrite erefs_from_length, C05_list_edge_count_sum. reflexivity.
Qed.

Theorem list_adaptors k g f k1 p1 q1 k2 p2 q2 f1 f2 :
  LInv g -> rows_le k g -> fview_of_list_k k g = Ok f ->
  In k1 [1; 3; 4; 5] -> In k2 [1; 3; 4; 5] ->
  apply_adaptor k1 p1 q1 f = Some f1 -> apply_adaptor k2 p2 q2 f1 = Some f2 -> FConsistent f2.
Proof.
  intros I R E H1 H2 E1 E2.
  destruct (fview_of_list_consistent k g I R) as (f' & E' & Hc & Hk & _).
  rewrite E in E'. injection E' as <-.
  exact (adaptor_depth2 _ _ _ _ _ _ _ _ _ H1 H2 Hc (keyed_rows _ Hk) E1 E2).
Qed.

(* LInv is exactly what the consistency of the view needs *)
Theorem fview_of_list_exact k g : rows_le k g ->
  exists f, fview_of_list_k k g = Ok f /\ (FConsistent f <-> LInv g).
Proof.
  intro R. exists (LF k g). split; [apply fview_of_list_eq | apply LF_consistent_iff; exact R].
Qed.

(* in terms of the checker *)
Corollary fview_of_list_check k g : rows_le k g ->
  (rmap fv_check (fview_of_list_k k g) = Ok 0 <-> LInv g).
Proof.
  intro R. rewrite fview_of_list_eq. cbn [rmap]. rewrite <- (LF_consistent_iff k g R).
  rewrite <- fv_check_zero. split; [intro H; injection H as H; exact H | intros ->; reflexivity].
Qed.

(* after every history without add_node_from_edges, in the harness setting (stride 100) *)
Corollary fview_of_list_history ops :
  Forall (fun o : line => fst o <> 11) ops -> rows_le 100 (al_final al_new ops) ->
  exists f, fview_of_list (al_final al_new ops) = Ok f /\ FConsistent f.
Proof.
  intros H R. destruct (fview_of_list_consistent 100 _ (LInv_final ops H) R) as (f & E & C & _).
  exists f. split; [exact E | exact C].
Qed.

(* ================= examples ================= *)

(* parallel edges 0 -> 1 (weights 13 then 15), update_edge overwrites the first *)
Definition lops : list line :=
  [op 0 []; op 0 []; op 0 []; op 1 [0; 1; 13]; op 1 [0; 1; 15]; op 1 [0; 2; 12];
   op 1 [1; 2; 14]; op 1 [2; 2; 3]; op 2 [0; 1; 16]]%Z.

Example list_parallel :
  al_final al_new lops = [[(1, 16); (1, 15); (2, 12)]; [(2, 14)]; [(2, 3)]] /\
  rmap fv_check (fview_of_list (al_final al_new lops)) = Ok 0 /\
  rmap f_erefs (fview_of_list (al_final al_new lops)) =
    Ok [(0, 0, 1, 16%Z); (1, 0, 1, 15%Z); (2, 0, 2, 12%Z); (100, 1, 2, 14%Z); (200, 2, 2, 3%Z)] /\
  rmap f_adj (fview_of_list (al_final al_new lops)) = Ok [(0, [1; 2]); (1, [2]); (2, [2])] /\
  rmap f_nb (fview_of_list (al_final al_new lops)) = Ok [(0, [1; 1; 2]); (1, [2]); (2, [2])] /\
  rmap f_ecount (fview_of_list (al_final al_new lops)) = Ok (Some 5).
Proof. vm_compute. repeat split; reflexivity. Qed.

Example list_parallel_inv :
  LInv (al_final al_new lops) /\ rows_le 100 (al_final al_new lops).
Proof.
  split.
  - apply LInv_final. unfold lops, op. repeat constructor; discriminate.
  - intros a r H.
    change (al_final al_new lops) with [[(1, 16); (1, 15); (2, 12)]; [(2, 14)]; [(2, 3)]] in H.
    destruct a as [|[|[|a]]]; cbn [nth_error] in H; try (injection H as <-; cbn [length]; lia).
    destruct a; discriminate H.
Qed.

(* add_node_from_edges with the successor 5 in a graph of 4 nodes: petgraph accepts it; the
   reference 3 -> 5 has a target that is not a node (clause 3) *)
Example list_dangling :
  al_final al_new (lops ++ [op 11 [5; 1]%Z]) =
    [[(1, 16); (1, 15); (2, 12)]; [(2, 14)]; [(2, 3)]; [(5, 1)]] /\
  rmap fv_check (fview_of_list (al_final al_new (lops ++ [op 11 [5; 1]%Z]))) = Ok 3 /\
  ~ LInv (al_final al_new (lops ++ [op 11 [5; 1]%Z])).
Proof.
  split; [vm_compute; reflexivity|]. split; [vm_compute; reflexivity|].
  intro I. specialize (I 3 [(5, 1)] 5 1 eq_refl (or_introl eq_refl)).
  change (5 < 4) in I. lia.
Qed.

(* rows_le is needed too: with stride 1 the second edge of row 0 and the first of row 1 share
   the id 1 *)
Example list_stride_needed :
  LInv [[(0, 0); (0, 0)]; [(0, 0)]] /\
  rmap fv_check (fview_of_list_k 1 [[(0, 0); (0, 0)]; [(0, 0)]]) = Ok 3 /\
  rmap fv_check (fview_of_list_k 2 [[(0, 0); (0, 0)]; [(0, 0)]]) = Ok 0.
Proof.
  split; [|vm_compute; split; reflexivity].
  intros a r s w H Hin. cbn [length].
  destruct a as [|[|a]]; cbn [nth_error] in H.
  - injection H as <-. destruct Hin as [E|[E|[]]]; injection E as <- _; lia.
  - injection H as <-. destruct Hin as [E|[]]; injection E as <- _; lia.
  - destruct a; discriminate H.
Qed.

Print Assumptions fview_of_list_consistent.
Print Assumptions list_adaptors.
Print Assumptions fview_of_list_exact.
Print Assumptions LInv_final.
