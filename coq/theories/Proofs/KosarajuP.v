(* kosaraju_scc (algo/mod.rs): a DfsPostOrder forest on the reversed graph, then a Dfs on the
   graph itself from the nodes in reverse finishing order; each Dfs, restricted to the nodes
   not yet discovered, collects exactly one class of mutual reachability, and the classes come
   in reverse topological order. *)
From PG Require Import Lib.Io Model.View Model.Traversal Model.AlgoBasic Spec.Reach Spec.AlgoSpec
                       Proofs.TravBase Proofs.TraversalP Proofs.DpoP Proofs.DfsForestP Proofs.DfsForestK
                       Proofs.ToposortP.

(* ------------------------------------------------------------------ *)
(* The post-order loop with both invariants                            *)

Section K.
Variable w : view.
Hypothesis Hcap : forall a b, In a (vnodes w) -> step w a b -> in_cap w b.
Hypothesis Hnodes : forall a b, In a (vnodes w) -> step w a b -> In b (vnodes w).

Lemma kdpo_next_ok : forall fuel d, FInv w d -> KInv w d -> pmeas w d < fuel ->
  exists o d', dpo_next fuel w d = Ok (o, d') /\ FInv w d' /\ KInv w d' /\ pmeas w d' <= pmeas w d /\
    (forall x, In x (pstack d) \/ In x (pdisc d) -> In x (pstack d') \/ In x (pdisc d')) /\
    match o with
    | None => pstack d' = [] /\ pfin d' = pfin d
    | Some n => pfin d' = n :: pfin d
    end.
Proof.
  induction fuel as [|f IH]; intros d I K Hf; [lia|].
  cbn [dpo_next]. destruct d as [st disc fin]. cbn [pstack pdisc pfin].
  destruct st as [|nx rest].
  - exists None, (mkDpo [] disc fin). split; [reflexivity|]. split; [exact I|]. split; [exact K|].
    split; [lia|]. split; [intros x Hx; exact Hx|]. split; reflexivity.
  - assert (Hc : in_cap w nx) by (apply (f_cap I); left; reflexivity).
    assert (Nnx : In nx (vnodes w)) by (apply (f_nodes I); left; left; reflexivity).
    rewrite (visit_ok w disc nx Hc). cbn [rbind].
    destruct (mem nx disc) eqn:Em; cbn [negb].
    + apply mem_In in Em. rewrite (visit_ok w fin nx Hc). cbn [rbind].
      destruct (mem nx fin) eqn:Ef; cbn [negb].
      * apply mem_In in Ef.
        pose proof (pmeas_pop w nx rest disc fin fin) as Hm.
        destruct (IH _ (@finv_skip w nx rest disc fin I Em Ef) (kinv_skip w nx rest disc fin K))
          as [o [d' [E [I' [K' [Hle [Hmono Ho]]]]]]]; [lia|].
        exists o, d'. split; [exact E|]. split; [exact I'|]. split; [exact K'|]. split; [lia|]. split.
        -- cbn [pstack pdisc] in *. intros x [[<-|Hx]|Hx]; apply Hmono; [right; exact Em | left; exact Hx | right; exact Hx].
        -- exact Ho.
      * apply mem_false in Ef.
        pose proof (pmeas_pop w nx rest disc fin (nx :: fin)) as Hm.
        exists (Some nx), (mkDpo rest disc (nx :: fin)). split; [reflexivity|].
        split; [exact (@finv_finish w nx rest disc fin I Em Ef)|].
        split; [exact (kinv_finish w nx rest disc fin I Em Ef K)|]. split; [lia|]. split.
        -- cbn [pstack pdisc]. intros x [[<-|Hx]|Hx]; [right; exact Em | left; exact Hx | right; exact Hx].
        -- reflexivity.
    + apply mem_false in Em.
      pose proof (fmeas_discover w nx rest disc fin Nnx Em) as Hm. fold (ppushes w disc nx).
      destruct (IH _ (@finv_discover w Hcap Hnodes nx rest disc fin I Em)
                     (kinv_discover w nx rest disc fin _ K))
        as [o [d' [E [I' [K' [Hle [Hmono Ho]]]]]]]; [lia|].
      exists o, d'. split; [exact E|]. split; [exact I'|]. split; [exact K'|]. split; [lia|]. split.
      -- cbn [pstack pdisc] in *. intros x Hx. apply Hmono. destruct Hx as [Hx|Hx].
         ++ left. apply in_or_app; right; exact Hx.
         ++ right; right; exact Hx.
      -- exact Ho.
Qed.

Lemma finv_fin_length d : FInv w d -> length (pfin d) <= length (vnodes w).
Proof.
  intros I. apply NoDup_incl_length; [apply (f_nodup I)|].
  intros x Hx. apply (f_nodes I). right. apply (f_fin_disc I). exact Hx.
Qed.

(* the drain emits at most one node of the view per unit of fuel *)
Lemma kdpo_drain_ok : forall fuel d, FInv w d -> KInv w d ->
  pmeas w d < trav_fuel w + trav_fuel w -> length (vnodes w) < fuel + length (pfin d) ->
  exists l d', dpo_drain fuel w d = Ok (l, d') /\ FInv w d' /\ KInv w d' /\ pstack d' = [] /\
               pfin d' = rev l ++ pfin d /\
               (forall x, In x (pstack d) \/ In x (pdisc d) -> In x (pdisc d')).
Proof.
  induction fuel as [|f IH]; intros d I K Ht Hf.
  - pose proof (finv_fin_length d I). lia.
  - cbn [dpo_drain].
    destruct (kdpo_next_ok _ d I K Ht) as [o [d1 [E [I1 [K1 [Hle [Hmono Ho]]]]]]]. rewrite E. cbn [rbind].
    destruct o as [n|].
    + destruct (IH d1 I1 K1) as [l [d2 [E2 [I2 [K2 [S2 [F2 M2]]]]]]]; [lia | rewrite Ho; cbn [length]; lia |].
      rewrite E2. cbn [rmap]. exists (n :: l), d2. split; [reflexivity|]. split; [exact I2|].
      split; [exact K2|]. split; [exact S2|]. split.
      * rewrite F2, Ho. cbn [rev]. rewrite <- app_assoc. reflexivity.
      * intros x Hx. apply M2, Hmono, Hx.
    + destruct Ho as [S1 F1]. exists [], d1. split; [reflexivity|]. split; [exact I1|].
      split; [exact K1|]. split; [exact S1|]. split; [exact F1|].
      intros x Hx. destruct (Hmono x Hx) as [H|H]; [rewrite S1 in H; destruct H | exact H].
Qed.

End K.

(* ------------------------------------------------------------------ *)
(* The reversed view                                                   *)

Section Rev.
Variable v : view.
Hypothesis Hv : VOk v.
Let W := vreversed v.

Lemma rev_cap a b : In a (vnodes W) -> step W a b -> in_cap W b.
Proof. intros Ha Hb. apply (pred_facts Hv a b Ha Hb). Qed.

Lemma rev_nodes a b : In a (vnodes W) -> step W a b -> In b (vnodes W).
Proof. intros Ha Hb. apply (pred_facts Hv a b Ha Hb). Qed.

Lemma reach_nodes i x : In i (vnodes v) -> reachable v i x -> In x (vnodes v).
Proof.
  intros Hi R. induction R as [|x y Rx IH Hxy]; [exact Hi|].
  destruct Hv as [_ [Hn _]]. apply (Hn x y Hxy).
Qed.

Lemma reach_rev1 x y : In x (vnodes v) -> reachable W x y -> reachable v y x /\ In y (vnodes v).
Proof.
  intros Hx R. induction R as [|a y Ra [IH Na] Hay]; [split; [apply reach_refl | exact Hx]|].
  destruct (pred_facts Hv a y Na Hay) as [Hs [Ny _]]. split; [|exact Ny].
  eapply reachable_left; [exact Hs | exact IH].
Qed.

Lemma reach_rev2 x y : reachable v y x -> reachable W x y.
Proof.
  intros R. induction R as [|a x Ra IH Hax]; [apply reach_refl|].
  destruct Hv as [_ [Hn Hio]]. destruct (Hn a x Hax) as [_ Nx].
  assert (Hs : step W x a) by (apply (Hio a x Nx); exact Hax).
  eapply reachable_left; [exact Hs | exact IH].
Qed.

(* ------------------------------------------------------------------ *)
(* Pass 1                                                              *)

Lemma kos_pass1_ok : forall ids d order,
  pstack d = [] -> FInv W d -> KInv W d -> pfin d = rev order ->
  (forall i, In i ids -> In i (vnodes v)) ->
  exists order' d', kos_pass1 v ids d order = Ok order' /\ pstack d' = [] /\ FInv W d' /\ KInv W d' /\
    pfin d' = rev order' /\ (forall x, In x ids \/ In x (pdisc d) -> In x (pdisc d')).
Proof.
  induction ids as [|i rest IH]; intros d order Hst I K Ef Hids; cbn [kos_pass1].
  - exists order, d. split; [reflexivity|]. split; [exact Hst|]. split; [exact I|]. split; [exact K|].
    split; [exact Ef|]. intros x [[]|Hx]; exact Hx.
  - assert (Hrest : forall j, In j rest -> In j (vnodes v)) by (intros j Hj; apply Hids; right; exact Hj).
    unfold is_visited. destruct (mem i (pdisc d)) eqn:Em.
    + apply mem_In in Em. destruct (IH d order Hst I K Ef Hrest) as [o' [d' [E [S' [I' [K' [F' M']]]]]]].
      exists o', d'. split; [exact E|]. split; [exact S'|]. split; [exact I'|]. split; [exact K'|].
      split; [exact F'|]. intros x [[<-|Hx]|Hx]; apply M'; [right; exact Em | left; exact Hx | right; exact Hx].
    + destruct d as [st disc fin]. cbn [pstack pdisc pfin] in *. subst st.
      assert (Ni : In i (vnodes W)) by (apply Hids; left; reflexivity).
      assert (Ci : in_cap W i) by (destruct Hv as [[_ Hc] _]; apply (Hc i Ni)).
      pose proof (@finv_restart W disc fin i I Ni Ci) as I1.
      assert (K1 : KInv W (mkDpo [i] disc fin)).
      { revert K. apply kinv_same_fin; [reflexivity | intros a Ha; exact Ha]. }
      pose proof (fmeas_restart W disc fin i) as Hm.
      destruct (kdpo_drain_ok W rev_cap rev_nodes (4 * trav_fuel v) _ I1 K1 Hm) as [l [d1 [E [I2 [K2 [S2 [F2 M2]]]]]]].
      { change (vnodes W) with (vnodes v). unfold trav_fuel, vnode_count. lia. }
      unfold W in E. rewrite E. cbn [rbind]. cbn [pstack pdisc pfin] in F2, M2.
      destruct (IH d1 (order ++ l) S2 I2 K2) as [o' [d' [E' [S' [I' [K' [F' M']]]]]]].
      { rewrite F2, Ef, rev_app_distr. reflexivity. }
      { exact Hrest. }
      exists o', d'. split; [exact E'|]. split; [exact S'|]. split; [exact I'|]. split; [exact K'|].
      split; [exact F'|]. intros x [[<-|Hx]|Hx]; apply M'.
      * right. apply M2. left; left; reflexivity.
      * left; exact Hx.
      * right. apply M2. right; exact Hx.
Qed.

(* ------------------------------------------------------------------ *)
(* Pass 2                                                              *)

Variable F : list nat.
Hypothesis HF_nd : NoDup F.
Hypothesis HF_nodes : forall x, In x F <-> In x (vnodes v).
Hypothesis HQ : forall u y, In u F -> In y F -> reachable W u y ->
  exists u', mutual W u u' /\ before_eq F y u'.

Record P2 (D done : list nat) (sccs : list (list nat)) : Prop := {
  p2_nodes : forall x, In x D -> In x (vnodes v);
  p2_concat : forall x, In x D <-> In x (concat sccs);
  p2_closed : forall x y, In x D -> step v x y -> In y D;
  p2_done : forall x, In x done -> In x D;
  p2_nodup : NoDup (concat sccs);
  p2_class : Forall (scc_class v) sccs;
  p2_order : no_later_reach v sccs
}.

Lemma reach_in_of_path (P : nat -> Prop) i : forall x, reachable v i x ->
  (forall z, reachable v i z -> reachable v z x -> P z) -> reach_in P v i x.
Proof.
  intros x R. induction R as [|a x Ra IH Hax]; intros HP.
  - apply ri_refl. apply HP; apply reach_refl.
  - eapply ri_step; [|exact Hax|].
    + apply IH. intros z R1 R2. apply HP; [exact R1 | eapply reach_step; eassumption].
    + apply HP; [eapply reach_step; eassumption | apply reach_refl].
Qed.

Lemma p2_closed_reach D done sccs x y : P2 D done sccs -> In x D -> reachable v x y -> In y D.
Proof.
  intros P Hx R. induction R as [|a y Ra IH Hay]; [exact Hx|]. apply (p2_closed _ _ _ P a y IH Hay).
Qed.

Lemma p2_step D done sccs i rest l :
  P2 D done sccs -> F = done ++ i :: rest -> ~ In i D -> NoDup l ->
  (forall x, In x l <-> reach_in (fun y => ~ In y D) v i x) ->
  P2 (rev l ++ D) (done ++ [i]) (sccs ++ [l]).
Proof.
  intros P EF Hi Hnd Hl.
  assert (Ni : In i (vnodes v)).
  { apply HF_nodes. rewrite EF. apply in_or_app; right; left; reflexivity. }
  assert (Hlr : forall x, In x l -> reachable v i x /\ ~ In x D).
  { intros x Hx. apply Hl in Hx. split; [eapply reach_in_reachable; exact Hx | apply (reach_in_P _ _ _ _ Hx)]. }
  assert (Hln : forall x, In x l -> In x (vnodes v)).
  { intros x Hx. apply (reach_nodes i x Ni). apply (Hlr x Hx). }
  assert (Hcat : concat (sccs ++ [l]) = concat sccs ++ l).
  { rewrite concat_app. cbn [concat]. rewrite app_nil_r. reflexivity. }
  assert (Hil : In i l) by (apply Hl; apply ri_refl; exact Hi).
  assert (Hclass : scc_class v l).
  { exists i. split; [exact Ni|]. intros x. split.
    - intros Hx. destruct (Hlr x Hx) as [R HxD]. split; [exact R|].
      assert (Nx : In x (vnodes v)) by (apply Hln; exact Hx).
      destruct (HQ x i (proj2 (HF_nodes x) Nx) (proj2 (HF_nodes i) Ni) (reach_rev2 x i R))
        as [x' [[M1 M2] [l1 [l2 [E1 Hin]]]]].
      assert (Hnd1 : NoDup (l1 ++ x' :: l2)) by (rewrite <- E1; exact HF_nd).
      assert (E2 : l1 ++ x' :: l2 = done ++ i :: rest) by (rewrite <- E1; exact EF).
      destruct (before_eq_split l1 x' l2 done i rest Hnd1 E2 Hin) as [->|Hd].
      + apply (reach_rev1 i x Ni M2).
      + exfalso. apply HxD. apply (p2_closed_reach D done sccs x' x P).
        * apply (p2_done _ _ _ P). exact Hd.
        * apply (reach_rev1 x x' Nx M1).
    - intros [R1 R2]. apply Hl. apply reach_in_of_path; [exact R1|].
      intros z Riz Rzx Hz. apply Hi. apply (p2_closed_reach D done sccs z i P Hz).
      eapply reachable_trans; eassumption. }
  constructor.
  - intros x Hx. apply in_app_or in Hx. destruct Hx as [Hx|Hx];
      [apply Hln; rewrite in_rev; exact Hx | apply (p2_nodes _ _ _ P); exact Hx].
  - intros x. rewrite Hcat, !in_app_iff, <- in_rev, (p2_concat _ _ _ P x). tauto.
  - intros x y Hx Hxy. apply in_app_or in Hx. apply in_or_app. destruct Hx as [Hx|Hx].
    + destruct (in_dec Nat.eq_dec y D) as [Hy|Hy]; [right; exact Hy|]. left.
      rewrite <- in_rev in *. apply Hl. eapply ri_step; [apply Hl; exact Hx | exact Hxy | exact Hy].
    + right. apply (p2_closed _ _ _ P x y Hx Hxy).
  - intros x Hx. apply in_or_app. apply in_app_or in Hx. destruct Hx as [Hx|[<-|[]]].
    + right. apply (p2_done _ _ _ P); exact Hx.
    + left. rewrite <- in_rev. exact Hil.
  - rewrite Hcat. apply NoDup_app_intro; [apply (p2_nodup _ _ _ P) | exact Hnd|].
    intros x Hx Hxl. apply (proj2 (Hlr x Hxl)). apply (p2_concat _ _ _ P). exact Hx.
  - apply Forall_app. split; [apply (p2_class _ _ _ P)|]. constructor; [exact Hclass | constructor].
  - intros a b c1 c2 Hab E1 E2 x y Hx Hy R.
    destruct (Nat.lt_ge_cases b (length sccs)) as [Hb|Hb].
    + rewrite nth_error_app1 in E1 by lia. rewrite nth_error_app1 in E2 by lia.
      apply (p2_order _ _ _ P a b c1 c2 Hab E1 E2 x y Hx Hy R).
    + rewrite nth_error_app2 in E2 by lia.
      destruct (b - length sccs) as [|k] eqn:Ek; [|destruct k; discriminate E2].
      cbn [nth_error] in E2. injection E2 as <-.
      rewrite nth_error_app1 in E1 by lia.
      assert (HxD : In x D).
      { apply (p2_concat _ _ _ P). apply in_concat. exists c1. split; [|exact Hx].
        eapply nth_error_In; exact E1. }
      apply (proj2 (Hlr y Hy)). apply (p2_closed_reach D done sccs x y P HxD R).
Qed.

Lemma kos_pass2_ok : forall order done d sccs,
  F = done ++ order -> P2 (ddisc d) done sccs ->
  exists ls D', kos_pass2 v order d sccs = Ok ls /\ P2 D' F ls.
Proof.
  induction order as [|i rest IH]; intros done d sccs EF P; cbn [kos_pass2].
  - rewrite app_nil_r in EF. subst done. exists sccs, (ddisc d). split; [reflexivity | exact P].
  - assert (EF2 : F = (done ++ [i]) ++ rest) by (rewrite <- app_assoc; exact EF).
    unfold is_visited. destruct (mem i (ddisc d)) eqn:Em.
    + apply mem_In in Em. apply (IH (done ++ [i]) d sccs EF2).
      destruct P as [P1 P2' P3 P4 P5 P6 P7]. constructor; try assumption.
      intros x Hx. apply in_app_or in Hx. destruct Hx as [Hx|[<-|[]]]; [apply P4; exact Hx | exact Em].
    + apply mem_false in Em.
      assert (Ni : In i (vnodes v)).
      { apply HF_nodes. rewrite EF. apply in_or_app; right; left; reflexivity. }
      destruct Hv as [Hc [Hn Hio]].
      assert (Ci : in_cap v i) by (apply (proj2 Hc i Ni)).
      destruct (@dfs_move_to_drain v d i (4 * trav_fuel v) Hc Hn Ci) as [l [d' [E [Hnd [Hl [Hd _]]]]]]; [lia|].
      rewrite E. cbn [rbind].
      apply (IH (done ++ [i]) d' (sccs ++ [l]) EF2). rewrite Hd.
      apply (p2_step (ddisc d) done sccs i rest l P EF Em Hnd Hl).
Qed.

End Rev.

(* ------------------------------------------------------------------ *)
(* kosaraju_scc                                                        *)

Theorem kosaraju_spec v : VOk v ->
  exists ls, kosaraju_scc v = Ok ls /\
    NoDup (concat ls) /\ (forall x, In x (concat ls) <-> In x (vnodes v)) /\
    Forall (scc_class v) ls /\ no_later_reach v ls.
Proof.
  intros Hv. unfold kosaraju_scc.
  destruct (kos_pass1_ok v Hv (vnodes v) (mkDpo [] [] []) [] eq_refl (finv_empty _) (kinv_empty _) eq_refl)
    as [order [d [E [Hst [I [K [Ef Hall]]]]]]].
  { intros i Hi; exact Hi. }
  rewrite E. cbn [rbind]. rewrite <- Ef.
  destruct d as [st disc fin]. cbn [pstack pdisc pfin] in *. subst st.
  assert (Hnd : NoDup fin) by (apply (f_nodup I)).
  assert (Hfn : forall x, In x fin <-> In x (vnodes v)).
  { intros x. split.
    - intros Hx. apply (f_nodes I). right. apply (f_fin_disc I). exact Hx.
    - intros Hx. apply (finv_done_disc_fin x I). apply Hall. left; exact Hx. }
  assert (HQ : forall u y, In u fin -> In y fin -> reachable (vreversed v) u y ->
             exists u', mutual (vreversed v) u u' /\ before_eq fin y u').
  { intros u y Hu Hy R. apply (kinv_done (vreversed v) disc fin u y I K Hu Hy R). }
  destruct (kos_pass2_ok v Hv fin Hnd Hfn HQ fin [] dfs_empty [] eq_refl) as [ls [D [E2 P]]].
  { constructor; cbn [dfs_empty ddisc concat].
    - intros x [].
    - intros x; reflexivity.
    - intros x y [].
    - intros x [].
    - constructor.
    - constructor.
    - intros i j c1 c2 _ E1. destruct i; discriminate E1. }
  exists ls. split; [exact E2|]. split; [apply (p2_nodup _ _ _ _ P)|]. split; [|split].
  - intros x. rewrite <- (p2_concat _ _ _ _ P x). split.
    + apply (p2_nodes _ _ _ _ P).
    + intros Hx. apply (p2_done _ _ _ _ P). apply Hfn. exact Hx.
  - apply (p2_class _ _ _ _ P).
  - apply (p2_order _ _ _ _ P).
Qed.
