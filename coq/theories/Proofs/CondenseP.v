(* condensation (Model/CondenseM.v) over the view of a Graph: totality, the member lists are the
   SCCs of kosaraju_scc in node order, the edge list without and with make_acyclic. *)
From Coq Require Import Permutation Sorted.
From PG Require Import Lib.Io Model.View Model.Traversal Model.AlgoBasic Model.CondenseM
                       Spec.Reach Spec.Partition Spec.AlgoSpec Proofs.AlgoAll.

(* ------------------------------------------------------------------ *)
(* The view of a Graph                                                 *)

(* nodes are 0..n-1 in order; every edge reference is a step of the view; every step comes from
   an edge reference (in the other orientation too when undirected) *)
Definition graph_view (v : view) : Prop :=
  VOk v /\
  vnodes v = seq 0 (length (vnodes v)) /\
  (forall q, In q (verefs v) -> step v (esrc q) (etgt q)) /\
  (forall a b, step v a b ->
     exists q, In q (verefs v) /\
       ((esrc q = a /\ etgt q = b) \/ (vdirected v = false /\ esrc q = b /\ etgt q = a))).

Definition nat_list_eqb (l1 l2 : list nat) : bool :=
  if list_eq_dec Nat.eq_dec l1 l2 then true else false.

Definition graph_viewb (v : view) : bool :=
  vok_check v
  && nat_list_eqb (vnodes v) (seq 0 (length (vnodes v)))
  && forallb (fun q => mem (etgt q) (neighbors v (esrc q))) (verefs v)
  && forallb (fun a => forallb (fun b =>
        existsb (fun q => (Nat.eqb (esrc q) a && Nat.eqb (etgt q) b)
                          || (negb (vdirected v) && (Nat.eqb (esrc q) b && Nat.eqb (etgt q) a)))
                (verefs v)) (neighbors v a)) (vnodes v).

Lemma graph_viewb_ok v : graph_viewb v = true -> graph_view v.
Proof.
  unfold graph_viewb. rewrite !andb_true_iff. intros [[[Hk Hs] He] Hn].
  pose proof (vok_check_ok v Hk) as Hv.
  split; [exact Hv|]. split; [|split].
  - unfold nat_list_eqb in Hs.
    destruct (list_eq_dec Nat.eq_dec (vnodes v) (seq 0 (length (vnodes v)))) as [E|E];
      [exact E | discriminate].
  - intros q Hq. rewrite forallb_forall in He. apply mem_In. apply He. exact Hq.
  - intros a b Hab. destruct Hv as [_ [Hno _]]. destruct (Hno a b Hab) as [Ha _].
    rewrite forallb_forall in Hn. specialize (Hn a Ha). rewrite forallb_forall in Hn.
    specialize (Hn b Hab). apply existsb_exists in Hn. destruct Hn as [q [Hq Hm]].
    exists q. split; [exact Hq|].
    rewrite orb_true_iff, !andb_true_iff, negb_true_iff, !Nat.eqb_eq in Hm. exact Hm.
Qed.

(* the symmetry of steps in an undirected Graph view (used only for one corollary) *)
Definition step_sym (v : view) : Prop := forall a b, step v a b -> step v b a.

(* ------------------------------------------------------------------ *)
(* List helpers                                                        *)

Lemma nodup_app_inv {A} (l1 l2 : list A) :
  NoDup (l1 ++ l2) -> NoDup l1 /\ NoDup l2 /\ (forall x, In x l1 -> In x l2 -> False).
Proof.
  induction l1 as [|a l1 IH]; cbn [app]; intros H.
  - split; [constructor|]. split; [exact H|]. intros x [].
  - inversion H as [|a' l' Hni Hnd]; subst. destruct (IH Hnd) as [N1 [N2 Dj]].
    split; [|split; [exact N2|]].
    + constructor; [|exact N1]. intros Hi. apply Hni. apply in_or_app. left; exact Hi.
    + intros x [<-|Hx] H2.
      * apply Hni. apply in_or_app. right; exact H2.
      * exact (Dj x Hx H2).
Qed.

Lemma nodup_app_intro {A} (l1 l2 : list A) :
  NoDup l1 -> NoDup l2 -> (forall x, In x l1 -> In x l2 -> False) -> NoDup (l1 ++ l2).
Proof.
  induction l1 as [|a l1 IH]; cbn [app]; intros N1 N2 Dj; [exact N2|].
  inversion N1 as [|a' l' Hni Hnd]; subst. constructor.
  - intros Hi. apply in_app_or in Hi. destruct Hi as [Hi|Hi]; [exact (Hni Hi)|].
    apply (Dj a); [left; reflexivity | exact Hi].
  - apply IH; [exact Hnd | exact N2 |]. intros x Hx. apply Dj. right; exact Hx.
Qed.

Lemma forall2_nth {A B} (R : A -> B -> Prop) (l1 : list A) (l2 : list B) :
  length l1 = length l2 ->
  (forall k a b, nth_error l1 k = Some a -> nth_error l2 k = Some b -> R a b) ->
  Forall2 R l1 l2.
Proof.
  revert l2; induction l1 as [|a l1 IH]; intros [|b l2] HL H; cbn [length] in HL; try discriminate.
  - constructor.
  - constructor.
    + apply (H 0); reflexivity.
    + apply IH; [lia|]. intros k a' b' Ha Hb. apply (H (S k)); assumption.
Qed.

Lemma forall2_nth_inv {A B} (R : A -> B -> Prop) (l1 : list A) (l2 : list B) :
  Forall2 R l1 l2 ->
  forall k a b, nth_error l1 k = Some a -> nth_error l2 k = Some b -> R a b.
Proof.
  induction 1 as [|a0 b0 l1 l2 H0 HF IH]; intros [|k] a b Ha Hb; cbn [nth_error] in *;
    try discriminate.
  - injection Ha as <-. injection Hb as <-. exact H0.
  - eapply IH; eassumption.
Qed.

Lemma nth_error_map_seq {A} (f : nat -> A) n k :
  k < n -> nth_error (map f (seq 0 n)) k = Some (f k).
Proof.
  intros Hk. apply map_nth_error.
  rewrite (nth_error_nth' (seq 0 n) 0); [|rewrite seq_length; exact Hk].
  rewrite seq_nth; [reflexivity | exact Hk].
Qed.

Lemma sorted_seq a n : StronglySorted lt (seq a n).
Proof.
  revert a; induction n as [|n IH]; intros a; cbn [seq]; constructor.
  - apply IH.
  - apply Forall_forall. intros x Hx. apply in_seq in Hx. lia.
Qed.

Lemma sorted_filter {A} (R : A -> A -> Prop) (f : A -> bool) l :
  StronglySorted R l -> StronglySorted R (filter f l).
Proof.
  induction 1 as [|a l Hs IH Hf]; cbn [filter]; [constructor|].
  destruct (f a); [|exact IH]. constructor; [exact IH|].
  apply Forall_forall. intros x Hx. apply filter_In in Hx. destruct Hx as [Hx _].
  rewrite Forall_forall in Hf. apply Hf; exact Hx.
Qed.

Lemma sorted_lt_nodup l : StronglySorted lt l -> NoDup l.
Proof.
  induction 1 as [|a l Hs IH Hf]; constructor; [|exact IH].
  intros Hi. rewrite Forall_forall in Hf. specialize (Hf a Hi). lia.
Qed.

(* ------------------------------------------------------------------ *)
(* comp_index                                                          *)

Lemma comp_index_sound sccs x k0 k :
  comp_index sccs x k0 = Some k ->
  k0 <= k /\ exists c, nth_error sccs (k - k0) = Some c /\ In x c.
Proof.
  revert k0; induction sccs as [|c rest IH]; intros k0 H; cbn [comp_index] in H; [discriminate|].
  destruct (mem x c) eqn:M.
  - injection H as <-. split; [lia|]. replace (k0 - k0) with 0 by lia.
    exists c; split; [reflexivity | apply mem_In; exact M].
  - destruct (IH _ H) as [L [c' [N I]]]. split; [lia|]. exists c'.
    replace (k - k0) with (S (k - S k0)) by lia. cbn [nth_error]. split; assumption.
Qed.

Lemma comp_index_complete sccs x k0 i c :
  NoDup (concat sccs) -> nth_error sccs i = Some c -> In x c ->
  comp_index sccs x k0 = Some (k0 + i).
Proof.
  revert k0 i; induction sccs as [|c0 rest IH]; intros k0 i ND N I.
  - destruct i; discriminate.
  - cbn [concat] in ND. destruct (nodup_app_inv _ _ ND) as [_ [ND2 Dj]].
    cbn [comp_index]. destruct i as [|i]; cbn [nth_error] in N.
    + injection N as ->. apply mem_In in I. rewrite I. f_equal; lia.
    + destruct (mem x c0) eqn:M.
      * exfalso. apply mem_In in M. apply (Dj x M). apply in_concat.
        exists c; split; [eapply nth_error_In; exact N | exact I].
      * rewrite (IH (S k0) i ND2 N I). f_equal; lia.
Qed.

Lemma comp_index_total sccs x k0 :
  In x (concat sccs) -> exists k, comp_index sccs x k0 = Some k.
Proof.
  revert k0; induction sccs as [|c rest IH]; intros k0 H; cbn [concat] in H; [destruct H|].
  cbn [comp_index]. destruct (mem x c) eqn:M; [eexists; reflexivity|].
  apply in_app_or in H. destruct H as [H|H].
  - apply mem_In in H. congruence.
  - apply IH; exact H.
Qed.

(* the component number of a node (0 for a node outside every component) *)
Definition comp_of (sccs : list (list nat)) (x : nat) : nat :=
  match comp_index sccs x 0 with Some k => k | None => 0 end.

Lemma comp_of_spec sccs x :
  In x (concat sccs) ->
  comp_index sccs x 0 = Some (comp_of sccs x) /\
  exists c, nth_error sccs (comp_of sccs x) = Some c /\ In x c.
Proof.
  intros H. destruct (comp_index_total sccs x 0 H) as [k E].
  unfold comp_of. rewrite E. split; [reflexivity|].
  destruct (comp_index_sound sccs x 0 k E) as [_ [c [N I]]]. rewrite Nat.sub_0_r in N.
  exists c; split; assumption.
Qed.

Lemma comp_of_unique sccs x k c :
  NoDup (concat sccs) -> nth_error sccs k = Some c -> In x c -> comp_of sccs x = k.
Proof.
  intros ND N I. unfold comp_of. rewrite (comp_index_complete sccs x 0 k c ND N I). reflexivity.
Qed.

(* ------------------------------------------------------------------ *)
(* The two parts of the result as pure functions                       *)

Definition cond_members (v : view) (sccs : list (list nat)) : list (list nat) :=
  map (fun k => filter (fun x => match comp_index sccs x 0 with
                                 | Some k' => Nat.eqb k k' | None => false end) (vnodes v))
      (seq 0 (length sccs)).

Definition cond_step (mk dir : bool) (sccs : list (list nat))
           (es : list (nat * nat * Z)) (q : nat * nat * nat * Z) : list (nat * nat * Z) :=
  let cs := comp_of sccs (esrc q) in
  let ct := comp_of sccs (etgt q) in
  if mk then (if Nat.eqb cs ct then es else update_edge_list dir es cs ct (snd q))
  else es ++ [(cs, ct, snd q)].

Definition cond_edges (v : view) (mk : bool) (sccs : list (list nat)) : list (nat * nat * Z) :=
  fold_left (cond_step mk (vdirected v) sccs) (verefs v) [].

Lemma cond_fold_ok (v : view) (mk : bool) sccs l acc :
  (forall q, In q l -> In (esrc q) (concat sccs) /\ In (etgt q) (concat sccs)) ->
  fold_left (fun (acc : res (list (nat * nat * Z))) (e : nat * nat * nat * Z) =>
        let '(_, s, t, w) := e in
        rbind acc (fun es =>
          match comp_index sccs s 0, comp_index sccs t 0 with
          | Some cs, Some ct =>
              if mk
              then (if Nat.eqb cs ct then Ok es else Ok (update_edge_list (vdirected v) es cs ct w))
              else Ok (es ++ [(cs, ct, w)])
          | _, _ => Panic
          end)) l (Ok acc)
  = Ok (fold_left (cond_step mk (vdirected v) sccs) l acc).
Proof.
  revert acc; induction l as [|[[[i s] t] w] l IH]; intros acc H; [reflexivity|].
  cbn [fold_left].
  destruct (H (i, s, t, w) (or_introl eq_refl)) as [Hs Ht]. unfold esrc, etgt in Hs, Ht.
  cbn [fst snd] in Hs, Ht.
  destruct (comp_of_spec sccs s Hs) as [Es _]. destruct (comp_of_spec sccs t Ht) as [Et _].
  cbn [rbind]. rewrite Es, Et.
  assert (HS : forall q, In q l -> In (esrc q) (concat sccs) /\ In (etgt q) (concat sccs)).
  { intros q Hq. apply H. right; exact Hq. }
  unfold cond_step at 2. unfold esrc, etgt. cbn [fst snd].
  destruct mk; [destruct (Nat.eqb (comp_of sccs s) (comp_of sccs t))|]; apply IH; exact HS.
Qed.

(* ------------------------------------------------------------------ *)
(* (a) totality and the shape of the result                            *)

Lemma gv_eref_nodes v q : graph_view v -> In q (verefs v) ->
  In (esrc q) (vnodes v) /\ In (etgt q) (vnodes v).
Proof.
  intros [[_ [Hno _]] [_ [Hst _]]] Hq. apply (Hno (esrc q) (etgt q)). apply Hst. exact Hq.
Qed.

Lemma condensation_eq v mk sccs :
  graph_view v -> kosaraju_scc v = Ok sccs ->
  (forall x, In x (concat sccs) <-> In x (vnodes v)) ->
  condensation v mk = Ok (cond_members v sccs, cond_edges v mk sccs).
Proof.
  intros Hg E Hin. unfold condensation. rewrite E. cbn [rbind].
  assert (Hb : forallb (fun x => Nat.ltb x (length (vnodes v))) (concat sccs) = true).
  { apply forallb_forall. intros x Hx. apply Hin in Hx. destruct Hg as [_ [Hseq _]].
    rewrite Hseq in Hx. apply in_seq in Hx. apply Nat.ltb_lt. lia. }
  rewrite Hb. cbn [negb].
  rewrite cond_fold_ok.
  - reflexivity.
  - intros q Hq. destruct (gv_eref_nodes v q Hg Hq) as [H1 H2]. split; apply Hin; assumption.
Qed.

Theorem condensation_total v mk :
  graph_view v -> exists members es, condensation v mk = Ok (members, es).
Proof.
  intros Hg. destruct (kosaraju_all v (proj1 Hg)) as [sccs [E [_ [Hin _]]]].
  exists (cond_members v sccs), (cond_edges v mk sccs). apply condensation_eq; assumption.
Qed.

(* what condensation returns, given what kosaraju_scc returns *)
Lemma condensation_inv v mk sccs members es :
  graph_view v -> kosaraju_scc v = Ok sccs -> condensation v mk = Ok (members, es) ->
  members = cond_members v sccs /\ es = cond_edges v mk sccs /\
  NoDup (concat sccs) /\ (forall x, In x (concat sccs) <-> In x (vnodes v)) /\
  Forall (scc_class v) sccs /\ no_later_reach v sccs.
Proof.
  intros Hg E C. destruct (kosaraju_all v (proj1 Hg)) as [sccs' [E' [ND [Hin [_ [Hcl Hor]]]]]].
  rewrite E in E'. injection E' as <-.
  rewrite (condensation_eq v mk sccs Hg E Hin) in C. injection C as <- <-.
  repeat split; try assumption; apply Hin; assumption.
Qed.

(* ------------------------------------------------------------------ *)
(* (b) the member lists                                                *)

Lemma cond_members_length v sccs : length (cond_members v sccs) = length sccs.
Proof. unfold cond_members. rewrite map_length, seq_length. reflexivity. Qed.

Lemma cond_members_nth v sccs k : k < length sccs ->
  nth_error (cond_members v sccs) k =
  Some (filter (fun x => match comp_index sccs x 0 with
                         | Some k' => Nat.eqb k k' | None => false end) (vnodes v)).
Proof.
  intros Hk. unfold cond_members.
  exact (nth_error_map_seq (fun k => filter (fun x => match comp_index sccs x 0 with
                         | Some k' => Nat.eqb k k' | None => false end) (vnodes v)) (length sccs) k Hk).
Qed.

Lemma cond_member_in v sccs k m c x :
  NoDup (concat sccs) -> (forall x, In x (concat sccs) <-> In x (vnodes v)) ->
  nth_error (cond_members v sccs) k = Some m -> nth_error sccs k = Some c ->
  (In x m <-> In x c).
Proof.
  intros ND Hin Hm Hc.
  assert (Hk : k < length sccs) by (apply nth_error_Some; congruence).
  rewrite (cond_members_nth v sccs k Hk) in Hm. injection Hm as <-.
  rewrite filter_In. split.
  - intros [_ Hf]. destruct (comp_index sccs x 0) as [k'|] eqn:Ek; [|discriminate].
    apply Nat.eqb_eq in Hf. subst k'.
    destruct (comp_index_sound sccs x 0 k Ek) as [_ [c' [N I]]]. rewrite Nat.sub_0_r in N.
    rewrite Hc in N. injection N as <-. exact I.
  - intros Hx. split.
    + apply Hin. apply in_concat. exists c. split; [eapply nth_error_In; exact Hc | exact Hx].
    + rewrite (comp_index_complete sccs x 0 k c ND Hc Hx). cbn [Nat.add]. apply Nat.eqb_refl.
Qed.

Lemma cond_member_sorted v sccs k m :
  vnodes v = seq 0 (length (vnodes v)) ->
  nth_error (cond_members v sccs) k = Some m -> StronglySorted lt m.
Proof.
  intros Hseq Hm.
  assert (Hk : k < length sccs).
  { rewrite <- (cond_members_length v sccs). apply nth_error_Some; congruence. }
  rewrite (cond_members_nth v sccs k Hk) in Hm. injection Hm as <-.
  apply sorted_filter. rewrite Hseq. apply sorted_seq.
Qed.

Theorem cond_members_spec v mk sccs members es :
  graph_view v -> kosaraju_scc v = Ok sccs -> condensation v mk = Ok (members, es) ->
  length members = length sccs /\
  Forall2 (fun m c => (forall x, In x m <-> In x c) /\ StronglySorted lt m) members sccs.
Proof.
  intros Hg E C. destruct (condensation_inv v mk sccs members es Hg E C) as [-> [_ [ND [Hin _]]]].
  split; [apply cond_members_length|].
  apply forall2_nth; [apply cond_members_length|].
  intros k m c Hm Hc. split.
  - intros x. exact (cond_member_in v sccs k m c x ND Hin Hm Hc).
  - destruct Hg as [_ [Hseq _]]. exact (cond_member_sorted v sccs k m Hseq Hm).
Qed.

Lemma scc_class_ext v c m : (forall x, In x m <-> In x c) -> scc_class v c -> scc_class v m.
Proof.
  intros Hx [r [Hr Hc]]. exists r. split; [exact Hr|]. intros x. rewrite Hx. apply Hc.
Qed.

Lemma members_partition_gen (ms cs : list (list nat)) :
  Forall2 (fun m c => (forall x, In x m <-> In x c) /\ StronglySorted lt m) ms cs ->
  NoDup (concat cs) ->
  NoDup (concat ms) /\ (forall x, In x (concat ms) <-> In x (concat cs)).
Proof.
  induction 1 as [|m c ms cs [Hx Hs] HF IH]; intros ND.
  - split; [constructor | tauto].
  - cbn [concat] in *. destruct (nodup_app_inv _ _ ND) as [_ [ND2 Dj]].
    destruct (IH ND2) as [IH1 IH2]. split.
    + apply nodup_app_intro; [apply sorted_lt_nodup; exact Hs | exact IH1 |].
      intros x H1 H2. apply (Dj x); [apply Hx; exact H1 | apply IH2; exact H2].
    + intros x. rewrite !in_app_iff, Hx, IH2. tauto.
Qed.

Theorem cond_members_partition v mk sccs members es :
  graph_view v -> kosaraju_scc v = Ok sccs -> condensation v mk = Ok (members, es) ->
  Forall (scc_class v) members /\ NoDup (concat members) /\
  (forall x, In x (concat members) <-> In x (vnodes v)) /\
  Permutation (concat members) (vnodes v).
Proof.
  intros Hg E C. destruct (cond_members_spec v mk sccs members es Hg E C) as [_ HF].
  destruct (condensation_inv v mk sccs members es Hg E C) as [_ [_ [ND [Hin [Hcl _]]]]].
  destruct (members_partition_gen members sccs HF ND) as [P1 P2].
  assert (P3 : forall x, In x (concat members) <-> In x (vnodes v)).
  { intros x. rewrite P2. apply Hin. }
  split; [|split; [exact P1 | split; [exact P3|]]].
  - clear -HF Hcl. induction HF as [|m c ms cs [Hx _] HF IH]; [constructor|].
    inversion Hcl as [|c' cs' Hc Hcs]; subst. constructor.
    + exact (scc_class_ext v c m Hx Hc).
    + apply IH; exact Hcs.
  - apply NoDup_Permutation; [exact P1 | | exact P3].
    destruct Hg as [_ [Hseq _]]. rewrite Hseq. apply seq_NoDup.
Qed.

(* the component number is the position of the member list holding the node *)
Lemma comp_of_member v sccs x k :
  NoDup (concat sccs) -> (forall x, In x (concat sccs) <-> In x (vnodes v)) ->
  In x (vnodes v) ->
  (comp_of sccs x = k <-> exists m, nth_error (cond_members v sccs) k = Some m /\ In x m).
Proof.
  intros ND Hin Hx. apply Hin in Hx. destruct (comp_of_spec sccs x Hx) as [_ [c [N I]]]. split.
  - intros <-. assert (Hk : comp_of sccs x < length sccs) by (apply nth_error_Some; congruence).
    rewrite <- (cond_members_length v sccs) in Hk. apply nth_error_Some in Hk.
    destruct (nth_error (cond_members v sccs) (comp_of sccs x)) as [m|] eqn:Em; [|congruence].
    exists m. split; [reflexivity|].
    apply (cond_member_in v sccs (comp_of sccs x) m c x ND Hin Em N). exact I.
  - intros [m [Em Im]].
    assert (Hk : k < length sccs).
    { rewrite <- (cond_members_length v sccs). apply nth_error_Some; congruence. }
    apply nth_error_Some in Hk. destruct (nth_error sccs k) as [c'|] eqn:Ec; [|congruence].
    apply (comp_of_unique sccs x k c' ND Ec).
    apply (cond_member_in v sccs k m c' x ND Hin Em Ec). exact Im.
Qed.

(* ------------------------------------------------------------------ *)
(* (c) make_acyclic = false: one edge per edge reference, in order      *)

Lemma cond_fold_false dir sccs l acc :
  fold_left (cond_step false dir sccs) l acc =
  acc ++ map (fun q => (comp_of sccs (esrc q), comp_of sccs (etgt q), snd q)) l.
Proof.
  revert acc; induction l as [|q l IH]; intros acc; cbn [fold_left map].
  - rewrite app_nil_r. reflexivity.
  - rewrite IH. unfold cond_step. rewrite <- app_assoc. reflexivity.
Qed.

Theorem cond_edges_plain v sccs members es :
  graph_view v -> kosaraju_scc v = Ok sccs -> condensation v false = Ok (members, es) ->
  exists ci : nat -> nat,
    (forall x, In x (vnodes v) ->
       comp_index sccs x 0 = Some (ci x) /\
       exists m, nth_error members (ci x) = Some m /\ In x m) /\
    (forall q, In q (verefs v) -> In (esrc q) (vnodes v) /\ In (etgt q) (vnodes v)) /\
    es = map (fun q => (ci (esrc q), ci (etgt q), snd q)) (verefs v).
Proof.
  intros Hg E C. destruct (condensation_inv v false sccs members es Hg E C) as [-> [-> [ND [Hin _]]]].
  exists (comp_of sccs). split; [|split].
  - intros x Hx. split.
    + apply comp_of_spec. apply Hin; exact Hx.
    + apply (comp_of_member v sccs x (comp_of sccs x) ND Hin Hx). reflexivity.
  - intros q Hq. exact (gv_eref_nodes v q Hg Hq).
  - unfold cond_edges. rewrite cond_fold_false. reflexivity.
Qed.
