(* k_shortest_path with k = 1 and no goal: exact distances, hence the same map as dijkstra. *)
From Coq Require Import Lia ZArith List Permutation.
From PG Require Import Lib.Io Model.View Model.Traversal Model.ShortestM Spec.Paths Proofs.DijkstraP.
Set Implicit Arguments.
Unset Strict Implicit.
Open Scope Z_scope.

(* the entries ksp_push appends *)
Fixpoint pushes (es : list eref) (k : Z) (seq : nat) : heap :=
  match es with
  | [] => []
  | e :: r => (k + ewgt e, tgt e, seq) :: pushes r k (S seq)
  end.

Lemma ksp_push_eq es k : forall h seq, ksp_push es k h seq = (h ++ pushes es k seq, (seq + length es)%nat).
Proof.
  induction es as [|e r IH]; intros h seq; cbn [ksp_push pushes length].
  - rewrite app_nil_r, Nat.add_0_r. reflexivity.
  - rewrite IH, <- app_assoc. cbn [app]. f_equal. lia.
Qed.

Lemma pushes_seqs es k : forall seq, map hseq (pushes es k seq) = List.seq seq (length es).
Proof. induction es as [|e r IH]; intros seq; cbn [pushes map length List.seq hseq snd]; auto. rewrite IH; auto. Qed.

Lemma pushes_length es k seq : length (pushes es k seq) = length es.
Proof. rewrite <- (map_length hseq), pushes_seqs, seq_length. reflexivity. Qed.

Lemma pushes_In es k : forall seq e, In e es -> exists q, In (k + ewgt e, tgt e, q) (pushes es k seq).
Proof.
  induction es as [|e0 r IH]; intros seq e []; cbn [pushes].
  - subst e0. exists seq; left; auto.
  - destruct (IH (S seq) e H) as [q Hq]. exists q; right; auto.
Qed.

Lemma pushes_inv es k : forall seq ent, In ent (pushes es k seq) ->
  exists e, In e es /\ ent = (k + ewgt e, tgt e, hseq ent).
Proof.
  induction es as [|e0 r IH]; intros seq ent; cbn [pushes]; intros [].
  - subst ent. exists e0; split; [left; auto|reflexivity].
  - destruct (IH _ _ H) as [e [He Hent]]. exists e; split; [right; auto|auto].
Qed.

Lemma NoDup_app_disj {A} (l1 l2 : list A) :
  NoDup l1 -> NoDup l2 -> (forall x, In x l1 -> ~ In x l2) -> NoDup (l1 ++ l2).
Proof.
  induction l1 as [|a t IH]; intros H1 H2 Hd; cbn [app]; auto.
  inversion H1 as [|a' l' Hnin Hnd]; subst. constructor.
  - intros Hin. apply in_app_or in Hin. destruct Hin as [Hin|Hin]; auto.
    apply (Hd a); [left; auto|auto].
  - apply IH; auto. intros x Hx. apply Hd; right; auto.
Qed.

Section Ksp.
  Variable v : view.
  Variable s : nat.
  Hypothesis HV : VOk v.
  Hypothesis HN : nonneg v.
  Hypothesis HT : forall a e, In e (out_edges v a) -> (tgt e < vbound v)%nat.
  Hypothesis Hs : (s < vbound v)%nat.

  (* vis: the nodes whose counter is at least one *)
  Record KInv (vis : vmap) (cnt : list nat) (sc : smap) (h : heap) (seq : nat) : Prop := {
    kL : length cnt = vbound v;
    kC : forall x c, nth_error cnt x = Some c -> (mem x vis = true <-> (1 <= c)%nat);
    kB : forall k x q, In (k, x, q) h -> (x < vbound v)%nat;
    kW : forall k x q, In (k, x, q) h -> exists p, walk v s p x /\ walk_cost p = k;
    kV : forall x, mem x vis = true -> exists d, sget sc x = Some d /\ is_dist v s x d;
    kU : forall x, mem x vis = false -> sget sc x = None;
    kE : forall u e du, mem u vis = true -> sget sc u = Some du -> In e (out_edges v u) ->
           mem (tgt e) vis = false -> exists q, In (du + ewgt e, tgt e, q) h;
    kS : mem s vis = false -> exists q, In (0, s, q) h;
    kQ : forall k x q, In (k, x, q) h -> (q < seq)%nat;
    kN : NoDup (map hseq h);
    kD : NoDup (map fst sc)
  }.
  Arguments kC {vis cnt sc h seq} _ _ _ _.
  Arguments kB {vis cnt sc h seq} _ _ _ _ _.
  Arguments kW {vis cnt sc h seq} _ _ _ _ _.
  Arguments kV {vis cnt sc h seq} _ _ _.
  Arguments kU {vis cnt sc h seq} _ _ _.
  Arguments kE {vis cnt sc h seq} _ _ _ _ _ _ _ _.
  Arguments kQ {vis cnt sc h seq} _ _ _ _ _.

  Lemma kfrontier vis cnt sc h seq : KInv vis cnt sc h seq ->
    forall a p y, walk v a p y -> forall da, mem a vis = true -> sget sc a = Some da ->
      (mem y vis = true /\ exists dy, sget sc y = Some dy /\ dy <= da + walk_cost p) \/
      (exists z kz q, mem z vis = false /\ In (kz, z, q) h /\ kz <= da + walk_cost p).
  Proof.
    intros I a p y W. induction W as [a | a e p b He Hp IH]; intros da Ha Hda.
    - left. split; auto. exists da; split; auto. cbn [walk_cost]; lia.
    - cbn [walk_cost]. pose proof (HN He) as Hw. pose proof (walk_cost_nonneg HN Hp) as Hc.
      destruct (mem (tgt e) vis) eqn:Et.
      + destruct (kV I _ Et) as [dt [Hdt [_ Lt]]].
        destruct (kV I _ Ha) as [da' [Hda' [[pa [Wa Ca]] _]]].
        assert (da' = da) as -> by congruence.
        pose proof (Lt _ (walk_snoc e Wa He)) as Hle. rewrite walk_cost_snoc in Hle.
        destruct (IH _ eq_refl Hdt) as [[Hy [dy [Hdy Hl]]]|[z [kz [q [Hz [Hin Hl]]]]]].
        * left. split; auto. exists dy; split; auto; lia.
        * right. exists z, kz, q. repeat split; auto; lia.
      + destruct (kE I _ _ _ Ha Hda He Et) as [q Hq].
        right. exists (tgt e), (da + ewgt e), q. repeat split; auto; lia.
  Qed.

  Lemma kpop_min vis cnt sc h seq k x q : KInv vis cnt sc h seq ->
    (forall e', In e' h -> k <= hkey e') -> In (k, x, q) h -> mem x vis = false -> is_dist v s x k.
  Proof.
    intros I Hmin Hin Hx. split; [apply (kW I _ _ _ Hin)|].
    intros p W. destruct (mem s vis) eqn:Es.
    - destruct (kV I _ Es) as [d0 [Hd0 [_ L0]]].
      pose proof (L0 _ (walk_nil v s)) as H0. cbn [walk_cost] in H0.
      destruct (kfrontier I W Es Hd0) as [[Hy _]|[z [kz [q' [Hz [Hin' Hl]]]]]]; [congruence|].
      pose proof (Hmin _ Hin') as Hk. unfold hkey in Hk; cbn [fst] in Hk. lia.
    - destruct (kS I Es) as [q' Hq'].
      pose proof (Hmin _ Hq') as Hk. unfold hkey in Hk; cbn [fst] in Hk.
      pose proof (walk_cost_nonneg HN W). lia.
  Qed.

  Lemma kfinal vis cnt sc seq : KInv vis cnt sc [] seq ->
    forall x d, sget sc x = Some d <-> is_dist v s x d.
  Proof.
    intros I x d. split.
    - intros Hd. destruct (mem x vis) eqn:Em.
      + destruct (kV I _ Em) as [d' [Hd' Hdist]]. assert (d' = d) as -> by congruence. auto.
      + rewrite (kU I _ Em) in Hd. discriminate.
    - intros Hdist. destruct Hdist as [[p [W C]] L].
      destruct (mem s vis) eqn:Es; [|destruct (kS I Es) as [q []]].
      destruct (kV I _ Es) as [d0 [Hd0 [_ L0]]].
      destruct (kfrontier I W Es Hd0) as [[Hy [dy [Hdy Hl]]]|[z [kz [q' [_ [[] _]]]]]].
      destruct (kV I _ Hy) as [dy' [Hdy' Hdist']].
      assert (dy' = dy) as -> by congruence.
      rewrite Hdy. f_equal. apply (is_dist_unique Hdist'). split; auto. exists p; auto.
  Qed.

  Lemma ksp_loop_ok : forall fuel vis cnt sc h seq,
    KInv vis cnt sc h seq -> (length h + Phi v vis < fuel)%nat ->
    exists m, ksp_loop fuel v None 1 cnt sc h seq = Ok m /\ NoDup (map fst m) /\
              forall x d, sget m x = Some d <-> is_dist v s x d.
  Proof.
    induction fuel as [|f IH]; intros vis cnt sc h seq I Hf; [lia|].
    cbn [ksp_loop]. pose proof (hpop_spec (kN I)) as Hpop.
    destruct (hpop h) as [[[[k x] q] h']|].
    - destruct Hpop as [HP Hmin].
      assert (Hin : In (k, x, q) h) by (eapply Permutation_in; [apply Permutation_sym; apply HP|left; auto]).
      assert (Hlen : length h = S (length h')) by (rewrite (Permutation_length HP); reflexivity).
      assert (Hmin' : forall e', In e' h -> k <= hkey e') by (intros e' H; apply (Hmin _ H)).
      assert (Hsub : forall e', In e' h' -> In e' h).
      { intros e' H. eapply Permutation_in; [apply Permutation_sym; apply HP|right; auto]. }
      assert (Hkeep : forall k0 y q0, In (k0, y, q0) h -> y <> x -> In (k0, y, q0) h').
      { intros k0 y q0 H Hne. pose proof (Permutation_in _ HP H) as [Heq|H']; auto.
        injection Heq as _ Hyx _. congruence. }
      assert (Hnd' : NoDup (hseq (k, x, q) :: map hseq h')).
      { apply (Permutation_NoDup (Permutation_map hseq HP) (kN I)). }
      pose proof (kB I _ _ _ Hin) as Hxb.
      destruct (@nth_error_lt_Some _ cnt x) as [c Hc]; [rewrite (kL I); auto|].
      rewrite Hc. destruct (Nat.ltb_spec 1 (S c)) as [Hc1|Hc0].
      + (* already counted *)
        assert (Ex : mem x vis = true) by (apply (kC I _ _ Hc); lia).
        apply (IH vis); [|lia]. constructor; try solve [apply I].
        * rewrite upd_length. apply (kL I).
        * intros y c'. rewrite nth_error_upd. destruct (Nat.eqb_spec x y) as [<-|Hne]; [|apply (kC I)].
          destruct (Nat.ltb_spec x (length cnt)); [|discriminate]. intros [= <-]. split; auto; lia.
        * intros k0 y q0 H. apply (kB I _ _ _ (Hsub _ H)).
        * intros k0 y q0 H. apply (kW I _ _ _ (Hsub _ H)).
        * intros u e du Hu Hdu He Ht. destruct (kE I _ _ _ Hu Hdu He Ht) as [q0 Hq0].
          exists q0. apply Hkeep; auto. intros Heq. congruence.
        * intros Hsv. destruct (kS I Hsv) as [q0 Hq0]. exists q0. apply Hkeep; auto. intros Heq. congruence.
        * intros k0 y q0 H. apply (kQ I _ _ _ (Hsub _ H)).
        * inversion Hnd'; auto.
      + (* first pop of x *)
        assert (c = 0%nat) by lia. subst c.
        assert (Ex : mem x vis = false).
        { destruct (mem x vis) eqn:E; auto. apply (kC I _ _ Hc) in E. lia. }
        pose proof (kpop_min I Hmin' Hin Ex) as Hdist.
        cbn [Nat.eqb andb]. rewrite ksp_push_eq.
        apply (IH (x :: vis)).
        * constructor.
          -- rewrite upd_length. apply (kL I).
          -- intros y c'. rewrite nth_error_upd, mem_cons. destruct (Nat.eqb_spec x y) as [<-|Hne]; cbn [orb].
             ++ destruct (Nat.ltb_spec x (length cnt)); [|discriminate]. intros [= <-]. split; auto.
             ++ apply (kC I).
          -- intros k0 y q0 H. apply in_app_or in H. destruct H as [H|H].
             ++ apply (kB I _ _ _ (Hsub _ H)).
             ++ destruct (pushes_inv H) as [e [He Hent]]. injection Hent as _ ->. apply (HT He).
          -- intros k0 y q0 H. apply in_app_or in H. destruct H as [H|H].
             ++ apply (kW I _ _ _ (Hsub _ H)).
             ++ destruct (pushes_inv H) as [e [He Hent]]. injection Hent as -> ->.
                destruct Hdist as [[p [W C]] _]. exists (p ++ [e]).
                split; [apply (walk_snoc e W He)|]. rewrite walk_cost_snoc. lia.
          -- intros y Hy. rewrite sget_sset. rewrite mem_cons in Hy.
             destruct (Nat.eq_dec x y) as [Heq|Hne].
             ++ subst y. rewrite Nat.eqb_refl. exists k; auto.
             ++ apply Nat.eqb_neq in Hne. rewrite Hne in *. cbn [orb] in Hy. apply (kV I _ Hy).
          -- intros y Hy. rewrite sget_sset. rewrite mem_cons in Hy.
             destruct (Nat.eq_dec x y) as [Heq|Hne].
             ++ subst y. rewrite Nat.eqb_refl in Hy. discriminate.
             ++ apply Nat.eqb_neq in Hne. rewrite Hne in *. cbn [orb] in Hy. apply (kU I _ Hy).
          -- intros u e du Hu Hdu He Ht. rewrite sget_sset in Hdu. rewrite mem_cons in Hu, Ht.
             apply Bool.orb_false_iff in Ht. destruct Ht as [Ht1 Ht2]. apply Nat.eqb_neq in Ht1.
             destruct (Nat.eq_dec x u) as [Heq|Hne].
             ++ subst u. rewrite Nat.eqb_refl in Hdu. injection Hdu as <-.
                destruct (pushes_In k seq He) as [q0 Hq0].
                exists q0. apply in_or_app; right; auto.
             ++ apply Nat.eqb_neq in Hne. rewrite Hne in *. cbn [orb] in Hu.
                destruct (kE I _ _ _ Hu Hdu He Ht2) as [q0 Hq0]. exists q0.
                apply in_or_app; left. apply Hkeep; auto.
          -- intros Hsv. rewrite mem_cons in Hsv. apply Bool.orb_false_iff in Hsv. destruct Hsv as [H1 H2].
             apply Nat.eqb_neq in H1. destruct (kS I H2) as [q0 Hq0]. exists q0.
             apply in_or_app; left. apply Hkeep; auto.
          -- intros k0 y q0 H. apply in_app_or in H. destruct H as [H|H].
             ++ pose proof (kQ I _ _ _ (Hsub _ H)). lia.
             ++ apply (in_map hseq) in H. rewrite pushes_seqs in H. apply in_seq in H.
                unfold hseq in H; cbn [snd] in H. lia.
          -- rewrite map_app. apply NoDup_app_disj.
             ++ inversion Hnd'; auto.
             ++ rewrite pushes_seqs. apply seq_NoDup.
             ++ intros q0 H1 H2. rewrite pushes_seqs in H2. apply in_seq in H2.
                apply in_map_iff in H1. destruct H1 as [[[k1 y1] q1] [Hq1 Hin1]].
                unfold hseq in Hq1; cbn [snd] in Hq1; subst q1.
                pose proof (kQ I _ _ _ (Hsub _ Hin1)). lia.
          -- apply sset_nodup. apply (kD I).
        * rewrite app_length, pushes_length. pose proof (Phi_visit HV Ex). lia.
    - subst h. exists sc. split; auto. split; [apply (kD I)|]. apply (kfinal I).
  Qed.

  Lemma KInv_init : KInv [] (repeat 0%nat (vbound v)) [] [(0, s, 0%nat)] 1.
  Proof.
    constructor.
    - apply repeat_length.
    - intros x c Hc. pose proof (nth_error_In _ _ Hc) as Hin. apply repeat_spec in Hin. subst c.
      cbn [mem]. split; [discriminate|lia].
    - intros k x q [[= <- <- <-]|[]]. auto.
    - intros k x q [[= <- <- <-]|[]]. exists []; split; [constructor|reflexivity].
    - intros x H; discriminate.
    - intros x _; reflexivity.
    - intros u e du H; discriminate.
    - intros _. exists 0%nat; left; auto.
    - intros k x q [[= <- <- <-]|[]]. lia.
    - cbn [map]. constructor; [intros []|constructor].
    - constructor.
  Qed.

  Lemma ksp1_exact :
    exists m, k_shortest_path v (vbound v) s None 1 = Ok m /\ NoDup (map fst m) /\
              forall x d, sget m x = Some d <-> is_dist v s x d.
  Proof.
    unfold k_shortest_path. apply (ksp_loop_ok KInv_init).
    rewrite Phi_nil. cbn [length]. unfold trav_fuel. lia.
  Qed.
End Ksp.

Theorem ksp1_eq_dijkstra v s : VOk v -> nonneg v ->
  (forall a e, In e (out_edges v a) -> (tgt e < vbound v)%nat) -> (s < vbound v)%nat -> in_cap v s ->
  exists m1 m2, k_shortest_path v (vbound v) s None 1 = Ok m1 /\ dijkstra v s None = Ok m2 /\
                NoDup (map fst m1) /\ NoDup (map fst m2) /\ forall x, sget m1 x = sget m2 x.
Proof.
  intros HV HN HT Hs Hc.
  destruct (ksp1_exact HV HN HT Hs) as [m1 [E1 [N1 X1]]].
  destruct (dijkstra_exact HV HN Hc) as [m2 [E2 [N2 X2]]].
  exists m1, m2. repeat split; auto.
  intros x. destruct (sget m1 x) as [d|] eqn:G1.
  - symmetry. apply X2. apply X1. auto.
  - destruct (sget m2 x) as [d|] eqn:G2; auto.
    apply X2 in G2. apply X1 in G2. congruence.
Qed.
