(* Pure facts about flows on edge lists (C15): sums, weak duality (F1), the max-flow/min-cut
   certificate (F2), the effect of changing the flow of one edge, and the soundness of the
   boolean well-formedness check fok_b. *)
From Coq Require Import Permutation.
From PG Require Import Lib.Io Model.View Model.MatchM Model.FlowM Spec.Reach Spec.FlowSpec.
Open Scope Z_scope.

(* ------------------------------------------------------------------ *)
(* sumZ                                                                *)

Lemma sumZ_app {A} (f : A -> Z) l1 l2 : sumZ f (l1 ++ l2) = sumZ f l1 + sumZ f l2.
Proof. induction l1 as [|a t IH]; cbn [sumZ app]; lia. Qed.

Lemma sumZ_ext {A} (f g : A -> Z) l : (forall a, In a l -> f a = g a) -> sumZ f l = sumZ g l.
Proof.
  induction l as [|a t IH]; intros H; cbn [sumZ]; [reflexivity|].
  rewrite (H a (or_introl eq_refl)), IH; [reflexivity|]. intros b Hb; apply H; right; exact Hb.
Qed.

Lemma sumZ_le {A} (f g : A -> Z) l : (forall a, In a l -> f a <= g a) -> sumZ f l <= sumZ g l.
Proof.
  induction l as [|a t IH]; intros H; cbn [sumZ]; [lia|].
  pose proof (H a (or_introl eq_refl)). assert (sumZ f t <= sumZ g t) by (apply IH; intros b Hb; apply H; right; exact Hb).
  lia.
Qed.

Lemma sumZ_nonneg {A} (f : A -> Z) l : (forall a, In a l -> 0 <= f a) -> 0 <= sumZ f l.
Proof.
  induction l as [|a t IH]; intros H; cbn [sumZ]; [lia|].
  pose proof (H a (or_introl eq_refl)). assert (0 <= sumZ f t) by (apply IH; intros b Hb; apply H; right; exact Hb).
  lia.
Qed.

Lemma sumZ_zero {A} (f : A -> Z) l : (forall a, In a l -> f a = 0) -> sumZ f l = 0.
Proof.
  induction l as [|a t IH]; intros H; cbn [sumZ]; [reflexivity|].
  rewrite (H a (or_introl eq_refl)), IH; [reflexivity|]. intros b Hb; apply H; right; exact Hb.
Qed.

Lemma sumZ_plus {A} (f g : A -> Z) l : sumZ (fun a => f a + g a) l = sumZ f l + sumZ g l.
Proof. induction l as [|a t IH]; cbn [sumZ]; lia. Qed.

Lemma sumZ_minus {A} (f g : A -> Z) l : sumZ (fun a => f a - g a) l = sumZ f l - sumZ g l.
Proof. induction l as [|a t IH]; cbn [sumZ]; lia. Qed.

Lemma sumZ_scal {A} (c : Z) (f : A -> Z) l : sumZ (fun a => c * f a) l = c * sumZ f l.
Proof. induction l as [|a t IH]; cbn [sumZ]; lia. Qed.

Lemma sumZ_map {A B} (h : A -> B) (f : B -> Z) l : sumZ f (map h l) = sumZ (fun a => f (h a)) l.
Proof. induction l as [|a t IH]; cbn [sumZ map]; lia. Qed.

Lemma sumZ_perm {A} (f : A -> Z) l1 l2 : Permutation l1 l2 -> sumZ f l1 = sumZ f l2.
Proof. induction 1; cbn [sumZ]; lia. Qed.

(* split by a predicate *)
Lemma sumZ_split {A} (p : A -> bool) (f : A -> Z) l :
  sumZ f l = sumZ (fun a => if p a then f a else 0) l + sumZ (fun a => if p a then 0 else f a) l.
Proof. induction l as [|a t IH]; cbn [sumZ]; [lia|]. destruct (p a); lia. Qed.

Lemma sumZ_filter {A} (p : A -> bool) (f : A -> Z) l :
  sumZ f (filter p l) = sumZ (fun a => if p a then f a else 0) l.
Proof. induction l as [|a t IH]; cbn [sumZ filter]; [lia|]. destruct (p a); cbn [sumZ]; lia. Qed.

(* exchanging two sums *)
Lemma sumZ_swap {A B} (f : A -> B -> Z) la lb :
  sumZ (fun a => sumZ (fun b => f a b) lb) la = sumZ (fun b => sumZ (fun a => f a b) la) lb.
Proof.
  induction la as [|a t IH]; cbn [sumZ].
  - symmetry; apply sumZ_zero; reflexivity.
  - rewrite IH, <- sumZ_plus. reflexivity.
Qed.

(* the sum of g x over the x of a duplicate-free list equal to a *)
Lemma sumZ_pick (g : nat -> Z) (a : nat) l : NoDup l ->
  sumZ (fun x => if Nat.eqb a x then g x else 0) l = if in_dec Nat.eq_dec a l then g a else 0.
Proof.
  induction 1 as [|x t Hx Hnd IH]; cbn [sumZ]; [reflexivity|].
  rewrite IH. destruct (Nat.eqb_spec a x) as [->|Hne].
  - destruct (in_dec Nat.eq_dec x t) as [Hi|_]; [contradiction|].
    destruct (in_dec Nat.eq_dec x (x :: t)) as [_|Hn]; [lia | exfalso; apply Hn; left; reflexivity].
  - destruct (in_dec Nat.eq_dec a t) as [Hi|Hi]; destruct (in_dec Nat.eq_dec a (x :: t)) as [Hj|Hj]; try lia.
    + exfalso; apply Hj; right; exact Hi.
    + exfalso; destruct Hj as [Hj|Hj]; [apply Hne; symmetry; exact Hj | contradiction].
Qed.

Lemma fold_left_sumZ {A} (h : A -> Z) l a : fold_left (fun acc e => acc + h e) l a = a + sumZ h l.
Proof. revert a; induction l as [|x t IH]; intros a; cbn [fold_left sumZ]; [lia|]. rewrite IH; lia. Qed.

(* ------------------------------------------------------------------ *)
(* F1: weak duality                                                    *)

Definition bz (b : bool) : Z := if b then 1 else 0.

(* out - in of a node, written as one sum *)
Lemma netout_sum E f x :
  outflow E f x - inflow E f x =
  sumZ (fun e => (bz (Nat.eqb (fe_src e) x) - bz (Nat.eqb (fe_tgt e) x)) * f (fe_id e)) E.
Proof.
  unfold outflow, inflow. rewrite <- sumZ_minus. apply sumZ_ext. intros e _.
  destruct (Nat.eqb (fe_src e) x), (Nat.eqb (fe_tgt e) x); cbn [bz]; lia.
Qed.

(* all the nodes a cut argument has to look at *)
Definition endpoints_of (E : list fedge) (s : nat) : list nat :=
  nodup Nat.eq_dec (s :: map fe_src E ++ map fe_tgt E).

Lemma endpoints_of_src E s e : In e E -> In (fe_src e) (endpoints_of E s).
Proof.
  intros H. unfold endpoints_of. apply nodup_In. right. apply in_or_app. left. apply in_map; exact H.
Qed.
Lemma endpoints_of_tgt E s e : In e E -> In (fe_tgt e) (endpoints_of E s).
Proof.
  intros H. unfold endpoints_of. apply nodup_In. right. apply in_or_app. right. apply in_map; exact H.
Qed.
Lemma endpoints_of_s E s : In s (endpoints_of E s).
Proof. unfold endpoints_of. apply nodup_In. left; reflexivity. Qed.
Lemma endpoints_of_nodup E s : NoDup (endpoints_of E s).
Proof. apply NoDup_nodup. Qed.

Lemma pick_in (g : nat -> Z) a l : NoDup l -> In a l ->
  sumZ (fun x => if Nat.eqb a x then g x else 0) l = g a.
Proof.
  intros Hnd Hin. rewrite sumZ_pick by exact Hnd.
  destruct (in_dec Nat.eq_dec a l) as [_|Hn]; [reflexivity | contradiction].
Qed.

(* the value is the net flow across any cut *)
Theorem flow_across_cut E f s t U :
  conserved E f s t -> is_cut U s t ->
  value E f s = cut_fwd E f U - cut_bwd E f U.
Proof.
  intros Hc [Hs Ht].
  set (N := endpoints_of E s).
  assert (HN : NoDup N) by apply endpoints_of_nodup.
  assert (E1 : sumZ (fun x => bz (U x) * (outflow E f x - inflow E f x)) N = value E f s).
  { rewrite (sumZ_ext (fun x => bz (U x) * (outflow E f x - inflow E f x))
                      (fun x => if Nat.eqb s x then outflow E f x - inflow E f x else 0)).
    - rewrite pick_in; [reflexivity | exact HN | apply endpoints_of_s].
    - intros x _. destruct (Nat.eqb_spec s x) as [<-|Hne].
      + rewrite Hs. cbn [bz]. lia.
      + destruct (Nat.eq_dec x t) as [->|Hnt].
        * rewrite Ht. cbn [bz]. lia.
        * assert (Hx : net E f x = 0) by (apply Hc; [intros ->; apply Hne; reflexivity | exact Hnt]).
          unfold net in Hx. lia. }
  assert (E2 : sumZ (fun x => bz (U x) * (outflow E f x - inflow E f x)) N
               = sumZ (fun e => (bz (U (fe_src e)) - bz (U (fe_tgt e))) * f (fe_id e)) E).
  { rewrite (sumZ_ext (fun x => bz (U x) * (outflow E f x - inflow E f x))
               (fun x => sumZ (fun e => bz (U x) * ((bz (Nat.eqb (fe_src e) x) - bz (Nat.eqb (fe_tgt e) x)) * f (fe_id e))) E)).
    2:{ intros x _. rewrite netout_sum, sumZ_scal. reflexivity. }
    rewrite sumZ_swap. apply sumZ_ext. intros e He.
    rewrite (sumZ_ext _ (fun x => (if Nat.eqb (fe_src e) x then bz (U x) * f (fe_id e) else 0)
                                  - (if Nat.eqb (fe_tgt e) x then bz (U x) * f (fe_id e) else 0))).
    2:{ intros x _. destruct (Nat.eqb (fe_src e) x), (Nat.eqb (fe_tgt e) x); cbn [bz]; lia. }
    rewrite sumZ_minus.
    rewrite (pick_in (fun x => bz (U x) * f (fe_id e)) (fe_src e) N HN (endpoints_of_src E s e He)).
    rewrite (pick_in (fun x => bz (U x) * f (fe_id e)) (fe_tgt e) N HN (endpoints_of_tgt E s e He)).
    lia. }
  rewrite <- E1, E2. unfold cut_fwd, cut_bwd. rewrite <- sumZ_minus. apply sumZ_ext. intros e _.
  destruct (U (fe_src e)), (U (fe_tgt e)); cbn [bz negb andb]; lia.
Qed.

(* F1 *)
Theorem weak_duality E f s t U :
  feasible E f -> conserved E f s t -> is_cut U s t ->
  value E f s = cut_fwd E f U - cut_bwd E f U /\ value E f s <= cut_cap E U.
Proof.
  intros Hf Hc HU. pose proof (flow_across_cut E f s t U Hc HU) as Ev. split; [exact Ev|].
  rewrite Ev.
  assert (H1 : cut_fwd E f U <= cut_cap E U).
  { unfold cut_fwd, cut_cap. apply sumZ_le. intros e He. pose proof (Hf e He).
    destruct (U (fe_src e) && negb (U (fe_tgt e)))%bool; lia. }
  assert (H2 : 0 <= cut_bwd E f U).
  { unfold cut_bwd. apply sumZ_nonneg. intros e He. pose proof (Hf e He).
    destruct (negb (U (fe_src e)) && U (fe_tgt e))%bool; lia. }
  lia.
Qed.

(* F2: the certificate *)
Theorem cut_certificate E f s t U :
  conserved E f s t -> is_cut U s t -> no_residual_out E f U ->
  value E f s = cut_cap E U.
Proof.
  intros Hc HU Hr. rewrite (flow_across_cut E f s t U Hc HU).
  assert (H1 : cut_fwd E f U = cut_cap E U).
  { unfold cut_fwd, cut_cap. apply sumZ_ext. intros e He. destruct (Hr e He) as [Ha _].
    destruct (U (fe_src e)) eqn:E1, (U (fe_tgt e)) eqn:E2; cbn [negb andb]; auto. }
  assert (H2 : cut_bwd E f U = 0).
  { unfold cut_bwd. apply sumZ_zero. intros e He. destruct (Hr e He) as [_ Hb].
    destruct (U (fe_src e)) eqn:E1, (U (fe_tgt e)) eqn:E2; cbn [negb andb]; auto. }
  lia.
Qed.

Theorem max_flow_min_cut E f s t U :
  feasible E f -> conserved E f s t -> is_cut U s t -> no_residual_out E f U ->
  value E f s = cut_cap E U /\ is_max_flow E f s t /\ is_min_cut E U s t.
Proof.
  intros Hf Hc HU Hr. pose proof (cut_certificate E f s t U Hc HU Hr) as Ev.
  split; [exact Ev|]. split.
  - split; [exact Hf|]. split; [exact Hc|]. intros f' Hf' Hc'.
    rewrite Ev. apply (weak_duality E f' s t U Hf' Hc' HU).
  - split; [exact HU|]. intros U' HU'. rewrite <- Ev. apply (weak_duality E f s t U' Hf Hc HU').
Qed.

(* ------------------------------------------------------------------ *)
(* Changing the flow of one edge                                       *)

Definition bump (f : nat -> Z) (i : nat) (d : Z) : nat -> Z :=
  fun j => if Nat.eqb i j then f j + d else f j.

Lemma ids_inj E e1 e2 : NoDup (map fe_id E) -> In e1 E -> In e2 E -> fe_id e1 = fe_id e2 -> e1 = e2.
Proof.
  induction E as [|a t IH]; intros Hnd H1 H2 Hid; [destruct H1|].
  cbn [map] in Hnd. inversion Hnd as [|x l Hx Ht]; subst.
  destruct H1 as [<-|H1], H2 as [<-|H2]; auto.
  - exfalso; apply Hx. rewrite Hid. apply in_map; exact H2.
  - exfalso; apply Hx. rewrite <- Hid. apply in_map; exact H1.
Qed.

Lemma sumZ_bump_out (c : fedge -> bool) E f i d : ~ In i (map fe_id E) ->
  sumZ (fun e' => if c e' then bump f i d (fe_id e') else 0) E =
  sumZ (fun e' => if c e' then f (fe_id e') else 0) E.
Proof.
  intros Hn. apply sumZ_ext. intros e' He'. unfold bump.
  destruct (Nat.eqb_spec i (fe_id e')) as [->|_]; [|reflexivity].
  exfalso; apply Hn, in_map, He'.
Qed.

Lemma sumZ_bump (c : fedge -> bool) E f e d : NoDup (map fe_id E) -> In e E ->
  sumZ (fun e' => if c e' then bump f (fe_id e) d (fe_id e') else 0) E =
  sumZ (fun e' => if c e' then f (fe_id e') else 0) E + (if c e then d else 0).
Proof.
  induction E as [|a t IH]; intros Hnd Hin; [destruct Hin|].
  cbn [map] in Hnd. inversion Hnd as [|x l Hx Ht]; subst. cbn [sumZ].
  destruct Hin as [->|Hin].
  - rewrite sumZ_bump_out by exact Hx. unfold bump at 1. rewrite Nat.eqb_refl.
    destruct (c e); lia.
  - rewrite IH by assumption. unfold bump at 1.
    destruct (Nat.eqb_spec (fe_id e) (fe_id a)) as [Heq|_].
    + exfalso; apply Hx. rewrite <- Heq. apply in_map; exact Hin.
    + lia.
Qed.

Lemma outflow_bump E f e d x : NoDup (map fe_id E) -> In e E ->
  outflow E (bump f (fe_id e) d) x = outflow E f x + (if Nat.eqb (fe_src e) x then d else 0).
Proof. intros Hnd Hin. unfold outflow. apply (sumZ_bump (fun e' => Nat.eqb (fe_src e') x) E f e d Hnd Hin). Qed.

Lemma inflow_bump E f e d x : NoDup (map fe_id E) -> In e E ->
  inflow E (bump f (fe_id e) d) x = inflow E f x + (if Nat.eqb (fe_tgt e) x then d else 0).
Proof. intros Hnd Hin. unfold inflow. apply (sumZ_bump (fun e' => Nat.eqb (fe_tgt e') x) E f e d Hnd Hin). Qed.

Lemma net_bump E f e d x : NoDup (map fe_id E) -> In e E ->
  net E (bump f (fe_id e) d) x =
  net E f x + (if Nat.eqb (fe_tgt e) x then d else 0) - (if Nat.eqb (fe_src e) x then d else 0).
Proof. intros Hnd Hin. unfold net. rewrite outflow_bump, inflow_bump by assumption. lia. Qed.

Lemma feasible_bump E f e d : NoDup (map fe_id E) -> In e E -> feasible E f ->
  0 <= f (fe_id e) + d <= fe_cap e -> feasible E (bump f (fe_id e) d).
Proof.
  intros Hnd Hin Hf Hd e' He'. unfold bump.
  destruct (Nat.eqb_spec (fe_id e) (fe_id e')) as [Heq|_]; [|apply Hf; exact He'].
  assert (e = e') by (apply (ids_inj E e e' Hnd Hin He' Heq)). subst e'. exact Hd.
Qed.

(* the specification only looks at the values of the flow *)
Lemma outflow_ext E f g x : (forall i, f i = g i) -> outflow E f x = outflow E g x.
Proof. intros H. unfold outflow. apply sumZ_ext. intros e _. rewrite H; reflexivity. Qed.
Lemma inflow_ext E f g x : (forall i, f i = g i) -> inflow E f x = inflow E g x.
Proof. intros H. unfold inflow. apply sumZ_ext. intros e _. rewrite H; reflexivity. Qed.
Lemma net_ext E f g x : (forall i, f i = g i) -> net E f x = net E g x.
Proof. intros H. unfold net. rewrite (outflow_ext E f g x H), (inflow_ext E f g x H). reflexivity. Qed.
Lemma value_ext E f g s : (forall i, f i = g i) -> value E f s = value E g s.
Proof. intros H. unfold value. rewrite (outflow_ext E f g s H), (inflow_ext E f g s H). reflexivity. Qed.
Lemma feasible_ext E f g : (forall i, f i = g i) -> feasible E f -> feasible E g.
Proof. intros H Hf e He. rewrite <- H. apply Hf; exact He. Qed.

Lemma value_net E f s : value E f s = - net E f s.
Proof. unfold value, net. lia. Qed.

Lemma f_of_upd flows i x j : (i < length flows)%nat ->
  f_of (upd flows i x) j = if Nat.eqb i j then x else f_of flows j.
Proof.
  intros Hi. unfold f_of. rewrite nth_upd.
  destruct (Nat.eqb i j); cbn [andb]; [|reflexivity].
  destruct (Nat.ltb_spec i (length flows)); [reflexivity | lia].
Qed.

Lemma f_of_upd_bump flows i d j : (i < length flows)%nat ->
  f_of (upd flows i (f_of flows i + d)) j = bump (f_of flows) i d j.
Proof.
  intros Hi. rewrite f_of_upd by exact Hi. unfold bump.
  destruct (Nat.eqb_spec i j) as [->|_]; reflexivity.
Qed.

Lemma f_of_repeat n i : f_of (repeat 0 n) i = 0.
Proof.
  unfold f_of. revert i; induction n as [|n IH]; intros [|i]; cbn [repeat nth]; auto.
Qed.

(* the zero flow *)
Lemma zero_feasible E : (forall e, In e E -> 0 <= fe_cap e) -> feasible E (fun _ => 0).
Proof. intros H e He. pose proof (H e He). lia. Qed.
Lemma zero_outflow E x : outflow E (fun _ => 0) x = 0.
Proof. unfold outflow. apply sumZ_zero. intros e _. destruct (Nat.eqb (fe_src e) x); reflexivity. Qed.
Lemma zero_inflow E x : inflow E (fun _ => 0) x = 0.
Proof. unfold inflow. apply sumZ_zero. intros e _. destruct (Nat.eqb (fe_tgt e) x); reflexivity. Qed.

(* the value never exceeds the capacity out of the source *)
Lemma value_le_outcap E f s : feasible E f ->
  value E f s <= sumZ (fun e => if Nat.eqb (fe_src e) s then fe_cap e else 0) E.
Proof.
  intros Hf. unfold value.
  assert (H1 : outflow E f s <= sumZ (fun e => if Nat.eqb (fe_src e) s then fe_cap e else 0) E).
  { unfold outflow. apply sumZ_le. intros e He. pose proof (Hf e He). destruct (Nat.eqb (fe_src e) s); lia. }
  assert (H2 : 0 <= inflow E f s).
  { unfold inflow. apply sumZ_nonneg. intros e He. pose proof (Hf e He). destruct (Nat.eqb (fe_tgt e) s); lia. }
  lia.
Qed.

(* ------------------------------------------------------------------ *)
(* The edges of a view                                                 *)

Lemma in_fedges_iff v e : In e (fedges v) <-> exists a, In a (vnodes v) /\ In e (out_fedges v a).
Proof. unfold fedges, all_out, out_fedges. rewrite in_flat_map. reflexivity. Qed.

Lemma out_fedges_src v a e : In e (out_fedges v a) -> fe_src e = a.
Proof. unfold out_fedges. rewrite in_map_iff. intros [e0 [<- _]]. reflexivity. Qed.

Lemma in_fedges_tgt v a e : In e (in_fedges v a) -> fe_tgt e = a.
Proof. unfold in_fedges. rewrite in_map_iff. intros [e0 [<- _]]. reflexivity. Qed.

Lemma out_fedges_iff v a e : (forall a, out_edges v a <> [] -> In a (vnodes v)) ->
  In e (out_fedges v a) <-> In e (fedges v) /\ fe_src e = a.
Proof.
  intros Ho. split.
  - intros H. split; [|eapply out_fedges_src; eauto].
    apply in_fedges_iff. exists a. split; [|exact H]. apply Ho.
    unfold out_fedges in H. intros Hnil. rewrite Hnil in H. destruct H.
  - intros [H Hs]. apply in_fedges_iff in H. destruct H as [a' [_ H]].
    rewrite (out_fedges_src _ _ _ H) in Hs. subst a'. exact H.
Qed.

Lemma fok_src v e : FOk v -> In e (fedges v) -> In (fe_src e) (vnodes v).
Proof.
  intros _ H. apply in_fedges_iff in H. destruct H as [a [Ha H]].
  rewrite (out_fedges_src _ _ _ H). exact Ha.
Qed.

Lemma incident_iff v x e : FOk v ->
  In e (incident v x) <-> In e (fedges v) /\ (fe_src e = x \/ fe_tgt e = x).
Proof.
  intros Hv. unfold incident. fold (out_fedges v x). fold (in_fedges v x).
  rewrite in_app_iff, (out_fedges_iff v x e (fok_out v Hv)), (fok_inout v Hv). tauto.
Qed.

(* the capacity out of a node is read off its out list *)
Lemma sumZ_src_flat (h : nat -> list fedge) (g : fedge -> Z) s l :
  (forall a e, In e (h a) -> fe_src e = a) -> NoDup l -> In s l ->
  sumZ (fun e => if Nat.eqb (fe_src e) s then g e else 0) (flat_map h l) = sumZ g (h s).
Proof.
  intros Hh. induction l as [|a t IH]; intros Hnd Hin; [destruct Hin|].
  inversion Hnd as [|x l' Hx Ht]; subst. cbn [flat_map]. rewrite sumZ_app.
  destruct Hin as [->|Hin].
  - rewrite (sumZ_ext _ g (h s)).
    2:{ intros e He. rewrite (Hh _ _ He), Nat.eqb_refl. reflexivity. }
    rewrite (sumZ_zero _ (flat_map h t)); [lia|]. intros e He.
    apply in_flat_map in He. destruct He as [a' [Ha' He]]. rewrite (Hh _ _ He).
    destruct (Nat.eqb_spec a' s) as [->|_]; [contradiction | reflexivity].
  - rewrite (IH Ht Hin). rewrite sumZ_zero; [lia|]. intros e He.
    rewrite (Hh _ _ He). destruct (Nat.eqb_spec a s) as [->|_]; [contradiction | reflexivity].
Qed.

Lemma sumZ_src_fedges v (g : fedge -> Z) s : NoDup (vnodes v) -> In s (vnodes v) ->
  sumZ (fun e => if Nat.eqb (fe_src e) s then g e else 0) (fedges v) = sumZ g (out_fedges v s).
Proof.
  intros Hnd Hin. change (fedges v) with (flat_map (out_fedges v) (vnodes v)).
  apply sumZ_src_flat; [apply out_fedges_src | exact Hnd | exact Hin].
Qed.

(* ------------------------------------------------------------------ *)
(* fok_b                                                               *)

Lemma nodup_b_ok l : nodup_b l = true -> NoDup l.
Proof.
  induction l as [|a t IH]; cbn [nodup_b]; intros H; [constructor|].
  apply andb_true_iff in H. destruct H as [H1 H2]. constructor; [|apply IH; exact H2].
  apply negb_true_iff in H1. apply mem_false; exact H1.
Qed.

Lemma fedge_eqb_eq e1 e2 : fedge_eqb e1 e2 = true -> e1 = e2.
Proof.
  destruct e1 as [[[i1 s1] t1] c1], e2 as [[[i2 s2] t2] c2]. unfold fedge_eqb. cbn [fe_id fe_src fe_tgt fe_cap].
  rewrite !andb_true_iff, !Nat.eqb_eq, Z.eqb_eq. intros [[[-> ->] ->] ->]. reflexivity.
Qed.

Lemma fedge_mem_In e l : fedge_mem e l = true -> In e l.
Proof.
  unfold fedge_mem. rewrite existsb_exists. intros [e' [Hin Heq]].
  apply fedge_eqb_eq in Heq. subst e'. exact Hin.
Qed.

Lemma assoc_nat_keys {A} (l : list (nat * A)) (P : nat -> Prop) a x :
  (forall al, In al l -> P (fst al)) -> assoc_nat l a = Some x -> P a.
Proof. intros H E. apply assoc_nat_In in E. apply (H (a, x) E). Qed.

Theorem fok_b_ok v : fok_b v = true -> FOk v.
Proof.
  unfold fok_b. rewrite !andb_true_iff. intros [[[[[[[Hd Hn] Hb] Ho] Hi] He] Hids] Hin].
  rewrite forallb_forall in Hb, Ho, Hi, He, Hin.
  assert (Hout : forall a, out_edges v a <> [] -> In a (vnodes v)).
  { intros a Ha. unfold out_edges in Ha. destruct (assoc_nat (vout v) a) as [l|] eqn:El; [|congruence].
    refine (assoc_nat_keys (vout v) (fun a => In a (vnodes v)) a l _ El). intros al Hal. apply mem_In, Ho, Hal. }
  assert (Hinn : forall a, in_edges v a <> [] -> In a (vnodes v)).
  { intros a Ha. unfold in_edges in Ha. destruct (assoc_nat (vin v) a) as [l|] eqn:El; [|congruence].
    refine (assoc_nat_keys (vin v) (fun a => In a (vnodes v)) a l _ El). intros al Hal. apply mem_In, Hi, Hal. }
  assert (He' : forall e, In e (fedges v) ->
            In (fe_tgt e) (vnodes v) /\ (fe_id e < vebound v)%nat /\ 0 <= fe_cap e /\ In e (in_fedges v (fe_tgt e))).
  { intros e Hin'. specialize (He e Hin'). rewrite !andb_true_iff in He. destruct He as [[[H1 H2] H3] H4].
    split; [apply mem_In; exact H1|]. split; [apply Nat.ltb_lt; exact H2|].
    split; [apply Z.leb_le; exact H3 | apply fedge_mem_In; exact H4]. }
  constructor.
  - exact Hd.
  - apply nodup_b_ok; exact Hn.
  - intros a Ha. specialize (Hb a Ha). apply andb_true_iff in Hb. apply Nat.ltb_lt, Hb.
  - intros a Ha. specialize (Hb a Ha). apply andb_true_iff in Hb. apply in_capb_ok, Hb.
  - exact Hout.
  - intros e Hin'. apply (He' e Hin').
  - intros e Hin'. apply (He' e Hin').
  - apply nodup_b_ok; exact Hids.
  - intros a e. split.
    + intros Hie. assert (Ha : In a (vnodes v)).
      { apply Hinn. unfold in_fedges in Hie. intros Hnil. rewrite Hnil in Hie. destruct Hie. }
      split; [|eapply in_fedges_tgt; eauto].
      specialize (Hin a Ha). rewrite forallb_forall in Hin. apply fedge_mem_In, Hin, Hie.
    + intros [Hin' <-]. apply (He' e Hin').
  - intros e Hin'. apply (He' e Hin').
Qed.
