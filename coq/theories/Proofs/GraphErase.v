(* The operations never look at the edge weights: mapping a function over the weights commutes
   with every operation and every walk.  Used with [fst] to erase the stamps of GraphS.v. *)
From PG Require Import Lib.ListArr Lib.Walk Model.GraphM Spec.MGraph
  Proofs.GraphP Proofs.GraphQ Proofs.GraphRE Proofs.GraphRN Proofs.GraphH.
Set Implicit Arguments.

Section Erase.
  Context {NW EW EW' : Type}.
  Variable f : EW -> EW'.
  Variable cap : nat.
  Variable capcheck : bool.
  Variable debug : bool.

  Definition emap_e (ed : edge EW) : edge EW' := mkEdge (f (ewt ed)) (enext ed) (enode ed).
  Definition emap (g : graph NW EW) : graph NW EW' := mkGraph (gnodes g) (map emap_e (gedges g)).

  Lemma nth_emap (es : list (edge EW)) x :
    nth_error (map emap_e es) x = option_map emap_e (nth_error es x).
  Proof. apply nth_error_map. Qed.

  Lemma fuel_emap g : fuel_of (emap g) = fuel_of g.
  Proof. unfold fuel_of, emap. simpl. rewrite map_length. reflexivity. Qed.

  Lemma chain_emap fuel : forall (es : list (edge EW)) cur k,
    chain fuel (map emap_e es) cur k = chain fuel es cur k.
  Proof.
    induction fuel as [|fu IH]; intros es cur k; cbn [chain]; auto.
    rewrite nth_emap. destruct (nth_error es cur) as [ed|]; simpl; auto. rewrite IH. reflexivity.
  Qed.

  Lemma adjf_emap g k i : adjf cap (emap g) k i = adjf cap g k i.
  Proof.
    unfold adjf. rewrite fuel_emap.
    change (gedges (emap g)) with (map emap_e (gedges g)).
    change (node_next cap (emap g) i) with (node_next cap g i).
    rewrite chain_emap. reflexivity.
  Qed.

  Lemma ept_emap g k x : ept (emap g) k x = ept g k x.
  Proof.
    unfold ept. change (gedges (emap g)) with (map emap_e (gedges g)). rewrite nth_emap.
    destruct (nth_error (gedges g) x); reflexivity.
  Qed.

  Lemma etrip_emap g : etrip (emap g) = map (fun t => (fst t, f (snd t))) (etrip g).
  Proof. unfold etrip, emap. simpl. rewrite !map_map. reflexivity. Qed.

  (* ---- add ---- *)
  Lemma try_add_node_emap g w :
    try_add_node cap capcheck (emap g) w =
      (fst (try_add_node cap capcheck g w), emap (snd (try_add_node cap capcheck g w))).
  Proof.
    unfold try_add_node. simpl.
    destruct (andb capcheck (Nat.eqb (length (gnodes g)) cap)); reflexivity.
  Qed.

  Lemma try_add_edge_emap g a b w :
    try_add_edge cap capcheck (emap g) a b (f w) =
      (fst (try_add_edge cap capcheck g a b w), emap (snd (try_add_edge cap capcheck g a b w))).
  Proof.
    unfold try_add_edge. simpl. rewrite map_length.
    destruct (andb capcheck (Nat.eqb (length (gedges g)) cap)); [reflexivity|].
    destruct (Nat.leb (length (gnodes g)) (Nat.max a b)); [reflexivity|].
    destruct (nth_error (gnodes g) a) as [an|]; [|reflexivity].
    destruct (nth_error (gnodes g) b) as [bn|]; [|reflexivity].
    destruct (Nat.eqb a b); simpl; unfold emap; simpl; rewrite map_app; reflexivity.
  Qed.

  (* ---- remove_edge ---- *)
  Lemma relink_walk_emap fuel : forall (es : list (edge EW)) cur k e repl,
    relink_walk fuel (map emap_e es) cur k e repl = rmap (map emap_e) (relink_walk fuel es cur k e repl).
  Proof.
    induction fuel as [|fu IH]; intros es cur k e repl; cbn [relink_walk]; auto.
    rewrite nth_emap. destruct (nth_error es cur) as [ed|]; simpl; auto.
    destruct (Nat.eqb (sel (enext ed) k) e); auto.
    simpl. rewrite map_upd. reflexivity.
  Qed.

  Definition emap_gb (p : graph NW EW * bool) : graph NW EW' * bool := (emap (fst p), snd p).

  Lemma change_links_dir_emap g enod e enxt k :
    change_links_dir debug (emap g) enod e enxt k =
      rmap emap_gb (change_links_dir debug g enod e enxt k).
  Proof.
    unfold change_links_dir. rewrite fuel_emap. cbn [emap gnodes gedges].
    destruct (nth_error (gnodes g) (sel enod k)) as [n|].
    - destruct (Nat.eqb (sel (nnext n) k) e); [reflexivity|].
      rewrite relink_walk_emap.
      destruct (relink_walk (S (fuel_of g)) (gedges g) (sel (nnext n) k) k e (sel enxt k)); reflexivity.
    - destruct debug; reflexivity.
  Qed.

  Lemma change_edge_links_emap g enod e enxt :
    change_edge_links debug (emap g) enod e enxt = rmap emap (change_edge_links debug g enod e enxt).
  Proof.
    unfold change_edge_links. rewrite change_links_dir_emap.
    destruct (change_links_dir debug g enod e enxt 0) as [[g1 cont]| |]; simpl; auto.
    destruct cont; auto.
    rewrite change_links_dir_emap.
    destruct (change_links_dir debug g1 enod e enxt 1) as [[g2 c2]| |]; reflexivity.
  Qed.

  Definition emap_og (p : option EW * graph NW EW) : option EW' * graph NW EW' :=
    (option_map f (fst p), emap (snd p)).

  Lemma remove_edge_adjust_emap g e :
    remove_edge_adjust_indices debug (emap g) e = rmap emap_og (remove_edge_adjust_indices debug g e).
  Proof.
    unfold remove_edge_adjust_indices. cbn [emap gnodes gedges]. rewrite nth_emap.
    destruct (nth_error (gedges g) e) as [removed|]; cbn [option_map rmap]; auto.
    rewrite <- map_swap_remove. rewrite nth_emap.
    destruct (nth_error (swap_remove (gedges g) e) e) as [sw|]; cbn [option_map rmap]; auto.
    rewrite map_length. cbn [emap_e enode ewt].
    pose proof (change_edge_links_emap (mkGraph (gnodes g) (swap_remove (gedges g) e))
                  (enode sw) (length (swap_remove (gedges g) e)) (e, e)) as H.
    unfold emap in H at 1. cbn [gnodes gedges] in H. rewrite H.
    destruct (change_edge_links debug (mkGraph (gnodes g) (swap_remove (gedges g) e))
                (enode sw) (length (swap_remove (gedges g) e)) (e, e)); reflexivity.
  Qed.

  Lemma remove_edge_emap g e :
    remove_edge debug (emap g) e = rmap emap_og (remove_edge debug g e).
  Proof.
    unfold remove_edge. cbn [emap gnodes gedges]. rewrite nth_emap.
    destruct (nth_error (gedges g) e) as [ed|]; cbn [option_map rmap]; auto.
    cbn [emap_e enode enext].
    rewrite change_edge_links_emap.
    destruct (change_edge_links debug g (enode ed) e (enext ed)) as [g1| |]; simpl; auto.
    apply remove_edge_adjust_emap.
  Qed.

  (* ---- remove_node ---- *)
  Lemma drain_dir_emap fuel : forall g a k,
    drain_dir cap debug fuel (emap g) a k = rmap emap (drain_dir cap debug fuel g a k).
  Proof.
    induction fuel as [|fu IH]; intros g a k; cbn [drain_dir]; auto.
    change (gnodes (emap g)) with (gnodes g).
    destruct (nth_error (gnodes g) a) as [n|]; auto.
    destruct (Nat.eqb (sel (nnext n) k) cap); auto.
    rewrite remove_edge_emap.
    destruct (remove_edge debug g (sel (nnext n) k)) as [[r g1]| |]; simpl; auto.
    destruct r; simpl; auto. destruct debug; auto.
  Qed.

  Lemma repoint_walk_emap fuel : forall (es : list (edge EW)) cur k old new,
    repoint_walk debug fuel (map emap_e es) cur k old new =
      rmap (map emap_e) (repoint_walk debug fuel es cur k old new).
  Proof.
    induction fuel as [|fu IH]; intros es cur k old new; cbn [repoint_walk]; auto.
    rewrite nth_emap. destruct (nth_error es cur) as [ed|]; simpl; auto.
    destruct (andb debug (negb (Nat.eqb (sel (enode ed) k) old))); auto.
    rewrite <- IH. rewrite map_upd. reflexivity.
  Qed.

  Definition emap_ng (p : option NW * graph NW EW) : option NW * graph NW EW' :=
    (fst p, emap (snd p)).

  Lemma finish_node_emap g a :
    finish_node debug (emap g) a = rmap emap_ng (finish_node debug g a).
  Proof.
    unfold finish_node. change (gnodes (emap g)) with (gnodes g).
    destruct (nth_error (gnodes g) a) as [removed|]; auto.
    destruct (nth_error (swap_remove (gnodes g) a) a) as [moved|]; auto.
    rewrite fuel_emap. change (gedges (emap g)) with (map emap_e (gedges g)).
    rewrite repoint_walk_emap.
    destruct (repoint_walk debug (fuel_of g) (gedges g) (fst (nnext moved)) 0
                (length (swap_remove (gnodes g) a)) a) as [es1| |]; cbn [rbind rmap]; auto.
    rewrite repoint_walk_emap.
    destruct (repoint_walk debug (fuel_of g) es1 (snd (nnext moved)) 1
                (length (swap_remove (gnodes g) a)) a) as [es2| |]; reflexivity.
  Qed.

  Lemma remove_node_emap g a :
    remove_node cap debug (emap g) a = rmap emap_ng (remove_node cap debug g a).
  Proof.
    rewrite !remove_node_unfold. change (gnodes (emap g)) with (gnodes g).
    destruct (nth_error (gnodes g) a) as [n|]; auto.
    rewrite fuel_emap, drain_dir_emap.
    destruct (drain_dir cap debug (fuel_of g) g a 0) as [g1| |]; cbn [rbind rmap]; auto.
    rewrite fuel_emap, drain_dir_emap.
    destruct (drain_dir cap debug (fuel_of g1) g1 a 1) as [g2| |]; cbn [rbind rmap]; auto.
    apply finish_node_emap.
  Qed.

  Lemma reverse_emap g : reverse (emap g) = emap (reverse g).
  Proof. unfold reverse, emap. simpl. rewrite !map_map. reflexivity. Qed.

  Lemma clear_edges_emap g : clear_edges cap (emap g) = emap (clear_edges cap g).
  Proof. reflexivity. Qed.

  (* ---- histories ---- *)
  Definition map_op (o : op NW EW) : op NW EW' :=
    match o with
    | OAddNode w => OAddNode w
    | OAddEdge a b w => OAddEdge a b (f w)
    | ORemoveEdge e => ORemoveEdge e
    | ORemoveNode a => ORemoveNode a
    | OReverse => OReverse
    | OClearEdges => OClearEdges
    end.

  Lemma step_emap g o :
    step cap capcheck debug (emap g) (map_op o) = rmap emap (step cap capcheck debug g o).
  Proof.
    destruct o as [w|a b w|e|a| |]; cbn [step map_op rmap].
    - rewrite try_add_node_emap. reflexivity.
    - rewrite try_add_edge_emap. reflexivity.
    - rewrite remove_edge_emap. destruct (remove_edge debug g e) as [[r g1]| |]; reflexivity.
    - rewrite remove_node_emap. destruct (remove_node cap debug g a) as [[r g1]| |]; reflexivity.
    - rewrite reverse_emap. reflexivity.
    - rewrite clear_edges_emap. reflexivity.
  Qed.

  Lemma run_emap ops : forall g,
    run cap capcheck debug (emap g) (map map_op ops) = rmap emap (run cap capcheck debug g ops).
  Proof.
    induction ops as [|o ops IH]; intros g; cbn [run map]; auto.
    rewrite step_emap. destruct (step cap capcheck debug g o) as [g1| |]; simpl; auto.
  Qed.
End Erase.
