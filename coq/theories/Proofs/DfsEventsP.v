(* Facts about the trace machine of Spec/DfsEvents.v alone: its invariant, and what an
   accepted trace therefore looks like.  The model is not mentioned here. *)
From PG Require Import Lib.Io Model.View Model.Traversal Spec.Reach Spec.DfsEvents Proofs.TravBase.

Section Inv.
Variable v : view.
Variable ctl : dfs_event -> control.
Variable starts : list nat.

Notation estep := (ev_step v ctl starts).
Notation erun := (ev_run v ctl starts).

Record Tinv (st : tst) : Prop := {
  ti_fin_disc : forall x, In x (tfin st) -> In x (tdisc st);
  ti_open_disc : forall x, In x (map fst (topen st)) -> In x (tdisc st);
  ti_open_fin : forall x, In x (map fst (topen st)) -> ~ In x (tfin st);
  ti_open_nd : NoDup (map fst (topen st));
  ti_cover : forall x, In x (tdisc st) -> In x (tfin st) \/ In x (map fst (topen st));
  ti_nd_disc : NoDup (tdisc st);
  ti_nd_fin : NoDup (tfin st);
  ti_frames : forall u ws, In (u, ws) (topen st) -> forall w, In w ws -> step v u w;
  ti_pend : forall w, tpend st = Some w -> exists u ws o, topen st = (u, ws) :: o /\ step v u w;
  ti_roots : forall x, In x (tdisc st) -> exists r, In r starts /\ reachable v r x
}.

Lemma tinv_init : Tinv tinit.
Proof.
  constructor; cbn [tinit topen tdisc tfin tpend map].
  - intros x [].
  - intros x [].
  - intros x [].
  - constructor.
  - intros x [].
  - constructor.
  - constructor.
  - intros u ws [].
  - intros w Hw; discriminate Hw.
  - intros x [].
Qed.

(* an edge event: the top frame loses its first successor, which may become pending *)
Lemma tinv_edge u w ws o dc fn t p' :
  Tinv (mkT ((u, w :: ws) :: o) dc fn t None) -> (p' = None \/ p' = Some w) ->
  Tinv (mkT ((u, ws) :: o) dc fn t p').
Proof.
  intros I Hp. destruct I as [Hfd Hod Hof Hon Hcv Hnd Hnf Hfr Hpe Hro].
  cbn [topen tdisc tfin tpend map fst] in *.
  constructor; cbn [topen tdisc tfin tpend map fst]; auto.
  - intros u0 ws0 [E|Hin] w0 Hw0.
    + injection E as <- <-. apply (Hfr u (w :: ws) (or_introl eq_refl)). right; exact Hw0.
    + apply (Hfr u0 ws0 (or_intror Hin) w0 Hw0).
  - intros w0 E. destruct Hp as [->| ->]; [discriminate E|]. injection E as <-.
    exists u, ws, o. split; [reflexivity|].
    apply (Hfr u (w :: ws) (or_introl eq_refl)). left; reflexivity.
Qed.

Lemma ev_step_inv st e st' : Tinv st -> estep st e st' -> Tinv st'.
Proof.
  intros I H. inversion H as [u o dc fn t p Hu Hp | u w ws o dc fn t Hw | u w ws o dc fn t Hw Hf
                             | u w ws o dc fn t Hw | u o dc fn t]; subst.
  - destruct I as [Hfd Hod Hof Hon Hcv Hnd Hnf Hfr Hpe Hro].
    cbn [topen tdisc tfin tpend map fst] in *.
    constructor; cbn [topen tdisc tfin tpend map fst].
    + intros x Hx. right. apply Hfd; exact Hx.
    + intros x [<-|Hx]; [left; reflexivity | right; apply Hod; exact Hx].
    + intros x [<-|Hx]; [intros Hf; apply Hu, Hfd, Hf | apply Hof; exact Hx].
    + constructor; [intros Hx; apply Hu, Hod, Hx | exact Hon].
    + intros x [<-|Hx]; [right; left; reflexivity|].
      destruct (Hcv x Hx) as [Hf|Ho]; [left; exact Hf | right; right; exact Ho].
    + constructor; assumption.
    + exact Hnf.
    + intros u0 ws0 [E|Hin] w0 Hw0.
      * injection E as <- <-. destruct (is_prune (ctl (EvDiscover u t))); [destruct Hw0 | exact Hw0].
      * apply (Hfr u0 ws0 Hin w0 Hw0).
    + intros w E; discriminate E.
    + intros x [<-|Hx]; [|apply Hro; exact Hx].
      destruct Hp as [->|[-> [-> Hs]]].
      * destruct (Hpe u eq_refl) as [u0 [ws0 [o0 [-> Hst]]]].
        destruct (Hro u0 (Hod u0 (or_introl eq_refl))) as [r [Hr Rr]].
        exists r. split; [exact Hr | eapply reach_step; [exact Rr | exact Hst]].
      * exists u. split; [exact Hs | apply reach_refl].
  - eapply tinv_edge; [exact I|]. destruct (is_continue (ctl (EvTree u w))); [right|left]; reflexivity.
  - eapply tinv_edge; [exact I | left; reflexivity].
  - eapply tinv_edge; [exact I | left; reflexivity].
  - destruct I as [Hfd Hod Hof Hon Hcv Hnd Hnf Hfr Hpe Hro].
    cbn [topen tdisc tfin tpend map fst] in *. inversion Hon as [|u' o' Hnu Hno]; subst.
    constructor; cbn [topen tdisc tfin tpend map fst].
    + intros x [<-|Hx]; [apply Hod; left; reflexivity | apply Hfd; exact Hx].
    + intros x Hx. apply Hod; right; exact Hx.
    + intros x Hx [<-|Hf]; [exact (Hnu Hx) | apply (Hof x (or_intror Hx) Hf)].
    + exact Hno.
    + intros x Hx. destruct (Hcv x Hx) as [Hf|[<-|Ho]];
        [left; right; exact Hf | left; left; reflexivity | right; exact Ho].
    + exact Hnd.
    + constructor; [apply Hof; left; reflexivity | exact Hnf].
    + intros u0 ws0 Hin. apply (Hfr u0 ws0 (or_intror Hin)).
    + intros w E; discriminate E.
    + exact Hro.
Qed.

Lemma ev_run_inv st evs st' : Tinv st -> erun st evs st' -> Tinv st'.
Proof.
  intros I R. induction R as [st | st e st1 evs st2 Hs Hr IH]; [exact I|].
  apply IH. eapply ev_step_inv; [exact I | exact Hs].
Qed.

Lemma ev_run_app st1 l1 st2 l2 st3 : erun st1 l1 st2 -> erun st2 l2 st3 -> erun st1 (l1 ++ l2) st3.
Proof.
  intros R1 R2. induction R1 as [st | st e st1 evs st2 Hs Hr IH]; cbn [app]; [exact R2|].
  econstructor; [exact Hs | apply IH; exact R2].
Qed.

Lemma ev_run_one st e st' : estep st e st' -> erun st [e] st'.
Proof. intros H. econstructor; [exact H | constructor]. Qed.

(* ------------------------------------------------------------------ *)
(* Reading an accepted trace                                           *)

(* every edge event is an edge of the view leaving the innermost open node; a back edge
   leads to an open node (an ancestor, or the node itself) *)
Lemma ev_step_edge st e st' : Tinv st -> estep st e st' ->
  forall u w, e = EvTree u w \/ e = EvBack u w \/ e = EvCross u w ->
  step v u w /\ exists ws o, topen st = (u, w :: ws) :: o.
Proof.
  intros I H u0 w0 He.
  inversion H as [u o dc fn t p Hu Hp | u w ws o dc fn t Hw | u w ws o dc fn t Hw Hf
                 | u w ws o dc fn t Hw | u o dc fn t]; subst;
    destruct He as [E|[E|E]]; try discriminate E; injection E as <- <-;
    (split; [apply (ti_frames _ I u (w :: ws)); left; reflexivity | exists ws, o; reflexivity]).
Qed.

Lemma ev_step_back_open st u w st' : Tinv st -> estep st (EvBack u w) st' ->
  In w (map fst (topen st)).
Proof.
  intros I H. inversion H as [| | u' w' ws o dc fn t Hw Hf | |]; subst.
  destruct (ti_cover _ I w Hw) as [Hfin|Ho]; [contradiction | exact Ho].
Qed.

Lemma ev_run_disc st evs st' : erun st evs st' -> tdisc st' = rev (disc_nodes evs) ++ tdisc st.
Proof.
  induction 1 as [st | st e st1 evs st2 Hs Hr IH]; [reflexivity|].
  rewrite IH. unfold disc_nodes. cbn [flat_map]. fold (disc_nodes evs).
  inversion Hs; subst; cbn [tdisc app]; try reflexivity.
  cbn [rev]. rewrite <- app_assoc. reflexivity.
Qed.

Lemma ev_run_fin st evs st' : erun st evs st' -> tfin st' = rev (fin_nodes evs) ++ tfin st.
Proof.
  induction 1 as [st | st e st1 evs st2 Hs Hr IH]; [reflexivity|].
  rewrite IH. unfold fin_nodes. cbn [flat_map]. fold (fin_nodes evs).
  inversion Hs; subst; cbn [tfin app]; try reflexivity.
  cbn [rev]. rewrite <- app_assoc. reflexivity.
Qed.

(* the times carried by Discover and Finish events count up one by one from the clock *)
Lemma ev_run_times st evs st' : erun st evs st' ->
  ttime st <= ttime st' /\ ev_times evs = seq (ttime st) (ttime st' - ttime st).
Proof.
  induction 1 as [st | st e st1 evs st2 Hs Hr [IHle IH]].
  - split; [lia|]. rewrite Nat.sub_diag. reflexivity.
  - unfold ev_times. cbn [flat_map]. fold (ev_times evs). rewrite IH.
    inversion Hs; subst; cbn [ttime app] in *; try (split; [lia | reflexivity]).
    + split; [lia|]. replace (ttime st2 - t) with (S (ttime st2 - S t)) by lia. reflexivity.
    + split; [lia|]. replace (ttime st2 - t) with (S (ttime st2 - S t)) by lia. reflexivity.
Qed.

Lemma ev_run_nest st evs st' : erun st evs st' ->
  nest (map fst (topen st)) evs = Some (map fst (topen st')).
Proof.
  induction 1 as [st | st e st1 evs st2 Hs Hr IH]; [reflexivity|].
  inversion Hs; subst; cbn [nest topen map fst] in *; rewrite ?Nat.eqb_refl; exact IH.
Qed.

Lemma ev_run_split st pre e post st' : erun st (pre ++ e :: post) st' ->
  exists st1 st2, erun st pre st1 /\ estep st1 e st2 /\ erun st2 post st'.
Proof.
  revert st. induction pre as [|a pre IH]; intros st R; cbn [app] in R.
  - inversion R as [|st0 e0 st1 evs st2 Hs Hr]; subst. exists st, st1.
    split; [constructor|]. split; assumption.
  - inversion R as [|st0 e0 st1 evs st2 Hs Hr]; subst.
    destruct (IH st1 Hr) as [sa [sb [R1 [Hs' R2]]]]. exists sa, sb.
    split; [econstructor; [exact Hs | exact R1]|]. split; assumption.
Qed.

Lemma ev_run_clock st evs st' : erun st evs st' ->
  ttime st = length (tdisc st) + length (tfin st) ->
  ttime st' = length (tdisc st') + length (tfin st').
Proof.
  induction 1 as [st | st e st1 evs st2 Hs Hr IH]; intros H; [exact H|].
  apply IH. inversion Hs; subst; cbn [ttime tdisc tfin length] in *; lia.
Qed.

(* each event of an accepted trace is justified by the events before it *)
Lemma ev_run_event_ok evs st : erun tinit evs st ->
  forall pre e post, evs = pre ++ e :: post -> event_ok v pre e.
Proof.
  intros R pre e post E. subst evs. apply ev_run_split in R. destruct R as [st1 [st2 [R1 [Hs _]]]].
  pose proof (ev_run_inv _ _ _ tinv_init R1) as I.
  pose proof (ev_run_disc _ _ _ R1) as Hd. pose proof (ev_run_fin _ _ _ R1) as Hf.
  pose proof (ev_run_nest _ _ _ R1) as Hn. pose proof (ev_run_clock _ _ _ R1 eq_refl) as Hc.
  cbn [tinit tdisc tfin topen map] in Hd, Hf, Hn. rewrite app_nil_r in Hd, Hf.
  assert (HD : forall x, In x (tdisc st1) <-> In x (disc_nodes pre))
    by (intros x; rewrite Hd, <- in_rev; reflexivity).
  assert (HF : forall x, In x (tfin st1) <-> In x (fin_nodes pre))
    by (intros x; rewrite Hf, <- in_rev; reflexivity).
  assert (LD : length (tdisc st1) = length (disc_nodes pre)) by (rewrite Hd; apply rev_length).
  assert (LF : length (tfin st1) = length (fin_nodes pre)) by (rewrite Hf; apply rev_length).
  unfold event_ok.
  inversion Hs as [u o dc fn t p Hu Hp | u w ws o dc fn t Hw | u w ws o dc fn t Hw Hfn
                  | u w ws o dc fn t Hw | u o dc fn t]; subst;
    cbn [topen tdisc tfin ttime map fst] in *.
  - split; [rewrite <- HD; exact Hu | lia].
  - split; [exists (map fst o); exact Hn|]. split; [|rewrite <- HD; exact Hw].
    apply (ti_frames _ I u (w :: ws)); left; reflexivity.
  - split; [|split; [|split]].
    + exists (map fst o). split; [exact Hn|].
      destruct (ti_cover _ I w Hw) as [H|H]; [contradiction | exact H].
    + apply (ti_frames _ I u (w :: ws)); left; reflexivity.
    + rewrite <- HD; exact Hw.
    + rewrite <- HF; exact Hfn.
  - split; [exists (map fst o); exact Hn|]. split; [|rewrite <- HF; exact Hw].
    apply (ti_frames _ I u (w :: ws)); left; reflexivity.
  - split; [exists (map fst o); exact Hn|]. split; [|split; [|lia]].
    + rewrite <- HD. apply (ti_open_disc _ I). left; reflexivity.
    + rewrite <- HF. apply (ti_open_fin _ I). left; reflexivity.
Qed.

(* ------------------------------------------------------------------ *)
(* A visitor that always continues: everything below a start is examined *)

Definition Tclosed (st : tst) : Prop :=
  (forall u w, In u (tfin st) -> step v u w -> In w (tdisc st)) /\
  (forall u ws, In (u, ws) (topen st) ->
     forall w, step v u w -> In w (tdisc st) \/ In w ws \/ tpend st = Some w).

Hypothesis Hcont : forall e, ctl e = CContinue.

Lemma ev_step_closed st e st' : Tinv st -> Tclosed st -> estep st e st' -> Tclosed st'.
Proof.
  intros I [Cf Co] H.
  inversion H as [u o dc fn t p Hu Hp | u w ws o dc fn t Hw | u w ws o dc fn t Hw Hf
                 | u w ws o dc fn t Hw | u o dc fn t]; subst;
    cbn [topen tdisc tfin tpend] in *.
  - split; cbn [topen tdisc tfin tpend].
    + intros u0 w0 Hu0 Hs. right. apply (Cf u0 w0 Hu0 Hs).
    + intros u0 ws0 [E|Hin] w0 Hs.
      * injection E as <- <-. rewrite Hcont. cbn [is_prune]. right; left; exact Hs.
      * destruct (Co u0 ws0 Hin w0 Hs) as [Hd|[Hws|Hpe]].
        -- left; right; exact Hd.
        -- right; left; exact Hws.
        -- left; left. destruct Hp as [->|[-> _]]; [injection Hpe as ->; reflexivity | discriminate Hpe].
  - split; cbn [topen tdisc tfin tpend]; [exact Cf|].
    rewrite Hcont. cbn [is_continue].
    intros u0 ws0 [E|Hin] w0 Hs.
    + injection E as <- <-. destruct (Co u (w :: ws) (or_introl eq_refl) w0 Hs) as [Hd|[[<-|Hws]|Hpe]].
      * left; exact Hd.
      * right; right; reflexivity.
      * right; left; exact Hws.
      * discriminate Hpe.
    + destruct (Co u0 ws0 (or_intror Hin) w0 Hs) as [Hd|[Hws|Hpe]];
        [left; exact Hd | right; left; exact Hws | discriminate Hpe].
  - split; cbn [topen tdisc tfin tpend]; [exact Cf|].
    intros u0 ws0 [E|Hin] w0 Hs.
    + injection E as <- <-. destruct (Co u (w :: ws) (or_introl eq_refl) w0 Hs) as [Hd|[[<-|Hws]|Hpe]].
      * left; exact Hd.
      * left; exact Hw.
      * right; left; exact Hws.
      * discriminate Hpe.
    + destruct (Co u0 ws0 (or_intror Hin) w0 Hs) as [Hd|[Hws|Hpe]];
        [left; exact Hd | right; left; exact Hws | discriminate Hpe].
  - assert (Hwd : In w dc) by (apply (ti_fin_disc _ I); exact Hw).
    split; cbn [topen tdisc tfin tpend]; [exact Cf|].
    intros u0 ws0 [E|Hin] w0 Hs.
    + injection E as <- <-. destruct (Co u (w :: ws) (or_introl eq_refl) w0 Hs) as [Hd|[[<-|Hws]|Hpe]].
      * left; exact Hd.
      * left; exact Hwd.
      * right; left; exact Hws.
      * discriminate Hpe.
    + destruct (Co u0 ws0 (or_intror Hin) w0 Hs) as [Hd|[Hws|Hpe]];
        [left; exact Hd | right; left; exact Hws | discriminate Hpe].
  - split; cbn [topen tdisc tfin tpend].
    + intros u0 w0 [<-|Hu0] Hs; [|apply (Cf u0 w0 Hu0 Hs)].
      destruct (Co u [] (or_introl eq_refl) w0 Hs) as [Hd|[[]|Hpe]]; [exact Hd | discriminate Hpe].
    + intros u0 ws0 Hin w0 Hs. apply (Co u0 ws0 (or_intror Hin) w0 Hs).
Qed.

Lemma ev_run_closed st evs st' : Tinv st -> Tclosed st -> erun st evs st' -> Tclosed st'.
Proof.
  intros I C R. induction R as [st | st e st1 evs st2 Hs Hr IH]; [exact C|].
  apply IH; [eapply ev_step_inv; eauto | eapply ev_step_closed; eauto].
Qed.

Lemma tclosed_init : Tclosed tinit.
Proof. split; cbn [tinit topen tdisc tfin]; [intros u w [] | intros u ws []]. Qed.

(* when such a run ends with no node open: discovered = finished = reachable from a start *)
Lemma ev_run_complete evs st :
  erun tinit evs st -> topen st = [] -> (forall r, In r starts -> In r (tdisc st)) ->
  (forall x, In x (tdisc st) <-> exists r, In r starts /\ reachable v r x) /\
  (forall x, In x (tfin st) <-> In x (tdisc st)).
Proof.
  intros R Ho Hst.
  pose proof (ev_run_inv _ _ _ tinv_init R) as I.
  pose proof (ev_run_closed _ _ _ tinv_init tclosed_init R) as [Cf _].
  assert (Hdf : forall x, In x (tdisc st) -> In x (tfin st)).
  { intros x Hx. destruct (ti_cover _ I x Hx) as [H|H]; [exact H | rewrite Ho in H; destruct H]. }
  split.
  - intros x; split; [apply (ti_roots _ I)|].
    intros [r [Hr Rr]]. induction Rr as [|x y Rx IH Hxy]; [apply Hst; exact Hr|].
    apply (Cf x y); [apply Hdf; exact IH | exact Hxy].
  - intros x; split; [apply (ti_fin_disc _ I) | apply Hdf].
Qed.

End Inv.
