(* maximum_matching (Gabow): the blossom step.  If a state s' is obtained from s by giving the
   non-outer vertices before the join on P(es) and P(et) the label LEdge e es et, with first_inner
   recomputed as find_join does, then the search invariant SI holds again.  (M3) *)
From PG Require Import Lib.Io Model.View Model.Traversal Model.MatchM Spec.Reach Spec.MatchSpec
  Proofs.TravBase Proofs.MatchGreedyP Proofs.MatchShapeP Proofs.MatchAugP Proofs.MatchFlipP
  Proofs.MatchInvP Proofs.MatchSeqP Proofs.MatchJoinP.

(* ------------------------------------------------------------------ *)
(* helpers                                                             *)

Lemma nodup_app_l (l l' : list nat) : NoDup (l ++ l') -> NoDup l.
Proof.
  induction l as [|a t IH]; intros H; [constructor|].
  cbn [app] in H. inversion H as [|? ? Hn Hnd]; subst. constructor; [|apply IH, Hnd].
  intros Hin. apply Hn. apply in_or_app; left; exact Hin.
Qed.

Lemma joined_sym v a b : joined v a b -> joined v b a.
Proof. intros [H|H]; [right | left]; exact H. Qed.

Lemma nout_mono : forall l l', length l = length l' ->
  (forall k, is_outer (nth k l LNone) = true -> is_outer (nth k l' LNone) = true) ->
  nout l <= nout l'.
Proof.
  unfold nout. induction l as [|a t IH]; intros [|a' t'] Hl Hk; cbn [length] in Hl; try discriminate; [cbn; lia|].
  assert (IHt : length (filter is_outer t) <= length (filter is_outer t')).
  { apply IH; [lia|]. intros k. apply (Hk (S k)). }
  cbn [filter]. pose proof (Hk 0) as H0. cbn [nth] in H0.
  destruct (is_outer a); [rewrite H0 by reflexivity; cbn [length]; lia|].
  destruct (is_outer a'); cbn [length]; lia.
Qed.

Lemma nout_strict : forall l l' k0, length l = length l' ->
  (forall k, is_outer (nth k l LNone) = true -> is_outer (nth k l' LNone) = true) ->
  k0 < length l -> is_outer (nth k0 l LNone) = false -> is_outer (nth k0 l' LNone) = true ->
  nout l < nout l'.
Proof.
  induction l as [|a t IH]; intros [|a' t'] k0 Hl Hk Hk0 H1 H2; cbn [length] in Hl, Hk0; try discriminate; [lia|].
  assert (Hmono : nout t <= nout t').
  { apply nout_mono; [lia|]. intros k. apply (Hk (S k)). }
  unfold nout in *. cbn [filter]. pose proof (Hk 0) as H0. cbn [nth] in H0.
  destruct k0 as [|k0].
  - cbn [nth] in H1, H2. rewrite H1, H2. cbn [length]. lia.
  - assert (Hs : length (filter is_outer t) < length (filter is_outer t')).
    { apply (IH t' k0); [lia | intros k; apply (Hk (S k)) | lia | exact H1 | exact H2]. }
    destruct (is_outer a); [rewrite H0 by reflexivity; cbn [length]; lia|].
    destruct (is_outer a'); cbn [length]; lia.
Qed.

(* fno returns the dummy or a non-outer element of the list *)
Lemma fno_In labs d l : fno labs d l <> d -> In (fno labs d l) l /\ ~ outerv labs (fno labs d l).
Proof.
  induction l as [|x t IH]; cbn [fno]; intros H; [contradiction|].
  destruct (outb labs x) eqn:E.
  - destruct (IH H) as [H1 H2]. split; [right; exact H1 | exact H2].
  - split; [left; reflexivity|]. intros Ho. apply outerv_outb in Ho. congruence.
Qed.

(* ... and it is found in a prefix that ends with a non-outer vertex *)
Lemma fno_prefix labs d u : ~ outerv labs u -> forall l1 l2,
  In (fno labs d (l1 ++ u :: l2)) (l1 ++ [u]) /\ ~ outerv labs (fno labs d (l1 ++ u :: l2)).
Proof.
  intros Hu. induction l1 as [|x t IH]; intros l2; cbn [app fno].
  - destruct (outb labs u) eqn:E; [exfalso; apply Hu, outerv_outb, E|].
    split; [left; reflexivity | exact Hu].
  - destruct (outb labs x) eqn:E.
    + destruct (IH l2) as [H1 H2]. split; [right; exact H1 | exact H2].
    + split; [left; reflexivity|]. intros Ho. apply outerv_outb in Ho. congruence.
Qed.

(* alternation of a path: even positions are matched to the next one, odd positions joined to it *)
Definition Alt (v : view) (M0 : list (option nat)) (l : list nat) : Prop :=
  (forall i a, nth_error l (2 * i) = Some a -> m_mate M0 a = nth_error l (S (2 * i))) /\
  (forall i a b, nth_error l (S (2 * i)) = Some a -> nth_error l (S (S (2 * i))) = Some b -> joined v a b).

(* the path of a vertex u that becomes outer in a blossom: back along P(p) from u, over the edge
   (p, q), then P(q) *)
Lemma alt_blossom v M0 a u b lq p q r :
  msym M0 -> Alt v M0 (a ++ u :: b) -> Alt v M0 lq -> length a = 2 * r + 1 ->
  nth_error a 0 = Some p -> nth_error lq 0 = Some q -> joined v p q ->
  Alt v M0 (u :: rev a ++ lq).
Proof.
  intros Hs [P1 P2] [Q1 Q2] Hla Hp Hq Hj.
  assert (Hpa : forall k x, k < length a -> nth_error a k = Some x -> nth_error (a ++ u :: b) k = Some x).
  { intros k x Hk Hx. rewrite nth_error_app1 by exact Hk. exact Hx. }
  split.
  - intros i x Hx. destruct i as [|i].
    + change (Some u = Some x) in Hx. injection Hx as <-.
      change (m_mate M0 u = nth_error (rev a ++ lq) 0).
      rewrite nth_error_app1 by (rewrite rev_length; lia). rewrite nth_error_rev_nat by lia.
      replace (length a - 1) with (2 * r) by lia.
      destruct (@nth_error_lt_Some _ a (2 * r)) as [c Hc]; [lia|]. rewrite Hc.
      apply (Hs c u). rewrite (P1 r c) by (apply Hpa; [lia | exact Hc]).
      rewrite nth_error_app2 by lia. replace (S (2 * r) - length a) with 0 by lia. reflexivity.
    + replace (2 * S i) with (S (S (2 * i))) in * by lia.
      change (nth_error (rev a ++ lq) (S (2 * i)) = Some x) in Hx.
      change (m_mate M0 x = nth_error (rev a ++ lq) (S (S (2 * i)))).
      destruct (Nat.lt_ge_cases i r) as [Hi|Hi].
      * rewrite nth_error_app1 in Hx by (rewrite rev_length; lia).
        rewrite nth_error_app1 by (rewrite rev_length; lia).
        rewrite nth_error_rev_nat in Hx by lia. rewrite nth_error_rev_nat by lia.
        replace (length a - S (S (2 * i))) with (S (2 * (r - i - 1))) in Hx by lia.
        replace (length a - S (S (S (2 * i)))) with (2 * (r - i - 1)) by lia.
        destruct (@nth_error_lt_Some _ a (2 * (r - i - 1))) as [c Hc]; [lia|]. rewrite Hc.
        apply (Hs c x). rewrite (P1 (r - i - 1) c) by (apply Hpa; [lia | exact Hc]).
        apply Hpa; [lia | exact Hx].
      * rewrite nth_error_app2 in Hx by (rewrite rev_length; lia).
        rewrite nth_error_app2 by (rewrite rev_length; lia). rewrite rev_length in *.
        replace (S (2 * i) - length a) with (2 * (i - r)) in Hx by lia.
        replace (S (S (2 * i)) - length a) with (S (2 * (i - r))) by lia.
        apply (Q1 (i - r) x Hx).
  - intros i x y Hx Hy.
    change (nth_error (rev a ++ lq) (2 * i) = Some x) in Hx.
    change (nth_error (rev a ++ lq) (S (2 * i)) = Some y) in Hy.
    destruct (Nat.lt_ge_cases i r) as [Hi|Hi].
    + rewrite nth_error_app1 in Hx by (rewrite rev_length; lia).
      rewrite nth_error_app1 in Hy by (rewrite rev_length; lia).
      rewrite nth_error_rev_nat in Hx by lia. rewrite nth_error_rev_nat in Hy by lia.
      replace (length a - S (2 * i)) with (S (S (2 * (r - i - 1)))) in Hx by lia.
      replace (length a - S (S (2 * i))) with (S (2 * (r - i - 1))) in Hy by lia.
      apply joined_sym. apply (P2 (r - i - 1) y x); apply Hpa; (lia || assumption).
    + destruct (Nat.eq_dec i r) as [->|Hne].
      * rewrite nth_error_app1 in Hx by (rewrite rev_length; lia).
        rewrite nth_error_rev_nat in Hx by lia. replace (length a - S (2 * r)) with 0 in Hx by lia.
        rewrite nth_error_app2 in Hy by (rewrite rev_length; lia). rewrite rev_length in Hy.
        replace (S (2 * r) - length a) with 0 in Hy by lia.
        rewrite Hp in Hx. injection Hx as <-. rewrite Hq in Hy. injection Hy as <-. exact Hj.
      * rewrite nth_error_app2 in Hx by (rewrite rev_length; lia).
        rewrite nth_error_app2 in Hy by (rewrite rev_length; lia). rewrite rev_length in *.
        replace (2 * i - length a) with (S (2 * (i - r - 1))) in Hx by lia.
        replace (S (2 * i) - length a) with (S (S (2 * (i - r - 1)))) in Hy by lia.
        apply (Q2 (i - r - 1) x y Hx Hy).
Qed.

(* ------------------------------------------------------------------ *)
(* the blossom step, abstractly                                        *)

Section Blossom.
Variable v : view.
Variable start : nat.
Variable s : mst.
Variable pth : nat -> list nat.
Variable rk : nat -> nat.
Hypothesis I : SI v start s pth rk.
Hypothesis EidOk : forall a er b er', In er (out_edges v a) -> In er' (out_edges v b) ->
  eid er = eid er' -> (a = b /\ tgt er = tgt er') \/ (a = tgt er' /\ b = tgt er).
Variables e es et : nat.
Variable er : eref.
Hypothesis Her : In er (out_edges v es).
Hypothesis Heid : eid er = e.
Hypothesis Htgt : tgt er = et.
Hypothesis Hes : outerv (lab s) es.
Hypothesis Het : outerv (lab s) et.
Variables (j : nat) (Xa Xb Ya Yb : list nat).
Hypothesis EX : xs v s pth es = Xa ++ j :: Xb.
Hypothesis EY : xs v s pth et = Ya ++ j :: Yb.
Hypothesis DX : forall x, In x Xa -> ~ In x (xs v s pth et).
Hypothesis DY : forall x, In x Ya -> ~ In x (xs v s pth es).

Let HL := si_lab _ _ _ _ _ I.
Let d := vbound v.
Let labs := lab s.
Let New := Xa ++ Ya.

Lemma Jst : joined v es et.
Proof. left. rewrite <- Htgt. unfold neighbors. apply in_map. exact Her. Qed.

Lemma path_alt u : outerv labs u -> Alt v (mate s) (pth u).
Proof.
  intros Hu. split.
  - intros i a Ha. apply (lo_mate HL u i a Hu Ha).
  - intros i a b Ha Hb. apply (lo_join HL u i a b Hu Ha Hb).
Qed.

(* ---- one side of the blossom ---- *)
Section Side.
Variables p q : nat.
Variables A Ab B Bb : list nat.
Hypothesis Hp : outerv labs p.
Hypothesis Hq : outerv labs q.
Hypothesis Ep : xs v s pth p = A ++ j :: Ab.
Hypothesis Eq : xs v s pth q = B ++ j :: Bb.
Hypothesis DA : forall x, In x A -> ~ In x (xs v s pth q).
Hypothesis Jpq : joined v p q.

Lemma side_elem x : In x A -> x <> d /\ In x (pth p) /\ ~ outerv labs x.
Proof.
  intros Hx. apply in_split in Hx. destruct Hx as [A1 [A2 EA]].
  assert (E : xs v s pth p = A1 ++ x :: (A2 ++ j :: Ab)) by (rewrite Ep, EA, <- app_assoc; reflexivity).
  assert (Hxd : x <> d).
  { intros ->. apply (xs_last v start s pth rk I p _ _ E) in Hp. destruct A2; discriminate. }
  split; [exact Hxd|].
  assert (Hin : In x (xs v s pth p)) by (rewrite E; apply in_or_app; right; left; reflexivity).
  unfold xs in Hin. apply in_app_or in Hin. destruct Hin as [Hin|[E'|[]]]; [|exfalso; apply Hxd; symmetry; exact E'].
  apply iseq_In in Hin. exact Hin.
Qed.

Lemma side_split u : In u A ->
  exists b A1 A2, pth p = before u (pth p) ++ u :: b /\ A = A1 ++ u :: A2 /\
                  iseq labs (before u (pth p)) = A1 /\ iseq labs b ++ [d] = A2 ++ j :: Ab.
Proof.
  intros Hu. destruct (side_elem u Hu) as [_ [Hin Hno]].
  destruct (before_split u (pth p) Hin) as [b Hb].
  apply in_split in Hu. destruct Hu as [A1 [A2 EA]].
  exists b, A1, A2. split; [exact Hb|]. split; [exact EA|].
  assert (E1 : xs v s pth p = A1 ++ u :: (A2 ++ j :: Ab)) by (rewrite Ep, EA, <- app_assoc; reflexivity).
  assert (E2 : xs v s pth p = iseq labs (before u (pth p)) ++ u :: (iseq labs b ++ [d])).
  { unfold xs. rewrite Hb at 1. rewrite iseq_app, (iseq_cons_non _ _ _ Hno), <- app_assoc. reflexivity. }
  destruct (nodup_split_unique _ _ _ _ _ _ (xs_nodup v start s pth rk I p Hp) E2 E1) as [H1 H2]. auto.
Qed.

Lemma side_prefix u z : In u A -> In z (before u (pth p)) -> outerv labs z \/ In z A.
Proof.
  intros Hu Hz. destruct (side_split u Hu) as [b [A1 [A2 [_ [EA [E1 _]]]]]].
  destruct (outerv_dec labs z) as [Ho|Hn]; [left; exact Ho|]. right.
  rewrite EA. apply in_or_app; left. rewrite <- E1. apply iseq_In. auto.
Qed.

(* the part of P(p) up to u does not meet P(q) *)
Lemma side_disj u z : In u A -> In z (before u (pth p) ++ [u]) -> ~ In z (pth q).
Proof.
  intros Hu Hz Hzq. destruct (side_split u Hu) as [b [A1 [A2 [Hb [EA [E1 _]]]]]].
  assert (HnA : forall f, In f A -> ~ In f (pth q)).
  { intros f Hf Hfq. apply (DA f Hf). unfold xs. apply in_or_app; left. apply iseq_In.
    split; [exact Hfq | apply (side_elem f Hf)]. }
  destruct (outerv_dec labs z) as [Ho|Hn].
  - apply in_app_or in Hz. destruct Hz as [Hz|[<-|[]]]; [|apply (side_elem u Hu); exact Ho].
    apply in_split in Hz. destruct Hz as [a1 [a2 Ea]].
    assert (Hpp : pth p = a1 ++ z :: (a2 ++ u :: b)) by (rewrite Hb at 1; rewrite Ea, <- app_assoc; reflexivity).
    pose proof (si_fin _ _ _ _ _ I p a1 z _ Hp Hpp Ho) as Hf1.
    apply in_split in Hzq. destruct Hzq as [c1 [c2 Hc]].
    pose proof (si_fin _ _ _ _ _ I q c1 z c2 Hq Hc Ho) as Hf2.
    rewrite Hf1 in Hf2. injection Hf2 as Hf.
    destruct (fno_prefix (lab s) (vbound v) u (proj2 (proj2 (side_elem u Hu))) a2 b) as [F1 F2].
    set (f := fno (lab s) (vbound v) (a2 ++ u :: b)) in *.
    assert (HfA : In f A).
    { apply in_app_or in F1. destruct F1 as [F1|[<-|[]]]; [|exact Hu].
      destruct (side_prefix u f Hu) as [H|H]; [rewrite Ea; apply in_or_app; right; right; exact F1 | contradiction | exact H]. }
    apply (HnA f HfA). rewrite Hc. apply in_or_app; right; right.
    assert (Hfd : f <> vbound v) by (apply (side_elem f HfA)).
    rewrite Hf in Hfd |- *. apply (fno_In _ _ _ Hfd).
  - apply (HnA z); [|exact Hzq].
    apply in_app_or in Hz. destruct Hz as [Hz|[<-|[]]]; [|exact Hu].
    destruct (side_prefix u z Hu Hz) as [H|H]; [contradiction | exact H].
Qed.

(* u is at an odd position of P(p), after its mate *)
Lemma side_odd u : In u A -> exists r, length (before u (pth p)) = 2 * r + 1.
Proof.
  intros Hu. destruct (side_elem u Hu) as [_ [Hin Hno]].
  destruct (si_inner _ _ _ _ _ I p u Hp Hin Hno) as [pre [o [x [H1 [[k Hk] [H2 _]]]]]].
  assert (E : pth p = (pre ++ [o]) ++ u :: pth x) by (rewrite H1, H2, <- app_assoc; reflexivity).
  rewrite (before_unique u (pth p) _ _ (lo_nodup HL p Hp) E). exists k. rewrite app_length. cbn [length]. lia.
Qed.

Definition npath (u : nat) : list nat := u :: rev (before u (pth p)) ++ pth q.

Lemma npath_nodup u : In u A -> NoDup (npath u).
Proof.
  intros Hu. destruct (side_split u Hu) as [b [_ [_ [Hb _]]]].
  pose proof (lo_nodup HL p Hp) as Np. rewrite Hb in Np.
  unfold npath. constructor.
  - intros Hin. apply in_app_or in Hin. destruct Hin as [Hin|Hin].
    + rewrite <- in_rev in Hin. apply (nodup_app_disj _ _ Np u Hin). left; reflexivity.
    + apply (side_disj u u Hu); [apply in_or_app; right; left; reflexivity | exact Hin].
  - apply NoDup_app_intro.
    + apply NoDup_rev. apply (nodup_app_l _ _ Np).
    + apply (lo_nodup HL q Hq).
    + intros x Hx. rewrite <- in_rev in Hx. apply (side_disj u x Hu). apply in_or_app; left; exact Hx.
Qed.

Lemma npath_range u x : In u A -> In x (npath u) -> x < vbound v.
Proof.
  intros Hu Hx. destruct (side_split u Hu) as [b [_ [_ [Hb _]]]]. unfold npath in Hx.
  destruct Hx as [<-|Hx].
  - apply (lo_range HL p u Hp). apply (side_elem u Hu).
  - apply in_app_or in Hx. destruct Hx as [Hx|Hx].
    + rewrite <- in_rev in Hx. apply (lo_range HL p x Hp). rewrite Hb. apply in_or_app; left; exact Hx.
    + apply (lo_range HL q x Hq Hx).
Qed.

Lemma npath_odd u : In u A -> exists k, length (npath u) = 2 * k + 1.
Proof.
  intros Hu. destruct (side_odd u Hu) as [r Hr]. destruct (lo_odd HL q Hq) as [kq Hkq].
  exists (r + kq + 1). unfold npath. cbn [length]. rewrite app_length, rev_length. lia.
Qed.

Lemma npath_alt u : In u A -> Alt v (mate s) (npath u).
Proof.
  intros Hu. destruct (side_split u Hu) as [b [_ [_ [Hb _]]]]. destruct (side_odd u Hu) as [r Hr].
  destruct (lo_hd HL p Hp) as [restp Hrp]. destruct (lo_hd HL q Hq) as [restq Hrq].
  unfold npath. apply (alt_blossom v (mate s) (before u (pth p)) u b (pth q) p q r).
  - apply (lo_sym HL).
  - rewrite <- Hb. apply path_alt. exact Hp.
  - apply path_alt. exact Hq.
  - exact Hr.
  - destruct (before u (pth p)) as [|a0 a'] eqn:Ea; [cbn [length] in Hr; lia|].
    rewrite Hrp in Hb. cbn [app] in Hb. injection Hb as -> _. reflexivity.
  - rewrite Hrq. reflexivity.
  - exact Jpq.
Qed.

End Side.

(* ---- the new ghost data ---- *)
Definition pth' (u : nat) : list nat :=
  if mem u Xa then npath es et u else if mem u Ya then npath et es u else pth u.
Definition rk' (u : nat) : nat := if mem u New then nout labs else rk u.

(* ---- the new state ---- *)
Hypothesis Nne : New <> [].
Variable s' : mst.
Hypothesis Smate : mate s' = mate s.
Hypothesis Snedges : nedges s' = nedges s.
Hypothesis Slablen : length (lab s') = S (vbound v).
Hypothesis Slab_new : forall z, In z New -> nth_error (lab s') z = Some (LEdge e es et).
Hypothesis Slab_old : forall z, ~ In z New ->
  nth_error (lab s') z = nth_error (lab s) z \/
  (nth_error (lab s') z = Some (LFlag e) /\ ~ outerv (lab s) z).
Hypothesis Sfinlen : length (fin s') = S (vbound v).
Hypothesis Sfin : forall z, outerv (lab s') z ->
  exists c, (if mem z New then Some j else nth_error (fin s) z) = Some c /\
            nth_error (fin s') z = Some (if mem c New then j else c).
Hypothesis Squeue : forall x, In x (queue s') -> In x (queue s) \/ In x New.

Let labs' := lab s'.

Lemma XaNew x : In x Xa -> In x New.
Proof. intros H. apply in_or_app; left; exact H. Qed.
Lemma YaNew x : In x Ya -> In x New.
Proof. intros H. apply in_or_app; right; exact H. Qed.

Lemma new_elem x : In x New -> x <> d /\ x < vbound v /\ ~ outerv labs x.
Proof.
  intros Hx. apply in_app_or in Hx. destruct Hx as [Hx|Hx].
  - destruct (side_elem es Xa Xb Hes EX x Hx) as [H1 [H2 H3]]. split; [exact H1|]. split; [|exact H3].
    apply (lo_range HL es x Hes H2).
  - destruct (side_elem et Ya Yb Het EY x Hx) as [H1 [H2 H3]]. split; [exact H1|]. split; [|exact H3].
    apply (lo_range HL et x Het H2).
Qed.

Lemma j_in_X : In j (xs v s pth es).
Proof. rewrite EX. apply in_or_app; right; left; reflexivity. Qed.
Lemma j_in_Y : In j (xs v s pth et).
Proof. rewrite EY. apply in_or_app; right; left; reflexivity. Qed.

Lemma j_not_new : ~ In j New.
Proof.
  intros H. apply in_app_or in H. destruct H as [H|H].
  - apply (DX j H). apply j_in_Y.
  - apply (DY j H). apply j_in_X.
Qed.

Lemma j_not_outer : ~ outerv labs j.
Proof. apply (xs_range v start s pth rk I es j Hes j_in_X). Qed.

Lemma Xb_Yb : Xb = Yb.
Proof. apply (xs_common v start s pth rk I es et j Xa Xb Ya Yb Hes Het EX EY). Qed.

Lemma outb_eq (la lb : list label) z : nth_error la z = nth_error lb z -> outb la z = outb lb z.
Proof.
  intros H. unfold outb. destruct (nth_error lb z) as [x|] eqn:E.
  - rewrite (nth_error_nth la z LNone H), (nth_error_nth lb z LNone E). reflexivity.
  - apply nth_error_None in H. apply nth_error_None in E. rewrite !nth_overflow by assumption. reflexivity.
Qed.

Lemma outb_new z : In z New -> outb labs' z = true.
Proof. intros H. unfold outb, labs'. rewrite (nth_error_nth _ _ LNone (Slab_new z H)). reflexivity. Qed.

Lemma outb_old z : ~ In z New -> outb labs' z = outb labs z.
Proof.
  intros H. destruct (Slab_old z H) as [E|[E Hn]].
  - apply outb_eq. exact E.
  - unfold outb at 1. unfold labs'. rewrite (nth_error_nth _ _ LNone E). cbn [is_outer].
    destruct (outb labs z) eqn:Eo; [|reflexivity]. exfalso. apply Hn, outerv_outb, Eo.
Qed.

Lemma outer'_iff z : outerv labs' z <-> outerv labs z \/ In z New.
Proof.
  rewrite !outerv_outb. destruct (in_dec Nat.eq_dec z New) as [Hin|Hn].
  - rewrite (outb_new z Hin). tauto.
  - rewrite (outb_old z Hn). tauto.
Qed.

Lemma old_not_new u : outerv labs u -> ~ In u New.
Proof. intros Hu Hin. apply (new_elem u Hin). exact Hu. Qed.

Lemma old_mem u : outerv labs u -> mem u Xa = false /\ mem u Ya = false /\ mem u New = false.
Proof.
  intros Hu. pose proof (old_not_new u Hu) as Hn.
  repeat split; apply mem_false; intros H; apply Hn; [apply XaNew | apply YaNew |]; exact H.
Qed.

Lemma pth'_old u : outerv labs u -> pth' u = pth u.
Proof. intros Hu. destruct (old_mem u Hu) as [H1 [H2 _]]. unfold pth'. rewrite H1, H2. reflexivity. Qed.

Lemma rk'_old u : outerv labs u -> rk' u = rk u.
Proof. intros Hu. destruct (old_mem u Hu) as [_ [_ H3]]. unfold rk'. rewrite H3. reflexivity. Qed.

Lemma rk'_new u : In u New -> rk' u = nout labs.
Proof. intros Hu. unfold rk'. rewrite (proj2 (mem_In u New) Hu). reflexivity. Qed.

Lemma pth'_Xa u : In u Xa -> pth' u = npath es et u.
Proof. intros Hu. unfold pth'. rewrite (proj2 (mem_In u Xa) Hu). reflexivity. Qed.

Lemma pth'_Ya u : In u Ya -> pth' u = npath et es u.
Proof.
  intros Hu. unfold pth'.
  assert (Hn : mem u Xa = false).
  { apply mem_false. intros Hx. apply (DX u Hx). rewrite EY. apply in_or_app; left; exact Hu. }
  rewrite Hn, (proj2 (mem_In u Ya) Hu). reflexivity.
Qed.

Lemma lab'_old u : outerv labs u -> nth_error labs' u = nth_error labs u.
Proof.
  intros Hu. destruct (Slab_old u (old_not_new u Hu)) as [E|[_ Hn]]; [exact E | contradiction].
Qed.

(* ---- first non-outer vertices under the new labels ---- *)
Lemma fno_new : forall l A' R, iseq labs l ++ [d] = A' ++ j :: R -> (forall x, In x A' -> In x New) ->
  fno labs' d l = j.
Proof.
  induction l as [|x t IH]; intros A' R E HA.
  - cbn [iseq filter app] in E. cbn [fno]. destruct A' as [|a A''].
    + cbn [app] in E. injection E as E _. exact E.
    + cbn [app] in E. injection E as _ E. destruct A''; discriminate.
  - cbn [fno]. destruct (outerv_dec labs x) as [Ho|Hn].
    + rewrite (iseq_cons_outer _ _ _ Ho) in E.
      rewrite (outb_old x (old_not_new x Ho)), (proj1 (outerv_outb _ _) Ho). apply (IH A' R E HA).
    + rewrite (iseq_cons_non _ _ _ Hn) in E. destruct A' as [|a A''].
      * cbn [app] in E. injection E as -> _. rewrite (outb_old j j_not_new).
        destruct (outb labs j) eqn:Eo; [exfalso; apply Hn, outerv_outb, Eo | reflexivity].
      * cbn [app] in E. injection E as -> E. rewrite (outb_new a (HA a (or_introl eq_refl))).
        apply (IH A'' R E). intros y Hy. apply HA. right; exact Hy.
Qed.

Lemma fno_old : forall l, ~ In (fno labs d l) New -> fno labs' d l = fno labs d l.
Proof.
  induction l as [|x t IH]; cbn [fno]; intros H; [reflexivity|].
  destruct (outb labs x) eqn:Eo.
  - rewrite (outb_old x (old_not_new x (proj2 (outerv_outb _ _) Eo))), Eo. apply IH, H.
  - rewrite (outb_old x H), Eo. reflexivity.
Qed.

Lemma fno_skip : forall l m, (forall x, In x l -> outerv labs' x) -> fno labs' d (l ++ m) = fno labs' d m.
Proof.
  induction l as [|x t IH]; intros m H; [reflexivity|]. cbn [app fno].
  rewrite (proj1 (outerv_outb _ _) (H x (or_introl eq_refl))). apply IH. intros y Hy. apply H. right; exact Hy.
Qed.

(* the sequence of an old path after an element of one side *)
Lemma tail_new p A Ab u pre f rest :
  outerv labs p -> xs v s pth p = A ++ j :: Ab -> outerv labs u ->
  xs v s pth u = pre ++ f :: rest -> In f A ->
  exists A2, rest = A2 ++ j :: Ab /\ forall x, In x A2 -> In x A.
Proof.
  intros Hp Ep Hu Eu Hf. apply in_split in Hf. destruct Hf as [A1 [A2 EA]].
  assert (E : xs v s pth p = A1 ++ f :: (A2 ++ j :: Ab)) by (rewrite Ep, EA, <- app_assoc; reflexivity).
  exists A2. split.
  - apply (xs_common v start s pth rk I u p f pre rest A1 _ Hu Hp Eu E).
  - intros x Hx. rewrite EA. apply in_or_app; right; right; exact Hx.
Qed.

Lemma tail_new_any u pre f rest : outerv labs u -> xs v s pth u = pre ++ f :: rest -> In f New ->
  exists A2 R, rest = A2 ++ j :: R /\ forall x, In x A2 -> In x New.
Proof.
  intros Hu Eu Hf. apply in_app_or in Hf. destruct Hf as [Hf|Hf].
  - destruct (tail_new es Xa Xb u pre f rest Hes EX Hu Eu Hf) as [A2 [H1 H2]].
    exists A2, Xb. split; [exact H1|]. intros x Hx. apply XaNew, H2, Hx.
  - destruct (tail_new et Ya Yb u pre f rest Het EY Hu Eu Hf) as [A2 [H1 H2]].
    exists A2, Yb. split; [exact H1|]. intros x Hx. apply YaNew, H2, Hx.
Qed.

(* tails of old paths *)
Lemma old_tail_fno u p1 p2 : outerv labs u -> pth u = p1 ++ p2 ->
  fno labs' d p2 = if mem (fno labs d p2) New then j else fno labs d p2.
Proof.
  intros Hu Hp. destruct (mem (fno labs d p2) New) eqn:Em.
  - apply mem_In in Em. pose proof (fno_hd labs d p2) as Hh.
    destruct (iseq labs p2) as [|f rest] eqn:Ei.
    + cbn [hd] in Hh. rewrite Hh in Em. exfalso. apply (proj1 (new_elem d Em)). reflexivity.
    + cbn [hd] in Hh. rewrite Hh in Em.
      assert (Eu : xs v s pth u = iseq labs p1 ++ f :: (rest ++ [d])).
      { unfold xs. rewrite Hp, iseq_app. fold labs. rewrite Ei, <- app_assoc. reflexivity. }
      destruct (tail_new_any u _ f _ Hu Eu Em) as [A2 [R [H1 H2]]].
      apply (fno_new p2 (f :: A2) R).
      * rewrite Ei. cbn [app]. f_equal. exact H1.
      * intros x [<-|Hx]; [exact Em | apply H2, Hx].
  - apply fno_old. apply mem_false. exact Em.
Qed.

Lemma old_tail_new u p1 z p2 : outerv labs u -> pth u = p1 ++ z :: p2 -> In z New ->
  fno labs' d p2 = j.
Proof.
  intros Hu Hp Hz.
  assert (Eu : xs v s pth u = iseq labs p1 ++ z :: (iseq labs p2 ++ [d])).
  { unfold xs. rewrite Hp, iseq_app. fold labs.
    rewrite (iseq_cons_non _ _ _ (proj2 (proj2 (new_elem z Hz)))), <- app_assoc. reflexivity. }
  destruct (tail_new_any u _ z _ Hu Eu Hz) as [A2 [R [H1 H2]]].
  apply (fno_new p2 A2 R H1 H2).
Qed.

(* ---- first_inner in the new state ---- *)
Lemma fin'_new z : In z New -> nth_error (fin s') z = Some j.
Proof.
  intros Hz. destruct (Sfin z) as [c [H1 H2]]; [apply outer'_iff; right; exact Hz|].
  rewrite (proj2 (mem_In z New) Hz) in H1. injection H1 as <-.
  rewrite H2. rewrite (proj2 (mem_false j New) j_not_new). reflexivity.
Qed.

Lemma fin'_old z c : outerv labs z -> nth_error (fin s) z = Some c ->
  nth_error (fin s') z = Some (if mem c New then j else c).
Proof.
  intros Hz Hc. destruct (Sfin z) as [c' [H1 H2]]; [apply outer'_iff; left; exact Hz|].
  destruct (old_mem z Hz) as [_ [_ Hm]]. rewrite Hm, Hc in H1. injection H1 as <-. exact H2.
Qed.

(* si_fin along an old path *)
Lemma old_fin u p1 z p2 : outerv labs u -> pth u = p1 ++ z :: p2 -> outerv labs' z ->
  nth_error (fin s') z = Some (fno labs' d p2).
Proof.
  intros Hu Hp Hz. apply outer'_iff in Hz. destruct Hz as [Hz|Hz].
  - rewrite (fin'_old z _ Hz (si_fin _ _ _ _ _ I u p1 z p2 Hu Hp Hz)). f_equal. symmetry.
    apply (old_tail_fno u (p1 ++ [z]) p2 Hu). rewrite Hp, <- app_assoc. reflexivity.
  - rewrite (fin'_new z Hz). f_equal. symmetry. apply (old_tail_new u p1 z p2 Hu Hp Hz).
Qed.

Lemma fin'_es_et : nth_error (fin s') es = Some j /\ nth_error (fin s') et = Some j.
Proof.
  assert (G : forall p A Ab, outerv labs p -> xs v s pth p = A ++ j :: Ab -> (forall x, In x A -> In x New) ->
            nth_error (fin s') p = Some j).
  { intros p A Ab Hp Ep HA. rewrite (fin'_old p _ Hp (xs_hd v start s pth rk I p Hp)). rewrite Ep.
    destruct A as [|a A'].
    - cbn [app hd]. rewrite (proj2 (mem_false j New) j_not_new). reflexivity.
    - cbn [app hd]. rewrite (proj2 (mem_In a New) (HA a (or_introl eq_refl))). reflexivity. }
  split; [apply (G es Xa Xb Hes EX XaNew) | apply (G et Ya Yb Het EY YaNew)].
Qed.

(* ---- new paths ---- *)
Lemma side_outer' p A Ab u x : outerv labs p -> xs v s pth p = A ++ j :: Ab ->
  (forall y, In y A -> In y New) -> In u A -> In x (u :: rev (before u (pth p))) -> outerv labs' x.
Proof.
  intros Hp Ep HA Hu [<-|Hx]; apply outer'_iff.
  - right. apply HA, Hu.
  - rewrite <- in_rev in Hx. destruct (side_prefix p A Ab Hp Ep u x Hu Hx) as [H|H]; [left; exact H | right; apply HA, H].
Qed.

Lemma side_fin p q A Ab B Bb : outerv labs p -> outerv labs q ->
  xs v s pth p = A ++ j :: Ab -> xs v s pth q = B ++ j :: Bb ->
  (forall x, In x A -> In x New) -> (forall x, In x B -> In x New) ->
  forall u p1 z p2, In u A -> npath p q u = p1 ++ z :: p2 -> outerv labs' z ->
  nth_error (fin s') z = Some (fno labs' d p2).
Proof.
  intros Hp Hq Ep Eq HA HB u p1 z p2 Hu E Hz.
  assert (Hfq : fno labs' d (pth q) = j) by (apply (fno_new (pth q) B Bb); [exact Eq | exact HB]).
  unfold npath in E. change ((u :: rev (before u (pth p))) ++ pth q = p1 ++ z :: p2) in E.
  apply app_eq_app in E. destruct E as [l [[E1 E2]|[E1 E2]]].
  - destruct l as [|z' l'].
    + cbn [app] in E2. apply (old_fin q [] z p2 Hq); [symmetry; exact E2 | exact Hz].
    + cbn [app] in E2. injection E2 as <- ->.
      assert (Hl' : forall x, In x l' -> outerv labs' x).
      { intros x Hx. apply (side_outer' p A Ab u x Hp Ep HA Hu). rewrite E1.
        apply in_or_app; right; right; exact Hx. }
      rewrite (fno_skip l' (pth q) Hl'), Hfq.
      assert (Hzin : In z (u :: rev (before u (pth p)))) by (rewrite E1; apply in_or_app; right; left; reflexivity).
      destruct Hzin as [<-|Hzin]; [apply fin'_new, HA, Hu|].
      rewrite <- in_rev in Hzin.
      destruct (side_prefix p A Ab Hp Ep u z Hu Hzin) as [Hzo|HzA]; [|apply fin'_new, HA, HzA].
      destruct (side_split p A Ab Hp Ep u Hu) as [b [_ [_ [Hb _]]]].
      apply in_split in Hzin. destruct Hzin as [a1 [a2 Ea]].
      assert (Hpp : pth p = a1 ++ z :: (a2 ++ u :: b)) by (rewrite Hb at 1; rewrite Ea, <- app_assoc; reflexivity).
      pose proof (si_fin _ _ _ _ _ I p a1 z _ Hp Hpp Hzo) as Hf.
      destruct (fno_prefix (lab s) (vbound v) u (proj2 (proj2 (side_elem p A Ab Hp Ep u Hu))) a2 b) as [F1 F2].
      rewrite (fin'_old z _ Hzo Hf).
      assert (HfA : In (fno (lab s) (vbound v) (a2 ++ u :: b)) A).
      { apply in_app_or in F1. destruct F1 as [F1|[<-|[]]]; [|exact Hu].
        destruct (side_prefix p A Ab Hp Ep u (fno (lab s) (vbound v) (a2 ++ u :: b)) Hu) as [H|H];
          [rewrite Ea; apply in_or_app; right; right; exact F1 | contradiction | exact H]. }
      rewrite (proj2 (mem_In _ New) (HA _ HfA)). reflexivity.
  - apply (old_fin q l z p2 Hq E2 Hz).
Qed.

Lemma old_inner u f : outerv labs u -> In f (pth u) -> ~ outerv labs' f ->
  exists pre o x, pth u = pre ++ pth' o /\ (exists k, length pre = 2 * k) /\
                  pth' o = o :: f :: pth' x /\ nth_error labs' o = Some (LVertex x).
Proof.
  intros Hu Hf Hn.
  assert (Hn' : ~ outerv labs f) by (intros H; apply Hn, outer'_iff; left; exact H).
  destruct (si_inner _ _ _ _ _ I u f Hu Hf Hn') as [pre [o [x [H1 [Hev [H2 H3]]]]]].
  assert (Ho : outerv labs o) by (exists (LVertex x); auto).
  destruct (lo_vertex HL o x H3) as [Hx _].
  exists pre, o, x. rewrite (pth'_old o Ho), (pth'_old x Hx), (lab'_old o Ho). auto.
Qed.

Lemma side_inner p q A Ab : outerv labs p -> outerv labs q -> xs v s pth p = A ++ j :: Ab ->
  (forall x, In x A -> In x New) ->
  forall u f, In u A -> In f (npath p q u) -> ~ outerv labs' f ->
  exists pre o x, npath p q u = pre ++ pth' o /\ (exists k, length pre = 2 * k) /\
                  pth' o = o :: f :: pth' x /\ nth_error labs' o = Some (LVertex x).
Proof.
  intros Hp Hq Ep HA u f Hu Hf Hn. unfold npath in Hf.
  change (In f ((u :: rev (before u (pth p))) ++ pth q)) in Hf. apply in_app_or in Hf.
  destruct Hf as [Hf|Hf]; [exfalso; apply Hn; apply (side_outer' p A Ab u f Hp Ep HA Hu Hf)|].
  destruct (old_inner q f Hq Hf Hn) as [pre [o [x [H1 [[k Hk] [H2 H3]]]]]].
  destruct (side_odd p A Ab Hp Ep u Hu) as [r Hr].
  exists (u :: rev (before u (pth p)) ++ pre), o, x. split; [|split; [|auto]].
  - unfold npath. rewrite H1. cbn [app]. rewrite <- app_assoc. reflexivity.
  - exists (r + k + 1). cbn [length]. rewrite app_length, rev_length. lia.
Qed.

Lemma outer'_cases u : outerv labs' u ->
  (outerv labs u /\ pth' u = pth u) \/ (In u Xa /\ pth' u = npath es et u) \/
  (In u Ya /\ pth' u = npath et es u).
Proof.
  intros Hu. apply outer'_iff in Hu. destruct Hu as [Hu|Hu].
  - left. split; [exact Hu | apply pth'_old, Hu].
  - right. apply in_app_or in Hu. destruct Hu as [Hu|Hu]; [left | right]; split; auto using pth'_Xa, pth'_Ya.
Qed.

Lemma Jts : joined v et es.
Proof. apply joined_sym, Jst. Qed.

Lemma blossom_LabOk : LabOk v (mate s') labs' pth' rk'.
Proof.
  rewrite Smate. unfold labs'. constructor.
  - apply (lo_len HL).
  - apply (lo_dummy HL).
  - apply (lo_sym HL).
  - intros u Hu. destruct (outer'_cases u Hu) as [[Ho ->]|[[Hx ->]|[Hy ->]]].
    + apply (lo_hd HL u Ho).
    + unfold npath. eauto.
    + unfold npath. eauto.
  - intros u x Hu Hx. destruct (outer'_cases u Hu) as [[Ho E]|[[Hxa E]|[Hya E]]]; rewrite E in Hx.
    + apply (lo_range HL u x Ho Hx).
    + apply (npath_range es et Xa Xb Hes Het EX u x Hxa Hx).
    + apply (npath_range et es Ya Yb Het Hes EY u x Hya Hx).
  - intros u Hu. destruct (outer'_cases u Hu) as [[Ho ->]|[[Hxa ->]|[Hya ->]]].
    + apply (lo_nodup HL u Ho).
    + apply (npath_nodup es et Xa Xb Hes Het EX DX u Hxa).
    + apply (npath_nodup et es Ya Yb Het Hes EY DY u Hya).
  - intros u Hu. destruct (outer'_cases u Hu) as [[Ho ->]|[[Hxa ->]|[Hya ->]]].
    + apply (lo_odd HL u Ho).
    + apply (npath_odd es et Xa Xb Hes Het EX u Hxa).
    + apply (npath_odd et es Ya Yb Het Hes EY u Hya).
  - intros u i a Hu Ha. destruct (outer'_cases u Hu) as [[Ho E]|[[Hxa E]|[Hya E]]]; rewrite E in *.
    + apply (lo_mate HL u i a Ho Ha).
    + apply (proj1 (npath_alt es et Xa Xb Hes Het EX Jst u Hxa) i a Ha).
    + apply (proj1 (npath_alt et es Ya Yb Het Hes EY Jts u Hya) i a Ha).
  - intros u Hu.
    assert (Hnn : ~ In u New) by (intros Hin; rewrite (Slab_new u Hin) in Hu; discriminate).
    destruct (Slab_old u Hnn) as [E|[E _]]; [|try unfold labs' in Hu; rewrite E in Hu; discriminate].
    try unfold labs' in Hu. rewrite E in Hu.
    assert (Ho : outerv labs u) by (exists LStart; auto).
    rewrite (pth'_old u Ho). apply (lo_start HL u Hu).
  - intros u x Hu.
    assert (Hnn : ~ In u New) by (intros Hin; rewrite (Slab_new u Hin) in Hu; discriminate).
    destruct (Slab_old u Hnn) as [E|[E _]]; [|try unfold labs' in Hu; rewrite E in Hu; discriminate].
    try unfold labs' in Hu. rewrite E in Hu.
    assert (Ho : outerv labs u) by (exists (LVertex x); auto).
    destruct (lo_vertex HL u x Hu) as [Hx [Hr [w Hp]]].
    split; [apply outer'_iff; left; exact Hx|]. split.
    + rewrite (rk'_old u Ho), (rk'_old x Hx). exact Hr.
    + exists w. rewrite (pth'_old u Ho), (pth'_old x Hx). exact Hp.
  - intros u e0 a b Hu.
    assert (Oes : outerv labs' es) by (apply outer'_iff; left; exact Hes).
    assert (Oet : outerv labs' et) by (apply outer'_iff; left; exact Het).
    destruct (in_dec Nat.eq_dec u New) as [Hin|Hnn].
    + try unfold labs' in Hu. rewrite (Slab_new u Hin) in Hu. injection Hu as <- <- <-.
      split; [exact Oes|]. split; [exact Oet|].
      rewrite (rk'_new u Hin), (rk'_old es Hes), (rk'_old et Het).
      split; [apply (si_rk _ _ _ _ _ I es Hes)|]. split; [apply (si_rk _ _ _ _ _ I et Het)|].
      assert (Hside : forall p A Ab, outerv labs p -> xs v s pth p = A ++ j :: Ab ->
                (forall y, In y A -> In y New) -> In u A ->
                forall z, In z (before u (pth p)) -> outerv labs' z /\ rk' z <= nout labs).
      { intros p A Ab Hp Ep HA HuA z Hz. split.
        - apply (side_outer' p A Ab u z Hp Ep HA HuA). right. rewrite <- in_rev. exact Hz.
        - destruct (side_prefix p A Ab Hp Ep u z HuA Hz) as [H|H].
          + rewrite (rk'_old z H). apply Nat.lt_le_incl. exact (si_rk _ _ _ _ _ I z H).
          + rewrite (rk'_new z (HA z H)). lia. }
      apply in_app_or in Hin. destruct Hin as [Hx|Hy].
      * left. destruct (side_split es Xa Xb Hes EX u Hx) as [b0 [_ [_ [Hb _]]]].
        exists (before u (pth es)), b0. rewrite (pth'_old es Hes), (pth'_old et Het), (pth'_Xa u Hx).
        split; [exact Hb|]. split; [reflexivity|]. apply (Hside es Xa Xb Hes EX XaNew Hx).
      * right. destruct (side_split et Ya Yb Het EY u Hy) as [b0 [_ [_ [Hb _]]]].
        exists (before u (pth et)), b0. rewrite (pth'_old es Hes), (pth'_old et Het), (pth'_Ya u Hy).
        split; [exact Hb|]. split; [reflexivity|]. apply (Hside et Ya Yb Het EY YaNew Hy).
    + destruct (Slab_old u Hnn) as [E|[E _]]; [|try unfold labs' in Hu; rewrite E in Hu; discriminate].
      try unfold labs' in Hu. rewrite E in Hu.
      assert (Ho : outerv labs u) by (exists (LEdge e0 a b); auto).
      destruct (lo_edge HL u e0 a b Hu) as [Ha [Hb [Ra [Rb Hc]]]].
      split; [apply outer'_iff; left; exact Ha|]. split; [apply outer'_iff; left; exact Hb|].
      rewrite (rk'_old u Ho), (rk'_old a Ha), (rk'_old b Hb), (pth'_old u Ho), (pth'_old a Ha), (pth'_old b Hb).
      split; [exact Ra|]. split; [exact Rb|].
      destruct Hc as [[a0 [b0 [H1 [H2 H3]]]]|[a0 [b0 [H1 [H2 H3]]]]]; [left | right];
        exists a0, b0; (split; [exact H1|]); (split; [exact H2|]);
        intros z Hz; destruct (H3 z Hz) as [Hzo Hzr];
        (split; [apply outer'_iff; left; exact Hzo | rewrite (rk'_old z Hzo); exact Hzr]).
  - intros u i a b Hu Ha Hb. destruct (outer'_cases u Hu) as [[Ho E]|[[Hxa E]|[Hya E]]]; rewrite E in *.
    + apply (lo_join HL u i a b Ho Ha Hb).
    + apply (proj2 (npath_alt es et Xa Xb Hes Het EX Jst u Hxa) i a b Ha Hb).
    + apply (proj2 (npath_alt et es Ya Yb Het Hes EY Jts u Hya) i a b Ha Hb).
Qed.

Lemma nout_grows : nout labs < nout labs'.
Proof.
  assert (Hex : exists k0, In k0 New).
  { generalize Nne. generalize New. intros [|k r] H; [contradiction | exists k; left; reflexivity]. }
  destruct Hex as [k0 Hk0].
  destruct (new_elem k0 Hk0) as [_ [Hlt Hno]].
  apply (nout_strict labs labs' k0).
  - unfold labs, labs'. rewrite Slablen. apply (si_lablen _ _ _ _ _ I).
  - intros k Hk. change (outb labs k = true) in Hk. change (outb labs' k = true).
    rewrite (outb_old k (old_not_new k (proj2 (outerv_outb _ _) Hk))). exact Hk.
  - unfold labs. rewrite (si_lablen _ _ _ _ _ I). lia.
  - change (outb labs k0 = false). destruct (outb labs k0) eqn:E; [|reflexivity].
    exfalso. apply Hno, outerv_outb, E.
  - change (outb labs' k0 = true). apply outb_new, Hk0.
Qed.

Theorem blossom_SI : SI v start s' pth' rk'.
Proof.
  assert (Hstart_out : outerv labs start) by (exists LStart; split; [apply (si_start _ _ _ _ _ I) | reflexivity]).
  constructor.
  - rewrite Smate. apply (si_gm _ _ _ _ _ I).
  - rewrite Smate, Snedges. apply (si_cnt _ _ _ _ _ I).
  - apply blossom_LabOk.
  - exact Slablen.
  - exact Sfinlen.
  - change (nth_error labs' start = Some LStart). rewrite (lab'_old start Hstart_out). apply (si_start _ _ _ _ _ I).
  - intros u Hu.
    assert (Hnn : ~ In u New) by (intros Hin; rewrite (Slab_new u Hin) in Hu; discriminate).
    destruct (Slab_old u Hnn) as [E|[E _]]; [|rewrite E in Hu; discriminate].
    rewrite E in Hu. apply (si_start_only _ _ _ _ _ I u Hu).
  - rewrite Smate. apply (si_start_free _ _ _ _ _ I).
  - intros u Hu. pose proof nout_grows as Hg. change (rk' u < nout labs').
    apply outer'_iff in Hu. destruct Hu as [Hu|Hu].
    + rewrite (rk'_old u Hu). pose proof (si_rk _ _ _ _ _ I u Hu) as Hr. change (rk u < nout labs) in Hr. lia.
    + rewrite (rk'_new u Hu). exact Hg.
  - intros x Hx. apply outer'_iff. destruct (Squeue x Hx) as [H|H]; [left; apply (si_queue _ _ _ _ _ I x H) | right; exact H].
  - intros u p1 z p2 Hu Hp Hz. change (nth_error (fin s') z = Some (fno labs' d p2)).
    destruct (outer'_cases u Hu) as [[Ho E]|[[Hxa E]|[Hya E]]]; rewrite E in Hp.
    + apply (old_fin u p1 z p2 Ho Hp Hz).
    + apply (side_fin es et Xa Xb Ya Yb Hes Het EX EY XaNew YaNew u p1 z p2 Hxa Hp Hz).
    + apply (side_fin et es Ya Yb Xa Xb Het Hes EY EX YaNew XaNew u p1 z p2 Hya Hp Hz).
  - intros u f Hu Hf Hn.
    destruct (outer'_cases u Hu) as [[Ho E]|[[Hxa E]|[Hya E]]]; rewrite E in *.
    + apply (old_inner u f Ho Hf Hn).
    + apply (side_inner es et Xa Xb Hes Het EX XaNew u f Hxa Hf Hn).
    + apply (side_inner et es Ya Yb Het Hes EY YaNew u f Hya Hf Hn).
  - intros z e' Hz a er' Ha He'.
    assert (Hnn : ~ In z New) by (intros Hin; rewrite (Slab_new z Hin) in Hz; discriminate).
    destruct (Slab_old z Hnn) as [E|[E _]].
    + rewrite E in Hz. destruct (si_flag _ _ _ _ _ I z e' Hz a er' Ha He') as [Hoa [Hot Hfin]].
      split; [apply outer'_iff; left; exact Hoa|]. split; [apply outer'_iff; left; exact Hot|].
      pose proof (xs_hd v start s pth rk I a Hoa) as Fa. pose proof Fa as Ft. rewrite Hfin in Ft.
      rewrite (fin'_old a _ Hoa Fa), (fin'_old (tgt er') _ Hot Ft). reflexivity.
    + rewrite E in Hz. injection Hz as <-.
      assert (Oes : outerv (lab s') es) by (apply outer'_iff; left; exact Hes).
      assert (Oet : outerv (lab s') et) by (apply outer'_iff; left; exact Het).
      destruct fin'_es_et as [Fe Ft].
      destruct (EidOk a er' es er Ha Her) as [[-> Ht]|[-> Ht]]; [congruence| |].
      * rewrite Ht, Htgt. split; [exact Oes|]. split; [exact Oet|]. congruence.
      * rewrite Htgt, <- Ht. split; [exact Oet|]. split; [exact Oes|]. congruence.
Qed.

End Blossom.

Print Assumptions blossom_SI.
